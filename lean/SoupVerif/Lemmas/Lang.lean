/-
  Helper lemmas for property C13 (`:lang()` extended filtering).
-/
import SoupVerif.Model.Lang
import SoupVerif.Spec.Rfc4647
import SoupVerif.Generated.Regexes
namespace SoupVerif
namespace LangLemmas
open Spec

/-! ### Constants -/

theorem star_toStr : ("*".toStr : Str) = star := by decide

theorem star_ne_nil : star ≠ [] := by decide

/-! ### `lower`, `splitOn` -/

theorem lowerCp_idem (c : Nat) : lowerCp (lowerCp c) = lowerCp c := by
  unfold lowerCp
  by_cases h : 65 ≤ c ∧ c ≤ 90
  · simp [h]; omega
  · simp [h]

theorem lower_idem (s : Str) : lower (lower s) = lower s := by
  simp [lower, List.map_map, Function.comp_def, lowerCp_idem]

theorem lowerCp_eq_45 (c : Nat) : lowerCp c = 45 ↔ c = 45 := by
  unfold lowerCp
  by_cases h : 65 ≤ c ∧ c ≤ 90
  · simp [h]; omega
  · simp [h]

theorem lowerCp_eq_42 (c : Nat) : lowerCp c = 42 ↔ c = 42 := by
  unfold lowerCp
  by_cases h : 65 ≤ c ∧ c ≤ 90
  · simp [h]; omega
  · simp [h]

theorem lower_eq_nil (s : Str) : lower s = [] ↔ s = [] := by
  simp [lower]

theorem lower_eq_star (s : Str) : lower s = star ↔ s = star := by
  unfold lower star
  match s with
  | [] => simp
  | [c] => simp [lowerCp_eq_42]
  | _ :: _ :: _ => simp

theorem lower_length (s : Str) : (lower s).length = s.length := by simp [lower]

theorem splitOn_ne_nil (sep : Nat) (s : Str) : splitOn sep s ≠ [] := by
  cases s with
  | nil => simp [splitOn]
  | cons c cs =>
    unfold splitOn
    split
    · simp
    · split <;> simp

/-- `lower` fixes `-`, so splitting commutes with lower-casing. -/
theorem splitOn_lower (s : Str) : splitOn 45 (lower s) = (splitOn 45 s).map lower := by
  induction s with
  | nil => simp [lower, splitOn]
  | cons c cs ih =>
    have hl : lower (c :: cs) = lowerCp c :: lower cs := by simp [lower]
    rw [hl]
    unfold splitOn
    rw [ih]
    cases hsp : splitOn 45 cs with
    | nil => simp [lower]
    | cons p ps =>
      by_cases hc : c = 45
      · subst hc; simp [lowerCp, lower]
      · have hc' : ¬ lowerCp c = 45 := fun h => hc ((lowerCp_eq_45 c).1 h)
        simp [hc, hc', lower]

/-! ### The model loop -/

theorem filterLoop_nil (ss : List Str) : Lang.filterLoop [] ss = true := by
  rw [Lang.filterLoop]

theorem filterLoop_cons_nil (r : Str) (rs : List Str) : Lang.filterLoop (r :: rs) [] = false := by
  rw [Lang.filterLoop]

theorem filterLoop_cons_cons (r : Str) (rs : List Str) (s : Str) (ss : List Str) :
    Lang.filterLoop (r :: rs) (s :: ss) =
      if r.isEmpty then false
      else if s == r then Lang.filterLoop rs ss
      else if s.length == 1 then false
      else Lang.filterLoop (r :: rs) ss := by
  rw [Lang.filterLoop]

theorem filterLoop_empty_head (rs ss : List Str) : Lang.filterLoop ([] :: rs) ss = false := by
  cases ss with
  | nil => exact filterLoop_cons_nil _ _
  | cons s ss => rw [filterLoop_cons_cons]; rfl

theorem filterLoop_eq_rfcLoop (ss : List Str) :
    ∀ rs : List Str, (∀ r ∈ rs, r ≠ star) → (∀ r ∈ rs, r ≠ []) →
      Lang.filterLoop rs ss = rfcLoop rs ss := by
  induction ss with
  | nil =>
    intro rs h1 h2
    cases rs with
    | nil => rw [filterLoop_nil, rfcLoop_nil]
    | cons r rs =>
      have hs : (r == star) = false := by simpa using h1 r (by simp)
      rw [filterLoop_cons_nil, rfcLoop_cons_nil, hs]; rfl
  | cons s ss ih =>
    intro rs h1 h2
    cases rs with
    | nil => rw [filterLoop_nil, rfcLoop_nil]
    | cons r rs =>
      have hs : (r == star) = false := by simpa using h1 r (by simp)
      have he : r.isEmpty = false := by simpa using h2 r (by simp)
      have h1' : ∀ x ∈ rs, x ≠ star := fun x hx => h1 x (by simp [hx])
      have h2' : ∀ x ∈ rs, x ≠ [] := fun x hx => h2 x (by simp [hx])
      rw [filterLoop_cons_cons, rfcLoop_cons_cons, hs, he, ih rs h1' h2', ih (r :: rs) h1 h2]
      simp [isSingleton]

/-! ### Wildcards inside the range are redundant for the RFC loop -/

theorem rfcLoop_filter_star (rs : List Str) :
    ∀ ts, rfcLoop rs ts = rfcLoop (rs.filter (· != star)) ts := by
  induction rs with
  | nil => intro ts; rfl
  | cons r rs ih =>
    intro ts
    by_cases h : (r == star) = true
    · have : (r != star) = false := by simp [bne, h]
      simp only [List.filter_cons, this]
      simp only [rfcLoop, h, if_true]
      exact ih ts
    · have h' : (r != star) = true := by simp [bne, h]
      simp only [List.filter_cons, h', if_true]
      simp only [rfcLoop, h]
      have : rfcLoop rs = rfcLoop (rs.filter (· != star)) := funext ih
      rw [this]

theorem filter_bne_eq_filter_ne (rs : List Str) :
    rs.filter (fun x => decide (x ≠ star)) = rs.filter (· != star) := by
  apply List.filter_congr
  intro x _
  by_cases hx : x = star <;> simp [bne, hx]

theorem rfcLoop_append_star (rs : List Str) (ts : List Str) :
    rfcLoop (rs ++ [star]) ts = rfcLoop rs ts := by
  rw [rfcLoop_filter_star (rs ++ [star]), rfcLoop_filter_star rs]
  simp [List.filter_append]

/-! ### `stripWild` -/

theorem stripWild_idem (rs : List Str) : stripWild (stripWild rs) = stripWild rs := by
  cases rs with
  | nil => rfl
  | cons r rs => simp [stripWild, List.filter_filter]

theorem stripWild_wellFormed (r : Str) (rs : List Str) (h : ∀ x ∈ rs, x ≠ []) :
    WellFormedRange (stripWild (r :: rs)) := by
  intro x hx
  simp only [List.mem_filter] at hx
  exact ⟨h x hx.1, by simpa using hx.2⟩

theorem stripWild_of_wellFormed (rs : List Str) (h : WellFormedRange rs) : stripWild rs = rs := by
  cases rs with
  | nil => rfl
  | cons r rs =>
    simp only [stripWild, List.cons.injEq, true_and, List.filter_eq_self]
    intro x hx
    simpa using (h x hx).2

theorem stripWild_map_lower (rs : List Str) :
    stripWild (rs.map lower) = (stripWild rs).map lower := by
  cases rs with
  | nil => rfl
  | cons r rs =>
    simp only [List.map_cons, stripWild, List.filter_map, List.cons.injEq, true_and]
    congr 1
    apply List.filter_congr
    intro x _
    have h : (lower x == star) = (x == star) := by
      rw [Bool.eq_iff_iff, beq_iff_eq, beq_iff_eq]; exact lower_eq_star x
    simp [bne, h]

/-! ### The declarative characterisation -/

theorem Embeds.skip_any {rs : List Str} {t : Str} {ts : List Str}
    (ht : isSingleton t = false) (h : Embeds rs ts) : Embeds rs (t :: ts) := by
  cases rs with
  | nil => exact Embeds.done _
  | cons r rs => exact Embeds.skip r rs t ts ht h

theorem Embeds.not_cons_nil {r : Str} {rs : List Str} : ¬ Embeds (r :: rs) [] := by
  intro h; cases h

/-- Dropping a leading range subtag that is not a singleton keeps an embedding: its match
    position becomes a skipped position. -/
theorem Embeds.drop_head {r : Str} (hr : isSingleton r = false) {rs : List Str} :
    ∀ {ts : List Str}, Embeds (r :: rs) ts → Embeds rs ts := by
  intro ts
  induction ts with
  | nil => intro h; cases h
  | cons t ts ih =>
    intro h
    cases h with
    | here _ _ _ h' => exact Embeds.skip_any hr h'
    | skip _ _ _ _ ht h' => exact Embeds.skip_any ht (ih h')

/-- Greedy exchange: if `r :: rs` embeds in `r :: ts` in any way, then `rs` embeds in `ts`
    (so taking the first possible match never loses). -/
theorem Embeds.cons_same {r : Str} {rs ts : List Str} (h : Embeds (r :: rs) (r :: ts)) :
    Embeds rs ts := by
  cases h with
  | here _ _ _ h' => exact h'
  | skip _ _ _ _ ht h' => exact Embeds.drop_head ht h'

theorem rfcLoop_iff_embeds (ts : List Str) :
    ∀ rs : List Str, (∀ r ∈ rs, r ≠ star) → (rfcLoop rs ts = true ↔ Embeds rs ts) := by
  induction ts with
  | nil =>
    intro rs h1
    cases rs with
    | nil => simp [rfcLoop_nil, Embeds.done]
    | cons r rs =>
      have hs : (r == star) = false := by simpa using h1 r (by simp)
      rw [rfcLoop_cons_nil, hs]
      simp [Embeds.not_cons_nil]
  | cons t ts ih =>
    intro rs h1
    cases rs with
    | nil => simp [rfcLoop_nil, Embeds.done]
    | cons r rs =>
      have hs : (r == star) = false := by simpa using h1 r (by simp)
      have h1' : ∀ x ∈ rs, x ≠ star := fun x hx => h1 x (by simp [hx])
      rw [rfcLoop_cons_cons, hs]
      by_cases htr : t = r
      · subst htr
        simp only [Bool.false_eq_true, if_false, beq_self_eq_true, if_true]
        rw [ih rs h1']
        exact ⟨fun h => Embeds.here _ _ _ h, Embeds.cons_same⟩
      · have htr' : (t == r) = false := by simpa using htr
        simp only [Bool.false_eq_true, if_false, htr']
        cases hsing : isSingleton t with
        | true =>
          simp only [if_true, Bool.false_eq_true, false_iff]
          intro h
          cases h with
          | here _ _ _ _ => exact htr rfl
          | skip _ _ _ _ ht _ => rw [hsing] at ht; cases ht
        | false =>
          simp only [Bool.false_eq_true, if_false]
          rw [ih (r :: rs) h1]
          constructor
          · exact fun h => Embeds.skip _ _ _ _ hsing h
          · intro h
            cases h with
            | here _ _ _ _ => exact absurd rfl htr
            | skip _ _ _ _ _ h' => exact h'

theorem embedsB_iff (ts : List Str) : ∀ rs : List Str, embedsB rs ts = true ↔ Embeds rs ts := by
  induction ts with
  | nil =>
    intro rs
    cases rs with
    | nil => simp [embedsB, Embeds.done]
    | cons r rs => simp [embedsB, Embeds.not_cons_nil]
  | cons t ts ih =>
    intro rs
    cases rs with
    | nil => simp [embedsB, Embeds.done]
    | cons r rs =>
      simp only [embedsB, Bool.or_eq_true, Bool.and_eq_true, beq_iff_eq, Bool.not_eq_true',
        ih rs, ih (r :: rs)]
      constructor
      · rintro (⟨rfl, h⟩ | ⟨ht, h⟩)
        · exact Embeds.here _ _ _ h
        · exact Embeds.skip _ _ _ _ ht h
      · intro h
        cases h with
        | here _ _ _ h' => exact Or.inl ⟨rfl, h'⟩
        | skip _ _ _ _ ht h' => exact Or.inr ⟨ht, h'⟩

instance (rs ts : List Str) : Decidable (Embeds rs ts) :=
  decidable_of_iff _ (embedsB_iff ts rs)

instance (range tag : List Str) : Decidable (extFilterDecl range tag) := by
  unfold extFilterDecl
  split <;> infer_instance

/-! ### `filterCore` against the RFC algorithm -/

theorem filterCore_eq (r : Str) (rs : List Str) (s : Str) (ss : List Str)
    (hwf : WellFormedRange (r :: rs)) :
    Lang.filterCore (r :: rs) (s :: ss) =
      if r :: rs == emptyText then s :: ss == emptyText
      else (extFilterAlg (r :: rs) (s :: ss) && !(r :: rs == [star] && s :: ss == emptyText)) := by
  have h1 : ∀ x ∈ rs, x ≠ star := fun x hx => (hwf x hx).2
  have h2 : ∀ x ∈ rs, x ≠ [] := fun x hx => (hwf x hx).1
  unfold Lang.filterCore extFilterAlg
  simp only []
  rw [star_toStr, filterLoop_eq_rfcLoop ss rs h1 h2]
  by_cases hstar : r = star
  · subst hstar
    have : star.isEmpty = false := by decide
    cases rs with
    | nil => cases ss <;> cases s <;> simp [emptyText, rfcLoop_nil, star]
    | cons x xs =>
      have hx : (x == star) = false := by simpa using h1 x (by simp)
      cases ss <;> cases s <;> simp [emptyText, rfcLoop_cons_nil, hx, this]
  · have hstar' : (r == star) = false := by simpa using hstar
    by_cases hre : r = []
    · subst hre
      cases rs with
      | nil => cases ss <;> cases s <;> simp [emptyText]
      | cons x xs => cases s <;> simp [emptyText, star]
    · have hre' : r.isEmpty = false := by simpa using hre
      by_cases hrs : r = s
      · subst hrs
        simp [hstar', hre', emptyText]
      · simp [hstar, hrs, hre', emptyText]

/-! ### Algorithm, declarative and positional forms -/

theorem stripWild_tail_no_star {range : List Str} {r : Str} {rs : List Str}
    (h : stripWild range = r :: rs) : ∀ x ∈ rs, x ≠ star := by
  cases range with
  | nil => cases h
  | cons a as =>
    simp only [stripWild, List.cons.injEq] at h
    intro x hx
    rw [← h.2, List.mem_filter] at hx
    simpa using hx.2

theorem extFilterAlg_stripWild (range tag : List Str) :
    extFilterAlg (stripWild range) tag = extFilterAlg range tag := by
  cases range with
  | nil => rfl
  | cons r rs =>
    cases tag with
    | nil => rfl
    | cons t ts => simp only [stripWild, extFilterAlg]; rw [← rfcLoop_filter_star]

theorem extFilterAlg_iff_decl (range tag : List Str) :
    extFilterAlg range tag = true ↔ extFilterDecl range tag := by
  rw [← extFilterAlg_stripWild]
  unfold extFilterDecl
  cases h : stripWild range with
  | nil => simp [extFilterAlg]
  | cons r rs =>
    cases tag with
    | nil => simp [extFilterAlg]
    | cons t ts =>
      have hns := stripWild_tail_no_star h
      simp [extFilterAlg, rfcLoop_iff_embeds ts rs hns]

theorem embedsAt_of_embeds {rs ts : List Str} (h : Embeds rs ts) : ∃ ps, EmbedsAt rs ts ps := by
  induction h with
  | done ts => exact ⟨[], by simp [EmbedsAt]⟩
  | here r rs ts _ ih =>
    obtain ⟨ps, hps⟩ := ih
    exact ⟨0 :: ps, by simp [EmbedsAt, hps]⟩
  | skip r rs t ts ht _ ih =>
    obtain ⟨ps, hps⟩ := ih
    cases ps with
    | nil => simp [EmbedsAt] at hps
    | cons p ps =>
      refine ⟨(p + 1) :: ps, ?_⟩
      simp only [EmbedsAt] at hps ⊢
      obtain ⟨a, b, c⟩ := hps
      refine ⟨?_, ?_, ?_⟩
      · intro x hx
        simp only [List.take_succ_cons, List.mem_cons] at hx
        rcases hx with rfl | hx
        · exact ht
        · exact a x hx
      · simpa using b
      · simpa using c

theorem embeds_of_embedsAt (rs : List Str) :
    ∀ (ts : List Str) (ps : List Nat), EmbedsAt rs ts ps → Embeds rs ts := by
  induction rs with
  | nil => intro ts _ _; exact Embeds.done ts
  | cons r rs ihr =>
    intro ts ps h
    cases ps with
    | nil => simp [EmbedsAt] at h
    | cons p ps =>
      induction p generalizing ts with
      | zero =>
        cases ts with
        | nil => simp [EmbedsAt] at h
        | cons t ts =>
          simp only [EmbedsAt, List.take_zero, List.not_mem_nil, false_imp_iff, implies_true,
            true_and] at h
          simp only [List.getElem?_cons_zero, Option.some.injEq, Nat.zero_add, List.drop_succ_cons,
            List.drop_zero] at h
          obtain ⟨rfl, h'⟩ := h
          exact Embeds.here _ _ _ (ihr ts ps h')
      | succ p ih =>
        cases ts with
        | nil => simp [EmbedsAt] at h
        | cons t ts =>
          simp only [EmbedsAt, List.take_succ_cons, List.mem_cons, forall_eq_or_imp,
            List.getElem?_cons_succ, List.drop_succ_cons] at h
          obtain ⟨⟨ht, a⟩, b, c⟩ := h
          exact Embeds.skip _ _ _ _ ht (ih ts ⟨a, b, c⟩)

theorem embeds_iff_embedsAt (rs ts : List Str) : Embeds rs ts ↔ ∃ ps, EmbedsAt rs ts ps :=
  ⟨embedsAt_of_embeds, fun ⟨ps, h⟩ => embeds_of_embedsAt rs ts ps h⟩

theorem extFilterDecl_iff_pos (range tag : List Str) :
    extFilterDecl range tag ↔ extFilterPos range tag := by
  unfold extFilterDecl extFilterPos
  split
  · rw [embeds_iff_embedsAt]
  · exact Iff.rfl

/-! ### The model against the C13 specification -/

theorem filterCore_nil_right (range : List Str) : Lang.filterCore range [] = false := by
  unfold Lang.filterCore; split <;> simp_all

theorem filterCore_eq_c13Match (range tag : List Str) (hr : WellFormedRange range) :
    Lang.filterCore range tag = c13Match range tag := by
  cases range with
  | nil => exact absurd hr (by simp [WellFormedRange])
  | cons r rs =>
    unfold c13Match
    rw [stripWild_of_wellFormed _ hr]
    cases tag with
    | nil =>
      rw [filterCore_nil_right]
      simp [extFilterAlg, emptyText]
    | cons s ss =>
      rw [filterCore_eq r rs s ss hr]
      by_cases he : (r :: rs == emptyText) = true
      · simp [he]
      · simp only [he, Bool.false_eq_true, if_false]
        by_cases hst : (r :: rs == [star]) = true
        · have h := eq_of_beq hst
          simp only [List.cons.injEq] at h
          obtain ⟨rfl, rfl⟩ := h
          cases s <;> cases ss <;> simp [extFilterAlg, emptyText, rfcLoop_nil, star]
        · simp [hst]

theorem c13Match_stripWild (range tag : List Str) :
    c13Match (stripWild range) tag = c13Match range tag := by
  unfold c13Match
  rw [stripWild_idem, extFilterAlg_stripWild]

theorem filterCore_stripWild_eq (r : Str) (rs : List Str) (s : Str) (ss : List Str)
    (hne : ∀ x ∈ rs, x ≠ []) :
    Lang.filterCore (stripWild (r :: rs)) (s :: ss) =
      if stripWild (r :: rs) == emptyText then s :: ss == emptyText
      else (extFilterAlg (r :: rs) (s :: ss) &&
        !(stripWild (r :: rs) == [star] && s :: ss == emptyText)) := by
  have hwf := stripWild_wellFormed r rs hne
  rw [← extFilterAlg_stripWild (r :: rs)]
  exact filterCore_eq r _ s ss hwf

theorem filterCore_stripWild_eq_c13Match (range tag : List Str)
    (hne : range ≠ []) (htl : ∀ x ∈ range.tail, x ≠ []) :
    Lang.filterCore (stripWild range) tag = c13Match range tag := by
  cases range with
  | nil => exact absurd rfl hne
  | cons r rs =>
    rw [← c13Match_stripWild]
    exact filterCore_eq_c13Match _ _ (stripWild_wellFormed r rs htl)

theorem extendedFilter_eq_c13Match (w : Str → Str) (range tag : Str)
    (hw : splitOn 45 (w range) = stripWild (splitOn 45 range))
    (hne : ∀ x ∈ (splitOn 45 range).tail, x ≠ []) :
    Lang.extendedFilter w range tag =
      c13Match ((splitOn 45 range).map lower) ((splitOn 45 tag).map lower) := by
  unfold Lang.extendedFilter
  rw [splitOn_lower, splitOn_lower, hw, ← stripWild_map_lower]
  apply filterCore_stripWild_eq_c13Match
  · simpa using splitOn_ne_nil 45 range
  · intro x hx
    rw [← List.map_tail, List.mem_map] at hx
    obtain ⟨y, hy, rfl⟩ := hx
    exact fun h => hne y hy ((lower_eq_nil y).1 h)

/-! ### Decidability of the hypotheses (for examples) -/

instance decWellFormedRange : (rs : List Str) → Decidable (WellFormedRange rs)
  | [] => isFalse (fun h => h)
  | _ :: rs => inferInstanceAs (Decidable (∀ x ∈ rs, x ≠ [] ∧ x ≠ star))

instance decEmbedsAt : (rs ts : List Str) → (ps : List Nat) → Decidable (EmbedsAt rs ts ps)
  | [], _, [] => isTrue trivial
  | r :: rs, ts, p :: ps =>
    have := decEmbedsAt rs (ts.drop (p + 1)) ps
    inferInstanceAs (Decidable ((∀ x ∈ ts.take p, isSingleton x = false) ∧ ts[p]? = some r ∧
      EmbedsAt rs (ts.drop (p + 1)) ps))
  | [], _, _ :: _ => isFalse (fun h => h)
  | _ :: _, _, [] => isFalse (fun h => h)

/-! ### Text-level effect of the two regex substitutions

`$` is read as "end of text".  Python's `$` (no MULTILINE) also matches just before a final
`\n`, so these functions are the regexes' effect only on texts without a trailing newline
(see the examples in `Properties/C13.lean`, checked against the regex model). -/

/-- `s ∈ ("-*")*`. -/
def isStarRun : Str → Bool
  | [] => true
  | [_] => false
  | a :: b :: rest => a == 45 && b == 42 && isStarRun rest

/-- `RE_WILD_TAIL.sub('', s)`, `RE_WILD_TAIL = (?:-\*)+$`: cut the text at the leftmost position
    from which it is a non-empty run of `-*` up to the end. -/
def tailStrip : Str → Str
  | [] => []
  | c :: cs => if isStarRun (c :: cs) then [] else c :: tailStrip cs

/-- `RE_WILD_STRIP.sub('-', s)`, `RE_WILD_STRIP = (?:(?:-\*-)(?:\*(?:-|$))*|-\*$)`.
    The flag says "inside the `(?:\*(?:-|$))*` loop of a match that already emitted its `-`". -/
def collapse : Bool → Str → Str
  | true, 42 :: 45 :: rest => collapse true rest              -- loop: `*-`
  | true, [42] => []                                          -- loop: `*$`
  | _, 45 :: 42 :: 45 :: rest => 45 :: collapse true rest     -- `-*-` ↦ `-`, enter the loop
  | _, [45, 42] => [45]                                       -- `-*$` ↦ `-`
  | _, a :: rest => a :: collapse false rest                  -- no match here: copy
  | _, [] => []

/-- `RE_WILD_STRIP.sub('-', RE_WILD_TAIL.sub('', s))`. -/
def wildStripText (s : Str) : Str := collapse false (tailStrip s)

/-- Delete a maximal trailing run of `*` subtags. -/
def dropTrailingStars : List Str → List Str
  | [] => []
  | r :: rs => if (r :: rs).all (· == star) then [] else r :: dropTrailingStars rs

theorem splitOn_exists (s : Str) : ∃ p ps, splitOn 45 s = p :: ps := by
  cases h : splitOn 45 s with
  | nil => exact absurd h (splitOn_ne_nil 45 s)
  | cons p ps => exact ⟨p, ps, rfl⟩

theorem splitOn_dash (cs : Str) : splitOn 45 (45 :: cs) = [] :: splitOn 45 cs := by
  obtain ⟨p, ps, h⟩ := splitOn_exists cs
  simp [splitOn, h]

theorem splitOn_cons_ne {c : Nat} {cs p : Str} {ps : List Str} (hc : c ≠ 45)
    (h : splitOn 45 cs = p :: ps) : splitOn 45 (c :: cs) = (c :: p) :: ps := by
  simp [splitOn, h, hc]

theorem splitOn_head_nil {s : Str} {ps : List Str} (h : splitOn 45 s = [] :: ps) :
    s = [] ∨ ∃ rest, s = 45 :: rest := by
  cases s with
  | nil => exact Or.inl rfl
  | cons a s' =>
    by_cases ha : a = 45
    · exact Or.inr ⟨s', by rw [ha]⟩
    · obtain ⟨p, ps', h'⟩ := splitOn_exists s'
      rw [splitOn_cons_ne ha h'] at h
      simp at h

theorem splitOn_head_star {s : Str} {ps : List Str} (h : splitOn 45 s = star :: ps) :
    s = [42] ∨ ∃ rest, s = 42 :: 45 :: rest := by
  cases s with
  | nil => simp [splitOn, star] at h
  | cons a s' =>
    by_cases ha : a = 45
    · subst ha; rw [splitOn_dash] at h; simp [star] at h
    · obtain ⟨p, ps', h'⟩ := splitOn_exists s'
      rw [splitOn_cons_ne ha h'] at h
      simp only [star, List.cons.injEq] at h
      obtain ⟨⟨rfl, rfl⟩, rfl⟩ := h
      rcases splitOn_head_nil h' with rfl | ⟨rest, rfl⟩
      · exact Or.inl rfl
      · exact Or.inr ⟨rest, rfl⟩

theorem isStarRun_head {c : Nat} {cs : Str} (h : isStarRun (c :: cs) = true) : c = 45 := by
  cases cs with
  | nil => simp [isStarRun] at h
  | cons b rest => simp [isStarRun] at h; exact h.1.1

theorem isStarRun_dash : ∀ cs : Str, isStarRun (45 :: cs) = (splitOn 45 cs).all (· == star)
  | [] => by decide
  | [b] => by
    by_cases hb : b = 45
    · subst hb; decide
    · rw [splitOn_cons_ne hb rfl]; simp [isStarRun, star]
  | b :: c :: rest => by
    by_cases hc : c = 45
    · subst hc
      have ih := isStarRun_dash rest
      by_cases hb : b = 45
      · subst hb; rw [splitOn_dash, splitOn_dash]; simp [isStarRun, star]
      · rw [splitOn_cons_ne hb (splitOn_dash rest)]
        rw [isStarRun, ih]; simp [star]
    · have h1 : isStarRun (c :: rest) = false := by
        cases rest <;> simp [isStarRun, hc]
      obtain ⟨p, ps, h'⟩ := splitOn_exists rest
      by_cases hb : b = 45
      · subst hb; rw [splitOn_dash, splitOn_cons_ne hc h']; simp [isStarRun, star]
      · rw [splitOn_cons_ne hb (splitOn_cons_ne hc h')]
        simp [isStarRun, h1, star]

/-- Keep the first subtag, delete a maximal trailing run of `*` among the others. -/
def dropTS : List Str → List Str
  | [] => []
  | r :: rs => r :: dropTrailingStars rs

theorem dropTrailingStars_all {l : List Str} (h : l.all (· == star) = true) :
    dropTrailingStars l = [] := by
  cases l with
  | nil => rfl
  | cons r rs => simp only [dropTrailingStars, h, if_true]

theorem dropTrailingStars_not_all {r : Str} {rs : List Str}
    (h : (r :: rs).all (· == star) = false) :
    dropTrailingStars (r :: rs) = r :: dropTrailingStars rs := by
  simp only [dropTrailingStars, h, Bool.false_eq_true, if_false]

theorem dropTrailingStars_eq_nil {l : List Str} (h : dropTrailingStars l = []) :
    l.all (· == star) = true := by
  cases l with
  | nil => rfl
  | cons r rs =>
    cases hall : (r :: rs).all (· == star) with
    | true => rfl
    | false => rw [dropTrailingStars_not_all hall] at h; cases h

theorem splitOn_tailStrip (s : Str) : splitOn 45 (tailStrip s) = dropTS (splitOn 45 s) := by
  induction s with
  | nil => rfl
  | cons c cs ih =>
    obtain ⟨p, ps, hp⟩ := splitOn_exists cs
    cases hrun : isStarRun (c :: cs) with
    | true =>
      have hc := isStarRun_head hrun
      subst hc
      have ht : tailStrip (45 :: cs) = [] := by simp only [tailStrip, hrun, if_true]
      rw [isStarRun_dash] at hrun
      rw [ht, splitOn_dash, dropTS, dropTrailingStars_all hrun]; rfl
    | false =>
      have ht : tailStrip (c :: cs) = c :: tailStrip cs := by
        simp only [tailStrip, hrun, Bool.false_eq_true, if_false]
      rw [ht]
      by_cases hc : c = 45
      · subst hc
        rw [isStarRun_dash, hp] at hrun
        rw [splitOn_dash, splitOn_dash, ih, hp, dropTS, dropTS, dropTrailingStars_not_all hrun]
      · have h1 : splitOn 45 (tailStrip cs) = p :: dropTrailingStars ps := by rw [ih, hp]; rfl
        rw [splitOn_cons_ne hc h1, splitOn_cons_ne hc hp]; rfl

theorem filter_dropTrailingStars (l : List Str) :
    (dropTrailingStars l).filter (· != star) = l.filter (· != star) := by
  induction l with
  | nil => rfl
  | cons r rs ih =>
    cases hall : (r :: rs).all (· == star) with
    | true =>
      rw [dropTrailingStars_all hall]
      symm
      rw [List.filter_nil, List.filter_eq_nil_iff]
      intro x hx
      have := List.all_eq_true.1 hall x hx
      simp [bne, this]
    | false =>
      rw [dropTrailingStars_not_all hall, List.filter_cons, List.filter_cons, ih]

theorem getLast_dropTrailingStars (l : List Str) :
    (dropTrailingStars l).getLast? ≠ some star := by
  induction l with
  | nil => simp [dropTrailingStars]
  | cons r rs ih =>
    cases hall : (r :: rs).all (· == star) with
    | true => rw [dropTrailingStars_all hall]; simp
    | false =>
      rw [dropTrailingStars_not_all hall]
      cases hd : dropTrailingStars rs with
      | nil =>
        have := dropTrailingStars_eq_nil hd
        simp only [List.all_cons, this, Bool.and_true] at hall
        simp only [List.getLast?_singleton, ne_eq, Option.some.injEq]
        intro h; rw [h] at hall; simp at hall
      | cons d ds => rw [List.getLast?_cons_cons, ← hd]; exact ih

theorem collapse_copy (e : Bool) (a : Nat) (s' : Str)
    (h1 : ¬ (a = 45 ∧ ((∃ rest, s' = 42 :: 45 :: rest) ∨ s' = [42])))
    (h2 : ¬ (e = true ∧ a = 42 ∧ ((∃ rest, s' = 45 :: rest) ∨ s' = []))) :
    collapse e (a :: s') = a :: collapse false s' := by
  apply collapse.eq_5
  · intro r ha hr; exact h1 ⟨ha, Or.inl ⟨r, hr⟩⟩
  · intro ha hr; exact h1 ⟨ha, Or.inr hr⟩
  · intro r he ha hr; exact h2 ⟨he, ha, Or.inl ⟨r, hr⟩⟩
  · intro he ha hr; exact h2 ⟨he, ha, Or.inr hr⟩

theorem nil_bne_star : (([] : Str) != star) = true := by decide
theorem star_bne_star : (star != star) = false := by decide

/-- What `collapse` does on the subtag level, for both values of the flag, provided the text does
    not end in a `*` subtag (which `tailStrip` guarantees). -/
theorem collapse_spec (n : Nat) : ∀ s : Str, s.length ≤ n →
    ((splitOn 45 s).getLast? ≠ some star →
        splitOn 45 (collapse true s) = (splitOn 45 s).filter (· != star)) ∧
    (∀ p ps, splitOn 45 s = p :: ps → ps.getLast? ≠ some star →
        splitOn 45 (collapse false s) = p :: ps.filter (· != star)) := by
  have hnil : ((splitOn 45 []).getLast? ≠ some star →
        splitOn 45 (collapse true []) = (splitOn 45 []).filter (· != star)) ∧
      (∀ p ps, splitOn 45 [] = p :: ps → ps.getLast? ≠ some star →
        splitOn 45 (collapse false []) = p :: ps.filter (· != star)) := by
    refine ⟨fun _ => by decide, ?_⟩
    intro p ps h _
    simp only [splitOn, List.cons.injEq] at h
    obtain ⟨rfl, rfl⟩ := h
    rfl
  induction n with
  | zero =>
    intro s hs
    have : s = [] := List.eq_nil_of_length_eq_zero (Nat.le_zero.1 hs)
    subst this; exact hnil
  | succ n ih =>
    intro s hs
    cases s with
    | nil => exact hnil
    | cons a s' =>
      have hs' : s'.length ≤ n := Nat.le_of_succ_le_succ hs
      obtain ⟨p', ps', hp'⟩ := splitOn_exists s'
      by_cases ha : a = 45
      · subst ha
        by_cases h1 : ∃ rest, s' = 42 :: 45 :: rest
        · -- `-*-` : collapse, enter the loop
          obtain ⟨rest, rfl⟩ := h1
          have hrest : rest.length ≤ n := by
            simp only [List.length_cons] at hs'; omega
          have hsp : splitOn 45 (45 :: 42 :: 45 :: rest) = [] :: star :: splitOn 45 rest := by
            rw [splitOn_dash, splitOn_cons_ne (by decide) (splitOn_dash rest)]; rfl
          obtain ⟨q, qs, hq⟩ := splitOn_exists rest
          have hT := (ih rest hrest).1
          have hcol : ∀ e, collapse e (45 :: 42 :: 45 :: rest) = 45 :: collapse true rest :=
            fun e => collapse.eq_3 e rest
          constructor
          · intro hl
            rw [hsp, hq, List.getLast?_cons_cons, List.getLast?_cons_cons, ← hq] at hl
            rw [hcol, splitOn_dash, hsp, hT hl]
            simp only [List.filter_cons, nil_bne_star, star_bne_star, if_true]
            rfl
          · intro p ps h hl
            rw [hsp] at h
            simp only [List.cons.injEq] at h
            obtain ⟨rfl, rfl⟩ := h
            rw [hq, List.getLast?_cons_cons, ← hq] at hl
            rw [hcol, splitOn_dash, hT hl]
            simp only [List.filter_cons, star_bne_star]
            rfl
        · by_cases h2 : s' = [42]
          · -- text ends in `-*`: excluded by the hypotheses
            subst h2
            constructor
            · intro hl; exact absurd (by decide) hl
            · intro p ps h hl
              have h' : splitOn 45 [45, 42] = [[], star] := by decide
              rw [h'] at h
              simp only [List.cons.injEq] at h
              obtain ⟨rfl, rfl⟩ := h
              exact absurd (by decide) hl
          · -- plain `-`
            have hcol : ∀ e, collapse e (45 :: s') = 45 :: collapse false s' := by
              intro e
              apply collapse_copy
              · rintro ⟨_, h | h⟩
                · exact h1 h
                · exact h2 h
              · rintro ⟨_, h, _⟩; cases h
            have hF := (ih s' hs').2 p' ps' hp'
            have hpstar : p' ≠ star := by
              intro h; subst h
              rcases splitOn_head_star hp' with h | h
              · exact h2 h
              · exact h1 h
            have hpb : (p' != star) = true := by simpa [bne] using hpstar
            constructor
            · intro hl
              rw [splitOn_dash, hp'] at hl
              have hl' : ps'.getLast? ≠ some star := by
                cases ps' with
                | nil => simp
                | cons x xs =>
                  rw [List.getLast?_cons_cons, List.getLast?_cons_cons] at hl; exact hl
              rw [hcol, splitOn_dash, hF hl', splitOn_dash, hp']
              simp only [List.filter_cons, nil_bne_star, hpb, if_true]
            · intro p ps h hl
              rw [splitOn_dash, hp'] at h
              simp only [List.cons.injEq] at h
              obtain ⟨rfl, rfl⟩ := h
              have hl' : ps'.getLast? ≠ some star := by
                cases ps' with
                | nil => simp
                | cons x xs => rw [List.getLast?_cons_cons] at hl; exact hl
              rw [hcol, splitOn_dash, hF hl']
              simp only [List.filter_cons, hpb, if_true]
      · -- `a` is not `-`
        have hsp : splitOn 45 (a :: s') = (a :: p') :: ps' := splitOn_cons_ne ha hp'
        have hcolF : collapse false (a :: s') = a :: collapse false s' := by
          apply collapse_copy
          · rintro ⟨h, _⟩; exact ha h
          · rintro ⟨h, _⟩; cases h
        have hF := (ih s' hs').2 p' ps' hp'
        constructor
        · intro hl
          by_cases h3 : a = 42 ∧ ((∃ rest, s' = 45 :: rest) ∨ s' = [])
          · obtain ⟨rfl, h3 | h3⟩ := h3
            · -- loop: `*-`
              obtain ⟨rest, rfl⟩ := h3
              have hrest : rest.length ≤ n := by
                simp only [List.length_cons] at hs'; omega
              have hsp' : splitOn 45 (42 :: 45 :: rest) = star :: splitOn 45 rest :=
                splitOn_cons_ne (by decide) (splitOn_dash rest)
              obtain ⟨q, qs, hq⟩ := splitOn_exists rest
              rw [hsp', hq, List.getLast?_cons_cons, ← hq] at hl
              rw [collapse.eq_1, (ih rest hrest).1 hl, hsp']
              simp only [List.filter_cons, star_bne_star]
              rfl
            · -- loop: `*$`, excluded
              subst h3
              exact absurd (by decide) hl
          · have hcolT : collapse true (a :: s') = a :: collapse false s' := by
              apply collapse_copy
              · rintro ⟨h, _⟩; exact ha h
              · rintro ⟨_, h⟩; exact h3 h
            have hne : a :: p' ≠ star := by
              intro h
              simp only [star, List.cons.injEq] at h
              obtain ⟨rfl, rfl⟩ := h
              apply h3
              refine ⟨rfl, ?_⟩
              rcases splitOn_head_nil hp' with h | ⟨rest, h⟩
              · exact Or.inr h
              · exact Or.inl ⟨rest, h⟩
            have hneb : ((a :: p') != star) = true := by simpa [bne] using hne
            rw [hsp] at hl
            have hl' : ps'.getLast? ≠ some star := by
              cases ps' with
              | nil => simp
              | cons x xs => rw [List.getLast?_cons_cons] at hl; exact hl
            rw [hcolT, splitOn_cons_ne ha (hF hl'), hsp]
            simp only [List.filter_cons, hneb, if_true]
        · intro p ps h hl
          rw [hsp] at h
          simp only [List.cons.injEq] at h
          obtain ⟨rfl, rfl⟩ := h
          rw [hcolF, splitOn_cons_ne ha (hF hl)]

/-- The text-level strip is `stripWild` on the subtags — for EVERY text (no hypothesis on the
    subtags is needed). -/
theorem splitOn_wildStripText (s : Str) :
    splitOn 45 (wildStripText s) = stripWild (splitOn 45 s) := by
  unfold wildStripText
  obtain ⟨p, ps, hp⟩ := splitOn_exists s
  have h1 : splitOn 45 (tailStrip s) = p :: dropTrailingStars ps := by
    rw [splitOn_tailStrip, hp]; rfl
  rw [((collapse_spec _ (tailStrip s) (Nat.le_refl _)).2 p _ h1 (getLast_dropTrailingStars ps)),
    filter_dropTrailingStars, hp]
  rfl

/-! ### The regex model's strip (for examples that tie `wildStripText` to the two regexes) -/

/-- The wildcard strip as the driver instantiates it (`wildStripImpl` in `Driver/Main.lean`):
    the regex engine model run on the two regexes extracted from the source. -/
def wildStripRx (s : Str) : Str :=
  Rx.subAll asciiEnv Gen.cm_RE_WILD_STRIP [45] (Rx.subAll asciiEnv Gen.cm_RE_WILD_TAIL [] s)

/-- All texts over `alpha` of length at most `n`. -/
def allStrings (alpha : List Nat) : Nat → List Str
  | 0 => [[]]
  | n + 1 => [] :: (allStrings alpha n).flatMap (fun s => alpha.map (· :: s))

end LangLemmas
end SoupVerif
