/-
  C17 helpers, part 2: what the combinators of `StateLawsShape` mean to the matcher.

  Atoms an HTML-state selector looks at on one element (`isHtmlTag`, `tagIs`, `hasAttr`, `attrEq`)
  and the evaluation lemmas that turn `matchList c.htmlOnly l e <shape>` into a Boolean formula
  over those atoms.
-/
import SoupVerif.Lemmas.StateLawsShape
import SoupVerif.Properties.C05
import SoupVerif.Properties.C11
namespace SoupVerif.StateLaws
open SoupVerif C11 Names

/-! ### Atoms -/

/-- The element's name as `get_tag` reports it equals the (lower-case) keyword `n`. -/
def tagIs (c : Ctx) (e : Elem) (n : String) : Bool := c.tagName e == n.toStr

/-- The values of ALL the attributes an attribute selector `[n]` designates, as the value pattern
    sees them (a list value joined with spaces), in document order.  (In a tree made by a parser
    there is at most one; an `attrs` dictionary edited by hand can hold `type` and `TYPE`.) -/
def attrVals (c : Ctx) (e : Elem) (n : String) : List Str :=
  (matchAttributeValues c e n.toStr []).map nvalJoin

/-- The value of the first attribute an attribute selector `[n]` finds, as the value pattern sees
    it (a list value joined with spaces). -/
def attrVal (c : Ctx) (e : Elem) (n : String) : Option Str :=
  (matchAttributeName c e n.toStr []).map nvalJoin

theorem attrVal_eq_head? (c : Ctx) (e : Elem) (n : String) :
    attrVal c e n = (attrVals c e n).head? := by
  unfold attrVal attrVals
  rw [matchAttributeName_eq_head?, List.head?_map]

/-- `[n]` -/
def hasAttr (c : Ctx) (e : Elem) (n : String) : Bool := (attrVal c e n).isSome

theorem hasAttr_eq_any (c : Ctx) (e : Elem) (n : String) :
    hasAttr c e n = (attrVals c e n).any fun _ => true := by
  unfold hasAttr; rw [attrVal_eq_head?]
  cases attrVals c e n <;> rfl

/-- `[n=v]` with the engine's character comparison — SOME attribute `[n]` designates has the
    value `v`: `ic = true` folds both sides with the regex engine's case folding (`c.env.fold`),
    `ic = false` is plain equality. -/
def attrEq (c : Ctx) (e : Elem) (n : String) (ic : Bool) (v : String) : Bool :=
  (attrVals c e n).any fun s => litsEq c.env ic v.toStr s

/-- `[type=v]`: case-insensitive, except in a document parsed as XML (XHTML) where the
    `xml_type_pattern` makes it exact. -/
def typeIs (c : Ctx) (e : Elem) (v : String) : Bool := attrEq c e "type" (!c.isXml) v

/-- `[n=""]`: some attribute `[n]` designates is empty. -/
def attrEmpty (c : Ctx) (e : Elem) (n : String) : Bool := (attrVals c e n).any fun s => s == []

theorem litsEq_nil (env : CharEnv) (ic : Bool) (s : Str) : litsEq env ic [] s = (s == []) := by
  cases s <;> rfl

theorem attrEq_empty (c : Ctx) (e : Elem) (n : String) (ic : Bool) :
    attrEq c e n ic "" = attrEmpty c e n := by
  unfold attrEq attrEmpty
  congr 1; funext s
  show litsEq c.env ic [] s = _
  rw [litsEq_nil]

/-- In the ASCII environment `[n=v i]` is equality of the ASCII-lower-cased strings. -/
theorem attrEq_ascii_ic (c : Ctx) (e : Elem) (n v : String) (henv : c.env = asciiEnv) :
    attrEq c e n true v = (attrVals c e n).any fun s => lower s == lower v.toStr := by
  unfold attrEq; rw [henv]
  congr 1; funext s
  exact litsEq_ic _ _

theorem attrEq_exact (c : Ctx) (e : Elem) (n v : String) :
    attrEq c e n false v = (attrVals c e n).any fun s => s == v.toStr := by
  unfold attrEq
  congr 1; funext s
  exact litsEq_exact _ _ _

/-- When `[n]` designates at most one attribute (every tree made by a parser: attribute names are
    the keys of a dictionary), the tests read that attribute — the former formulation. -/
theorem attrEq_of_unique (c : Ctx) (e : Elem) (n : String) (ic : Bool) (v : String)
    (hu : (attrVals c e n).length ≤ 1) :
    attrEq c e n ic v = (match attrVal c e n with
      | none => false
      | some s => litsEq c.env ic v.toStr s) := by
  unfold attrEq; rw [attrVal_eq_head?]
  match h : attrVals c e n, hu with
  | [], _ => rfl
  | [s], _ => simp
  | _ :: _ :: _, hu => simp at hu

theorem attrEmpty_of_unique (c : Ctx) (e : Elem) (n : String)
    (hu : (attrVals c e n).length ≤ 1) :
    attrEmpty c e n = (attrVal c e n == some []) := by
  unfold attrEmpty; rw [attrVal_eq_head?]
  match h : attrVals c e n, hu with
  | [], _ => rfl
  | [s], _ => cases s <;> rfl
  | _ :: _ :: _, hu => simp at hu

/-! ### The HTML-only context leaves the atoms alone -/

variable (c : Ctx) (l : Loc) (e : Elem)

@[simp] theorem htmlOnly_isHtml : c.htmlOnly.isHtml = c.isHtml := rfl
@[simp] theorem htmlOnly_isXml : c.htmlOnly.isXml = c.isXml := rfl
@[simp] theorem htmlOnly_env : c.htmlOnly.env = c.env := rfl
@[simp] theorem htmlOnly_iframeRestrict : c.htmlOnly.iframeRestrict = true := rfl
@[simp] theorem htmlOnly_idem : c.htmlOnly.htmlOnly = c.htmlOnly := rfl
@[simp] theorem htmlOnly_tagName : c.htmlOnly.tagName e = c.tagName e := rfl
@[simp] theorem htmlOnly_tagNs : c.htmlOnly.tagNs e = c.tagNs e := rfl
@[simp] theorem htmlOnly_isHtmlTag : c.htmlOnly.isHtmlTag e = c.isHtmlTag e := rfl
@[simp] theorem htmlOnly_locIsIframe (p : Loc) : c.htmlOnly.locIsIframe p = c.locIsIframe p := rfl
theorem htmlOnly_ancestorsCut (b : Bool) (ps : List Loc) :
    c.htmlOnly.ancestorsCut b ps = c.ancestorsCut b ps := by
  induction ps with
  | nil => rfl
  | cons p ps ih =>
    unfold Ctx.ancestorsCut
    rw [ih]; rfl
@[simp] theorem htmlOnly_ancestors (b : Bool) : c.htmlOnly.ancestors l b = c.ancestors l b :=
  htmlOnly_ancestorsCut c b _
@[simp] theorem htmlOnly_parent (b : Bool) : c.htmlOnly.parent l b = c.parent l b := rfl
@[simp] theorem htmlOnly_attrByName (n : Str) : c.htmlOnly.attrByName e n = c.attrByName e n := rfl
@[simp] theorem htmlOnly_isRoot : c.htmlOnly.isRoot l = c.isRoot l := rfl

theorem htmlOnly_matchAttributeName (a : Str) :
    matchAttributeName c.htmlOnly e a [] = matchAttributeName c e a [] := rfl

theorem htmlOnly_matchAttributeValues (a : Str) :
    matchAttributeValues c.htmlOnly e a [] = matchAttributeValues c e a [] := rfl

@[simp] theorem htmlOnly_attrVal (n : String) : attrVal c.htmlOnly e n = attrVal c e n := by
  unfold attrVal; rw [htmlOnly_matchAttributeName]

@[simp] theorem htmlOnly_attrVals (n : String) : attrVals c.htmlOnly e n = attrVals c e n := by
  unfold attrVals; rw [htmlOnly_matchAttributeValues]

@[simp] theorem htmlOnly_hasAttr (n : String) : hasAttr c.htmlOnly e n = hasAttr c e n := by
  unfold hasAttr; rw [htmlOnly_attrVal]

@[simp] theorem htmlOnly_attrEq (n : String) (ic : Bool) (v : String) :
    attrEq c.htmlOnly e n ic v = attrEq c e n ic v := by
  unfold attrEq; rw [htmlOnly_attrVals]; rfl

theorem htmlOnly_tagDescendants (b : Bool) : c.htmlOnly.tagDescendants l b = c.tagDescendants l b := rfl

theorem htmlOnly_firstSubmit (xs : List Loc) : firstSubmit c.htmlOnly xs = firstSubmit c xs := by
  induction xs with
  | nil => rfl
  | cons x xs ih =>
    unfold firstSubmit
    rw [ih]; rfl

theorem htmlOnly_defaultForm : defaultForm c.htmlOnly l = defaultForm c l := by
  unfold defaultForm; rw [htmlOnly_ancestors]; rfl

theorem htmlOnly_matchDefault : matchDefault c.htmlOnly l = matchDefault c l := by
  unfold matchDefault
  rw [htmlOnly_defaultForm]
  cases defaultForm c l with
  | none => rfl
  | some f => simp only [htmlOnly_firstSubmit, htmlOnly_tagDescendants]

theorem htmlOnly_parentForm (x : Loc) : parentForm c.htmlOnly x = parentForm c x := by
  unfold parentForm; simp only [htmlOnly_ancestors]; rfl

theorem htmlOnly_matchIndeterminate : matchIndeterminate c.htmlOnly l = matchIndeterminate c l := by
  unfold matchIndeterminate
  simp only [htmlOnly_parentForm, htmlOnly_tagDescendants, htmlOnly_attrByName, htmlOnly_tagName,
    htmlOnly_isXml, htmlOnly_isHtmlTag]
theorem htmlOnly_matchPlaceholderShown :
    matchPlaceholderShown c.htmlOnly l = matchPlaceholderShown c l := rfl
theorem htmlOnly_matchRange (f : Nat) : matchRange c.htmlOnly e f = matchRange c e f := rfl

/-- An HTML-only list evaluates the same inside and outside the HTML-only context. -/
theorem matchList_htmlOnly (A : List Sel) (n : Bool) :
    matchList c.htmlOnly l e (.mk A n true) = matchList c l e (.mk A n true) := by
  rw [matchList_mk, matchList_mk]; rfl

theorem matchList_htmlOnly' (L : SelList) (h : L.isHtml = true) :
    matchList c.htmlOnly l e L = matchList c l e L := by
  cases L with
  | mk A n hh =>
    have : hh = true := h
    subst this
    exact matchList_htmlOnly c l e A n

/-- An HTML-only list in an HTML document. -/
theorem matchList_html (hc : c.isHtml = true) (A : List Sel) (n : Bool) :
    matchList c l e (.mk A n true) = (!A.isEmpty && (matchAny c.htmlOnly l e A != n)) := by
  rw [matchList_mk]; simp [hc]

/-! ### Compounds -/

/-- The selector-flag conjuncts of `match_selectors`. -/
def flagPart (c : Ctx) (l : Loc) (e : Elem) (flags : Nat) : Bool :=
  (!hasFlag flags SEL_DEFINED || matchDefined c e) &&
  (!hasFlag flags SEL_ROOT || matchRoot c l) &&
  (!hasFlag flags SEL_SCOPE || matchScope c l) &&
  (!hasFlag flags SEL_PLACEHOLDER_SHOWN || matchPlaceholderShown c l) &&
  (!hasFlag flags SEL_EMPTY || matchEmpty l) &&
  (!hasFlag flags RANGES || matchRange c e (flags &&& RANGES)) &&
  (!hasFlag flags SEL_DEFAULT || matchDefault c l) &&
  (!hasFlag flags SEL_INDETERMINATE || matchIndeterminate c l) &&
  (!hasFlag flags DIR_FLAGS || matchDir c l (flags &&& DIR_FLAGS))

/-- The relation conjunct of `match_selectors`. -/
def relPart (c : Ctx) (l : Loc) (rel : SelList) : Bool :=
  !rel.nonEmpty || relationWalk c l (headRel rel) (fun t =>
    match t.elem? with
    | some te => matchList c t te rel
    | none => false)

theorem matchNths_nil : matchNths c l e [] = true := by unfold matchNths; rfl

theorem matchSel_cmpG (tag : Option SelTag) (attrs : List AttrSel) (nth : List NthSel)
    (subs : List SelList) (rel : SelList) (rt : Rel) (flags : Nat) :
    matchSel c l e (cmpG tag attrs nth subs rel rt flags) =
      (matchTag c e tag && matchAttributes c e attrs && matchNths c l e nth &&
        matchSubs c l e subs && relPart c l rel && flagPart c l e flags) := by
  conv => lhs; unfold matchSel
  simp only [List.isEmpty_nil, Bool.true_or, Bool.and_true, subs_guard, relPart, flagPart]
  ac_rfl

@[simp] theorem relPart_E : relPart c l E = true := rfl

@[simp] theorem flagPart_zero : flagPart c l e 0 = true := by
  simp [flagPart, hasFlag]

theorem flagPart_default : flagPart c l e SEL_DEFAULT = matchDefault c l := by
  simp [flagPart, hasFlag, SEL_DEFAULT, SEL_DEFINED, SEL_ROOT, SEL_SCOPE, SEL_PLACEHOLDER_SHOWN,
    SEL_EMPTY, RANGES, SEL_IN_RANGE, SEL_OUT_OF_RANGE, SEL_INDETERMINATE, DIR_FLAGS, SEL_DIR_LTR,
    SEL_DIR_RTL]

theorem flagPart_indeterminate : flagPart c l e SEL_INDETERMINATE = matchIndeterminate c l := by
  simp [flagPart, hasFlag, SEL_DEFAULT, SEL_DEFINED, SEL_ROOT, SEL_SCOPE, SEL_PLACEHOLDER_SHOWN,
    SEL_EMPTY, RANGES, SEL_IN_RANGE, SEL_OUT_OF_RANGE, SEL_INDETERMINATE, DIR_FLAGS, SEL_DIR_LTR,
    SEL_DIR_RTL]

theorem flagPart_placeholder : flagPart c l e SEL_PLACEHOLDER_SHOWN = matchPlaceholderShown c l := by
  simp [flagPart, hasFlag, SEL_DEFAULT, SEL_DEFINED, SEL_ROOT, SEL_SCOPE, SEL_PLACEHOLDER_SHOWN,
    SEL_EMPTY, RANGES, SEL_IN_RANGE, SEL_OUT_OF_RANGE, SEL_INDETERMINATE, DIR_FLAGS, SEL_DIR_LTR,
    SEL_DIR_RTL]

theorem flagPart_in_range : flagPart c l e SEL_IN_RANGE = matchRange c e SEL_IN_RANGE := by
  simp [flagPart, hasFlag, SEL_DEFAULT, SEL_DEFINED, SEL_ROOT, SEL_SCOPE, SEL_PLACEHOLDER_SHOWN,
    SEL_EMPTY, RANGES, SEL_IN_RANGE, SEL_OUT_OF_RANGE, SEL_INDETERMINATE, DIR_FLAGS, SEL_DIR_LTR,
    SEL_DIR_RTL]

theorem flagPart_out_of_range : flagPart c l e SEL_OUT_OF_RANGE = matchRange c e SEL_OUT_OF_RANGE := by
  simp [flagPart, hasFlag, SEL_DEFAULT, SEL_DEFINED, SEL_ROOT, SEL_SCOPE, SEL_PLACEHOLDER_SHOWN,
    SEL_EMPTY, RANGES, SEL_IN_RANGE, SEL_OUT_OF_RANGE, SEL_INDETERMINATE, DIR_FLAGS, SEL_DIR_LTR,
    SEL_DIR_RTL]

/-- A plain compound: type selector, attribute selectors, `:is()`/`:not()` lists. -/
theorem matchSel_cmp (tag : Option SelTag) (attrs : List AttrSel) (subs : List SelList) :
    matchSel c l e (cmp tag attrs subs) =
      (matchTag c e tag && matchAttributes c e attrs && matchSubs c l e subs) := by
  rw [matchSel_cmpG, matchNths_nil, relPart_E, flagPart_zero]; simp

theorem matchList_isL (s : List Sel) : matchList c l e (isL s) = matchAny c l e s := by
  rw [matchList_pos]; simp

theorem matchList_notL (s : List Sel) :
    matchList c l e (notL s) = (!s.isEmpty && !matchAny c l e s) := by
  rw [matchList_neg]; simp

/-! ### Type selectors under the HTML-only namespace map -/

theorem nsGet_htmlOnly_html : c.htmlOnly.nsGet "html".toStr = some NS_XHTML := by
  simp [Ctx.nsGet, Ctx.htmlOnly]

theorem nsGet_htmlOnly_nil : c.htmlOnly.nsGet [] = none := by
  have : ("html".toStr : Str) ≠ [] := by decide
  simp [Ctx.nsGet, Ctx.htmlOnly, this]

theorem matchTag_none : matchTag c e none = true := rfl

/-- `name` (no prefix): no default namespace is declared in the HTML-only map, so only the name
    counts.  `n` is a lower-case keyword other than `*`. -/
theorem matchTag_T (n : String) (hl : lower n.toStr = n.toStr) (hs : (n.toStr == "*".toStr) = false) :
    matchTag c.htmlOnly e (T n) = tagIs c e n := by
  show (matchNamespace c.htmlOnly e ⟨n.toStr, none⟩ && matchTagname c.htmlOnly e ⟨n.toStr, none⟩) = _
  have h1 : matchNamespace c.htmlOnly e ⟨n.toStr, none⟩ = true := by
    simp [matchNamespace, nsGet_htmlOnly_nil]
  rw [h1, Bool.true_and]
  simp only [matchTagname, htmlOnly_isXml, htmlOnly_tagName, hl, ite_self, hs, Bool.or_false, tagIs]
  exact str_beq_comm _ _

theorem matchNamespace_html (n : Str) :
    matchNamespace c.htmlOnly e ⟨n, some "html".toStr⟩ = c.isHtmlTag e := by
  have h1 : ("html".toStr : Str).isEmpty = false := by decide
  have h2 : ("html".toStr : Str) ≠ [42] := by decide
  simp [matchNamespace, nsGet_htmlOnly_html, h1, h2, Ctx.isHtmlTag]

/-- `html|name` -/
theorem matchTag_HT (n : String) (hl : lower n.toStr = n.toStr) (hs : (n.toStr == "*".toStr) = false) :
    matchTag c.htmlOnly e (HT n) = (c.isHtmlTag e && tagIs c e n) := by
  show (matchNamespace c.htmlOnly e ⟨n.toStr, some "html".toStr⟩ &&
    matchTagname c.htmlOnly e ⟨n.toStr, some "html".toStr⟩) = _
  rw [matchNamespace_html]
  simp only [matchTagname, htmlOnly_isXml, htmlOnly_tagName, hl, ite_self, hs, Bool.or_false, tagIs]
  rw [str_beq_comm]

/-- `html|*` -/
theorem matchTag_HT_star : matchTag c.htmlOnly e (HT "*") = c.isHtmlTag e := by
  show (matchNamespace c.htmlOnly e ⟨"*".toStr, some "html".toStr⟩ &&
    matchTagname c.htmlOnly e ⟨"*".toStr, some "html".toStr⟩) = _
  rw [matchNamespace_html]
  have hl : lower [42] = [42] := by decide
  simp [matchTagname, hl]

/-! ### Attribute selectors -/

theorem matchAttributes_cons (a : AttrSel) (rest : List AttrSel) :
    matchAttributes c e (a :: rest) = (matchAttributes c e [a] && matchAttributes c e rest) := by
  simp [matchAttributes]

/-- Two or more attribute selectors: conjunction. -/
theorem matchAttributes_cons2 (a b : AttrSel) (rest : List AttrSel) :
    matchAttributes c e (a :: b :: rest) = (matchAttributes c e [a] && matchAttributes c e (b :: rest)) :=
  matchAttributes_cons c e a (b :: rest)

theorem isMatch_tmpl (env : CharEnv) (ic : Bool) (v s : Str) :
    Rx.isMatch env (tmpl ic v) s = litsEq env ic v s := by
  unfold tmpl; rw [bos_noop, lits_match]

/-- `[n]` -/
theorem matchAttributes_A (n : String) : matchAttributes c.htmlOnly e [A n] = hasAttr c e n := by
  rw [xml_type_pattern_choice, hasAttr_eq_any]
  show (matchAttributeValues c.htmlOnly e n.toStr []).any _ = _
  rw [htmlOnly_matchAttributeValues]
  unfold attrVals
  rw [List.any_map]
  congr 1; funext w
  simp

/-- `[type=v]` -/
theorem matchAttributes_Aty (v : String) : matchAttributes c.htmlOnly e [Aty v] = typeIs c e v := by
  rw [xml_type_pattern_choice]
  show (matchAttributeValues c.htmlOnly e "type".toStr []).any _ = _
  rw [htmlOnly_matchAttributeValues]
  unfold typeIs attrEq attrVals
  rw [List.any_map]
  congr 1; funext w
  cases hx : c.isXml <;> simp [hx, isMatch_tmpl]

/-- `[n=v]`, `[n=v i]` (`n` other than `type`) -/
theorem matchAttributes_Aval (n : String) (ic : Bool) (v : String) :
    matchAttributes c.htmlOnly e [Aval n ic v] = attrEq c e n ic v := by
  rw [xml_type_pattern_choice]
  show (matchAttributeValues c.htmlOnly e n.toStr []).any _ = _
  rw [htmlOnly_matchAttributeValues]
  unfold attrEq attrVals
  rw [List.any_map]
  congr 1; funext w
  simp [isMatch_tmpl]

/-! ### `:is(:not([type]), [type=""], [type=v₁], …)` -/

theorem matchAny_types (vs : List String) :
    matchAny c.htmlOnly l e (vs.map (fun v => cmp none [Aty v] [])) = vs.any (typeIs c e) := by
  induction vs with
  | nil => simp [matchAny_nil]
  | cons v vs ih =>
    rw [List.map_cons, matchAny_cons, ih, matchSel_cmp, matchTag_none, matchAttributes_Aty,
      matchSubs_nil]
    simp

/-- No `type`, an empty `type`, or one of the listed keywords. -/
theorem typeIn_eq (vs : List String) :
    matchList c.htmlOnly l e (typeIn vs) =
      (!hasAttr c e "type" || attrEmpty c e "type" || vs.any (typeIs c e)) := by
  unfold typeIn
  rw [matchList_isL, matchAny_cons, matchAny_cons, matchAny_types]
  simp only [matchSel_cmp, matchTag_none, matchAttributes_nil, matchSubs_cons, matchSubs_nil,
    matchList_notL, matchAny_cons, matchAny_nil, matchAttributes_A, matchAttributes_Aty,
    Bool.true_and, Bool.and_true, Bool.or_false, List.isEmpty_cons, Bool.not_false]
  rw [Bool.or_assoc]
  congr 2
  unfold typeIs
  rw [attrEq_empty]

/-! ### `get_attribute_by_name` agrees with the attribute selector for lower-case names -/

theorem man_bare_all (a : Str) :
    matchAttributeName c e a [] = (e.attrs.find? (fun x => nameEq c a x.key)).map valOf := by
  cases hsn : c.supportsNamespaces with
  | true => exact man_bare hsn e a
  | false =>
    rw [man_no_ns hsn]
    have hx : c.isXml = false := by
      simp [Ctx.supportsNamespaces] at hsn; exact hsn.1
    simp [nameEq, hx]

theorem attrByName_eq_selector (a : Str) (hl : lower a = a) :
    c.attrByName e a = matchAttributeName c e a [] := by
  rw [man_bare_all]
  unfold Ctx.attrByName nameEq
  cases hx : c.isXml
  · simp only [Bool.false_eq_true, if_false, hl]
    congr 1; apply find?_congr; intro x _; exact str_beq_comm _ _
  · simp only [if_true]
    congr 1; apply find?_congr; intro x _; exact str_beq_comm _ _

end SoupVerif.StateLaws
