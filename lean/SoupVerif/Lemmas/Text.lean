/-
  Helper lemmas for `Properties/C19`: substring tests, the `next_good` loop of
  `Model/TextWalk.lean` against the structural walk, the structural walk against
  `Loc.descendants`, and the structural text specification.
-/
import SoupVerif.Model.TextWalk
import SoupVerif.Spec.Text
import SoupVerif.Lemmas.TreeWalk
namespace SoupVerif
namespace TextLemmas
open TextWalk Spec

/-! ### Substrings -/

theorem isInfix_iff (t s : Str) : isInfix t s = true ↔ t <:+: s := by
  induction s with
  | nil =>
    unfold isInfix
    cases t <;> simp
  | cons c s ih =>
    unfold isInfix
    rw [Bool.or_eq_true, ih, List.isPrefixOf_iff_prefix, List.infix_cons_iff]

theorem occursInB_eq_isInfix (t s : Str) : Spec.occursInB t s = isInfix t s := by
  induction s with
  | nil => unfold Spec.occursInB isInfix; rfl
  | cons c s ih => unfold Spec.occursInB isInfix; rw [ih]

theorem occursIn_iff_infix (t s : Str) : Spec.occursIn t s ↔ t <:+: s := by
  constructor
  · rintro ⟨pre, post, h⟩; exact ⟨pre, post, h.symm⟩
  · rintro ⟨pre, post, h⟩; exact ⟨pre, post, h.symm⟩

theorem isInfix_iff_occursIn (t s : Str) : isInfix t s = true ↔ Spec.occursIn t s := by
  rw [isInfix_iff, occursIn_iff_infix]

/-! ### Sizes -/

mutual
theorem length_preorderNode (cut : Elem → Bool) : ∀ n : Node,
    (preorderNode cut n).length = 1 + size n
  | .elem e kids => by
    unfold preorderNode size
    simp [length_preorderKids cut kids]; omega
  | .str k s => by unfold preorderNode size; simp
theorem length_preorderKids (cut : Elem → Bool) : ∀ ks : List Node,
    (preorderKids cut ks).length = sizeKids ks
  | [] => by unfold preorderKids sizeKids; rfl
  | k :: ks => by
    unfold preorderKids sizeKids
    simp [length_preorderNode cut k, length_preorderKids cut ks]
end

/-! ### The loop, equation by equation -/

theorem skipLoop_nil (tags : Bool) (total i : Nat) (ng : Option Nat) :
    skipLoop tags total i ng [] = [] := by
  unfold skipLoop; rfl

/-- `child is not next_good`: `continue`. -/
theorem skipLoop_skip1 (tags : Bool) (total i g : Nat) (en : Entry) (rest : List Entry) (h : i ≠ g) :
    skipLoop tags total i (some g) (en :: rest) = skipLoop tags total (i + 1) (some g) rest := by
  conv => lhs; unfold skipLoop
  have : (i == g) = false := by simpa using h
  simp [this]

/-- `child is next_good`: `next_good = None` and the body runs as if it had been `None`. -/
theorem skipLoop_some_self (tags : Bool) (total g : Nat) (L : List Entry) :
    skipLoop tags total g (some g) L = skipLoop tags total g none L := by
  cases L with
  | nil => simp [skipLoop_nil]
  | cons en rest =>
    conv => lhs; unfold skipLoop
    conv => rhs; unfold skipLoop
    simp

/-- What is yielded for one node by `tags`. -/
def keep (tags : Bool) (n : Node) : Bool := n.isTag || !tags

theorem skipLoop_none_tag_cut (tags : Bool) (total i : Nat) (en : Entry) (rest : List Entry)
    (h1 : en.node.isTag = true) (h2 : en.isIframeCut = true) :
    skipLoop tags total i none (en :: rest) =
      en.node :: (if total ≤ i + 1 + en.subtreeSize then []
                  else skipLoop tags total (i + 1) (some (i + 1 + en.subtreeSize)) rest) := by
  conv => lhs; unfold skipLoop
  simp [h1, h2]

theorem skipLoop_none_tag_plain (tags : Bool) (total i : Nat) (en : Entry) (rest : List Entry)
    (h1 : en.node.isTag = true) (h2 : en.isIframeCut = false) :
    skipLoop tags total i none (en :: rest) = en.node :: skipLoop tags total (i + 1) none rest := by
  conv => lhs; unfold skipLoop
  simp [h1, h2]

theorem skipLoop_none_str (tags : Bool) (total i : Nat) (en : Entry) (rest : List Entry)
    (h1 : en.node.isTag = false) :
    skipLoop tags total i none (en :: rest) =
      (if tags then [] else [en.node]) ++ skipLoop tags total (i + 1) none rest := by
  conv => lhs; unfold skipLoop
  cases tags <;> simp [h1]

/-- Skipping a whole stretch: while `next_good` lies beyond, nothing is yielded. -/
theorem skipLoop_skip (tags : Bool) (total : Nat) (tail : List Entry) :
    ∀ (sub : List Entry) (j : Nat),
      skipLoop tags total j (some (j + sub.length)) (sub ++ tail) =
        skipLoop tags total (j + sub.length) (some (j + sub.length)) tail := by
  intro sub
  induction sub with
  | nil => intro j; simp
  | cons en sub ih =>
    intro j
    rw [List.cons_append, skipLoop_skip1 _ _ _ _ _ _ (by simp)]
    have h : j + (en :: sub).length = (j + 1) + sub.length := by simp; omega
    rw [h]
    exact ih (j + 1)

/-! ### The loop is the structural walk -/

theorem entryOf_node (cut : Elem → Bool) (n : Node) : (entryOf cut n).node = n := rfl
theorem entryOf_size (cut : Elem → Bool) (n : Node) : (entryOf cut n).subtreeSize = size n := rfl
theorem entryOf_cut_elem (cut : Elem → Bool) (e : Elem) (ks : List Node) :
    (entryOf cut (.elem e ks)).isIframeCut = cut e := rfl

mutual
/-- Invariant of the loop across one node and its subtree. -/
theorem skipLoop_node (cut : Elem → Bool) (tags : Bool) : ∀ (k : Node) (total i : Nat) (tail : List Entry),
    total = i + (1 + size k) + tail.length →
    skipLoop tags total i none (preorderNode cut k ++ tail) =
      (k :: cutWalkNode cut k).filter (keep tags) ++ skipLoop tags total (i + 1 + size k) none tail
  | .elem e kids, total, i, tail, htot => by
    unfold preorderNode
    rw [List.cons_append]
    cases hc : cut e with
    | true =>
      rw [skipLoop_none_tag_cut _ _ _ _ _ rfl (by rw [entryOf_cut_elem, hc])]
      rw [entryOf_node, entryOf_size]
      unfold cutWalkNode
      simp only [hc, if_true]
      have hk : keep tags (.elem e kids) = true := by simp [keep, Node.isTag]
      simp only [List.filter_cons, hk, if_true, List.filter_nil, List.cons_append, List.nil_append]
      congr 1
      split
      · rename_i hle
        have : tail.length = 0 := by omega
        have : tail = [] := List.eq_nil_of_length_eq_zero this
        subst this
        rw [skipLoop_nil]
      · have hs : size (.elem e kids) = (preorderKids cut kids).length := by
          rw [length_preorderKids]; unfold size; rfl
        rw [hs, Nat.add_assoc i 1, ← Nat.add_assoc, skipLoop_skip, skipLoop_some_self]
    | false =>
      rw [skipLoop_none_tag_plain _ _ _ _ _ rfl (by rw [entryOf_cut_elem, hc])]
      rw [entryOf_node]
      have hs : size (.elem e kids) = sizeKids kids := by unfold size; rfl
      rw [skipLoop_kids cut tags kids total (i + 1) tail (by rw [htot, hs]; omega)]
      unfold cutWalkNode
      have hk : keep tags (.elem e kids) = true := by simp [keep, Node.isTag]
      simp only [hc, Bool.false_eq_true, if_false, List.filter_cons, hk, if_true, List.cons_append, hs]
  | .str k s, total, i, tail, _ => by
    unfold preorderNode
    rw [List.cons_append, List.nil_append, skipLoop_none_str _ _ _ _ _ rfl, entryOf_node]
    have hs : size (.str k s) = 0 := by unfold size; rfl
    unfold cutWalkNode
    rw [hs]
    cases tags <;> simp [keep, Node.isTag]
/-- Invariant of the loop across a forest. -/
theorem skipLoop_kids (cut : Elem → Bool) (tags : Bool) : ∀ (ks : List Node) (total i : Nat) (tail : List Entry),
    total = i + sizeKids ks + tail.length →
    skipLoop tags total i none (preorderKids cut ks ++ tail) =
      (cutWalkKids cut ks).filter (keep tags) ++ skipLoop tags total (i + sizeKids ks) none tail
  | [], total, i, tail, _ => by
    unfold preorderKids cutWalkKids sizeKids
    simp
  | k :: ks, total, i, tail, htot => by
    have hs : sizeKids (k :: ks) = 1 + size k + sizeKids ks := by
      conv => lhs; unfold sizeKids
    unfold preorderKids cutWalkKids
    rw [List.append_assoc]
    rw [skipLoop_node cut tags k total i (preorderKids cut ks ++ tail)
      (by rw [htot, hs, List.length_append, length_preorderKids]; omega)]
    rw [skipLoop_kids cut tags ks total (i + 1 + size k) tail (by rw [htot, hs]; omega)]
    rw [List.filter_append, List.append_assoc, hs]
    congr 3
    omega
end

theorem keep_false : keep false = fun _ => true := by
  funext n; simp [keep]

theorem keep_true : keep true = Node.isTag := by
  funext n; simp [keep]

theorem skipWalkT_preorder (cut : Elem → Bool) (tags : Bool) (n : Node) :
    skipWalkT tags (preorder cut n) = (cutWalkKids cut n.kids).filter (keep tags) := by
  unfold skipWalkT preorder
  have := skipLoop_kids cut tags n.kids (preorderKids cut n.kids).length 0 []
    (by rw [length_preorderKids]; simp)
  rw [List.append_nil] at this
  rw [this, skipLoop_nil, List.append_nil]

/-! ### The structural walk is `Loc.descendants` -/

/-- `no_iframe and self.is_iframe(d)` on a location. -/
def cutLoc (cut : Elem → Bool) (d : Loc) : Bool :=
  match d.focus with
  | .elem e _ => cut e
  | .str _ _ => false

theorem desc_focus (cut : Elem → Bool) (enter : Loc → Bool) (henter : ∀ d, enter d = !cutLoc cut d) :
    (∀ (e : Elem) (up : List Frame) (left ks : List Node),
        (descAux enter e up left ks).map Loc.focus = cutWalkKids cut ks) ∧
    (∀ (n : Node) (up : List Frame) (self : Loc), self.focus = n →
        (descNode enter n up self).map Loc.focus = cutWalkNode cut n) := by
  apply descAux.mutual_induct enter
    (fun e up left ks => (descAux enter e up left ks).map Loc.focus = cutWalkKids cut ks)
    (fun n up self => self.focus = n → (descNode enter n up self).map Loc.focus = cutWalkNode cut n)
  · intro up self e ks hent ih hf
    rw [descNode_elem, if_pos hent, ih]
    rw [henter] at hent
    unfold cutLoc at hent
    rw [hf] at hent
    unfold cutWalkNode
    simp only [Bool.not_eq_true'] at hent
    simp [hent]
  · intro up self e ks hent hf
    rw [descNode_elem, if_neg hent]
    rw [henter] at hent
    unfold cutLoc at hent
    rw [hf] at hent
    unfold cutWalkNode
    simp only [Bool.not_eq_true', Bool.not_eq_false] at hent
    simp [hent]
  · intro up self k s _
    rw [descNode_str]; unfold cutWalkNode; rfl
  · intro e up left
    rw [descAux_nil]; unfold cutWalkKids; rfl
  · intro e up left k right here ih2 ih1
    rw [descAux_cons]
    conv => rhs; unfold cutWalkKids
    rw [List.map_append, List.map_cons, ih1, ih2 rfl]

/-- The foci of `Loc.descendants` (with the iframe cut as `enter`) are the structural walk. -/
theorem Loc.descendants_focus (cut : Elem → Bool) (enter : Loc → Bool)
    (henter : ∀ d, enter d = !cutLoc cut d) (l : Loc) :
    (l.descendants enter).map Loc.focus = cutWalkKids cut l.focus.kids := by
  unfold Loc.descendants
  split
  · rename_i e ks hf
    rw [hf]; exact (desc_focus cut enter henter).1 e l.up [] ks
  · rename_i k s hf
    rw [hf]; unfold Node.kids cutWalkKids; rfl

/-- The cut the matcher uses: `no_iframe and self.is_iframe(e)`. -/
def cutOf (c : Ctx) (noIframe : Bool) : Elem → Bool := fun e => noIframe && c.isIframe e

theorem cutLoc_cutOf (c : Ctx) (ni : Bool) (d : Loc) : cutLoc (cutOf c ni) d = (ni && c.locIsIframe d) := by
  unfold cutLoc cutOf Ctx.locIsIframe Loc.elem? Node.elem?
  cases d.focus <;> simp

theorem cutWalkNode_eq (cut : Elem → Bool) (n : Node) :
    cutWalkNode cut n = (match n with
      | .elem e ks => if cut e then [] else cutWalkKids cut ks
      | .str _ _ => []) := by
  cases n <;> (unfold cutWalkNode; rfl)

/-- `get_descendants(el, no_iframe)` yields the structural walk of `el`. -/
theorem Ctx.descendants_focus (c : Ctx) (l : Loc) (ni : Bool) :
    (c.descendants l ni).map Loc.focus = cutWalkNode (cutOf c ni) l.focus := by
  unfold Ctx.descendants
  have hl := cutLoc_cutOf c ni l
  rw [cutWalkNode_eq]
  unfold cutLoc at hl
  cases hf : l.focus with
  | elem e ks =>
    rw [hf] at hl
    simp only at hl
    simp only [← hl]
    split
    · rfl
    · rw [Loc.descendants_focus (cutOf c ni) _ (fun d => by rw [cutLoc_cutOf]) l, hf]; rfl
  | str k s =>
    rw [hf] at hl
    simp only at hl
    rw [← hl]
    simp only [Bool.false_eq_true, if_false]
    unfold Loc.descendants
    rw [hf]; rfl

/-! ### Text of the structural walk -/

theorem filter_flatMap_focus (p : Node → Bool) (g : Node → Str) (L : List Loc) :
    (L.filter (fun d => p d.focus)).flatMap (fun d => g d.focus) =
      ((L.map Loc.focus).filter p).flatMap g := by
  induction L with
  | nil => rfl
  | cons d L ih =>
    simp only [List.filter_cons, List.map_cons]
    cases p d.focus <;> simp [ih]

theorem filter_map_focus (p : Node → Bool) (g : Node → Str) (L : List Loc) :
    (L.filter (fun d => p d.focus)).map (fun d => g d.focus) =
      ((L.map Loc.focus).filter p).map g := by
  induction L with
  | nil => rfl
  | cons d L ih =>
    simp only [List.filter_cons, List.map_cons]
    cases p d.focus <;> simp [ih]

mutual
theorem text_cutWalkNode (cut : Elem → Bool) : ∀ k : Node,
    ((k :: cutWalkNode cut k).filter Node.isContentString).flatMap Node.strVal = textOfNode cut k
  | .elem e kids => by
    unfold cutWalkNode textOfNode
    simp only [List.filter_cons, Node.isContentString, Bool.false_eq_true, if_false]
    split
    · rfl
    · exact text_cutWalkKids cut kids
  | .str .text s => by
    unfold cutWalkNode textOfNode
    show List.flatMap Node.strVal [Node.str .text s] = s
    simp [Node.strVal]
  | .str .comment s => by unfold cutWalkNode textOfNode; rfl
  | .str .cdata s => by unfold cutWalkNode textOfNode; rfl
  | .str .pi s => by unfold cutWalkNode textOfNode; rfl
  | .str .doctype s => by unfold cutWalkNode textOfNode; rfl
  | .str .decl s => by unfold cutWalkNode textOfNode; rfl
theorem text_cutWalkKids (cut : Elem → Bool) : ∀ ks : List Node,
    ((cutWalkKids cut ks).filter Node.isContentString).flatMap Node.strVal = textOfKids cut ks
  | [] => by unfold cutWalkKids textOfKids; rfl
  | k :: ks => by
    unfold cutWalkKids textOfKids
    rw [List.filter_append, List.flatMap_append, text_cutWalkNode cut k, text_cutWalkKids cut ks]
end

theorem text_cutWalkNode_top (cut : Elem → Bool) (n : Node) :
    ((cutWalkNode cut n).filter Node.isContentString).flatMap Node.strVal = textOf cut n := by
  rw [cutWalkNode_eq]
  cases n with
  | elem e ks =>
    simp only [textOf]
    split
    · rfl
    · exact text_cutWalkKids cut ks
  | str k s => rfl

theorem ownTexts_kids (ks : List Node) :
    (ks.filter Node.isContentString).map Node.strVal = ks.filterMap ownTextOfChild := by
  induction ks with
  | nil => rfl
  | cons k ks ih =>
    cases k with
    | elem e sub => simpa [Node.isContentString, List.filterMap_cons, ownTextOfChild] using ih
    | str kind s =>
      cases kind
      case text =>
        show Node.strVal (.str .text s) :: List.map Node.strVal (List.filter Node.isContentString ks) = _
        rw [ih]; rfl
      all_goals exact ih

/-! ### Erasing special strings -/

theorem eraseSpecialKids_eq_map (ks : List Node) : eraseSpecialKids ks = ks.map eraseSpecial := by
  induction ks with
  | nil => unfold eraseSpecialKids; rfl
  | cons k ks ih => unfold eraseSpecialKids; rw [ih]; rfl

theorem eraseSpecial_str_text (s : Str) : eraseSpecial (.str .text s) = .str .text s := by
  unfold eraseSpecial; rfl

theorem eraseSpecial_elem (e : Elem) (ks : List Node) :
    eraseSpecial (.elem e ks) = .elem e (eraseSpecialKids ks) := by
  conv => lhs; unfold eraseSpecial

theorem eraseSpecial_str_special (k : StrKind) (s : Str) (h : k ≠ .text) :
    eraseSpecial (.str k s) = .str k [] := by
  cases k <;> first | exact absurd rfl h | (unfold eraseSpecial; rfl)

mutual
theorem textOfNode_erase (cut : Elem → Bool) : ∀ n : Node,
    textOfNode cut (eraseSpecial n) = textOfNode cut n
  | .elem e kids => by
    rw [eraseSpecial_elem]
    unfold textOfNode
    rw [textOfKids_erase cut kids]
  | .str .text s => by rw [eraseSpecial_str_text]
  | .str .comment s => by rw [eraseSpecial_str_special _ _ (by decide)]; unfold textOfNode; rfl
  | .str .cdata s => by rw [eraseSpecial_str_special _ _ (by decide)]; unfold textOfNode; rfl
  | .str .pi s => by rw [eraseSpecial_str_special _ _ (by decide)]; unfold textOfNode; rfl
  | .str .doctype s => by rw [eraseSpecial_str_special _ _ (by decide)]; unfold textOfNode; rfl
  | .str .decl s => by rw [eraseSpecial_str_special _ _ (by decide)]; unfold textOfNode; rfl
theorem textOfKids_erase (cut : Elem → Bool) : ∀ ks : List Node,
    textOfKids cut (eraseSpecialKids ks) = textOfKids cut ks
  | [] => by unfold eraseSpecialKids; rfl
  | k :: ks => by
    unfold eraseSpecialKids textOfKids
    rw [textOfNode_erase cut k, textOfKids_erase cut ks]
end

theorem textOf_erase (cut : Elem → Bool) (n : Node) : textOf cut (eraseSpecial n) = textOf cut n := by
  cases n with
  | elem e ks =>
    rw [eraseSpecial_elem]
    simp only [textOf, textOfKids_erase]
  | str k s =>
    by_cases h : k = .text
    · subst h; rw [eraseSpecial_str_text]
    · rw [eraseSpecial_str_special _ _ h]; rfl

theorem ownTextOfChild_erase (k : Node) : ownTextOfChild (eraseSpecial k) = ownTextOfChild k := by
  cases k with
  | elem e ks => rw [eraseSpecial_elem]; rfl
  | str kind s =>
    by_cases h : kind = .text
    · subst h; rw [eraseSpecial_str_text]
    · rw [eraseSpecial_str_special _ _ h]
      cases kind <;> first | exact absurd rfl h | rfl

theorem ownTexts_erase (cut : Elem → Bool) (n : Node) : ownTexts cut (eraseSpecial n) = ownTexts cut n := by
  cases n with
  | elem e ks =>
    rw [eraseSpecial_elem]
    simp only [ownTexts]
    split
    · rfl
    · rw [eraseSpecialKids_eq_map, List.filterMap_map]
      congr 1
      funext k
      exact ownTextOfChild_erase k
  | str k s =>
    by_cases h : k = .text
    · subst h; rw [eraseSpecial_str_text]
    · rw [eraseSpecial_str_special _ _ h]; rfl

theorem blocksEmpty_erase (k : Node) : blocksEmpty (eraseSpecial k) = blocksEmpty k := by
  cases k with
  | elem e ks => rw [eraseSpecial_elem]; rfl
  | str kind s =>
    by_cases h : kind = .text
    · subst h; rw [eraseSpecial_str_text]
    · rw [eraseSpecial_str_special _ _ h]
      cases kind <;> first | exact absurd rfl h | rfl

theorem kids_erase (n : Node) : (eraseSpecial n).kids = n.kids.map eraseSpecial := by
  cases n with
  | elem e ks => rw [eraseSpecial_elem]; simp [Node.kids, eraseSpecialKids_eq_map]
  | str k s =>
    by_cases h : k = .text
    · subst h; rw [eraseSpecial_str_text]; rfl
    · rw [eraseSpecial_str_special _ _ h]; rfl

theorem isEmptyElem_erase (n : Node) : isEmptyElem (eraseSpecial n) = isEmptyElem n := by
  unfold isEmptyElem
  rw [kids_erase, List.any_map]
  congr 2
  funext k
  exact blocksEmpty_erase k

theorem elem?_erase (n : Node) : (eraseSpecial n).elem? = n.elem? := by
  cases n with
  | elem e ks => rw [eraseSpecial_elem]; rfl
  | str k s =>
    by_cases h : k = .text
    · subst h; rw [eraseSpecial_str_text]
    · rw [eraseSpecial_str_special _ _ h]; rfl

end TextLemmas
end SoupVerif
