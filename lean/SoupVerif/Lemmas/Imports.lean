/-
Generic facts about the import state machine of `Model/Imports.lean` (any graph, any state).
-/
import SoupVerif.Model.Imports

namespace SoupVerif.Imports

/-- What an event needs from `sys.modules` in order to be a no-op: the imported module is already present
(in whatever state of initialisation -- CPython returns it as it is), the fetched attribute is already
bound. Opaque modules need nothing. `define` and `unknown` events are never no-ops. -/
def Event.settled (g : Graph) (st : Interp) : Event → Bool
  | .importMod m => (g.node? m).isNone || st.has m
  | .fromImport m n | .useAttr m n _ => (g.node? m).isNone || (st.has m && st.hasName m n)
  | .define _ => false
  | .unknown _ => false

/-- Importing a module that is already in `sys.modules` changes nothing. -/
theorem importModule_present (g : Graph) (fuel : Nat) (st : Interp) (m : Name)
    (h : (g.node? m).isNone = true ∨ st.has m = true) :
    importModule g (fuel + 1) st m = .ok st := by
  unfold importModule
  cases hn : g.node? m with
  | none => rfl
  | some node =>
    rcases h with h | h
    · simp [hn] at h
    · simp [h]

theorem execEvent_settled (g : Graph) (fuel : Nat) (cur : Option Name) (st : Interp) (ev : Event)
    (h : ev.settled g st = true) :
    execEvent g (importModule g (fuel + 1)) cur st ev = .ok st := by
  cases ev with
  | importMod m =>
    simp only [Event.settled, Bool.or_eq_true] at h
    exact importModule_present g fuel st m h
  | fromImport m n =>
    simp only [Event.settled, Bool.or_eq_true, Bool.and_eq_true] at h
    cases hn : g.node? m with
    | none => simp [execEvent, hn]
    | some node =>
      rcases h with h | h
      · simp [hn] at h
      · simp [execEvent, hn, h.1, h.2]
  | useAttr m n v =>
    simp only [Event.settled, Bool.or_eq_true, Bool.and_eq_true] at h
    cases hn : g.node? m with
    | none => simp [execEvent, hn]
    | some node =>
      rcases h with h | h
      · simp [hn] at h
      · simp [execEvent, hn, h.1, h.2]
  | define n => simp [Event.settled] at h
  | unknown w => simp [Event.settled] at h

theorem execEvents_settled (g : Graph) (fuel : Nat) (cur : Option Name) (st : Interp) (evs : List Event)
    (h : evs.all (fun ev => ev.settled g st) = true) :
    execEvents g (importModule g (fuel + 1)) cur st evs = .ok st := by
  induction evs with
  | nil => rfl
  | cons ev rest ih =>
    simp only [List.all_cons, Bool.and_eq_true] at h
    unfold execEvents
    rw [execEvent_settled g fuel cur st ev h.1]
    exact ih h.2

/-- **Re-import is a no-op**, for an arbitrary interpreter state: when every module the statement names is
already in `sys.modules` and every name it fetches is already bound, the statement succeeds and leaves
`sys.modules` exactly as it was. -/
theorem execEntry_settled (g : Graph) (ids : EntryIds) (st : Interp) (e : EntryPoint)
    (h : (e.events ids).all (fun ev => ev.settled g st) = true) :
    execEntry g ids st e = .ok st := by
  unfold execEntry Graph.fuel
  exact execEvents_settled g (g.length + 1) none st _ h

theorem run_nil (g : Graph) (ids : EntryIds) (st : Interp) : run g ids st [] = .ok st := rfl

theorem run_cons_ok (g : Graph) (ids : EntryIds) (st st' : Interp) (e : EntryPoint) (es : List EntryPoint)
    (h : execEntry g ids st e = .ok st') : run g ids st (e :: es) = run g ids st' es := by
  simp [run, h]

theorem run_append (g : Graph) (ids : EntryIds) (st st' : Interp) (xs ys : List EntryPoint)
    (h : run g ids st xs = .ok st') : run g ids st (xs ++ ys) = run g ids st' ys := by
  induction xs generalizing st with
  | nil => simp [run] at h; subst h; rfl
  | cons x xs ih =>
    simp only [run, List.cons_append] at h ⊢
    cases hx : execEntry g ids st x with
    | error e => simp [hx] at h
    | ok s1 => simp only [hx] at h ⊢; exact ih s1 h

end SoupVerif.Imports
