/-
  C17 helpers, part 1: the *shape* of the generated built-in selector lists.

  A small combinator vocabulary for the IR (`cmp`, `isL`, `notL`, `A`, `Aty`, `Aval`, `T`, `HT`)
  in which each `Gen.CSS_*` term is re-stated in a form that reads like its CSS source.  Every
  shape fact is proved by `rfl` against the term generated from the live Python module, so any edit
  of the Python definitions breaks the corresponding fact.
-/
import SoupVerif.Generated.Builtins
namespace SoupVerif.StateLaws
open SoupVerif

/-- The `[a=v]` template `^v\Z` of `parse_attribute_selector` (literals, one IGNORECASE flag). -/
def tmpl (ic : Bool) (v : Str) : Rx := .seq (.bos :: (v.map (Rx.lit · ic) ++ [.eos]))

/-- `ct.SelectorList()` -/
abbrev E : SelList := .mk [] false false

/-- A compound selector without ids, classes, `:contains`, `:lang`. -/
abbrev cmpG (tag : Option SelTag) (attrs : List AttrSel) (nth : List NthSel) (subs : List SelList)
    (rel : SelList) (rt : Rel) (flags : Nat) : Sel :=
  .mk tag [] [] attrs nth subs rel rt [] [] flags

/-- A compound selector made of a type selector, attribute selectors and `:is()/:not()` only. -/
abbrev cmp (tag : Option SelTag) (attrs : List AttrSel) (subs : List SelList) : Sel :=
  cmpG tag attrs [] subs E .none 0

/-- `:is(…)` entry of `subs` (also the body of a relation). -/
abbrev isL (s : List Sel) : SelList := .mk s false false
/-- `:not(…)` entry of `subs`. -/
abbrev notL (s : List Sel) : SelList := .mk s true false

/-- `[n]` -/
abbrev A (n : String) : AttrSel := ⟨n.toStr, [], none, none⟩
/-- `[type=v]`: case-insensitive pattern plus the case-sensitive `xml_type_pattern`. -/
abbrev Aty (v : String) : AttrSel := ⟨"type".toStr, [], some (tmpl true v.toStr), some (tmpl false v.toStr)⟩
/-- `[n=v]` / `[n=v i]` for an attribute other than `type`: one pattern. -/
abbrev Aval (n : String) (ic : Bool) (v : String) : AttrSel := ⟨n.toStr, [], some (tmpl ic v.toStr), none⟩

/-- `name` -/
abbrev T (n : String) : Option SelTag := some ⟨n.toStr, none⟩
/-- `html|name` -/
abbrev HT (n : String) : Option SelTag := some ⟨n.toStr, some "html".toStr⟩

/-! ### The shapes -/

/-- `html|*:is(a, area)[href]` -/
theorem shape_LINK : Gen.CSS_LINK =
    .mk [cmp (HT "*") [A "href"] [isL [cmp (T "a") [] [], cmp (T "area") [] []]]] false true := rfl

/-- `html|*:is(input[type=checkbox], input[type=radio])[checked], html|option[selected]` -/
theorem shape_CHECKED : Gen.CSS_CHECKED =
    .mk [cmp (HT "*") [A "checked"]
            [isL [cmp (T "input") [Aty "checkbox"] [], cmp (T "input") [Aty "radio"] []]],
         cmp (HT "option") [A "selected"] []] false true := rfl

/-- `:checked, html|form html|*:is(button, input)[type="submit"]` (last one flagged `SEL_DEFAULT`) -/
theorem shape_DEFAULT : Gen.CSS_DEFAULT =
    .mk [cmp none [] [Gen.CSS_CHECKED],
         cmpG (HT "*") [Aty "submit"] [] [isL [cmp (T "button") [] [], cmp (T "input") [] []]]
           (isL [cmpG (HT "form") [] [] [] E .desc 0]) .none SEL_DEFAULT] false true := rfl

/-- ```
    html|input[type="checkbox"][indeterminate],
    html|input[type="radio"]:is(:not([name]), [name=""]):not([checked]),
    html|progress:not([value]),
    html|input[type="radio"][name]:not([name='']):not([checked])      -- flagged SEL_INDETERMINATE
    ``` -/
theorem shape_INDETERMINATE : Gen.CSS_INDETERMINATE =
    .mk [cmp (HT "input") [Aty "checkbox", A "indeterminate"] [],
         cmp (HT "input") [Aty "radio"]
           [isL [cmp none [] [notL [cmp none [A "name"] []]], cmp none [Aval "name" false ""] []],
            notL [cmp none [A "checked"] []]],
         cmp (HT "progress") [] [notL [cmp none [A "value"] []]],
         cmpG (HT "input") [Aty "radio", A "name"] []
           [notL [cmp none [Aval "name" false ""] []], notL [cmp none [A "checked"] []]]
           E .none SEL_INDETERMINATE] false true := rfl

/-- `:is(input:not([type=hidden]), button, select, textarea, fieldset, optgroup, option, fieldset)` -/
def ctl8 : SelList :=
  isL [cmp (T "input") [] [notL [cmp none [Aty "hidden"] []]], cmp (T "button") [] [],
       cmp (T "select") [] [], cmp (T "textarea") [] [], cmp (T "fieldset") [] [],
       cmp (T "optgroup") [] [], cmp (T "option") [] [], cmp (T "fieldset") [] []]

/-- `:is(input:not([type=hidden]), button, select, textarea, fieldset)` -/
def ctl5 : SelList :=
  isL [cmp (T "input") [] [notL [cmp none [Aty "hidden"] []]], cmp (T "button") [] [],
       cmp (T "select") [] [], cmp (T "textarea") [] [], cmp (T "fieldset") [] []]

/-- `html|optgroup[disabled] >` / `html|fieldset[disabled] >` -/
def disabledParent (n : String) : SelList := isL [cmpG (HT n) [A "disabled"] [] [] E .child 0]

/-- `html|fieldset[disabled] > html|*:not(legend:nth-of-type(1)) ` (descendant combinator) -/
def notFirstLegendInDisabledFieldset : SelList :=
  isL [cmpG (HT "*") [] []
        [notL [cmpG (T "legend") [] [NthSel.mk 1 false 0 true false E] [] E .none 0]]
        (disabledParent "fieldset") .desc 0]

/-- ```
    html|*:is(input:not([type=hidden]), button, select, textarea, fieldset, optgroup, option, fieldset)[disabled],
    html|optgroup[disabled] > html|option,
    html|fieldset[disabled] > html|*:is(input:not([type=hidden]), button, select, textarea, fieldset),
    html|fieldset[disabled] > html|*:not(legend:nth-of-type(1)) html|*:is(input:not([type=hidden]), button, select, textarea, fieldset)
    ``` -/
theorem shape_DISABLED : Gen.CSS_DISABLED =
    .mk [cmp (HT "*") [A "disabled"] [ctl8],
         cmpG (HT "option") [] [] [] (disabledParent "optgroup") .none 0,
         cmpG (HT "*") [] [] [ctl5] (disabledParent "fieldset") .none 0,
         cmpG (HT "*") [] [] [ctl5] notFirstLegendInDisabledFieldset .none 0] false true := rfl

/-- `html|*:is(input:not([type=hidden]), …, fieldset):not(:disabled)` -/
theorem shape_ENABLED : Gen.CSS_ENABLED =
    .mk [cmp (HT "*") [] [ctl8, notL [cmp none [] [Gen.CSS_DISABLED]]]] false true := rfl

/-- `html|*:is(input, textarea, select)[required]` -/
theorem shape_REQUIRED : Gen.CSS_REQUIRED =
    .mk [cmp (HT "*") [A "required"]
          [isL [cmp (T "input") [] [], cmp (T "textarea") [] [], cmp (T "select") [] []]]] false true := rfl

/-- `html|*:is(input, textarea, select):not([required])` -/
theorem shape_OPTIONAL : Gen.CSS_OPTIONAL =
    .mk [cmp (HT "*") []
          [isL [cmp (T "input") [] [], cmp (T "textarea") [] [], cmp (T "select") [] []],
           notL [cmp none [A "required"] []]]] false true := rfl

/-- `:is(:not([type]), [type=""], [type=text], …)` over a list of type keywords. -/
def typeIn (vs : List String) : SelList :=
  isL (cmp none [] [notL [cmp none [A "type"] []]] :: cmp none [Aty ""] [] ::
        vs.map (fun v => cmp none [Aty v] []))

/-- ```
    html|input:is(:not([type]), [type=""], [type=text], [type=search], [type=url], [type=tel],
                  [type=email], [type=password], [type=number])
              [placeholder]:not([placeholder='']):is(:not([value]), [value=""]),
    html|textarea[placeholder]:not([placeholder=''])                 -- flagged SEL_PLACEHOLDER_SHOWN
    ``` -/
theorem shape_PLACEHOLDER_SHOWN : Gen.CSS_PLACEHOLDER_SHOWN =
    .mk [cmp (HT "input") [A "placeholder"]
           [typeIn ["text", "search", "url", "tel", "email", "password", "number"],
            notL [cmp none [Aval "placeholder" false ""] []],
            isL [cmp none [] [notL [cmp none [A "value"] []]], cmp none [Aval "value" false ""] []]],
         cmpG (HT "textarea") [A "placeholder"] [] [notL [cmp none [Aval "placeholder" false ""] []]]
           E .none SEL_PLACEHOLDER_SHOWN] false true := rfl

/-- ```
    html|*:is(textarea, input:is(:not([type]), [type=""], [type=text], …, [type=week]))
          :not([readonly], :disabled),
    html|*:is([contenteditable=""], [contenteditable="true" i])
    ``` -/
theorem shape_READ_WRITE : Gen.CSS_READ_WRITE =
    .mk [cmp (HT "*") []
           [isL [cmp (T "textarea") [] [],
                 cmp (T "input") []
                   [typeIn ["text", "search", "url", "tel", "email", "number", "password", "date",
                            "datetime-local", "month", "time", "week"]]],
            notL [cmp none [A "readonly"] [], cmp none [] [Gen.CSS_DISABLED]]],
         cmp (HT "*") []
           [isL [cmp none [Aval "contenteditable" false ""] [],
                 cmp none [Aval "contenteditable" true "true"] []]]] false true := rfl

/-- `html|*:not(:read-write)` -/
theorem shape_READ_ONLY : Gen.CSS_READ_ONLY =
    .mk [cmp (HT "*") [] [notL [cmp none [] [Gen.CSS_READ_WRITE]]]] false true := rfl

/-- The shared compound of `:in-range` / `:out-of-range`, up to the range flag:
    `html|input:is([type="date"], [type="month"], [type="week"], [type="time"],
                   [type="datetime-local"], [type="number"], [type="range"]):is([min], [max])`. -/
def rangeCompound (flag : Nat) : Sel :=
  cmpG (HT "input") [] []
    [isL (["date", "month", "week", "time", "datetime-local", "number", "range"].map
            (fun v => cmp none [Aty v] [])),
     isL [cmp none [A "min"] [], cmp none [A "max"] []]] E .none flag

theorem shape_IN_RANGE : Gen.CSS_IN_RANGE = .mk [rangeCompound SEL_IN_RANGE] false true := rfl
theorem shape_OUT_OF_RANGE : Gen.CSS_OUT_OF_RANGE = .mk [rangeCompound SEL_OUT_OF_RANGE] false true := rfl

end SoupVerif.StateLaws
