/-
  General lemmas about the regular-expression building blocks of the attribute-value templates
  (`Parser.attrPattern`): the two never/always classes, dot-star, literal runs with an arbitrary
  continuation, the look-arounds of `~=`, the optional `-.*` tail of `|=`; and the pure list
  facts that link the position-based reading of the engine to the specification functions of
  `Spec/CssValue.lean`.
-/
import SoupVerif.Properties.C11
import SoupVerif.Spec.CssValue
import SoupVerif.Model.Parser
namespace SoupVerif
namespace AttrTemplates
open Rx Names

/-! ### Case folding of strings -/

/-- One-character version of `Css.foldCase`. -/
def fc (ic : Bool) (c : Nat) : Nat := if ic then lowerCp c else c

theorem foldCase_eq_map (ic : Bool) (s : Str) : Css.foldCase ic s = s.map (fc ic) := by
  cases ic
  · have h : fc false = id := by funext c; simp [fc]
    simp [Css.foldCase, h]
  · have h : fc true = lowerCp := by funext c; simp [fc]
    simp [Css.foldCase, h, lower]

theorem foldCase_length (ic : Bool) (s : Str) : (Css.foldCase ic s).length = s.length := by
  simp [foldCase_eq_map]

theorem foldCase_nil (ic : Bool) : Css.foldCase ic [] = [] := by
  simp [foldCase_eq_map]

theorem foldCase_cons (ic : Bool) (x : Nat) (s : Str) :
    Css.foldCase ic (x :: s) = fc ic x :: Css.foldCase ic s := by
  simp [foldCase_eq_map]

theorem foldCase_eq_nil (ic : Bool) (s : Str) : Css.foldCase ic s = [] ↔ s = [] := by
  simp [foldCase_eq_map]

theorem foldCase_take (ic : Bool) (n : Nat) (s : Str) :
    Css.foldCase ic (s.take n) = (Css.foldCase ic s).take n := by
  simp [foldCase_eq_map, List.map_take]

theorem foldCase_drop (ic : Bool) (n : Nat) (s : Str) :
    Css.foldCase ic (s.drop n) = (Css.foldCase ic s).drop n := by
  simp [foldCase_eq_map, List.map_drop]

theorem foldCase_getElem? (ic : Bool) (s : Str) (k : Nat) :
    (Css.foldCase ic s)[k]? = (s[k]?).map (fc ic) := by
  simp [foldCase_eq_map]

theorem foldCase_false (s : Str) : Css.foldCase false s = s := rfl
theorem foldCase_true (s : Str) : Css.foldCase true s = lower s := rfl

theorem isCssWs_lowerCp (c : Nat) : isCssWs (lowerCp c) = isCssWs c := by
  unfold lowerCp isCssWs
  split
  · rename_i h
    have h1 : (c + 32 == 32) = false := by simp <;> omega
    have h2 : (c + 32 == 9) = false := by simp <;> omega
    have h3 : (c + 32 == 13) = false := by simp <;> omega
    have h4 : (c + 32 == 10) = false := by simp <;> omega
    have h5 : (c + 32 == 12) = false := by simp <;> omega
    have g1 : (c == 32) = false := by simp <;> omega
    have g2 : (c == 9) = false := by simp <;> omega
    have g3 : (c == 13) = false := by simp <;> omega
    have g4 : (c == 10) = false := by simp <;> omega
    have g5 : (c == 12) = false := by simp <;> omega
    simp [h1, h2, h3, h4, h5, g1, g2, g3, g4, g5]
  · rfl

theorem isCssWs_fc (ic : Bool) (c : Nat) : isCssWs (fc ic c) = isCssWs c := by
  cases ic
  · rfl
  · exact isCssWs_lowerCp c

theorem lowerCp_eq_lowerCp_of_not_upper (x c : Nat) (hx : ¬ (65 ≤ x ∧ x ≤ 90)) (hx' : ¬ (97 ≤ x ∧ x ≤ 122)) :
    lowerCp x = lowerCp c ↔ x = c := by
  unfold lowerCp
  split <;> split <;> omega

/-! ### The engine's one-character comparison -/

theorem chEq_eq (env : CharEnv) (ic : Bool) (hfold : ic = true → env.fold = lowerCp) (x c : Nat) :
    C11.chEq env ic x c = (fc ic x == fc ic c) := by
  cases ic
  · rfl
  · simp [C11.chEq, fc, hfold rfl]

theorem litsEq_fold (env : CharEnv) (ic : Bool) (hfold : ic = true → env.fold = lowerCp) :
    ∀ (v : List Nat) (t : Str),
      C11.litsEq env ic v t = (Css.foldCase ic t == Css.foldCase ic v)
  | [], [] => by simp [C11.litsEq, foldCase_nil]
  | [], _ :: _ => by simp [C11.litsEq, foldCase_nil, foldCase_cons]
  | _ :: _, [] => by simp [C11.litsEq, foldCase_nil, foldCase_cons]
  | c :: v, x :: t => by
    simp only [C11.litsEq, chEq_eq env ic hfold, litsEq_fold env ic hfold v t, foldCase_cons]
    exact Bool.eq_iff_iff.mpr (by simp)

/-! ### The two classes -/

/-- `[^\s\S]` contains no character. -/
theorem setHas_none (env : CharEnv) (ic : Bool) (c : Nat) :
    Rx.setHas env true [.cat .space, .cat .notSpace] ic c = false := by
  simp [Rx.setHas, Rx.itemHas, Rx.catHas]

theorem runs_noMatchSet (env : CharEnv) (s : Str) (ic : Bool) (i : Nat) (caps : Caps) :
    runs env s (Parser.noMatchSet ic) i caps = [] := by
  unfold Parser.noMatchSet
  rw [runs]
  cases s[i]? with
  | none => rfl
  | some x => simp [setHas_none]

theorem lowerCp_eq_const (x c : Nat) (hx : x < 65) : (lowerCp x == lowerCp c) = (x == c) := by
  apply Bool.eq_iff_iff.mpr
  simp only [beq_iff_eq]
  unfold lowerCp
  split <;> split <;> omega

/-- `[ \t\r\n\f]`, with or without IGNORECASE, is CSS white space. -/
theorem setHas_ws (env : CharEnv) (ic : Bool) (hfold : ic = true → env.fold = lowerCp) (c : Nat) :
    Rx.setHas env false [.ch 32, .ch 9, .ch 13, .ch 10, .ch 12] ic c = isCssWs c := by
  cases ic
  · simp only [Rx.setHas, Rx.itemHas, List.any_cons, List.any_nil, isCssWs, Bool.or_false,
      Bool.false_eq_true, if_false, Bool.bne_false]
    apply Bool.eq_iff_iff.mpr
    simp only [Bool.or_eq_true, beq_iff_eq]
    omega
  · simp only [Rx.setHas, Rx.itemHas, List.any_cons, List.any_nil, isCssWs, Bool.or_false,
      if_true, Bool.bne_false, hfold rfl]
    rw [lowerCp_eq_const 32 c (by omega), lowerCp_eq_const 9 c (by omega),
      lowerCp_eq_const 13 c (by omega), lowerCp_eq_const 10 c (by omega),
      lowerCp_eq_const 12 c (by omega)]
    apply Bool.eq_iff_iff.mpr
    simp only [Bool.or_eq_true, beq_iff_eq]
    omega

/-- "The character at `k` exists and is CSS white space." -/
def wsAt (s : Str) (k : Nat) : Bool :=
  match s[k]? with
  | some x => isCssWs x
  | none => false

theorem wsAt_foldCase (ic : Bool) (s : Str) (k : Nat) : wsAt (Css.foldCase ic s) k = wsAt s k := by
  unfold wsAt
  rw [foldCase_getElem?]
  cases s[k]? with
  | none => rfl
  | some x => simp [isCssWs_fc]

theorem runs_wsSet (env : CharEnv) (ic : Bool) (hfold : ic = true → env.fold = lowerCp)
    (s : Str) (i : Nat) (caps : Caps) :
    runs env s (Parser.wsSet ic) i caps = if wsAt s i then [(i + 1, caps)] else [] := by
  unfold Parser.wsSet wsAt
  rw [runs]
  cases s[i]? with
  | none => rfl
  | some x => simp only [setHas_ws env ic hfold]

/-! ### Sequences: existence of a run -/

theorem runsSeq_cons_ne_nil (env : CharEnv) (s : Str) (r : Rx) (rs : List Rx) (i : Nat) (caps : Caps) :
    runsSeq env s (r :: rs) i caps ≠ [] ↔
      ∃ p ∈ runs env s r i caps, runsSeq env s rs p.1 p.2 ≠ [] := by
  rw [runsSeq]
  simp only [ne_eq, List.flatMap_eq_nil_iff, Classical.not_forall]
  constructor
  · rintro ⟨p, hp, h⟩; exact ⟨p, hp, h⟩
  · rintro ⟨p, hp, h⟩; exact ⟨p, hp, h⟩

theorem isMatch_seq_iff (env : CharEnv) (rs : List Rx) (s : Str) :
    Rx.isMatch env (.seq rs) s = true ↔ runsSeq env s rs 0 [] ≠ [] := by
  rw [C11.isMatch_seq]
  cases runsSeq env s rs 0 [] <;> simp

/-! ### Dot-star (DOTALL), greedy or lazy -/

theorem runs_any (env : CharEnv) (s : Str) (i : Nat) (caps : Caps) :
    runs env s (.any true) i caps = if i < s.length then [(i + 1, caps)] else [] := by
  rw [runs]
  by_cases h : i < s.length
  · rw [List.getElem?_eq_getElem h]; simp [h]
  · rw [List.getElem?_eq_none (by omega)]; simp [h]

/-- The body of dot-star as a function. -/
def anyBody (s : Str) : Nat → Caps → List (Nat × Caps) :=
  fun p c => if p < s.length then [(p + 1, c)] else []

theorem anyBody_eq (env : CharEnv) (s : Str) :
    (fun p c => runs env s (.any true) p c) = anyBody s := by
  funext p c; exact runs_any env s p c

theorem mem_iter_any (s : Str) (g : Bool) (j : Nat) (c : Caps) :
    ∀ (fuel count pos : Nat) (caps : Caps), pos ≤ s.length → s.length - pos + 1 ≤ fuel →
      ((j, c) ∈ iter (anyBody s) 0 none g fuel count pos caps ↔
        c = caps ∧ pos ≤ j ∧ j ≤ s.length)
  | 0, _, _, _, _, hf => by omega
  | fuel + 1, count, pos, caps, hp, hf => by
    rw [iter]
    simp only [if_true, Nat.zero_le, ge_iff_le]
    rw [show anyBody s pos caps = if pos < s.length then [(pos + 1, caps)] else [] from rfl]
    by_cases hlt : pos < s.length
    · have ih := mem_iter_any s g j c fuel (count + 1) (pos + 1) caps (by omega) (by omega)
      have hgt : (pos + 1 > pos) = True := by simp
      simp only [hlt, if_true, List.flatMap_cons, List.flatMap_nil, List.append_nil, hgt,
        decide_true, Bool.true_or]
      cases g
      · simp only [Bool.false_eq_true, if_false, List.mem_append, List.mem_singleton, ih,
          Prod.mk.injEq]
        constructor
        · rintro (⟨rfl, rfl⟩ | ⟨h1, h2, h3⟩)
          · exact ⟨rfl, Nat.le_refl _, hp⟩
          · exact ⟨h1, by omega, h3⟩
        · rintro ⟨h1, h2, h3⟩
          by_cases hj : j = pos
          · exact Or.inl ⟨hj, h1⟩
          · exact Or.inr ⟨h1, by omega, h3⟩
      · simp only [if_true, List.mem_append, List.mem_singleton, ih, Prod.mk.injEq]
        constructor
        · rintro (⟨h1, h2, h3⟩ | ⟨rfl, rfl⟩)
          · exact ⟨h1, by omega, h3⟩
          · exact ⟨rfl, Nat.le_refl _, hp⟩
        · rintro ⟨h1, h2, h3⟩
          by_cases hj : j = pos
          · exact Or.inr ⟨hj, h1⟩
          · exact Or.inl ⟨h1, by omega, h3⟩
    · have hpe : pos = s.length := by omega
      simp only [hlt, if_false, List.flatMap_nil]
      cases g <;>
      · simp only [Bool.false_eq_true, if_false, if_true, List.append_nil, List.nil_append,
          List.mem_singleton, Prod.mk.injEq]
        constructor
        · rintro ⟨rfl, rfl⟩; exact ⟨rfl, Nat.le_refl _, hp⟩
        · rintro ⟨h1, h2, h3⟩; exact ⟨by omega, h1⟩

/-- `.*` / `.*?` with DOTALL from `i` reaches exactly the positions `i ≤ j ≤ |s|`. -/
theorem mem_dotStar (env : CharEnv) (s : Str) (g : Bool) (i : Nat) (caps : Caps) (j : Nat) (c : Caps)
    (hi : i ≤ s.length) :
    (j, c) ∈ runs env s (.rep 0 none g (.any true)) i caps ↔ c = caps ∧ i ≤ j ∧ j ≤ s.length := by
  rw [runs, anyBody_eq]
  exact mem_iter_any s g j c _ 0 i caps hi (by omega)

/-- Dot-star never fails. -/
theorem dotStar_ne_nil (env : CharEnv) (s : Str) (g : Bool) (i : Nat) (caps : Caps) :
    runs env s (.rep 0 none g (.any true)) i caps ≠ [] := by
  rw [runs, iter]
  cases g <;> simp

/-- Something after a leading dot-star: it matches somewhere to the right. -/
theorem dotStar_seq (env : CharEnv) (s : Str) (g : Bool) (rs : List Rx) (i : Nat) (caps : Caps)
    (hi : i ≤ s.length) :
    runsSeq env s (.rep 0 none g (.any true) :: rs) i caps ≠ [] ↔
      ∃ j, i ≤ j ∧ j ≤ s.length ∧ runsSeq env s rs j caps ≠ [] := by
  rw [runsSeq_cons_ne_nil]
  constructor
  · rintro ⟨⟨j, c⟩, hm, h⟩
    rw [mem_dotStar env s g i caps j c hi] at hm
    obtain ⟨rfl, h1, h2⟩ := hm
    exact ⟨j, h1, h2, h⟩
  · rintro ⟨j, h1, h2, h⟩
    exact ⟨(j, caps), (mem_dotStar env s g i caps j caps hi).mpr ⟨rfl, h1, h2⟩, h⟩

/-- A trailing dot-star is no constraint. -/
theorem seq_dotStar_last (env : CharEnv) (s : Str) (g : Bool) (i : Nat) (caps : Caps) :
    runsSeq env s [.rep 0 none g (.any true)] i caps ≠ [] := by
  rw [runsSeq_cons_ne_nil]
  cases h : runs env s (.rep 0 none g (.any true)) i caps with
  | nil => exact absurd h (dotStar_ne_nil env s g i caps)
  | cons p t => exact ⟨p, List.mem_cons_self .., by simp [runsSeq]⟩

/-! ### Membership in a sequence -/

theorem mem_runsSeq_cons (env : CharEnv) (s : Str) (r : Rx) (rs : List Rx) (i : Nat) (caps : Caps)
    (q : Nat × Caps) :
    q ∈ runsSeq env s (r :: rs) i caps ↔ ∃ p ∈ runs env s r i caps, q ∈ runsSeq env s rs p.1 p.2 := by
  rw [runsSeq, List.mem_flatMap]

theorem mem_runsSeq_nil (env : CharEnv) (s : Str) (i : Nat) (caps : Caps) (q : Nat × Caps) :
    q ∈ runsSeq env s [] i caps ↔ q = (i, caps) := by
  rw [runsSeq, List.mem_singleton]

theorem runsSeq_eos (env : CharEnv) (s : Str) (i : Nat) (caps : Caps) :
    runsSeq env s [.eos] i caps ≠ [] ↔ i = s.length := by
  by_cases h : i = s.length <;> simp [runsSeq, runs, h]

/-- A zero-width test in front of a sequence. -/
theorem guard_seq (env : CharEnv) (s : Str) (r : Rx) (rs : List Rx) (i : Nat) (caps : Caps) (b : Bool)
    (h : runs env s r i caps = if b then [(i, caps)] else []) :
    runsSeq env s (r :: rs) i caps ≠ [] ↔ b = true ∧ runsSeq env s rs i caps ≠ [] := by
  rw [runsSeq, h]
  cases b <;> simp

/-! ### Literal runs with a continuation -/

/-- `v` occurs in `s` at offset `i`. -/
def occursAt (v s : Str) (i : Nat) : Bool := (s.drop i).take v.length == v

theorem runsSeq_lits_cont (env : CharEnv) (ic : Bool) (s : Str) (caps : Caps) (rest : List Rx) :
    ∀ (v : List Nat) (i : Nat),
      runsSeq env s (v.map (fun c => Rx.lit c ic) ++ rest) i caps =
        if C11.litsEq env ic v ((s.drop i).take v.length) then runsSeq env s rest (i + v.length) caps
        else []
  | [], i => by simp [C11.litsEq]
  | ch :: v, i => by
    simp only [List.map_cons, List.cons_append, List.length_cons]
    rw [runsSeq, C11.runs_lit]
    by_cases hlt : i < s.length
    · have hget : s[i]? = some s[i] := List.getElem?_eq_getElem hlt
      have hdrop : s.drop i = s[i] :: s.drop (i + 1) := List.drop_eq_getElem_cons hlt
      rw [hget, hdrop]
      simp only [List.take_succ_cons, C11.litsEq]
      by_cases hc : C11.chEq env ic s[i] ch = true
      · simp only [hc, if_true, List.flatMap_cons, List.flatMap_nil, List.append_nil, Bool.true_and]
        rw [runsSeq_lits_cont env ic s caps rest v (i + 1)]
        have : i + 1 + v.length = i + (v.length + 1) := by omega
        rw [this]
      · have hc' : C11.chEq env ic s[i] ch = false := by simpa using hc
        simp [hc']
    · have hnone : s[i]? = none := List.getElem?_eq_none (by omega)
      have hdrop : s.drop i = [] := List.drop_eq_nil_of_le (by omega)
      rw [hnone, hdrop]
      simp [C11.litsEq]

/-- Literals followed by anything: the (folded) value occurs here, and the rest goes on after it. -/
theorem lits_cont (env : CharEnv) (ic : Bool) (hfold : ic = true → env.fold = lowerCp)
    (s : Str) (caps : Caps) (rest : List Rx) (v : Str) (i : Nat) :
    runsSeq env s (Parser.lits v ic ++ rest) i caps =
      if occursAt (Css.foldCase ic v) (Css.foldCase ic s) i then
        runsSeq env s rest (i + v.length) caps
      else [] := by
  unfold Parser.lits
  rw [runsSeq_lits_cont, litsEq_fold env ic hfold, foldCase_take, foldCase_drop]
  unfold occursAt
  rw [foldCase_length]

theorem occursAt_length {v s : Str} {i : Nat} (hi : i ≤ s.length) (h : occursAt v s i = true) :
    i + v.length ≤ s.length := by
  unfold occursAt at h
  have h' := congrArg List.length (eq_of_beq h)
  simp only [List.length_take, List.length_drop] at h'
  omega

/-! ### The look-arounds of `~=` -/

theorem runs_lookbehind_bos (env : CharEnv) (s : Str) (i : Nat) (caps : Caps) :
    runs env s (.look false false .bos) i caps = if i == 0 then [(i, caps)] else [] := by
  rw [runs]
  simp only [Rx.width, runs]
  by_cases h : i = 0 <;> simp [h]

theorem runs_lookbehind_ws (env : CharEnv) (ic : Bool) (hfold : ic = true → env.fold = lowerCp)
    (s : Str) (i : Nat) (caps : Caps) :
    runs env s (.look false false (Parser.wsSet ic)) i caps =
      if decide (1 ≤ i) && wsAt s (i - 1) then [(i, caps)] else [] := by
  rw [runs]
  have hw : Rx.width (Parser.wsSet ic) = some 1 := rfl
  simp only [hw, runs_wsSet env ic hfold]
  by_cases h : 1 ≤ i
  · have h' : i - 1 + 1 = i := by omega
    cases hws : wsAt s (i - 1) <;> simp [h, h']
  · simp [h]

theorem runs_lookahead_ws_eos (env : CharEnv) (ic : Bool) (hfold : ic = true → env.fold = lowerCp)
    (s : Str) (i : Nat) (caps : Caps) :
    runs env s (.look true false (.alt [Parser.wsSet ic, .eos])) i caps =
      if wsAt s i || i == s.length then [(i, caps)] else [] := by
  rw [runs]
  simp only [runs, runsAlt, runs_wsSet env ic hfold]
  cases hws : wsAt s i <;> by_cases h : i = s.length <;> simp [h]

theorem runs_alt2 (env : CharEnv) (s : Str) (a b : Rx) (i : Nat) (caps : Caps) :
    runs env s (.alt [a, b]) i caps = runs env s a i caps ++ runs env s b i caps := by
  rw [runs, runsAlt, runsAlt, runsAlt, List.append_nil]

/-- Left boundary of a word: start of the string, or just after white space. -/
def leftOk (s : Str) (i : Nat) : Bool := i == 0 || (decide (1 ≤ i) && wsAt s (i - 1))

/-- Right boundary of a word: end of the string, or just before white space. -/
def rightOk (s : Str) (i : Nat) : Bool := wsAt s i || i == s.length

theorem left_seq (env : CharEnv) (ic : Bool) (hfold : ic = true → env.fold = lowerCp)
    (s : Str) (rs : List Rx) (i : Nat) (caps : Caps) :
    runsSeq env s (.alt [.look false false .bos, .look false false (Parser.wsSet ic)] :: rs) i caps ≠ [] ↔
      leftOk s i = true ∧ runsSeq env s rs i caps ≠ [] := by
  refine guard_seq env s _ rs i caps (leftOk s i) ?_
  rw [runs_alt2, runs_lookbehind_bos, runs_lookbehind_ws env ic hfold]
  unfold leftOk
  by_cases h : i = 0
  · subst h; simp
  · have h1 : 1 ≤ i := by omega
    cases hws : wsAt s (i - 1) <;> simp [h, h1]

theorem right_seq (env : CharEnv) (ic : Bool) (hfold : ic = true → env.fold = lowerCp)
    (s : Str) (rs : List Rx) (i : Nat) (caps : Caps) :
    runsSeq env s (.look true false (.alt [Parser.wsSet ic, .eos]) :: rs) i caps ≠ [] ↔
      rightOk s i = true ∧ runsSeq env s rs i caps ≠ [] :=
  guard_seq env s _ rs i caps (rightOk s i) (runs_lookahead_ws_eos env ic hfold s i caps)

/-! ### The optional tail of `|=` -/

theorem flatMap_singleton_fun {α} (f : α → List α) (h : ∀ x, f x = [x]) :
    ∀ l : List α, l.flatMap f = l
  | [] => rfl
  | x :: l => by rw [List.flatMap_cons, h x, flatMap_singleton_fun f h l]; rfl

/-- A greedy `(...)?`: the body's results first, then the empty iteration. -/
theorem iter_opt (body : Nat → Caps → List (Nat × Caps)) (f pos : Nat) (caps : Caps) :
    iter body 0 (some 1) true (f + 2) 0 pos caps = body pos caps ++ [(pos, caps)] := by
  have h1 : ∀ p' c', iter body 0 (some 1) true (f + 1) 1 p' c' = [(p', c')] := by
    intro p' c'; rw [iter]; simp
  rw [iter]
  simp only [Nat.lt_add_one, if_true, h1, Nat.zero_le, ge_iff_le]
  congr 1
  apply flatMap_singleton_fun
  rintro ⟨p', c'⟩
  simp

theorem runs_opt (env : CharEnv) (s : Str) (r : Rx) (i : Nat) (caps : Caps) :
    runs env s (.rep 0 (some 1) true r) i caps = runs env s r i caps ++ [(i, caps)] := by
  rw [runs]
  exact iter_opt _ _ i caps

/-- `(?:-.*)?\Z` at `j`: we are at the end, or at a hyphen. -/
theorem dash_tail (env : CharEnv) (ic : Bool) (s : Str) (j : Nat) (caps : Caps) (hj : j ≤ s.length) :
    runsSeq env s [.rep 0 (some 1) true (.seq [.lit 45 ic, .rep 0 none true (.any true)]), .eos] j caps ≠ [] ↔
      j = s.length ∨ ∃ x, s[j]? = some x ∧ C11.chEq env ic x 45 = true := by
  rw [runsSeq_cons_ne_nil, runs_opt]
  constructor
  · rintro ⟨p, hp, hne⟩
    rw [runsSeq_eos] at hne
    rw [List.mem_append, List.mem_singleton] at hp
    rcases hp with hp | rfl
    · right
      have hne' : runs env s (.seq [.lit 45 ic, .rep 0 none true (.any true)]) j caps ≠ [] :=
        List.ne_nil_of_mem hp
      rw [runs, runsSeq_cons_ne_nil] at hne'
      obtain ⟨q, hq, -⟩ := hne'
      rw [C11.runs_lit] at hq
      cases hs : s[j]? with
      | none => rw [hs] at hq; simp at hq
      | some x =>
        rw [hs] at hq
        cases hc : C11.chEq env ic x 45 with
        | false => simp [hc] at hq
        | true => exact ⟨x, rfl, hc⟩
    · exact Or.inl hne
  · rintro (rfl | ⟨x, hx, hc⟩)
    · exact ⟨(s.length, caps), by simp, (runsSeq_eos ..).mpr rfl⟩
    · have hlt : j < s.length := by
        rcases Nat.lt_or_ge j s.length with h | h
        · exact h
        · rw [List.getElem?_eq_none h] at hx; cases hx
      refine ⟨(s.length, caps), ?_, (runsSeq_eos ..).mpr rfl⟩
      rw [List.mem_append]
      left
      rw [runs, mem_runsSeq_cons]
      refine ⟨(j + 1, caps), ?_, ?_⟩
      · simp [C11.runs_lit, hx, hc]
      · rw [mem_runsSeq_cons]
        refine ⟨(s.length, caps), ?_, (mem_runsSeq_nil ..).mpr rfl⟩
        exact (mem_dotStar env s true (j + 1) caps s.length caps hlt).mpr ⟨rfl, hlt, Nat.le_refl _⟩

/-! ### Pure list facts -/

theorem occursAt_zero (v s : Str) : occursAt v s 0 = v.isPrefixOf s := by
  apply Bool.eq_iff_iff.mpr
  unfold occursAt
  rw [List.drop_zero, List.isPrefixOf_iff_prefix, List.prefix_iff_eq_take, beq_iff_eq]
  exact eq_comm

theorem occursAt_succ (v : Str) (c : Nat) (s : Str) (j : Nat) :
    occursAt v (c :: s) (j + 1) = occursAt v s j := rfl

theorem occursAt_drop (v s : Str) (j : Nat) : occursAt v s j = v.isPrefixOf (s.drop j) := by
  rw [← occursAt_zero]; rfl

theorem exists_occursAt_end_iff (v s : Str) :
    (∃ j, j ≤ s.length ∧ occursAt v s j = true ∧ j + v.length = s.length) ↔ v.isSuffixOf s = true := by
  rw [List.isSuffixOf_iff_suffix, List.suffix_iff_eq_drop]
  constructor
  · rintro ⟨j, _, ho, hl⟩
    have hj : s.length - v.length = j := by omega
    rw [hj]
    unfold occursAt at ho
    have ho' := eq_of_beq ho
    rw [← ho', List.take_of_length_le]
    rw [List.length_drop]; omega
  · intro h
    have hl : v.length ≤ s.length := by
      have := congrArg List.length h
      rw [List.length_drop] at this
      omega
    refine ⟨s.length - v.length, by omega, ?_, by omega⟩
    unfold occursAt
    rw [← h, beq_iff_eq]
    exact List.take_length

theorem isInfix_iff (v : Str) : ∀ s : Str,
    isInfix v s = true ↔ ∃ j, j ≤ s.length ∧ occursAt v s j = true
  | [] => by
    rw [isInfix]
    constructor
    · intro h
      have : v = [] := List.isEmpty_iff.mp h
      subst this
      exact ⟨0, Nat.le_refl _, rfl⟩
    · rintro ⟨j, hj, h⟩
      have hj0 : j = 0 := by simpa using hj
      subst hj0
      rw [occursAt_zero] at h
      cases v with
      | nil => rfl
      | cons a v => simp at h
  | c :: s => by
    rw [isInfix, Bool.or_eq_true, isInfix_iff v s, ← occursAt_zero]
    constructor
    · rintro (h | ⟨j, hj, h⟩)
      · exact ⟨0, Nat.zero_le _, h⟩
      · exact ⟨j + 1, by simpa using hj, h⟩
    · rintro ⟨j, hj, h⟩
      cases j with
      | zero => exact Or.inl h
      | succ j => exact Or.inr ⟨j, by simpa using hj, h⟩

/-- Equal, or continued by a hyphen. -/
theorem dash_iff (v s : Str) :
    (occursAt v s 0 = true ∧ (0 + v.length = s.length ∨ s[0 + v.length]? = some 45)) ↔
      ((s == v) = true ∨ (v ++ [45]).isPrefixOf s = true) := by
  rw [occursAt_zero, List.isPrefixOf_iff_prefix, List.isPrefixOf_iff_prefix, beq_iff_eq, Nat.zero_add]
  constructor
  · rintro ⟨⟨t, rfl⟩, h⟩
    rcases h with h | h
    · left
      rw [List.length_append] at h
      have : t = [] := List.eq_nil_of_length_eq_zero (by omega)
      rw [this, List.append_nil]
    · right
      rw [List.getElem?_append_right (Nat.le_refl _), Nat.sub_self] at h
      cases t with
      | nil => simp at h
      | cons a t =>
        simp at h
        subst h
        exact ⟨t, by simp⟩
  · rintro (rfl | ⟨t, rfl⟩)
    · exact ⟨List.prefix_refl _, Or.inl rfl⟩
    · refine ⟨⟨45 :: t, by simp⟩, Or.inr ?_⟩
      simp

/-! ### Words -/

/-- `v` stands in `s` at offset `j` as a whole word. -/
def wordAt (v s : Str) (j : Nat) : Bool := leftOk s j && occursAt v s j && rightOk s (j + v.length)

theorem wsAt_zero_cons (c : Nat) (s : Str) : wsAt (c :: s) 0 = isCssWs c := rfl
theorem wsAt_succ_cons (c : Nat) (s : Str) (k : Nat) : wsAt (c :: s) (k + 1) = wsAt s k := by
  simp [wsAt]

theorem wsAt_lt {s : Str} {k : Nat} (h : wsAt s k = true) : k < s.length := by
  rcases Nat.lt_or_ge k s.length with h' | h'
  · exact h'
  · simp [wsAt, List.getElem?_eq_none h'] at h

/-- Empty, or starting with white space. -/
def endOrWs : Str → Bool
  | [] => true
  | c :: _ => isCssWs c

theorem wordHere_eq (v s : Str) :
    Css.wordHere v s = (v.isPrefixOf s && endOrWs (s.drop v.length)) := by
  unfold Css.wordHere
  cases s.drop v.length <;> rfl

theorem match_drop (s : Str) (k : Nat) (hk : k ≤ s.length) : endOrWs (s.drop k) = rightOk s k := by
  unfold rightOk
  by_cases h : k < s.length
  · rw [List.drop_eq_getElem_cons h]
    have hne : (k == s.length) = false := by simp; omega
    simp [endOrWs, wsAt, List.getElem?_eq_getElem h, hne]
  · have hk' : k = s.length := by omega
    subst hk'
    simp [endOrWs, wsAt]

theorem wordHere_drop (v s : Str) (j : Nat) (hj : j ≤ s.length) :
    Css.wordHere v (s.drop j) = (occursAt v s j && rightOk s (j + v.length)) := by
  rw [wordHere_eq, ← occursAt_drop]
  cases ho : occursAt v s j with
  | false => rfl
  | true =>
    have hl := occursAt_length hj ho
    rw [List.drop_drop, match_drop s (j + v.length) hl]

theorem hasWordFrom_iff (v : Str) : ∀ (s : Str) (b : Bool),
    Css.hasWordFrom v b s = true ↔
      (b = true ∧ Css.wordHere v s = true) ∨
        ∃ j, j < s.length ∧ wsAt s j = true ∧ Css.wordHere v (s.drop (j + 1)) = true
  | [], b => by
    rw [Css.hasWordFrom, Bool.and_eq_true]
    constructor
    · exact Or.inl
    · rintro (h | ⟨j, hj, _⟩)
      · exact h
      · simp at hj
  | c :: s, b => by
    rw [Css.hasWordFrom, Bool.or_eq_true, Bool.and_eq_true, hasWordFrom_iff v s (isCssWs c)]
    constructor
    · rintro (h | ⟨h1, h2⟩ | ⟨j, hj, h1, h2⟩)
      · exact Or.inl h
      · exact Or.inr ⟨0, by simp, h1, h2⟩
      · exact Or.inr ⟨j + 1, by simpa using hj, by rw [wsAt_succ_cons]; exact h1, h2⟩
    · rintro (h | ⟨j, hj, h1, h2⟩)
      · exact Or.inl h
      · cases j with
        | zero => exact Or.inr (Or.inl ⟨h1, h2⟩)
        | succ j =>
          rw [wsAt_succ_cons] at h1
          exact Or.inr (Or.inr ⟨j, by simpa using hj, h1, h2⟩)

/-- The executable word test, read by positions. -/
theorem hasWord_iff_wordAt (v s : Str) :
    Css.hasWord v s = true ↔ ∃ j, j ≤ s.length ∧ wordAt v s j = true := by
  unfold Css.hasWord
  rw [hasWordFrom_iff]
  constructor
  · rintro (⟨-, h⟩ | ⟨j, hj, h1, h2⟩)
    · refine ⟨0, Nat.zero_le _, ?_⟩
      have := wordHere_drop v s 0 (Nat.zero_le _)
      rw [List.drop_zero, h] at this
      unfold wordAt leftOk
      rw [Bool.and_assoc, ← this]; rfl
    · refine ⟨j + 1, hj, ?_⟩
      rw [wordHere_drop v s (j + 1) hj] at h2
      unfold wordAt leftOk
      rw [Bool.and_assoc, h2]
      simp [h1]
  · rintro ⟨j, hj, h⟩
    unfold wordAt at h
    rw [Bool.and_assoc, Bool.and_eq_true, ← wordHere_drop v s j hj] at h
    cases j with
    | zero => exact Or.inl ⟨rfl, by simpa using h.2⟩
    | succ j =>
      have h1 : wsAt s j = true := by simpa [leftOk] using h.1
      exact Or.inr ⟨j, wsAt_lt h1, h1, h.2⟩

theorem wordAt_foldCase (ic : Bool) (v s : Str) (j : Nat) :
    wordAt (Css.foldCase ic v) (Css.foldCase ic s) j =
      (leftOk s j && occursAt (Css.foldCase ic v) (Css.foldCase ic s) j && rightOk s (j + v.length)) := by
  unfold wordAt leftOk rightOk
  simp only [wsAt_foldCase, foldCase_length]

/-- The declarative reading, by positions. -/
theorem isWordOf_iff_wordAt (v s : Str) :
    Css.IsWordOf v s ↔ ∃ j, j ≤ s.length ∧ wordAt v s j = true := by
  constructor
  · rintro ⟨a, b, rfl, ha, hb⟩
    refine ⟨a.length, by simp <;> omega, ?_⟩
    have hocc : occursAt v (a ++ v ++ b) a.length = true := by
      unfold occursAt
      rw [List.append_assoc, List.drop_left, List.take_left, beq_self_eq_true]
    have hleft : leftOk (a ++ v ++ b) a.length = true := by
      unfold leftOk
      rcases ha with rfl | ⟨a', c, rfl, hc⟩
      · rfl
      · simp [wsAt, hc]
    have hright : rightOk (a ++ v ++ b) (a.length + v.length) = true := by
      unfold rightOk
      rcases hb with rfl | ⟨c, b', rfl, hc⟩
      · simp
      · have : (a ++ v ++ c :: b')[a.length + v.length]? = some c := by
          rw [← List.length_append, List.getElem?_append_right (Nat.le_refl _)]
          simp
        simp [wsAt, hc]
    unfold wordAt
    rw [hleft, hocc, hright]; rfl
  · rintro ⟨j, hj, h⟩
    unfold wordAt at h
    rw [Bool.and_eq_true, Bool.and_eq_true] at h
    obtain ⟨⟨hl, ho⟩, hr⟩ := h
    have hlen := occursAt_length hj ho
    have hv : (s.drop j).take v.length = v := eq_of_beq ho
    refine ⟨s.take j, s.drop (j + v.length), ?_, ?_, ?_⟩
    · conv => lhs; rw [← List.take_append_drop j s, ← List.take_append_drop v.length (s.drop j)]
      rw [hv, List.drop_drop, List.append_assoc]
    · unfold leftOk at hl
      cases j with
      | zero => left; rfl
      | succ j =>
        right
        have hw : wsAt s j = true := by simpa using hl
        have hlt := wsAt_lt hw
        refine ⟨s.take j, s[j], ?_, ?_⟩
        · rw [List.take_add_one, List.getElem?_eq_getElem hlt]; rfl
        · simpa [wsAt, List.getElem?_eq_getElem hlt] using hw
    · unfold rightOk at hr
      by_cases hlt : j + v.length < s.length
      · right
        have hne : (j + v.length == s.length) = false := by simp; omega
        rw [hne, Bool.or_false] at hr
        refine ⟨s[j + v.length], s.drop (j + v.length + 1), List.drop_eq_getElem_cons hlt, ?_⟩
        simpa [wsAt, List.getElem?_eq_getElem hlt] using hr
      · left
        exact List.drop_eq_nil_of_le (by omega)

/-! ### Sequences that cannot match -/

theorem runsSeq_noMatch (env : CharEnv) (s : Str) (ic : Bool) (rs : List Rx) (i : Nat) (caps : Caps) :
    runsSeq env s (Parser.noMatchSet ic :: rs) i caps = [] := by
  rw [runsSeq, runs_noMatchSet]; rfl

theorem runsSeq_cons_nil (env : CharEnv) (s : Str) (r : Rx) (rs : List Rx) (i : Nat) (caps : Caps)
    (h : ∀ j c, runsSeq env s rs j c = []) : runsSeq env s (r :: rs) i caps = [] := by
  rw [runsSeq, List.flatMap_eq_nil_iff]
  intro p _
  exact h p.1 p.2

/-- Literals followed by anything, as an existence statement. -/
theorem lits_seq (env : CharEnv) (ic : Bool) (hfold : ic = true → env.fold = lowerCp)
    (s : Str) (caps : Caps) (rest : List Rx) (v : Str) (i : Nat) :
    runsSeq env s (Parser.lits v ic ++ rest) i caps ≠ [] ↔
      occursAt (Css.foldCase ic v) (Css.foldCase ic s) i = true ∧
        runsSeq env s rest (i + v.length) caps ≠ [] := by
  rw [lits_cont env ic hfold]
  cases occursAt (Css.foldCase ic v) (Css.foldCase ic s) i <;> simp

theorem bos_seq (env : CharEnv) (s : Str) (rs : List Rx) (caps : Caps) :
    runsSeq env s (.bos :: rs) 0 caps = runsSeq env s rs 0 caps := by
  simp [runsSeq, runs]

theorem isMatch_of_runs_nil (env : CharEnv) (r : Rx) (s : Str) (h : runs env s r 0 [] = []) :
    Rx.isMatch env r s = false := by
  simp [Rx.isMatch, Rx.matchAt, h]

end AttrTemplates
end SoupVerif
