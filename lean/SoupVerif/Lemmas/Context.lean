/-
  Lemmas for C20 part A (`get_pattern_context`).

  Structure of the argument:
    1. `breakInduction`: induction over a string by line-break units (`\r\n`, lone `\r`,
       `\n`, any other character), with unfolding lemmas for every scanner;
    2. `Chain`: the `finditer` matches tile the pattern, and their end offsets are `breakEnds`;
    3. `step_first/marked/other`, `run_passed`, `run_main`: the loop over an abstract chain;
    4. `lineTexts`, `inner_splitLines`: the slices are `Spec.Ctx.lines`, and "strictly inside a
       match" is "at the `\n` of a `\r\n` pair";
    5. `gpc_single`, `gpc_multi`: the whole function.
-/
import SoupVerif.Model.Context
import SoupVerif.Spec.Context
namespace SoupVerif
namespace CtxLemmas
open Context Spec.Ctx

theorem breakInduction {motive : Str → Prop}
    (nil : motive [])
    (crlf : ∀ r, motive r → motive (13 :: 10 :: r))
    (cr : ∀ r, r.head? ≠ some 10 → motive r → motive (13 :: r))
    (lf : ∀ r, motive r → motive (10 :: r))
    (other : ∀ c r, c ≠ 13 → c ≠ 10 → motive r → motive (c :: r)) : ∀ s, motive s := by
  have key : ∀ s : Str, motive s ∧ ∀ c, motive (c :: s) := by
    intro s
    induction s with
    | nil =>
      refine ⟨nil, fun c => ?_⟩
      by_cases h13 : c = 13
      · subst h13; exact cr [] (by simp) nil
      · by_cases h10 : c = 10
        · subst h10; exact lf [] nil
        · exact other c [] h13 h10 nil
    | cons d r ih =>
      refine ⟨ih.2 d, fun c => ?_⟩
      by_cases h13 : c = 13
      · subst h13
        by_cases hd : d = 10
        · subst hd; exact crlf r ih.1
        · exact cr (d :: r) (by simpa using hd) (ih.2 d)
      · by_cases h10 : c = 10
        · subst h10; exact lf (d :: r) (ih.2 d)
        · exact other c (d :: r) h13 h10 (ih.2 d)
  exact fun s => (key s).1

theorem sl_nil (pos last : Nat) : splitLinesAux [] pos last = [(last, pos, pos)] := by
  simp [splitLinesAux]
theorem sl_crlf (r : Str) (pos last : Nat) :
    splitLinesAux (13 :: 10 :: r) pos last
      = (last, pos, pos + 2) :: splitLinesAux r (pos + 2) (pos + 2) := by
  simp [splitLinesAux]
theorem sl_cr (r : Str) (pos last : Nat) (h : r.head? ≠ some 10) :
    splitLinesAux (13 :: r) pos last
      = (last, pos, pos + 1) :: splitLinesAux r (pos + 1) (pos + 1) := by
  cases r with
  | nil => simp [splitLinesAux]
  | cons d r' =>
    have : d ≠ 10 := by simpa using h
    simp [splitLinesAux, this]
theorem sl_lf (r : Str) (pos last : Nat) :
    splitLinesAux (10 :: r) pos last
      = (last, pos, pos + 1) :: splitLinesAux r (pos + 1) (pos + 1) := by
  cases r <;> simp [splitLinesAux]
theorem sl_other (c : Nat) (r : Str) (pos last : Nat) (h1 : c ≠ 13) (h2 : c ≠ 10) :
    splitLinesAux (c :: r) pos last = splitLinesAux r (pos + 1) last := by
  cases r <;> simp [splitLinesAux, h1, h2]

theorem be_nil (pos : Nat) : breakEndsFrom pos [] = [] := by simp [breakEndsFrom]
theorem be_crlf (r : Str) (pos : Nat) :
    breakEndsFrom pos (13 :: 10 :: r) = (pos + 2) :: breakEndsFrom (pos + 2) r := by
  simp [breakEndsFrom]
theorem be_cr (r : Str) (pos : Nat) (h : r.head? ≠ some 10) :
    breakEndsFrom pos (13 :: r) = (pos + 1) :: breakEndsFrom (pos + 1) r := by
  cases r with
  | nil => simp [breakEndsFrom]
  | cons d r' =>
    have : d ≠ 10 := by simpa using h
    simp [breakEndsFrom, this]
theorem be_lf (r : Str) (pos : Nat) :
    breakEndsFrom pos (10 :: r) = (pos + 1) :: breakEndsFrom (pos + 1) r := by
  cases r <;> simp [breakEndsFrom]
theorem be_other (c : Nat) (r : Str) (pos : Nat) (h1 : c ≠ 13) (h2 : c ≠ 10) :
    breakEndsFrom pos (c :: r) = breakEndsFrom (pos + 1) r := by
  cases r <;> simp [breakEndsFrom, h1, h2]

theorem ln_nil : lines [] = [[]] := by simp [lines]
theorem ln_crlf (r : Str) : lines (13 :: 10 :: r) = [] :: lines r := by simp [lines]
theorem ln_cr (r : Str) (h : r.head? ≠ some 10) : lines (13 :: r) = [] :: lines r := by
  cases r with
  | nil => simp [lines]
  | cons d r' =>
    have : d ≠ 10 := by simpa using h
    simp [lines, this]
theorem ln_lf (r : Str) : lines (10 :: r) = [] :: lines r := by cases r <;> simp [lines]
theorem ln_other (c : Nat) (r : Str) (h1 : c ≠ 13) (h2 : c ≠ 10) :
    lines (c :: r) = prependFirst [c] (lines r) := by
  cases r <;> simp [lines, h1, h2]


/-! ### The matches form a chain of adjacent intervals -/

/-- `Chain n l ms ends`: `ms` is a list of matches `(last, start, end)` that tile `[l, n]`:
    every non-final match has one or two characters and the next line starts where it ends,
    the final one is
    the empty match at `n`; `ends` lists the end offsets of the non-final matches. -/
inductive Chain (n : Nat) : Nat → List Match → List Nat → Prop
  | last {l : Nat} : l ≤ n → Chain n l [(l, n, n)] []
  | cons {l s e : Nat} {ms : List Match} {ends : List Nat} :
      l ≤ s → s < e → e ≤ s + 2 → e ≤ n → Chain n e ms ends →
      Chain n l ((l, s, e) :: ms) (e :: ends)

theorem splitLinesAux_chain : ∀ (s : Str) (pos last : Nat), last ≤ pos →
    Chain (pos + s.length) last (splitLinesAux s pos last) (breakEndsFrom pos s) := by
  intro s
  induction s using breakInduction with
  | nil => intro pos last h; rw [sl_nil, be_nil]; exact Chain.last h
  | crlf r ih =>
    intro pos last h
    rw [sl_crlf, be_crlf]
    have e : pos + (13 :: 10 :: r).length = pos + 2 + r.length := by simp; omega
    rw [e]
    exact Chain.cons h (by omega) (by omega) (by omega) (ih (pos + 2) (pos + 2) (Nat.le_refl _))
  | cr r hr ih =>
    intro pos last h
    rw [sl_cr _ _ _ hr, be_cr _ _ hr]
    have e : pos + (13 :: r).length = pos + 1 + r.length := by simp; omega
    rw [e]
    exact Chain.cons h (by omega) (by omega) (by omega) (ih (pos + 1) (pos + 1) (Nat.le_refl _))
  | lf r ih =>
    intro pos last h
    rw [sl_lf, be_lf]
    have e : pos + (10 :: r).length = pos + 1 + r.length := by simp; omega
    rw [e]
    exact Chain.cons h (by omega) (by omega) (by omega) (ih (pos + 1) (pos + 1) (Nat.le_refl _))
  | other c r h1 h2 ih =>
    intro pos last h
    rw [sl_other _ _ _ _ h1 h2, be_other _ _ _ h1 h2]
    have e : pos + (c :: r).length = pos + 1 + r.length := by simp; omega
    rw [e]
    exact ih (pos + 1) last (by omega)

theorem splitLines_chain (p : Str) : Chain p.length 0 (splitLines p) (breakEnds p) := by
  have := splitLinesAux_chain p 0 0 (Nat.le_refl _)
  simpa [splitLines, breakEnds] using this

theorem Chain.ms_ne_nil {n l ms ends} (h : Chain n l ms ends) : ms ≠ [] := by
  cases h <;> simp

theorem Chain.length_eq {n l ms ends} (h : Chain n l ms ends) : ms.length = ends.length + 1 := by
  induction h with
  | last _ => rfl
  | cons _ _ _ _ _ ih => simp [ih]

theorem Chain.of_ends_nil {n l ms ends} (h : Chain n l ms ends) (he : ends = []) :
    ms = [(l, n, n)] := by
  cases h with
  | last _ => rfl
  | cons _ _ _ _ _ => cases he

theorem Chain.start_le {n l ms ends} (h : Chain n l ms ends) : l ≤ n := by
  cases h with
  | last h => exact h
  | cons h1 h2 _ h3 _ => omega

theorem Chain.lt_ends {n l ms ends} (h : Chain n l ms ends) : ∀ x ∈ ends, l < x := by
  induction h with
  | last _ => intro x hx; cases hx
  | cons h1 h2 _ h3 _ ih =>
    intro x hx
    rcases List.mem_cons.mp hx with rfl | hx
    · omega
    · have := ih x hx; omega

theorem Chain.filter_nil {n l ms ends i} (h : Chain n l ms ends) (hi : i < l) :
    ends.filter (· ≤ i) = [] := by
  rw [List.filter_eq_nil_iff]
  intro x hx
  have := h.lt_ends x hx
  simp; omega

/-- Offset `i` lies strictly inside some match (only possible inside a two-character match). -/
def inner (i : Nat) (ms : List Match) : Bool :=
  ms.any (fun m => decide (m.2.1 < i) && decide (i < m.2.2))

theorem Chain.inner_false {n l ms ends i} (h : Chain n l ms ends) (hi : i ≤ l) :
    inner i ms = false := by
  induction h with
  | last h => simp [inner]; omega
  | cons h1 h2 _ h3 _ ih =>
    have := ih (by omega)
    simp only [inner, List.any_cons] at this ⊢
    rw [this]; simp; omega


theorem Chain.ends_le {n l ms ends} (h : Chain n l ms ends) : ∀ x ∈ ends, x ≤ n := by
  induction h with
  | last _ => intro x hx; cases hx
  | cons _ _ _ h3 _ ih =>
    intro x hx
    rcases List.mem_cons.mp hx with rfl | hx
    · exact h3
    · exact ih x hx

theorem Chain.inner_pos {n l ms ends i} (h : Chain n l ms ends) (hin : inner i ms = true) :
    l < i := by
  by_cases hl : i ≤ l
  · rw [h.inner_false hl] at hin; cases hin
  · omega

/-- An offset strictly inside a match is not the end of any match, and the match it is inside
    of ends right after it. -/
theorem Chain.inner_ends {n l ms ends i} (h : Chain n l ms ends) (hin : inner i ms = true) :
    i ∉ ends ∧ i + 1 ∈ ends := by
  induction h with
  | last h => simp [inner] at hin; omega
  | @cons l s e ms ends h1 h2 h4 h3 hc ih =>
    simp only [inner, List.any_cons, Bool.or_eq_true, Bool.and_eq_true, decide_eq_true_eq] at hin
    rcases hin with ⟨a, b⟩ | hin
    · have hgt := hc.lt_ends
      refine ⟨?_, ?_⟩
      · intro hmem
        rcases List.mem_cons.mp hmem with rfl | hmem
        · omega
        · have := hgt i hmem; omega
      · have : i + 1 = e := by omega
        rw [this]; exact List.mem_cons_self
    · have hin' : inner i ms = true := hin
      have := hc.inner_pos hin'
      obtain ⟨a, b⟩ := ih hin'
      refine ⟨?_, List.mem_cons_of_mem _ b⟩
      intro hmem
      rcases List.mem_cons.mp hmem with rfl | hmem
      · omega
      · exact a hmem

theorem filter_le_pred {ends : List Nat} {i : Nat} (h : i ∉ ends) :
    ends.filter (· ≤ i) = ends.filter (· ≤ i - 1) := by
  apply List.filter_congr
  intro x hx
  have : x ≠ i := fun e => h (e ▸ hx)
  simp; omega

/-! ### One loop iteration, branch by branch -/

/-- `pattern[last:m.start(0)]` for a match that carries its own `last`. -/
def lineText (p : Str) (m : Match) : Str := slice p m.1 m.2.1

/-- `text` after `if len(text): text.append('\n')`. -/
def sepText (t : List Str) : List Str := if t.length ≠ 0 then t ++ [nl] else t

theorem sepText_of_ne {t : List Str} (h : t ≠ []) : sepText t = t ++ [nl] := by
  cases t with
  | nil => exact absurd rfl h
  | cons a b => simp [sepText]

theorem spaces_marked (c i s : Nat) :
    spaces ((c : Int) + ((if i > s then -1 else 0) + 3))
      = List.replicate (c + 3 - (if s < i then 1 else 0)) 32 := by
  unfold spaces
  congr 1
  by_cases h : s < i
  · simp [h]; omega
  · simp [h]; omega

theorem spaces_first (c : Nat) : spaces ((c : Int) + (-1)) = List.replicate (c - 1) 32 := by
  unfold spaces
  congr 1
  omega

theorem step_first {p : Str} {i : Nat} {st : LoopState} {l s e : Nat}
    (h1 : e - s = 0 ∧ st.text.length = 0) :
    step p i st (l, s, e) =
      { last := e, currentLine := st.currentLine + 1, col := i - st.last + 1,
        text := sepText st.text ++ [[] ++ slice p st.last s] ++
          [nl, List.replicate (i - st.last + 1 - 1) 32 ++ caret],
        line := st.currentLine } := by
  unfold step
  simp only [if_pos h1, emit, sepText, spaces_first]

theorem step_marked {p : Str} {i : Nat} {st : LoopState} {l s e : Nat}
    (h1 : ¬(e - s = 0 ∧ st.text.length = 0))
    (h2 : (st.last ≤ i ∧ i < e) ∨ (e - s = 0 ∧ i = e)) :
    step p i st (l, s, e) =
      { last := e, currentLine := st.currentLine + 1, col := i - st.last + 1,
        text := sepText st.text ++ [arrow ++ slice p st.last s] ++
          [nl, List.replicate (i - st.last + 1 + 3 - (if s < i then 1 else 0)) 32 ++ caret],
        line := st.currentLine } := by
  unfold step
  simp only [if_neg h1, if_pos h2, emit, sepText, spaces_marked]

theorem step_other {p : Str} {i : Nat} {st : LoopState} {l s e : Nat}
    (h1 : ¬(e - s = 0 ∧ st.text.length = 0))
    (h2 : ¬((st.last ≤ i ∧ i < e) ∨ (e - s = 0 ∧ i = e))) :
    step p i st (l, s, e) =
      { last := e, currentLine := st.currentLine + 1, col := st.col,
        text := sepText st.text ++ [pad ++ slice p st.last s], line := st.line } := by
  unfold step
  simp only [if_neg h1, if_neg h2, emit, sepText]


/-! ### `joinWith` -/

theorem joinWith_singleton (sep a : Str) : joinWith sep [a] = a := by simp [joinWith]

theorem joinWith_cons_ne (sep a : Str) {ps : List Str} (h : ps ≠ []) :
    joinWith sep (a :: ps) = a ++ sep ++ joinWith sep ps := by
  cases ps with
  | nil => exact absurd rfl h
  | cons b bs => simp [joinWith]

/-! ### The loop over a chain -/

/-- Lines after the marked one: nothing changes but the text, which gets the indented lines. -/
theorem run_passed {p : Str} {i n : Nat} {l : Nat} {ms : List Match} {ends : List Nat}
    (h : Chain n l ms ends) : ∀ st : LoopState, i < l → st.last = l → st.text ≠ [] →
      (ms.foldl (step p i) st).line = st.line ∧
      (ms.foldl (step p i) st).col = st.col ∧
      (ms.foldl (step p i) st).text.flatten =
        (sepText st.text).flatten ++ joinWith nl ((ms.map (lineText p)).map (pad ++ ·)) := by
  induction h with
  | @last l hl =>
    intro st hi hlast ht
    have h1 : ¬(n - n = 0 ∧ st.text.length = 0) := by
      intro h; exact ht (List.length_eq_zero_iff.mp h.2)
    have h2 : ¬((st.last ≤ i ∧ i < n) ∨ (n - n = 0 ∧ i = n)) := by omega
    simp only [List.foldl_cons, List.foldl_nil, step_other h1 h2, List.map_cons, List.map_nil,
      joinWith_singleton, lineText, hlast, List.flatten_append, List.flatten_cons,
      List.flatten_nil, List.append_nil, and_self]
  | @cons l s e ms ends h1' h2' _ h3' hc ih =>
    intro st hi hlast ht
    have h1 : ¬(e - s = 0 ∧ st.text.length = 0) := by omega
    have h2 : ¬((st.last ≤ i ∧ i < e) ∨ (e - s = 0 ∧ i = e)) := by omega
    rw [List.foldl_cons, step_other h1 h2]
    have hne : sepText st.text ++ [pad ++ slice p st.last s] ≠ [] := by simp
    obtain ⟨a, b, c⟩ := ih
      ⟨e, st.currentLine + 1, st.col, sepText st.text ++ [pad ++ slice p st.last s], st.line⟩
      (by show i < e; omega) rfl hne
    refine ⟨a, b, ?_⟩
    rw [c, sepText_of_ne hne]
    have hms : (List.map (lineText p) ms).map (pad ++ ·) ≠ [] := by
      simpa using hc.ms_ne_nil
    simp only [List.map_cons, joinWith_cons_ne _ _ hms, lineText, hlast, List.flatten_append,
      List.flatten_cons, List.flatten_nil, List.append_nil, List.append_assoc]


theorem getLast?_cons_getD (e l : Nat) (f : List Nat) :
    (e :: f).getLast?.getD l = f.getLast?.getD e := by
  cases f with
  | nil => simp
  | cons a b =>
    rw [List.getLast?_cons_cons, List.getLast?_eq_some_getLast (List.cons_ne_nil a b)]
    rfl

theorem render_ne_nil (c : Str) (k : Nat) {ts : List Str} (h : ts ≠ []) : render c k ts ≠ [] := by
  cases ts with
  | nil => exact absurd rfl h
  | cons t ts => cases k <;> simp [render]

theorem inner_cons (i l s e : Nat) (ms : List Match) :
    inner i ((l, s, e) :: ms) = ((decide (s < i) && decide (i < e)) || inner i ms) := by
  simp [inner]

/-- The lines from the current one on, when the offset has not been passed yet. -/
theorem run_main {p : Str} {i n : Nat} {l : Nat} {ms : List Match} {ends : List Nat}
    (h : Chain n l ms ends) : ∀ st : LoopState, l ≤ i → i ≤ n → st.last = l →
      (st.text ≠ [] ∨ ends ≠ []) →
      (ms.foldl (step p i) st).line = st.currentLine + (ends.filter (· ≤ i)).length ∧
      (ms.foldl (step p i) st).col = i - (ends.filter (· ≤ i)).getLast?.getD l + 1 ∧
      (ms.foldl (step p i) st).text.flatten =
        (sepText st.text).flatten ++ joinWith nl
          (render (caretLine (i - (ends.filter (· ≤ i)).getLast?.getD l + 1 + 3
                      - (if inner i ms then 1 else 0)))
            (ends.filter (· ≤ i)).length (ms.map (lineText p))) := by
  induction h with
  | @last l hl =>
    intro st hli hin hlast ht
    have ht' : st.text ≠ [] := by
      rcases ht with ht | ht
      · exact ht
      · exact absurd rfl ht
    have h1 : ¬(n - n = 0 ∧ st.text.length = 0) := by
      intro h; exact ht' (List.length_eq_zero_iff.mp h.2)
    have h2 : (st.last ≤ i ∧ i < n) ∨ (n - n = 0 ∧ i = n) := by omega
    have hinn : inner i [(l, n, n)] = false := by simp [inner]; omega
    have hni : ¬ n < i := by omega
    simp only [List.foldl_cons, List.foldl_nil, step_marked h1 h2, List.filter_nil,
      List.length_nil, List.getLast?_nil, Option.getD_none, hinn, hni, if_false,
      List.map_cons, List.map_nil, render, lineText, hlast, Nat.add_zero, Nat.sub_zero,
      joinWith_cons_ne nl _ (List.cons_ne_nil _ _), joinWith_singleton, caretLine,
      List.flatten_append, List.flatten_cons, List.flatten_nil, List.append_nil,
      List.append_assoc, Bool.false_eq_true, and_self]
  | @cons l s e ms ends h1' h2' _ h3' hc ih =>
    intro st hli hin hlast _
    have h1 : ¬(e - s = 0 ∧ st.text.length = 0) := by omega
    by_cases hie : i < e
    · -- the marked line
      have h2 : (st.last ≤ i ∧ i < e) ∨ (e - s = 0 ∧ i = e) := by omega
      rw [List.foldl_cons, step_marked h1 h2]
      have hne : sepText st.text ++ [arrow ++ slice p st.last s] ++
          [nl, List.replicate (i - st.last + 1 + 3 - (if s < i then 1 else 0)) 32 ++ caret]
            ≠ [] := by simp
      obtain ⟨a, b, c⟩ := run_passed (p := p) (i := i) hc
        ⟨e, st.currentLine + 1, i - st.last + 1,
          sepText st.text ++ [arrow ++ slice p st.last s] ++
          [nl, List.replicate (i - st.last + 1 + 3 - (if s < i then 1 else 0)) 32 ++ caret],
          st.currentLine⟩ hie rfl hne
      have hf : (e :: ends).filter (· ≤ i) = [] := by
        rw [List.filter_cons, hc.filter_nil hie]; simp; omega
      have hinn : inner i ((l, s, e) :: ms) = decide (s < i) := by
        rw [inner_cons, hc.inner_false (Nat.le_of_lt hie)]; simp [hie]
      have hms : (List.map (lineText p) ms).map (pad ++ ·) ≠ [] := by
        simpa using hc.ms_ne_nil
      refine ⟨by rw [a, hf]; rfl, by rw [b, hf]; simp [hlast], ?_⟩
      rw [c, sepText_of_ne hne, hf, hinn]
      simp only [List.length_nil, List.getLast?_nil, Option.getD_none, List.map_cons, render,
        lineText, hlast, decide_eq_true_eq,
        joinWith_cons_ne nl _ (List.cons_ne_nil _ _), joinWith_cons_ne nl _ hms, caretLine,
        List.flatten_append, List.flatten_cons, List.flatten_nil, List.append_nil,
        List.append_assoc]
    · -- a line before the marked one
      have h2 : ¬((st.last ≤ i ∧ i < e) ∨ (e - s = 0 ∧ i = e)) := by omega
      rw [List.foldl_cons, step_other h1 h2]
      have hne : sepText st.text ++ [pad ++ slice p st.last s] ≠ [] := by simp
      obtain ⟨a, b, c⟩ := ih
        ⟨e, st.currentLine + 1, st.col, sepText st.text ++ [pad ++ slice p st.last s], st.line⟩
        (by omega) hin rfl (Or.inl hne)
      have hf : (e :: ends).filter (· ≤ i) = e :: ends.filter (· ≤ i) := by
        rw [List.filter_cons]; simp; omega
      have hinn : inner i ((l, s, e) :: ms) = inner i ms := by
        rw [inner_cons]; simp [hie]
      have hr : render (caretLine (i - (ends.filter (· ≤ i)).getLast?.getD e + 1 + 3
            - (if inner i ms then 1 else 0))) (ends.filter (· ≤ i)).length
              (ms.map (lineText p)) ≠ [] :=
        render_ne_nil _ _ (by simpa using hc.ms_ne_nil)
      refine ⟨by rw [a, hf]; simp; omega, by rw [b, hf, getLast?_cons_getD], ?_⟩
      rw [c, sepText_of_ne hne, hf, hinn, getLast?_cons_getD]
      simp only [List.length_cons, List.map_cons, render, lineText, hlast,
        joinWith_cons_ne nl _ hr,
        List.flatten_append, List.flatten_cons, List.flatten_nil, List.append_nil,
        List.append_assoc]


/-! ### Line texts -/

theorem prependFirst_cons (a t : Str) (ts : List Str) :
    prependFirst a (t :: ts) = (a ++ t) :: ts := rfl

theorem prependFirst_ne_nil (a : Str) (l : List Str) : prependFirst a l ≠ [] := by
  cases l <;> simp [prependFirst]

theorem prependFirst_nil_left {l : List Str} (h : l ≠ []) : prependFirst [] l = l := by
  cases l with
  | nil => exact absurd rfl h
  | cons t ts => simp [prependFirst]

theorem prependFirst_prependFirst (a b : Str) (l : List Str) :
    prependFirst a (prependFirst b l) = prependFirst (a ++ b) l := by
  cases l <;> simp [prependFirst]

theorem lines_ne_nil : ∀ s : Str, lines s ≠ [] := by
  intro s
  induction s using breakInduction with
  | nil => simp [ln_nil]
  | crlf r _ => simp [ln_crlf]
  | cr r hr _ => simp [ln_cr r hr]
  | lf r _ => simp [ln_lf]
  | other c r h1 h2 _ => rw [ln_other c r h1 h2]; exact prependFirst_ne_nil _ _

theorem slice_prefix (pre s : Str) (last : Nat) :
    slice (pre ++ s) last pre.length = pre.drop last := by
  simp [slice]

theorem lineTexts_aux : ∀ (s pre : Str) (last : Nat), last ≤ pre.length →
    (splitLinesAux s pre.length last).map (lineText (pre ++ s))
      = prependFirst (pre.drop last) (lines s) := by
  intro s
  induction s using breakInduction with
  | nil =>
    intro pre last h
    simp [sl_nil, ln_nil, lineText, prependFirst, slice]
  | crlf r ih =>
    intro pre last h
    have := ih (pre ++ [13, 10]) (pre.length + 2) (by simp)
    simp only [List.length_append, List.length_cons, List.length_nil, List.append_assoc,
      List.cons_append, List.nil_append] at this
    rw [sl_crlf, ln_crlf, List.map_cons, this]
    simp [lineText, slice_prefix, prependFirst_cons, prependFirst_nil_left (lines_ne_nil r)]
  | cr r hr ih =>
    intro pre last h
    have := ih (pre ++ [13]) (pre.length + 1) (by simp)
    simp only [List.length_append, List.length_cons, List.length_nil, List.append_assoc,
      List.cons_append, List.nil_append] at this
    rw [sl_cr _ _ _ hr, ln_cr _ hr, List.map_cons, this]
    simp [lineText, slice_prefix, prependFirst_cons, prependFirst_nil_left (lines_ne_nil r)]
  | lf r ih =>
    intro pre last h
    have := ih (pre ++ [10]) (pre.length + 1) (by simp)
    simp only [List.length_append, List.length_cons, List.length_nil, List.append_assoc,
      List.cons_append, List.nil_append] at this
    rw [sl_lf, ln_lf, List.map_cons, this]
    simp [lineText, slice_prefix, prependFirst_cons, prependFirst_nil_left (lines_ne_nil r)]
  | other c r h1 h2 ih =>
    intro pre last h
    have := ih (pre ++ [c]) last (by simp; omega)
    simp only [List.length_append, List.length_cons, List.length_nil, List.append_assoc,
      List.cons_append, List.nil_append] at this
    rw [sl_other _ _ _ _ h1 h2, ln_other _ _ h1 h2, this, prependFirst_prependFirst,
      List.drop_append_of_le_length h]

theorem lineTexts (p : Str) : (splitLines p).map (lineText p) = lines p := by
  have := lineTexts_aux p [] 0 (Nat.le_refl _)
  simpa [splitLines, prependFirst_nil_left (lines_ne_nil p)] using this


/-! ### Offsets strictly inside a match are exactly the `\n` of a `\r\n` pair -/

theorem get_pre0 (pre r : Str) (c : Nat) : (pre ++ c :: r)[pre.length]? = some c := by
  simp

theorem get_pre1 (pre r : Str) (c : Nat) : (pre ++ c :: r)[pre.length + 1]? = r.head? := by
  rw [List.getElem?_append_right (by omega)]
  have : pre.length + 1 - pre.length = 1 := by omega
  rw [this]
  cases r <;> simp

theorem inner_cons_iff (i l s e : Nat) (ms : List Match) :
    inner i ((l, s, e) :: ms) = true ↔ (s < i ∧ i < e) ∨ inner i ms = true := by
  rw [inner_cons]; simp

theorem inner_aux : ∀ (s pre : Str) (last i : Nat),
    inner i (splitLinesAux s pre.length last) = true ↔
      (pre.length < i ∧ (pre ++ s)[i - 1]? = some 13 ∧ (pre ++ s)[i]? = some 10) := by
  intro s
  induction s using breakInduction with
  | nil =>
    intro pre last i
    rw [sl_nil]
    constructor
    · intro h; simp [inner] at h; omega
    · rintro ⟨h1, _, h3⟩
      rw [List.append_nil, List.getElem?_eq_none (by omega)] at h3
      cases h3
  | crlf r ih =>
    intro pre last i
    have := ih (pre ++ [13, 10]) (pre.length + 2) i
    simp only [List.length_append, List.length_cons, List.length_nil, List.append_assoc,
      List.cons_append, List.nil_append] at this
    rw [sl_crlf, inner_cons_iff, this]
    have g0 := get_pre0 pre (10 :: r) 13
    have g1 := get_pre1 pre (10 :: r) 13
    constructor
    · rintro (⟨a, b⟩ | ⟨a, b⟩)
      · have : i = pre.length + 1 := by omega
        subst this
        exact ⟨by omega, by simp, by simp⟩
      · exact ⟨by omega, b⟩
    · rintro ⟨a, b, c⟩
      by_cases h1 : i = pre.length + 1
      · left; omega
      · by_cases h2 : i = pre.length + 2
        · subst h2
          rw [show pre.length + 2 - 1 = pre.length + 1 by omega, g1] at b
          simp at b
        · right; exact ⟨by omega, b, c⟩
  | cr r hr ih =>
    intro pre last i
    have := ih (pre ++ [13]) (pre.length + 1) i
    simp only [List.length_append, List.length_cons, List.length_nil, List.append_assoc,
      List.cons_append, List.nil_append] at this
    rw [sl_cr _ _ _ hr, inner_cons_iff, this]
    have g1 := get_pre1 pre r 13
    constructor
    · rintro (⟨a, b⟩ | ⟨a, b⟩)
      · omega
      · exact ⟨by omega, b⟩
    · rintro ⟨a, b, c⟩
      by_cases h1 : i = pre.length + 1
      · subst h1
        rw [g1] at c
        exact absurd c hr
      · right; exact ⟨by omega, b, c⟩
  | lf r ih =>
    intro pre last i
    have := ih (pre ++ [10]) (pre.length + 1) i
    simp only [List.length_append, List.length_cons, List.length_nil, List.append_assoc,
      List.cons_append, List.nil_append] at this
    rw [sl_lf, inner_cons_iff, this]
    have g0 := get_pre0 pre r 10
    constructor
    · rintro (⟨a, b⟩ | ⟨a, b⟩)
      · omega
      · exact ⟨by omega, b⟩
    · rintro ⟨a, b, c⟩
      by_cases h1 : i = pre.length + 1
      · subst h1
        rw [show pre.length + 1 - 1 = pre.length by omega, g0] at b
        simp at b
      · right; exact ⟨by omega, b, c⟩
  | other ch r h1 h2 ih =>
    intro pre last i
    have := ih (pre ++ [ch]) last i
    simp only [List.length_append, List.length_cons, List.length_nil, List.append_assoc,
      List.cons_append, List.nil_append] at this
    rw [sl_other _ _ _ _ h1 h2, this]
    have g0 := get_pre0 pre r ch
    constructor
    · rintro ⟨a, b⟩
      exact ⟨by omega, b⟩
    · rintro ⟨a, b, c⟩
      by_cases h1' : i = pre.length + 1
      · subst h1'
        rw [show pre.length + 1 - 1 = pre.length by omega, g0] at b
        simp at b; exact absurd b h1
      · exact ⟨by omega, b, c⟩

theorem inner_splitLines (p : Str) (i : Nat) : inner i (splitLines p) = inCrLf p i := by
  have := inner_aux p [] 0 i
  simp only [List.length_nil, List.nil_append] at this
  rw [Bool.eq_iff_iff]
  simp only [splitLines, this, inCrLf, Bool.and_eq_true, decide_eq_true_eq, beq_iff_eq, and_assoc]


/-! ### The recursive count agrees with the count over `breakEnds` -/

theorem bbr_nil (i : Nat) : breaksBeforeRec [] i = 0 := by simp [breaksBeforeRec]
theorem bbr_crlf (r : Str) (i : Nat) :
    breaksBeforeRec (13 :: 10 :: r) i = if 2 ≤ i then 1 + breaksBeforeRec r (i - 2) else 0 := by
  simp [breaksBeforeRec]
theorem bbr_cr (r : Str) (i : Nat) (h : r.head? ≠ some 10) :
    breaksBeforeRec (13 :: r) i = if 1 ≤ i then 1 + breaksBeforeRec r (i - 1) else 0 := by
  cases r with
  | nil => simp [breaksBeforeRec]
  | cons d r' =>
    have : d ≠ 10 := by simpa using h
    simp [breaksBeforeRec, this]
theorem bbr_lf (r : Str) (i : Nat) :
    breaksBeforeRec (10 :: r) i = if 1 ≤ i then 1 + breaksBeforeRec r (i - 1) else 0 := by
  cases r <;> simp [breaksBeforeRec]
theorem bbr_other (c : Nat) (r : Str) (i : Nat) (h1 : c ≠ 13) (h2 : c ≠ 10) :
    breaksBeforeRec (c :: r) i = if 1 ≤ i then breaksBeforeRec r (i - 1) else 0 := by
  cases r <;> simp [breaksBeforeRec, h1, h2]

theorem be_gt (s : Str) (pos : Nat) : ∀ x ∈ breakEndsFrom pos s, pos < x :=
  (splitLinesAux_chain s pos pos (Nat.le_refl _)).lt_ends

theorem be_filter_nil (s : Str) (pos i : Nat) (h : i ≤ pos) :
    (breakEndsFrom pos s).filter (· ≤ i) = [] := by
  rw [List.filter_eq_nil_iff]
  intro x hx
  have := be_gt s pos x hx
  simp; omega

theorem bb_aux : ∀ (s : Str) (pos i : Nat), pos ≤ i →
    ((breakEndsFrom pos s).filter (· ≤ i)).length = breaksBeforeRec s (i - pos) := by
  intro s
  induction s using breakInduction with
  | nil => intro pos i _; simp [be_nil, bbr_nil]
  | crlf r ih =>
    intro pos i h
    rw [be_crlf, bbr_crlf, List.filter_cons]
    by_cases h2 : pos + 2 ≤ i
    · have e : i - (pos + 2) = i - pos - 2 := by omega
      have h2' : 2 ≤ i - pos := by omega
      simp [h2, h2', ih (pos + 2) i h2, e]; omega
    · have h2' : ¬ 2 ≤ i - pos := by omega
      simp [h2, h2', be_filter_nil r (pos + 2) i (by omega)]
  | cr r hr ih =>
    intro pos i h
    rw [be_cr _ _ hr, bbr_cr _ _ hr, List.filter_cons]
    by_cases h2 : pos + 1 ≤ i
    · have e : i - (pos + 1) = i - pos - 1 := by omega
      have h2' : 1 ≤ i - pos := by omega
      simp [h2, h2', ih (pos + 1) i h2, e]; omega
    · have h2' : ¬ 1 ≤ i - pos := by omega
      simp [h2, h2', be_filter_nil r (pos + 1) i (by omega)]
  | lf r ih =>
    intro pos i h
    rw [be_lf, bbr_lf, List.filter_cons]
    by_cases h2 : pos + 1 ≤ i
    · have e : i - (pos + 1) = i - pos - 1 := by omega
      have h2' : 1 ≤ i - pos := by omega
      simp [h2, h2', ih (pos + 1) i h2, e]; omega
    · have h2' : ¬ 1 ≤ i - pos := by omega
      simp [h2, h2', be_filter_nil r (pos + 1) i (by omega)]
  | other c r h1 h2 ih =>
    intro pos i h
    rw [be_other _ _ _ h1 h2, bbr_other _ _ _ h1 h2]
    by_cases h3 : pos + 1 ≤ i
    · have e : i - (pos + 1) = i - pos - 1 := by omega
      have h3' : 1 ≤ i - pos := by omega
      simp [h3', ih (pos + 1) i h3, e]
    · have h3' : ¬ 1 ≤ i - pos := by omega
      simp [h3', be_filter_nil r (pos + 1) i (by omega)]

theorem breaksBefore_eq_rec (p : Str) (i : Nat) : breaksBefore p i = breaksBeforeRec p i := by
  have := bb_aux p 0 i (Nat.zero_le _)
  simpa [breaksBefore, breakEnds] using this

/-! ### The whole function -/

theorem numLines_eq (p : Str) : numLines p = (breakEnds p).length + 1 := by
  rw [numLines, ← lineTexts, List.length_map, (splitLines_chain p).length_eq]

theorem lineStart_le (p : Str) (i : Nat) : lineStart p i ≤ i := by
  unfold lineStart
  cases h : ((breakEnds p).filter (· ≤ i)).getLast? with
  | none => simp
  | some x =>
    have := List.mem_of_getLast? h
    simp at this
    simpa using this.2

theorem slice_all (p : Str) : slice p 0 p.length = p := by simp [slice]

/-- A pattern without a line break: first branch of the loop, once. -/
theorem gpc_single (p : Str) (i : Nat) (hb : breakEnds p = []) :
    getPatternContext p i = (p ++ [10] ++ caretLine i, 1, i + 1) := by
  have hc := splitLines_chain p
  rw [hb] at hc
  have hms : splitLines p = [(0, p.length, p.length)] := hc.of_ends_nil rfl
  unfold getPatternContext
  simp only [hms, List.foldl_cons, List.foldl_nil]
  rw [step_first (by simp [LoopState.init])]
  simp [LoopState.init, sepText, slice_all, caretLine, nl, caret]

/-- A pattern with at least one line break. -/
theorem gpc_multi (p : Str) (i : Nat) (hi : i ≤ p.length) (hb : breakEnds p ≠ []) :
    getPatternContext p i =
      (joinWith [10] (render
          (caretLine (i - lineStart p i + 1 + 3 - (if inCrLf p i then 1 else 0)))
          (breaksBefore p i) (lines p)),
        1 + breaksBefore p i, i - lineStart p i + 1) := by
  obtain ⟨a, b, c⟩ := run_main (p := p) (i := i) (splitLines_chain p) LoopState.init
    (Nat.zero_le _) hi rfl (Or.inr hb)
  show ((List.foldl (step p i) LoopState.init (splitLines p)).text.flatten,
    (List.foldl (step p i) LoopState.init (splitLines p)).line,
    (List.foldl (step p i) LoopState.init (splitLines p)).col) = _
  rw [a, b, c, lineTexts, inner_splitLines]
  simp only [breaksBefore, lineStart, LoopState.init, sepText, List.length_nil, ne_eq,
    not_true_eq_false, if_false, List.flatten_nil, List.nil_append]

end CtxLemmas
end SoupVerif
