/-
  Capture groups whose body cannot match the empty string record non-empty spans.

  `groupsConsume r` : every capture group of `r` (outside look-arounds, whose captures the engine model discards)
  has a non-`nullable` body.  Then every span in the captures of a successful `matchAt` is non-empty
  (`matchAt_capSpan_pos`), and by `ParseCost.matchAt_capSpan` it lies inside the match.  Used by
  `Properties/C06Gen.lean` to show that the match objects `css_unescape`'s replacement function sees for the
  regenerated `RE_CSS_ESC` / `RE_CSS_STR_ESC` are "real": a group that took part is a truthy string.
-/
import SoupVerif.Lemmas.ParseCost.Caps
set_option autoImplicit false
namespace SoupVerif
namespace CapsReal
open Rx SoupVerif.Parser ParserProgress

mutual
/-- Every capture group of the expression has a body that consumes at least one character. -/
def groupsConsume : Rx → Bool
  | .group _ r => !nullable r && groupsConsume r
  | .seq rs => groupsConsumeL rs
  | .alt rs => groupsConsumeL rs
  | .rep _ _ _ r => groupsConsume r
  | .lit _ _ | .notLit _ _ | .any _ | .set _ _ _ | .bos | .eol | .eos | .look _ _ _ => true
def groupsConsumeL : List Rx → Bool
  | [] => true
  | r :: rs => groupsConsume r && groupsConsumeL rs
end

/-- All recorded spans are non-empty. -/
def CapsPos (c : Caps) : Prop := ∀ e ∈ c, e.2.1 < e.2.2

def RunsPos (l : List (Nat × Caps)) : Prop := ∀ x ∈ l, CapsPos x.2

theorem RunsPos.nil : RunsPos [] := fun _ h => by simp at h

theorem RunsPos.single {p : Nat} {caps : Caps} (h : CapsPos caps) : RunsPos [(p, caps)] := by
  intro x hx
  simp only [List.mem_singleton] at hx
  subst hx
  exact h

theorem RunsPos.ite {c : Prop} [Decidable c] {a b : List (Nat × Caps)} (ha : RunsPos a) (hb : RunsPos b) :
    RunsPos (if c then a else b) := by
  split <;> assumption

theorem RunsPos.append {a b : List (Nat × Caps)} (ha : RunsPos a) (hb : RunsPos b) : RunsPos (a ++ b) := by
  intro x hx
  rcases List.mem_append.mp hx with h | h
  · exact ha x h
  · exact hb x h

theorem iter_pos (body : Nat → Caps → List (Nat × Caps))
    (hbody : ∀ p c, CapsPos c → RunsPos (body p c)) (mn : Nat) (mx : Option Nat) (g : Bool) :
    ∀ fuel count pos caps, CapsPos caps → RunsPos (iter body mn mx g fuel count pos caps) := by
  intro fuel
  induction fuel with
  | zero => intro count pos caps _; simp only [iter]; exact RunsPos.nil
  | succ f ih =>
    intro count pos caps hc
    have hstop : RunsPos (if count ≥ mn then [(pos, caps)] else []) :=
      RunsPos.ite (RunsPos.single hc) RunsPos.nil
    have hflat : RunsPos ((body pos caps).flatMap fun (x : Nat × Caps) =>
          if x.1 > pos || count + 1 < mn then iter body mn mx g f (count + 1) x.1 x.2
          else if count + 1 ≥ mn then [(x.1, x.2)] else []) := by
      intro y hy
      obtain ⟨x, hx, hyx⟩ := List.mem_flatMap.mp hy
      have hx2 := hbody pos caps hc x hx
      have : RunsPos (if x.1 > pos || count + 1 < mn then iter body mn mx g f (count + 1) x.1 x.2
          else if count + 1 ≥ mn then [(x.1, x.2)] else []) :=
        RunsPos.ite (ih _ _ _ hx2) (RunsPos.ite (RunsPos.single hx2) RunsPos.nil)
      exact this y hyx
    have hmore : ∀ b : Bool, RunsPos (if b = true then
          (body pos caps).flatMap fun (x : Nat × Caps) =>
            if x.1 > pos || count + 1 < mn then iter body mn mx g f (count + 1) x.1 x.2
            else if count + 1 ≥ mn then [(x.1, x.2)] else []
        else []) := fun _ => RunsPos.ite hflat RunsPos.nil
    simp only [iter]
    cases g
    · exact RunsPos.append hstop (hmore _)
    · exact RunsPos.append (hmore _) hstop

mutual
theorem runs_pos (env : CharEnv) (s : Str) :
    ∀ (r : Rx) (i : Nat) (caps : Caps), groupsConsume r = true → CapsPos caps → RunsPos (runs env s r i caps)
  | .lit c ic, i, caps, _, hc => by
    simp only [runs]; cases s[i]? <;> simp only []
    · exact RunsPos.nil
    · exact RunsPos.ite (RunsPos.single hc) RunsPos.nil
  | .notLit c ic, i, caps, _, hc => by
    simp only [runs]; cases s[i]? <;> simp only []
    · exact RunsPos.nil
    · exact RunsPos.ite RunsPos.nil (RunsPos.single hc)
  | .any d, i, caps, _, hc => by
    simp only [runs]; cases s[i]? <;> simp only []
    · exact RunsPos.nil
    · exact RunsPos.ite (RunsPos.single hc) RunsPos.nil
  | .set n is ic, i, caps, _, hc => by
    simp only [runs]; cases s[i]? <;> simp only []
    · exact RunsPos.nil
    · exact RunsPos.ite (RunsPos.single hc) RunsPos.nil
  | .seq rs, i, caps, hg, hc => by
    simp only [groupsConsume] at hg; simp only [runs]; exact runsSeq_pos env s rs i caps hg hc
  | .alt rs, i, caps, hg, hc => by
    simp only [groupsConsume] at hg; simp only [runs]; exact runsAlt_pos env s rs i caps hg hc
  | .group idx r, i, caps, hg, hc => by
    simp only [groupsConsume, Bool.and_eq_true, Bool.not_eq_true'] at hg
    simp only [runs]
    intro y hy
    obtain ⟨x, hx, rfl⟩ := List.mem_map.mp hy
    have hx2 := runs_pos env s r i caps hg.2 hc x hx
    have hend : x.1 ∈ ends env s r i := by
      rw [← runs_map_fst env s r i caps]; exact List.mem_map.mpr ⟨x, hx, rfl⟩
    have hlt := nullable_sound env s r hg.1 i x.1 hend
    intro e he
    rcases List.mem_cons.mp he with rfl | he
    · exact hlt
    · exact hx2 e (List.mem_of_mem_filter he)
  | .rep mn mx g r, i, caps, hg, hc => by
    simp only [groupsConsume] at hg
    simp only [runs]
    exact iter_pos _ (fun p c hcc => runs_pos env s r p c hg hcc) mn mx g _ _ _ _ hc
  | .bos, i, caps, _, hc => by simp only [runs]; exact RunsPos.ite (RunsPos.single hc) RunsPos.nil
  | .eol, i, caps, _, hc => by simp only [runs]; exact RunsPos.ite (RunsPos.single hc) RunsPos.nil
  | .eos, i, caps, _, hc => by simp only [runs]; exact RunsPos.ite (RunsPos.single hc) RunsPos.nil
  | .look true neg r, i, caps, _, hc => by
    simp only [runs]; exact RunsPos.ite (RunsPos.single hc) RunsPos.nil
  | .look false neg r, i, caps, _, hc => by
    simp only [runs]
    cases width r with
    | none => exact RunsPos.nil
    | some w => exact RunsPos.ite (RunsPos.single hc) RunsPos.nil
theorem runsSeq_pos (env : CharEnv) (s : Str) :
    ∀ (rs : List Rx) (i : Nat) (caps : Caps), groupsConsumeL rs = true → CapsPos caps →
      RunsPos (runsSeq env s rs i caps)
  | [], i, caps, _, hc => by simp only [runsSeq]; exact RunsPos.single hc
  | r :: rs, i, caps, hg, hc => by
    simp only [groupsConsumeL, Bool.and_eq_true] at hg
    simp only [runsSeq]
    intro y hy
    obtain ⟨x, hx, hyx⟩ := List.mem_flatMap.mp hy
    have hx2 := runs_pos env s r i caps hg.1 hc x hx
    exact runsSeq_pos env s rs x.1 x.2 hg.2 hx2 y hyx
theorem runsAlt_pos (env : CharEnv) (s : Str) :
    ∀ (rs : List Rx) (i : Nat) (caps : Caps), groupsConsumeL rs = true → CapsPos caps →
      RunsPos (runsAlt env s rs i caps)
  | [], i, caps, _, _ => by simp only [runsAlt]; exact RunsPos.nil
  | r :: rs, i, caps, hg, hc => by
    simp only [groupsConsumeL, Bool.and_eq_true] at hg
    simp only [runsAlt]
    exact RunsPos.append (runs_pos env s r i caps hg.1 hc) (runsAlt_pos env s rs i caps hg.2 hc)
end

/-- `m.span(idx)` of a successful match is a non-empty span inside the match, for an expression all of whose groups
    consume. -/
theorem matchAt_capSpan_pos {env : CharEnv} {r : Rx} {s : Str} {i j : Nat} {c : Caps}
    (hg : groupsConsume r = true) (h : matchAt env r s i = some (j, c)) {idx a b : Nat}
    (hs : capSpan c idx = some (a, b)) : i ≤ a ∧ a < b ∧ b ≤ j := by
  have h1 := ParseCost.matchAt_capSpan h hs
  have hm : (j, c) ∈ runs env s r i [] := by unfold matchAt at h; exact List.mem_of_mem_head? h
  have hp : CapsPos c := runs_pos env s r i [] hg (fun _ he => by simp at he) (j, c) hm
  unfold capSpan at hs
  cases hf : c.find? (fun e => e.1 == idx) with
  | none => rw [hf] at hs; cases hs
  | some e =>
    rw [hf] at hs
    simp only [Option.map_some, Option.some.injEq] at hs
    have := hp e (List.mem_of_find?_eq_some hf)
    rw [hs] at this
    exact ⟨h1.1, this, h1.2.2⟩

end CapsReal
end SoupVerif
