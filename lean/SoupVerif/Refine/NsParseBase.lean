/-
  Helpers for `Properties/C12Parse.lean` / `Properties/C13Parse.lean`: what `C09Compile2.denote` builds for a
  selector list that consists of ONE compound, and the matcher on it.
-/
import SoupVerif.Properties.C09Compile2
import SoupVerif.Refine.C01ParseSem
import SoupVerif.Lemmas.SatParts
import SoupVerif.Properties.C01Attr
namespace SoupVerif
namespace NsParse
open SoupVerif.Parser ParserProgress Refine.Compile
open C09Compile (AttrV)
open C09Compile2 (Item Compound SelListV denote finishG foldRest applyItems applyAttr)
open C01Parse (mkB implB implTag flagV)
open Css (AttrTest AttrOp CaseFlag Parts addSimple compileAttr emptyList)

/-! ## `denote` on a one-compound list -/

/-- The compiled list of a one-compound selector list: the builder of the compound, the implied `*`
    (top level: `FLG_PSEUDO` is not set), frozen. -/
theorem denote_one (B : Builtins) (cp : Compound) (h : cp.isEmpty = false) :
    denote B (.mk cp []) = .mk [(implB false (cp.buildOn B SelB.empty)).freeze] false false := by
  simp [denote, finishG, SelListV.loopState, foldRest, cleanupLS, finalSels, initLS, h, implB,
    C01Parse.addRelations_nil]

theorem freeze_mkB (p : Parts) (tag : Option SelTag) :
    (mkB p tag [] .none).freeze = p.toSel tag emptyList .none := by
  rw [SelB.freeze, C01Parse.size_mkB]
  exact C01Parse.freezeF_mkB _ p tag [] .none

/-- The matcher on a list of one selector. -/
theorem matchEl_one (c : Ctx) (l : Loc) (e : Elem) (kids : List Node) (hf : l.focus = .elem e kids)
    (s : Sel) : matchEl c (.mk [s] false false) l = (!e.isDoc && matchSel c l e s) := by
  simp only [matchEl, hf, SatCore.matchList_single]

/-- The matcher on the frozen builder `mkB p tag [] none`. -/
theorem matchEl_mkB (c : Ctx) (l : Loc) (e : Elem) (kids : List Node) (hf : l.focus = .elem e kids)
    (p : Parts) (tag : Option SelTag) (hp : p.flags < 4) :
    matchEl c (.mk [(mkB p tag [] .none).freeze] false false) l =
      (!e.isDoc && (matchTag c e tag && SatCore.partsOk c l e p)) := by
  rw [matchEl_one c l e kids hf, freeze_mkB, SatCore.matchSel_toSel c l e p tag _ _ hp,
    SatCore.relOk_empty, Bool.and_true]

/-! ## The parser on the text of ONE compound -/

open C09Compile2 (SCompound SSelList SItem) in
/-- `compile_eq_denote2_plain` for a selector list that is one non-empty compound, between two gaps. -/
theorem compile_one (B : Builtins) (g₁ g₂ : Str) (cp : SCompound) (hg₁ : Spelling.isGap g₁)
    (hg₂ : Spelling.isGap g₂) (hok : cp.ok g₂) (hne : cp.isEmpty = false) (htbl : cp.tbl [])
    (h0 : ∀ x ∈ g₁ ++ cp.render ++ g₂, x ≠ 0) :
    Parser.compile pyFoldEnv Gen.lexicon B (g₁ ++ cp.render ++ g₂) [] 0 =
      .ok (.mk [(implB false (cp.value.buildOn B SelB.empty)).freeze] false false) := by
  have hr : (SSelList.mk cp []).render = cp.render := by
    simp [SSelList.render, C09Compile2.renderRest]
  have h := C09Compile2.compile_eq_denote2_plain B g₁ g₂ (.mk cp []) hg₁ hg₂
    (by
      rw [SSelList.ok]
      refine ⟨by simpa [C09Compile2.renderRest] using hok, by simp [hne], ?_⟩
      rw [C09Compile2.restOK]; left; simp [hne])
    (by rw [SSelList.tbl]; exact ⟨htbl, by simp [C09Compile2.restTbl]⟩)
    (by rw [hr]; exact h0)
  rw [hr] at h
  rw [h, SSelList.value]
  simp only [C09Compile2.restValue]
  rw [denote_one B cp.value (by rw [SCompound.value_isEmpty]; exact hne)]

/-! ## The values of an attribute selector as a CSS test -/

/-- The values of `[name]` / `[name op value flag]` (the prefix aside). -/
def attrV (name : Str) (test : Option AttrTest) : AttrV :=
  ⟨name, test.map fun t => (t.op.text, t.value, flagV t.flag)⟩

/-- `parse_attribute_selector` with a prefix, on a builder in normal form: the `SelectorAttribute` of
    `Css.compileAttr`, in the `attributes` list — or, for `!=`, in a negated sub-list. -/
theorem applyAttr_mkB (p : Parts) (tag : Option SelTag) (ns name : Str) (test : Option AttrTest) :
    applyAttr ns (attrV name test) (mkB p tag [] .none) =
      mkB (addSimple p (.attr ns name test)) tag [] .none := by
  cases test with
  | none =>
    by_cases hty : lower name == "type".toStr <;>
      simp [applyAttr, attrV, attrBuildNs, addSimple, compileAttr, C01Parse.addAttr_mkB, hty]
  | some t =>
    obtain ⟨op, v, fl⟩ := t
    have hws : (Rx.search pyFoldEnv Gen.lexicon.reWs v).isSome = v.any isCssWs :=
      Refine.Wsc.re_ws_search pyFoldEnv v
    have hi : (([115] : Str) == "i".toStr) = false := by decide
    have hi' : (([105] : Str) == "i".toStr) = true := by decide
    have f1 : (CaseFlag.s == CaseFlag.i) = false := by decide
    have f2 : (CaseFlag.s == CaseFlag.none) = false := by decide
    have f3 : (CaseFlag.i == CaseFlag.none) = false := by decide
    have f4 : (CaseFlag.none == CaseFlag.i) = false := by decide
    by_cases hty : (lower name == [116, 121, 112, 101]) = true <;> cases fl <;> cases op <;>
      simp [applyAttr, attrV, attrBuildNs, addSimple, compileAttr, C01Parse.addAttr_mkB,
        C01Parse.addSub_mkB, hty, hws, flagV, AttrOp.text, C01Parse.type_str, C01Parse.freeze_attrOnly,
        hi, hi', f1, f2, f3, f4]

theorem addSimple_attr_flags (p : Parts) (ns name : Str) (test : Option AttrTest) :
    (addSimple p (.attr ns name test)).flags = p.flags := by
  simp only [addSimple]
  split <;> (try split) <;> rfl

/-- What the matcher checks for one attribute selector appended to the builder: the CSS reading
    `Css.satAttr` (SOME designated attribute passes the value test; `!=` is the negation of `=`). -/
theorem partsOk_attr (c : Ctx) (l : Loc) (e : Elem) (p : Parts) (ns name : Str) (test : Option AttrTest)
    (hfold : ∀ t, test = some t → Css.caseInsensitive c name t.flag = true → c.env.fold = lowerCp) :
    SatCore.partsOk c l e (addSimple p (.attr ns name test)) =
      (SatCore.partsOk c l e p && Css.satAttr c e ns name test) := by
  have hT : SatLeaf.TemplatesOk c.env := fun op v s ic h => C01Attr.attrPattern_sem c.env op v s ic h
  cases test with
  | none =>
    simp only [addSimple, Bool.false_eq_true, if_false]
    rw [SatParts.partsOk_attrs, SatLeaf.attr_presence]
  | some t =>
    cases hop : (t.op == AttrOp.ne) with
    | true =>
      simp only [addSimple, hop, if_true]
      rw [SatParts.partsOk_subs, SatLeaf.attr_ne_sub, SatLeaf.attr_neg c e ns name t hT (hfold t rfl) hop]
    | false =>
      simp only [addSimple, hop, Bool.false_eq_true, if_false]
      rw [SatParts.partsOk_attrs, SatLeaf.attr_pos c e ns name t hT (hfold t rfl) hop]

/-! ## `denote` on the one-compound lists of C12 -/

/-- `ns|E`, `*|E`, `|E`, `E` alone: the IR is one selector whose only filled field is the tag (name VALUE and
    prefix VALUE). -/
theorem denote_tag_ns (B : Builtins) (t : SelTag) :
    denote B (.mk (.mk (some t) []) []) = .mk [({} : Parts).toSel (some t) emptyList .none] false false := by
  rw [denote_one B _ (by simp [Compound.isEmpty])]
  simp only [Compound.buildOn, applyItems]
  rw [C01Parse.mkB_empty, C01Parse.setTag_mkB, C01Parse.implB_mkB, freeze_mkB]
  rfl

/-- `[ns|a …]` behind an optional type selector: the IR is one selector with the tag (the implied `*` when none
    is written) and the `SelectorAttribute` of `Css.compileAttr ns name test` (for `!=`: inside a negated
    sub-list). -/
theorem denote_attr_ns (B : Builtins) (tag : Option SelTag) (ns name : Str) (test : Option AttrTest) :
    denote B (.mk (.mk tag [.attr ns (attrV name test)]) []) =
      .mk [(addSimple {} (.attr ns name test)).toSel (implTag false tag) emptyList .none] false false := by
  rw [denote_one B _ (by cases tag <;> simp [Compound.isEmpty])]
  have : (Compound.mk tag [.attr ns (attrV name test)]).buildOn B SelB.empty =
      mkB (addSimple {} (.attr ns name test)) tag [] .none := by
    simp only [Compound.buildOn, applyItems, Item.apply]
    cases tag with
    | none => exact applyAttr_mkB {} none ns name test
    | some t => exact applyAttr_mkB {} (some t) ns name test
  rw [this, C01Parse.implB_mkB, freeze_mkB]

end NsParse
end SoupVerif
