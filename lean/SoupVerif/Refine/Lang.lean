/-
  Refinement: the hand-written text-level wildcard strip `wildStripText` (`collapse false ∘ tailStrip`,
  `Lemmas/Lang.lean`) is, for EVERY text, what the regex-engine model computes with the two regular
  expressions regenerated from the source,

      RE_WILD_STRIP.sub('-', RE_WILD_TAIL.sub('', s))          (css_match.py, `extended_language_filter`)

  i.e. `wildStripRx` (`Rx.subAll` on `Gen.cm_RE_WILD_STRIP` / `Gen.cm_RE_WILD_TAIL`).

  Both regexes have only case-sensitive literals, so the two component theorems hold for an arbitrary
  `env : CharEnv`; `wildStripRx` itself is defined with `asciiEnv`.
-/
import SoupVerif.Properties.C13
import SoupVerif.Lemmas.RxBasic
namespace SoupVerif
namespace RefineLang
open Rx RxBasic LangLemmas

/-! ### Shapes of the two regenerated regexes -/

/-- `(?:-\*)+\Z` -/
theorem wild_tail_shape :
    Gen.cm_RE_WILD_TAIL =
      .seq [.rep 1 none true (.seq [.lit 45 false, .lit 42 false]), .eos] := rfl

/-- `(?:(?:-\*-)(?:\*(?:-|\Z))*|-\*\Z)`, as sre compiles it (common prefix `-\*` factored out):
    `-\*(?:-(?:\*(?:-|\Z))*|\Z)` -/
theorem wild_strip_shape :
    Gen.cm_RE_WILD_STRIP =
      .seq [.lit 45 false, .lit 42 false,
        .alt [.seq [.lit 45 false,
                .rep 0 none true (.seq [.lit 42 false, .alt [.lit 45 false, .eos]])],
              .eos]] := rfl

/-! ### General engine lemmas -/

theorem runs_lit (env : CharEnv) (s : Str) (c i : Nat) (caps : Caps) :
    runs env s (.lit c false) i caps = if s[i]? = some c then [(i + 1, caps)] else [] := by
  rw [runs]
  cases h : s[i]? with
  | none => simp
  | some x => by_cases hx : x = c <;> simp [hx]

theorem runsSeq_lit (env : CharEnv) (s : Str) (c : Nat) (rs : List Rx) (i : Nat) (caps : Caps) :
    runsSeq env s (.lit c false :: rs) i caps =
      if s[i]? = some c then runsSeq env s rs (i + 1) caps else [] := by
  rw [runsSeq_cons, runs_lit]
  split <;> simp

theorem flatMap_pair_id {α β : Type} (l : List (α × β)) :
    l.flatMap (fun x => [(x.1, x.2)]) = l := by
  induction l with
  | nil => rfl
  | cons a l ih => rw [List.flatMap_cons, ih]; rfl

theorem runsSeq_single (env : CharEnv) (s : Str) (r : Rx) (i : Nat) (caps : Caps) :
    runsSeq env s [r] i caps = runs env s r i caps := by
  rw [runsSeq_cons]
  simp only [runsSeq_nil]
  exact flatMap_pair_id _

theorem runs_rep (env : CharEnv) (s : Str) (mn : Nat) (mx : Option Nat) (g : Bool) (r : Rx)
    (i : Nat) (caps : Caps) :
    runs env s (.rep mn mx g r) i caps =
      iter (fun p c => runs env s r p c) mn mx g (s.length - i + mn + 2) 0 i caps := by
  rw [runs]

theorem matchAt_eq (env : CharEnv) (r : Rx) (s : Str) (i : Nat) :
    matchAt env r s i = (runs env s r i []).head? := rfl

/-! ### Positions and suffixes -/

theorem drop_cons_facts {s : Str} {p a : Nat} {rest : Str} (h : s.drop p = a :: rest) :
    s[p]? = some a ∧ s.drop (p + 1) = rest ∧ s.length = p + 1 + rest.length := by
  refine ⟨?_, ?_, ?_⟩
  · have : (s.drop p)[0]? = s[p + 0]? := List.getElem?_drop
    rw [h] at this
    simpa using this.symm
  · have : List.drop 1 (s.drop p) = s.drop (p + 1) := List.drop_drop
    rw [← this, h]; rfl
  · have := congrArg List.length h
    simp only [List.length_drop, List.length_cons] at this
    omega

theorem drop_nil_facts {s : Str} {p : Nat} (h : s.drop p = []) :
    s[p]? = none ∧ s.length ≤ p := by
  have hl : s.length ≤ p := List.drop_eq_nil_iff.1 h
  exact ⟨List.getElem?_eq_none hl, hl⟩

/-! ### `RE_WILD_TAIL` -/

/-- One iteration `-\*` of the tail regex. -/
theorem tailBody (env : CharEnv) (s : Str) (p : Nat) (c : Caps) :
    runs env s (.seq [.lit 45 false, .lit 42 false]) p c =
      if s[p]? = some 45 ∧ s[p + 1]? = some 42 then [(p + 2, c)] else [] := by
  rw [runs_seq, runsSeq_lit, runsSeq_lit, runsSeq_nil]
  by_cases h1 : s[p]? = some 45 <;> by_cases h2 : s[p + 1]? = some 42 <;> simp [h1, h2]

theorem runsSeq_eos (env : CharEnv) (s : Str) (i : Nat) (caps : Caps) :
    runsSeq env s [.eos] i caps = if i = s.length then [(i, caps)] else [] := by
  rw [runsSeq_single, runs_eos]

/-- The body matcher of the tail repetition (a name, so that rewriting does not enter it). -/
def tailB (env : CharEnv) (s : Str) : Nat → Caps → List (Nat × Caps) :=
  fun p c => runs env s (.seq [.lit 45 false, .lit 42 false]) p c

theorem tailB_apply (env : CharEnv) (s : Str) (p : Nat) (c : Caps) :
    tailB env s p c = if s[p]? = some 45 ∧ s[p + 1]? = some 42 then [(p + 2, c)] else [] :=
  tailBody env s p c

/-- `(?:-\*)+` followed by `\Z`, from inside the repetition. -/
theorem tailIter (env : CharEnv) (s : Str) :
    ∀ (fuel count pos : Nat) (caps : Caps), pos ≤ s.length → s.length - pos + 1 ≤ fuel →
      (iter (tailB env s) 1 none true
          fuel count pos caps).flatMap (fun x => runsSeq env s [.eos] x.1 x.2) =
        if (1 ≤ count ∨ pos < s.length) ∧ isStarRun (s.drop pos) = true
          then [(s.length, caps)] else []
  | 0, _, _, _, _, hf => by omega
  | fuel + 1, count, pos, caps, hp, hf => by
    rw [iter_succ]
    simp only [canMore, if_true, tailB_apply, List.flatMap_append]
    have hstop : (if count ≥ 1 then [(pos, caps)] else []).flatMap
          (fun x => runsSeq env s [.eos] x.1 x.2) =
        if 1 ≤ count ∧ pos = s.length then [(s.length, caps)] else [] := by
      by_cases hc : count ≥ 1
      · by_cases hl : pos = s.length
        · simp [hc, hl, runsSeq_eos]
        · simp [hc, hl, runsSeq_eos]
      · simp [hc]
    rw [hstop]
    -- case split on the suffix
    cases hd : s.drop pos with
    | nil =>
      obtain ⟨h0, hl⟩ := drop_nil_facts hd
      have hpl : pos = s.length := by omega
      simp [isStarRun, hpl]
    | cons a d1 =>
      obtain ⟨h0, hd1, hl⟩ := drop_cons_facts hd
      cases d1 with
      | nil =>
        obtain ⟨h1, _⟩ := drop_nil_facts hd1
        have hne : pos ≠ s.length := by omega
        simp [h0, h1, isStarRun, hne]
      | cons b d2 =>
        obtain ⟨h1, hd2, hl1⟩ := drop_cons_facts hd1
        simp only [List.length_cons] at hl
        have hne : pos ≠ s.length := by omega
        by_cases hab : a = 45 ∧ b = 42
        · obtain ⟨rfl, rfl⟩ := hab
          have ih := tailIter env s fuel (count + 1) (pos + 1 + 1) caps (by omega) (by omega)
          have hlt : pos < s.length := by omega
          simp only [h0, h1, and_self, if_true, List.flatMap_cons, List.flatMap_nil,
            List.append_nil, show (pos + 2 > pos) = True from eq_true (by omega), decide_true, Bool.true_or,
            hne, and_false, if_false]
          rw [show pos + 2 = pos + 1 + 1 by omega, ih, hd2]
          simp [isStarRun, hlt]
        · have hb : ¬ (s[pos]? = some 45 ∧ s[pos + 1]? = some 42) := by
            rw [h0, h1]; simpa using hab
          have hr : isStarRun (a :: b :: d2) = false := by
            simp only [isStarRun]
            by_cases ha : a = 45
            · have : b ≠ 42 := fun hb' => hab ⟨ha, hb'⟩
              simp [this]
            · simp [ha]
          simp [hb, hr, hne]

/-- `RE_WILD_TAIL.match(s, i)`: succeeds exactly when the rest of the text is a NON-EMPTY run of
    `-*`, and then consumes it all. -/
theorem matchAt_tail (env : CharEnv) (s : Str) (i : Nat) (hi : i ≤ s.length) :
    matchAt env Gen.cm_RE_WILD_TAIL s i =
      if i < s.length ∧ isStarRun (s.drop i) = true then some (s.length, []) else none := by
  rw [matchAt_eq, wild_tail_shape, runs_seq, runsSeq_cons, runs_rep]
  change (List.flatMap (fun x => runsSeq env s [.eos] x.1 x.2)
    (iter (tailB env s) 1 none true (s.length - i + 1 + 2) 0 i [])).head? = _
  rw [tailIter env s _ 0 i [] hi (by omega)]
  by_cases h : i < s.length ∧ isStarRun (s.drop i) = true
  · simp [h]
  · rw [if_neg h, if_neg (by simpa using h)]; rfl

/-- The substitution loop of `RE_WILD_TAIL.sub('', s)` from position `i`. -/
theorem subAll_go_tail (env : CharEnv) (s : Str) :
    ∀ (fuel i : Nat), i ≤ s.length → s.length - i + 1 ≤ fuel →
      subAll.go env Gen.cm_RE_WILD_TAIL [] s fuel i = tailStrip (s.drop i)
  | 0, _, _, hf => by omega
  | fuel + 1, i, hi, hf => by
    rw [subAll.go, if_neg (by omega), matchAt_tail env s i hi]
    cases hd : s.drop i with
    | nil =>
      obtain ⟨h0, hl⟩ := drop_nil_facts hd
      have : ¬ (i < s.length) := by omega
      simp [this, tailStrip]
    | cons a d1 =>
      obtain ⟨h0, hd1, hl⟩ := drop_cons_facts hd
      have hlt : i < s.length := by omega
      by_cases hr : isStarRun (a :: d1) = true
      · -- the whole rest is deleted
        simp only [hlt, hr, and_self, if_true, List.nil_append]
        have hend : subAll.go env Gen.cm_RE_WILD_TAIL [] s fuel s.length = [] := by
          cases fuel with
          | zero => rfl
          | succ f =>
            rw [subAll.go, if_neg (by omega), matchAt_tail env s _ (Nat.le_refl _)]
            simp
        simp [hend, tailStrip, hr]
      · have ih := subAll_go_tail env s fuel (i + 1) (by omega) (by omega)
        simp only [hr, h0, ih, hd1]
        simp [tailStrip, hr]

/-- `RE_WILD_TAIL.sub('', s)` is `tailStrip s`, for every text and every character environment. -/
theorem subAll_tail (env : CharEnv) (s : Str) :
    subAll env Gen.cm_RE_WILD_TAIL [] s = tailStrip s := by
  unfold subAll
  rw [subAll_go_tail env s _ 0 (Nat.zero_le _) (by omega)]; rfl

/-! ### `RE_WILD_STRIP` -/

/-- Number of characters that the loop `(?:\*(?:-|\Z))*` consumes (greedily) from a suffix. -/
def loopLen : Str → Nat
  | 42 :: 45 :: rest => 2 + loopLen rest
  | [42] => 1
  | _ => 0

theorem loopLen_le : ∀ d : Str, loopLen d ≤ d.length := by
  intro d
  fun_induction loopLen d with
  | case1 rest ih => simp only [List.length_cons]; omega
  | case2 => simp
  | case3 => omega

/-- Trichotomy of suffixes for the loop body `\*(?:-|\Z)`. -/
theorem loop_cases (d : Str) :
    (∃ rest, d = 42 :: 45 :: rest) ∨ d = [42] ∨
      ((∀ rest, d ≠ 42 :: 45 :: rest) ∧ d ≠ [42]) := by
  by_cases h1 : ∃ rest, d = 42 :: 45 :: rest
  · exact Or.inl h1
  · by_cases h2 : d = [42]
    · exact Or.inr (Or.inl h2)
    · exact Or.inr (Or.inr ⟨fun rest h => h1 ⟨rest, h⟩, h2⟩)

theorem loopLen_other {d : Str} (h1 : ∀ rest, d ≠ 42 :: 45 :: rest) (h2 : d ≠ [42]) :
    loopLen d = 0 := by
  apply loopLen.eq_3
  · intro rest h; exact h1 rest h
  · intro h; exact h2 h

/-- The loop of `collapse true` is exactly the greedy loop. -/
theorem collapse_true_eq : ∀ d : Str, collapse true d = collapse false (d.drop (loopLen d)) := by
  intro d
  fun_induction loopLen d with
  | case1 rest ih =>
    rw [collapse.eq_1, ih]
    rw [show 2 + loopLen rest = loopLen rest + 2 by omega]
    rfl
  | case2 => rfl
  | case3 d h1 h2 =>
    have hl : loopLen d = 0 := loopLen_other (fun rest h => h1 rest h) (fun h => h2 h)
    rw [List.drop_zero]
    cases d with
    | nil => rfl
    | cons a s' =>
      by_cases h3 : a = 45 ∧ ∃ rest, s' = 42 :: 45 :: rest
      · obtain ⟨rfl, rest, rfl⟩ := h3
        rw [collapse.eq_3, collapse.eq_3]
      · by_cases h4 : a = 45 ∧ s' = [42]
        · obtain ⟨rfl, rfl⟩ := h4
          rfl
        · have hc : ∀ e, (e = true → ¬ (a = 42 ∧ ((∃ rest, s' = 45 :: rest) ∨ s' = []))) →
              collapse e (a :: s') = a :: collapse false s' := by
            intro e he
            apply collapse_copy
            · rintro ⟨ha, h | h⟩
              · exact h3 ⟨ha, h⟩
              · exact h4 ⟨ha, h⟩
            · rintro ⟨he', h⟩; exact he he' h
          rw [hc false (by intro h; cases h), hc true]
          rintro _ ⟨rfl, h | h⟩
          · obtain ⟨rest, rfl⟩ := h; exact h1 rest rfl
          · subst h; exact h2 rfl

/-- One iteration `\*(?:-|\Z)` of the loop. -/
theorem loopBody (env : CharEnv) (s : Str) (p : Nat) (c : Caps) :
    runs env s (.seq [.lit 42 false, .alt [.lit 45 false, .eos]]) p c =
      if s[p]? = some 42 then
        (if s[p + 1]? = some 45 then [(p + 1 + 1, c)] else []) ++
          (if p + 1 = s.length then [(p + 1, c)] else [])
      else [] := by
  rw [runs_seq, runsSeq_lit, runsSeq_single, runs_alt, runsAlt_cons, runsAlt_cons, runsAlt_nil,
    runs_lit, runs_eos, List.append_nil]

/-- The body matcher of the loop (a name, so that rewriting does not enter it). -/
def loopB (env : CharEnv) (s : Str) : Nat → Caps → List (Nat × Caps) :=
  fun p c => runs env s (.seq [.lit 42 false, .alt [.lit 45 false, .eos]]) p c

theorem loopB_apply (env : CharEnv) (s : Str) (p : Nat) (c : Caps) :
    loopB env s p c =
      if s[p]? = some 42 then
        (if s[p + 1]? = some 45 then [(p + 1 + 1, c)] else []) ++
          (if p + 1 = s.length then [(p + 1, c)] else [])
      else [] :=
  loopBody env s p c

/-- First (greedy) run of the loop `(?:\*(?:-|\Z))*`. -/
theorem loopIter_head (env : CharEnv) (s : Str) :
    ∀ (fuel count pos : Nat) (caps : Caps), s.length - pos + 1 ≤ fuel →
      (iter (loopB env s) 0 none
          true fuel count pos caps).head? = some (pos + loopLen (s.drop pos), caps)
  | 0, _, _, _, hf => by omega
  | fuel + 1, count, pos, caps, hf => by
    rw [iter_succ]
    simp only [canMore, if_true, loopB_apply, Nat.zero_le, ge_iff_le]
    rcases loop_cases (s.drop pos) with ⟨rest, hd⟩ | hd | ⟨hn1, hn2⟩
    · obtain ⟨h0, hd1, hl⟩ := drop_cons_facts hd
      obtain ⟨h1, hd2, hl1⟩ := drop_cons_facts hd1
      simp only [List.length_cons] at hl
      have hne : pos + 1 ≠ s.length := by omega
      have ih := loopIter_head env s fuel (count + 1) (pos + 1 + 1) caps (by omega)
      simp only [h0, h1, if_true, hne, if_false, List.append_nil, List.flatMap_cons,
        List.flatMap_nil, show (pos + 1 + 1 > pos) = True from eq_true (by omega), decide_true, Bool.true_or]
      rw [List.head?_append, ih, hd, hd2]
      simp only [loopLen, Option.some_or]
      congr 2; omega
    · obtain ⟨h0, hd1, hl⟩ := drop_cons_facts hd
      obtain ⟨h1, _⟩ := drop_nil_facts hd1
      simp only [List.length_nil] at hl
      have he : pos + 1 = s.length := by omega
      have ih := loopIter_head env s fuel (count + 1) (pos + 1) caps (by omega)
      simp only [h0, h1, if_true, reduceCtorEq, if_false, List.nil_append]
      rw [if_pos he]
      simp only [List.flatMap_cons, List.flatMap_nil, List.append_nil,
        show (pos + 1 > pos) = True from eq_true (by omega), decide_true, Bool.true_or, if_true]
      rw [List.head?_append, ih, hd, hd1]
      simp [loopLen]
    · rw [loopLen_other hn1 hn2]
      have hb : (if s[pos]? = some 42 then
          (if s[pos + 1]? = some 45 then [(pos + 1 + 1, caps)] else []) ++
            (if pos + 1 = s.length then [(pos + 1, caps)] else [])
          else []) = [] := by
        cases hd : s.drop pos with
        | nil => simp [(drop_nil_facts hd).1]
        | cons a d1 =>
          obtain ⟨h0, hd1, hl⟩ := drop_cons_facts hd
          by_cases ha : a = 42
          · subst ha
            cases d1 with
            | nil => exact absurd hd hn2
            | cons b d2 =>
              obtain ⟨h1, _, _⟩ := drop_cons_facts hd1
              simp only [List.length_cons] at hl
              have hb : b ≠ 45 := fun hb => hn1 d2 (by rw [hd, hb])
              have hne : pos + 1 ≠ s.length := by omega
              simp [h0, h1, hb, hne]
          · simp [h0, ha]
      rw [hb]
      simp

/-- `RE_WILD_STRIP.match(s, i)`. -/
theorem matchAt_strip (env : CharEnv) (s : Str) (i : Nat) :
    matchAt env Gen.cm_RE_WILD_STRIP s i =
      if s[i]? = some 45 ∧ s[i + 1]? = some 42 then
        (if s[i + 1 + 1]? = some 45 then some (i + 1 + 1 + 1 + loopLen (s.drop (i + 1 + 1 + 1)), [])
         else if i + 1 + 1 = s.length then some (i + 1 + 1, []) else none)
      else none := by
  rw [matchAt_eq, wild_strip_shape, runs_seq, runsSeq_lit, runsSeq_lit, runsSeq_single, runs_alt,
    runsAlt_cons, runsAlt_cons, runsAlt_nil, List.append_nil, runs_seq, runsSeq_lit,
    runsSeq_single, runs_rep, runs_eos]
  by_cases h0 : s[i]? = some 45
  · by_cases h1 : s[i + 1]? = some 42
    · simp only [h0, h1, and_self, if_true]
      by_cases h2 : s[i + 1 + 1]? = some 45
      · simp only [h2, if_true]
        change ((iter (loopB env s) 0 none true (s.length - (i + 1 + 1 + 1) + 0 + 2) 0
          (i + 1 + 1 + 1) []) ++ _).head? = _
        rw [List.head?_append, loopIter_head env s _ 0 _ [] (by omega)]
        rfl
      · simp only [h2, if_false, List.nil_append]
        by_cases he : i + 1 + 1 = s.length <;> simp [he]
    · simp [h0, h1]
  · simp [h0]

/-- The substitution loop of `RE_WILD_STRIP.sub('-', s)` from position `i`. -/
theorem subAll_go_strip (env : CharEnv) (s : Str) :
    ∀ (fuel i : Nat), i ≤ s.length → s.length - i + 1 ≤ fuel →
      subAll.go env Gen.cm_RE_WILD_STRIP [45] s fuel i = collapse false (s.drop i)
  | 0, _, _, hf => by omega
  | fuel + 1, i, hi, hf => by
    rw [subAll.go, if_neg (by omega), matchAt_strip env s i]
    cases hd : s.drop i with
    | nil =>
      obtain ⟨h0, hl⟩ := drop_nil_facts hd
      simp [h0, collapse]
    | cons a d1 =>
      obtain ⟨h0, hd1, hl⟩ := drop_cons_facts hd
      have ih1 := subAll_go_strip env s fuel (i + 1) (by omega) (by omega)
      by_cases h3 : a = 45 ∧ ∃ rest, d1 = 42 :: 45 :: rest
      · -- `-*-` then the loop
        obtain ⟨rfl, rest, rfl⟩ := h3
        obtain ⟨h1, hd2, hl1⟩ := drop_cons_facts hd1
        obtain ⟨h2, hd3, hl2⟩ := drop_cons_facts hd2
        simp only [List.length_cons] at hl
        have hle := loopLen_le rest
        have ih := subAll_go_strip env s fuel (i + 1 + 1 + 1 + loopLen rest) (by omega) (by omega)
        simp only [h0, h1, h2, and_self, if_true, hd3]
        rw [if_pos (by omega), ih, collapse.eq_3, collapse_true_eq rest]
        have : s.drop (i + 1 + 1 + 1 + loopLen rest) = rest.drop (loopLen rest) := by
          rw [← hd3, List.drop_drop]
        rw [this]; rfl
      · by_cases h4 : a = 45 ∧ d1 = [42]
        · -- `-*\Z`
          obtain ⟨rfl, rfl⟩ := h4
          obtain ⟨h1, hd2, hl1⟩ := drop_cons_facts hd1
          obtain ⟨h2, _⟩ := drop_nil_facts hd2
          simp only [List.length_cons, List.length_nil] at hl
          have he : i + 1 + 1 = s.length := by omega
          have ih := subAll_go_strip env s fuel (i + 1 + 1) (by omega) (by omega)
          rw [if_pos ⟨h0, h1⟩, if_neg (by rw [h2]; simp), if_pos he]
          simp only []
          rw [if_pos (by omega), ih, hd2]
          rfl
        · -- no match here: copy the character
          have hcopy : collapse false (a :: d1) = a :: collapse false d1 := by
            apply collapse_copy
            · rintro ⟨ha, h | h⟩
              · exact h3 ⟨ha, h⟩
              · exact h4 ⟨ha, h⟩
            · rintro ⟨h, _⟩; cases h
          have hnone : (if s[i]? = some 45 ∧ s[i + 1]? = some 42 then
                (if s[i + 1 + 1]? = some 45 then
                    some (i + 1 + 1 + 1 + loopLen (s.drop (i + 1 + 1 + 1)), ([] : Caps))
                 else if i + 1 + 1 = s.length then some (i + 1 + 1, []) else none)
              else none) = none := by
            by_cases ha : a = 45
            · subst ha
              cases d1 with
              | nil => simp [h0, (drop_nil_facts hd1).1]
              | cons b d2 =>
                obtain ⟨h1, hd2, hl1⟩ := drop_cons_facts hd1
                by_cases hb : b = 42
                · subst hb
                  cases d2 with
                  | nil => exact absurd ⟨rfl, rfl⟩ h4
                  | cons c d3 =>
                    obtain ⟨h2, _, hl2⟩ := drop_cons_facts hd2
                    simp only [List.length_cons] at hl hl1 hl2
                    have hc : c ≠ 45 := fun hc => h3 ⟨rfl, d3, by rw [hc]⟩
                    have hne : i + 1 + 1 ≠ s.length := by omega
                    simp [h0, h1, h2, hc, hne]
                · simp [h0, h1, hb]
            · simp [h0, ha]
          rw [hnone, hcopy]
          simp only [h0, ih1, hd1]

/-- `RE_WILD_STRIP.sub('-', s)` is `collapse false s`, for every text and every character
    environment. -/
theorem subAll_strip (env : CharEnv) (s : Str) :
    subAll env Gen.cm_RE_WILD_STRIP [45] s = collapse false s := by
  unfold subAll
  rw [subAll_go_strip env s _ 0 (Nat.zero_le _) (by omega)]; rfl

/-! ### Main theorem and the end-to-end corollaries -/

/-- `RE_WILD_STRIP.sub('-', RE_WILD_TAIL.sub('', s))`, computed by the engine model on the regexes
    regenerated from the source, is the hand-written text-level strip — for ALL texts. -/
theorem wildStripRx_eq_text (s : Str) : wildStripRx s = wildStripText s := by
  unfold wildStripRx wildStripText
  rw [subAll_tail, subAll_strip]

theorem wildStripRx_eq : wildStripRx = wildStripText := funext wildStripRx_eq_text

/-- The regex strip acts as `stripWild` on the subtags, for every text. -/
theorem wildStripRx_subtags (s : Str) :
    splitOn 45 (wildStripRx s) = Spec.stripWild (splitOn 45 s) := by
  rw [wildStripRx_eq_text]; exact C13.wildStripText_subtags s

/-- End to end with the regexes of the source: every range text whose subtags after the first are
    non-empty, every tag text. -/
theorem extendedFilter_wildStripRx_eq_c13 (range tag : Str)
    (hne : ∀ x ∈ (splitOn 45 range).tail, x ≠ []) :
    Lang.extendedFilter wildStripRx range tag =
      Spec.c13Match ((splitOn 45 range).map lower) ((splitOn 45 tag).map lower) := by
  rw [wildStripRx_eq]; exact C13.extendedFilter_wildStripText_eq_c13 range tag hne

theorem wildStripRx_case_insensitive (r r' t t' : Str)
    (hr : lower r = lower r') (ht : lower t = lower t') :
    Lang.extendedFilter wildStripRx r t = Lang.extendedFilter wildStripRx r' t' := by
  rw [wildStripRx_eq]; exact C13.wildStripText_case_insensitive r r' t t' hr ht

end RefineLang
end SoupVerif

#print axioms SoupVerif.RefineLang.subAll_tail
#print axioms SoupVerif.RefineLang.subAll_strip
#print axioms SoupVerif.RefineLang.wildStripRx_eq_text
#print axioms SoupVerif.RefineLang.wildStripRx_subtags
#print axioms SoupVerif.RefineLang.extendedFilter_wildStripRx_eq_c13
#print axioms SoupVerif.RefineLang.wildStripRx_case_insensitive

/-! ### Non-vacuity: the theorems used on concrete texts -/
section Examples
open SoupVerif SoupVerif.RefineLang SoupVerif.LangLemmas
example : wildStripRx "de-*-*-DE-*-*".toStr = "de-DE".toStr := by
  rw [wildStripRx_eq_text]; decide
example : wildStripRx ("de-*".toStr ++ [10]) = "de-*".toStr ++ [10] := by
  rw [wildStripRx_eq_text]; decide
example : Lang.extendedFilter wildStripRx "de-*-DE".toStr "de-Latn-DE".toStr = true := by
  rw [extendedFilter_wildStripRx_eq_c13 _ _ (by decide)]; decide
example : Lang.extendedFilter wildStripRx "DE-*-de".toStr "de-x-DE".toStr = false := by
  rw [extendedFilter_wildStripRx_eq_c13 _ _ (by decide)]; decide
end Examples
