/-
  Refinement: the hand-written scanner `Escape.scanPrefixed` / `Escape.scanIdent`
  (Model/Escape.lean) computes exactly what the regex engine model computes on the token regexes
  `Gen.tok_id` (`\#IDENTIFIER`) and `Gen.tok_class` (`\.IDENTIFIER`) regenerated from the source.
-/
import SoupVerif.Lemmas.RxBasic
import SoupVerif.Lemmas.Escape
import SoupVerif.Generated.Regexes
namespace SoupVerif
namespace Refine
namespace Ident
open Rx RxBasic Escape EscapeLemmas

/-! ### The explicit terms -/

def rxHex : Rx := .set false [.range 97 102, .range 48 57] true
def rxCrlf : Rx := .seq [.lit 13 true, .lit 10 true]
def rxWs : Rx :=
  .alt [.set false [.ch 32, .ch 9] true,
        .alt [rxCrlf, .seq [.look true true rxCrlf, .set false [.ch 10, .ch 12, .ch 13] true]]]
def rxWsOpt : Rx := .alt [rxWs, .look true true (.set false [.ch 32, .ch 9, .ch 13, .ch 10, .ch 12] true)]
def rxHexRun : Rx :=
  .alt [.seq [.rep 1 (some 5) true rxHex, .look true true rxHex], .rep 6 (some 6) true rxHex]
def rxNonHex : Rx := .set true [.ch 13, .ch 10, .ch 12, .range 97 102, .range 48 57] true
def rxEsc : Rx := .seq [.lit 92 true, .alt [.seq [rxHexRun, rxWsOpt], rxNonHex, .eos]]
def rxStartSet : Rx := .set true [.range 0 47, .range 48 64, .range 91 94, .ch 96, .range 123 127] true
def rxContSet : Rx :=
  .set true [.range 0 44, .ch 46, .ch 47, .range 58 64, .range 91 94, .ch 96, .range 123 127] true
def rxHead : Rx :=
  .alt [.seq [.rep 0 (some 1) true (.lit 45 true), .alt [rxStartSet, rxEsc]],
        .seq [.lit 45 true, .lit 45 true]]
def rxStar : Rx := .rep 0 none true (.alt [rxContSet, rxEsc])

/-- Shape of `css_tokens[id]` = `\#IDENTIFIER` (compiled `re.I | re.X | re.U`). -/
theorem tok_id_shape : Gen.tok_id = .seq [.lit 35 true, rxHead, rxStar] := rfl
/-- Shape of `css_tokens[class]` = `\.IDENTIFIER`. -/
theorem tok_class_shape : Gen.tok_class = .seq [.lit 46 true, rxHead, rxStar] := rfl

/-! ### Case folding: what the proof needs of the environment -/

/-- The case-folding facts used: a code point is either fixed by `fold`, or it is an upper-case
    ASCII letter or a non-ASCII code point and folds to a lower-case ASCII letter; and only
    `A-F`, `a-f` fold into `a-f`, `A-F` onto `a-f`. -/
structure IdentFold (env : CharEnv) : Prop where
  id_or_letter : ∀ c, env.fold c = c ∨
    (97 ≤ env.fold c ∧ env.fold c ≤ 122 ∧ ((65 ≤ c ∧ c ≤ 90) ∨ 128 ≤ c))
  hex : ∀ c, 97 ≤ env.fold c → env.fold c ≤ 102 → (65 ≤ c ∧ c ≤ 70) ∨ (97 ≤ c ∧ c ≤ 102)
  upper : ∀ c, 65 ≤ c → c ≤ 70 → env.fold c = c + 32

theorem identFold_ascii : IdentFold asciiEnv := by
  constructor
  · intro c; show lowerCp c = c ∨ _
    simp only [show asciiEnv.fold = lowerCp from rfl, lowerCp]; split <;> omega
  · intro c; simp only [show asciiEnv.fold = lowerCp from rfl, lowerCp]; split <;> omega
  · intro c; simp only [show asciiEnv.fold = lowerCp from rfl, lowerCp]; split <;> omega

/-- `foldEnv sp` qualifies when every special code point is non-ASCII and folds to one of `g`–`z`. -/
theorem identFold_foldEnv (sp : Specials)
    (hsp : ∀ q ∈ sp, 128 ≤ q.1 ∧ 103 ≤ q.2 ∧ q.2 ≤ 122) : IdentFold (foldEnv sp) := by
  have key : ∀ c, (foldEnv sp).fold c = lowerCp c ∨
      (128 ≤ c ∧ 103 ≤ (foldEnv sp).fold c ∧ (foldEnv sp).fold c ≤ 122) := by
    intro c
    show (match sp.lookup c with | some a => a | none => lowerCp c) = _ ∨ _
    cases hl : sp.lookup c with
    | none => left; rfl
    | some a =>
      right
      have hm : (c, a) ∈ sp := by
        clear hsp
        induction sp with
        | nil => simp at hl
        | cons q sp ih =>
          rw [List.lookup_cons] at hl
          by_cases hq : c == q.1
          · simp only [hq] at hl; cases hl
            have : c = q.1 := by simpa using hq
            subst this; simp
          · simp only [hq] at hl
            exact List.mem_cons_of_mem _ (ih hl)
      have := hsp _ hm
      have hf : (foldEnv sp).fold c = a := by
        show (match sp.lookup c with | some a => a | none => lowerCp c) = a
        rw [hl]
      rw [hf]; simpa using this
  constructor
  · intro c
    rcases key c with h | h
    · rw [h]; unfold lowerCp; split <;> omega
    · omega
  · intro c
    rcases key c with h | h
    · rw [h]; unfold lowerCp; split <;> omega
    · omega
  · intro c
    rcases key c with h | h
    · rw [h]; unfold lowerCp; split <;> omega
    · omega

theorem identFold_py : IdentFold pyFoldEnv := by
  rw [pyFoldEnv_eq]; apply identFold_foldEnv
  decide

/-! ### Character classes under case-insensitive matching -/

theorem fold_eq_const {env : CharEnv} (h : IdentFold env) (k : Nat)
    (hk : k < 65 ∨ (91 ≤ k ∧ k ≤ 96) ∨ (123 ≤ k ∧ k ≤ 127)) (x : Nat) :
    (env.fold x == env.fold k) = (x == k) := by
  have hk' : env.fold k = k := by rcases h.id_or_letter k with h1 | h1 <;> omega
  rw [hk']
  rcases h.id_or_letter x with h1 | h1
  · rw [h1]
  · have e1 : (env.fold x == k) = false := by rw [beq_eq_false_iff_ne]; omega
    have e2 : (x == k) = false := by rw [beq_eq_false_iff_ne]; omega
    rw [e1, e2]

theorem fold_const_eq {env : CharEnv} (h : IdentFold env) (k : Nat)
    (hk : k < 65 ∨ (91 ≤ k ∧ k ≤ 96) ∨ (123 ≤ k ∧ k ≤ 127)) (x : Nat) :
    (env.fold k == env.fold x) = (x == k) := by
  rw [← fold_eq_const h k hk x, Bool.beq_comm]

theorem set_start {env : CharEnv} (h : IdentFold env) (c : Nat) :
    setHas env true [.range 0 47, .range 48 64, .range 91 94, .ch 96, .range 123 127] true c
      = identStartChar c := by
  have h96 := fold_const_eq h 96 (by omega) c
  simp only [setHas, List.any, itemHas, if_true, Bool.true_and, Bool.or_false, h96]
  rw [Bool.eq_iff_iff]
  simp only [identStartChar_iff]
  rcases h.id_or_letter c with h1 | h1
  · simp [h1]; omega
  · simp; omega

theorem set_cont {env : CharEnv} (h : IdentFold env) (c : Nat) :
    setHas env true [.range 0 44, .ch 46, .ch 47, .range 58 64, .range 91 94, .ch 96, .range 123 127] true c
      = identContChar c := by
  have h96 := fold_const_eq h 96 (by omega) c
  have h46 := fold_const_eq h 46 (by omega) c
  have h47 := fold_const_eq h 47 (by omega) c
  simp only [setHas, List.any, itemHas, if_true, Bool.true_and, Bool.or_false, h96, h46, h47]
  rw [Bool.eq_iff_iff]
  simp only [identContChar_iff]
  rcases h.id_or_letter c with h1 | h1
  · simp [h1]; omega
  · simp; omega

theorem set_hex {env : CharEnv} (h : IdentFold env) (c : Nat) :
    setHas env false [.range 97 102, .range 48 57] true c = isHex c := by
  simp only [setHas, List.any, itemHas, Bool.true_and, Bool.or_false]
  rw [Bool.eq_iff_iff]
  simp only [isHex_iff]
  have := h.hex c
  have := h.upper c
  rcases h.id_or_letter c with h1 | h1
  · simp [h1]; omega
  · simp; omega

theorem set_nonhex {env : CharEnv} (h : IdentFold env) (c : Nat) :
    setHas env true [.ch 13, .ch 10, .ch 12, .range 97 102, .range 48 57] true c
      = (!isHex c && !(c == 13) && !(c == 10) && !(c == 12)) := by
  have h13 := fold_const_eq h 13 (by omega) c
  have h10 := fold_const_eq h 10 (by omega) c
  have h12 := fold_const_eq h 12 (by omega) c
  have hh := set_hex h c
  simp only [setHas, List.any, itemHas, if_true, Bool.true_and, Bool.or_false, h13, h10, h12] at hh ⊢
  rw [← hh]
  cases (c == 13) <;> cases (c == 10) <;> cases (c == 12) <;> simp

theorem set_ws {env : CharEnv} (h : IdentFold env) (c : Nat) :
    setHas env false [.ch 32, .ch 9, .ch 13, .ch 10, .ch 12] true c = isCssWs c := by
  simp only [setHas, List.any, itemHas, if_true, Bool.or_false, fold_const_eq h 32 (by omega) c,
    fold_const_eq h 9 (by omega) c, fold_const_eq h 13 (by omega) c, fold_const_eq h 10 (by omega) c,
    fold_const_eq h 12 (by omega) c, isCssWs]
  simp [Bool.or_assoc]

theorem set_sptab {env : CharEnv} (h : IdentFold env) (c : Nat) :
    setHas env false [.ch 32, .ch 9] true c = (c == 32 || c == 9) := by
  simp only [setHas, List.any, itemHas, if_true, Bool.or_false, fold_const_eq h 32 (by omega) c,
    fold_const_eq h 9 (by omega) c]
  simp

theorem set_nl {env : CharEnv} (h : IdentFold env) (c : Nat) :
    setHas env false [.ch 10, .ch 12, .ch 13] true c = (c == 10 || c == 12 || c == 13) := by
  simp only [setHas, List.any, itemHas, if_true, Bool.or_false, fold_const_eq h 13 (by omega) c,
    fold_const_eq h 10 (by omega) c, fold_const_eq h 12 (by omega) c]
  simp [Bool.or_assoc]

/-! ### Engine lemmas: suffix view, look-ahead, `\r\n` -/
/-- At most one run: to `p + n`. -/
def single (p : Nat) (caps : Caps) : Option Nat → List (Nat × Caps)
  | some n => [(p + n, caps)]
  | none => []

theorem getElem?_of_drop_nil {s : Str} {p : Nat} (h : s.drop p = []) : s[p]? = none := by
  have := List.getElem?_drop (xs := s) (i := p) (j := 0)
  rw [h] at this; simpa using this.symm

theorem getElem?_of_drop_cons {s : Str} {p c : Nat} {cs : Str} (h : s.drop p = c :: cs) :
    s[p]? = some c := by
  have := List.getElem?_drop (xs := s) (i := p) (j := 0)
  rw [h] at this; simpa using this.symm

theorem drop_succ_of_drop_cons {s : Str} {p c : Nat} {cs : Str} (h : s.drop p = c :: cs) :
    s.drop (p + 1) = cs := by
  have : s.drop (p + 1) = (s.drop p).drop 1 := by rw [List.drop_drop]
  rw [this, h]; rfl

theorem lt_of_drop_cons {s : Str} {p c : Nat} {cs : Str} (h : s.drop p = c :: cs) : p < s.length := by
  rcases Nat.lt_or_ge p s.length with h' | h'
  · exact h'
  · rw [List.drop_eq_nil_of_le h'] at h; cases h

/-- A one-character test, read off the suffix at `p`. -/
theorem runs_char_drop {env : CharEnv} {s : Str} {r : Rx} {P : Nat → Bool} (h : IsChar env s r P)
    (p : Nat) (caps : Caps) :
    runs env s r p caps =
      match s.drop p with
      | c :: _ => if P c then [(p + 1, caps)] else []
      | [] => [] := by
  rw [h p caps]; unfold charBody
  cases hd : s.drop p with
  | nil => rw [getElem?_of_drop_nil hd]
  | cons c cs => rw [getElem?_of_drop_cons hd]

theorem runs_look_ahead (env : CharEnv) (s : Str) (neg : Bool) (r : Rx) (i : Nat) (caps : Caps) :
    runs env s (.look true neg r) i caps =
      if (!(runs env s r i caps).isEmpty) != neg then [(i, caps)] else [] := by
  rw [runs]

/-- `\r\n` at the head. -/
def crlfAt : Str → Bool
  | c :: cs => c == 13 && cs.head? == some 10
  | [] => false

theorem runs_crlf {env : CharEnv} (h : IdentFold env) (s : Str) (p : Nat) (caps : Caps) :
    runs env s rxCrlf p caps = if crlfAt (s.drop p) then [(p + 2, caps)] else [] := by
  unfold rxCrlf
  rw [runs_seq, runsSeq_cons, runs_char_drop (isChar_lit env s 13 true)]
  cases hd : s.drop p with
  | nil => simp [crlfAt]
  | cons c cs =>
    have hd1 := drop_succ_of_drop_cons hd
    simp only [if_true, fold_eq_const h 13 (by omega)]
    by_cases hc : c = 13
    · subst hc
      simp only [beq_self_eq_true, if_true, List.flatMap_cons, List.flatMap_nil, List.append_nil]
      rw [runsSeq_cons, runs_char_drop (isChar_lit env s 10 true), hd1]
      cases cs with
      | nil => simp [crlfAt]
      | cons d ds =>
        simp only [if_true, fold_eq_const h 10 (by omega), crlfAt, List.head?_cons]
        by_cases hd' : d = 10
        · subst hd'; simp [runsSeq_nil]
        · simp [hd']
    · simp [hc, crlfAt]

/-! ### `(?:WS|(?![ \t\r\n\f]))` -/
theorem wsLen_cons (c : Nat) (cs : Str) :
    wsLen (c :: cs) = if crlfAt (c :: cs) then 2 else if isCssWs c then 1 else 0 := rfl

theorem runs_wsOpt {env : CharEnv} (h : IdentFold env) (s : Str) (p : Nat) (caps : Caps) :
    runs env s rxWsOpt p caps = [(p + wsLen (s.drop p), caps)] := by
  unfold rxWsOpt rxWs
  simp only [runs_alt, runsAlt_cons, runsAlt_nil, runs_seq, runsSeq_cons, runsSeq_nil,
    runs_look_ahead, runs_crlf h,
    runs_char_drop (isChar_congr (isChar_set env s _ _ _) (set_sptab h)),
    runs_char_drop (isChar_congr (isChar_set env s _ _ _) (set_nl h)),
    runs_char_drop (isChar_congr (isChar_set env s _ _ _) (set_ws h))]
  cases hd : s.drop p with
  | nil => simp [crlfAt, wsLen, hd]
  | cons c cs =>
    rw [wsLen_cons]
    by_cases hcr : crlfAt (c :: cs) = true
    · have : c = 13 := by
        simp only [crlfAt, Bool.and_eq_true, beq_iff_eq] at hcr; exact hcr.1
      subst this
      simp [hcr, isCssWs]
    · simp only [hcr]
      by_cases h32 : c = 32
      · subst h32; simp [isCssWs, hd]
      by_cases h9 : c = 9
      · subst h9; simp [isCssWs, hd]
      by_cases h13 : c = 13
      · subst h13; simp [isCssWs, hd]
      by_cases h10 : c = 10
      · subst h10; simp [isCssWs, hd]
      by_cases h12 : c = 12
      · subst h12; simp [isCssWs, hd]
      simp [isCssWs, h32, h9, h13, h10, h12, hd]

/-! ### The hex run -/
theorem isChar_hex {env : CharEnv} (h : IdentFold env) (s : Str) : IsChar env s rxHex isHex :=
  isChar_congr (isChar_set env s _ _ _) (set_hex h)

theorem hexRun_eq_min : ∀ (k : Nat) (t : Str), hexRun k t = min (t.takeWhile isHex).length k
  | 0, t => by cases t <;> simp [hexRun]
  | k + 1, [] => by simp [hexRun]
  | k + 1, c :: cs => by
    rw [hexRun, List.takeWhile_cons]
    by_cases hc : isHex c = true
    · simp only [hc, if_true, List.length_cons, hexRun_eq_min k cs]; omega
    · simp [hc]

theorem hexRun_eq_span (s : Str) (p k : Nat) : hexRun k (s.drop p) = min (spanLen s isHex p) k :=
  hexRun_eq_min k (s.drop p)

/-- The negative look-ahead `(?![a-f0-9])` as a continuation. -/
theorem look_nothex {env : CharEnv} (h : IdentFold env) (s : Str) (j : Nat) (caps : Caps) :
    runsSeq env s [.look true true rxHex] j caps =
      match s[j]? with
      | some x => if isHex x then [] else [(j, caps)]
      | none => [(j, caps)] := by
  rw [runsSeq_cons, runs_look_ahead, isChar_hex h s j caps]
  unfold charBody
  cases s[j]? with
  | none => simp [runsSeq_nil]
  | some x => by_cases hx : isHex x = true <;> simp [hx, runsSeq_nil]

/-- `(?:[a-f0-9]{1,5}(?![a-f0-9])|[a-f0-9]{6})`: exactly the maximal run of hex digits, cut at 6. -/
theorem runs_hexRun {env : CharEnv} (h : IdentFold env) (s : Str) (p : Nat) (caps : Caps) :
    runs env s rxHexRun p caps =
      if 1 ≤ spanLen s isHex p then [(p + min (spanLen s isHex p) 6, caps)] else [] := by
  unfold rxHexRun
  rw [runs_alt, runsAlt_cons, runsAlt_cons, runsAlt_nil, runs_seq, runsSeq_cons,
    runs_rep_char (isChar_hex h s), runs_rep_char_exact (isChar_hex h s)]
  simp only [room, Nat.sub_zero, List.append_nil]
  generalize hn : spanLen s isHex p = n
  have hk : ∀ j, (fun x : Nat × Caps => runsSeq env s [.look true true rxHex] x.1 x.2) (j, caps) =
      match s[j]? with
      | some x => if isHex x then [] else [(j, caps)]
      | none => [(j, caps)] := fun j => look_nothex h s j caps
  have hin : ∀ j, p ≤ j → j < p + n →
      (fun x : Nat × Caps => runsSeq env s [.look true true rxHex] x.1 x.2) (j, caps) = [] := by
    intro j h1 h2
    obtain ⟨x, hx, hPx⟩ := span_inside s isHex (j - p) p (by omega)
    rw [show p + (j - p) = j by omega] at hx
    rw [hk, hx]; simp [hPx]
  rcases Nat.lt_or_ge n 1 with h0 | h1
  · have : n = 0 := by omega
    subst this
    rw [down_empty caps (by omega)]; simp
  rcases Nat.lt_or_ge n 6 with h6 | h6
  · rw [show min n 5 = n by omega, show min n 6 = n by omega]
    have := flatMap_down_cut caps (fun x : Nat × Caps => runsSeq env s [.look true true rxHex] x.1 x.2)
      (n - 1) (p + 1) (fun j h1 h2 => hin j (by omega) (by omega))
    rw [show p + 1 + (n - 1) = p + n by omega] at this
    rw [this]; simp only []
    rw [look_nothex h]
    have hend := span_end s isHex n p hn
    rw [if_pos h1, if_neg (by omega)]
    cases hx : s[p + n]? with
    | none => simp
    | some x => simp [hend x hx]
  · rw [show min n 5 = 5 by omega, show min n 6 = 6 by omega]
    rw [flatMap_down_nil caps _ (p + 1) (p + 5) (fun j h1 h2 => hin j (by omega) (by omega))]
    simp [h6, h1]

/-! ### `CSS_ESCAPES` -/
theorem length_of_drop_succ_nil {s : Str} {p c : Nat} (h : s.drop p = [c]) : p + 1 = s.length := by
  have := congrArg List.length h
  rw [List.length_drop] at this; simp at this
  have := lt_of_drop_cons h; omega

theorem length_of_drop_succ_cons {s : Str} {p c d : Nat} {ds : Str} (h : s.drop p = c :: d :: ds) :
    p + 1 ≠ s.length := by
  have := congrArg List.length h
  rw [List.length_drop] at this; simp at this
  omega

theorem isChar_nonhex {env : CharEnv} (h : IdentFold env) (s : Str) :
    IsChar env s rxNonHex (fun c => !isHex c && !(c == 13) && !(c == 10) && !(c == 12)) :=
  isChar_congr (isChar_set env s _ _ _) (set_nonhex h)

/-- `CSS_ESCAPES` has at most one run, the one the hand scanner computes. -/
theorem runs_esc {env : CharEnv} (h : IdentFold env) (s : Str) (p : Nat) (caps : Caps) :
    runs env s rxEsc p caps = single p caps (escLen (s.drop p)) := by
  unfold rxEsc
  rw [runs_seq, runsSeq_cons, runs_char_drop (isChar_lit env s 92 true)]
  cases hd : s.drop p with
  | nil => simp [escLen, single]
  | cons c cs =>
    have hd1 := drop_succ_of_drop_cons hd
    simp only [if_true, fold_eq_const h 92 (by omega)]
    by_cases hc' : c ≠ 92
    · simp [hc', escLen, single]
    have hc : c = 92 := by omega
    subst hc
    simp only [beq_self_eq_true, if_true, List.flatMap_cons, List.flatMap_nil, List.append_nil]
    rw [runsSeq_cons, runs_alt, runsAlt_cons, runsAlt_cons, runsAlt_cons, runsAlt_nil, runs_seq,
      runsSeq_cons, runs_hexRun h, runs_eos,
      runs_char_drop (isChar_nonhex h s), hd1]
    have hspan : spanLen s isHex (p + 1) = (cs.takeWhile isHex).length := by
      unfold spanLen; rw [hd1]
    cases cs with
    | nil =>
      have hl := length_of_drop_succ_nil hd
      have h0 : spanLen s isHex (p + 1) = 0 := by rw [hspan]; rfl
      simp only [h0]
      simp [hl, escLen, single, runsSeq_nil]
    | cons d ds =>
      have hl := length_of_drop_succ_cons hd
      by_cases hx : isHex d = true
      · have h1 : 1 ≤ spanLen s isHex (p + 1) := by
          rw [hspan, List.takeWhile_cons]; simp [hx]
        have hk : hexRun 6 (d :: ds) = min (spanLen s isHex (p + 1)) 6 := by
          rw [hspan]; exact hexRun_eq_min 6 (d :: ds)
        have hdrop : ∀ k, s.drop (p + 1 + k) = (d :: ds).drop k := by
          intro k; rw [← hd1, List.drop_drop]
        simp only [h1, if_true, List.flatMap_cons, List.flatMap_nil, List.append_nil, runsSeq_cons,
          runs_wsOpt h, runsSeq_nil, hx, Bool.not_true, Bool.false_and, Bool.false_eq_true, if_false,
          hl, escLen, single, bne_self_eq_false, hdrop, hk]
        simp [Nat.add_assoc]
      · have h0 : spanLen s isHex (p + 1) = 0 := by
          rw [hspan, List.takeWhile_cons]; simp [hx]
        simp only [h0, hl, escLen, single]
        have hx' : isHex d = false := by simpa using hx
        by_cases hn : d = 10 ∨ d = 13 ∨ d = 12
        · rcases hn with hn | hn | hn <;> subst hn <;> simp [isHex]
        · have h10 : d ≠ 10 := fun e => hn (Or.inl e)
          have h13 : d ≠ 13 := fun e => hn (Or.inr (Or.inl e))
          have h12 : d ≠ 12 := fun e => hn (Or.inr (Or.inr e))
          simp [hx', h10, h13, h12, runsSeq_nil]

/-! ### Facts about the hand scanner -/

theorem wsLen_le (t : Str) : wsLen t ≤ t.length := by
  cases t with
  | nil => simp [wsLen]
  | cons c cs =>
    rw [wsLen_cons]
    by_cases hcr : crlfAt (c :: cs) = true
    · rw [if_pos hcr]
      cases cs with
      | nil => simp [crlfAt] at hcr
      | cons d ds => simp
    · rw [if_neg hcr]; split <;> simp

theorem hexRun_le (k : Nat) (t : Str) : hexRun k t ≤ t.length := by
  rw [hexRun_eq_min]
  have := (List.takeWhile_sublist (l := t) isHex).length_le
  omega

theorem escLen_bounds {t : Str} {n : Nat} (h : escLen t = some n) : 1 ≤ n ∧ n ≤ t.length := by
  cases t with
  | nil => simp [escLen] at h
  | cons b cs =>
    by_cases hb' : b ≠ 92
    · simp [escLen, hb'] at h
    have hb : b = 92 := by omega
    subst hb
    cases cs with
    | nil => simp [escLen] at h; subst h; simp
    | cons d ds =>
      by_cases hx : isHex d = true
      · simp only [escLen, bne_self_eq_false, Bool.false_eq_true, if_false, hx, if_true,
          Option.some.injEq] at h
        have h1 := hexRun_le 6 (d :: ds)
        have h2 := wsLen_le ((d :: ds).drop (hexRun 6 (d :: ds)))
        rw [List.length_drop] at h2
        simp only [List.length_cons] at *
        omega
      · simp only [escLen, bne_self_eq_false, Bool.false_eq_true, if_false, hx] at h
        split at h
        · cases h
        · cases h; simp

/-- One iteration of the `*` loop of `IDENTIFIER`: an identifier character or an escape. -/
def contStep : Str → Option Nat
  | [] => none
  | c :: cs => if identContChar c then some 1 else escLen (c :: cs)

/-- Length of what the `*` loop takes. -/
def contLen (t : Str) : Nat := (scanCont 0 t).1.length

theorem contStep_bounds {t : Str} {n : Nat} (h : contStep t = some n) : 1 ≤ n ∧ n ≤ t.length := by
  cases t with
  | nil => simp [contStep] at h
  | cons c cs =>
    rw [contStep] at h
    split at h
    · cases h; simp
    · exact escLen_bounds h

theorem scanCont_take (k : Nat) (t : Str) (hk : k ≤ t.length) :
    scanCont k t = (t.take k ++ (scanCont 0 (t.drop k)).1, (scanCont 0 (t.drop k)).2) := by
  have := scanCont_copy (t.take k) (t.drop k) k (by simp [hk])
  rwa [List.take_append_drop] at this

theorem contLen_stop {t : Str} (h : contStep t = none) : contLen t = 0 := by
  cases t with
  | nil => simp [contLen, scanCont]
  | cons c cs =>
    rw [contStep] at h
    unfold contLen
    rw [scanCont_zero_cons]
    split at h
    · cases h
    · rename_i hc; simp [hc, h]

theorem contLen_step {t : Str} {n : Nat} (h : contStep t = some n) :
    contLen t = n + contLen (t.drop n) := by
  have hb := contStep_bounds h
  cases t with
  | nil => simp [contStep] at h
  | cons c cs =>
    rw [contStep] at h
    unfold contLen
    rw [scanCont_zero_cons]
    split at h
    · rename_i hc; cases h; simp [hc]; omega
    · rename_i hc
      simp only [hc, h, Bool.false_eq_true, if_false]
      rw [scanCont_take (n - 1) cs (by simp at hb; omega)]
      obtain ⟨m, rfl⟩ : ∃ m, n = m + 1 := ⟨n - 1, by omega⟩
      simp only [List.length_cons, List.length_append, List.length_take, Nat.add_sub_cancel,
        List.drop_succ_cons]
      simp only [List.length_cons] at hb
      omega

theorem scanCont_append : ∀ (k : Nat) (t : Str), (scanCont k t).1 ++ (scanCont k t).2 = t := by
  intro k t
  fun_induction scanCont k t
  · rfl
  · rename_i ih; simpa using ih
  · rename_i ih; simpa using ih
  · rename_i ih; simpa using ih
  · rfl

/-! ### The `*` loop -/

theorem isChar_cont {env : CharEnv} (h : IdentFold env) (s : Str) :
    IsChar env s rxContSet identContChar :=
  isChar_congr (isChar_set env s _ _ _) (set_cont h)

theorem isChar_start {env : CharEnv} (h : IdentFold env) (s : Str) :
    IsChar env s rxStartSet identStartChar :=
  isChar_congr (isChar_set env s _ _ _) (set_start h)

theorem runs_contAlt {env : CharEnv} (h : IdentFold env) (s : Str) (p : Nat) (caps : Caps) :
    runs env s (.alt [rxContSet, rxEsc]) p caps = single p caps (contStep (s.drop p)) := by
  rw [runs_alt, runsAlt_cons, runsAlt_cons, runsAlt_nil, runs_esc h,
    runs_char_drop (isChar_cont h s)]
  cases hd : s.drop p with
  | nil => simp [contStep, escLen, single]
  | cons c cs =>
    by_cases hc : identContChar c = true
    · have : c ≠ 92 := by rintro rfl; simp [identContChar] at hc
      simp [hc, contStep, escLen, single, this]
    · simp [hc, contStep]

theorem head?_append_of_some {α} {l l' : List α} {v : α} (h : l.head? = some v) :
    (l ++ l').head? = some v := by
  cases l with
  | nil => cases h
  | cons a l => simpa using h

/-- The greedy `*` over a body with at most one run, which always advances: the first run of the
    loop is the maximal one (and the loop never fails). -/
theorem iter_star_head (s : Str) (body : Nat → Caps → List (Nat × Caps))
    (hbody : ∀ p c, body p c = single p c (contStep (s.drop p))) :
    ∀ (fuel count pos : Nat) (caps : Caps), s.length - pos + 1 ≤ fuel →
      (iter body 0 none true fuel count pos caps).head? = some (pos + contLen (s.drop pos), caps)
  | 0, _, _, _, hf => by omega
  | fuel + 1, count, pos, caps, hf => by
    rw [iter_succ]
    simp only [if_true, canMore, hbody, Nat.zero_le, ge_iff_le]
    cases hs : contStep (s.drop pos) with
    | none => simp [single, contLen_stop hs]
    | some n =>
      have hb := contStep_bounds hs
      have hlt : pos < s.length := by
        rw [List.length_drop] at hb; omega
      have ih := iter_star_head s body hbody fuel (count + 1) (pos + n) caps (by omega)
      simp only [single, List.flatMap_cons, List.flatMap_nil, List.append_nil]
      rw [if_pos (by simp; omega)]
      apply head?_append_of_some
      rw [ih, contLen_step hs, List.drop_drop]
      congr 2; omega

theorem head?_runs_star {env : CharEnv} (h : IdentFold env) (s : Str) (i : Nat) (caps : Caps) :
    (runs env s rxStar i caps).head? = some (i + contLen (s.drop i), caps) := by
  unfold rxStar
  rw [runs]
  exact iter_star_head s _ (fun p c => runs_contAlt h s p c) _ 0 i caps (by omega)

/-! ### The head `(?:-?(?:[^...]|CSS_ESCAPES)|--)` -/

theorem runs_startAlt {env : CharEnv} (h : IdentFold env) (s : Str) (p : Nat) (caps : Caps) :
    runs env s (.alt [rxStartSet, rxEsc]) p caps = single p caps (startLen (s.drop p)) := by
  rw [runs_alt, runsAlt_cons, runsAlt_cons, runsAlt_nil, runs_esc h,
    runs_char_drop (isChar_start h s)]
  cases hd : s.drop p with
  | nil => simp [startLen, escLen, single]
  | cons c cs =>
    by_cases hc : identStartChar c = true
    · have : c ≠ 92 := by rintro rfl; simp [identStartChar] at hc
      simp [hc, startLen, escLen, single, this]
    · simp [hc, startLen]

theorem startLen_bounds {t : Str} {n : Nat} (h : startLen t = some n) : 1 ≤ n ∧ n ≤ t.length := by
  cases t with
  | nil => simp [startLen] at h
  | cons c cs =>
    rw [startLen] at h
    split at h
    · cases h; simp
    · exact escLen_bounds h

theorem headLen_bounds {t : Str} {n : Nat} (h : headLen t = some n) : 1 ≤ n ∧ n ≤ t.length := by
  cases t with
  | nil => simp [headLen] at h
  | cons c cs =>
    rw [headLen] at h
    split at h
    · cases hs : startLen cs with
      | some m =>
        rw [hs] at h; cases h
        have := startLen_bounds hs
        simp; omega
      | none =>
        rw [hs] at h
        cases cs with
        | nil => simp at h
        | cons d ds =>
          by_cases hdd : ((d :: ds).head? == some 45) = true
          · rw [if_pos hdd] at h; cases h; simp
          · rw [if_neg hdd] at h; cases h
    · exact startLen_bounds h

theorem runs_dashdash {env : CharEnv} (h : IdentFold env) (s : Str) (p : Nat) (caps : Caps) :
    runs env s (.seq [.lit 45 true, .lit 45 true]) p caps =
      match s.drop p with
      | c :: cs => if c == 45 && cs.head? == some 45 then [(p + 2, caps)] else []
      | [] => [] := by
  rw [runs_seq, runsSeq_cons, runs_char_drop (isChar_lit env s 45 true)]
  cases hd : s.drop p with
  | nil => simp
  | cons c cs =>
    have hd1 := drop_succ_of_drop_cons hd
    simp only [if_true, fold_eq_const h 45 (by omega)]
    by_cases hc : c = 45
    · subst hc
      simp only [beq_self_eq_true, if_true, List.flatMap_cons, List.flatMap_nil, List.append_nil]
      rw [runsSeq_cons, runs_char_drop (isChar_lit env s 45 true), hd1]
      cases cs with
      | nil => simp
      | cons d ds =>
        simp only [if_true, fold_eq_const h 45 (by omega), List.head?_cons]
        by_cases hd' : d = 45
        · subst hd'; simp [runsSeq_nil]
        · simp [hd']
    · simp [hc]

/-- The head of `IDENTIFIER` has at most one run, the one `headLen` computes. -/
theorem runs_head {env : CharEnv} (h : IdentFold env) (s : Str) (p : Nat) (caps : Caps) :
    runs env s rxHead p caps = single p caps (headLen (s.drop p)) := by
  unfold rxHead
  rw [runs_alt, runsAlt_cons, runsAlt_cons, runsAlt_nil, runs_dashdash h, runs_seq, runsSeq_cons,
    runs_rep_char (isChar_congr (isChar_lit env s 45 true) (fold_eq_const h 45 (by omega)))]
  simp only [room, Nat.sub_zero, Nat.add_zero, runsSeq_cons, runsSeq_nil, runs_startAlt h]
  cases hd : s.drop p with
  | nil =>
    rw [spanLen_of_none (getElem?_of_drop_nil hd)]
    simp [down_single, hd, single, startLen, headLen]
  | cons c cs =>
    have hd1 := drop_succ_of_drop_cons hd
    have hx := getElem?_of_drop_cons hd
    by_cases hc : c = 45
    · subst hc
      rw [spanLen_of_ok hx (by simp), show min (spanLen s (fun x => x == 45) (p + 1) + 1) 1 = 1 by omega,
        down_cons caps (by omega), down_single]
      have h45 : startLen (45 :: cs) = none := by simp [startLen, identStartChar, escLen]
      simp only [List.flatMap_cons, List.flatMap_nil, List.append_nil, hd, hd1, h45, headLen,
        beq_self_eq_true, if_true, Bool.true_and]
      cases hs : startLen cs with
      | some n => 
        have : cs.head? ≠ some 45 := by
          intro hh
          cases cs with
          | nil => cases hh
          | cons d ds =>
            simp only [List.head?_cons, Option.some.injEq] at hh; subst hh
            simp [startLen, identStartChar, escLen] at hs
        simp [single, this]; omega
      | none =>
        by_cases hh : cs.head? = some 45 <;> simp [single, hh]
    · rw [spanLen_of_not hx (by simp [hc]), show min 0 1 = 0 by omega, Nat.add_zero, down_single]
      simp [hd, hc, headLen]

/-! ### The token regexes -/

theorem head?_flatMap {α β} (l : List α) (k : α → List β) (hk : ∀ x, k x ≠ []) :
    (l.flatMap k).head? = l.head?.bind fun x => (k x).head? := by
  cases l with
  | nil => rfl
  | cons a l =>
    rw [List.flatMap_cons, List.head?_cons, Option.bind_some]
    cases hka : k a with
    | nil => exact absurd hka (hk a)
    | cons b bs => rfl

/-- First run of `<prefix>IDENTIFIER` at `i`, in terms of the hand scanner's functions. -/
theorem head?_runs_prefixed {env : CharEnv} (h : IdentFold env) (q : Nat)
    (hq : q < 65 ∨ (91 ≤ q ∧ q ≤ 96) ∨ (123 ≤ q ∧ q ≤ 127)) (s : Str) (i : Nat) (caps : Caps) :
    (runs env s (.seq [.lit q true, rxHead, rxStar]) i caps).head? =
      match s.drop i with
      | c :: cs => if c == q then
          (headLen cs).map fun n => (i + 1 + n + contLen (cs.drop n), caps) else none
      | [] => none := by
  rw [runs_seq, runsSeq_cons, runs_char_drop (isChar_lit env s q true)]
  cases hd : s.drop i with
  | nil => simp
  | cons c cs =>
    have hd1 := drop_succ_of_drop_cons hd
    simp only [if_true, fold_eq_const h q hq]
    by_cases hc : (c == q) = true
    · simp only [hc, if_true, List.flatMap_cons, List.flatMap_nil, List.append_nil, runsSeq_cons,
        runsSeq_nil, runs_head h, hd1]
      cases hh : headLen cs with
      | none => simp [single]
      | some n =>
        simp only [single, List.flatMap_cons, List.flatMap_nil, List.append_nil, Option.map_some]
        rw [head?_flatMap]
        · rw [head?_runs_star h]
          simp only [Option.bind_some, List.head?_cons]
          rw [← hd1, List.drop_drop]
        · intro x; simp
    · simp [hc]

theorem scanCont_length {n : Nat} {t : Str} (hn : n ≤ t.length) :
    (scanCont n t).1.length = n + contLen (t.drop n) := by
  rw [scanCont_take n t hn]; simp [contLen, hn]

theorem scanIdent_split {t : Str} {r : Str × Str} (h : scanIdent t = some r) : r.1 ++ r.2 = t := by
  unfold scanIdent at h
  cases hh : headLen t with
  | none => rw [hh] at h; cases h
  | some n => rw [hh] at h; cases h; exact scanCont_append n t

theorem scanPrefixed_split {q : Nat} {t : Str} {r : Str × Str} (h : scanPrefixed q t = some r) :
    r.1 ++ r.2 = t := by
  cases t with
  | nil => cases h
  | cons c cs =>
    rw [scanPrefixed] at h
    split at h
    · cases hi : scanIdent cs with
      | none => rw [hi] at h; cases h
      | some r' => rw [hi] at h; cases h; simp [scanIdent_split hi]
    · cases h

/-- `IDENTIFIER` alone (the sub-term of the token regexes), at any position. -/
theorem matchAt_ident {env : CharEnv} (h : IdentFold env) (s : Str) (i : Nat) :
    matchAt env (.seq [rxHead, rxStar]) s i =
      (scanIdent (s.drop i)).map fun r => (i + r.1.length, []) := by
  unfold matchAt scanIdent
  rw [runs_seq, runsSeq_cons, runs_head h]
  cases hh : headLen (s.drop i) with
  | none => simp [single]
  | some n =>
    have hb := headLen_bounds hh
    simp only [single, List.flatMap_cons, List.flatMap_nil, List.append_nil, Option.map_some,
      runsSeq_cons, runsSeq_nil]
    rw [head?_flatMap _ _ (by intro x; simp), head?_runs_star h]
    simp only [Option.bind_some, List.head?_cons, scanCont_length hb.2, List.drop_drop]
    simp [Nat.add_assoc]

theorem matchAt_prefixed {env : CharEnv} (h : IdentFold env) (q : Nat)
    (hq : q < 65 ∨ (91 ≤ q ∧ q ≤ 96) ∨ (123 ≤ q ∧ q ≤ 127)) (s : Str) (i : Nat) :
    matchAt env (.seq [.lit q true, rxHead, rxStar]) s i =
      (scanPrefixed q (s.drop i)).map fun r => (i + r.1.length, []) := by
  unfold matchAt
  rw [head?_runs_prefixed h q hq]
  cases hd : s.drop i with
  | nil => simp [scanPrefixed]
  | cons c cs =>
    rw [scanPrefixed]
    by_cases hc : (c == q) = true
    · simp only [hc, if_true, scanIdent]
      cases hh : headLen cs with
      | none => simp
      | some n =>
        have hb := headLen_bounds hh
        simp only [Option.map_some, List.length_cons, scanCont_length hb.2]
        congr 2; omega
    · simp [hc]

/-! ### Main theorems -/

/-- `css_tokens[id]` (`\#IDENTIFIER`, flags `re.I|re.X|re.U`): for every subject `s` and start
    position `i`, `pattern.match(s, i)` of the regex regenerated from the source is exactly the
    hand scanner on the suffix: same success, end = `i +` length of the token text (the token text
    includes the prefix character), no captures. -/
theorem tok_id_matchAt {env : CharEnv} (h : IdentFold env) (s : Str) (i : Nat) :
    matchAt env Gen.tok_id s i = (scanPrefixed 35 (s.drop i)).map fun r => (i + r.1.length, []) := by
  rw [tok_id_shape]; exact matchAt_prefixed h 35 (by omega) s i

theorem tok_class_matchAt {env : CharEnv} (h : IdentFold env) (s : Str) (i : Nat) :
    matchAt env Gen.tok_class s i = (scanPrefixed 46 (s.drop i)).map fun r => (i + r.1.length, []) := by
  rw [tok_class_shape]; exact matchAt_prefixed h 46 (by omega) s i

/-- The scanner's result is determined by the engine's: token text and rest are the subject cut
    at the engine's end position. -/
theorem scanPrefixed_of_matchAt {env : CharEnv} {r : Rx} {q : Nat} {s : Str} {i : Nat}
    (hm : matchAt env r s i = (scanPrefixed q (s.drop i)).map fun r => (i + r.1.length, [])) :
    scanPrefixed q (s.drop i) =
      (matchAt env r s i).map fun m => ((s.drop i).take (m.1 - i), s.drop m.1) := by
  rw [hm]
  cases hp : scanPrefixed q (s.drop i) with
  | none => rfl
  | some r =>
    have hsplit := scanPrefixed_split hp
    simp only [Option.map_some, Nat.add_sub_cancel_left, Option.some.injEq]
    rw [← List.drop_drop, ← hsplit]
    simp

theorem tok_id_scan {env : CharEnv} (h : IdentFold env) (s : Str) (i : Nat) :
    scanPrefixed 35 (s.drop i) =
      (matchAt env Gen.tok_id s i).map fun m => ((s.drop i).take (m.1 - i), s.drop m.1) :=
  scanPrefixed_of_matchAt (tok_id_matchAt h s i)

theorem tok_class_scan {env : CharEnv} (h : IdentFold env) (s : Str) (i : Nat) :
    scanPrefixed 46 (s.drop i) =
      (matchAt env Gen.tok_class s i).map fun m => ((s.drop i).take (m.1 - i), s.drop m.1) :=
  scanPrefixed_of_matchAt (tok_class_matchAt h s i)

/-- The statements of the task, at position 0, for both environments. -/
theorem tok_id_eq_scan (s : Str) :
    (matchAt pyFoldEnv Gen.tok_id s 0).map (·.1) = (scanPrefixed 35 s).map fun r => r.1.length := by
  rw [tok_id_matchAt identFold_py s 0, List.drop_zero]; cases scanPrefixed 35 s <;> simp

theorem tok_id_eq_scan_ascii (s : Str) :
    (matchAt asciiEnv Gen.tok_id s 0).map (·.1) = (scanPrefixed 35 s).map fun r => r.1.length := by
  rw [tok_id_matchAt identFold_ascii s 0, List.drop_zero]; cases scanPrefixed 35 s <;> simp

theorem tok_class_eq_scan (s : Str) :
    (matchAt pyFoldEnv Gen.tok_class s 0).map (·.1) = (scanPrefixed 46 s).map fun r => r.1.length := by
  rw [tok_class_matchAt identFold_py s 0, List.drop_zero]; cases scanPrefixed 46 s <;> simp

theorem tok_class_eq_scan_ascii (s : Str) :
    (matchAt asciiEnv Gen.tok_class s 0).map (·.1) = (scanPrefixed 46 s).map fun r => r.1.length := by
  rw [tok_class_matchAt identFold_ascii s 0, List.drop_zero]; cases scanPrefixed 46 s <;> simp

#print axioms tok_id_matchAt
#print axioms tok_class_matchAt
#print axioms tok_id_scan
#print axioms tok_class_scan
#print axioms matchAt_ident
#print axioms tok_id_eq_scan
#print axioms tok_id_eq_scan_ascii
#print axioms tok_class_eq_scan
#print axioms tok_class_eq_scan_ascii

end Ident
end Refine
end SoupVerif
