/-
  Parser-loop lemmas for the end-to-end C09 theorem: what one iteration of `Parser.parseLoop` does
  with each token kind of the covered grammar, given what `nextToken` yields.
-/
import SoupVerif.Refine.CompileTag
namespace SoupVerif
namespace Refine
namespace Compile
open Rx RxBasic SoupVerif.Parser ParserProgress Escape Spelling

/-! ### `css_unescape` of an identifier token: Python does not raise, and the hand decoder applies -/

open EscapeLemmas SpellingLemmas in
theorem commentAt_of_head {t : Str} (h : t.head? ≠ some 47) : commentAt t = false := by
  match t with
  | [] => rfl
  | [_] => rfl
  | a :: b :: t =>
    have : a ≠ 47 := by simpa using h
    simp [commentAt, this]

open EscapeLemmas SpellingLemmas in
theorem raises_form (c : Nat) (f : EscForm) (t : Str) (h : formOk c f t.head? = true)
    (ht : t.head? ≠ some 47) :
    cssUnescapeRaisesAux 0 (renderForm c f ++ t) = cssUnescapeRaisesAux 0 t := by
  cases f with
  | lit =>
    have hc : identContChar c = true := h
    have h92 : c ≠ 92 := by rw [identContChar_iff] at hc; omega
    simp [renderForm, cssUnescapeRaisesAux, h92]
  | bs =>
    obtain ⟨hh, h10, h13, h12⟩ := formOk_bs c _ h
    simp [renderForm, cssUnescapeRaisesAux, hh, h10, h13, h12]
  | hex digits mask ws =>
    obtain ⟨hlen, h6, hterm⟩ := formOk_hex c digits mask ws _ h
    have hL := hexText_length c digits mask hlen
    have hne := hexText_ne_nil c digits mask hlen
    have hall := hexText_allHex c digits mask
    obtain ⟨hrun, hws⟩ := hex_term (hexText c digits mask) t ws hall (by omega) (by rw [hL]; exact hterm)
    simp only [renderForm, List.cons_append, List.append_assoc]
    cases hds : hexText c digits mask with
    | nil => exact absurd hds hne
    | cons d ds' =>
      rw [hds] at hrun hall
      have hd : isHex d = true := hall d (by simp)
      rw [List.cons_append] at hrun ⊢
      simp only [cssUnescapeRaisesAux, bne_self_eq_false, Bool.false_eq_true, if_false, hd, if_true]
      rw [hrun, ← List.cons_append, List.drop_left' rfl, hws]
      have hc : ((wsText ws).length == 0 && commentAt (wsText ws ++ t)) = false := by
        cases ws with
        | none => simp [wsText, commentAt_of_head ht]
        | some u => cases u <;> simp [wsText, WsUnit.text]
      rw [hc, Bool.false_or, ← List.append_assoc]
      exact cssUnescapeRaisesAux_skip _ t _ (by simp; omega)

open EscapeLemmas SpellingLemmas in
theorem forms_head_ne_slash (forms : List (Nat × EscForm)) (r : Str) (h : validForms forms r = true)
    (hr : r.head? ≠ some 47) : (renderIdentWith forms ++ r).head? ≠ some 47 := by
  cases forms with
  | nil => simpa [renderIdentWith] using hr
  | cons p rest =>
    obtain ⟨c, f⟩ := p
    rw [validForms_cons, Bool.and_eq_true] at h
    rw [renderIdentWith_cons, List.append_assoc]
    cases f with
    | lit =>
      have hc : identContChar c = true := h.1
      have : c ≠ 47 := by rw [identContChar_iff] at hc; omega
      simp [renderForm, this]
    | bs => simp [renderForm]
    | hex d m w => simp [renderForm]

open EscapeLemmas SpellingLemmas in
theorem raises_forms (forms : List (Nat × EscForm)) (r : Str) (h : validForms forms r = true)
    (hr : r.head? ≠ some 47) :
    cssUnescapeRaisesAux 0 (renderIdentWith forms ++ r) = cssUnescapeRaisesAux 0 r := by
  induction forms with
  | nil => simp [renderIdentWith]
  | cons p rest ih =>
    obtain ⟨c, f⟩ := p
    rw [validForms_cons, Bool.and_eq_true] at h
    rw [renderIdentWith_cons, List.append_assoc,
      raises_form c f _ h.1 (forms_head_ne_slash rest r h.2 hr), ih h.2]

/-- The parser's `css_unescape` (the engine on the regenerated `RE_CSS_ESC`, under Python's folding)
    decodes every admissible spelling of an identifier to the code points spelled. -/
theorem unescape_forms (forms : List (Nat × EscForm)) (hv : Valid forms)
    (hcp : ∀ p ∈ forms, rangeOk p.1 p.2 = true) :
    Parser.cssUnescape pyFoldEnv Gen.lexicon (renderIdentWith forms) = valueOf forms := by
  have hr : cssUnescapeRaises (renderIdentWith forms) = false := by
    have := raises_forms forms [] hv (by simp)
    simpa [cssUnescapeRaises, cssUnescapeRaisesAux] using this
  rw [Refine.cssUnescape_pyFold _ hr, C09.unescape_any_spelling_fine forms hv hcp]

section Loop
variable (env : CharEnv) (L : Lexicon) (B : Builtins) (pattern : Str) (fuel flags : Nat)
  (st : LS) (t : Token)

/-- `#id` / `.class`: the token text without its first character is unescaped and added. -/
theorem parseLoop_idclass (h : nextToken ⟨env, L, B, pattern⟩ st.pos = .ok (some t))
    (hk : t.name = "id" ∨ t.name = "class") :
    parseLoop env L B pattern (fuel + 1) flags st =
      parseLoop env L B pattern fuel flags
        { st with pos := t.stop,
                  sel := (if (slice pattern t.start t.stop).head? == some 46
                    then st.sel.addClass (Parser.cssUnescape env L ((slice pattern t.start t.stop).drop 1))
                    else st.sel.addId (Parser.cssUnescape env L ((slice pattern t.start t.stop).drop 1))),
                  hasSelector := true, index := t.stop } := by
  rw [parseLoop]
  simp only [h]
  rcases hk with hk | hk <;> simp [hk]

/-- A type selector: allowed only at the start of a compound; name and namespace prefix are
    unescaped. -/
theorem parseLoop_tag (h : nextToken ⟨env, L, B, pattern⟩ st.pos = .ok (some t))
    (hk : t.name = "tag") (hs : st.hasSelector = false) :
    parseLoop env L B pattern (fuel + 1) flags st =
      parseLoop env L B pattern fuel flags
        { st with pos := t.stop,
                  sel := st.sel.setTag
                    ⟨Parser.cssUnescape env L ((t.group ⟨env, L, B, pattern⟩ "tag_name").getD []),
                     match t.group ⟨env, L, B, pattern⟩ "tag_ns" with
                     | some n => if n.isEmpty then none
                                 else some (Parser.cssUnescape env L (n.take (n.length - 1)))
                     | none => none⟩,
                  hasSelector := true, index := t.stop } := by
  rw [parseLoop]
  simp only [h, hk, hs]
  cases Token.group ⟨env, L, B, pattern⟩ t "tag_ns" <;> simp

end Loop

/-! ### One `#ident` / `.ident` token, any admissible spelling -/

section Steps
variable (B : Builtins) (s : Str) (fuel flags : Nat) (st : LS)

theorem step_id {forms : List (Nat × EscForm)} {r : Str}
    (hd : s.drop st.pos = (35 :: renderIdentWith forms) ++ r)
    (hv : validForms forms r = true) (hh : headOk forms = true) (hr : ¬ continuesIdent r)
    (hcp : ∀ p ∈ forms, rangeOk p.1 p.2 = true) :
    parseLoop pyFoldEnv Gen.lexicon B s (fuel + 1) flags st =
      parseLoop pyFoldEnv Gen.lexicon B s fuel flags
        { st with pos := st.pos + (35 :: renderIdentWith forms).length,
                  sel := st.sel.addId (valueOf forms), hasSelector := true,
                  index := st.pos + (35 :: renderIdentWith forms).length } := by
  have hnt := nextToken_id B s (i := st.pos) (by simpa using hd) hv hh hr
  rw [parseLoop_idclass _ _ _ _ _ _ _ _ hnt (Or.inl rfl)]
  have hstop : (idTok st.pos (st.pos + 1 + (renderIdentWith forms).length)).stop =
      st.pos + (35 :: renderIdentWith forms).length := by
    show st.pos + 1 + _ = _; simp [Nat.add_assoc, Nat.add_comm]
  have hsl : slice s (idTok st.pos (st.pos + 1 + (renderIdentWith forms).length)).start
      (idTok st.pos (st.pos + 1 + (renderIdentWith forms).length)).stop = 35 :: renderIdentWith forms := by
    rw [hstop]; exact slice_of_drop_append hd
  rw [hsl, hstop]
  simp only [List.head?_cons, List.drop_succ_cons, List.drop_zero]
  rw [unescape_forms forms (SpellingLemmas.validForms_nil_of forms r hv) hcp]
  rfl

theorem step_class {forms : List (Nat × EscForm)} {r : Str}
    (hd : s.drop st.pos = (46 :: renderIdentWith forms) ++ r)
    (hv : validForms forms r = true) (hh : headOk forms = true) (hr : ¬ continuesIdent r)
    (hcp : ∀ p ∈ forms, rangeOk p.1 p.2 = true) :
    parseLoop pyFoldEnv Gen.lexicon B s (fuel + 1) flags st =
      parseLoop pyFoldEnv Gen.lexicon B s fuel flags
        { st with pos := st.pos + (46 :: renderIdentWith forms).length,
                  sel := st.sel.addClass (valueOf forms), hasSelector := true,
                  index := st.pos + (46 :: renderIdentWith forms).length } := by
  have hnt := nextToken_class B s (i := st.pos) (by simpa using hd) hv hh hr
  rw [parseLoop_idclass _ _ _ _ _ _ _ _ hnt (Or.inr rfl)]
  have hstop : (classTok st.pos (st.pos + 1 + (renderIdentWith forms).length)).stop =
      st.pos + (46 :: renderIdentWith forms).length := by
    show st.pos + 1 + _ = _; simp [Nat.add_assoc, Nat.add_comm]
  have hsl : slice s (classTok st.pos (st.pos + 1 + (renderIdentWith forms).length)).start
      (classTok st.pos (st.pos + 1 + (renderIdentWith forms).length)).stop = 46 :: renderIdentWith forms := by
    rw [hstop]; exact slice_of_drop_append hd
  rw [hsl, hstop]
  simp only [List.head?_cons, List.drop_succ_cons, List.drop_zero]
  rw [unescape_forms forms (SpellingLemmas.validForms_nil_of forms r hv) hcp]
  rfl

theorem step_tag_ident {forms : List (Nat × EscForm)} {r : Str}
    (hd : s.drop st.pos = renderIdentWith forms ++ r)
    (hv : validForms forms r = true) (hh : headOk forms = true) (hr : ¬ continuesIdent r)
    (hbar : r.head? ≠ some 124)
    (hcp : ∀ p ∈ forms, rangeOk p.1 p.2 = true) (hs : st.hasSelector = false) :
    parseLoop pyFoldEnv Gen.lexicon B s (fuel + 1) flags st =
      parseLoop pyFoldEnv Gen.lexicon B s fuel flags
        { st with pos := st.pos + (renderIdentWith forms).length,
                  sel := st.sel.setTag ⟨valueOf forms, none⟩, hasSelector := true,
                  index := st.pos + (renderIdentWith forms).length } := by
  have hnt := nextToken_tag_ident B s (i := st.pos) hd hv hh hr hbar
  rw [parseLoop_tag _ _ _ _ _ _ _ _ hnt rfl hs]
  have hg1 : (tagTok st.pos (st.pos + (renderIdentWith forms).length)).group (penv B s) "tag_ns" = none := by
    simp [Token.group, Parser.group, tagTok, Gen.tok_tag_groups, capSpan]
  have hg2 : (tagTok st.pos (st.pos + (renderIdentWith forms).length)).group (penv B s) "tag_name" =
      some (renderIdentWith forms) := by
    have := slice_of_drop_append hd
    simp [Token.group, Parser.group, tagTok, Gen.tok_tag_groups, capSpan, this]
  simp only [penv] at hg1 hg2
  rw [hg1, hg2]
  simp only [Option.getD_some]
  rw [unescape_forms forms (SpellingLemmas.validForms_nil_of forms r hv) hcp]
  rfl

theorem step_tag_star {r : Str}
    (hd : s.drop st.pos = [42] ++ r) (hbar : r.head? ≠ some 124) (hs : st.hasSelector = false) :
    parseLoop pyFoldEnv Gen.lexicon B s (fuel + 1) flags st =
      parseLoop pyFoldEnv Gen.lexicon B s fuel flags
        { st with pos := st.pos + 1,
                  sel := st.sel.setTag ⟨[42], none⟩, hasSelector := true,
                  index := st.pos + 1 } := by
  have hnt := nextToken_tag_star B s (i := st.pos) hd hbar
  rw [parseLoop_tag _ _ _ _ _ _ _ _ hnt rfl hs]
  have hg1 : (tagTok st.pos (st.pos + 1)).group (penv B s) "tag_ns" = none := by
    simp [Token.group, Parser.group, tagTok, Gen.tok_tag_groups, capSpan]
  have hg2 : (tagTok st.pos (st.pos + 1)).group (penv B s) "tag_name" = some [42] := by
    have := slice_of_drop_append hd
    simp only [List.length_cons, List.length_nil] at this
    simp [Token.group, Parser.group, tagTok, Gen.tok_tag_groups, capSpan, this]
  simp only [penv] at hg1 hg2
  rw [hg1, hg2]
  simp only [Option.getD_some]
  have : Parser.cssUnescape pyFoldEnv Gen.lexicon [42] = [42] := by decide
  rw [this]
  rfl

/-! ### The two ends of the pattern -/

/-- Only a gap remains: `selector_iter` stops. -/
theorem nextToken_end {i : Nat} (hg : isGap (s.drop i)) : nextToken (penv B s) i = .ok none := by
  unfold nextToken
  by_cases h1 : i + 1 > (penv B s).pattern.length
  · rw [if_pos h1]
  · rw [if_neg h1]
    have hi : i ≤ s.length := by have : ¬ (i + 1 > s.length) := h1; omega
    have h2 : (matchAt (penv B s).env (penv B s).L.reWsEnd (penv B s).pattern i).isSome = true := by
      show (matchAt pyFoldEnv Gen.cp_RE_WS_END s i).isSome = true
      rw [Wsc.ws_end_isSome pyFoldEnv s i hi]
      unfold isGap at hg
      rw [hg]; rfl
    rw [h2]; rfl

theorem parseLoop_end (hg : isGap (s.drop st.pos)) :
    parseLoop pyFoldEnv Gen.lexicon B s fuel flags st = .ok st := by
  cases fuel with
  | zero => rw [parseLoop]
  | succ fuel =>
    rw [parseLoop]
    have := nextToken_end B s hg
    simp only [penv] at this
    simp only [this]

/-- The token stream starts after the leading gap. -/
theorem startIndex_drop : s.drop (startIndex (penv B s)) = skipWSC s := by
  unfold startIndex
  show s.drop (match matchAt pyFoldEnv Gen.cp_RE_WS_BEGIN s 0 with | some (j, _) => j | none => 0) = _
  rw [Wsc.ws_begin_at pyFoldEnv s 0 (Nat.zero_le _)]
  simp only [if_true]
  have := Wsc.gapEnd_drop s 0 (Nat.zero_le _)
  rwa [List.drop_zero] at this

end Steps

end Compile
end Refine
end SoupVerif

#print axioms SoupVerif.Refine.Compile.unescape_forms
#print axioms SoupVerif.Refine.Compile.step_id
#print axioms SoupVerif.Refine.Compile.step_class
#print axioms SoupVerif.Refine.Compile.step_tag_ident
#print axioms SoupVerif.Refine.Compile.step_tag_star
#print axioms SoupVerif.Refine.Compile.parseLoop_end
#print axioms SoupVerif.Refine.Compile.startIndex_drop
