/-
  Helpers for `Properties/C11Parse.lean` (C11 from the selector TEXT): how the CSS reading of an attribute
  selector (`Css.satAttr`, `Css.valTest`, `Css.caseInsensitive`), of a type selector (`C12Parse.TagCond`) and
  of `#id` / `.class` (`Css.idOf`, `Css.hasClass`) reacts to a change of letter case in the selector.

  Nothing here mentions a regular expression or the parser: these are facts about the specification-side
  predicates and the matcher-side name lookup (`Properties/C11.lean`, `Properties/C12.lean`), in the shape in
  which `C10Parse.compound_simple_text` / `C12Parse.attr_text` deliver them.
-/
import SoupVerif.Properties.C10Parse
import SoupVerif.Properties.C11
namespace SoupVerif
namespace C11Parse
open Names
open Css (AttrTest AttrOp CaseFlag Simple satSimple satAttr valTest foldCase caseInsensitive idOf hasClass)
open C12 (NameEq)
open C12Parse (TagCond NsCond NameCond AttrHolds Passes designates)

/-! ## ASCII folding and the value tests -/

theorem isCssWs_lowerCp (x : Nat) : isCssWs (lowerCp x) = isCssWs x := by
  unfold lowerCp isCssWs
  split
  · rename_i h
    have h1 : (x + 32 == 32) = false := by simp; omega
    have h2 : (x + 32 == 9) = false := by simp
    have h3 : (x + 32 == 13) = false := by simp
    have h4 : (x + 32 == 10) = false := by simp
    have h5 : (x + 32 == 12) = false := by simp
    have g1 : (x == 32) = false := by simp; omega
    have g2 : (x == 9) = false := by simp; omega
    have g3 : (x == 13) = false := by simp; omega
    have g4 : (x == 10) = false := by simp; omega
    have g5 : (x == 12) = false := by simp; omega
    simp [h1, h2, h3, h4, h5, g1, g2, g3, g4, g5]
  · rfl

theorem lower_any_ws (v : Str) : (lower v).any isCssWs = v.any isCssWs := by
  simp only [lower, List.any_map]
  congr 1
  funext x
  exact isCssWs_lowerCp x

theorem lower_isEmpty (v : Str) : (lower v).isEmpty = v.isEmpty := by
  cases v <;> rfl

/-- **Case-insensitive comparison IS the case-sensitive comparison of the ASCII-folded strings**, for every
    operator. -/
theorem valTest_fold (op : AttrOp) (v s : Str) :
    valTest op v true s = valTest op (lower v) false (lower s) := by
  cases op <;> simp only [valTest, foldCase, if_true, Bool.false_eq_true, if_false, lower_isEmpty, lower_any_ws]

/-- `valTest` with an explicit case rule, in terms of `foldCase`. -/
theorem valTest_foldCase (op : AttrOp) (v s : Str) (ic : Bool) :
    valTest op v ic s = valTest op (foldCase ic v) false (foldCase ic s) := by
  cases ic
  · rfl
  · exact valTest_fold op v s

/-- Insensitive comparison does not see the letter case of the selector's value … -/
theorem valTest_ic_value (op : AttrOp) (v v' s : Str) (h : lower v = lower v') :
    valTest op v true s = valTest op v' true s := by
  rw [valTest_fold, valTest_fold, h]

/-- … nor that of the document's. -/
theorem valTest_ic_subject (op : AttrOp) (v s s' : Str) (h : lower s = lower s') :
    valTest op v true s = valTest op v true s' := by
  rw [valTest_fold, valTest_fold, h]

theorem valTest_eq_sensitive (v s : Str) : valTest .eq v false s = true ↔ s = v := by
  simp [valTest, foldCase]

theorem valTest_eq_insensitive (v s : Str) : valTest .eq v true s = true ↔ lower s = lower v := by
  simp [valTest, foldCase]

theorem valTest_ne (v s : Str) (ic : Bool) : valTest .ne v ic s = valTest .eq v ic s := rfl

/-! ## Which comparisons are case-insensitive -/

def typeName : Str := [116, 121, 112, 101]

theorem typeName_eq : typeName = "type".toStr := by decide

theorem ci_i (c : Ctx) (a : Str) : caseInsensitive c a .i = true := rfl
theorem ci_s (c : Ctx) (a : Str) : caseInsensitive c a .s = false := rfl

theorem ci_none (c : Ctx) (a : Str) :
    caseInsensitive c a .none = true ↔ lower a = typeName ∧ c.isXml = false := by
  simp [caseInsensitive, typeName]

theorem ci_html_type (c : Ctx) (a : Str) (hx : c.isXml = false) (ha : lower a = typeName) :
    caseInsensitive c a .none = true := (ci_none c a).2 ⟨ha, hx⟩

theorem ci_html_plain (c : Ctx) (a : Str) (ha : lower a ≠ typeName) : caseInsensitive c a .none = false := by
  cases h : caseInsensitive c a .none
  · rfl
  · exact absurd ((ci_none c a).1 h).1 ha

theorem ci_xml (c : Ctx) (a : Str) (hx : c.isXml = true) : caseInsensitive c a .none = false := by
  cases h : caseInsensitive c a .none
  · rfl
  · have := ((ci_none c a).1 h).2; rw [hx] at this; cases this

/-- The rule depends on the attribute name only through its ASCII-folded form. -/
theorem ci_congr (c : Ctx) (a a' : Str) (f : CaseFlag) (h : lower a = lower a') :
    caseInsensitive c a f = caseInsensitive c a' f := by
  cases f <;> simp [caseInsensitive, h]

/-! ## The case rule for names -/

theorem NameEq_html (c : Ctx) (hx : c.isXml = false) (a b : Str) : NameEq c a b ↔ lower a = lower b := by
  simp [NameEq, hx]

theorem NameEq_xml (c : Ctx) (hx : c.isXml = true) (a b : Str) : NameEq c a b ↔ a = b := by
  simp [NameEq, hx]

theorem nameEq_refl (c : Ctx) (a : Str) : NameEq c a a := by
  unfold NameEq; split <;> rfl

theorem nameEq_symm {c : Ctx} {a b : Str} (h : NameEq c a b) : NameEq c b a := by
  unfold NameEq at *; split <;> simp_all

theorem nameEq_trans {c : Ctx} {a b d : Str} (h : NameEq c a b) (h' : NameEq c b d) : NameEq c a d := by
  unfold NameEq at *; split <;> simp_all

theorem nameEq_lower {c : Ctx} {a b : Str} (h : NameEq c a b) : lower a = lower b := by
  unfold NameEq at h; split at h
  · rw [h]
  · exact h

theorem nameEq_star {c : Ctx} {a b : Str} (h : NameEq c a b) : a = "*".toStr ↔ b = "*".toStr := by
  have h' := nameEq_lower h
  rw [star_toStr]
  constructor
  · intro ha; rw [ha] at h'; exact (lower_eq_star b).1 h'.symm
  · intro hb; rw [hb] at h'; exact (lower_eq_star a).1 h'

/-- Two selector-side names that are equal under the document's name rule select the same attributes. -/
theorem values_congr (c : Ctx) (e : Elem) (a a' p : Str) (h : NameEq c a a') :
    matchAttributeValues c e a p = matchAttributeValues c e a' p := by
  cases hx : c.isXml
  · exact C11.html_attr_values_fold c e a a' p hx ((NameEq_html c hx a a').1 h)
  · rw [(NameEq_xml c hx a a').1 h]

/-! ## Case variants of simple selectors -/

/-- Two value tests that differ at most in the letter case of the value, where the comparison is
    case-insensitive (`a`: the attribute name the test belongs to). -/
def TestVariant (c : Ctx) (a : Str) : Option AttrTest → Option AttrTest → Prop
  | none, none => True
  | some t, some t' => t.op = t'.op ∧ t.flag = t'.flag ∧
      (if caseInsensitive c a t.flag = true then lower t.value = lower t'.value else t.value = t'.value)
  | _, _ => False

/-- Two simple selectors (`#id`, `.class`, `[p|a …]`) that differ at most in letter case WHERE THE DOCUMENT KIND
    IGNORES IT: the attribute name under the document's name rule (`NameEq`: ASCII-insensitive in a non-XML
    document, exact in an XML document), the attribute value where the comparison is case-insensitive.
    Ids and classes: not at all. -/
def SimpleVariant (c : Ctx) : Simple → Simple → Prop
  | .id v, .id v' => v = v'
  | .cls v, .cls v' => v = v'
  | .attr p a t, .attr p' a' t' => p = p' ∧ NameEq c a a' ∧ TestVariant c a t t'
  | _, _ => False

/-- Two type selectors: same prefix value, names equal under the document's name rule. -/
def TagVariant (c : Ctx) : Option SelTag → Option SelTag → Prop
  | none, none => True
  | some t, some t' => t.pfx = t'.pfx ∧ NameEq c t.name t'.name
  | _, _ => False

theorem satAttr_variant (c : Ctx) (e : Elem) (p a a' : Str) (t t' : Option AttrTest)
    (ha : NameEq c a a') (ht : TestVariant c a t t') :
    satAttr c e p a t = satAttr c e p a' t' := by
  have hci : ∀ f, caseInsensitive c a f = caseInsensitive c a' f := fun f => ci_congr c a a' f (nameEq_lower ha)
  unfold satAttr
  rw [values_congr c e a a' p ha]
  cases t with
  | none =>
    cases t' with
    | none => rfl
    | some _ => exact absurd ht (by simp [TestVariant])
  | some t =>
    cases t' with
    | none => exact absurd ht (by simp [TestVariant])
    | some t' =>
      obtain ⟨op, v, f⟩ := t
      obtain ⟨op', v', f'⟩ := t'
      obtain ⟨hop, hfl, hv⟩ := ht
      simp only at hop hfl hv
      subst hop; subst hfl
      have key : ∀ s, valTest op v (caseInsensitive c a f) s = valTest op v' (caseInsensitive c a' f) s := by
        intro s
        rw [← hci]
        cases hc : caseInsensitive c a f
        · rw [hc] at hv; simp only [Bool.false_eq_true, if_false] at hv; rw [hv]
        · rw [hc] at hv; simp only [if_true] at hv; exact valTest_ic_value _ _ _ _ hv
      simp only [key]

theorem satSimple_variant (c : Ctx) (l : Loc) (e : Elem) (s s' : Simple) (h : SimpleVariant c s s') :
    satSimple c l e s = satSimple c l e s' := by
  cases s <;> cases s' <;> simp only [SimpleVariant] at h
  · subst h; rfl
  · subst h; rfl
  · obtain ⟨rfl, ha, ht⟩ := h
    simp only [satSimple]
    exact satAttr_variant c e _ _ _ _ _ ha ht

theorem satSimples_variant (c : Ctx) (l : Loc) (e : Elem) (S S' : List Simple)
    (h : List.Forall₂ (SimpleVariant c) S S') :
    (∀ s ∈ S, satSimple c l e s = true) ↔ (∀ s ∈ S', satSimple c l e s = true) := by
  induction h with
  | nil => simp
  | cons hab _ ih =>
    simp only [List.forall_mem_cons, ih, satSimple_variant c l e _ _ hab]

theorem nameCond_variant (c : Ctx) (e : Elem) (n n' : Str) (h : NameEq c n n') :
    NameCond c e n ↔ NameCond c e n' := by
  unfold NameCond
  rw [nameEq_star h]
  constructor
  · rintro (h1 | h1)
    · exact Or.inl h1
    · exact Or.inr (nameEq_trans (nameEq_symm h) h1)
  · rintro (h1 | h1)
    · exact Or.inl h1
    · exact Or.inr (nameEq_trans h h1)

theorem tagCond_variant (c : Ctx) (e : Elem) (t t' : Option SelTag) (h : TagVariant c t t') :
    TagCond c e t ↔ TagCond c e t' := by
  cases t with
  | none =>
    cases t' with
    | none => rfl
    | some _ => exact absurd h (by simp [TagVariant])
  | some t =>
    cases t' with
    | none => exact absurd h (by simp [TagVariant])
    | some t' =>
      obtain ⟨hp, hn⟩ := h
      simp only [TagCond, hp, nameCond_variant c e _ _ hn]

/-- A case-insensitive comparison occurs among the simple selectors (then the matcher's character
    environment has to fold ASCII, `c.env.fold = lowerCp`). -/
def FoldNeeded (c : Ctx) (S : List Simple) : Prop :=
  ∃ ns name t, Simple.attr ns name (some t) ∈ S ∧ caseInsensitive c name t.flag = true

theorem foldNeeded_variant (c : Ctx) (S S' : List Simple) (h : List.Forall₂ (SimpleVariant c) S S') :
    FoldNeeded c S' → FoldNeeded c S := by
  induction h with
  | nil => rintro ⟨_, _, _, hm, _⟩; simp at hm
  | @cons s s' S S' hab _ ih =>
    rintro ⟨ns, name, t, hm, hci⟩
    rcases List.mem_cons.1 hm with rfl | hm
    · cases s <;> simp only [SimpleVariant] at hab
      rename_i p a t0
      obtain ⟨rfl, ha, ht⟩ := hab
      cases t0 with
      | none => exact absurd ht (by simp [TestVariant])
      | some t0 =>
        obtain ⟨_, hfl, _⟩ := ht
        refine ⟨_, a, t0, List.mem_cons_self, ?_⟩
        rw [hfl, ci_congr c a name _ (nameEq_lower ha)]; exact hci
    · obtain ⟨ns', name', t', hm', hci'⟩ := ih ⟨ns, name, t, hm, hci⟩
      exact ⟨ns', name', t', List.mem_cons_of_mem _ hm', hci'⟩

/-! ## `#id`, `.class`: the lookups -/

/-- The string an attribute value is compared as (a multi-valued attribute: its items joined by one space). -/
def attrStr (x : Attr) : Str := nvalJoin (normalizeValue x.val)

def idName : Str := [105, 100]
def className : Str := [99, 108, 97, 115, 115]

/-- The `id` attribute of the element as the matcher finds it: the FIRST attribute whose key is `id` —
    up to ASCII case in a non-XML document, exactly in an XML document. -/
def keyIs (c : Ctx) (name : Str) (x : Attr) : Bool := if c.isXml then x.key == name else lower x.key == name

theorem attrByName_eq (c : Ctx) (e : Elem) (name : Str) :
    c.attrByName e name = (e.attrs.find? (keyIs c name)).map (fun x => normalizeValue x.val) := by
  cases hx : c.isXml
  · have hk : keyIs c name = fun x => lower x.key == name := by funext x; simp [keyIs, hx]
    rw [C11.attrByName_html c e name hx, hk]
  · have hk : keyIs c name = fun x => x.key == name := by funext x; simp [keyIs, hx]
    rw [C11.attrByName_xml c e name hx, hk]

/-- **`#v`**: the first attribute named `id` (document's name rule) carries the single string `v` —
    compared EXACTLY in every document kind. -/
theorem idOf_iff (c : Ctx) (e : Elem) (v : Str) :
    idOf c e = some v ↔ ∃ x, e.attrs.find? (keyIs c idName) = some x ∧ normalizeValue x.val = .str v := by
  unfold idOf
  rw [show ([105, 100] : Str) = idName from rfl, attrByName_eq]
  cases h : e.attrs.find? (keyIs c idName) with
  | none => simp
  | some x =>
    simp only [Option.map_some, Option.some.injEq, exists_eq_left']
    cases hv : normalizeValue x.val <;> simp

/-- `v` is one of the classes the attribute `x` carries: one of the white-space separated words of its string
    (nothing if `v` is empty or contains white space), or one of its items when the tree builder has split it.
    Compared exactly. -/
def CarriesClass (v : Str) (x : Attr) : Prop :=
  match normalizeValue x.val with
  | .str s => v ≠ [] ∧ v.any isCssWs = false ∧ Css.hasWord v s = true
  | .list ws => v ∈ ws

/-- **`.v`**: the first attribute named `class` (document's name rule) has `v` among its white-space separated
    words (or among its items when the tree builder has split it) — compared EXACTLY in every document kind. -/
theorem hasClass_iff (c : Ctx) (e : Elem) (v : Str) :
    hasClass c e v = true ↔ ∃ x, e.attrs.find? (keyIs c className) = some x ∧ CarriesClass v x := by
  unfold hasClass CarriesClass
  rw [show ([99, 108, 97, 115, 115] : Str) = className from rfl, attrByName_eq]
  cases h : e.attrs.find? (keyIs c className) with
  | none => simp
  | some x =>
    simp only [Option.map_some, Option.some.injEq, exists_eq_left']
    cases hv : normalizeValue x.val with
    | str s => cases v <;> simp
    | list l => simp

end C11Parse
end SoupVerif
