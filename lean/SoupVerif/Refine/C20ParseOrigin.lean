/-
  WHICH pattern an error of the parser model reports.

  `Err.pattern` is the `self.pattern` of the `CSSParser` instance that raised.  `C06.err_offset_in_range`
  bounds the offset by the length of THAT text; this file says which text it is: the (NUL-replaced) pattern
  given to `compile`, or the (NUL-replaced) definition of one of the custom selectors given to `compile` —
  the nested `CSSParser(selector, custom=self.custom, …)` of `parse_pseudo_class_custom` reports against
  the definition it parses.  Proved by the induction on the fuel of `Lemmas/ParserProgress/Fuel.lean`
  (`stepOf_spec` classifies one iteration), with the invariant "the source texts still in the custom map
  are among those of the map given".
-/
import SoupVerif.Properties.C06
namespace SoupVerif
namespace Refine
namespace C20Parse
open Rx SoupVerif.Parser ParserProgress

/-! ### The uncompiled definitions in a custom map -/

/-- The (NUL-replaced) source texts of the not yet compiled entries. -/
def srcs : Custom → List Str
  | [] => []
  | e :: c => (match e.2 with | .src t => [nulFix t] | .compiled _ => []) ++ srcs c

theorem srcs_append (a b : Custom) : srcs (a ++ b) = srcs a ++ srcs b := by
  induction a with
  | nil => rfl
  | cons e a ih => simp only [List.cons_append, srcs, ih, List.append_assoc]

theorem srcs_erase_sub (c : Custom) (k : Str) : ∀ x ∈ srcs (c.erase k), x ∈ srcs c := by
  induction c with
  | nil => intro x hx; exact hx
  | cons e c ih =>
    intro x hx
    simp only [Custom.erase, List.filter_cons] at ih hx
    split at hx
    · simp only [srcs, List.mem_append] at hx ⊢
      rcases hx with hx | hx
      · exact Or.inl hx
      · exact Or.inr (ih x hx)
    · simp only [srcs, List.mem_append]
      exact Or.inr (ih x hx)

theorem srcs_get_src (c : Custom) (k t : Str) (h : c.get? k = some (.src t)) : nulFix t ∈ srcs c := by
  induction c with
  | nil => simp [Custom.get?] at h
  | cons e c ih =>
    simp only [Custom.get?, List.find?_cons] at h
    by_cases hk : (e.1 == k) = true
    · simp only [hk, Option.map_some, Option.some.injEq] at h
      simp [srcs, h]
    · have hk' : (e.1 == k) = false := by simpa using hk
      simp only [hk'] at h
      simp only [srcs, List.mem_append]
      exact Or.inr (ih (by simpa [Custom.get?] using h))

theorem srcs_map_repl_compiled (c : Custom) (k : Str) (l : SelList) :
    ∀ x ∈ srcs (c.map (repl k (.compiled l))), x ∈ srcs c := by
  induction c with
  | nil => intro x hx; exact hx
  | cons e c ih =>
    intro x hx
    simp only [List.map_cons, srcs, List.mem_append] at hx ⊢
    rcases hx with hx | hx
    · by_cases hk : (e.1 == k) = true
      · simp [repl, hk] at hx
      · have hk' : (e.1 == k) = false := by simpa using hk
        simp only [repl, hk', Bool.false_eq_true, if_false] at hx
        exact Or.inl hx
    · exact Or.inr (ih x hx)

theorem srcs_set_compiled_sub (c : Custom) (k : Str) (l : SelList) :
    ∀ x ∈ srcs (c.set k (.compiled l)), x ∈ srcs c := by
  intro x hx
  rw [set_eq] at hx
  split at hx
  · exact srcs_map_repl_compiled c k l x hx
  · rw [srcs_append] at hx
    simpa [srcs] using hx

theorem srcs_map_repl_src (c : Custom) (k v : Str) :
    ∀ x ∈ srcs (c.map (repl k (.src v))), x = nulFix v ∨ x ∈ srcs c := by
  induction c with
  | nil => intro x hx; simp [srcs] at hx
  | cons e c ih =>
    intro x hx
    simp only [List.map_cons, srcs, List.mem_append] at hx ⊢
    rcases hx with hx | hx
    · by_cases hk : (e.1 == k) = true
      · left; simpa [repl, hk] using hx
      · have hk' : (e.1 == k) = false := by simpa using hk
        simp only [repl, hk', Bool.false_eq_true, if_false] at hx
        exact Or.inr (Or.inl hx)
    · rcases ih x hx with h | h
      · exact Or.inl h
      · exact Or.inr (Or.inr h)

theorem srcs_set_src (c : Custom) (k v : Str) :
    ∀ x ∈ srcs (c.set k (.src v)), x = nulFix v ∨ x ∈ srcs c := by
  intro x hx
  rw [set_eq] at hx
  split at hx
  · exact srcs_map_repl_src c k v x hx
  · rw [srcs_append] at hx
    simp only [srcs, List.append_nil, List.mem_append, List.mem_singleton] at hx
    rcases hx with hx | hx
    · exact Or.inr hx
    · exact Or.inl hx

/-! ### The invariant -/

/-- The error names the pattern being parsed or a definition still in the map. -/
def From (pattern : Str) (c : Custom) (e : Err) : Prop := e.pattern = pattern ∨ e.pattern ∈ srcs c

def SelPostO (pattern : Str) (c : Custom) : M SelRes → Prop
  | .error e => From pattern c e
  | .ok (_, _, c') => ∀ x ∈ srcs c', x ∈ srcs c

def LoopPostO (pattern : Str) (s : LS) : M LS → Prop
  | .error e => From pattern s.custom e
  | .ok s' => s'.index ≤ pattern.length ∧ ∀ x ∈ srcs s'.custom, x ∈ srcs s.custom

theorem LoopPostO.weaken {pattern : Str} {s s' : LS} {r : M LS} (h : LoopPostO pattern s' r)
    (hc : ∀ x ∈ srcs s'.custom, x ∈ srcs s.custom) : LoopPostO pattern s r := by
  rcases r with e | s''
  · rcases h with h | h
    · exact Or.inl h
    · exact Or.inr (hc _ h)
  · exact ⟨h.1, fun x hx => hc x (h.2 x hx)⟩

section
variable (env : CharEnv) (L : Lexicon) (B : Builtins)

def SelInvO (f : Nat) : Prop :=
  ∀ (pattern : Str) (pos idx fl : Nat) (c : Custom), idx ≤ pattern.length →
    SelPostO pattern c (parseSelectors env L B pattern f pos idx fl c)

def LoopInvO (f : Nat) : Prop :=
  ∀ (pattern : Str) (flags : Nat) (s : LS), s.index ≤ pattern.length →
    LoopPostO pattern s (parseLoop env L B pattern f flags s)

theorem invO_zero : SelInvO env L B 0 ∧ LoopInvO env L B 0 := by
  constructor
  · intro pattern pos idx fl c _
    exact Or.inl rfl
  · intro pattern flags s hi
    exact ⟨hi, fun x hx => hx⟩

theorem selInvO_succ {f : Nat} (hl : LoopInvO env L B f) : SelInvO env L B (f + 1) := by
  intro pattern pos idx fl c hi
  have h1 := hl pattern fl (initLS pos idx fl c) hi
  rw [parseSelectors_succ]
  generalize parseLoop env L B pattern f fl (initLS pos idx fl c) = r at h1
  rcases r with e | s'
  · exact h1
  · obtain ⟨h4, h5⟩ := h1
    show SelPostO pattern c (finishSel env L B pattern fl s')
    generalize hr : finishSel env L B pattern fl s' = r
    rcases r with e | ⟨l, p', c'⟩
    · exact Or.inl (finishSel_error h4 hr).1
    · obtain ⟨rfl, rfl⟩ := finishSel_ok hr
      exact h5

theorem loopInvO_succ (hL : LexOK L) {f : Nat} (hs : SelInvO env L B f) (hl : LoopInvO env L B f) :
    LoopInvO env L B (f + 1) := by
  intro pattern flags s hi
  rw [parseLoop_succ env L B pattern f]
  have hspec := stepOf_spec (env := env) (B := B) (flags := flags) hL hi
  generalize stepOf env L B pattern flags s = st at hspec ⊢
  rcases hspec with ⟨stop, hlt, hle, hok⟩ | rfl | ⟨e, rfl, he⟩
  · simp only [] at hle
    cases st with
    | done r =>
      cases r with
      | error e => exact Or.inl hok.1
      | ok s' =>
        obtain ⟨h1, h2, h3⟩ := hok
        exact ⟨by omega, by rw [h3]; exact fun x hx => hx⟩
    | cont s' =>
      obtain ⟨h1, h2, h3⟩ := hok
      have hI := hl pattern flags s' (by omega)
      exact hI.weaken (by rw [h3]; exact fun x hx => hx)
    | nest pat pos idx fl c k =>
      simp only [runStep]
      rcases hok with ⟨e1, e2, e3, e4, hk⟩ | ⟨pseudo, text, hget, e1, e2, e3, e4, hk⟩
      · simp only [] at e1
        rw [e1, e2, e3, e4]
        have hS := hs pattern stop stop fl s.custom hle
        generalize parseSelectors env L B pattern f stop stop fl s.custom = r at hS
        rcases r with e | ⟨l, p', c'⟩
        · exact hS
        · obtain ⟨k1, k2, k3⟩ := hk (l, p', c')
          simp only [] at k3
          have hI := hl pattern flags (k (l, p', c')) (by omega)
          exact hI.weaken (by rw [k3]; exact hS)
      · simp only [] at e1 e3
        rw [e3, e4, e2]
        subst e1
        have hS := hs (nulFix text) (startIndex ⟨env, L, B, nulFix text⟩) 0 fl (s.custom.erase pseudo)
          (Nat.zero_le _)
        generalize parseSelectors env L B (nulFix text) f _ 0 fl (s.custom.erase pseudo) = r at hS
        rcases r with e | ⟨l, p', c'⟩
        · right
          rcases hS with h | h
          · rw [h]; exact srcs_get_src s.custom pseudo text hget
          · exact srcs_erase_sub s.custom pseudo _ h
        · obtain ⟨k1, k2, k3⟩ := hk (l, p', c')
          simp only [] at k3
          have hI := hl pattern flags (k (l, p', c')) (by omega)
          refine hI.weaken ?_
          rw [k3]
          intro x hx
          exact srcs_erase_sub s.custom pseudo x (hS x (srcs_set_compiled_sub c' pseudo l x hx))
  · exact ⟨hi, fun x hx => hx⟩
  · exact Or.inl he.1

theorem invO_all (hL : LexOK L) : ∀ f, SelInvO env L B f ∧ LoopInvO env L B f
  | 0 => invO_zero env L B
  | f + 1 =>
    have ih := invO_all hL f
    ⟨selInvO_succ env L B ih.2, loopInvO_succ env L B hL ih.1 ih.2⟩

end

/-! ### `process_custom` -/

theorem foldlM_customStep_srcs (env : CharEnv) (L : Lexicon) :
    ∀ (custom : List (Str × Str)) (acc c : Custom), custom.foldlM (customStep env L) acc = .ok c →
      ∀ x ∈ srcs c, x ∈ srcs acc ∨ ∃ kv ∈ custom, x = nulFix kv.2
  | [], acc, c, h => by
    simp only [List.foldlM_nil] at h
    cases h
    exact fun x hx => Or.inl hx
  | kv :: rest, acc, c, h => by
    rw [List.foldlM_cons] at h
    generalize hstep : customStep env L acc kv = r at h
    rcases r with e | acc'
    · cases h
    · have ih := foldlM_customStep_srcs env L rest acc' c h
      intro x hx
      have hacc' : ∀ y ∈ srcs acc', y = nulFix kv.2 ∨ y ∈ srcs acc := by
        unfold customStep at hstep
        simp only [] at hstep
        split at hstep
        · cases hstep
        · split at hstep
          · cases hstep
          · cases hstep
            exact srcs_set_src acc _ kv.2
      rcases ih x hx with h1 | ⟨kv', hm, rfl⟩
      · rcases hacc' x h1 with h2 | h2
        · exact Or.inr ⟨kv, List.mem_cons_self .., h2⟩
        · exact Or.inl h2
      · exact Or.inr ⟨kv', List.mem_cons_of_mem _ hm, rfl⟩

theorem processCustom_srcs {env : CharEnv} {L : Lexicon} {custom : List (Str × Str)} {c : Custom}
    (h : processCustom env L custom = .ok c) : ∀ x ∈ srcs c, ∃ kv ∈ custom, x = nulFix kv.2 := by
  intro x hx
  rw [processCustom_eq] at h
  rcases foldlM_customStep_srcs env L custom [] c h x hx with h1 | h1
  · simp [srcs] at h1
  · exact h1

/-! ### `compile` -/

/-- **Which text an error of `compile` is reported against.**  Either it is one of the two
    `process_custom` errors (raised without a pattern: empty pattern, offset 0 in the model), or it is a
    parser error and its pattern is the NUL-replaced pattern given to `compile` or the NUL-replaced
    definition of one of the custom selectors given to `compile`. -/
theorem compile_error_origin (env : CharEnv) (B : Builtins) (pattern : Str) (custom : List (Str × Str))
    (flags : Nat) {e : Err} (h : compile env Gen.lexicon B pattern custom flags = .error e) :
    ((e.kind = .badCustomName ∨ e.kind = .customCollision) ∧ e.pattern = [] ∧ e.offset = 0) ∨
    ((e.kind ≠ .badCustomName ∧ e.kind ≠ .customCollision) ∧
      (e.pattern = nulFix pattern ∨ ∃ kv ∈ custom, e.pattern = nulFix kv.2)) := by
  rcases C06.compile_error_cases env B pattern custom flags h with hc | ⟨c, hc, hp⟩
  · exact Or.inl (processCustom_error hc)
  · right
    have hs := startIndex_le ⟨env, Gen.lexicon, B, nulFix pattern⟩
    refine ⟨(C06.parseSelectors_no_pybug env B flags hs (Nat.zero_le _)
      (C06.allotted_ge_need env Gen.lexicon B pattern custom hc) hp).2, ?_⟩
    have := (invO_all env Gen.lexicon B C06.lexicon_ok (C06.allotted pattern custom)).1
      (nulFix pattern) (startIndex ⟨env, Gen.lexicon, B, nulFix pattern⟩) 0 flags c (Nat.zero_le _)
    rw [hp] at this
    rcases this with h1 | h1
    · exact Or.inl h1
    · exact Or.inr (processCustom_srcs hc _ h1)

end C20Parse
end Refine
end SoupVerif

#print axioms SoupVerif.Refine.C20Parse.invO_all
#print axioms SoupVerif.Refine.C20Parse.compile_error_origin
