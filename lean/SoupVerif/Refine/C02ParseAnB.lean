/-
  C02 from the selector TEXT, stages 1 and 2: the CSS value of an An+B spelling, and that
  `parse_pseudo_nth` computes it.

  ## The micro-syntax (CSS Syntax Module Level 3, §6 "The An+B microsyntax")

      <an+b> = odd | even | <integer>
             | <n-dimension> | '+'?† n | -n
             | <ndashdigit-dimension> | '+'?† <ndashdigit-ident> | <dashndashdigit-ident>
             | <n-dimension> <signed-integer> | '+'?† n <signed-integer> | -n <signed-integer>
             | <ndash-dimension> <signless-integer> | '+'?† n- <signless-integer> | -n- <signless-integer>
             | <n-dimension> ['+' | '-'] <signless-integer> | '+'?† n ['+' | '-'] <signless-integer>
             | -n ['+' | '-'] <signless-integer>

  i.e., character-wise:  `even` | `odd` | `[+-]? DIGITS` | `[+-]? DIGITS? n ( ws* [+-] ws* DIGITS )?`
  with `n`, `even`, `odd` ASCII case-insensitive, no white space between the leading sign, the digits and
  `n`, and white space (and, between tokens, comments) allowed on both sides of the second sign.
  Value: `even` ↦ (2, 0); `odd` ↦ (2, 1); `<integer>` ↦ (0, integer); otherwise `A` is the signed integer
  in front of `n` (`n`, `+n` ↦ 1; `-n` ↦ -1), `B` the signed integer after it, 0 when absent.

  ## What soupsieve's `NTH` token / `RE_NTH` accept (`Refine/CompileNthRx.lean`: `SAnB`, `SAnB.ok`, `anb_head`)

      (?:[-+])?(?:[0-9]+n?|n)(?:(?<=n)WSC*(?:[-+])WSC*(?:[0-9]+))?|even|odd          (re.I)

  = exactly the character-wise grammar above, `WSC` being CSS white space or a complete comment.
  Accepted (checked against the real library as well): `even`, `ODD`, `5`, `+5`, `-5`, `007`, `n`, `N`,
  `+n`, `-n`, `2n`, `-0n+0`, `n+3`, `n+ 3`, `n +3`, `n + 3`, `-n- 1`, `n/**/+/**/3`, `+007n-08`.
  Rejected, as by CSS: `- n`, `+ n`, `3 n`, `2 n`, `+ 5`, `1 + 2`, `2n+-1`, `2n + + 1`, `2n- -1`, `2n+`,
  `n2`, `-even`, `1.0`, non-ASCII digits or signs.
  Rejected although CSS accepts them: identifiers written with escapes (`e\76 en`, `\6e`) — soupsieve does
  not unescape inside the An+B argument.  Nothing is accepted that CSS rejects.
  (Python's `int()` refuses more than 4300 digits and `parse_pseudo_nth` then raises; the model's `parseInt`
  has no such limit — outside the quantifiers here as everywhere in the parser model.)

  ## Contents

    * `decVal`, `sgn`, `anbValue : SAnB → Int × Int` — the SPEC: the CSS value `(A, B)` of a spelled An+B,
      written from the table above, independently of `parseAnB` / `anbCore` (positional value of the digit
      strings; no `int()`, no string surgery);  `hasN` — whether the `An` term is present;
    * `parseAnB_canon_eq`, `parseAnB_text_eq` — for EVERY accepted spelling `x` (`x.ok`): the triple
      `(a, var, b)` `parse_pseudo_nth` computes (from the canonical text `x.canon` that `denote` uses, and
      from the lower-cased token text `lower x.render` the parser reads) is `(A, True, B)` if the `An` term
      is present and `(B, False, 0)` otherwise;
    * `Designates`, `parse_anb_value`, `parse_anb_value_text` — read the way `match_nth` reads the record
      (`idx = a*count + b if var else a`), it designates exactly the positions `{A·n + B | n ≥ 0}`.

  No disagreement between `parseAnB` and the CSS value was found.
-/
import SoupVerif.Refine.CompileAnB
namespace SoupVerif
namespace Refine
namespace C02Parse
open Rx RxBasic SoupVerif.Parser Escape Spelling Refine.Compile

/-- Positional value of a string of ASCII digits (most significant first). -/
def decVal : Str → Nat
  | [] => 0
  | d :: ds => (d - 48) * 10 ^ ds.length + decVal ds

/-- The sign a `[-+]?` slot stands for. -/
def sgn (s : Option Nat) : Int := if s = some 45 then -1 else 1

/-- **The CSS value `(A, B)` of a spelled An+B** (CSS Syntax §6.2): `even` ↦ (2, 0); `odd` ↦ (2, 1);
    `[+-]? DIGITS` ↦ (0, ±DIGITS); `[+-]? DIGITS? n` ↦ (±DIGITS or ±1, 0);
    `… n gap [+-] gap DIGITS` ↦ (A, ±DIGITS).  Gaps and letter case do not matter. -/
def anbValue : SAnB → Int × Int
  | .even _ => (2, 0)
  | .odd _ => (2, 1)
  | .lin sg D none _ => (0, sgn sg * (decVal D : Int))
  | .lin sg D (some _) T =>
    (sgn sg * (if D = [] then 1 else (decVal D : Int)),
     match T with
     | none => 0
     | some (_, s2, _, D2) => sgn (some s2) * (decVal D2 : Int))

/-- Is the `An` term present (`even`, `odd` stand for `2n`, `2n+1`). -/
def hasN : SAnB → Bool
  | .even _ => true
  | .odd _ => true
  | .lin _ _ n _ => n.isSome

theorem foldl_dec (D : Str) (acc : Nat) :
    D.foldl (fun acc c => acc * 10 + (c - 48)) acc = acc * 10 ^ D.length + decVal D := by
  induction D generalizing acc with
  | nil => simp [decVal]
  | cons d ds ih =>
    rw [List.foldl_cons, ih, decVal, List.length_cons, Nat.pow_succ]
    rw [Nat.add_mul, Nat.mul_assoc, Nat.mul_comm 10, Nat.add_assoc]

theorem parseInt_neg (D : Str) : parseInt (45 :: D) = - (decVal D : Int) := by
  simp [parseInt, foldl_dec]

theorem parseInt_pos (D : Str) (h : D.head? ≠ some 45) : parseInt D = (decVal D : Int) := by
  unfold parseInt
  split
  · exact absurd rfl h
  · simp [foldl_dec]

theorem digits_head_ne (D : Str) (hD : ∀ x ∈ D, isDigit x = true) (k : Nat) (hk : k < 48 ∨ 57 < k) :
    D.head? ≠ some k := by
  cases D with
  | nil => simp
  | cons d ds =>
    have := hD d (by simp)
    simp only [isDigit, Bool.and_eq_true, decide_eq_true_eq] at this
    simp only [List.head?_cons, ne_eq, Option.some.injEq]
    omega

theorem digits_getLast_ne (D : Str) (hD : ∀ x ∈ D, isDigit x = true) (k : Nat) (hk : k < 48 ∨ 57 < k) :
    D.getLast? ≠ some k := by
  intro h
  have hm := List.mem_of_getLast? h
  have := hD k hm
  simp only [isDigit, Bool.and_eq_true, decide_eq_true_eq] at this
  omega

/-- The sign prefix `parse_pseudo_nth` builds from a sign group. -/
theorem sign_prefix (sg : Option Nat) (D : Str) (h : D.head? ≠ some 45) :
    parseInt ((if (sg.map fun x => [x]) == some [45] then [45] else []) ++ D) = sgn sg * (decVal D : Int) := by
  cases sg with
  | none => simp [sgn, parseInt_pos D h]
  | some x =>
    by_cases hx : x = 45
    · subst hx
      simp [sgn, parseInt_neg]
    · simp [sgn, hx, parseInt_pos D h]

theorem parseAnB_canon_lin (B : Builtins) (pat : Str) (sg : Option Nat) (D : Str) (n : Option Nat)
    (T : Option (Str × Nat × Str × Str)) (hok : (SAnB.lin sg D n T).ok) :
    parseAnB (penv B pat) (SAnB.lin sg D n T).canon =
      if n.isSome then ((anbValue (.lin sg D n T)).1, true, (anbValue (.lin sg D n T)).2)
      else ((anbValue (.lin sg D n T)).2, false, 0) := by
  obtain ⟨h3, h4⟩ := canon_ok sg D n T hok
  rw [h3, parseAnB_lin B pat _ _ _ _ h4]
  obtain ⟨hsg, hD, hn, hne, hT⟩ := hok
  have h45 := digits_head_ne D hD 45 (by omega)
  cases n with
  | none =>
    have hT' : T = none := by
      cases T with
      | none => rfl
      | some q => obtain ⟨g, s2, g', D2⟩ := q; exact absurd hT.1 (by simp)
    subst hT'
    have hl : (D.getLast? == some 110) = false := by
      rw [beq_eq_false_iff_ne]; exact digits_getLast_ne D hD 110 (by omega)
    have hh : (D.head? == some 110) = false := by
      rw [beq_eq_false_iff_ne]; exact digits_head_ne D hD 110 (by omega)
    simp only [anbCore, Option.map_none, Option.toList_none, List.append_nil]
    simp only [hl, hh, Bool.false_eq_true, if_false, Option.isSome_none, anbValue, sign_prefix sg D h45]
    rfl
  | some y =>
    have hl : ((D ++ [110]).getLast? == some 110) = true := by simp
    have htk : (D ++ [110]).take ((D ++ [110]).length - 1) = D := by simp
    -- the `B` part
    have hB : parseInt (match T.map (fun q => q.2.2.2) with
        | some b => if b.isEmpty then [48]
          else (if (T.map fun q => [q.2.1]) == some [45] then [45] else []) ++ b
        | none => [48]) = (anbValue (.lin sg D (some y) T)).2 := by
      cases T with
      | none => simp [anbValue]; decide
      | some q =>
        obtain ⟨g, s2, g', D2⟩ := q
        obtain ⟨_, _, _, _, hne2, hD2⟩ := hT
        have h2 := sign_prefix (some s2) D2 (digits_head_ne D2 hD2 45 (by omega))
        have he : D2.isEmpty = false := by cases D2 with | nil => exact absurd rfl hne2 | cons _ _ => rfl
        simp only [Option.map_some, he, Bool.false_eq_true, if_false, anbValue]
        exact h2
    have hA : parseInt (if (D ++ [110]).head? == some 110 then
          (if (sg.map fun x => [x]) == some [45] then [45] else []) ++ [49]
        else (if (sg.map fun x => [x]) == some [45] then [45] else []) ++ D) =
        (anbValue (.lin sg D (some y) T)).1 := by
      cases D with
      | nil =>
        have := sign_prefix sg [49] (by decide)
        simp only [List.nil_append, List.head?_cons, beq_self_eq_true, if_true, anbValue]
        rw [this]; rfl
      | cons d ds =>
        have hd : (((d :: ds) ++ [110]).head? == some 110) = false := by
          have := digits_head_ne (d :: ds) hD 110 (by omega)
          simpa using this
        rw [hd]
        simp only [Bool.false_eq_true, if_false, anbValue, sign_prefix sg (d :: ds) h45]
        simp
    simp only [anbCore, Option.map_some, Option.toList_some, Option.map_map, hl, htk, if_true,
      Option.isSome_some]
    refine Prod.ext ?_ (Prod.ext rfl ?_)
    · exact hA
    · exact hB

/-- **`parse_pseudo_nth` computes the CSS value** (exact triple).  For every accepted spelling `x`, the
    triple `(a, var, b)` read from the canonical text is `(A, True, B)` when the `An` term is present and
    `(B, False, 0)` for a bare `<integer>`, with `(A, B) = anbValue x`. -/
theorem parseAnB_canon_eq (B : Builtins) (pat : Str) (x : SAnB) (hok : x.ok) :
    parseAnB (penv B pat) x.canon =
      if hasN x then ((anbValue x).1, true, (anbValue x).2) else ((anbValue x).2, false, 0) := by
  cases x with
  | even m => exact (parseAnB_kw _).1
  | odd m => exact (parseAnB_kw _).2
  | lin sg D n T => exact parseAnB_canon_lin B pat sg D n T hok

/-- The same for what the parser actually reads: the lower-cased text of the token's group. -/
theorem parseAnB_text_eq (B : Builtins) (pat : Str) (x : SAnB) (hok : x.ok) :
    parseAnB (penv B pat) (lower x.render) =
      if hasN x then ((anbValue x).1, true, (anbValue x).2) else ((anbValue x).2, false, 0) := by
  rw [parseAnB_spelled B pat B pat x hok, parseAnB_canon_eq B pat x hok]

/-- Without the `An` term the CSS value has `A = 0`. -/
theorem anbValue_noN (x : SAnB) (h : hasN x = false) : (anbValue x).1 = 0 := by
  cases x with
  | even m => cases h
  | odd m => cases h
  | lin sg D n T =>
    cases n with
    | none => rfl
    | some y => cases h

/-- The positions an nth record `(a, var, b)` designates, as `match_nth` reads it
    (`idx = a * count + b if var else a`, `count = 0, 1, …`; `Properties/C02Site.lean`:
    `matchNth_iff` for `var = true`, `matchNth_const_iff` for `var = false`). -/
def Designates (r : Int × Bool × Int) (pos : Nat) : Prop :=
  if r.2.1 = true then ∃ n : Nat, r.1 * (n : Int) + r.2.2 = (pos : Int) else r.1 = (pos : Int)

/-- **`parse_anb_value`**: the set of positions designated by the record `parse_pseudo_nth` builds for
    an accepted spelling `x` is `{A·n + B | n ≥ 0}` with `(A, B)` the CSS value of `x`. -/
theorem parse_anb_value (B : Builtins) (pat : Str) (x : SAnB) (hok : x.ok) (pos : Nat) :
    Designates (parseAnB (penv B pat) x.canon) pos ↔
      ∃ n : Nat, (anbValue x).1 * (n : Int) + (anbValue x).2 = (pos : Int) := by
  rw [parseAnB_canon_eq B pat x hok]
  cases h : hasN x with
  | true => simp [Designates]
  | false =>
    simp only [Designates, Bool.false_eq_true, if_false, anbValue_noN x h, Int.zero_mul, Int.zero_add]
    exact ⟨fun e => ⟨0, e⟩, fun ⟨_, e⟩ => e⟩

theorem parse_anb_value_text (B : Builtins) (pat : Str) (x : SAnB) (hok : x.ok) (pos : Nat) :
    Designates (parseAnB (penv B pat) (lower x.render)) pos ↔
      ∃ n : Nat, (anbValue x).1 * (n : Int) + (anbValue x).2 = (pos : Int) := by
  rw [parseAnB_spelled B pat B pat x hok]
  exact parse_anb_value B pat x hok pos

/-! ### Non-vacuity: concrete spellings -/

/-- `-n+3` -/
def exNeg : SAnB := .lin (some 45) [] (some 110) (some ([], 43, [], [51]))
/-- `2N - 1` -/
def exGaps : SAnB := .lin none [50] (some 78) (some ([32], 45, [32, 47, 42, 42, 47], [49]))
/-- `+5`, `007` -/
def exInt : SAnB := .lin (some 43) [53] none none
def exZeros : SAnB := .lin none [48, 48, 55] none none

example : exNeg.render = "-n+3".toStr ∧ exGaps.render = "2N - /**/1".toStr ∧ exInt.render = "+5".toStr := by decide
example : exNeg.ok ∧ exGaps.ok ∧ exInt.ok ∧ exZeros.ok := by
  refine ⟨?_, ?_, ?_, ?_⟩ <;> simp +decide [exNeg, exGaps, exInt, exZeros, SAnB.ok, tailOK]
example : anbValue exNeg = (-1, 3) ∧ anbValue exGaps = (2, -1) ∧ anbValue exInt = (0, 5) ∧
    anbValue exZeros = (0, 7) ∧ anbValue (.even [true, false]) = (2, 0) ∧ anbValue (.odd []) = (2, 1) := by decide

end C02Parse
end Refine
end SoupVerif

#print axioms SoupVerif.Refine.C02Parse.parseAnB_canon_eq
#print axioms SoupVerif.Refine.C02Parse.parse_anb_value
#print axioms SoupVerif.Refine.C02Parse.parse_anb_value_text
