/-
  Helpers for `Properties/C20Parse.lean` (which offset a given mistake in a selector TEXT gets).

  * `compile_after_prefix`: the parser model on `g₁ ++ T ++ r`, `T` the text of a selector list of the
    grammar of `Properties/C09Compile.lean` in any admissible spelling, reaches a loop state at
    position `|g₁ ++ T|` that has a selector, with fuel to spare (the first half of the proof of
    `C09Compile.compile_eq_denote`, for an ARBITRARY continuation `r` instead of a final gap).
  * `compile_at_start`: the same for the empty prefix.
  * `loop_*`: what ONE more iteration of `parseLoop` does at such a position when the text goes on with
    an unmatched `)`, a character no token starts with, a pseudo-class name of no table, an at-rule,
    a combinator with no selector before it; `finishSel_expected`: the clean-up after a dangling
    combinator.
  Only the stable names `Gen.tok_*`, `Gen.cp_*`, `Gen.lexicon` are mentioned.
-/
import SoupVerif.Properties.C09Compile
namespace SoupVerif
namespace Refine
namespace C20Parse
open Rx RxBasic SoupVerif.Parser ParserProgress Escape Spelling Refine.Compile C09Compile

/-! ### Positions -/

theorem pos_of_drop {s r : Str} {p : Nat} (h : s.drop p = r) (hne : r ≠ []) :
    p + r.length = s.length := by
  have h1 := congrArg List.length h
  rw [List.length_drop] at h1
  have h2 : 0 < r.length := List.length_pos_iff.mpr hne
  omega

theorem pos_of_drop_append {a r : Str} {p : Nat} (h : (a ++ r).drop p = r) (hne : r ≠ []) :
    p = a.length := by
  have := pos_of_drop h hne
  rw [List.length_append] at this
  omega

/-! ### Generic loop iterations that raise -/

section Loop
variable (env : CharEnv) (L : Lexicon) (B : Builtins) (pattern : Str) (fuel flags : Nat)
  (st : LS) (t : Token)

/-- `)` while no pseudo-class is open: "Unmatched pseudo-class close", at the START of the token
    (the token `WSC*\)` includes the gap in front of the parenthesis). -/
theorem parseLoop_close_err (h : nextToken ⟨env, L, B, pattern⟩ st.pos = .ok (some t))
    (hk : t.name = "pseudo_close") (hs : st.hasSelector = true)
    (hopen : ((flags &&& FLG_OPEN) != 0) = false) :
    parseLoop env L B pattern (fuel + 1) flags st = .error ⟨.unmatchedClose, pattern, t.start⟩ := by
  rw [parseLoop]
  simp only [h, hk]
  simp [hs, hopen, PEnv.err]

/-- `@ident`: NotImplementedError, at the start of the token. -/
theorem parseLoop_at_rule (h : nextToken ⟨env, L, B, pattern⟩ st.pos = .ok (some t))
    (hk : t.name = "at_rule") :
    parseLoop env L B pattern (fuel + 1) flags st = .error ⟨.atRule, pattern, t.start⟩ := by
  rw [parseLoop]
  simp only [h, hk]
  simp [PEnv.err]

/-- A combinator with no selector before it (outside `:has()` and the forgiving lists): the error
    carries the `index` of the loop state, not the position of the token. -/
theorem parseLoop_comb_err (h : nextToken ⟨env, L, B, pattern⟩ st.pos = .ok (some t))
    (hk : t.name = "combine") (hrel : ((flags &&& FLG_RELATIVE) != 0) = false)
    (hfg : ((flags &&& FLG_FORGIVE) != 0) = false) (hs : st.hasSelector = false) :
    parseLoop env L B pattern (fuel + 1) flags st =
      .error ⟨.combinatorNeedsSelector, pattern, st.index⟩ := by
  rw [parseLoop]
  simp only [h, hk, hrel]
  simp [parseCombinator, hs, hfg, PEnv.err]

/-- `:name` (no parenthesis) for a name of neither table of argument-less pseudo-classes: a
    `SelectorSyntaxError` at the START of the token — "Invalid syntax" when the name is a known
    pseudo-class (that needs arguments), "… unsupported or invalid" otherwise. -/
theorem parseLoop_pseudo_unknown (h : nextToken ⟨env, L, B, pattern⟩ st.pos = .ok (some t))
    (hk : t.name = "pseudo_class")
    (hopen : t.group ⟨env, L, B, pattern⟩ "open" = none) (pseudo : Str)
    (hp : lower (Parser.cssUnescape env L ((t.group ⟨env, L, B, pattern⟩ "name").getD [])) = pseudo)
    (h1 : inList L.pseudoSimple pseudo = false) (h2 : inList L.pseudoSimpleNoMatch pseudo = false) :
    parseLoop env L B pattern (fuel + 1) flags st =
      .error ⟨if inList L.pseudoSupported pseudo then .invalidPseudoSyntax else .unknownPseudo,
        pattern, t.start⟩ := by
  rw [parseLoop]
  simp only [h, hk, hopen, hp]
  have e1 : ("pseudo_class" == "at_rule") = false := by decide
  have e2 : ("pseudo_class" == "amp") = false := by decide
  have e3 : ("pseudo_class" == "pseudo_class_custom") = false := by decide
  have e4 : ("pseudo_class" == "pseudo_class") = true := by decide
  simp only [e1, e2, e3, e4, Bool.false_eq_true, if_false, if_true, Bool.false_and, Bool.not_false,
    Bool.true_and, h1, h2]
  split <;> rfl

end Loop

/-- The clean-up of `parse_selectors` at top level when the loop ended without a selector (after a
    combinator, or on an empty pattern): "Expected a selector at position {index}". -/
theorem finishSel_expected (B : Builtins) (s : Str) (st : LS) (h : st.hasSelector = false) :
    finishSel pyFoldEnv Gen.lexicon B s 0 st = .error ⟨.expectedSelector, s, st.index⟩ := by
  simp [finishSel, cleanupLS, h, PEnv.err, FLG_OPEN, FLG_FORGIVE]

/-! ### The tokenizer at the offending text -/

section Tok
variable (B : Builtins) (s : Str)

/-- No token of `css_tokens` can start with the ASCII character `c` (first sets of the regenerated
    token expressions, C07's `Rx.first`). -/
def noTokenStart (c : Nat) : Bool :=
  decide (c < 128) && Gen.lexicon.tokens.all (fun t => !slotFirst c t)

/-- The ASCII characters no token starts with: the control characters other than TAB LF FF CR, and
    `! " $ % ' ( 0-9 ; < = ? ] ^ ` { }` DEL. -/
theorem noTokenStart_iff : ∀ c, noTokenStart c = true ↔
    c ∈ [0, 1, 2, 3, 4, 5, 6, 7, 8, 11, 14, 15, 16, 17, 18, 19, 20, 21, 22, 23, 24, 25, 26, 27, 28, 29,
      30, 31, 33, 34, 36, 37, 39, 40, 48, 49, 50, 51, 52, 53, 54, 55, 56, 57, 59, 60, 61, 63, 93, 94,
      96, 123, 125, 127] := by
  intro c
  by_cases hc : c < 128
  · revert c; decide +kernel
  · constructor
    · intro h; simp [noTokenStart, hc] at h
    · intro h; simp only [List.mem_cons, List.not_mem_nil, or_false] at h; omega

theorem noTokenStart_facts {c : Nat} (h : noTokenStart c = true) :
    c < 128 ∧ isCssWs c = false ∧ c ≠ 47 ∧ c ≠ 91 ∧ c ≠ 46 ∧ c ≠ 35 ∧ c ≠ 58 := by
  have := (noTokenStart_iff c).mp h
  simp only [List.mem_cons, List.not_mem_nil, or_false] at this
  refine ⟨by omega, ?_, by omega, by omega, by omega, by omega, by omega⟩
  simp only [isCssWs, Bool.or_eq_false_iff, beq_eq_false_iff_ne]
  omega

/-- `selector_iter` at a character no token starts with: "Invalid character" at that position. -/
theorem nextToken_invalid {i c : Nat} {cs : Str} (hd : s.drop i = c :: cs)
    (hc : noTokenStart c = true) :
    nextToken (penv B s) i = .error ⟨.invalidCharacter, s, i⟩ := by
  obtain ⟨h128, hws, h47, h91, h46, h35, h58⟩ := noTokenStart_facts hc
  have hx := getElem?_of_drop_cons hd
  rw [nextToken_noGap B s hd (by simp [noGapStart, hws, h47])]
  have hk : keyOf s[i]? = c := by
    rw [hx]; show (if c < 128 then c else _) = c
    rw [if_pos h128]
  have hall : (Gen.lexicon.tokens.take Gen.lexicon.tokens.length).all
      (fun t => !slotFirst (keyOf s[i]?) t) = true := by
    rw [List.take_length, hk]
    simp only [noTokenStart, Bool.and_eq_true] at hc
    exact hc.2
  rw [matchToken_skip B s i _ _ hall, List.drop_length]
  simp [matchToken, hx, PEnv.err, h91, h46, h35, h58]

def atTok (i j : Nat) : Token :=
  { name := "at_rule", rx := ⟨"at_rule", Gen.tok_at_rule, Gen.tok_at_rule_groups⟩, start := i, stop := j,
    caps := [] }

theorem tok_at_rule_shape : Gen.tok_at_rule = .seq [.lit 64 true, Ident.rxHead, Ident.rxStar] := rfl

theorem skip_at : (Gen.lexicon.tokens.take 6).all (fun t => !slotFirst 64 t) = true := by
  decide +kernel

/-- `selector_iter` at `@` + identifier (any admissible spelling): the `at_rule` token. -/
theorem nextToken_at_rule {i : Nat} {forms : List (Nat × EscForm)} {r : Str}
    (hd : s.drop i = 64 :: (renderIdentWith forms ++ r))
    (hv : validForms forms r = true) (hh : headOk forms = true) (hr : ¬ continuesIdent r) :
    nextToken (penv B s) i = .ok (some (atTok i (i + 1 + (renderIdentWith forms).length))) := by
  rw [nextToken_noGap B s hd (by simp [noGapStart, isCssWs])]
  have hk : keyOf s[i]? = 64 := by rw [getElem?_of_drop_cons hd]; rfl
  rw [matchToken_skip B s i 6 _ (by rw [hk]; exact skip_at)]
  have hm : matchAt pyFoldEnv Gen.tok_at_rule s i = some (i + 1 + (renderIdentWith forms).length, []) := by
    rw [tok_at_rule_shape, Ident.matchAt_prefixed Ident.identFold_py 64 (by omega) s i, hd,
      ← List.cons_append, C09.scan_any_spelling_prefixed 64 forms r hv hh hr]
    simp [Nat.add_assoc, Nat.add_comm]
  show (match matchToken (penv B s) i ((⟨"at_rule", Gen.tok_at_rule, Gen.tok_at_rule_groups⟩, false) :: _) with
    | some t => _ | none => _) = _
  simp only [matchToken, Bool.false_eq_true, if_false, hm]
  rfl

/-- `selector_iter` at a combinator character (after any gap), whatever follows. -/
theorem nextToken_comb_any {i c : Nat} {g rest : Str} (hd : s.drop i = g ++ c :: rest) (hg : isGap g)
    (hcomb : isComb c = true) :
    ∃ j caps, nextToken (penv B s) i = .ok (some (combTok i j caps)) := by
  have hcng : noGapStart (c :: rest) = true := by
    simp only [isComb, Bool.or_eq_true, beq_iff_eq] at hcomb
    rcases hcomb with ((h | h) | h) | h <;> subst h <;> simp [noGapStart, isCssWs]
  have hsk : skipWSC (s.drop i) = c :: rest := by rw [hd, C09.skipWSC_append g _ hg hcng]
  have hi : i < s.length := by
    rcases Nat.lt_or_ge i s.length with h | h
    · exact h
    · rw [List.drop_eq_nil_of_le h] at hd
      cases g <;> cases hd
  obtain ⟨x, hx, hcs⟩ : ∃ x, s[i]? = some x ∧ combStart x = true := by
    cases g with
    | nil => exact ⟨c, getElem?_of_drop_cons (by rw [hd]; rfl), by simp [combStart, hcomb]⟩
    | cons y ys =>
      refine ⟨y, getElem?_of_drop_cons (by rw [hd]; rfl), ?_⟩
      rcases gap_head hg y (by simp) with h | h
      · simp [combStart, h]
      · simp [combStart, h]
  have hm := combine_matchAt (env := pyFoldEnv) Wsc.caseFree_pyFold s i
  rw [lazyHead_comb Wsc.caseFree_pyFold Ident.identFold_py s c rest hcomb _ i (by omega) (by omega) hsk] at hm
  exact ⟨_, _, nextToken_combine B s hx hcs (by rw [hsk]; simp)
    (by rw [hsk]; simp only [List.head?_cons]; intro h; cases h; simp [isComb] at hcomb) hm⟩

end Tok

/-! ### One more iteration, at a state that stands at the offending text -/

section Steps
variable (B : Builtins) (s : Str) (fuel flags : Nat) (st : LS)

theorem loop_unmatched_close {g rest : Str} (hd : s.drop st.pos = g ++ 41 :: rest) (hg : isGap g)
    (hs : st.hasSelector = true) (hopen : ((flags &&& FLG_OPEN) != 0) = false) :
    parseLoop pyFoldEnv Gen.lexicon B s (fuel + 1) flags st = .error ⟨.unmatchedClose, s, st.pos⟩ :=
  parseLoop_close_err pyFoldEnv Gen.lexicon B s fuel flags st _ (nextToken_close s B hd hg) rfl hs hopen

theorem loop_invalid_char {c : Nat} {cs : Str} (hd : s.drop st.pos = c :: cs)
    (hc : noTokenStart c = true) :
    parseLoop pyFoldEnv Gen.lexicon B s (fuel + 1) flags st = .error ⟨.invalidCharacter, s, st.pos⟩ := by
  rw [parseLoop]
  have := nextToken_invalid B s hd hc
  simp only [penv] at this
  simp only [this]

theorem loop_at_rule {forms : List (Nat × EscForm)} {r : Str}
    (hd : s.drop st.pos = 64 :: (renderIdentWith forms ++ r))
    (hv : validForms forms r = true) (hh : headOk forms = true) (hr : ¬ continuesIdent r) :
    parseLoop pyFoldEnv Gen.lexicon B s (fuel + 1) flags st = .error ⟨.atRule, s, st.pos⟩ :=
  parseLoop_at_rule pyFoldEnv Gen.lexicon B s fuel flags st _ (nextToken_at_rule B s hd hv hh hr) rfl

theorem loop_leading_comb {c : Nat} {g rest : Str} (hd : s.drop st.pos = g ++ c :: rest) (hg : isGap g)
    (hcomb : isComb c = true) (hrel : ((flags &&& FLG_RELATIVE) != 0) = false)
    (hfg : ((flags &&& FLG_FORGIVE) != 0) = false) (hs : st.hasSelector = false) :
    parseLoop pyFoldEnv Gen.lexicon B s (fuel + 1) flags st =
      .error ⟨.combinatorNeedsSelector, s, st.index⟩ := by
  obtain ⟨j, caps, h⟩ := nextToken_comb_any B s hd hg hcomb
  exact parseLoop_comb_err pyFoldEnv Gen.lexicon B s fuel flags st _ h rfl hrel hfg hs

/-- The kind of error an argument-less pseudo-class of no table gets. -/
def pseudoErrKind (name : Str) : ErrKind :=
  if inList Gen.lexicon.pseudoSupported name then .invalidPseudoSyntax else .unknownPseudo

theorem loop_unknown_pseudo {forms : List (Nat × EscForm)} {r : Str}
    (hd : s.drop st.pos = 58 :: (renderIdentWith forms ++ r))
    (hx : (renderIdentWith forms).head? ≠ some 45)
    (hv : validForms forms r = true) (hh : headOk forms = true) (hr : ¬ continuesIdent r)
    (h40 : r.head? ≠ some 40) (hcp : ∀ p ∈ forms, rangeOk p.1 p.2 = true)
    (h1 : inList Gen.lexicon.pseudoSimple (58 :: lower (valueOf forms)) = false)
    (h2 : inList Gen.lexicon.pseudoSimpleNoMatch (58 :: lower (valueOf forms)) = false) :
    parseLoop pyFoldEnv Gen.lexicon B s (fuel + 1) flags st =
      .error ⟨pseudoErrKind (58 :: lower (valueOf forms)), s, st.pos⟩ := by
  obtain ⟨x, xs, hxs, _⟩ := headOk_first forms hh
  have hx' : x ≠ 45 := by rw [hxs] at hx; simpa using hx
  have hnt := nextToken_pseudo_simple s B hd hxs hx' hv hh hr h40
  have hsl : slice s st.pos (st.pos + 1 + (renderIdentWith forms).length) = 58 :: renderIdentWith forms := by
    have := slice_of_drop_append (s := s) (p := st.pos) (a := 58 :: renderIdentWith forms) (r := r)
      (by rw [hd]; rfl)
    rw [← this]; congr 1; simp only [List.length_cons]; omega
  have hg1 : (pclassTok st.pos (st.pos + 1 + (renderIdentWith forms).length)
      [(1, st.pos, st.pos + 1 + (renderIdentWith forms).length)]).group (penv B s) "name" =
      some (58 :: renderIdentWith forms) := by
    simp [Token.group, Parser.group, pclassTok, Gen.tok_pseudo_class_groups, capSpan, hsl]
  have hg2 : (pclassTok st.pos (st.pos + 1 + (renderIdentWith forms).length)
      [(1, st.pos, st.pos + 1 + (renderIdentWith forms).length)]).group (penv B s) "open" = none := by
    simp [Token.group, Parser.group, pclassTok, Gen.tok_pseudo_class_groups, capSpan]
  have hname : lower (Parser.cssUnescape pyFoldEnv Gen.lexicon
      (((pclassTok st.pos (st.pos + 1 + (renderIdentWith forms).length)
        [(1, st.pos, st.pos + 1 + (renderIdentWith forms).length)]).group (penv B s) "name").getD [])) =
      58 :: lower (valueOf forms) := by
    rw [hg1]
    simp only [Option.getD_some]
    rw [unescape_colon_forms forms (SpellingLemmas.validForms_nil_of forms r hv) hcp]
    rfl
  simp only [penv] at hnt hg2 hname
  rw [parseLoop_pseudo_unknown pyFoldEnv Gen.lexicon B s fuel flags st _ hnt rfl hg2 _ hname h1 h2]
  rfl

/-- `g₁ c g₂` with `c` one of `,` `+` `>` `~` after a compound: `Refine.Compile.step_comb` with the new
    `index` made explicit (it is the end of the token, like the new position). -/
theorem step_comb_idx {c : Nat} {g₁ g₂ R : Str} (hd : s.drop st.pos = g₁ ++ c :: (g₂ ++ R))
    (hg₁ : isGap g₁) (hg₂ : isGap g₂) (hcomb : isComb c = true) (hR : noGapStart R = true)
    (hrel : ((flags &&& FLG_RELATIVE) != 0) = false) (hs : st.hasSelector = true) :
    ∃ p, s.drop p = R ∧ p ≤ s.length ∧
      parseLoop pyFoldEnv Gen.lexicon B s (fuel + 1) flags st =
        parseLoop pyFoldEnv Gen.lexicon B s fuel flags
          { combStep c ((flags &&& FLG_PSEUDO) != 0) st with pos := p, index := p } := by
  obtain ⟨e, stop, hm, hsl, hstop, _⟩ :=
    combine_matchAt_comb Wsc.caseFree_pyFold Ident.identFold_py s st.pos c g₁ g₂ R hd hg₁ hg₂ hcomb hR
  have hcng : noGapStart (c :: (g₂ ++ R)) = true := by
    simp only [isComb, Bool.or_eq_true, beq_iff_eq] at hcomb
    rcases hcomb with ((h | h) | h) | h <;> subst h <;> simp [noGapStart, isCssWs]
  have hsk : skipWSC (s.drop st.pos) = c :: (g₂ ++ R) := by
    rw [hd, C09.skipWSC_append g₁ _ hg₁ hcng]
  have hi : st.pos ≤ s.length := by
    rcases Nat.lt_or_ge s.length st.pos with h | h
    · rw [List.drop_eq_nil_of_le (by omega)] at hd
      cases g₁ <;> cases hd
    · exact h
  obtain ⟨x, hx, hcs⟩ : ∃ x, s[st.pos]? = some x ∧ combStart x = true := by
    cases g₁ with
    | nil =>
      exact ⟨c, getElem?_of_drop_cons (by rw [hd]; rfl), by simp [combStart, hcomb]⟩
    | cons y ys =>
      refine ⟨y, getElem?_of_drop_cons (by rw [hd]; rfl), ?_⟩
      rcases gap_head hg₁ y (by simp) with h | h
      · simp [combStart, h]
      · simp [combStart, h]
  have hnt := nextToken_combine B s hx hcs (by rw [hsk]; simp)
    (by rw [hsk]; simp only [List.head?_cons]; intro h; cases h; simp [isComb] at hcomb) hm
  refine ⟨stop, hstop, matchAt_le_length hm hi, ?_⟩
  rw [parseLoop_combine B _ _ _ _ _ _ _ hnt rfl hrel hs,
    combinatorOf_char B s hsl hcomb]
  exact congrArg _ (combStep_frame _ _ _ _ _)

end Steps

/-! ### From `compile` to the state in front of the offending text -/

/-- `compile` on a NUL-free pattern that begins with a gap `g₁` and then text `r` that is not a gap: the
    loop starts at `|g₁|` with `index = 0`. -/
theorem compile_at_start (B : Builtins) (g₁ r : Str) (hg₁ : isGap g₁) (hng : noGapStart r = true)
    (hne : r ≠ []) (h0 : ∀ x ∈ g₁ ++ r, x ≠ 0) :
    Parser.compile pyFoldEnv Gen.lexicon B (g₁ ++ r) [] 0 =
      match parseLoop pyFoldEnv Gen.lexicon B (g₁ ++ r) (2 * (g₁ ++ r).length + 7) 0
          (initLS g₁.length 0 0 []) with
      | .error e => .error e
      | .ok st =>
        match finishSel pyFoldEnv Gen.lexicon B (g₁ ++ r) 0 st with
        | .error e => .error e
        | .ok x => .ok x.1 := by
  rw [compile_unfold B _ 0 h0]
  have hstart : (g₁ ++ r).drop (startIndex (penv B (g₁ ++ r))) = r := by
    rw [startIndex_drop, C09.skipWSC_append g₁ r hg₁ hng]
  rw [pos_of_drop_append hstart hne]
  rfl

/-- `compile` on `g₁ ++ T ++ r` (`T = l.render` a selector list of the covered grammar, admissible in
    front of `r`; `r` not empty and not the continuation of an identifier): after the tokens of `T` the loop
    stands at `|g₁ ++ T|` with a selector, and at least two units of fuel are left. -/
theorem compile_after_prefix (B : Builtins) (g₁ r : Str) (l : SSelList) (hg₁ : isGap g₁)
    (hok : l.ok r) (hr : SafeStart r) (hne : r ≠ [])
    (h0 : ∀ x ∈ g₁ ++ l.render ++ r, x ≠ 0) :
    ∃ (st : LS) (k : Nat), st.pos = (g₁ ++ l.render).length ∧
      (g₁ ++ l.render ++ r).drop st.pos = r ∧ st.hasSelector = true ∧
      Parser.compile pyFoldEnv Gen.lexicon B (g₁ ++ l.render ++ r) [] 0 =
        match parseLoop pyFoldEnv Gen.lexicon B (g₁ ++ l.render ++ r) (k + 2) 0 st with
        | .error e => .error e
        | .ok st =>
          match finishSel pyFoldEnv Gen.lexicon B (g₁ ++ l.render ++ r) 0 st with
          | .error e => .error e
          | .ok x => .ok x.1 := by
  have hcost := l.cost_le r hok
  rw [compile_unfold B _ 0 h0]
  have hpos : ∀ p, (g₁ ++ l.render ++ r).drop p = r → p = (g₁ ++ l.render).length :=
    fun p hp => pos_of_drop_append hp hne
  obtain ⟨first, rest⟩ := l
  rw [SSelList.ok] at hok
  obtain ⟨hfirst, hrest⟩ := hok
  generalize hs : g₁ ++ SSelList.render (.mk first rest) ++ r = s at hpos ⊢
  have hsafe := safeStart_rest rest r hrest hr
  have hstart : s.drop (startIndex (penv B s)) = first.render ++ (renderRest rest ++ r) := by
    rw [startIndex_drop, ← hs, SSelList.render, List.append_assoc, List.append_assoc,
      C09.skipWSC_append_gen g₁ _ hg₁]
    exact SpellingLemmas.skipWSC_of_noGapStart _ (first.render_noGap _ _ hfirst)
  rw [SSelList.cost] at hcost
  have hlen : (SSelList.render (.mk first rest)).length ≤ s.length := by rw [← hs]; simp; omega
  obtain ⟨p₁, i₁, hp₁, h₁⟩ := run_compound B s first 0 (initLS (startIndex (penv B s)) 0 0 [])
    (2 * s.length + 7 - first.size) _ hstart hfirst hsafe (by omega) rfl
  rw [show 2 * s.length + 7 - first.size + first.size = 2 * s.length + 7 by omega] at h₁
  have h₁' : parseLoop pyFoldEnv Gen.lexicon B s (2 * s.length + 7) 0 (initLS (startIndex (penv B s)) 0 0 []) =
      parseLoop pyFoldEnv Gen.lexicon B s (2 * s.length + 7 - first.size) 0
        (setF { sel := first.value.buildOn B SelB.empty, hasSelector := true } p₁ i₁ []) := h₁
  obtain ⟨p, idx, hp, h₂⟩ := run_rest B s rest 0
    (setF { sel := first.value.buildOn B SelB.empty, hasSelector := true } p₁ i₁ [])
    (2 * s.length + 7 - first.size - restSize rest) r rfl hp₁ hrest hr (by omega) rfl
  rw [show 2 * s.length + 7 - first.size - restSize rest + restSize rest = 2 * s.length + 7 - first.size
    by omega] at h₂
  refine ⟨setF (foldRest B ((0 &&& FLG_PSEUDO) != 0) (restValue rest)
      (setF { sel := first.value.buildOn B SelB.empty, hasSelector := true } p₁ i₁ [])) p idx [],
    2 * s.length + 7 - first.size - restSize rest - 2, hpos p hp, hp, ?_, ?_⟩
  · rw [foldRest_frame]
    exact foldRest_hasSelector B _ _ _ rfl
  · rw [h₁', h₂, show 2 * s.length + 7 - first.size - restSize rest - 2 + 2 =
      2 * s.length + 7 - first.size - restSize rest by omega]
    rfl

/-- … and after one more combinator `cb` (`g c g'` with `c` one of `,` `+` `>` `~`, or a descendant gap)
    followed by text `R` that starts a new token (no gap, no combinator character, no `)`): the loop stands at
    `|g₁ ++ T ++ cb|` WITHOUT a selector, and at least one unit of fuel is left. -/
theorem compile_after_comb (B : Builtins) (g₁ R : Str) (l : SSelList) (cb : SComb) (hg₁ : isGap g₁)
    (hcb : cb.ok) (hok : l.ok (cb.render ++ R)) (hR : noGapStart R = true) (hne : R ≠ [])
    (hRc : ∀ c ∈ R.head?, isComb c = false) (hR41 : R.head? ≠ some 41)
    (h0 : ∀ x ∈ g₁ ++ l.render ++ (cb.render ++ R), x ≠ 0) :
    ∃ (st : LS) (k : Nat), st.pos = (g₁ ++ l.render ++ cb.render).length ∧
      (g₁ ++ l.render ++ (cb.render ++ R)).drop st.pos = R ∧ st.hasSelector = false ∧
      Parser.compile pyFoldEnv Gen.lexicon B (g₁ ++ l.render ++ (cb.render ++ R)) [] 0 =
        match parseLoop pyFoldEnv Gen.lexicon B (g₁ ++ l.render ++ (cb.render ++ R)) (k + 1) 0 st with
        | .error e => .error e
        | .ok st =>
          match finishSel pyFoldEnv Gen.lexicon B (g₁ ++ l.render ++ (cb.render ++ R)) 0 st with
          | .error e => .error e
          | .ok x => .ok x.1 := by
  have hsafe : SafeStart (cb.render ++ R) := by
    obtain ⟨y, ys, hy, h⟩ := cb.render_head hcb
    rw [hy, List.cons_append]
    apply safeStart_of_combHead
    rcases h with h | h | h
    · exact Or.inl h
    · exact Or.inr (Or.inl h)
    · exact Or.inr (Or.inr (Or.inl h))
  have hcne : cb.render ++ R ≠ [] := by
    intro h; exact hne (List.append_eq_nil_iff.mp h).2
  obtain ⟨st, k, _, hd, hs, hcmp⟩ := compile_after_prefix B g₁ _ l hg₁ hok hsafe hcne h0
  have hposR : ∀ p, (g₁ ++ l.render ++ (cb.render ++ R)).drop p = R →
      p = (g₁ ++ l.render ++ cb.render).length := by
    intro p hp
    have := pos_of_drop hp hne
    simp only [List.length_append] at this ⊢
    omega
  generalize g₁ ++ l.render ++ (cb.render ++ R) = s at *
  cases cb with
  | sym g₂ c g₃ =>
    obtain ⟨hg₂, hg₃, hcomb⟩ := hcb
    obtain ⟨p, hp, _, hstep⟩ := step_comb_idx B s (k + 1) 0 st (c := c) (g₁ := g₂) (g₂ := g₃) (R := R)
      (by rw [hd]; simp [SComb.render]) hg₂ hg₃ hcomb hR rfl hs
    refine ⟨{ combStep c ((0 &&& FLG_PSEUDO) != 0) st with pos := p, index := p }, k, hposR p hp, hp,
      ?_, ?_⟩
    · by_cases h : (c == 44) = true <;> simp [combStep, h]
    · rw [hcmp, hstep]
  | desc g =>
    obtain ⟨p, idx, hp, hstep⟩ := step_desc B s (k + 1) 0 st (g := g) (R := R)
      (by rw [hd]; rfl) hcb hR hne hRc hR41 rfl hs
    refine ⟨{ combStep 32 ((0 &&& FLG_PSEUDO) != 0) st with pos := p, index := idx }, k, hposR p hp, hp,
      ?_, ?_⟩
    · simp [combStep]
    · rw [hcmp, hstep]

end C20Parse
end Refine
end SoupVerif

#print axioms SoupVerif.Refine.C20Parse.compile_after_prefix
#print axioms SoupVerif.Refine.C20Parse.compile_at_start
#print axioms SoupVerif.Refine.C20Parse.compile_after_comb
#print axioms SoupVerif.Refine.C20Parse.loop_unmatched_close
#print axioms SoupVerif.Refine.C20Parse.loop_invalid_char
#print axioms SoupVerif.Refine.C20Parse.loop_at_rule
#print axioms SoupVerif.Refine.C20Parse.loop_leading_comb
#print axioms SoupVerif.Refine.C20Parse.loop_unknown_pseudo
#print axioms SoupVerif.Refine.C20Parse.step_comb_idx
