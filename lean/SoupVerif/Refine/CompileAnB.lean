/-
  `parse_pseudo_nth`'s reading of An+B through `RE_NTH`: the result depends only on the sign, the digits,
  the presence of `n`, and the second sign and digits — not on the gaps between them.
-/
import SoupVerif.Refine.CompileNthRx
namespace SoupVerif
namespace Refine
namespace Compile
open Rx RxBasic SoupVerif.Parser ParserProgress Escape Spelling
open Wsc (gapRx unitEnd wsEnd commentEnd gapEnd)

theorem re_nth_shape (s : Str) :
    Gen.cp_RE_NTH = .seq (linRx (Wrap.grp s 1) (Wrap.grp s 2) (Wrap.grp s 3) (Wrap.grp s 4)) := rfl

/-- The arithmetic of `parse_pseudo_nth`, from the texts of the groups `s1`, `a`, `s2`, `b`. -/
def anbCore (s1 : Option Str) (a : Str) (s2 : Option Str) (b : Option Str) : Int × Bool × Int :=
  let s1' : Str := if s1 == some [45] then [45] else []
  let var := a.getLast? == some 110
  let s1'' := if a.head? == some 110 then s1' ++ [49]
    else if var then s1' ++ a.take (a.length - 1)
    else s1' ++ a
  let s2' : Str := if s2 == some [45] then [45] else []
  let s2'' := match b with
    | some b => if b.isEmpty then [48] else s2' ++ b
    | none => [48]
  (parseInt s1'', var, parseInt s2'')

theorem parseAnB_of_match (P : PEnv) (content : Str) (j : Nat) (caps : Caps)
    (h1 : (content == "even".toStr) = false) (h2 : (content == "odd".toStr) = false)
    (hm : matchAt P.env P.L.reNth.rx content 0 = some (j, caps)) :
    parseAnB P content =
      anbCore (Parser.group content P.L.reNth caps "s1") ((Parser.group content P.L.reNth caps "a").getD [])
        (Parser.group content P.L.reNth caps "s2") (Parser.group content P.L.reNth caps "b") := by
  unfold parseAnB
  simp only [h1, h2, Bool.false_eq_true, if_false, hm]
  rfl

/-- Group spans of `RE_NTH` after a match of the given shape from position 0. -/
theorem nth_spans (s : Str) (sg : Option Nat) (D : Str) (n : Option Nat) (T : Option (Str × Nat × Str × Str)) :
    let caps := linCaps (Wrap.grp s 1) (Wrap.grp s 2) (Wrap.grp s 3) (Wrap.grp s 4) 0 [] sg D n T
    let i1 := sg.toList.length
    let i2 := i1 + D.length + n.toList.length
    capSpan caps 1 = sg.map (fun _ => (0, 1)) ∧
    capSpan caps 2 = some (i1, i2) ∧
    capSpan caps 3 = T.map (fun q => (i2 + q.1.length, i2 + q.1.length + 1)) ∧
    capSpan caps 4 = T.map (fun q => (i2 + q.1.length + 1 + q.2.2.1.length,
      i2 + q.1.length + 1 + q.2.2.1.length + q.2.2.2.length)) := by
  cases sg with
  | none =>
    cases T with
    | none => simp [linCaps, linRestCaps, Wrap.grp, capSpan]
    | some q => obtain ⟨g, s2, g', D2⟩ := q; simp [linCaps, linRestCaps, Wrap.grp, capSpan]
  | some x =>
    cases T with
    | none => simp [linCaps, linRestCaps, Wrap.grp, capSpan]
    | some q => obtain ⟨g, s2, g', D2⟩ := q; simp [linCaps, linRestCaps, Wrap.grp, capSpan]

theorem slice_mid (a m r : Str) (i j : Nat) (hi : i = a.length) (hj : j = a.length + m.length) :
    slice (a ++ (m ++ r)) i j = m := by
  subst hi hj
  unfold slice
  rw [List.drop_left' rfl, Nat.add_sub_cancel_left, List.take_left' rfl]

theorem ne_of_head {content kw : Str} {h k : Nat} (hc : content.head? = some h) (hk : kw.head? = some k)
    (hne : h ≠ k) : (content == kw) = false := by
  rw [beq_eq_false_iff_ne]
  intro e
  rw [e, hk] at hc
  exact hne (Option.some.inj hc).symm

variable (B : Builtins) (pat : Str)

/-- `parse_pseudo_nth` on `[-+]? digits n? (gap [-+] gap digits)?` in lower case: the gaps are irrelevant. -/
theorem parseAnB_lin (sg : Option Nat) (D : Str) (n : Option Nat) (T : Option (Str × Nat × Str × Str))
    (hok : (SAnB.lin sg D n T).ok) :
    parseAnB (penv B pat) (SAnB.lin sg D n T).render =
      anbCore (sg.map fun x => [x]) (D ++ n.toList) (T.map fun q => [q.2.1]) (T.map fun q => q.2.2.2) := by
  obtain ⟨hsg, hD, hn, hne, hT⟩ := hok
  -- the content is neither `even` nor `odd`
  obtain ⟨h, hh, h101, h111⟩ : ∃ h, (SAnB.lin sg D n T).render.head? = some h ∧ h ≠ 101 ∧ h ≠ 111 := by
    simp only [SAnB.render]
    cases sg with
    | some x =>
      refine ⟨x, rfl, ?_⟩
      have := hsg x rfl
      simp only [isSign, Bool.or_eq_true, beq_iff_eq] at this
      omega
    | none =>
      cases D with
      | cons d ds =>
        refine ⟨d, rfl, ?_⟩
        have := hD d (by simp)
        simp only [isDigit, Bool.and_eq_true, decide_eq_true_eq] at this
        omega
      | nil =>
        cases n with
        | none => rcases hne with h | h; exact absurd rfl h; cases h
        | some y =>
          refine ⟨y, rfl, ?_⟩
          have := hn y rfl
          simp only [isN, Bool.or_eq_true, beq_iff_eq] at this
          omega
  have hm : matchAt (penv B pat).env (penv B pat).L.reNth.rx (SAnB.lin sg D n T).render 0 =
      some (0 + (SAnB.lin sg D n T).render.length, (linCaps (Wrap.grp (SAnB.lin sg D n T).render 1) (Wrap.grp (SAnB.lin sg D n T).render 2) (Wrap.grp (SAnB.lin sg D n T).render 3) (Wrap.grp (SAnB.lin sg D n T).render 4) 0 [] sg D n T)) := by
    show matchAt pyFoldEnv Gen.cp_RE_NTH _ 0 = _
    rw [re_nth_shape (SAnB.lin sg D n T).render]
    unfold matchAt
    rw [runs_seq]
    exact lin_head _ _ _ _ 0 [] sg D n T [] (by simp [SAnB.render]) hsg hD hn hne hT (by simp)
      (by intro _ x hx; rw [SpellingLemmas.skipWSC_nil] at hx; simp at hx)
  rw [parseAnB_of_match _ _ _ _ (ne_of_head hh rfl h101) (ne_of_head hh rfl h111) hm]
  obtain ⟨e1, e2, e3, e4⟩ := nth_spans (SAnB.lin sg D n T).render sg D n T
  have f1 : Gen.cp_RE_NTH_groups.find? (fun g => g.1 == "s1") = some ("s1", 1) := by decide
  have f2 : Gen.cp_RE_NTH_groups.find? (fun g => g.1 == "a") = some ("a", 2) := by decide
  have f3 : Gen.cp_RE_NTH_groups.find? (fun g => g.1 == "s2") = some ("s2", 3) := by decide
  have f4 : Gen.cp_RE_NTH_groups.find? (fun g => g.1 == "b") = some ("b", 4) := by decide
  have g1 : Parser.group (SAnB.lin sg D n T).render (penv B pat).L.reNth (linCaps (Wrap.grp (SAnB.lin sg D n T).render 1) (Wrap.grp (SAnB.lin sg D n T).render 2) (Wrap.grp (SAnB.lin sg D n T).render 3) (Wrap.grp (SAnB.lin sg D n T).render 4) 0 [] sg D n T) "s1" = sg.map fun x => [x] := by
    show Parser.group _ ⟨"RE_NTH", Gen.cp_RE_NTH, Gen.cp_RE_NTH_groups⟩ _ "s1" = _
    simp only [Parser.group, f1, e1]
    cases sg with
    | none => rfl
    | some x => simp [SAnB.render, slice]
  have g2 : Parser.group (SAnB.lin sg D n T).render (penv B pat).L.reNth (linCaps (Wrap.grp (SAnB.lin sg D n T).render 1) (Wrap.grp (SAnB.lin sg D n T).render 2) (Wrap.grp (SAnB.lin sg D n T).render 3) (Wrap.grp (SAnB.lin sg D n T).render 4) 0 [] sg D n T) "a" = some (D ++ n.toList) := by
    show Parser.group _ ⟨"RE_NTH", Gen.cp_RE_NTH, Gen.cp_RE_NTH_groups⟩ _ "a" = _
    simp only [Parser.group, f2, e2, Option.map_some]
    congr 1
    have := slice_mid sg.toList (D ++ n.toList) (tailText T) sg.toList.length
      (sg.toList.length + D.length + n.toList.length) rfl (by simp only [List.length_append]; omega)
    simpa [SAnB.render, List.append_assoc] using this
  have g3 : Parser.group (SAnB.lin sg D n T).render (penv B pat).L.reNth (linCaps (Wrap.grp (SAnB.lin sg D n T).render 1) (Wrap.grp (SAnB.lin sg D n T).render 2) (Wrap.grp (SAnB.lin sg D n T).render 3) (Wrap.grp (SAnB.lin sg D n T).render 4) 0 [] sg D n T) "s2" = T.map fun q => [q.2.1] := by
    show Parser.group _ ⟨"RE_NTH", Gen.cp_RE_NTH, Gen.cp_RE_NTH_groups⟩ _ "s2" = _
    simp only [Parser.group, f3, e3]
    cases T with
    | none => rfl
    | some q =>
      obtain ⟨g, s2, g', D2⟩ := q
      simp only [Option.map_some, Option.some.injEq]
      have := slice_mid (sg.toList ++ (D ++ (n.toList ++ g))) [s2] (g' ++ D2)
        (sg.toList.length + D.length + n.toList.length + g.length)
        (sg.toList.length + D.length + n.toList.length + g.length + 1)
        (by simp only [List.length_append]; omega)
        (by simp only [List.length_append, List.length_cons, List.length_nil]; omega)
      simpa [SAnB.render, tailText, List.append_assoc] using this
  have g4 : Parser.group (SAnB.lin sg D n T).render (penv B pat).L.reNth (linCaps (Wrap.grp (SAnB.lin sg D n T).render 1) (Wrap.grp (SAnB.lin sg D n T).render 2) (Wrap.grp (SAnB.lin sg D n T).render 3) (Wrap.grp (SAnB.lin sg D n T).render 4) 0 [] sg D n T) "b" = T.map fun q => q.2.2.2 := by
    show Parser.group _ ⟨"RE_NTH", Gen.cp_RE_NTH, Gen.cp_RE_NTH_groups⟩ _ "b" = _
    simp only [Parser.group, f4, e4]
    cases T with
    | none => rfl
    | some q =>
      obtain ⟨g, s2, g', D2⟩ := q
      simp only [Option.map_some, Option.some.injEq]
      have := slice_mid (sg.toList ++ (D ++ (n.toList ++ (g ++ (s2 :: g'))))) D2 []
        (sg.toList.length + D.length + n.toList.length + g.length + 1 + g'.length)
        (sg.toList.length + D.length + n.toList.length + g.length + 1 + g'.length + D2.length)
        (by simp only [List.length_append, List.length_cons]; omega)
        (by simp only [List.length_append, List.length_cons]; omega)
      simpa [SAnB.render, tailText, List.append_assoc] using this
  rw [g1, g2, g3, g4]
  rfl

/-! ### Lower-casing keeps gaps -/

theorem lowerCp_eq_small (a k : Nat) (hk : k < 65) : (lowerCp a == k) = (a == k) := by
  rw [Bool.eq_iff_iff]
  simp only [beq_iff_eq, lowerCp]
  split <;> omega

theorem head?_lower (t : Str) : (lower t).head? = t.head?.map lowerCp := by
  cases t <;> rfl

theorem head?_lower_eq_small (t : Str) (k : Nat) (hk : k < 65) :
    ((lower t).head? == some k) = (t.head? == some k) := by
  cases t with
  | nil => rfl
  | cons a t =>
    simp only [lower, List.map_cons, List.head?_cons]
    have := lowerCp_eq_small a k hk
    rw [Bool.eq_iff_iff] at this ⊢
    simpa using this

theorem dropComment_lower : ∀ (t : Str), dropComment (lower t) = (dropComment t).map lower
  | [] => rfl
  | a :: rest => by
    have e : lower (a :: rest) = lowerCp a :: lower rest := rfl
    rw [e, SpellingLemmas.dropComment_cons, SpellingLemmas.dropComment_cons, lowerCp_eq_small a 42 (by omega),
      head?_lower_eq_small rest 47 (by omega)]
    split
    · cases rest <;> rfl
    · exact dropComment_lower rest

theorem isCssWs_lowerCp' (c : Nat) : isCssWs (lowerCp c) = isCssWs c := by
  simp only [isCssWs, lowerCp_eq_small c 32 (by omega), lowerCp_eq_small c 9 (by omega),
    lowerCp_eq_small c 13 (by omega), lowerCp_eq_small c 10 (by omega), lowerCp_eq_small c 12 (by omega)]

theorem skipWSC_lower : ∀ (n : Nat) (t : Str), t.length ≤ n → skipWSC (lower t) = lower (skipWSC t) := by
  intro n
  induction n with
  | zero =>
    intro t hn
    have : t = [] := by cases t with | nil => rfl | cons _ _ => simp at hn
    subst this; rfl
  | succ n ih =>
    intro t hn
    cases SpellingLemmas.skipWSC_step t with
    | nil h => subst h; rfl
    | ws c cs hs hw he =>
      subst hs
      have e : lower (c :: cs) = lowerCp c :: lower cs := rfl
      rw [e, SpellingLemmas.skipWSC_ws _ _ (by rw [isCssWs_lowerCp']; exact hw), he]
      exact ih cs (by simp at hn; omega)
    | comment cs u hs hd he =>
      subst hs
      have hl := SpellingLemmas.dropComment_length _ _ hd
      have e : lower (47 :: 42 :: cs) = 47 :: 42 :: lower cs := rfl
      rw [e, SpellingLemmas.skipWSC_comment (lower cs) (lower u) (by rw [dropComment_lower, hd]; rfl), he]
      exact ih u (by simp at hn; omega)
    | stop hne he =>
      rw [he]
      cases t with
      | nil => exact absurd rfl hne
      | cons c cs =>
        have e : lower (c :: cs) = lowerCp c :: lower cs := rfl
        rw [e]
        rw [SpellingLemmas.skipWSC_cons] at he ⊢
        rw [isCssWs_lowerCp', lowerCp_eq_small c 47 (by omega), head?_lower_eq_small cs 42 (by omega)]
        by_cases hw : isCssWs c = true
        · exfalso
          rw [if_pos hw] at he
          have h1 : (skipWSC cs).length ≤ cs.length := by
            obtain ⟨g, _, hg⟩ := C09.skipWSC_removes_gap cs
            have := congrArg List.length hg.1
            simp only [List.length_append] at this; omega
          have := congrArg List.length he
          simp only [List.length_cons] at this; omega
        · rw [if_neg hw] at he ⊢
          by_cases hc : (c == 47 && cs.head? == some 42) = true
          · rw [if_pos hc] at he ⊢
            have e2 : (lower cs).tail = lower cs.tail := by cases cs <;> rfl
            rw [e2, dropComment_lower]
            cases hd : dropComment cs.tail with
            | none => rfl
            | some u =>
              exfalso
              rw [hd] at he
              simp only at he
              have hl := SpellingLemmas.dropComment_length _ _ hd
              have h1 : (skipWSC u).length ≤ u.length := by
                obtain ⟨g, _, hg⟩ := C09.skipWSC_removes_gap u
                have := congrArg List.length hg.1
                simp only [List.length_append] at this; omega
              have := congrArg List.length he
              have h2 : cs.tail.length ≤ cs.length := by simp
              simp only [List.length_cons] at this; omega
          · rw [if_neg hc]

theorem isGap_lower {g : Str} (h : isGap g) : isGap (lower g) := by
  unfold isGap at h ⊢
  rw [skipWSC_lower g.length g (Nat.le_refl _), h]; rfl

/-! ### The spelled An+B and its value -/

theorem lower_digits (D : Str) (h : ∀ x ∈ D, isDigit x = true) : lower D = D := by
  induction D with
  | nil => rfl
  | cons d ds ih =>
    have hd := h d (by simp)
    simp only [isDigit, Bool.and_eq_true, decide_eq_true_eq] at hd
    have : lowerCp d = d := by simp only [lowerCp]; rw [if_neg (by omega)]
    show lowerCp d :: lower ds = d :: ds
    rw [this, ih (fun x hx => h x (by simp [hx]))]

theorem lowerCp_sign (x : Nat) (h : isSign x = true) : lowerCp x = x := by
  simp only [isSign, Bool.or_eq_true, beq_iff_eq] at h
  rcases h with h | h <;> subst h <;> rfl

theorem lowerCp_n (x : Nat) (h : isN x = true) : lowerCp x = 110 := by
  simp only [isN, Bool.or_eq_true, beq_iff_eq] at h
  rcases h with h | h <;> subst h <;> rfl

/-- The lower-cased text of a spelled An+B is again one (with lower-cased gaps). -/
def lowerTail : Option (Str × Nat × Str × Str) → Option (Str × Nat × Str × Str)
  | none => none
  | some (g, s2, g', D2) => some (lower g, s2, lower g', D2)

theorem lower_lin (sg : Option Nat) (D : Str) (n : Option Nat) (T : Option (Str × Nat × Str × Str))
    (hok : (SAnB.lin sg D n T).ok) :
    lower (SAnB.lin sg D n T).render = (SAnB.lin sg D (n.map fun _ => 110) (lowerTail T)).render ∧
      (SAnB.lin sg D (n.map fun _ => 110) (lowerTail T)).ok := by
  obtain ⟨hsg, hD, hn, hne, hT⟩ := hok
  constructor
  · simp only [SAnB.render, SpellingLemmas.lower_append, lower_digits D hD]
    congr 1
    · cases sg with
      | none => rfl
      | some x => show [lowerCp x] = [x]; rw [lowerCp_sign x (hsg x rfl)]
    · congr 1
      congr 1
      · cases n with
        | none => rfl
        | some x => show [lowerCp x] = [110]; rw [lowerCp_n x (hn x rfl)]
      · cases T with
        | none => rfl
        | some q =>
          obtain ⟨g, s2, g', D2⟩ := q
          obtain ⟨_, _, hs2, _, _, hD2⟩ := hT
          simp only [tailText, lowerTail, SpellingLemmas.lower_append]
          congr 1
          show lowerCp s2 :: lower (g' ++ D2) = _
          rw [lowerCp_sign s2 hs2, SpellingLemmas.lower_append, lower_digits D2 hD2]
  · refine ⟨hsg, hD, ?_, ?_, ?_⟩
    · intro x hx
      cases n with
      | none => cases hx
      | some y => simp at hx; subst hx; rfl
    · rcases hne with h | h
      · exact Or.inl h
      · right; cases n with | none => cases h | some y => rfl
    · cases T with
      | none => trivial
      | some q =>
        obtain ⟨g, s2, g', D2⟩ := q
        obtain ⟨h1, h2, h3, h4, h5, h6⟩ := hT
        refine ⟨?_, isGap_lower h2, h3, isGap_lower h4, h5, h6⟩
        cases n with | none => cases h1 | some y => rfl

theorem canon_ok (sg : Option Nat) (D : Str) (n : Option Nat) (T : Option (Str × Nat × Str × Str))
    (hok : (SAnB.lin sg D n T).ok) :
    (SAnB.lin sg D n T).canon =
      (SAnB.lin sg D (n.map fun _ => 110) (T.map fun q => ([], q.2.1, [], q.2.2.2))).render ∧
    (SAnB.lin sg D (n.map fun _ => 110) (T.map fun q => ([], q.2.1, [], q.2.2.2))).ok := by
  obtain ⟨hsg, hD, hn, hne, hT⟩ := hok
  refine ⟨rfl, hsg, hD, ?_, ?_, ?_⟩
  · intro x hx
    cases n with
    | none => cases hx
    | some y => simp at hx; subst hx; rfl
  · rcases hne with h | h
    · exact Or.inl h
    · right; cases n with | none => cases h | some y => rfl
  · cases T with
    | none => trivial
    | some q =>
      obtain ⟨g, s2, g', D2⟩ := q
      obtain ⟨h1, h2, h3, h4, h5, h6⟩ := hT
      refine ⟨?_, C09.gap_nil, h3, C09.gap_nil, h5, h6⟩
      cases n with | none => cases h1 | some y => rfl

theorem parseAnB_kw (P : PEnv) : parseAnB P "even".toStr = (2, true, 0) ∧ parseAnB P "odd".toStr = (2, true, 1) := by
  constructor
  · simp [parseAnB]
  · have : ("odd".toStr == "even".toStr) = false := by decide
    simp [parseAnB, this]

/-- **An+B does not depend on its spelling**: `parse_pseudo_nth`'s reading of the lower-cased group text is
    its reading of the canonical text (lower case, no gaps). -/
theorem parseAnB_spelled (B' : Builtins) (pat' : Str) (a : SAnB) (hok : a.ok) :
    parseAnB (penv B pat) (lower a.render) = parseAnB (penv B' pat') a.canon := by
  cases a with
  | even m =>
    have hl : lower (mixCase m "even".toStr) = "even".toStr :=
      SpellingLemmas.lower_mixCase m _ (by decide)
    simp only [SAnB.render, SAnB.canon, hl]
    rw [(parseAnB_kw _).1, (parseAnB_kw _).1]
  | odd m =>
    have hl : lower (mixCase m "odd".toStr) = "odd".toStr :=
      SpellingLemmas.lower_mixCase m _ (by decide)
    simp only [SAnB.render, SAnB.canon, hl]
    rw [(parseAnB_kw _).2, (parseAnB_kw _).2]
  | lin sg D n T =>
    obtain ⟨h1, h2⟩ := lower_lin sg D n T hok
    obtain ⟨h3, h4⟩ := canon_ok sg D n T hok
    rw [h1, h3, parseAnB_lin B pat _ _ _ _ h2, parseAnB_lin B' pat' _ _ _ _ h4]
    cases T with
    | none => rfl
    | some q => obtain ⟨g, s2, g', D2⟩ := q; rfl

end Compile
end Refine
end SoupVerif

#print axioms SoupVerif.Refine.Compile.parseAnB_lin
#print axioms SoupVerif.Refine.Compile.isGap_lower
#print axioms SoupVerif.Refine.Compile.parseAnB_spelled
