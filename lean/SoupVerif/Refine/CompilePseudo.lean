/-
  Pseudo-class tokens: `:name` (the `pseudo_class` token without parenthesis), `:name(` + gap (with),
  and the closing `)`; the `special` and `pseudo_class_custom` slots that come first in the table fail.
-/
import SoupVerif.Refine.CompileAttr
import SoupVerif.Refine.CompileStep
namespace SoupVerif
namespace Refine
namespace Compile
open Rx RxBasic SoupVerif.Parser ParserProgress Escape Spelling
open Wsc (gapRx unitEnd wsEnd commentEnd gapEnd)
open Ident (rxHead rxStar contStep contLen single IdentFold)

/-! ### Shapes -/

def rxColonIdent : Rx := .seq [.lit 58 true, rxHead, rxStar]
def rxOpen : Rx := .group 2 (.seq [.lit 40 true, gapRx true])

theorem tok_special_name_shape : Gen.tok_special_name = .seq [.group 1 rxColonIdent, rxOpen] := rfl
theorem tok_pseudo_class_shape :
    Gen.tok_pseudo_class = .seq [.group 1 rxColonIdent, .rep 0 (some 1) true rxOpen] := rfl
theorem tok_custom_shape : Gen.tok_pseudo_class_custom =
    .group 1 (.seq [.lit 58 true, .look true false (.seq [.lit 45 true, .lit 45 true]), rxHead, rxStar]) := rfl

variable (s : Str)

theorem colonIdent_runs {i : Nat} (c : Caps) (h58 : s[i]? = some 58) :
    runs pyFoldEnv s rxColonIdent i c = runs pyFoldEnv s rxIdent (i + 1) c := by
  unfold rxColonIdent rxIdent
  rw [runs_seq, lit_ok pyFoldEnv s 58 _ i c h58, runs_seq]

theorem open_fail {j : Nat} (c : Caps) (rs : List Rx) (h : s[j]? ≠ some 40) :
    runsSeq pyFoldEnv s (rxOpen :: rs) j c = [] := by
  unfold rxOpen
  apply runsSeq_group_nil
  rw [runs_seq]
  exact lit_fail Ident.identFold_py s 40 (by omega) _ j c h

theorem open_fail_at_unit {j : Nat} (c : Caps) (rs : List Rx) (h : (contStep (s.drop j)).isSome = true) :
    runsSeq pyFoldEnv s (rxOpen :: rs) j c = [] := by
  apply open_fail
  obtain ⟨x, cs, hd, hx⟩ := contStep_head h
  rw [getElem?_of_drop_cons hd]
  intro e; cases e
  rcases hx with hx | hx
  · simp [identContChar] at hx
  · omega

/-- `:name` not followed by `(`: the `special` slot does not apply. -/
theorem special_name_none {i : Nat} {forms : List (Nat × EscForm)} {r : Str}
    (hd : s.drop i = 58 :: (renderIdentWith forms ++ r))
    (hv : validForms forms r = true) (hh : headOk forms = true) (hr : ¬ continuesIdent r)
    (h40 : r.head? ≠ some 40) :
    matchAt pyFoldEnv Gen.tok_special_name s i = none := by
  have h58 := getElem?_of_drop_cons hd
  have hd1 : s.drop (i + 1) = renderIdentWith forms ++ r := Ident.drop_succ_of_drop_cons hd
  have hil := lt_of_drop_cons hd
  have hscan := C09.scan_any_spelling_ctx forms r hv hh hr
  rw [← hd1] at hscan
  rw [tok_special_name_shape]
  unfold matchAt
  rw [runs_seq, runsSeq_group_cons, colonIdent_runs s [] h58,
    ident_flatMap Ident.identFold_py s (i + 1) []
      (fun x => runsSeq pyFoldEnv s [rxOpen] x.1 ((1, i, x.1) :: x.2.filter (fun e => e.1 != 1)))
      (by omega) (fun j c hj => open_fail_at_unit s _ _ hj), hscan]
  simp only
  rw [open_fail s _ _ (by
    rw [← List.head?_drop, drop_add_of_drop_append hd1]; exact h40)]
  rfl

/-- `:name` where the name does not begin with `-`: not a custom pseudo-class `:--name`. -/
theorem custom_none {i x : Nat} {cs : Str} (hd : s.drop i = 58 :: x :: cs) (hx : x ≠ 45) :
    matchAt pyFoldEnv Gen.tok_pseudo_class_custom s i = none := by
  have h58 := getElem?_of_drop_cons hd
  have hx1 := getElem?_of_drop_cons (Ident.drop_succ_of_drop_cons hd)
  rw [tok_custom_shape]
  unfold matchAt
  rw [runs_group, runs_seq, lit_ok pyFoldEnv s 58 _ i [] h58, runsSeq_cons, runs, runs_seq,
    lit_fail Ident.identFold_py s 45 (by omega) _ (i + 1) [] (by rw [hx1]; simpa using hx)]
  rfl

/-- The `pseudo_class` token on `:name` not followed by `(`. -/
theorem pseudo_class_matchAt_simple {i : Nat} {forms : List (Nat × EscForm)} {r : Str}
    (hd : s.drop i = 58 :: (renderIdentWith forms ++ r))
    (hv : validForms forms r = true) (hh : headOk forms = true) (hr : ¬ continuesIdent r)
    (h40 : r.head? ≠ some 40) :
    matchAt pyFoldEnv Gen.tok_pseudo_class s i =
      some (i + 1 + (renderIdentWith forms).length, [(1, i, i + 1 + (renderIdentWith forms).length)]) := by
  have h58 := getElem?_of_drop_cons hd
  have hd1 : s.drop (i + 1) = renderIdentWith forms ++ r := Ident.drop_succ_of_drop_cons hd
  have hil := lt_of_drop_cons hd
  have hscan := C09.scan_any_spelling_ctx forms r hv hh hr
  rw [← hd1] at hscan
  obtain ⟨rest, hrest⟩ := ident_runs_head Ident.identFold_py s (i + 1) [] (by omega) _ hscan
  rw [tok_pseudo_class_shape]
  unfold matchAt
  rw [runs_seq, runsSeq_group_cons, colonIdent_runs s [] h58, hrest]
  apply head?_flatMap_cons
  simp only [List.filter_nil]
  rw [runsSeq_opt_cons, open_fail s _ _ (by
    rw [← List.head?_drop, drop_add_of_drop_append hd1]; exact h40), runsSeq_nil]
  rfl

/-! ### `selector_iter` at `:` -/

def pclassTok (i j : Nat) (caps : Caps) : Token :=
  { name := "pseudo_class", rx := ⟨"pseudo_class", Gen.tok_pseudo_class, Gen.tok_pseudo_class_groups⟩,
    start := i, stop := j, caps := caps }

theorem skip_colon : (Gen.lexicon.tokens.take 1).all (fun t => !slotFirst 58 t) = true := by
  decide +kernel

variable (B : Builtins)

/-- At `:`: `pseudo_close` fails on its first character; if the `special` slot's name pattern and the
    custom pattern fail, the `pseudo_class` token decides. -/
theorem matchToken_colon {i j : Nat} {caps : Caps} (h58 : s[i]? = some 58)
    (hsp : matchAt pyFoldEnv Gen.tok_special_name s i = none)
    (hcu : matchAt pyFoldEnv Gen.tok_pseudo_class_custom s i = none)
    (hm : matchAt pyFoldEnv Gen.tok_pseudo_class s i = some (j, caps)) :
    matchToken (penv B s) i Gen.lexicon.tokens = some (pclassTok i j caps) := by
  have hk : keyOf s[i]? = 58 := by rw [h58]; rfl
  rw [matchToken_skip B s i 1 _ (by rw [hk]; exact skip_colon)]
  show matchToken (penv B s) i ((default, true) ::
    (⟨"pseudo_class_custom", Gen.tok_pseudo_class_custom, Gen.tok_pseudo_class_custom_groups⟩, false) ::
    (⟨"pseudo_class", Gen.tok_pseudo_class, Gen.tok_pseudo_class_groups⟩, false) :: _) = _
  have hsp' : matchAt (penv B s).env (penv B s).L.specialName.rx (penv B s).pattern i = none := hsp
  have hcu' : matchAt (penv B s).env Gen.tok_pseudo_class_custom (penv B s).pattern i = none := hcu
  have hm' : matchAt (penv B s).env Gen.tok_pseudo_class (penv B s).pattern i = some (j, caps) := hm
  simp only [matchToken, if_true, Bool.false_eq_true, if_false, hsp', hcu', hm']
  rfl

theorem nextToken_pseudo_simple {i x : Nat} {forms : List (Nat × EscForm)} {xs r : Str}
    (hd : s.drop i = 58 :: (renderIdentWith forms ++ r)) (hxs : renderIdentWith forms = x :: xs)
    (hx : x ≠ 45)
    (hv : validForms forms r = true) (hh : headOk forms = true) (hr : ¬ continuesIdent r)
    (h40 : r.head? ≠ some 40) :
    nextToken (penv B s) i =
      .ok (some (pclassTok i (i + 1 + (renderIdentWith forms).length)
        [(1, i, i + 1 + (renderIdentWith forms).length)])) := by
  rw [nextToken_noGap B s hd (by simp [noGapStart, isCssWs]),
    matchToken_colon s B (getElem?_of_drop_cons hd) (special_name_none s hd hv hh hr h40)
      (custom_none s (x := x) (cs := xs ++ r) (by rw [hd, hxs]; rfl) hx)
      (pseudo_class_matchAt_simple s hd hv hh hr h40)]

/-! ### The parser at a pseudo-class without arguments -/

/-- `css_unescape` of the token text `:name`. -/
theorem unescape_colon_forms (forms : List (Nat × EscForm)) (hv : Valid forms)
    (hcp : ∀ p ∈ forms, rangeOk p.1 p.2 = true) :
    Parser.cssUnescape pyFoldEnv Gen.lexicon (58 :: renderIdentWith forms) = 58 :: valueOf forms := by
  have hr : cssUnescapeRaises (58 :: renderIdentWith forms) = false := by
    have := raises_forms forms [] hv (by simp)
    simpa [cssUnescapeRaises, cssUnescapeRaisesAux] using this
  rw [Refine.cssUnescape_pyFold _ hr]
  have := C09.unescape_any_spelling_fine forms hv hcp
  simp only [Escape.cssUnescape] at this ⊢
  rw [← this]
  simp [cssUnescapeAux]

/-- What a pseudo-class without arguments does to the builder: the table of simple pseudo-classes, or
    "no match" for the recognised ones that can never match. -/
def plainPseudo (B : Builtins) (name : Str) (sel : SelB) : SelB :=
  if inList Gen.lexicon.pseudoSimple name then
    applySimplePseudo ⟨pyFoldEnv, Gen.lexicon, B, []⟩ name sel
  else sel.setNoMatch

section Loop
variable (env : CharEnv) (L : Lexicon) (pattern : Str) (fuel flags : Nat) (st : LS) (t : Token)

theorem parseLoop_pseudo_nomatch (h : nextToken ⟨env, L, B, pattern⟩ st.pos = .ok (some t))
    (hk : t.name = "pseudo_class")
    (hopen : t.group ⟨env, L, B, pattern⟩ "open" = none)
    (hnot : inList L.pseudoSimple
      (lower (Parser.cssUnescape env L ((t.group ⟨env, L, B, pattern⟩ "name").getD []))) = false)
    (hin : inList L.pseudoSimpleNoMatch
      (lower (Parser.cssUnescape env L ((t.group ⟨env, L, B, pattern⟩ "name").getD []))) = true) :
    parseLoop env L B pattern (fuel + 1) flags st =
      parseLoop env L B pattern fuel flags
        { st with pos := t.stop, sel := st.sel.setNoMatch, hasSelector := true, index := t.stop } := by
  rw [parseLoop]
  simp only [h, hk, hopen]
  simp [hnot, hin]

end Loop

variable (fuel flags : Nat) (st : LS)

/-- `:name` for a name (in any admissible spelling and letter case) of the simple tables. -/
theorem step_pseudo_plain {forms : List (Nat × EscForm)} {x : Nat} {xs r : Str}
    (hd : s.drop st.pos = 58 :: (renderIdentWith forms ++ r)) (hxs : renderIdentWith forms = x :: xs)
    (hx : x ≠ 45)
    (hv : validForms forms r = true) (hh : headOk forms = true) (hr : ¬ continuesIdent r)
    (h40 : r.head? ≠ some 40) (hcp : ∀ p ∈ forms, rangeOk p.1 p.2 = true)
    (hin : inList Gen.lexicon.pseudoSimple (58 :: lower (valueOf forms)) = true ∨
      inList Gen.lexicon.pseudoSimpleNoMatch (58 :: lower (valueOf forms)) = true) :
    ∃ p idx, s.drop p = r ∧
      parseLoop pyFoldEnv Gen.lexicon B s (fuel + 1) flags st =
        parseLoop pyFoldEnv Gen.lexicon B s fuel flags
          { st with pos := p, index := idx,
                    sel := plainPseudo B (58 :: lower (valueOf forms)) st.sel, hasSelector := true } := by
  have hnt := nextToken_pseudo_simple s B hd hxs hx hv hh hr h40
  have hd1 : s.drop (st.pos + 1) = renderIdentWith forms ++ r := Ident.drop_succ_of_drop_cons hd
  have hstop := drop_add_of_drop_append hd1
  have hsl : slice s st.pos (st.pos + 1 + (renderIdentWith forms).length) = 58 :: renderIdentWith forms := by
    have := slice_of_drop_append (s := s) (p := st.pos) (a := 58 :: renderIdentWith forms) (r := r)
      (by rw [hd]; rfl)
    rw [← this]; congr 1; simp only [List.length_cons]; omega
  have hg1 : (pclassTok st.pos (st.pos + 1 + (renderIdentWith forms).length)
      [(1, st.pos, st.pos + 1 + (renderIdentWith forms).length)]).group (penv B s) "name" =
      some (58 :: renderIdentWith forms) := by
    simp [Token.group, Parser.group, pclassTok, Gen.tok_pseudo_class_groups, capSpan, hsl]
  have hg2 : (pclassTok st.pos (st.pos + 1 + (renderIdentWith forms).length)
      [(1, st.pos, st.pos + 1 + (renderIdentWith forms).length)]).group (penv B s) "open" = none := by
    simp [Token.group, Parser.group, pclassTok, Gen.tok_pseudo_class_groups, capSpan]
  have hname : lower (Parser.cssUnescape pyFoldEnv Gen.lexicon
      (((pclassTok st.pos (st.pos + 1 + (renderIdentWith forms).length)
        [(1, st.pos, st.pos + 1 + (renderIdentWith forms).length)]).group (penv B s) "name").getD [])) =
      58 :: lower (valueOf forms) := by
    rw [hg1]
    simp only [Option.getD_some]
    rw [unescape_colon_forms forms (SpellingLemmas.validForms_nil_of forms r hv) hcp]
    rfl
  refine ⟨_, st.pos + 1 + (renderIdentWith forms).length, hstop, ?_⟩
  by_cases hs : inList Gen.lexicon.pseudoSimple (58 :: lower (valueOf forms)) = true
  · rw [C09.parseLoop_pseudo_simple _ _ _ _ _ _ _ _ hnt rfl
      (by intro o ho; simp only [penv] at hg2; rw [hg2] at ho; cases ho)
      (by simp only [penv] at hname; rw [hname]; exact hs)]
    simp only [penv] at hname
    rw [hname]
    simp only [plainPseudo, hs, if_true]
    rfl
  · have hs' : inList Gen.lexicon.pseudoSimple (58 :: lower (valueOf forms)) = false := by simpa using hs
    have hn : inList Gen.lexicon.pseudoSimpleNoMatch (58 :: lower (valueOf forms)) = true := by
      rcases hin with h | h
      · exact absurd h hs
      · exact h
    rw [parseLoop_pseudo_nomatch B _ _ _ _ _ _ _ hnt rfl (by simp only [penv] at hg2; exact hg2)
      (by simp only [penv] at hname; rw [hname]; exact hs')
      (by simp only [penv] at hname; rw [hname]; exact hn)]
    simp only [plainPseudo, hs', Bool.false_eq_true, if_false]
    rfl

/-! ### `:name(` + gap -/

section Open
variable {i : Nat} {forms : List (Nat × EscForm)} {g₁ R : Str}

/-- The runs of `\( WSC*` at a `(`: first the end of the maximal gap after it. -/
theorem open_head {e : Nat} (c : Caps) (hd : s.drop e = 40 :: (g₁ ++ R)) (hg : isGap g₁)
    (hR : noGapStart R = true) (rs : List Rx) (b : Nat × Caps)
    (hk : (runsSeq pyFoldEnv s rs (e + 1 + g₁.length)
      ((2, e, e + 1 + g₁.length) :: c.filter (fun x => x.1 != 2))).head? = some b) :
    (runsSeq pyFoldEnv s (rxOpen :: rs) e c).head? = some b := by
  have h40 := getElem?_of_drop_cons hd
  have hd1 : s.drop (e + 1) = g₁ ++ R := Ident.drop_succ_of_drop_cons hd
  have hel := lt_of_drop_cons hd
  unfold rxOpen
  rw [runsSeq_group_cons, runs_seq, lit_ok pyFoldEnv s 40 _ e c h40, Wsc.runsSeq_single]
  obtain ⟨_, _, _, _, rest, hruns, _⟩ := Wsc.gap_runs (env := pyFoldEnv) true
    (fun _ => Wsc.caseFree_pyFold) s (e + 1) (by omega) c
  rw [hruns, gapEnd_of_drop hd1 hg hR (by omega)]
  exact head?_flatMap_cons _ _ _ _ hk

/-- `:name(` gap — the name pattern of the `special` slot and the `pseudo_class` token both match up to
    the end of the gap. -/
theorem colon_open_heads
    (hd : s.drop i = 58 :: (renderIdentWith forms ++ (40 :: (g₁ ++ R))))
    (hv : validForms forms (40 :: (g₁ ++ R)) = true) (hh : headOk forms = true)
    (hg : isGap g₁) (hR : noGapStart R = true) :
    matchAt pyFoldEnv Gen.tok_special_name s i =
      some (i + 1 + (renderIdentWith forms).length + 1 + g₁.length,
        [(2, i + 1 + (renderIdentWith forms).length, i + 1 + (renderIdentWith forms).length + 1 + g₁.length),
         (1, i, i + 1 + (renderIdentWith forms).length)]) ∧
    matchAt pyFoldEnv Gen.tok_pseudo_class s i =
      some (i + 1 + (renderIdentWith forms).length + 1 + g₁.length,
        [(2, i + 1 + (renderIdentWith forms).length, i + 1 + (renderIdentWith forms).length + 1 + g₁.length),
         (1, i, i + 1 + (renderIdentWith forms).length)]) := by
  have h58 := getElem?_of_drop_cons hd
  have hd1 : s.drop (i + 1) = renderIdentWith forms ++ (40 :: (g₁ ++ R)) := Ident.drop_succ_of_drop_cons hd
  have hde := drop_add_of_drop_append hd1
  have hil := lt_of_drop_cons hd
  have hscan := C09.scan_any_spelling_ctx forms _ hv hh (by simp [continuesIdent, identContChar])
  rw [← hd1] at hscan
  constructor
  · rw [tok_special_name_shape]
    unfold matchAt
    rw [runs_seq, runsSeq_group_cons, colonIdent_runs s [] h58,
      ident_flatMap Ident.identFold_py s (i + 1) []
        (fun x => runsSeq pyFoldEnv s [rxOpen] x.1 ((1, i, x.1) :: x.2.filter (fun e => e.1 != 1)))
        (by omega) (fun j c hj => open_fail_at_unit s _ _ hj), hscan]
    simp only [List.filter_nil]
    exact open_head s _ hde hg hR [] _ (by rw [runsSeq_nil]; rfl)
  · obtain ⟨rest, hrest⟩ := ident_runs_head Ident.identFold_py s (i + 1) [] (by omega) _ hscan
    rw [tok_pseudo_class_shape]
    unfold matchAt
    rw [runs_seq, runsSeq_group_cons, colonIdent_runs s [] h58, hrest]
    apply head?_flatMap_cons
    simp only [List.filter_nil]
    rw [runsSeq_opt_cons]
    apply Ident.head?_append_of_some
    exact open_head s _ hde hg hR [] _ (by rw [runsSeq_nil]; rfl)

end Open

/-- At `:name(`, when the (lower-cased, unescaped) name is not one of the special pseudo-classes. -/
theorem matchToken_colon_open {i j j' : Nat} {caps caps' : Caps} (h58 : s[i]? = some 58)
    (hsp : matchAt pyFoldEnv Gen.tok_special_name s i = some (j', caps'))
    (hfind : Gen.lexicon.special.find? (fun e => e.1 ==
      lower (Parser.cssUnescape pyFoldEnv Gen.lexicon
        ((Parser.group s Gen.lexicon.specialName caps' "name").getD []))) = none)
    (hcu : matchAt pyFoldEnv Gen.tok_pseudo_class_custom s i = none)
    (hm : matchAt pyFoldEnv Gen.tok_pseudo_class s i = some (j, caps)) :
    matchToken (penv B s) i Gen.lexicon.tokens = some (pclassTok i j caps) := by
  have hk : keyOf s[i]? = 58 := by rw [h58]; rfl
  rw [matchToken_skip B s i 1 _ (by rw [hk]; exact skip_colon)]
  show matchToken (penv B s) i ((default, true) ::
    (⟨"pseudo_class_custom", Gen.tok_pseudo_class_custom, Gen.tok_pseudo_class_custom_groups⟩, false) ::
    (⟨"pseudo_class", Gen.tok_pseudo_class, Gen.tok_pseudo_class_groups⟩, false) :: _) = _
  have hsp' : matchAt (penv B s).env (penv B s).L.specialName.rx (penv B s).pattern i = some (j', caps') := hsp
  have hcu' : matchAt (penv B s).env Gen.tok_pseudo_class_custom (penv B s).pattern i = none := hcu
  have hm' : matchAt (penv B s).env Gen.tok_pseudo_class (penv B s).pattern i = some (j, caps) := hm
  have hfind' : (penv B s).L.special.find? (fun e => e.1 ==
      lower (Parser.cssUnescape (penv B s).env (penv B s).L
        ((Parser.group (penv B s).pattern (penv B s).L.specialName caps' "name").getD []))) = none := hfind
  simp only [matchToken, if_true, Bool.false_eq_true, if_false, hsp', hcu', hm', hfind']
  rfl

theorem nextToken_pseudo_open {i x : Nat} {forms : List (Nat × EscForm)} {xs g₁ R : Str}
    (hd : s.drop i = 58 :: (renderIdentWith forms ++ (40 :: (g₁ ++ R))))
    (hxs : renderIdentWith forms = x :: xs) (hx : x ≠ 45)
    (hv : validForms forms (40 :: (g₁ ++ R)) = true) (hh : headOk forms = true)
    (hcp : ∀ p ∈ forms, rangeOk p.1 p.2 = true)
    (hg : isGap g₁) (hR : noGapStart R = true)
    (hfind : Gen.lexicon.special.find? (fun e => e.1 == 58 :: lower (valueOf forms)) = none) :
    nextToken (penv B s) i =
      .ok (some (pclassTok i (i + 1 + (renderIdentWith forms).length + 1 + g₁.length)
        [(2, i + 1 + (renderIdentWith forms).length, i + 1 + (renderIdentWith forms).length + 1 + g₁.length),
         (1, i, i + 1 + (renderIdentWith forms).length)])) := by
  obtain ⟨h1, h2⟩ := colon_open_heads s hd hv hh hg hR
  have hsl : slice s i (i + 1 + (renderIdentWith forms).length) = 58 :: renderIdentWith forms := by
    have := slice_of_drop_append (s := s) (p := i) (a := 58 :: renderIdentWith forms)
      (r := 40 :: (g₁ ++ R)) (by rw [hd]; rfl)
    rw [← this]; congr 1; simp only [List.length_cons]; omega
  rw [nextToken_noGap B s hd (by simp [noGapStart, isCssWs]),
    matchToken_colon_open s B (getElem?_of_drop_cons hd) h1
      (by
        have : Parser.group s Gen.lexicon.specialName
            [(2, i + 1 + (renderIdentWith forms).length, i + 1 + (renderIdentWith forms).length + 1 + g₁.length),
             (1, i, i + 1 + (renderIdentWith forms).length)] "name" = some (58 :: renderIdentWith forms) := by
          simp [Parser.group, Gen.lexicon, Gen.tok_special_name_groups, capSpan, hsl]
        rw [this]
        simp only [Option.getD_some]
        rw [unescape_colon_forms forms (SpellingLemmas.validForms_nil_of forms _ hv) hcp]
        exact hfind)
      (custom_none s (x := x) (cs := xs ++ (40 :: (g₁ ++ R))) (by rw [hd, hxs]; rfl) hx) h2]

/-! ### The parser at `:name(` and at `)` -/

section Loop
variable (env : CharEnv) (L : Lexicon) (pattern : Str) (fuel flags : Nat) (st : LS) (t : Token)

/-- `:not(`, `:is(`, `:where(`, `:matches(`: the nested list is parsed with its own flags, then added. -/
theorem parseLoop_pseudo_open (h : nextToken ⟨env, L, B, pattern⟩ st.pos = .ok (some t))
    (hk : t.name = "pseudo_class") (o : Str)
    (hopen : t.group ⟨env, L, B, pattern⟩ "open" = some o) (hone : o.isEmpty = false)
    (pseudo : Str)
    (hp : lower (Parser.cssUnescape env L ((t.group ⟨env, L, B, pattern⟩ "name").getD [])) = pseudo)
    (hin : inList L.pseudoComplex pseudo = true) (fl : Nat)
    (hfl : (FLG_PSEUDO ||| FLG_OPEN |||
        (if pseudo == ":not".toStr then FLG_NOT
         else if pseudo == ":has".toStr then FLG_RELATIVE
         else if pseudo == ":where".toStr || pseudo == ":is".toStr then FLG_FORGIVE else 0)) = fl)
    (l : SelList) (pos' : Nat) (custom' : Custom)
    (hsub : parseSelectors env L B pattern fuel t.stop t.stop fl st.custom = .ok (l, pos', custom')) :
    parseLoop env L B pattern (fuel + 1) flags st =
      parseLoop env L B pattern fuel flags
        { st with pos := pos', sel := st.sel.addSub l, hasSelector := true, index := t.stop,
                  custom := custom' } := by
  rw [parseLoop]
  simp only [h, hk, hopen, hp]
  have e1 : ("pseudo_class" == "at_rule") = false := by decide
  have e2 : ("pseudo_class" == "amp") = false := by decide
  have e3 : ("pseudo_class" == "pseudo_class_custom") = false := by decide
  have e4 : ("pseudo_class" == "pseudo_class") = true := by decide
  simp only [e1, e2, e3, e4, Bool.false_eq_true, if_false, if_true, hone, Bool.not_false, Bool.true_and,
    hin, hfl, hsub]

/-- `)` closes the nested list. -/
theorem parseLoop_close (h : nextToken ⟨env, L, B, pattern⟩ st.pos = .ok (some t))
    (hk : t.name = "pseudo_close") (hs : st.hasSelector = true)
    (hopen : ((flags &&& FLG_OPEN) != 0) = true) :
    parseLoop env L B pattern (fuel + 1) flags st = .ok { st with pos := t.stop, closed := true } := by
  rw [parseLoop]
  simp only [h, hk]
  simp [hs, hopen]

end Loop

def closeTok (i j : Nat) : Token :=
  { name := "pseudo_close", rx := ⟨"pseudo_close", Gen.tok_pseudo_close, Gen.tok_pseudo_close_groups⟩,
    start := i, stop := j, caps := [] }

theorem nextToken_close {i : Nat} {g₂ r : Str} (hd : s.drop i = g₂ ++ 41 :: r) (hg : isGap g₂) :
    nextToken (penv B s) i = .ok (some (closeTok i (i + g₂.length + 1))) := by
  have hng : noGapStart (41 :: r) = true := by simp [noGapStart, isCssWs]
  have hsk : skipWSC (s.drop i) = 41 :: r := by rw [hd, C09.skipWSC_append g₂ _ hg hng]
  have hil : i < s.length := by
    rcases Nat.lt_or_ge i s.length with h | h
    · exact h
    · rw [List.drop_eq_nil_of_le h] at hd
      cases g₂ <;> cases hd
  unfold nextToken
  have h1 : ¬ (i + 1 > (penv B s).pattern.length) := by show ¬ (i + 1 > s.length); omega
  rw [if_neg h1]
  have h2 : (matchAt (penv B s).env (penv B s).L.reWsEnd (penv B s).pattern i).isSome = false := by
    show (matchAt pyFoldEnv Gen.cp_RE_WS_END s i).isSome = false
    rw [Wsc.ws_end_isSome pyFoldEnv s i (by omega), hsk]; rfl
  rw [h2]
  simp only [Bool.false_eq_true, if_false]
  have hpc : matchAt pyFoldEnv Gen.tok_pseudo_close s i = some (i + g₂.length + 1, []) := by
    rw [Wsc.pseudo_close_at Wsc.caseFree_pyFold s i (by omega), hsk]
    simp only [List.head?_cons, if_true]
    rw [gapEnd_of_drop hd hg hng (by omega)]
  have hmt : matchToken (penv B s) i (penv B s).L.tokens = some (closeTok i (i + g₂.length + 1)) := by
    show matchToken (penv B s) i
      ((⟨"pseudo_close", Gen.tok_pseudo_close, Gen.tok_pseudo_close_groups⟩, false) ::
        Gen.lexicon.tokens.drop 1) = _
    rw [matchToken]
    simp only [Bool.false_eq_true, if_false]
    have hpc' : matchAt (penv B s).env Gen.tok_pseudo_close (penv B s).pattern i =
        some (i + g₂.length + 1, []) := hpc
    rw [hpc']
    rfl
  rw [hmt]

variable (fuel flags : Nat) (st : LS)

theorem step_close {g₂ r : Str} (hd : s.drop st.pos = g₂ ++ 41 :: r) (hg : isGap g₂)
    (hs : st.hasSelector = true) (hopen : ((flags &&& FLG_OPEN) != 0) = true) :
    ∃ p, s.drop p = r ∧
      parseLoop pyFoldEnv Gen.lexicon B s (fuel + 1) flags st = .ok { st with pos := p, closed := true } := by
  refine ⟨st.pos + g₂.length + 1, ?_, ?_⟩
  · exact Ident.drop_succ_of_drop_cons (drop_add_of_drop_append hd)
  · rw [parseLoop_close B _ _ _ _ _ _ _ (nextToken_close s B hd hg) rfl hs hopen]
    rfl

end Compile
end Refine
end SoupVerif

#print axioms SoupVerif.Refine.Compile.pseudo_class_matchAt_simple
#print axioms SoupVerif.Refine.Compile.colon_open_heads
#print axioms SoupVerif.Refine.Compile.step_pseudo_plain
#print axioms SoupVerif.Refine.Compile.nextToken_pseudo_open
#print axioms SoupVerif.Refine.Compile.step_close
