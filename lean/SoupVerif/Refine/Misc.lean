/-
  Refinement proofs for the two document-side whitespace regexes of `css_match.py`:

      Gen.cm_RE_NOT_EMPTY   [^ \t\r\n\f]      used as  RE_NOT_EMPTY.search(child)   in `match_empty`
      Gen.cm_RE_NOT_WS      [^ \t\r\n\f]+     used as  RE_NOT_WS.findall(classes)   in `get_classes`

  Both have `ic = false` everywhere, so the theorems hold for an arbitrary `env : CharEnv`.

  Main theorems (end of the file), for ALL subjects `s`:
    not_empty_search   (Rx.search env Gen.cm_RE_NOT_EMPTY s).isSome = s.any (fun x => !isCssWs x)
                       -- the model `matchEmpty` (Model/Match.lean) uses the right-hand side
    not_ws_findall     findall env Gen.cm_RE_NOT_WS s = splitWs s
                       -- the model `getClasses` uses `splitWs` (Model/Py.lean)

  `findall` (defined here) is CPython's `pattern.findall` for a pattern without groups: scan left to
  right; every match found contributes its text; the next search starts at the end of the match;
  after an EMPTY match the next attempt at the same position must advance (sre's `must_advance`: the
  first run in priority order that is not empty), and if there is none the scan moves one character
  on.  Checked against the real `re.findall` at the end of the file.
-/
import SoupVerif.Lemmas.RxBasic
import SoupVerif.Generated.Regexes
namespace SoupVerif
namespace Refine
namespace Misc
open Rx RxBasic

/-! ### `findall` -/

/-- `s[i:j]`. -/
def slice (s : Str) (i j : Nat) : Str := (s.drop i).take (j - i)

/-- One attempt at position `i` (`adv`: an empty match is not acceptable — sre's `must_advance`). -/
def attempt (env : CharEnv) (r : Rx) (s : Str) (i : Nat) (adv : Bool) : Option (Nat × Caps) :=
  if adv then (runs env s r i []).find? (fun x => x.1 > i) else matchAt env r s i

/-- The scan of `findall`: `i` is the position of the next attempt. Every step either emits a
    non-empty match (the position grows), emits an empty match (then `adv` is set, once per
    position), or moves one character on; `2 * s.length + 3` steps suffice. -/
def findallGo (env : CharEnv) (r : Rx) (s : Str) : Nat → Nat → Bool → List Str
  | 0, _, _ => []
  | fuel + 1, i, adv =>
    if i > s.length then [] else
    match attempt env r s i adv with
    | some (j, _) => slice s i j :: findallGo env r s fuel j (j == i)
    | none => if i < s.length then findallGo env r s fuel (i + 1) false else []

/-- `pattern.findall(s)` for a pattern without capturing groups. -/
def findall (env : CharEnv) (r : Rx) (s : Str) : List Str :=
  findallGo env r s (2 * s.length + 3) 0 false

/-! ### The character class -/

/-- Not CSS whitespace. -/
def notWs (x : Nat) : Bool := !isCssWs x

theorem not_empty_shape :
    Gen.cm_RE_NOT_EMPTY = .set true [.ch 32, .ch 9, .ch 13, .ch 10, .ch 12] false := rfl

theorem not_ws_shape :
    Gen.cm_RE_NOT_WS = .rep 1 none true (.set true [.ch 32, .ch 9, .ch 13, .ch 10, .ch 12] false) := rfl

theorem class_sem (env : CharEnv) (c : Nat) :
    setHas env true [.ch 32, .ch 9, .ch 13, .ch 10, .ch 12] false c = notWs c := by
  simp only [setHas, List.any, itemHas, notWs, isCssWs, Bool.false_eq_true, if_false, Bool.or_false]
  by_cases h1 : c = 32
  · subst h1; rfl
  by_cases h2 : c = 9
  · subst h2; rfl
  by_cases h3 : c = 13
  · subst h3; rfl
  by_cases h4 : c = 10
  · subst h4; rfl
  by_cases h5 : c = 12
  · subst h5; rfl
  have e1 : (32 == c) = false := by simp; omega
  have e2 : (9 == c) = false := by simp; omega
  have e3 : (13 == c) = false := by simp; omega
  have e4 : (10 == c) = false := by simp; omega
  have e5 : (12 == c) = false := by simp; omega
  have f1 : (c == 32) = false := by simp; omega
  have f2 : (c == 9) = false := by simp; omega
  have f3 : (c == 13) = false := by simp; omega
  have f4 : (c == 10) = false := by simp; omega
  have f5 : (c == 12) = false := by simp; omega
  rw [e1, e2, e3, e4, e5, f1, f2, f3, f4, f5]; rfl

theorem class_isChar (env : CharEnv) (s : Str) :
    IsChar env s (.set true [.ch 32, .ch 9, .ch 13, .ch 10, .ch 12] false) notWs :=
  isChar_congr (isChar_set env s _ _ _) (class_sem env)

/-! ### `RE_NOT_EMPTY.search` -/

theorem not_empty_matchAt (env : CharEnv) (s : Str) (i : Nat) :
    matchAt env Gen.cm_RE_NOT_EMPTY s i =
      match s[i]? with
      | some x => if notWs x then some (i + 1, []) else none
      | none => none := by
  rw [not_empty_shape, matchAt, class_isChar env s i []]; unfold charBody
  cases s[i]? with
  | none => rfl
  | some x => dsimp only; cases notWs x <;> rfl

theorem not_empty_searchFrom (env : CharEnv) (s : Str) :
    ∀ (fuel i : Nat), s.length - i ≤ fuel →
      (searchFrom env Gen.cm_RE_NOT_EMPTY s fuel i).isSome = (s.drop i).any notWs
  | 0, i, hf => by
    rw [searchFrom, List.drop_eq_nil_of_le (by omega)]; rfl
  | fuel + 1, i, hf => by
    rw [searchFrom, not_empty_matchAt]
    rcases Nat.lt_or_ge i s.length with hlt | hge
    · rw [List.drop_eq_getElem_cons hlt, List.getElem?_eq_getElem hlt, List.any_cons]
      dsimp only
      cases hx : notWs s[i] with
      | true => simp
      | false =>
        simp only [Bool.false_eq_true, if_false, hlt, if_true, Bool.false_or]
        exact not_empty_searchFrom env s fuel (i + 1) (by omega)
    · rw [List.getElem?_eq_none hge, List.drop_eq_nil_of_le hge]
      simp only [if_neg (Nat.not_lt.mpr hge)]; rfl

/-- `RE_NOT_EMPTY.search(s, i) is not None` iff some character from `i` on is not CSS whitespace. -/
theorem not_empty_search_from (env : CharEnv) (s : Str) (i : Nat) :
    (Rx.search env Gen.cm_RE_NOT_EMPTY s i).isSome = (s.drop i).any (fun x => !isCssWs x) :=
  not_empty_searchFrom env s _ i (by omega)

/-- **Main theorem 1.** `RE_NOT_EMPTY.search(s) is not None` is the test used by `matchEmpty`. -/
theorem not_empty_search (env : CharEnv) (s : Str) :
    (Rx.search env Gen.cm_RE_NOT_EMPTY s).isSome = s.any (fun x => !isCssWs x) :=
  not_empty_search_from env s 0

/-- Where the match is: at the first non-whitespace character, one character long, no captures. -/
theorem not_empty_search_pos (env : CharEnv) (s : Str) :
    ∀ (fuel i : Nat), s.length - i ≤ fuel →
      searchFrom env Gen.cm_RE_NOT_EMPTY s fuel i =
        if (s.drop i).any notWs then
          some (i + ((s.drop i).takeWhile isCssWs).length, i + ((s.drop i).takeWhile isCssWs).length + 1, [])
        else none
  | 0, i, hf => by
    rw [searchFrom, List.drop_eq_nil_of_le (by omega)]; rfl
  | fuel + 1, i, hf => by
    rw [searchFrom, not_empty_matchAt]
    rcases Nat.lt_or_ge i s.length with hlt | hge
    · rw [List.drop_eq_getElem_cons hlt, List.getElem?_eq_getElem hlt, List.any_cons,
        List.takeWhile_cons]
      dsimp only
      cases hx : notWs s[i] with
      | true =>
        have : isCssWs s[i] = false := by simpa [notWs] using hx
        simp [this]
      | false =>
        have : isCssWs s[i] = true := by simpa [notWs] using hx
        simp only [Bool.false_eq_true, if_false, hlt, if_true, Bool.false_or, this, List.length_cons]
        rw [not_empty_search_pos env s fuel (i + 1) (by omega)]
        simp only [show ∀ n, i + 1 + n = i + (n + 1) by intro n; omega]
    · rw [List.getElem?_eq_none hge, List.drop_eq_nil_of_le hge]
      simp only [if_neg (Nat.not_lt.mpr hge)]; rfl

/-! ### `RE_NOT_WS.findall` -/

/-- The runs of `[^ \t\r\n\f]+` at `i`: from the whole maximal run of non-whitespace down to one
    character. -/
theorem not_ws_runs (env : CharEnv) (s : Str) (i : Nat) (caps : Caps) :
    runs env s Gen.cm_RE_NOT_WS i caps = down caps (i + 1) (i + spanLen s notWs i) := by
  rw [not_ws_shape, runs_rep_char (class_isChar env s)]; rfl

theorem not_ws_matchAt (env : CharEnv) (s : Str) (i : Nat) :
    matchAt env Gen.cm_RE_NOT_WS s i =
      if 1 ≤ spanLen s notWs i then some (i + spanLen s notWs i, []) else none := by
  rw [matchAt, not_ws_runs]
  by_cases h : 1 ≤ spanLen s notWs i
  · rw [if_pos h, head_down [] (by omega)]
  · rw [if_neg h, down_empty [] (by omega)]; rfl

/-- The recursion of `splitWs` from an empty accumulator. -/
def words (t : Str) : List Str := splitWs.go t []

theorem go_acc : ∀ (t cur : Str), cur ≠ [] →
    splitWs.go t cur = (cur.reverse ++ t.takeWhile notWs) :: splitWs.go (t.dropWhile notWs) []
  | [], cur, h => by
    cases cur with
    | nil => exact absurd rfl h
    | cons a cur => simp [splitWs.go]
  | c :: cs, cur, h => by
    cases cur with
    | nil => exact absurd rfl h
    | cons a cur =>
      rw [splitWs.go]
      cases hc : isCssWs c with
      | true =>
        have hn : notWs c = false := by simp [notWs, hc]
        simp only [if_true, List.isEmpty_cons, Bool.false_eq_true, if_false,
          List.takeWhile_cons, List.dropWhile_cons, hn, List.append_nil]
        rw [splitWs.go]; simp [hc]
      | false =>
        have hn : notWs c = true := by simp [notWs, hc]
        simp only [Bool.false_eq_true, if_false]
        rw [go_acc cs (c :: a :: cur) (by simp)]
        simp only [List.takeWhile_cons, List.dropWhile_cons, hn, if_true, List.reverse_cons,
          List.append_assoc, List.cons_append, List.nil_append]

theorem words_nil : words [] = [] := by simp [words, splitWs.go]

theorem words_ws {c : Nat} (cs : Str) (h : notWs c = false) : words (c :: cs) = words cs := by
  have hc : isCssWs c = true := by simpa [notWs] using h
  unfold words; rw [splitWs.go]; simp [hc]

theorem words_word {c : Nat} (cs : Str) (h : notWs c = true) :
    words (c :: cs) = (c :: cs).takeWhile notWs :: words ((c :: cs).dropWhile notWs) := by
  have hc : isCssWs c = false := by simpa [notWs] using h
  unfold words; rw [splitWs.go]
  simp only [hc, Bool.false_eq_true, if_false]
  rw [go_acc cs [c] (by simp)]
  simp [h]

theorem take_takeWhile (P : Nat → Bool) : ∀ t : Str, t.take (t.takeWhile P).length = t.takeWhile P
  | [] => rfl
  | c :: cs => by
    rw [List.takeWhile_cons]
    cases P c with
    | true => simp only [if_true, List.length_cons, List.take_succ_cons, take_takeWhile P cs]
    | false => rfl

theorem drop_takeWhile (P : Nat → Bool) : ∀ t : Str, t.drop (t.takeWhile P).length = t.dropWhile P
  | [] => rfl
  | c :: cs => by
    rw [List.takeWhile_cons, List.dropWhile_cons]
    cases P c with
    | true => simp only [if_true, List.length_cons, List.drop_succ_cons, drop_takeWhile P cs]
    | false => rfl

/-- The scan of `findall` on `RE_NOT_WS`, from any position, is the recursion of `splitWs` on the
    rest of the input. -/
theorem not_ws_go (env : CharEnv) (s : Str) :
    ∀ (fuel i : Nat), i ≤ s.length → s.length - i + 1 ≤ fuel →
      findallGo env Gen.cm_RE_NOT_WS s fuel i false = words (s.drop i)
  | 0, _, _, hf => by omega
  | fuel + 1, i, hi, hf => by
    rw [findallGo, if_neg (by omega)]
    simp only [attempt, Bool.false_eq_true, if_false]
    rw [not_ws_matchAt]
    rcases Nat.lt_or_ge i s.length with hlt | hge
    · have hx : s[i]? = some s[i] := List.getElem?_eq_getElem hlt
      cases hP : notWs s[i] with
      | true =>
        have hsp := spanLen_of_ok hx hP
        have hle := spanLen_le s notWs i
        rw [if_pos (by omega)]
        simp only
        have hne : (i + spanLen s notWs i == i) = false := by simp; omega
        rw [hne, not_ws_go env s fuel (i + spanLen s notWs i) (by omega) (by omega)]
        have hw := words_word (s.drop (i + 1)) hP
        rw [← List.drop_eq_getElem_cons hlt] at hw
        rw [hw]
        congr 1
        · unfold slice spanLen
          rw [show i + ((s.drop i).takeWhile notWs).length - i = ((s.drop i).takeWhile notWs).length by omega]
          exact take_takeWhile notWs _
        · congr 1
          unfold spanLen
          rw [← List.drop_drop]
          exact drop_takeWhile notWs _
      | false =>
        rw [spanLen_of_not hx hP, if_neg (by omega)]
        simp only [hlt, if_true]
        rw [not_ws_go env s fuel (i + 1) (by omega) (by omega)]
        have hw := words_ws (s.drop (i + 1)) hP
        rw [← List.drop_eq_getElem_cons hlt] at hw
        exact hw.symm
    · have : i = s.length := by omega
      subst this
      rw [spanLen_of_none (List.getElem?_eq_none (Nat.le_refl _)), if_neg (by omega)]
      simp only [Nat.lt_irrefl, if_false]
      rw [List.drop_eq_nil_of_le (Nat.le_refl _), words_nil]

/-- **Main theorem 2.** `RE_NOT_WS.findall(s)` is `splitWs s`, the function the model `getClasses`
    uses. -/
theorem not_ws_findall (env : CharEnv) (s : Str) :
    findall env Gen.cm_RE_NOT_WS s = splitWs s := by
  unfold findall
  rw [not_ws_go env s _ 0 (by omega) (by omega)]
  rfl

/-! ### `findall` against the real `re.findall`

  /venv/bin/python -c "import re; print(re.findall('[^ \t\r\n\f]+', ' ab  c\td '), re.findall('|a', 'a'),
     re.findall('x*', 'abxd'), re.findall('a|', 'baab'), re.findall('(?:|ab)', 'abab'))"
  ['ab', 'c', 'd'] ['', 'a', ''] ['', '', 'x', '', ''] ['', 'a', 'a', '', ''] ['', 'ab', '', 'ab', '']
-/
section Check
private def show' (l : List Str) : List String := l.map fun w => String.ofList (w.map Char.ofNat)
/-- info: ["ab", "c", "d"] -/
#guard_msgs in #eval show' (findall asciiEnv Gen.cm_RE_NOT_WS " ab  c\td ".toStr)
/-- info: ["", "a", ""] -/
#guard_msgs in #eval show' (findall asciiEnv (.alt [.seq [], .lit 97 false]) "a".toStr)
/-- info: ["", "", "x", "", ""] -/
#guard_msgs in #eval show' (findall asciiEnv (.rep 0 none true (.lit 120 false)) "abxd".toStr)
/-- info: ["", "a", "a", "", ""] -/
#guard_msgs in #eval show' (findall asciiEnv (.alt [.lit 97 false, .seq []]) "baab".toStr)
/-- info: ["", "ab", "", "ab", ""] -/
#guard_msgs in #eval show' (findall asciiEnv (.alt [.seq [], .seq [.lit 97 false, .lit 98 false]]) "abab".toStr)
end Check

end Misc
end Refine
end SoupVerif

#print axioms SoupVerif.Refine.Misc.not_empty_search
#print axioms SoupVerif.Refine.Misc.not_empty_search_pos
#print axioms SoupVerif.Refine.Misc.not_ws_findall
