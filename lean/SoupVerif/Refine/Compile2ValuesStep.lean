/-
  `Parser.parseValues` (= `RE_VALUES.finditer` + `css_unescape`, run by the engine on the regenerated
  `Gen.cp_RE_VALUES`) on the text of a spelled value list, and what the parser loop does at `:lang(…)` and
  at the `contains` family.
-/
import SoupVerif.Refine.Compile2Values
namespace SoupVerif
namespace Refine
namespace Compile
open Rx RxBasic SoupVerif.Parser ParserProgress Escape Spelling
open Wsc (gapRx unitEnd wsEnd commentEnd gapEnd)
open Ident (rxHead rxStar contStep contLen single IdentFold)
open C09Compile (SValue identOK)

/-! ### `RE_VALUES` at a value, at a separator, at the end -/

section
variable (s : Str)

theorem reValues_at_value {i : Nat} {v : SValue} {T : Str} (hd : s.drop i = v.render ++ T) (hv : v.ok T) :
    matchAt pyFoldEnv Gen.cp_RE_VALUES s i = some (i + v.render.length, [(1, i, i + v.render.length)]) := by
  rw [re_values_shape]
  unfold matchAt
  rw [runs_alt, runsAlt_cons]
  apply Ident.head?_append_of_some
  rw [runs_group, List.head?_map, (SValue.facts s v T hv).1 i [] hd]
  rfl

theorem value_nil_of_head {i : Nat} (c : Caps) (h : ∀ x, s[i]? = some x → isCssWs x = true ∨ x = 47 ∨ x = 44) :
    runs pyFoldEnv s rxValue i c = [] := by
  apply value_runs_nil
  · constructor <;>
    · intro e
      rcases h _ e with h | h | h
      · simp [isCssWs] at h
      · omega
      · omega
  · cases hx : s[i]? with
    | none =>
      rw [List.drop_eq_nil_of_le (by
        rcases Nat.lt_or_ge i s.length with hl | hl
        · rw [List.getElem?_eq_getElem hl] at hx; cases hx
        · exact hl)]
      rfl
    | some x =>
      rw [Wsc.drop_cons_of hx]
      apply scanIdent_none_of_head
      intro c hc
      simp only [List.head?_cons, Option.mem_def, Option.some.injEq] at hc
      subst hc
      rcases h _ hx with h | h | h
      · simp only [isCssWs, Bool.or_eq_true, beq_iff_eq] at h
        rcases h with (((e | e) | e) | e) | e <;> subst e <;> rfl
      · subst h; rfl
      · subst h; rfl

theorem reValues_at_sep {i : Nat} {gl gr T : Str} (hd : s.drop i = gl ++ 44 :: (gr ++ T)) (hgl : isGap gl)
    (hgr : isGap gr) (hT : noGapStart T = true) :
    matchAt pyFoldEnv Gen.cp_RE_VALUES s i =
      some (i + gl.length + 1 + gr.length, [(2, i, i + gl.length + 1 + gr.length)]) := by
  have hpl : i ≤ s.length := le_of_drop_append (a := gl ++ [44]) (r := gr ++ T)
    (by rw [hd]; simp) (Or.inl (by simp))
  have hdc := drop_add_of_drop_append hd
  have h44 := getElem?_of_drop_cons hdc
  have hdr : s.drop (i + gl.length + 1) = gr ++ T := Ident.drop_succ_of_drop_cons hdc
  have hcl := lt_of_drop_cons hdc
  have h0 : ∀ x, s[i]? = some x → isCssWs x = true ∨ x = 47 ∨ x = 44 := by
    intro x hx
    cases gl with
    | nil =>
      rw [getElem?_of_drop_cons (s := s) (p := i) (by rw [hd]; rfl)] at hx
      cases hx; exact Or.inr (Or.inr rfl)
    | cons y ys =>
      rw [getElem?_of_drop_cons (s := s) (p := i) (by rw [hd]; rfl)] at hx
      cases hx
      rcases gap_head' hgl x (by simp) with h | h
      · exact Or.inl h
      · exact Or.inr (Or.inl h)
  rw [re_values_shape]
  unfold matchAt
  rw [runs_alt, runsAlt_cons, runs_group, value_nil_of_head s [] h0, List.map_nil, List.nil_append,
    runsAlt_cons, runsAlt_nil, List.append_nil, runs_group, List.head?_map]
  unfold vSep
  rw [runs_seq,
    gap_then_drop Wsc.caseFree_pyFold s i gl _ [] _ hd hgl (by simp [noGapStart, isCssWs]) hpl
      (fun j c' hj => fail_lit44 s _ j c' hj),
    lit_ok pyFoldEnv s 44 _ _ [] h44, Wsc.runsSeq_single]
  obtain ⟨_, _, _, _, rest, hruns, _⟩ := Wsc.gap_runs (env := pyFoldEnv) true
    (fun _ => Wsc.caseFree_pyFold) s (i + gl.length + 1) (by omega) []
  rw [hruns, gapEnd_of_drop hdr hgr hT (by omega)]
  rfl

theorem reValues_at_end {i : Nat} (hi : s.length ≤ i) : matchAt pyFoldEnv Gen.cp_RE_VALUES s i = none := by
  have hx : s[i]? = none := List.getElem?_eq_none hi
  have hd : s.drop i = [] := List.drop_eq_nil_of_le hi
  rw [re_values_shape]
  unfold matchAt
  rw [runs_alt, runsAlt_cons, runs_group,
    value_nil_of_head s [] (by intro x h; rw [hx] at h; cases h), List.map_nil, List.nil_append,
    runsAlt_cons, runsAlt_nil, List.append_nil, runs_group]
  unfold vSep
  rw [runs_seq]
  have hgap : runs pyFoldEnv s (gapRx true) i [] = [(i, [])] := by
    unfold gapRx
    rw [runs]
    obtain ⟨k, hk⟩ : ∃ k, s.length - i + 0 + 2 = k + 1 := ⟨_, rfl⟩
    rw [hk, iter_succ]
    simp only [if_true, RxBasic.canMore, Nat.zero_le, ge_iff_le]
    have : runs pyFoldEnv s (Wsc.wscRx true) i [] = [] := by
      rw [Wsc.wsc_runs true (fun _ => Wsc.caseFree_pyFold) s i []]
      have : unitEnd s i = none := by
        simp [unitEnd, wsEnd, commentEnd, hx]
      rw [this]; rfl
    rw [this]; rfl
  rw [runsSeq_cons, hgap]
  simp only [List.flatMap_cons, List.flatMap_nil, List.append_nil]
  rw [lit_fail Ident.identFold_py s 44 (by omega) _ i [] (by rw [hx]; simp)]
  rfl

theorem search_here {r : Rx} {i j : Nat} {c : Caps} (hi : i ≤ s.length)
    (hm : matchAt pyFoldEnv r s i = some (j, c)) : Rx.search pyFoldEnv r s i = some (i, j, c) := by
  unfold Rx.search
  obtain ⟨k, hk⟩ : ∃ k, s.length + 2 - i = k + 1 := ⟨s.length + 1 - i, by omega⟩
  rw [hk, searchFrom, hm]

theorem search_end {r : Rx} (hm : matchAt pyFoldEnv r s s.length = none) :
    Rx.search pyFoldEnv r s s.length = none := by
  unfold Rx.search
  have : s.length + 2 - s.length = 1 + 1 := by omega
  rw [this, searchFrom, hm]
  simp

end

/-! ### `parseValues` -/

section
variable (B : Builtins) (pat : Str) (vals : Str)

theorem go_value {fuel i : Nat} {v : SValue} {T : Str} (hd : vals.drop i = v.render ++ T) (hv : v.ok T) :
    parseValues.go (penv B pat) vals (fuel + 1) i =
      v.value :: parseValues.go (penv B pat) vals fuel (i + v.render.length) := by
  obtain ⟨x, xs, hx, _⟩ := svalue_head v T hv
  have hil : i < vals.length := lt_of_drop_cons (s := vals) (p := i) (by rw [hd, hx]; rfl)
  have hm := reValues_at_value vals hd hv
  have hs : Rx.search (penv B pat).env (penv B pat).L.reValues.rx vals i =
      some (i, i + v.render.length, [(1, i, i + v.render.length)]) := search_here vals (by omega) hm
  have hlen : 1 ≤ v.render.length := by rw [hx]; simp
  rw [parseValues.go]
  rw [if_neg (by omega), hs]
  have hg2 : Parser.group vals (penv B pat).L.reValues [(1, i, i + v.render.length)] "split" = none := by
    simp [Parser.group, Gen.lexicon, Gen.cp_RE_VALUES_groups, capSpan]
  have hg1 : Parser.group vals (penv B pat).L.reValues [(1, i, i + v.render.length)] "value" =
      some v.render := by
    simp [Parser.group, Gen.lexicon, Gen.cp_RE_VALUES_groups, capSpan, slice_of_drop_append hd]
  simp only [hg2]
  rw [parseValues.valueOf, hg1]
  simp only
  rw [if_pos (by omega)]
  have := (SValue.facts vals v T hv).2
  unfold rawValue at this
  simp only [penv]
  congr 1

theorem go_sep {fuel i : Nat} {gl gr T : Str} (hd : vals.drop i = gl ++ 44 :: (gr ++ T)) (hgl : isGap gl)
    (hgr : isGap gr) (hT : noGapStart T = true) :
    parseValues.go (penv B pat) vals (fuel + 1) i =
      parseValues.go (penv B pat) vals fuel (i + gl.length + 1 + gr.length) := by
  have hil : i < vals.length := by
    have := lt_of_drop_cons (drop_add_of_drop_append hd); omega
  have hm := reValues_at_sep vals hd hgl hgr hT
  have hs : Rx.search (penv B pat).env (penv B pat).L.reValues.rx vals i =
      some (i, i + gl.length + 1 + gr.length, [(2, i, i + gl.length + 1 + gr.length)]) :=
    search_here vals (by omega) hm
  have hsl : slice vals i (i + gl.length + 1 + gr.length) = gl ++ 44 :: gr := by
    have := slice_of_drop_append (s := vals) (p := i) (a := gl ++ 44 :: gr) (r := T) (by rw [hd]; simp)
    rw [← this]; congr 1; simp; omega
  rw [parseValues.go]
  rw [if_neg (by omega), hs]
  have hg2 : Parser.group vals (penv B pat).L.reValues [(2, i, i + gl.length + 1 + gr.length)] "split" =
      some (gl ++ 44 :: gr) := by
    simp [Parser.group, Gen.lexicon, Gen.cp_RE_VALUES_groups, capSpan, hsl]
  simp only [hg2]
  have : (gl ++ 44 :: gr).isEmpty = false := by simp
  simp only [this, Bool.not_false, if_true]
  rw [if_pos (by omega)]

theorem go_end {fuel : Nat} : parseValues.go (penv B pat) vals (fuel + 1) vals.length = [] := by
  have hs : Rx.search (penv B pat).env (penv B pat).L.reValues.rx vals vals.length = none :=
    search_end vals (reValues_at_end vals (Nat.le_refl _))
  rw [parseValues.go, if_neg (by omega), hs]

theorem go_rest : ∀ (rest : List (Str × Str × SValue)) (fuel i : Nat), i ≤ vals.length →
    vals.length - i + 1 ≤ fuel → vals.drop i = renderVRest rest → vrestOK rest [] →
    parseValues.go (penv B pat) vals fuel i = vrestValues rest
  | [], fuel, i, hi, hf, hd, _ => by
    obtain ⟨k, rfl⟩ : ∃ k, fuel = k + 1 := ⟨fuel - 1, by omega⟩
    have : i = vals.length := by
      have := congrArg List.length hd
      simp [renderVRest] at this; omega
    subst this
    rw [go_end]; rfl
  | x :: rest, fuel, i, hi, hf, hd, hok => by
    obtain ⟨hgl, hgr, hv, hrest⟩ := hok
    simp only [renderVRest] at hd
    simp only [List.append_nil] at hv
    have hlen := congrArg List.length hd
    simp only [List.length_drop, List.length_append, List.length_cons] at hlen
    obtain ⟨y, ys, hy, _⟩ := svalue_head x.2.2 _ hv
    have hvl : 1 ≤ x.2.2.render.length := by rw [hy]; simp
    obtain ⟨k, rfl⟩ : ∃ k, fuel = k + 1 + 1 := ⟨fuel - 2, by omega⟩
    have hdv : vals.drop (i + x.1.length + 1 + x.2.1.length) = x.2.2.render ++ renderVRest rest :=
      drop_add_of_drop_append (Ident.drop_succ_of_drop_cons (drop_add_of_drop_append hd))
    rw [go_sep B pat vals hd hgl hgr (x.2.2.render_noGap _ _ hv), go_value B pat vals hdv hv,
      go_rest rest k _ (by omega) (by omega) (drop_add_of_drop_append hdv) hrest]
    rfl

/-- `RE_VALUES.finditer` on the text of a spelled value list yields the spelled values. -/
theorem parseValues_spelled (V : SValues) (hok : V.ok []) :
    parseValues (penv B pat) V.render = V.values := by
  obtain ⟨hfirst, hrest⟩ := hok
  simp only [List.append_nil] at hfirst
  unfold parseValues
  have hd : V.render.drop 0 = V.first.render ++ renderVRest V.rest := rfl
  obtain ⟨y, ys, hy, _⟩ := svalue_head V.first _ hfirst
  have hvl : 1 ≤ V.first.render.length := by rw [hy]; simp
  rw [go_value B pat V.render hd hfirst,
    go_rest B pat V.render V.rest _ _ (by simp [SValues.render]) (by simp [SValues.render]; omega)
      (drop_add_of_drop_append hd) hrest]
  rfl

end

/-! ### The parser loop -/

section Loop
variable (env : CharEnv) (L : Lexicon) (B : Builtins) (pattern : Str) (fuel flags : Nat) (st : LS) (t : Token)

theorem parseLoop_lang (h : nextToken ⟨env, L, B, pattern⟩ st.pos = .ok (some t))
    (hk : t.name = "pseudo_lang") :
    parseLoop env L B pattern (fuel + 1) flags st =
      parseLoop env L B pattern fuel flags
        { st with pos := t.stop,
                  sel := st.sel.addLang
                    ⟨parseValues ⟨env, L, B, pattern⟩ ((t.group ⟨env, L, B, pattern⟩ "values").getD [])⟩,
                  hasSelector := true, index := t.stop } := by
  rw [parseLoop]
  simp only [h, hk]
  simp

theorem parseLoop_contains (h : nextToken ⟨env, L, B, pattern⟩ st.pos = .ok (some t))
    (hk : t.name = "pseudo_contains") :
    parseLoop env L B pattern (fuel + 1) flags st =
      parseLoop env L B pattern fuel flags
        { st with pos := t.stop,
                  sel := st.sel.addContains
                    ⟨parseValues ⟨env, L, B, pattern⟩ ((t.group ⟨env, L, B, pattern⟩ "values").getD []),
                     lower (Parser.cssUnescape env L ((t.group ⟨env, L, B, pattern⟩ "name").getD [])) ==
                       ":-soup-contains-own".toStr⟩,
                  hasSelector := true, index := t.stop } := by
  rw [parseLoop]
  simp only [h, hk]
  simp

end Loop

def langRx : TokenRx := ⟨"pseudo_lang", Gen.tok_pseudo_lang, Gen.tok_pseudo_lang_groups⟩
def containsRx : TokenRx := ⟨"pseudo_contains", Gen.tok_pseudo_contains, Gen.tok_pseudo_contains_groups⟩

theorem find_lang : Gen.lexicon.special.find? (fun e => e.1 == ":lang".toStr) = some (":lang".toStr, langRx) := rfl

/-- Names of the `contains` family. -/
def containsName (n : Str) : Prop :=
  n = ":contains".toStr ∨ n = ":-soup-contains".toStr ∨ n = ":-soup-contains-own".toStr

theorem find_contains (n : Str) (h : containsName n) :
    Gen.lexicon.special.find? (fun e => e.1 == n) = some (n, containsRx) := by
  rcases h with h | h | h <;> subst h <;> rfl

section Steps
variable (B : Builtins) (s : Str) (fuel flags : Nat) (st : LS)

/-- What the parser needs from the token, for both kinds. -/
theorem values_token {forms : List (Nat × EscForm)} {g₁ g₂ r : Str} (V : SValues) (sub : TokenRx)
    (hrx : sub.rx = Gen.tok_pseudo_lang) (hgr : sub.groups = [("name", 1), ("open", 2), ("values", 3)])
    (hd : s.drop st.pos = 58 :: (renderIdentWith forms ++ (40 :: (g₁ ++ (V.render ++ (g₂ ++ 41 :: r))))))
    (hv : validForms forms (40 :: (g₁ ++ (V.render ++ (g₂ ++ 41 :: r)))) = true) (hh : headOk forms = true)
    (hcp : ∀ p ∈ forms, rangeOk p.1 p.2 = true) (hg₁ : isGap g₁) (hg₂ : isGap g₂)
    (hV : V.ok (g₂ ++ 41 :: r))
    (hfind : Gen.lexicon.special.find? (fun e => e.1 == 58 :: lower (valueOf forms)) =
      some (58 :: lower (valueOf forms), sub)) :
    ∃ t : Token, nextToken (penv B s) st.pos = .ok (some t) ∧ t.name = sub.name ∧ s.drop t.stop = r ∧
      parseValues (penv B s) ((t.group (penv B s) "values").getD []) = V.values ∧
      lower (Parser.cssUnescape pyFoldEnv Gen.lexicon ((t.group (penv B s) "name").getD [])) =
        58 :: lower (valueOf forms) := by
  have hm := values_matchAt s V hd hv hh hg₁ hg₂ hV
  have hVng : noGapStart (V.render ++ (g₂ ++ 41 :: r)) = true := by
    simp only [SValues.render, List.append_assoc]
    exact V.first.render_noGap _ _ hV.1
  have hnt := nextToken_nth B s (R := V.render ++ (g₂ ++ 41 :: r)) hd hv hh hcp hg₁ hVng sub hfind
    (by rw [hrx]; exact hm)
  have hd1 : s.drop (st.pos + 1) = renderIdentWith forms ++ (40 :: (g₁ ++ (V.render ++ (g₂ ++ 41 :: r)))) :=
    Ident.drop_succ_of_drop_cons hd
  have hde := drop_add_of_drop_append hd1
  have hde1 : s.drop (st.pos + 1 + (renderIdentWith forms).length + 1) = g₁ ++ (V.render ++ (g₂ ++ 41 :: r)) :=
    Ident.drop_succ_of_drop_cons hde
  have hdw := drop_add_of_drop_append hde1
  have hdg := drop_add_of_drop_append hdw
  have hstop := Ident.drop_succ_of_drop_cons (drop_add_of_drop_append hdg)
  have hsl3 := slice_of_drop_append hdw
  have hsl1 := slice_colon_name s hd
  refine ⟨_, hnt, rfl, hstop, ?_, ?_⟩
  · have hg3 : Token.group (penv B s) (Token.mk sub.name sub st.pos
        (st.pos + 1 + (renderIdentWith forms).length + 1 + g₁.length + V.render.length + g₂.length + 1)
        [(3, st.pos + 1 + (renderIdentWith forms).length + 1 + g₁.length,
            st.pos + 1 + (renderIdentWith forms).length + 1 + g₁.length + V.render.length),
         (2, st.pos + 1 + (renderIdentWith forms).length,
            st.pos + 1 + (renderIdentWith forms).length + 1 + g₁.length),
         (1, st.pos, st.pos + 1 + (renderIdentWith forms).length)]) "values" = some V.render := by
      simp [Token.group, Parser.group, hgr, capSpan, hsl3]
    rw [hg3]
    exact parseValues_spelled B s V (V.ok_nil _ hV)
  · have hg1 : Token.group (penv B s) (Token.mk sub.name sub st.pos
        (st.pos + 1 + (renderIdentWith forms).length + 1 + g₁.length + V.render.length + g₂.length + 1)
        [(3, st.pos + 1 + (renderIdentWith forms).length + 1 + g₁.length,
            st.pos + 1 + (renderIdentWith forms).length + 1 + g₁.length + V.render.length),
         (2, st.pos + 1 + (renderIdentWith forms).length,
            st.pos + 1 + (renderIdentWith forms).length + 1 + g₁.length),
         (1, st.pos, st.pos + 1 + (renderIdentWith forms).length)]) "name" =
        some (58 :: renderIdentWith forms) := by
      simp [Token.group, Parser.group, hgr, capSpan, hsl1]
    rw [hg1]
    simp only [Option.getD_some]
    rw [unescape_colon_forms forms (SpellingLemmas.validForms_nil_of forms _ hv) hcp]
    rfl

/-- `:lang(` gap values gap `)`. -/
theorem step_lang {forms : List (Nat × EscForm)} {g₁ g₂ r : Str} (V : SValues)
    (hd : s.drop st.pos = 58 :: (renderIdentWith forms ++ (40 :: (g₁ ++ (V.render ++ (g₂ ++ 41 :: r))))))
    (hv : validForms forms (40 :: (g₁ ++ (V.render ++ (g₂ ++ 41 :: r)))) = true) (hh : headOk forms = true)
    (hcp : ∀ p ∈ forms, rangeOk p.1 p.2 = true) (hg₁ : isGap g₁) (hg₂ : isGap g₂)
    (hV : V.ok (g₂ ++ 41 :: r)) (hname : 58 :: lower (valueOf forms) = ":lang".toStr) :
    ∃ p idx, s.drop p = r ∧
      parseLoop pyFoldEnv Gen.lexicon B s (fuel + 1) flags st =
        parseLoop pyFoldEnv Gen.lexicon B s fuel flags
          { st with pos := p, index := idx, sel := st.sel.addLang ⟨V.values⟩, hasSelector := true } := by
  obtain ⟨t, hnt, hk, hstop, hvals, _⟩ := values_token B s st V langRx rfl rfl hd hv hh hcp hg₁ hg₂ hV
    (by rw [hname]; exact find_lang)
  refine ⟨t.stop, t.stop, hstop, ?_⟩
  rw [parseLoop_lang _ _ _ _ _ _ _ _ hnt hk]
  simp only [penv] at hvals
  rw [hvals]

/-- `:contains(` / `:-soup-contains(` / `:-soup-contains-own(` gap values gap `)`. -/
theorem step_contains {forms : List (Nat × EscForm)} {g₁ g₂ r : Str} (V : SValues)
    (hd : s.drop st.pos = 58 :: (renderIdentWith forms ++ (40 :: (g₁ ++ (V.render ++ (g₂ ++ 41 :: r))))))
    (hv : validForms forms (40 :: (g₁ ++ (V.render ++ (g₂ ++ 41 :: r)))) = true) (hh : headOk forms = true)
    (hcp : ∀ p ∈ forms, rangeOk p.1 p.2 = true) (hg₁ : isGap g₁) (hg₂ : isGap g₂)
    (hV : V.ok (g₂ ++ 41 :: r)) (hname : containsName (58 :: lower (valueOf forms))) :
    ∃ p idx, s.drop p = r ∧
      parseLoop pyFoldEnv Gen.lexicon B s (fuel + 1) flags st =
        parseLoop pyFoldEnv Gen.lexicon B s fuel flags
          { st with pos := p, index := idx,
                    sel := st.sel.addContains
                      ⟨V.values, 58 :: lower (valueOf forms) == ":-soup-contains-own".toStr⟩,
                    hasSelector := true } := by
  obtain ⟨t, hnt, hk, hstop, hvals, hnm⟩ := values_token B s st V containsRx rfl rfl hd hv hh hcp hg₁ hg₂ hV
    (find_contains _ hname)
  refine ⟨t.stop, t.stop, hstop, ?_⟩
  rw [parseLoop_contains _ _ _ _ _ _ _ _ hnt hk]
  simp only [penv] at hvals hnm
  rw [hvals, hnm]

end Steps

end Compile
end Refine
end SoupVerif

#print axioms SoupVerif.Refine.Compile.parseValues_spelled
#print axioms SoupVerif.Refine.Compile.step_lang
#print axioms SoupVerif.Refine.Compile.step_contains
