/-
  Helpers for `Properties/C05Parse.lean`: what `C09Compile2.denote` / `SelListV.loopState` build for the COMMA
  of two selector lists (the values of `A , B` are the values of `A`, the comma, the values of `B`), in every
  non-relative mode of `parse_selectors`; and the spelled comma `commaS` with its text, values and side
  conditions.
-/
import SoupVerif.Properties.C09Compile2
import SoupVerif.Refine.C01ParseSem
namespace SoupVerif
namespace C05ParseBase
open SoupVerif.Parser ParserProgress Refine.Compile Spelling
open C09Compile (SComb)
open C09Compile2
open C01Parse (implB)

/-! ## The comma of two lists: values and spelling -/

/-- The values of `A , B`. -/
def commaV : SelListV → SelListV → SelListV
  | .mk a ra, .mk b rb => .mk a (ra ++ (44, b) :: rb)

/-- `A g₁ , g₂ B`: the spelled comma of two spelled lists. -/
def commaS : SSelList → Str → Str → SSelList → SSelList
  | .mk a ra, g₁, g₂, .mk b rb => .mk a (ra ++ (.sym g₁ 44 g₂, b) :: rb)

theorem restValue_append : ∀ (r₁ r₂ : List (SComb × SCompound)),
    restValue (r₁ ++ r₂) = restValue r₁ ++ restValue r₂
  | [], r₂ => by simp [restValue]
  | x :: r₁, r₂ => by simp [restValue, restValue_append r₁ r₂]

theorem renderRest_append : ∀ (r₁ r₂ : List (SComb × SCompound)),
    renderRest (r₁ ++ r₂) = renderRest r₁ ++ renderRest r₂
  | [], r₂ => by simp [renderRest]
  | x :: r₁, r₂ => by simp [renderRest, renderRest_append r₁ r₂]

theorem restTbl_append (Γ : Tbl) : ∀ (r₁ r₂ : List (SComb × SCompound)),
    restTbl Γ (r₁ ++ r₂) ↔ restTbl Γ r₁ ∧ restTbl Γ r₂
  | [], r₂ => by simp [restTbl]
  | x :: r₁, r₂ => by simp [restTbl, restTbl_append Γ r₁ r₂, and_assoc]

theorem commaS_value (A B : SSelList) (g₁ g₂ : Str) : (commaS A g₁ g₂ B).value = commaV A.value B.value := by
  obtain ⟨a, ra⟩ := A
  obtain ⟨b, rb⟩ := B
  simp [commaS, commaV, SSelList.value, restValue_append, restValue, SComb.value]

/-- The text of the spelled comma: the text of `A`, the gap, the comma, the gap, the text of `B`. -/
theorem commaS_render (A B : SSelList) (g₁ g₂ : Str) :
    (commaS A g₁ g₂ B).render = A.render ++ (g₁ ++ 44 :: g₂) ++ B.render := by
  obtain ⟨a, ra⟩ := A
  obtain ⟨b, rb⟩ := B
  simp [commaS, SSelList.render, renderRest_append, renderRest, SComb.render]

theorem commaS_tbl (Γ : Tbl) (A B : SSelList) (g₁ g₂ : Str) (hA : A.tbl Γ) (hB : B.tbl Γ) :
    (commaS A g₁ g₂ B).tbl Γ := by
  obtain ⟨a, ra⟩ := A
  obtain ⟨b, rb⟩ := B
  rw [SSelList.tbl] at hA hB
  rw [commaS, SSelList.tbl, restTbl_append]
  exact ⟨hA.1, hA.2, by rw [restTbl]; exact hB⟩

/-- The pairs of `A`, then the comma and `B`: admissible when `A`'s are in front of the comma text and `B`
    is in front of `r`. -/
theorem restOK_comma (fl : Nat) (hrel : relOf fl = false) (g₁ g₂ : Str) (hg₁ : isGap g₁) (hg₂ : isGap g₂)
    (b : SCompound) (rb : List (SComb × SCompound)) (r : Str)
    (hb : b.ok (renderRest rb ++ r)) (hbe : b.isEmpty = true → relOf fl = true ∨ fgOf fl = true)
    (hrb : restOK fl (!b.isEmpty) rb r) :
    ∀ (ra : List (SComb × SCompound)) (x : Bool),
      restOK fl x ra (g₁ ++ 44 :: (g₂ ++ (b.render ++ (renderRest rb ++ r)))) →
      restOK fl x (ra ++ (.sym g₁ 44 g₂, b) :: rb) r
  | [], x, h => by
    rw [restOK] at h
    rw [List.nil_append, restOK]
    refine ⟨⟨hg₁, hg₂, by decide⟩, hb, ?_, ?_, hrb⟩
    · intro hx
      rcases h with h | h
      · rw [hx] at h; cases h
      · refine ⟨by simpa [SComb.render] using h.2, ?_⟩
        rw [hrel]
        exact ⟨rfl, h.1⟩
    · intro he
      exact ⟨rfl, hbe he⟩
  | y :: ra, x, h => by
    rw [restOK] at h
    obtain ⟨h1, h2, h3, h4, h5⟩ := h
    have hren : renderRest (ra ++ (SComb.sym g₁ 44 g₂, b) :: rb) ++ r =
        renderRest ra ++ (g₁ ++ 44 :: (g₂ ++ (b.render ++ (renderRest rb ++ r)))) := by
      simp [renderRest_append, renderRest, SComb.render]
    rw [List.cons_append, restOK, hren]
    exact ⟨h1, h2, h3, h4, restOK_comma fl hrel g₁ g₂ hg₁ hg₂ b rb r hb hbe hrb ra _ h5⟩

/-- **The side conditions of `A , B`** from those of its parts: `A` admissible in front of the comma text,
    `B` in front of what follows the list (flags without `FLG_RELATIVE`). -/
theorem commaS_ok (fl : Nat) (hrel : relOf fl = false) (A B : SSelList) (g₁ g₂ r : Str)
    (hg₁ : isGap g₁) (hg₂ : isGap g₂)
    (hA : A.ok fl (g₁ ++ 44 :: (g₂ ++ (B.render ++ r)))) (hB : B.ok fl r) :
    (commaS A g₁ g₂ B).ok fl r := by
  obtain ⟨a, ra⟩ := A
  obtain ⟨b, rb⟩ := B
  rw [SSelList.ok] at hA hB
  rw [SSelList.render, List.append_assoc] at hA
  obtain ⟨ha1, ha2, ha3⟩ := hA
  obtain ⟨hb1, hb2, hb3⟩ := hB
  have hren : renderRest (ra ++ (SComb.sym g₁ 44 g₂, b) :: rb) ++ r =
      renderRest ra ++ (g₁ ++ 44 :: (g₂ ++ (b.render ++ (renderRest rb ++ r)))) := by
    simp [renderRest_append, renderRest, SComb.render]
  rw [commaS, SSelList.ok, hren]
  exact ⟨ha1, ha2, restOK_comma fl hrel g₁ g₂ hg₁ hg₂ b rb r hb1 hb2 hb3 ra _ ha3⟩

/-! ## The loop state of the comma -/

theorem foldRest_append (B : Builtins) (fl : Nat) : ∀ (r₁ r₂ : List (Nat × Compound)) (st : LS),
    foldRest B fl (r₁ ++ r₂) st = foldRest B fl r₂ (foldRest B fl r₁ st)
  | [], r₂, st => by simp [foldRest]
  | x :: r₁, r₂, st => by simp [foldRest, foldRest_append B fl r₁ r₂]

/-- `P` in front of the list of finished complex selectors. -/
def addSels (P : List SelB) (st : LS) : LS := { st with selectors := P ++ st.selectors }

theorem combStepG_addSels (fl c : Nat) (hrel : relOf fl = false) (P : List SelB) (st : LS) :
    combStepG fl c (addSels P st) = addSels P (combStepG fl c st) := by
  unfold combStepG combStepF combStep addSels
  by_cases hs : st.hasSelector = true <;> by_cases hc : (c == 44) = true <;> simp [hrel, hs, hc]

theorem foldRest_addSels (B : Builtins) (fl : Nat) (hrel : relOf fl = false) (P : List SelB) :
    ∀ (rest : List (Nat × Compound)) (st : LS),
      foldRest B fl rest (addSels P st) = addSels P (foldRest B fl rest st)
  | [], st => by simp [foldRest]
  | x :: rest, st => by
    rw [foldRest, foldRest, combStepG_addSels fl x.1 hrel, ← foldRest_addSels B fl hrel P rest]
    rfl

/-- In a non-relative list the loop touches `sel`, `selectors`, `hasSelector`, `relations` only. -/
theorem combStepG_fields (fl c : Nat) (hrel : relOf fl = false) (st : LS) :
    (combStepG fl c st).closed = st.closed ∧ (combStepG fl c st).relType = st.relType ∧
    (combStepG fl c st).isHtml = st.isHtml ∧ (combStepG fl c st).index = st.index ∧
    (combStepG fl c st).pos = st.pos ∧ (combStepG fl c st).custom = st.custom := by
  unfold combStepG combStepF combStep
  by_cases hs : st.hasSelector = true <;> by_cases hc : (c == 44) = true <;> simp [hrel, hs, hc]

theorem foldRest_fields (B : Builtins) (fl : Nat) (hrel : relOf fl = false) :
    ∀ (rest : List (Nat × Compound)) (st : LS),
      (foldRest B fl rest st).closed = st.closed ∧ (foldRest B fl rest st).relType = st.relType ∧
      (foldRest B fl rest st).isHtml = st.isHtml ∧ (foldRest B fl rest st).index = st.index ∧
      (foldRest B fl rest st).pos = st.pos ∧ (foldRest B fl rest st).custom = st.custom
  | [], st => by simp [foldRest]
  | x :: rest, st => by
    rw [foldRest]
    obtain ⟨h1, h2, h3, h4, h5, h6⟩ := combStepG_fields fl x.1 hrel st
    obtain ⟨k1, k2, k3, k4, k5, k6⟩ := foldRest_fields B fl hrel rest
      { combStepG fl x.1 st with sel := x.2.buildOn B SelB.empty, hasSelector := !x.2.isEmpty }
    exact ⟨k1.trans h1, k2.trans h2, k3.trans h3, k4.trans h4, k5.trans h5, k6.trans h6⟩

/-- The complex selectors of a list whose loop ended in `st` (non-relative flags): the finished ones and the
    last one — with the implied `*` — or, for an empty last slot of a forgiving list, a selector that matches
    nothing. -/
def endSels (fl : Nat) (st : LS) : List SelB :=
  st.selectors ++
    [if st.hasSelector then (implB (ipOf fl) st.sel).addRelations st.relations else st.sel.setNoMatch]

theorem cleanupLS_selectors (fl : Nat) (hrel : relOf fl = false) (st : LS) (h : EndOK fl st) :
    (cleanupLS fl st).selectors = endSels fl st ∧ (cleanupLS fl st).isHtml = st.isHtml := by
  have hrel' : ((fl &&& FLG_RELATIVE) != 0) = false := hrel
  unfold cleanupLS endSels
  by_cases hs : st.hasSelector = true
  · simp only [hs, if_true, hrel', Bool.false_eq_true, if_false]
    exact ⟨rfl, trivial⟩
  · have hs' : st.hasSelector = false := by simpa using hs
    rcases h with h | ⟨hf, hr⟩
    · exact absurd h hs
    · have hf' : ((fl &&& FLG_FORGIVE) != 0) = true := hf
      simp [hs', hf', hr]

/-- The comma step on the final state of `A`, then the first slot of `B`: the first slot of `B` on a fresh
    state, with `A`'s complex selectors in front. -/
theorem comma_step (B : Builtins) (fl : Nat) (hrel : relOf fl = false) (st : LS) (h : EndOK fl st)
    (hc : st.closed = false) (hrt : st.relType = .hasDesc)
    (hh : st.isHtml = ((fl &&& FLG_HTML) != 0)) (hi : st.index = 0) (hp : st.pos = 0) (hcu : st.custom = [])
    (b : Compound) :
    ({ combStepG fl 44 st with sel := b.buildOn B SelB.empty, hasSelector := !b.isEmpty } : LS) =
      addSels (endSels fl st) (firstSt B fl b) := by
  have hrel' : ((fl &&& FLG_RELATIVE) != 0) = false := hrel
  obtain ⟨sel, sels, hs, cl, rels, rt, ih, idx, pos, cu⟩ := st
  simp only at hc hrt hh hi hp hcu
  subst hc hrt hh hi hp hcu
  unfold combStepG combStepF combStep addSels firstSt initLS endSels
  cases hs with
  | true => simp [hrel, hrel', implB, ipOf]
  | false =>
    rcases h with h | ⟨_, hr⟩
    · cases h
    · simp only at hr
      subst hr
      simp [hrel, hrel']

theorem firstSt_fields (B : Builtins) (fl : Nat) (c : Compound) :
    (firstSt B fl c).closed = false ∧ (firstSt B fl c).relType = .hasDesc ∧
    (firstSt B fl c).isHtml = ((fl &&& FLG_HTML) != 0) ∧ (firstSt B fl c).index = 0 ∧
    (firstSt B fl c).pos = 0 ∧ (firstSt B fl c).custom = [] := by
  simp [firstSt, initLS]

/-- **The loop state of `A , B`** (non-relative flags, `A` ended properly): the loop state of `B` with the
    complex selectors of `A` in front. -/
theorem loopState_comma (B : Builtins) (fl : Nat) (hrel : relOf fl = false) (X Y : SelListV)
    (h : EndOK fl (X.loopState B fl)) :
    (commaV X Y).loopState B fl = addSels (endSels fl (X.loopState B fl)) (Y.loopState B fl) := by
  obtain ⟨a, ra⟩ := X
  obtain ⟨b, rb⟩ := Y
  rw [commaV, loopState_eq, foldRest_append, foldRest, ← loopState_eq]
  obtain ⟨h1, h2, h3, h4, h5, h6⟩ := foldRest_fields B fl hrel ra (firstSt B fl a)
  obtain ⟨k1, k2, k3, k4, k5, k6⟩ := firstSt_fields B fl a
  rw [← loopState_eq] at h1 h2 h3 h4 h5 h6
  rw [comma_step B fl hrel _ h (h1.trans k1) (h2.trans k2) (h3.trans k3) (h4.trans k4) (h5.trans k5)
    (h6.trans k6), foldRest_addSels B fl hrel, ← loopState_eq]

theorem loopState_fields (B : Builtins) (fl : Nat) (hrel : relOf fl = false) (X : SelListV) :
    (X.loopState B fl).closed = false ∧ (X.loopState B fl).relType = .hasDesc ∧
    (X.loopState B fl).isHtml = ((fl &&& FLG_HTML) != 0) := by
  obtain ⟨a, ra⟩ := X
  rw [loopState_eq]
  obtain ⟨h1, h2, h3, _⟩ := foldRest_fields B fl hrel ra (firstSt B fl a)
  obtain ⟨k1, k2, k3, _⟩ := firstSt_fields B fl a
  exact ⟨h1.trans k1, h2.trans k2, h3.trans k3⟩

theorem endSels_addSels (fl : Nat) (P : List SelB) (st : LS) :
    endSels fl (addSels P st) = P ++ endSels fl st := by
  simp only [endSels, addSels, List.append_assoc]
  rfl

theorem closeSt_addSels (P : List SelB) (st : LS) : closeSt (addSels P st) = addSels P (closeSt st) := by
  unfold closeSt addSels
  by_cases h : st.hasSelector = true <;> simp [h]

theorem EndOK_addSels (fl : Nat) (P : List SelB) (st : LS) (h : EndOK fl st) : EndOK fl (addSels P st) := h

theorem endSels_closeSt (fl : Nat) (st : LS) : endSels fl (closeSt st) = endSels fl st := by
  unfold closeSt endSels
  by_cases h : st.hasSelector = true
  · simp [h]
  · have h' : st.hasSelector = false := by simpa using h
    obtain ⟨sel, sels, hs, cl, rels, rt, ih, idx, pos, cu⟩ := st
    simp only at h'
    subst h'
    cases sel
    simp [SelB.setNoMatch]

/-- `finishG` for non-relative flags that set none of the `SEL_*` post-processing bits. -/
theorem finishG_eq (fl : Nat) (hrel : relOf fl = false) (hfin : ∀ s, finalSels fl s = s) (st : LS)
    (h : EndOK fl st) :
    finishG fl st = .mk ((endSels fl st).map SelB.freeze) ((fl &&& FLG_NOT) != 0) st.isHtml := by
  obtain ⟨h1, h2⟩ := cleanupLS_selectors fl hrel st h
  rw [finishG, hfin, h1, h2]

/-- The end of a list with admissible spelling is proper. -/
theorem endOK_of_ok (B : Builtins) (fl : Nat) (L : SSelList) (r : Str) (hok : L.ok fl r) :
    EndOK fl (L.value.loopState B fl) := by
  obtain ⟨a, ra⟩ := L
  rw [SSelList.ok] at hok
  rw [SSelList.value, loopState_eq]
  apply foldRest_end B fl ra (!a.isEmpty) r _ hok.2.2
  have := firstSt_inv B fl a.value
  rwa [SCompound.value_isEmpty] at this

end C05ParseBase
end SoupVerif
