/-
  The `tag` token `(?:(?:IDENTIFIER|\*)?\|)?(?:IDENTIFIER|\*)` without namespace prefix: a type
  selector written as an identifier in any admissible spelling, or `*`.
-/
import SoupVerif.Refine.CompileIdent
namespace SoupVerif
namespace Refine
namespace Compile
open Rx RxBasic SoupVerif.Parser ParserProgress Escape Spelling
open Ident (rxHead rxStar contStep contLen single IdentFold)

def rxNsBody : Rx := .group 1 (.seq [.rep 0 (some 1) true rxName, .lit 124 true])
def rxNsOpt : Rx := .rep 0 (some 1) true rxNsBody

theorem tok_tag_shape : Gen.tok_tag = .seq [rxNsOpt, .group 2 rxName] := rfl

/-- `(?:IDENTIFIER|\*)?\|` has no run at `i` when no `|` follows the identifier / `*` / nothing. -/
theorem nsBody_fail {env : CharEnv} (h : IdentFold env) (s : Str) (i : Nat) (caps : Caps)
    (hi : i ≤ s.length) (h0 : s[i]? ≠ some 124)
    (h1 : ∀ m, scanIdent (s.drop i) = some m → s[i + m.1.length]? ≠ some 124)
    (h2 : s[i]? = some 42 → s[i + 1]? ≠ some 124) :
    runs env s rxNsBody i caps = [] := by
  unfold rxNsBody
  rw [runs_group]
  have : runs env s (.seq [.rep 0 (some 1) true rxName, .lit 124 true]) i caps = [] := by
    rw [runs_seq, runsSeq_cons, runs_opt, List.flatMap_append]
    have hk : ∀ j c, (contStep (s.drop j)).isSome = true →
        runsSeq env s [.lit 124 true] j c = [] :=
      fun j c hj => lit_fail_at_unit h s 124 (by omega) (by decide) [] j c hj
    have e1 := name_then h s i caps [.lit 124 true] hi hk
    rw [runsSeq_cons] at e1
    rw [e1]
    have e3 : (if s[i]? = some 42 then runsSeq env s [.lit 124 true] (i + 1) caps else []) = [] := by
      split
      · rename_i h42; exact lit_fail h s 124 (by omega) [] _ caps (h2 h42)
      · rfl
    have e4 : runsSeq env s [.lit 124 true] i caps = [] := lit_fail h s 124 (by omega) [] i caps h0
    rw [e3]
    simp only [List.flatMap_cons, List.flatMap_nil, List.append_nil, e4]
    cases hs : scanIdent (s.drop i) with
    | none => rfl
    | some m => exact lit_fail h s 124 (by omega) [] _ caps (h1 m hs)
  rw [this]; rfl

/-- The `tag` token at `i`, no namespace prefix: the first run of `(?:IDENTIFIER|\*)`. -/
theorem tag_matchAt {env : CharEnv} (h : IdentFold env) (s : Str) (i : Nat)
    (hi : i ≤ s.length) (h0 : s[i]? ≠ some 124)
    (h1 : ∀ m, scanIdent (s.drop i) = some m → s[i + m.1.length]? ≠ some 124)
    (h2 : s[i]? = some 42 → s[i + 1]? ≠ some 124) :
    matchAt env Gen.tok_tag s i =
      match scanIdent (s.drop i) with
      | some m => some (i + m.1.length, [(2, i, i + m.1.length)])
      | none => if s[i]? = some 42 then some (i + 1, [(2, i, i + 1)]) else none := by
  rw [tok_tag_shape]
  unfold matchAt
  rw [runs_seq, runsSeq_cons]
  unfold rxNsOpt
  rw [runs_opt, nsBody_fail h s i [] hi h0 h1 h2]
  simp only [List.nil_append, List.flatMap_cons, List.flatMap_nil, List.append_nil]
  rw [Wsc.runsSeq_single, runs_group, List.head?_map]
  unfold rxName
  rw [runs_alt, runsAlt_cons, runsAlt_cons, runsAlt_nil, List.append_nil]
  have hid := Ident.matchAt_ident h s i
  unfold matchAt at hid
  cases hs : scanIdent (s.drop i) with
  | some m =>
    rw [hs] at hid
    unfold rxIdent
    rw [Ident.head?_append_of_some hid]
    rfl
  | none =>
    rw [hs] at hid
    have hnil : runs env s (.seq [rxHead, rxStar]) i [] = [] := by
      cases hr : runs env s (.seq [rxHead, rxStar]) i [] with
      | nil => rfl
      | cons a l => rw [hr] at hid; cases hid
    unfold rxIdent
    rw [hnil, List.nil_append, ← Wsc.runsSeq_single]
    by_cases h42 : s[i]? = some 42
    · rw [lit_ok env s 42 [] i [] h42, if_pos h42, runsSeq_nil]; rfl
    · rw [lit_fail h s 42 (by omega) [] i [] h42, if_neg h42]; rfl

/-! ### `selector_iter` at a type selector -/

/-- First characters of a type selector: `*`, `-`, a backslash, an identifier-start character. -/
def tagStart (c : Nat) : Bool := c == 42 || c == 45 || c == 92 || identStartChar c

theorem tagStart_key (c : Nat) (h : tagStart c = true) : tagStart (keyOf (some c)) = true := by
  show tagStart (if c < 128 then c else if isSpecial foldSpecials c = true then c + 2 else 128) = true
  by_cases hc : c < 128
  · rw [if_pos hc]; exact h
  · rw [if_neg hc]
    split <;> simp [tagStart, identStartChar] <;> omega

theorem skip_tag : ∀ k ∈ keys foldSpecials, tagStart k = true →
    (Gen.lexicon.tokens.take 9).all (fun t => !slotFirst k t) = true := by decide +kernel

theorem skip_tag' {s : Str} {i c : Nat} (hc : s[i]? = some c) (h : tagStart c = true) :
    (Gen.lexicon.tokens.take 9).all (fun t => !slotFirst (keyOf s[i]?) t) = true := by
  rw [hc]
  exact skip_tag _ (key_mem_keys _ _) (tagStart_key c h)

open SpellingLemmas in
/-- An identifier that satisfies the head rule begins with `-`, a backslash or a start character. -/
theorem headOk_first (forms : List (Nat × EscForm)) (hh : headOk forms = true) :
    ∃ c cs, renderIdentWith forms = c :: cs ∧ (c = 45 ∨ c = 92 ∨ identStartChar c = true) := by
  cases forms with
  | nil => simp [headOk] at hh
  | cons p rest =>
    obtain ⟨c, f⟩ := p
    rw [renderIdentWith_cons]
    cases f with
    | lit =>
      refine ⟨c, renderIdentWith rest, by simp [renderForm], ?_⟩
      simp only [headOk, isLit, Bool.and_true] at hh
      by_cases h45 : c = 45
      · exact Or.inl h45
      · have : (c == 45) = false := by simpa using h45
        rw [this] at hh
        simp only [Bool.false_eq_true, if_false] at hh
        exact Or.inr (Or.inr hh)
    | bs => exact ⟨92, c :: renderIdentWith rest, by simp [renderForm], Or.inr (Or.inl rfl)⟩
    | hex d m w =>
      exact ⟨92, hexText c d m ++ wsText w ++ renderIdentWith rest, by simp [renderForm],
        Or.inr (Or.inl rfl)⟩

def tagTok (i j : Nat) : Token :=
  { name := "tag", rx := ⟨"tag", Gen.tok_tag, Gen.tok_tag_groups⟩, start := i, stop := j,
    caps := [(2, i, j)] }

variable (B : Builtins) (s : Str)

/-- A type selector written as an identifier in any admissible spelling. -/
theorem nextToken_tag_ident {i : Nat} {forms : List (Nat × EscForm)} {r : Str}
    (hd : s.drop i = renderIdentWith forms ++ r)
    (hv : validForms forms r = true) (hh : headOk forms = true) (hr : ¬ continuesIdent r)
    (hbar : r.head? ≠ some 124) :
    nextToken (penv B s) i = .ok (some (tagTok i (i + (renderIdentWith forms).length))) := by
  obtain ⟨c, cs, hcs, hc⟩ := headOk_first forms hh
  have hd' : s.drop i = c :: (cs ++ r) := by rw [hd, hcs]; rfl
  have hci := getElem?_of_drop_cons hd'
  have hts : tagStart c = true := by
    rcases hc with hc | hc | hc <;> simp [tagStart, hc]
  have hng : noGapStart (c :: (cs ++ r)) = true := by
    have h1 : isCssWs c = false := by
      rcases hc with hc | hc | hc
      · subst hc; rfl
      · subst hc; rfl
      · simp only [identStartChar, Bool.or_eq_true, Bool.and_eq_true, decide_eq_true_eq, beq_iff_eq] at hc
        simp [isCssWs]; omega
    have h2 : c ≠ 47 := by
      rcases hc with hc | hc | hc
      · omega
      · omega
      · simp only [identStartChar, Bool.or_eq_true, Bool.and_eq_true, decide_eq_true_eq, beq_iff_eq] at hc
        omega
    simp [noGapStart, h1, h2]
  rw [nextToken_noGap B s hd' hng]
  have hscan := C09.scan_any_spelling_ctx forms r hv hh hr
  rw [← hd] at hscan
  have hlt := lt_of_drop_cons hd'
  have hm : matchAt pyFoldEnv Gen.tok_tag s i =
      some (i + (renderIdentWith forms).length, [(2, i, i + (renderIdentWith forms).length)]) := by
    rw [tag_matchAt Ident.identFold_py s i (by omega), hscan]
    · rw [hci]; intro e; cases e; simp [tagStart, identStartChar] at hts
    · intro m hm
      rw [hscan] at hm; cases hm
      have := drop_add_of_drop_append hd
      rw [← List.head?_drop, this]; exact hbar
    · rw [hci]; intro e; cases e
      rcases hc with hc | hc | hc
      · omega
      · omega
      · simp [identStartChar] at hc
  rw [matchToken_hit B s i 9 ⟨"tag", Gen.tok_tag, Gen.tok_tag_groups⟩ _ _ _ rfl (skip_tag' hci hts) hm]
  rfl

/-- The universal type selector `*`. -/
theorem nextToken_tag_star {i : Nat} {r : Str}
    (hd : s.drop i = 42 :: r) (hbar : r.head? ≠ some 124) :
    nextToken (penv B s) i = .ok (some (tagTok i (i + 1))) := by
  have hci := getElem?_of_drop_cons hd
  rw [nextToken_noGap B s hd (by simp [noGapStart, isCssWs])]
  have hlt := lt_of_drop_cons hd
  have hm : matchAt pyFoldEnv Gen.tok_tag s i = some (i + 1, [(2, i, i + 1)]) := by
    rw [tag_matchAt Ident.identFold_py s i (by omega), hd, scanIdent_star]
    · simp [hci]
    · rw [hci]; intro e; cases e
    · intro m hm; rw [hd, scanIdent_star] at hm; cases hm
    · intro _
      rw [← List.head?_drop, Ident.drop_succ_of_drop_cons hd]; exact hbar
  rw [matchToken_hit B s i 9 ⟨"tag", Gen.tok_tag, Gen.tok_tag_groups⟩ _ _ _ rfl
    (skip_tag' hci (by decide)) hm]
  rfl

end Compile
end Refine
end SoupVerif

#print axioms SoupVerif.Refine.Compile.tag_matchAt
#print axioms SoupVerif.Refine.Compile.nextToken_tag_ident
#print axioms SoupVerif.Refine.Compile.nextToken_tag_star
