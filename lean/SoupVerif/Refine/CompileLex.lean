/-
  Lexer-level lemmas for the end-to-end C09 theorem (`Properties/C09Compile.lean`).

  * `matchAt_none_of_first`: a token regex whose first-set (C07's `Rx.first`, sound by
    `Rx.first_sound`) does not contain the next character fails.  The first-sets of the regenerated
    token regexes are evaluated in the kernel, so an edit of a token regex in the source that changes
    its first characters breaks the proofs here.
  * `matchToken_skip`: `Parser.matchToken` passes over a prefix of the token table whose first-sets
    exclude the next character.
  * `nextToken_*`: what `selector_iter` yields at a position where a given token of the covered grammar
    starts.
-/
import SoupVerif.Properties.C09Rx
import SoupVerif.Properties.C06
namespace SoupVerif
namespace Refine
namespace Compile
open Rx RxBasic SoupVerif.Parser ParserProgress Escape Spelling

/-! ### First sets -/

/-- Key (in the C07 character-set abstraction for Python's IGNORECASE specials) of a character. -/
abbrev keyOf (o : Option Nat) : Nat := key foldSpecials o

theorem matchAt_none_of_first {r : Rx} {s : Str} {i : Nat}
    (h : first foldSpecials r (keyOf s[i]?) = false) : matchAt pyFoldEnv r s i = none := by
  cases hm : matchAt pyFoldEnv r s i with
  | none => rfl
  | some x =>
    obtain ⟨j, c⟩ := x
    have := first_sound pyFoldEnv pyFoldEnv_ok s r i j (matchAt_mem_ends hm)
    simp only [CSet.mem] at this
    rw [h] at this; cases this

/-- The regex whose success is necessary for slot `t` of the token table to yield a token. -/
def slotRx (t : TokenRx × Bool) : Rx := if t.2 then Gen.lexicon.specialName.rx else t.1.rx

/-- First-set test of a slot at a key. -/
def slotFirst (k : Nat) (t : TokenRx × Bool) : Bool := first foldSpecials (slotRx t) k

variable (B : Builtins) (s : Str)

/-- The parser environment of the statements: Python's IGNORECASE folding, the regenerated lexicon. -/
abbrev penv : PEnv := ⟨pyFoldEnv, Gen.lexicon, B, s⟩

theorem matchToken_skip_one (i : Nat) (t : TokenRx × Bool) (rest : List (TokenRx × Bool))
    (h : slotFirst (keyOf s[i]?) t = false) :
    matchToken (penv B s) i (t :: rest) = matchToken (penv B s) i rest := by
  obtain ⟨t, sp⟩ := t
  cases sp with
  | true =>
    have : matchAt pyFoldEnv Gen.lexicon.specialName.rx s i = none := matchAt_none_of_first h
    simp only [matchToken, if_true, this]
  | false =>
    have : matchAt pyFoldEnv t.rx s i = none := matchAt_none_of_first h
    simp only [matchToken, Bool.false_eq_true, if_false, this]

theorem matchToken_skip (i : Nat) : ∀ (n : Nat) (toks : List (TokenRx × Bool)),
    (toks.take n).all (fun t => !slotFirst (keyOf s[i]?) t) = true →
    matchToken (penv B s) i toks = matchToken (penv B s) i (toks.drop n)
  | 0, _, _ => rfl
  | _ + 1, [], _ => rfl
  | n + 1, t :: rest, h => by
    simp only [List.take_succ_cons, List.all_cons, Bool.and_eq_true, Bool.not_eq_true'] at h
    rw [matchToken_skip_one B s i t rest h.1, List.drop_succ_cons]
    exact matchToken_skip i n rest h.2

/-- The first `n` slots fail by their first sets, slot `n` is an ordinary token that matches. -/
theorem matchToken_hit (i n : Nat) (t : TokenRx) (rest : List (TokenRx × Bool)) (j : Nat) (caps : Caps)
    (hdrop : Gen.lexicon.tokens.drop n = (t, false) :: rest)
    (hskip : (Gen.lexicon.tokens.take n).all (fun t => !slotFirst (keyOf s[i]?) t) = true)
    (hm : matchAt pyFoldEnv t.rx s i = some (j, caps)) :
    matchToken (penv B s) i Gen.lexicon.tokens =
      some { name := t.name, rx := t, start := i, stop := j, caps := caps } := by
  rw [matchToken_skip B s i n _ hskip, hdrop]
  simp only [matchToken, Bool.false_eq_true, if_false, hm]

/-! ### Generic facts about positions -/

theorem lt_of_drop_cons {s : Str} {p c : Nat} {cs : Str} (h : s.drop p = c :: cs) : p < s.length :=
  Ident.lt_of_drop_cons h

theorem getElem?_of_drop_cons {s : Str} {p c : Nat} {cs : Str} (h : s.drop p = c :: cs) :
    s[p]? = some c := Ident.getElem?_of_drop_cons h

theorem drop_add_of_drop_append {s : Str} {p : Nat} {a r : Str} (h : s.drop p = a ++ r) :
    s.drop (p + a.length) = r := by
  rw [← List.drop_drop, h, List.drop_left' rfl]

theorem slice_of_drop_append {s : Str} {p : Nat} {a r : Str} (h : s.drop p = a ++ r) :
    slice s p (p + a.length) = a := by
  unfold slice
  rw [h, Nat.add_sub_cancel_left, List.take_left' rfl]

/-- `selector_iter` at a position where the text does not begin with a gap: the end-of-pattern test
    fails and the token table is consulted. -/
theorem nextToken_noGap {i c : Nat} {cs : Str} (hd : s.drop i = c :: cs)
    (hng : noGapStart (c :: cs) = true) :
    nextToken (penv B s) i =
      match matchToken (penv B s) i Gen.lexicon.tokens with
      | some t => .ok (some t)
      | none =>
        let c := s[i]?.getD 0
        let k := if c == 91 then ErrKind.malformedAttribute
          else if c == 46 then .malformedClass
          else if c == 35 then .malformedId
          else if c == 58 then .malformedPseudo
          else .invalidCharacter
        .error ((penv B s).err k i) := by
  have hlt := lt_of_drop_cons hd
  unfold nextToken
  have h1 : ¬ (i + 1 > (penv B s).pattern.length) := by show ¬ (i + 1 > s.length); omega
  rw [if_neg h1]
  have h2 : (matchAt pyFoldEnv Gen.cp_RE_WS_END s i).isSome = false := by
    rw [Wsc.ws_end_isSome pyFoldEnv s i (by omega), hd,
      SpellingLemmas.skipWSC_of_noGapStart _ hng]
    rfl
  have h2' : (matchAt (penv B s).env (penv B s).L.reWsEnd (penv B s).pattern i).isSome = false := h2
  rw [h2']
  rfl

/-! ### `#ident` and `.ident` -/

def idTok (i j : Nat) : Token :=
  { name := "id", rx := ⟨"id", Gen.tok_id, Gen.tok_id_groups⟩, start := i, stop := j, caps := [] }
def classTok (i j : Nat) : Token :=
  { name := "class", rx := ⟨"class", Gen.tok_class, Gen.tok_class_groups⟩, start := i, stop := j, caps := [] }

theorem skip_hash : (Gen.lexicon.tokens.take 7).all (fun t => !slotFirst 35 t) = true := by
  decide +kernel
theorem skip_dot : (Gen.lexicon.tokens.take 8).all (fun t => !slotFirst 46 t) = true := by
  decide +kernel

theorem nextToken_id {i : Nat} {forms : List (Nat × EscForm)} {r : Str}
    (hd : s.drop i = 35 :: (renderIdentWith forms ++ r))
    (hv : validForms forms r = true) (hh : headOk forms = true) (hr : ¬ continuesIdent r) :
    nextToken (penv B s) i = .ok (some (idTok i (i + 1 + (renderIdentWith forms).length))) := by
  rw [nextToken_noGap B s hd (by simp [noGapStart, isCssWs])]
  have hk : keyOf s[i]? = 35 := by rw [getElem?_of_drop_cons hd]; rfl
  rw [matchToken_skip B s i 7 _ (by rw [hk]; exact skip_hash)]
  have hm : matchAt pyFoldEnv Gen.tok_id s i = some (i + 1 + (renderIdentWith forms).length, []) := by
    rw [Ident.tok_id_matchAt Ident.identFold_py s i, hd,
      ← List.cons_append, C09.scan_any_spelling_prefixed 35 forms r hv hh hr]
    simp [Nat.add_assoc, Nat.add_comm]
  show (match matchToken (penv B s) i ((⟨"id", Gen.tok_id, Gen.tok_id_groups⟩, false) :: _) with
    | some t => _ | none => _) = _
  simp only [matchToken, Bool.false_eq_true, if_false, hm]
  rfl

theorem nextToken_class {i : Nat} {forms : List (Nat × EscForm)} {r : Str}
    (hd : s.drop i = 46 :: (renderIdentWith forms ++ r))
    (hv : validForms forms r = true) (hh : headOk forms = true) (hr : ¬ continuesIdent r) :
    nextToken (penv B s) i = .ok (some (classTok i (i + 1 + (renderIdentWith forms).length))) := by
  rw [nextToken_noGap B s hd (by simp [noGapStart, isCssWs])]
  have hk : keyOf s[i]? = 46 := by rw [getElem?_of_drop_cons hd]; rfl
  rw [matchToken_skip B s i 8 _ (by rw [hk]; exact skip_dot)]
  have hm : matchAt pyFoldEnv Gen.tok_class s i = some (i + 1 + (renderIdentWith forms).length, []) := by
    rw [Ident.tok_class_matchAt Ident.identFold_py s i, hd,
      ← List.cons_append, C09.scan_any_spelling_prefixed 46 forms r hv hh hr]
    simp [Nat.add_assoc, Nat.add_comm]
  show (match matchToken (penv B s) i ((⟨"class", Gen.tok_class, Gen.tok_class_groups⟩, false) :: _) with
    | some t => _ | none => _) = _
  simp only [matchToken, Bool.false_eq_true, if_false, hm]
  rfl

end Compile
end Refine
end SoupVerif

#print axioms SoupVerif.Refine.Compile.matchAt_none_of_first
#print axioms SoupVerif.Refine.Compile.matchToken_skip
#print axioms SoupVerif.Refine.Compile.nextToken_id
#print axioms SoupVerif.Refine.Compile.nextToken_class
