/-
  Engine lemmas about `IDENTIFIER` beyond its first run (needed where the engine may backtrack into an
  identifier: the optional namespace prefix of `tag` and `attribute`), and general sequence lemmas.
-/
import SoupVerif.Refine.CompileLex
namespace SoupVerif
namespace Refine
namespace Compile
open Rx RxBasic SoupVerif.Parser ParserProgress Escape Spelling
open Ident (rxHead rxStar rxContSet contStep contLen single IdentFold)

/-! ### Sequences -/

theorem runsSeq_append (env : CharEnv) (s : Str) : ∀ (as rs : List Rx) (i : Nat) (caps : Caps),
    runsSeq env s (as ++ rs) i caps =
      (runsSeq env s as i caps).flatMap fun x => runsSeq env s rs x.1 x.2
  | [], rs, i, caps => by simp [runsSeq_nil]
  | a :: as, rs, i, caps => by
    rw [List.cons_append, runsSeq_cons, runsSeq_cons, List.flatMap_assoc]
    congr 1; funext x
    exact runsSeq_append env s as rs x.1 x.2

/-- A nested sequence is flattened. -/
theorem runsSeq_seq_cons (env : CharEnv) (s : Str) (as rs : List Rx) (i : Nat) (caps : Caps) :
    runsSeq env s (.seq as :: rs) i caps = runsSeq env s (as ++ rs) i caps := by
  rw [runsSeq_cons, runs_seq, runsSeq_append]

theorem head?_flatMap_cons {α β} (a : α) (l : List α) (k : α → List β) (b : β)
    (h : (k a).head? = some b) : ((a :: l).flatMap k).head? = some b := by
  rw [List.flatMap_cons]; exact Ident.head?_append_of_some h

theorem flatMap_eq_nil_of {α β} (l : List α) (k : α → List β) (h : ∀ x ∈ l, k x = []) :
    l.flatMap k = [] := by
  rw [List.flatMap_eq_nil_iff]; exact h

theorem flatMap_self {α} (f : α → List α) (h : ∀ x, f x = [x]) : ∀ l : List α, l.flatMap f = l
  | [] => rfl
  | x :: l => by rw [List.flatMap_cons, h x, flatMap_self f h l]; rfl

/-- A greedy `(...)?`: the body's runs first, then the empty iteration. -/
theorem iter_opt (body : Nat → Caps → List (Nat × Caps)) (f pos : Nat) (caps : Caps) :
    iter body 0 (some 1) true (f + 2) 0 pos caps = body pos caps ++ [(pos, caps)] := by
  have h1 : ∀ p' c', iter body 0 (some 1) true (f + 1) 1 p' c' = [(p', c')] := by
    intro p' c'; rw [iter]; simp
  rw [iter]
  simp only [Nat.lt_add_one, if_true, h1, Nat.zero_le, ge_iff_le]
  congr 1
  apply flatMap_self
  rintro ⟨p', c'⟩
  simp

theorem runs_opt (env : CharEnv) (s : Str) (r : Rx) (i : Nat) (caps : Caps) :
    runs env s (.rep 0 (some 1) true r) i caps = runs env s r i caps ++ [(i, caps)] := by
  rw [runs]
  exact iter_opt _ _ i caps

/-! ### All runs of the `*` loop of `IDENTIFIER` -/

/-- End of the loop unit that starts at `p`. -/
def contU (s : Str) (p : Nat) : Option Nat := (contStep (s.drop p)).map (p + ·)

theorem single_eq_one (s : Str) (p : Nat) (c : Caps) :
    single p c (contStep (s.drop p)) = Wsc.one (contU s p) c := by
  unfold contU
  cases contStep (s.drop p) <;> rfl

theorem contU_bounds {s : Str} {p q : Nat} (h : contU s p = some q) : p < q ∧ q ≤ s.length := by
  unfold contU at h
  cases hc : contStep (s.drop p) with
  | none => rw [hc] at h; cases h
  | some n =>
    rw [hc] at h
    simp only [Option.map_some, Option.some.injEq] at h
    have := Ident.contStep_bounds hc
    rw [List.length_drop] at this
    omega

/-- The runs of the loop: the maximal one first; every other one ends where a further unit starts. -/
theorem star_runs {env : CharEnv} (h : IdentFold env) (s : Str) (i : Nat) (caps : Caps)
    (hi : i ≤ s.length) :
    ∃ rest, runs env s rxStar i caps = (i + contLen (s.drop i), caps) :: rest ∧
      ∀ x ∈ rest, x.2 = caps ∧ (contStep (s.drop x.1)).isSome = true := by
  obtain ⟨_, _, _, rest, h4, h5⟩ :=
    Wsc.iter_det (fun p c => runs env s (.alt [rxContSet, Ident.rxEsc]) p c) (contU s) s.length
      (fun p c => by rw [Ident.runs_contAlt h, single_eq_one]) (fun p q hq => contU_bounds hq)
      (s.length - i + 0 + 2) 0 i caps (by omega) hi
  have hh := Ident.head?_runs_star h s i caps
  have hr : runs env s rxStar i caps =
      (Wsc.fin (contU s) (s.length - i + 0 + 2) i, caps) :: rest := by
    unfold rxStar; rw [runs]; exact h4
  rw [hr] at hh
  simp only [List.head?_cons, Option.some.injEq, Prod.mk.injEq] at hh
  refine ⟨rest, by rw [hr, hh.1], ?_⟩
  intro x hx
  obtain ⟨a, _, c⟩ := h5 x hx
  refine ⟨a, ?_⟩
  unfold contU at c
  cases hc : contStep (s.drop x.1) with
  | none => rw [hc] at c; cases c
  | some n => rfl

/-- `IDENTIFIER` followed by a continuation `rs` that fails wherever a further loop unit starts (an
    identifier character or an escape): the loop gives nothing back, only its maximal run continues. -/
theorem ident_then {env : CharEnv} (h : IdentFold env) (s : Str) (i : Nat) (caps : Caps) (rs : List Rx)
    (hi : i ≤ s.length)
    (hk : ∀ j c, (contStep (s.drop j)).isSome = true → runsSeq env s rs j c = []) :
    runsSeq env s (rxHead :: rxStar :: rs) i caps =
      match Escape.headLen (s.drop i) with
      | none => []
      | some n => runsSeq env s rs (i + n + contLen (s.drop (i + n))) caps := by
  rw [runsSeq_cons, Ident.runs_head h]
  cases hh : Escape.headLen (s.drop i) with
  | none => simp [single]
  | some n =>
    have hb := Ident.headLen_bounds hh
    rw [List.length_drop] at hb
    simp only [single, List.flatMap_cons, List.flatMap_nil, List.append_nil]
    obtain ⟨rest, h1, h2⟩ := star_runs h s (i + n) caps (by omega)
    rw [runsSeq_cons, h1, List.flatMap_cons,
      flatMap_eq_nil_of rest _ (fun x hx => hk x.1 x.2 (h2 x hx).2), List.append_nil]

/-! ### A literal that is not there -/

/-- What the head of the text at `j` must not be for a literal `c` to fail there. -/
theorem contStep_head {t : Str} (h : (contStep t).isSome = true) :
    ∃ c cs, t = c :: cs ∧ (identContChar c = true ∨ c = 92) := by
  cases t with
  | nil => simp [contStep] at h
  | cons c cs =>
    refine ⟨c, cs, rfl, ?_⟩
    by_cases hc : identContChar c = true
    · exact Or.inl hc
    · right
      simp only [contStep, hc, Bool.false_eq_true, if_false] at h
      by_contra h92
      simp [escLen, h92] at h

theorem lit_fail {env : CharEnv} (h : IdentFold env) (s : Str) (k : Nat)
    (hk : k < 65 ∨ (91 ≤ k ∧ k ≤ 96) ∨ (123 ≤ k ∧ k ≤ 127)) (rs : List Rx) (j : Nat) (c : Caps)
    (hj : s[j]? ≠ some k) : runsSeq env s (.lit k true :: rs) j c = [] := by
  rw [runsSeq_char (isChar_lit env s k true)]
  cases hx : s[j]? with
  | none => rfl
  | some x =>
    have : x ≠ k := by intro e; subst e; exact hj hx
    simp [Ident.fold_eq_const h k hk, this]

theorem lit_ok (env : CharEnv) (s : Str) (k : Nat) (rs : List Rx) (j : Nat) (c : Caps)
    (hj : s[j]? = some k) : runsSeq env s (.lit k true :: rs) j c = runsSeq env s rs (j + 1) c := by
  rw [runsSeq_char (isChar_lit env s k true), hj]
  simp

/-- A literal outside the identifier alphabet fails wherever a loop unit of `IDENTIFIER` starts. -/
theorem lit_fail_at_unit {env : CharEnv} (h : IdentFold env) (s : Str) (k : Nat)
    (hk : k < 65 ∨ (91 ≤ k ∧ k ≤ 96) ∨ (123 ≤ k ∧ k ≤ 127))
    (hk' : identContChar k = false ∧ k ≠ 92) (rs : List Rx) (j : Nat) (c : Caps)
    (hj : (contStep (s.drop j)).isSome = true) : runsSeq env s (.lit k true :: rs) j c = [] := by
  obtain ⟨x, cs, hd, hx⟩ := contStep_head hj
  apply lit_fail h s k hk
  rw [getElem?_of_drop_cons hd]
  intro e
  cases e
  rcases hx with hx | hx
  · rw [hk'.1] at hx; cases hx
  · exact hk'.2 hx

/-! ### `IDENTIFIER` and `(?:IDENTIFIER|\*)` in terms of the scanner -/

def rxIdent : Rx := .seq [rxHead, rxStar]
def rxName : Rx := .alt [rxIdent, .lit 42 true]

/-- End position of the identifier scanned at `i`, via the pieces the engine lemmas speak of. -/
theorem scanIdent_end {s : Str} {i : Nat} {m r : Str} (h : scanIdent (s.drop i) = some (m, r)) :
    ∃ n, Escape.headLen (s.drop i) = some n ∧ i + n + contLen (s.drop (i + n)) = i + m.length := by
  unfold scanIdent at h
  cases hh : Escape.headLen (s.drop i) with
  | none => rw [hh] at h; cases h
  | some n =>
    rw [hh] at h
    simp only [Option.map_some, Option.some.injEq] at h
    have hb := Ident.headLen_bounds hh
    have := Ident.scanCont_length hb.2
    rw [h, List.drop_drop] at this
    exact ⟨n, rfl, by simp only at this; omega⟩

theorem ident_then_scan {env : CharEnv} (h : IdentFold env) (s : Str) (i : Nat) (caps : Caps) (rs : List Rx)
    (hi : i ≤ s.length)
    (hk : ∀ j c, (contStep (s.drop j)).isSome = true → runsSeq env s rs j c = []) :
    runsSeq env s (rxIdent :: rs) i caps =
      match scanIdent (s.drop i) with
      | none => []
      | some m => runsSeq env s rs (i + m.1.length) caps := by
  unfold rxIdent
  rw [runsSeq_seq_cons]
  show runsSeq env s (rxHead :: rxStar :: rs) i caps = _
  rw [ident_then h s i caps rs hi hk]
  cases hs : scanIdent (s.drop i) with
  | none =>
    unfold scanIdent at hs
    cases hh : Escape.headLen (s.drop i) with
    | none => rfl
    | some n => rw [hh] at hs; cases hs
  | some m =>
    obtain ⟨n, h1, h2⟩ := scanIdent_end (m := m.1) (r := m.2) hs
    rw [h1]; simp only; rw [h2]

/-- `(?:IDENTIFIER|\*)` followed by such a continuation. -/
theorem name_then {env : CharEnv} (h : IdentFold env) (s : Str) (i : Nat) (caps : Caps) (rs : List Rx)
    (hi : i ≤ s.length)
    (hk : ∀ j c, (contStep (s.drop j)).isSome = true → runsSeq env s rs j c = []) :
    runsSeq env s (rxName :: rs) i caps =
      (match scanIdent (s.drop i) with
        | none => []
        | some m => runsSeq env s rs (i + m.1.length) caps) ++
      (if s[i]? = some 42 then runsSeq env s rs (i + 1) caps else []) := by
  unfold rxName
  rw [runsSeq_cons, runs_alt, runsAlt_cons, runsAlt_cons, runsAlt_nil, List.append_nil,
    List.flatMap_append, ← runsSeq_cons, ← runsSeq_cons, ident_then_scan h s i caps rs hi hk]
  congr 1
  by_cases h42 : s[i]? = some 42
  · rw [if_pos h42, lit_ok env s 42 rs i caps h42]
  · rw [if_neg h42, lit_fail h s 42 (by omega) rs i caps h42]

theorem scanIdent_star (cs : Str) : scanIdent (42 :: cs) = none := by
  simp [scanIdent, Escape.headLen, Escape.startLen, identStartChar, escLen]

end Compile
end Refine
end SoupVerif

#print axioms SoupVerif.Refine.Compile.star_runs
#print axioms SoupVerif.Refine.Compile.ident_then
#print axioms SoupVerif.Refine.Compile.name_then
