/-
  The `combine` token `WSC*?(?P<relation>[,+>~]|WS(?!WSC*[,+>~]))WSC*` (item (c) of C09's plan):
  its look-ahead related to the hand scanner `skipWSC`.
-/
import SoupVerif.Refine.CompileIdent
namespace SoupVerif
namespace Refine
namespace Compile
open Rx RxBasic SoupVerif.Parser ParserProgress Escape Spelling
open Wsc (CaseFree wscRx wsRx gapRx unitEnd wsEnd commentEnd gapEnd one)
open Ident (IdentFold)

/-! ### Shape -/

def combSet : Rx := .set false [.ch 44, .ch 43, .ch 62, .ch 126] true
def relRx : Rx := .alt [combSet, .seq [wsRx true, .look true true (.seq [gapRx true, combSet])]]

theorem tok_combine_shape :
    Gen.tok_combine = .seq [.rep 0 none false (wscRx true), .group 1 relRx, gapRx true] := rfl

/-- `,` `+` `>` `~`. -/
def isComb (x : Nat) : Bool := x == 44 || x == 43 || x == 62 || x == 126

theorem isChar_comb {env : CharEnv} (h : IdentFold env) (s : Str) : IsChar env s combSet isComb := by
  apply isChar_congr (isChar_set env s _ _ _)
  intro x
  have h44 := Ident.fold_const_eq h 44 (by omega) x
  have h43 := Ident.fold_const_eq h 43 (by omega) x
  have h62 := Ident.fold_const_eq h 62 (by omega) x
  have h126 := Ident.fold_const_eq h 126 (by omega) x
  simp [setHas, itemHas, isComb, h44, h43, h62, h126, Bool.or_assoc]

/-! ### The lazy star over a body with at most one run -/

theorem iter_lazy_succ (body : Nat → Caps → List (Nat × Caps)) (fuel count pos : Nat) (caps : Caps) :
    iter body 0 none false (fuel + 1) count pos caps =
      (pos, caps) :: (body pos caps).flatMap fun x =>
        if x.1 > pos then iter body 0 none false fuel (count + 1) x.1 x.2 else [x] := by
  rw [iter_succ]
  simp [RxBasic.canMore]

/-- First success of a continuation `K` tried at the successive unit boundaries from `p` on. -/
def lazyHead (s : Str) (K : Nat → Option (Nat × Caps)) : Nat → Nat → Option (Nat × Caps)
  | 0, _ => none
  | f + 1, p =>
    match K p with
    | some v => some v
    | none =>
      match unitEnd s p with
      | some q => lazyHead s K f q
      | none => none

theorem iter_lazy_head (s : Str) (body : Nat → Caps → List (Nat × Caps))
    (hb : ∀ p c, body p c = one (unitEnd s p) c) (KK : Nat × Caps → List (Nat × Caps)) (caps : Caps) :
    ∀ (fuel count pos : Nat),
      ((iter body 0 none false fuel count pos caps).flatMap KK).head? =
        lazyHead s (fun p => (KK (p, caps)).head?) fuel pos
  | 0, _, _ => by rw [iter]; rfl
  | fuel + 1, count, pos => by
    rw [iter_lazy_succ, List.flatMap_cons, lazyHead, hb]
    cases hk : (KK (pos, caps)).head? with
    | some v => exact Ident.head?_append_of_some hk
    | none =>
      have : KK (pos, caps) = [] := by
        cases h : KK (pos, caps) with
        | nil => rfl
        | cons a l => rw [h] at hk; cases hk
      rw [this, List.nil_append]
      cases hu : unitEnd s pos with
      | none => rfl
      | some q =>
        have hlt := (Wsc.unitEnd_bounds hu).1
        simp only [one, List.flatMap_cons, List.flatMap_nil, List.append_nil, hlt, if_true]
        exact iter_lazy_head s body hb KK caps fuel (count + 1) q

/-- `WSC*?` followed by `rs`: the first success of `rs` at the successive unit boundaries. -/
theorem lazyGap_head {env : CharEnv} (hcf : CaseFree env) (s : Str) (rs : List Rx) (i : Nat) (caps : Caps) :
    (runsSeq env s (.rep 0 none false (wscRx true) :: rs) i caps).head? =
      lazyHead s (fun p => (runsSeq env s rs p caps).head?) (s.length - i + 0 + 2) i := by
  rw [runsSeq_cons, runs]
  exact iter_lazy_head s _ (fun p c => Wsc.wsc_runs true (fun _ => hcf) s p c)
    (fun x => runsSeq env s rs x.1 x.2) caps _ 0 i

/-! ### The relation group at a position -/

theorem unit_start_not_comb {s : Str} {j x : Nat} (h : (unitEnd s j).isSome = true) (hx : s[j]? = some x) :
    isComb x = false := by
  unfold unitEnd wsEnd commentEnd at h
  rw [hx] at h
  by_cases hw : isCssWs x = true
  · simp only [isCssWs, Bool.or_eq_true, beq_iff_eq] at hw
    rcases hw with (((e | e) | e) | e) | e <;> subst e <;> rfl
  · have hw' : isCssWs x = false := by simpa using hw
    simp only [hw', Bool.false_eq_true, if_false] at h
    by_cases h47 : x = 47
    · subst h47; rfl
    · simp [h47] at h

section
variable {env : CharEnv} (hcf : CaseFree env) (hif : IdentFold env) (s : Str)
include hcf hif

omit hcf in
theorem comb_at (j : Nat) (c : Caps) (rs : List Rx) :
    runsSeq env s (combSet :: rs) j c =
      match s[j]? with
      | some x => if isComb x then runsSeq env s rs (j + 1) c else []
      | none => [] :=
  runsSeq_char (isChar_comb hif s) rs j c

omit hcf in
theorem comb_fail_at_unit (j : Nat) (c : Caps) (rs : List Rx) (h : (unitEnd s j).isSome = true) :
    runsSeq env s (combSet :: rs) j c = [] := by
  rw [runsSeq_char (isChar_comb hif s)]
  cases hx : s[j]? with
  | none => rfl
  | some x => simp [unit_start_not_comb h hx]

/-- The body of the look-ahead `(?!WSC*[,+>~])` at `p`: succeeds iff the maximal gap from `p` is
    followed by a combinator character. -/
theorem lookBody (p : Nat) (caps : Caps) (hp : p ≤ s.length) :
    (runsSeq env s [gapRx true, combSet] p caps).isEmpty =
      !(match (skipWSC (s.drop p)).head? with | some x => isComb x | none => false) := by
  rw [Wsc.gap_then true (fun _ => hcf) s p hp caps [combSet]
    (fun j c hj => comb_fail_at_unit hif s j c [] hj)]
  rw [runsSeq_char (isChar_comb hif s), ← Wsc.gapEnd_drop s p hp, List.head?_drop]
  cases s[gapEnd s p]? with
  | none => rfl
  | some x =>
    simp only [runsSeq_nil]
    cases isComb x <;> rfl

/-- The runs of the relation alternative at `p`. -/
theorem rel_runs (p : Nat) :
    runs env s relRx p [] =
      (match s[p]? with | some x => if isComb x then [(p + 1, [])] else [] | none => []) ++
      (match wsEnd s p with
        | some p' =>
          if (match (skipWSC (s.drop p')).head? with | some x => isComb x | none => false)
          then [] else [(p', [])]
        | none => []) := by
  unfold relRx
  rw [runs_alt, runsAlt_cons, runsAlt_cons, runsAlt_nil, List.append_nil,
    ← Wsc.runsSeq_single, comb_at hif, runs_seq, runsSeq_cons,
    Wsc.ws_runs true (fun _ => hcf)]
  simp only [runsSeq_nil]
  congr 1
  · have hb : ∀ p', wsEnd s p = some p' → p' ≤ s.length := by
      intro p' hw
      have : unitEnd s p = some p' := by unfold unitEnd; rw [hw]
      exact (Wsc.unitEnd_bounds this).2
    generalize wsEnd s p = w at hb ⊢
    cases w with
    | none => rfl
    | some p' =>
      simp only [one, List.flatMap_cons, List.flatMap_nil, List.append_nil]
      rw [Wsc.runsSeq_single, runs, runs_seq, lookBody hcf hif s p' [] (hb p' rfl)]
      cases (match (skipWSC (s.drop p')).head? with | some x => isComb x | none => false) <;> simp

/-- The continuation of `WSC*?` in `combine`, at a unit boundary `p`. -/
def relK (env : CharEnv) (s : Str) (p : Nat) : Option (Nat × Caps) :=
  (runsSeq env s [.group 1 relRx, gapRx true] p []).head?

omit hif hcf in
theorem relK_of_nil (p : Nat) (h : runs env s relRx p [] = []) : relK env s p = none := by
  unfold relK
  rw [runsSeq_cons, runs_group, h]; rfl

omit hif in
theorem relK_of_head (p q : Nat) (rest : List (Nat × Caps)) (hq : q ≤ s.length)
    (h : runs env s relRx p [] = (q, []) :: rest) :
    relK env s p = some (gapEnd s q, [(1, p, q)]) := by
  unfold relK
  rw [runsSeq_cons, runs_group, h]
  simp only [List.map_cons, List.flatMap_cons, List.filter_nil]
  apply Ident.head?_append_of_some
  rw [Wsc.runsSeq_single]
  obtain ⟨_, _, _, _, rest', h', _⟩ := Wsc.gap_runs true (fun _ => hcf) s q hq [(1, p, q)]
  rw [h']; rfl

/-- At a combinator character. -/
theorem relK_comb (p c : Nat) (hc : s[p]? = some c) (hcomb : isComb c = true) :
    relK env s p = some (gapEnd s (p + 1), [(1, p, p + 1)]) := by
  have hlt := Wsc.getElem?_lt hc
  have := rel_runs hcf hif s p
  rw [hc] at this
  simp only [hcomb, if_true, List.cons_append, List.nil_append] at this
  exact relK_of_head hcf s p (p + 1) _ (by omega) this

/-- At a comment. -/
theorem relK_comment (p : Nat) (hw : wsEnd s p = none) (hu : (unitEnd s p).isSome = true) :
    relK env s p = none := by
  apply relK_of_nil
  rw [rel_runs hcf hif s p, hw]
  cases hx : s[p]? with
  | none => rfl
  | some x => simp [unit_start_not_comb hu hx]

/-- At a whitespace unit after which the gap leads to a combinator character. -/
theorem relK_ws_comb (p p' c : Nat) (r : Str) (hw : wsEnd s p = some p')
    (hr : skipWSC (s.drop p') = c :: r) (hcomb : isComb c = true) : relK env s p = none := by
  apply relK_of_nil
  have hu : (unitEnd s p).isSome = true := by unfold unitEnd; rw [hw]; rfl
  rw [rel_runs hcf hif s p, hw]
  simp only [hr, List.head?_cons, hcomb, if_true, List.append_nil]
  cases hx : s[p]? with
  | none => rfl
  | some x => simp [unit_start_not_comb hu hx]

/-- At a whitespace unit after which the gap leads to something else: the descendant combinator. -/
theorem relK_ws_desc (p p' : Nat) (hw : wsEnd s p = some p')
    (hr : ∀ c ∈ (skipWSC (s.drop p')).head?, isComb c = false) :
    relK env s p = some (gapEnd s p', [(1, p, p')]) := by
  have hu : unitEnd s p = some p' := by unfold unitEnd; rw [hw]
  have hb := Wsc.unitEnd_bounds hu
  have hnc : (match (skipWSC (s.drop p')).head? with | some x => isComb x | none => false) = false := by
    cases hh : (skipWSC (s.drop p')).head? with
    | none => rfl
    | some x => exact hr x (by simp [hh])
  have := rel_runs hcf hif s p
  rw [hw] at this
  simp only [hnc, Bool.false_eq_true, if_false] at this
  have hx : (match s[p]? with | some x => if isComb x = true then [(p + 1, ([] : Caps))] else [] | none => []) = [] := by
    cases hx : s[p]? with
    | none => rfl
    | some x => simp [unit_start_not_comb (by rw [hu]; rfl) hx]
  rw [hx, List.nil_append] at this
  exact relK_of_head hcf s p p' [] hb.2 this

omit hcf hif in
theorem gapEnd_of_skip_self {pos : Nat} (hp : pos ≤ s.length) (h : skipWSC (s.drop pos) = s.drop pos) :
    gapEnd s pos = pos := by
  unfold gapEnd; rw [h, List.length_drop]; omega

/-- Case A: the maximal gap from `pos` is followed by a combinator character `c`. -/
theorem lazyHead_comb (c : Nat) (R : Str) (hcomb : isComb c = true) :
    ∀ (fuel pos : Nat), s.length - pos + 1 ≤ fuel → pos ≤ s.length → skipWSC (s.drop pos) = c :: R →
      lazyHead s (relK env s) fuel pos =
        some (gapEnd s (gapEnd s pos + 1), [(1, gapEnd s pos, gapEnd s pos + 1)])
  | 0, _, hf, _, _ => by omega
  | fuel + 1, pos, hf, hp, hsk => by
    rw [lazyHead]
    cases hu : unitEnd s pos with
    | none =>
      have h1 := Wsc.skip_none hu
      have hg := gapEnd_of_skip_self s hp h1
      rw [hsk] at h1
      have hc := getElem?_of_drop_cons h1.symm
      rw [relK_comb hcf hif s pos c hc hcomb, hg]
    | some q =>
      have hb := Wsc.unitEnd_bounds hu
      have hsq : skipWSC (s.drop q) = c :: R := by rw [← Wsc.skip_unit hu]; exact hsk
      have hk : relK env s pos = none := by
        cases hw : wsEnd s pos with
        | none => exact relK_comment hcf hif s pos hw (by rw [hu]; rfl)
        | some p' =>
          have : q = p' := by
            unfold unitEnd at hu; rw [hw] at hu; exact (Option.some.inj hu).symm
          subst this
          exact relK_ws_comb hcf hif s pos q c R hw hsq hcomb
      rw [hk]
      simp only
      rw [lazyHead_comb c R hcomb fuel q (by omega) hb.2 hsq]
      have : gapEnd s q = gapEnd s pos := by unfold gapEnd; rw [hsq, hsk]
      rw [this]

end

/-- A gap that contains at least one whitespace unit outside comments: what the descendant
    combinator is written as. -/
inductive DescGap : Str → Prop
  | ws (c : Nat) (g : Str) : isCssWs c = true → isGap g → DescGap (c :: g)
  | comment (cs t : Str) : dropComment cs = some t → DescGap t → DescGap (47 :: 42 :: cs)

theorem DescGap.isGap {g : Str} (h : DescGap g) : isGap g := by
  induction h with
  | ws c g hc hg => exact C09.gap_ws c g hc hg
  | comment cs t hd _ ih =>
    unfold Spelling.isGap
    rw [SpellingLemmas.skipWSC_comment cs t hd]; exact ih

theorem DescGap.ne_nil {g : Str} (h : DescGap g) : g ≠ [] := by
  cases h <;> simp

section
variable {env : CharEnv} (hcf : CaseFree env) (hif : IdentFold env) (s : Str)
include hcf hif

/-- Case B: a gap with a whitespace unit, followed by something that is neither a gap nor a
    combinator character. -/
theorem lazyHead_desc (R : Str) (hR : noGapStart R = true) (hRc : ∀ c ∈ R.head?, isComb c = false) :
    ∀ (g : Str), DescGap g → ∀ (fuel pos : Nat), s.length - pos + 1 ≤ fuel → s.drop pos = g ++ R →
      ∃ p p', lazyHead s (relK env s) fuel pos = some (pos + g.length, [(1, p, p')]) ∧
        wsEnd s p = some p' := by
  intro g hg
  induction hg with
  | ws c g' hc hg' =>
    intro fuel pos hf hd
    cases fuel with
    | zero => omega
    | succ fuel =>
      have hx := getElem?_of_drop_cons (s := s) (p := pos) (by rw [hd]; rfl)
      have hlt := Wsc.getElem?_lt hx
      obtain ⟨p', hw⟩ : ∃ p', wsEnd s pos = some p' := by
        unfold wsEnd; rw [hx]; simp only [hc, if_true]
        split <;> exact ⟨_, rfl⟩
      have hu : unitEnd s pos = some p' := by unfold unitEnd; rw [hw]
      have hb := Wsc.unitEnd_bounds hu
      have hsk : skipWSC (s.drop p') = R := by
        rw [← Wsc.skip_unit hu, hd, C09.skipWSC_append (c :: g') R (C09.gap_ws c g' hc hg') hR]
      have hk := relK_ws_desc hcf hif s pos p' hw (by rw [hsk]; exact hRc)
      refine ⟨pos, p', ?_, hw⟩
      rw [lazyHead, hk]
      simp only
      have : gapEnd s p' = pos + (c :: g').length := by
        unfold gapEnd; rw [hsk]
        have := congrArg List.length hd
        rw [List.length_drop, List.length_append] at this
        omega
      rw [this]
  | comment cs t hdc _ ih =>
    intro fuel pos hf hd
    cases fuel with
    | zero => omega
    | succ fuel =>
      have hd0 : s.drop pos = 47 :: 42 :: (cs ++ R) := by rw [hd]; rfl
      have hx0 := getElem?_of_drop_cons hd0
      have hd1 := Ident.drop_succ_of_drop_cons hd0
      have hx1 := getElem?_of_drop_cons hd1
      have hd2 : s.drop (pos + 2) = cs ++ R := Ident.drop_succ_of_drop_cons hd1
      have hw : wsEnd s pos = none := by unfold wsEnd; rw [hx0]; rfl
      have hdc' := Wsc.dropComment_drop s (pos + 2)
      rw [hd2, SpellingLemmas.dropComment_append cs t R hdc] at hdc'
      cases hce : Wsc.cmtEnd s (pos + 2) with
      | none => rw [hce] at hdc'; cases hdc'
      | some q =>
        rw [hce] at hdc'
        simp only [Option.map_some, Option.some.injEq] at hdc'
        have hu : unitEnd s pos = some q := by
          unfold unitEnd; rw [hw]
          simp only [commentEnd, hx0, hx1, and_self, if_true]; exact hce
        have hb := Wsc.unitEnd_bounds hu
        have hk := relK_comment hcf hif s pos hw (by rw [hu]; rfl)
        obtain ⟨p, p', h1, h2⟩ := ih fuel q (by omega) hdc'.symm
        refine ⟨p, p', ?_, h2⟩
        rw [lazyHead, hk]
        simp only [hu]
        rw [h1]
        have e1 := congrArg List.length hd0
        have e2 := congrArg List.length hdc'
        simp only [List.length_drop, List.length_append, List.length_cons] at e1 e2
        congr 2
        simp only [List.length_cons]
        omega

end

/-! ### The token -/

theorem combine_matchAt {env : CharEnv} (hcf : CaseFree env) (s : Str) (i : Nat) :
    matchAt env Gen.tok_combine s i = lazyHead s (relK env s) (s.length - i + 0 + 2) i := by
  rw [tok_combine_shape]
  unfold matchAt
  rw [runs_seq, lazyGap_head hcf]
  rfl

/-- `g₁ c g₂` with `c` one of `,` `+` `>` `~`: one `combine` token up to the end of `g₂`, the relation
    group is the character `c`. -/
theorem combine_matchAt_comb {env : CharEnv} (hcf : CaseFree env) (hif : IdentFold env) (s : Str) (i c : Nat)
    (g₁ g₂ R : Str) (hd : s.drop i = g₁ ++ c :: (g₂ ++ R)) (hg₁ : isGap g₁) (hg₂ : isGap g₂)
    (hcomb : isComb c = true) (hR : noGapStart R = true) :
    ∃ e stop, matchAt env Gen.tok_combine s i = some (stop, [(1, e, e + 1)]) ∧
      slice s e (e + 1) = [c] ∧ s.drop stop = R ∧ i < stop := by
  have hi : i ≤ s.length := by
    rcases Nat.lt_or_ge s.length i with h | h
    · rw [List.drop_eq_nil_of_le (by omega)] at hd
      cases g₁ <;> cases hd
    · exact h
  have hcng : noGapStart (c :: (g₂ ++ R)) = true := by
    simp only [isComb, Bool.or_eq_true, beq_iff_eq] at hcomb
    rcases hcomb with ((h | h) | h) | h <;> subst h <;> simp [noGapStart, isCssWs]
  have hsk : skipWSC (s.drop i) = c :: (g₂ ++ R) := by
    rw [hd, C09.skipWSC_append g₁ _ hg₁ hcng]
  have he := Wsc.gapEnd_drop s i hi
  rw [hsk] at he
  have hlt := lt_of_drop_cons he
  have he1 : s.drop (gapEnd s i + 1) = g₂ ++ R := Ident.drop_succ_of_drop_cons he
  have hstop := Wsc.gapEnd_drop s (gapEnd s i + 1) (by omega)
  rw [he1, C09.skipWSC_append g₂ R hg₂ hR] at hstop
  refine ⟨gapEnd s i, gapEnd s (gapEnd s i + 1), ?_, ?_, hstop, ?_⟩
  · rw [combine_matchAt hcf, lazyHead_comb hcf hif s c (g₂ ++ R) hcomb _ i (by omega) hi hsk]
  · exact slice_of_drop_append (a := [c]) he
  · have h1 := (Wsc.gap_runs (env := env) true (fun _ => hcf) s i hi []).2.1
    have h2 := (Wsc.gap_runs (env := env) true (fun _ => hcf) s (gapEnd s i + 1) (by omega) []).2.1
    omega

/-- A gap with a whitespace unit, not followed by a combinator character: one `combine` token, the
    relation group is that whitespace unit. -/
theorem combine_matchAt_desc {env : CharEnv} (hcf : CaseFree env) (hif : IdentFold env) (s : Str) (i : Nat)
    (g R : Str) (hd : s.drop i = g ++ R) (hg : DescGap g)
    (hR : noGapStart R = true) (hRc : ∀ c ∈ R.head?, isComb c = false) :
    ∃ p p', matchAt env Gen.tok_combine s i = some (i + g.length, [(1, p, p')]) ∧
      wsEnd s p = some p' := by
  rw [combine_matchAt hcf]
  exact lazyHead_desc hcf hif s R hR hRc g hg _ i (by omega) hd

theorem wsEnd_slice {s : Str} {p p' : Nat} (h : wsEnd s p = some p') :
    ∀ x ∈ slice s p p', isPySpace x = true := by
  unfold wsEnd at h
  cases hx : s[p]? with
  | none => rw [hx] at h; cases h
  | some x =>
    rw [hx] at h
    simp only at h
    have hd := Wsc.drop_cons_of hx
    by_cases hw : isCssWs x = true
    · have hxs : isPySpace x = true := by
        simp only [isCssWs, Bool.or_eq_true, beq_iff_eq] at hw
        rcases hw with (((e | e) | e) | e) | e <;> subst e <;> rfl
      rw [if_pos hw] at h
      split at h
      · next hc =>
        cases h
        have hd' := Wsc.drop_cons_of hc.2
        intro y hy
        unfold slice at hy
        rw [hd, hd'] at hy
        simp only [show p + 2 - p = 2 by omega, List.take_succ_cons, List.take_zero,
          List.mem_cons, List.not_mem_nil, or_false] at hy
        rcases hy with rfl | rfl
        · exact hxs
        · rfl
      · cases h
        intro y hy
        unfold slice at hy
        rw [hd] at hy
        simp only [show p + 1 - p = 1 by omega, List.take_succ_cons, List.take_zero,
          List.mem_cons, List.not_mem_nil, or_false] at hy
        subst hy; exact hxs
    · rw [if_neg hw] at h; cases h

end Compile
end Refine
end SoupVerif

#print axioms SoupVerif.Refine.Compile.lazyGap_head
#print axioms SoupVerif.Refine.Compile.combine_matchAt_comb
#print axioms SoupVerif.Refine.Compile.combine_matchAt_desc
