/-
  C01 ↔ parser, the spelling half: a canonical way to WRITE the values of a selector AST in the grammar
  of `Properties/C09Compile.lean`.

    * `identForms v`   — an identifier with value `v`, written exactly as `css_parser.escape` (model:
                         `Escape.escape`) writes it: literal characters where the grammar allows, `\c`
                         for other printable ASCII, `\hex ` for control characters and a leading digit
                         (`identForms_render`); admissible in front of ANY text (`identForms_ok`).
    * `strPieces v`    — the body of a double-quoted string with value `v`, written as
                         `Spelling.renderString 34` writes it (`strPieces_render`).

  Only NUL cannot be written (the parser replaces it before tokenizing).
-/
import SoupVerif.Properties.C09Compile
import SoupVerif.Lemmas.Escape
namespace SoupVerif
namespace C01Parse
open Escape Spelling SpellingLemmas EscapeLemmas
open C09Compile (Forms identOK)

/-! ## Identifiers -/

/-- How `escape` writes one code point (`lead`: first position, or second after a leading `-`). -/
def escForm (lead : Bool) (c : Nat) : EscForm :=
  if (1 ≤ c && c ≤ 0x1F) || c == 0x7F then .hex (hexDigits c).length [] (some .space)
  else if lead && (0x30 ≤ c && c ≤ 0x39) then .hex (hexDigits c).length [] (some .space)
  else if c == 0x2D || c == 0x5F || c ≥ 0x80 || (0x30 ≤ c && c ≤ 0x39) ||
          (0x41 ≤ c && c ≤ 0x5A) || (0x61 ≤ c && c ≤ 0x7A) then .lit
  else .bs

def escFormsGo (sd : Bool) : Nat → Str → Forms
  | _, [] => []
  | i, c :: cs => (c, escForm (i == 0 || (sd && i == 1)) c) :: escFormsGo sd (i + 1) cs

/-- The canonical spelling of the identifier with value `s`: the forms `css_parser.escape` uses. -/
def identForms (s : Str) : Forms :=
  if s.length == 1 && startDash s then [(45, .bs)] else escFormsGo (startDash s) 0 s

theorem hexText_nil_mask (c : Nat) : hexText c (hexDigits c).length [] = hexDigits c := by
  simp [hexText, mixCase_nil_mask]

/-- The three shapes. -/
theorem escForm_cases (lead : Bool) (c : Nat) (hc : c ≠ 0) :
    (escForm lead c = .hex (hexDigits c).length [] (some .space) ∧ 1 ≤ c ∧ c ≤ 0x7F ∧
      escapeChar lead c = 92 :: (hexDigits c ++ [32])) ∨
    (escForm lead c = .lit ∧ identContChar c = true ∧
      (lead = true → identStartChar c = true ∨ c = 45) ∧ escapeChar lead c = [c]) ∨
    (escForm lead c = .bs ∧ isHex c = false ∧ c ≠ 10 ∧ c ≠ 12 ∧ c ≠ 13 ∧ escapeChar lead c = [92, c]) := by
  have h0 : (c == 0) = false := by simp [hc]
  unfold escForm escapeChar
  rw [h0]
  simp only [Bool.false_eq_true, if_false]
  by_cases h1 : ((decide (1 ≤ c) && decide (c ≤ 0x1F)) || c == 0x7F) = true
  · rw [if_pos h1, if_pos h1]
    left
    refine ⟨rfl, ?_, ?_, by simp⟩ <;>
      (simp only [Bool.or_eq_true, Bool.and_eq_true, decide_eq_true_eq, beq_iff_eq] at h1; omega)
  · rw [if_neg h1, if_neg h1]
    by_cases h2 : (lead && (decide (0x30 ≤ c) && decide (c ≤ 0x39))) = true
    · rw [if_pos h2, if_pos h2]
      left
      refine ⟨rfl, ?_, ?_, by simp⟩ <;>
        (simp only [Bool.and_eq_true, decide_eq_true_eq] at h2; omega)
    · rw [if_neg h2, if_neg h2]
      by_cases h3 : (c == 0x2D || c == 0x5F || decide (c ≥ 0x80) || (decide (0x30 ≤ c) && decide (c ≤ 0x39)) ||
          (decide (0x41 ≤ c) && decide (c ≤ 0x5A)) || (decide (0x61 ≤ c) && decide (c ≤ 0x7A))) = true
      · rw [if_pos h3, if_pos h3]
        right; left
        simp only [Bool.or_eq_true, Bool.and_eq_true, decide_eq_true_eq, beq_iff_eq] at h3
        refine ⟨rfl, ?_, ?_, rfl⟩
        · simp only [identContChar, Bool.or_eq_true, Bool.and_eq_true, decide_eq_true_eq, beq_iff_eq]
          omega
        · intro hl
          subst hl
          simp only [Bool.true_and, Bool.and_eq_true, decide_eq_true_eq] at h2
          simp only [identStartChar, Bool.or_eq_true, Bool.and_eq_true, decide_eq_true_eq, beq_iff_eq]
          omega
      · rw [if_neg h3, if_neg h3]
        right; right
        simp only [Bool.or_eq_true, Bool.and_eq_true, decide_eq_true_eq, beq_iff_eq] at h1 h3
        refine ⟨rfl, ?_, by omega, by omega, by omega, rfl⟩
        simp only [isHex, Bool.or_eq_false_iff, Bool.and_eq_false_iff, decide_eq_false_iff_not]
        omega

theorem renderForm_escForm (lead : Bool) (c : Nat) (hc : c ≠ 0) :
    renderForm c (escForm lead c) = escapeChar lead c := by
  rcases escForm_cases lead c hc with ⟨h, _, _, e⟩ | ⟨h, _, _, e⟩ | ⟨h, _, _, _, _, e⟩ <;>
    rw [h, e] <;> simp [renderForm, hexText_nil_mask, wsText, WsUnit.text]

theorem formOk_escForm (lead : Bool) (c : Nat) (hc : c ≠ 0) (next : Option Nat) :
    formOk c (escForm lead c) next = true := by
  rcases escForm_cases lead c hc with ⟨h, _, h2, _⟩ | ⟨h, h1, _, _⟩ | ⟨h, h1, h2, h3, h4, _⟩ <;> rw [h]
  · have := hexDigits_length_le_two c (by omega)
    simp only [formOk, hexOk, termOk, Bool.and_true, Bool.and_eq_true, decide_eq_true_eq]
    omega
  · simpa [formOk] using h1
  · simp [formOk, h1, h2, h3, h4]

theorem rangeOk_escForm (lead : Bool) (c : Nat) (hc : c ≠ 0) : rangeOk c (escForm lead c) = true := by
  rcases escForm_cases lead c hc with ⟨h, h1, h2, _⟩ | ⟨h, _, _, _⟩ | ⟨h, _, _, _, _, _⟩ <;> rw [h]
  · simp only [rangeOk, isHexForm, Bool.not_true, Bool.false_or, Bool.and_eq_true, decide_eq_true_eq]
    omega
  · rfl
  · rfl

theorem startOk_escForm (c : Nat) (hc : c ≠ 0) (h45 : c ≠ 45) : startOk c (escForm true c) = true := by
  rcases escForm_cases true c hc with ⟨h, _, _, _⟩ | ⟨h, _, h1, _⟩ | ⟨h, _, _, _, _, _⟩ <;> rw [h]
  · rfl
  · rcases h1 rfl with h1 | h1
    · simpa [startOk] using h1
    · exact absurd h1 h45
  · rfl

theorem escForm_dash (lead : Bool) : escForm lead 45 = .lit := by
  cases lead <;> decide

/-! ### The loop -/

theorem valueOf_escFormsGo (sd : Bool) : ∀ (s : Str) (i : Nat), valueOf (escFormsGo sd i s) = s
  | [], _ => rfl
  | c :: cs, i => by
    have := valueOf_escFormsGo sd cs (i + 1)
    simp only [valueOf] at this
    simp [escFormsGo, valueOf, this]

theorem render_escFormsGo (sd : Bool) : ∀ (s : Str) (i : Nat), (∀ c ∈ s, c ≠ 0) →
    renderIdentWith (escFormsGo sd i s) = escapeGo sd i s
  | [], _, _ => rfl
  | c :: cs, i, h => by
    rw [escFormsGo, renderIdentWith_cons, escapeGo, renderForm_escForm _ c (h c (by simp)),
      render_escFormsGo sd cs (i + 1) (fun d hd => h d (by simp [hd]))]

theorem validForms_escFormsGo (sd : Bool) (r : Str) : ∀ (s : Str) (i : Nat), (∀ c ∈ s, c ≠ 0) →
    validForms (escFormsGo sd i s) r = true
  | [], _, _ => rfl
  | c :: cs, i, h => by
    rw [escFormsGo, validForms_cons, formOk_escForm _ c (h c (by simp)),
      validForms_escFormsGo sd r cs (i + 1) (fun d hd => h d (by simp [hd]))]
    rfl

theorem rangeOk_escFormsGo (sd : Bool) : ∀ (s : Str) (i : Nat), (∀ c ∈ s, c ≠ 0) →
    ∀ p ∈ escFormsGo sd i s, rangeOk p.1 p.2 = true
  | [], _, _, p, hp => by simp [escFormsGo] at hp
  | c :: cs, i, h, p, hp => by
    rw [escFormsGo, List.mem_cons] at hp
    rcases hp with rfl | hp
    · exact rangeOk_escForm _ c (h c (by simp))
    · exact rangeOk_escFormsGo sd cs (i + 1) (fun d hd => h d (by simp [hd])) p hp

/-! ### The canonical spelling of an identifier -/

theorem identForms_value (s : Str) : valueOf (identForms s) = s := by
  unfold identForms
  split
  · rename_i h
    simp only [Bool.and_eq_true, beq_iff_eq] at h
    obtain ⟨h1, h2⟩ := h
    match s, h1, h2 with
    | [c], _, h2 =>
      simp only [startDash, List.head?_cons, Option.some.injEq, beq_iff_eq] at h2
      simp [valueOf] at h2 ⊢
      exact h2.symm
  · exact valueOf_escFormsGo _ s 0

/-- The canonical spelling is the text `css_parser.escape` produces. -/
theorem identForms_render (s : Str) (h0 : ∀ c ∈ s, c ≠ 0) : renderIdentWith (identForms s) = escape s := by
  unfold identForms escape
  split
  · rename_i h
    simp only [Bool.and_eq_true, beq_iff_eq] at h
    obtain ⟨h1, h2⟩ := h
    match s, h1, h2 with
    | [c], _, h2 =>
      simp only [startDash, List.head?_cons, Option.some.injEq, beq_iff_eq] at h2
      subst h2
      rfl
  · exact render_escFormsGo _ s 0 h0

theorem identForms_headOk (s : Str) (hne : s ≠ []) (h0 : ∀ c ∈ s, c ≠ 0) : headOk (identForms s) = true := by
  unfold identForms
  split
  · rfl
  · rename_i h
    match s, hne with
    | c :: cs, _ =>
      have hc := h0 c (by simp)
      by_cases h45 : c = 45
      · subst h45
        match cs, h with
        | [], h => simp [startDash] at h
        | c2 :: cs2, _ =>
          have hc2 := h0 c2 (by simp)
          simp only [escFormsGo, startDash, List.head?_cons, beq_self_eq_true, Bool.true_or, escForm_dash,
            headOk, isLit, Bool.and_self, if_true, Bool.true_and, Nat.zero_add, Bool.or_true]
          by_cases h2 : c2 = 45
          · subst h2; simp [escForm_dash]
          · simp [startOk_escForm c2 hc2 h2]
      · have hsd : startDash (c :: cs) = false := by simp [startDash, h45]
        simp only [escFormsGo, hsd, beq_self_eq_true, Bool.true_or, headOk]
        have : (c == 45) = false := by simp [h45]
        simp [this, startOk_escForm c hc h45]

/-- The canonical spelling is admissible in front of any text. -/
theorem identForms_ok (s : Str) (hne : s ≠ []) (h0 : ∀ c ∈ s, c ≠ 0) (r : Str) : identOK (identForms s) r := by
  refine ⟨?_, identForms_headOk s hne h0, ?_⟩
  · unfold identForms
    split
    · rfl
    · exact validForms_escFormsGo _ r s 0 h0
  · unfold identForms
    split
    · intro p hp; simp at hp; subst hp; rfl
    · exact rangeOk_escFormsGo _ s 0 h0

/-- … and contains no NUL. -/
theorem identForms_noNul (s : Str) (h0 : ∀ c ∈ s, c ≠ 0) : ∀ x ∈ renderIdentWith (identForms s), x ≠ 0 := by
  rw [identForms_render s h0]
  intro x hx
  rcases escape_eq_dash_or_go s with h | h
  · rw [h.2] at hx
    rw [h.1] at h0
    simp only [List.mem_cons] at hx
    rcases hx with rfl | hx
    · omega
    · exact h0 x (by simpa using hx)
  · rw [h] at hx
    exact (escapeGo_safe _ s 0 x hx).1

/-! ## Strings -/

/-- How `Spelling.renderString 34` writes one code point of a string. -/
def strPiece (c : Nat) : StrPiece :=
  if c == 10 || c == 13 || c == 12 then .ch c (.hex (hexDigits c).length [] (some .space))
  else if c == 92 || c == 34 then .ch c .bs
  else .ch c .lit

/-- The canonical body of the double-quoted string with value `v`. -/
def strPieces (v : Str) : List StrPiece := v.map strPiece

theorem strPiece_cases (c : Nat) :
    ((c = 10 ∨ c = 13 ∨ c = 12) ∧ strPiece c = .ch c (.hex (hexDigits c).length [] (some .space)) ∧
      strEscChar 34 c = 92 :: (hexDigits c ++ [32])) ∨
    ((c = 92 ∨ c = 34) ∧ strPiece c = .ch c .bs ∧ strEscChar 34 c = [92, c]) ∨
    ((c ≠ 10 ∧ c ≠ 13 ∧ c ≠ 12 ∧ c ≠ 92 ∧ c ≠ 34) ∧ strPiece c = .ch c .lit ∧ strEscChar 34 c = [c]) := by
  unfold strPiece strEscChar
  by_cases h1 : (c == 10 || c == 13 || c == 12) = true
  · rw [if_pos h1, if_pos h1]
    left
    simp only [Bool.or_eq_true, beq_iff_eq] at h1
    exact ⟨by omega, rfl, rfl⟩
  · rw [if_neg h1, if_neg h1]
    simp only [Bool.or_eq_true, beq_iff_eq] at h1
    by_cases h2 : (c == 92 || c == 34) = true
    · rw [if_pos h2, if_pos h2]
      right; left
      simp only [Bool.or_eq_true, beq_iff_eq] at h2
      exact ⟨h2, rfl, rfl⟩
    · rw [if_neg h2, if_neg h2]
      right; right
      simp only [Bool.or_eq_true, beq_iff_eq] at h2
      exact ⟨by omega, rfl, rfl⟩

theorem strPiece_render (c : Nat) : renderPiece (strPiece c) = strEscChar 34 c := by
  rcases strPiece_cases c with ⟨_, h, e⟩ | ⟨_, h, e⟩ | ⟨_, h, e⟩ <;>
    rw [h, e] <;> simp [renderPiece, renderForm, hexText_nil_mask, wsText, WsUnit.text]

theorem strPiece_value (c : Nat) : pieceValue (strPiece c) = [c] := by
  rcases strPiece_cases c with ⟨_, h, _⟩ | ⟨_, h, _⟩ | ⟨_, h, _⟩ <;> rw [h] <;> rfl

theorem strPiece_ok (c : Nat) (next : Option Nat) : pieceOk 34 (strPiece c) next = true := by
  rcases strPiece_cases c with ⟨hc, h, _⟩ | ⟨hc, h, _⟩ | ⟨hc, h, _⟩ <;> rw [h]
  · have := hexDigits_length_le_two c (by omega)
    simp only [pieceOk, formOk, hexOk, termOk, Bool.and_true, Bool.and_eq_true, decide_eq_true_eq]
    omega
  · rcases hc with rfl | rfl <;> rfl
  · simp only [pieceOk, Bool.and_eq_true, bne_iff_ne, ne_eq]
    omega

theorem strPiece_range (c : Nat) : pieceRangeOk (strPiece c) = true := by
  rcases strPiece_cases c with ⟨hc, h, _⟩ | ⟨hc, h, _⟩ | ⟨hc, h, _⟩ <;> rw [h]
  · simp only [pieceRangeOk, rangeOk, isHexForm, Bool.not_true, Bool.false_or, Bool.and_eq_true,
      decide_eq_true_eq]
    omega
  · rfl
  · rfl

/-- The canonical body is the text `Spelling.renderString 34` puts between the quotes. -/
theorem strPieces_render : ∀ (v : Str), renderStrWith (strPieces v) = renderStringBody 34 v
  | [] => rfl
  | c :: cs => by
    have := strPieces_render cs
    simp only [strPieces] at this
    simp only [strPieces, List.map_cons, renderStrWith, renderStringBody, strPiece_render, this]

theorem strPieces_value : ∀ (v : Str), strValue (strPieces v) = v
  | [] => rfl
  | c :: cs => by
    have := strPieces_value cs
    simp only [strPieces] at this
    simp [strPieces, strValue, strPiece_value, this]

theorem strPieces_valid (r : Str) : ∀ (v : Str), validStr 34 (strPieces v) r = true
  | [] => rfl
  | c :: cs => by
    have := strPieces_valid r cs
    simp only [strPieces] at this
    simp only [strPieces, List.map_cons, validStr, strPiece_ok, this, Bool.and_self]

theorem strPieces_range (v : Str) : ∀ p ∈ strPieces v, pieceRangeOk p = true := by
  intro p hp
  simp only [strPieces, List.mem_map] at hp
  obtain ⟨c, _, rfl⟩ := hp
  exact strPiece_range c

theorem strEscChar_noNul (c : Nat) (hc : c ≠ 0) : ∀ x ∈ strEscChar 34 c, x ≠ 0 := by
  intro x hx
  rcases strPiece_cases c with ⟨_, _, e⟩ | ⟨_, _, e⟩ | ⟨_, _, e⟩ <;> rw [e] at hx
  · simp only [List.mem_cons, List.mem_append, List.not_mem_nil, or_false] at hx
    rcases hx with rfl | hx | rfl
    · omega
    · have := hexDigits_allHex c x hx
      intro e0; subst e0; simp [isHex] at this
    · omega
  · simp only [List.mem_cons, List.not_mem_nil, or_false] at hx
    rcases hx with rfl | rfl
    · omega
    · exact hc
  · simp only [List.mem_cons, List.not_mem_nil, or_false] at hx
    subst hx; exact hc

theorem renderStringBody_noNul : ∀ (v : Str), (∀ c ∈ v, c ≠ 0) → ∀ x ∈ renderStringBody 34 v, x ≠ 0
  | [], _, x, hx => by simp [renderStringBody] at hx
  | c :: cs, h, x, hx => by
    rw [renderStringBody, List.mem_append] at hx
    rcases hx with hx | hx
    · exact strEscChar_noNul c (h c (by simp)) x hx
    · exact renderStringBody_noNul cs (fun d hd => h d (by simp [hd])) x hx

end C01Parse
end SoupVerif
