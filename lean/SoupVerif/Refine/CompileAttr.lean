/-
  The `attribute` token
    `\[ WSC* (?:(?:IDENT|\*)?\|)? IDENT (?: WSC* [!~^|*$]?= WSC* VALUE (?: WSC* [is])? )? WSC* \]`
  on `[ gap name gap op gap value gap flag gap ]` in any admissible spelling (no namespace prefix).
-/
import SoupVerif.Refine.CompileTag
import SoupVerif.Refine.CompileComb
namespace SoupVerif
namespace Refine
namespace Compile
open Rx RxBasic SoupVerif.Parser ParserProgress Escape Spelling
open Wsc (gapRx unitEnd wsEnd commentEnd gapEnd)
open Ident (rxHead rxStar contStep contLen single IdentFold)

/-! ### General engine lemmas -/

theorem runsSeq_group_cons (env : CharEnv) (s : Str) (k : Nat) (r : Rx) (rs : List Rx) (i : Nat) (caps : Caps) :
    runsSeq env s (.group k r :: rs) i caps =
      (runs env s r i caps).flatMap fun x =>
        runsSeq env s rs x.1 ((k, i, x.1) :: x.2.filter (fun e => e.1 != k)) := by
  rw [runsSeq_cons, runs_group, List.flatMap_map]

theorem runsSeq_group_nil (env : CharEnv) (s : Str) (k : Nat) (r : Rx) (rs : List Rx) (i : Nat) (caps : Caps)
    (h : runs env s r i caps = []) : runsSeq env s (.group k r :: rs) i caps = [] := by
  rw [runsSeq_group_cons, h]; rfl

theorem runsSeq_opt_cons (env : CharEnv) (s : Str) (r : Rx) (rs : List Rx) (i : Nat) (caps : Caps) :
    runsSeq env s (.rep 0 (some 1) true r :: rs) i caps =
      runsSeq env s (r :: rs) i caps ++ runsSeq env s rs i caps := by
  rw [runsSeq_cons, runs_opt, List.flatMap_append, ← runsSeq_cons]
  simp

/-- A unit of `WSC` starts with whitespace or `/`. -/
theorem unit_start_char {s : Str} {j : Nat} (h : (unitEnd s j).isSome = true) :
    ∃ x, s[j]? = some x ∧ (isCssWs x = true ∨ x = 47) := by
  unfold unitEnd wsEnd commentEnd at h
  cases hx : s[j]? with
  | none => rw [hx] at h; simp at h
  | some x =>
    refine ⟨x, rfl, ?_⟩
    rw [hx] at h
    by_cases hw : isCssWs x = true
    · exact Or.inl hw
    · right
      have hw' : isCssWs x = false := by simpa using hw
      simp only [hw', Bool.false_eq_true, if_false] at h
      by_contra h47
      simp [h47] at h

/-- Where the text at `p` is a gap followed by something that starts no gap, `WSC*` ends after it. -/
theorem gapEnd_of_drop {s : Str} {p : Nat} {g r : Str} (hd : s.drop p = g ++ r) (hg : isGap g)
    (hr : noGapStart r = true) (hp : p ≤ s.length) : gapEnd s p = p + g.length := by
  unfold gapEnd
  rw [hd, C09.skipWSC_append g r hg hr]
  have := congrArg List.length hd
  rw [List.length_drop, List.length_append] at this
  omega

theorem le_of_drop_append {s : Str} {p : Nat} {a r : Str} (hd : s.drop p = a ++ r) (ha : a ≠ [] ∨ p ≤ s.length) :
    p ≤ s.length := by
  rcases Nat.lt_or_ge s.length p with h | h
  · rw [List.drop_eq_nil_of_le (by omega)] at hd
    rcases ha with ha | ha
    · cases a with
      | nil => exact absurd rfl ha
      | cons _ _ => cases hd
    · exact ha
  · exact h

/-- `WSC*` in front of a continuation that fails wherever a unit starts, on a known gap. -/
theorem gap_then_drop {env : CharEnv} (hcf : Wsc.CaseFree env) (s : Str) (p : Nat) (g r : Str) (caps : Caps)
    (rs : List Rx) (hd : s.drop p = g ++ r) (hg : isGap g) (hr : noGapStart r = true) (hp : p ≤ s.length)
    (hk : ∀ j c, (unitEnd s j).isSome = true → runsSeq env s rs j c = []) :
    runsSeq env s (gapRx true :: rs) p caps = runsSeq env s rs (p + g.length) caps := by
  rw [Wsc.gap_then true (fun _ => hcf) s p hp caps rs hk, gapEnd_of_drop hd hg hr hp]

/-! ### `IDENTIFIER` with an arbitrary continuation -/

theorem ident_flatMap {env : CharEnv} (h : IdentFold env) (s : Str) (i : Nat) (caps : Caps)
    {β : Type} (K : Nat × Caps → List β) (hi : i ≤ s.length)
    (hk : ∀ j c, (contStep (s.drop j)).isSome = true → K (j, c) = []) :
    (runs env s rxIdent i caps).flatMap K =
      match scanIdent (s.drop i) with
      | none => []
      | some m => K (i + m.1.length, caps) := by
  unfold rxIdent
  rw [runs_seq, runsSeq_cons, Ident.runs_head h]
  cases hs : scanIdent (s.drop i) with
  | none =>
    have : Escape.headLen (s.drop i) = none := by
      unfold scanIdent at hs
      cases hh : Escape.headLen (s.drop i) with
      | none => rfl
      | some n => rw [hh] at hs; cases hs
    rw [this]; rfl
  | some m =>
    obtain ⟨n, h1, h2⟩ := scanIdent_end (m := m.1) (r := m.2) hs
    have hb := Ident.headLen_bounds h1
    rw [List.length_drop] at hb
    rw [h1]
    simp only [single, List.flatMap_cons, List.flatMap_nil, List.append_nil]
    obtain ⟨rest, e1, e2⟩ := star_runs h s (i + n) caps (by omega)
    rw [Wsc.runsSeq_single, e1, List.flatMap_cons,
      flatMap_eq_nil_of rest _ (fun x hx => by
        have := (e2 x hx)
        have hx2 : x = (x.1, x.2) := rfl
        rw [hx2]; exact hk x.1 x.2 this.2), List.append_nil, h2]

theorem ident_runs_nil {env : CharEnv} (h : IdentFold env) (s : Str) (i : Nat) (caps : Caps)
    (hs : scanIdent (s.drop i) = none) : runs env s rxIdent i caps = [] := by
  unfold rxIdent
  rw [runs_seq, runsSeq_cons, Ident.runs_head h]
  have : Escape.headLen (s.drop i) = none := by
    unfold scanIdent at hs
    cases hh : Escape.headLen (s.drop i) with
    | none => rfl
    | some n => rw [hh] at hs; cases hs
  rw [this]; rfl

/-- The first run of `IDENTIFIER`. -/
theorem ident_runs_head {env : CharEnv} (h : IdentFold env) (s : Str) (i : Nat) (caps : Caps) (hi : i ≤ s.length)
    (m : Str × Str) (hs : scanIdent (s.drop i) = some m) :
    ∃ rest, runs env s rxIdent i caps = (i + m.1.length, caps) :: rest := by
  unfold rxIdent
  rw [runs_seq, runsSeq_cons, Ident.runs_head h]
  obtain ⟨n, h1, h2⟩ := scanIdent_end (m := m.1) (r := m.2) hs
  have hb := Ident.headLen_bounds h1
  rw [List.length_drop] at hb
  rw [h1]
  simp only [single, List.flatMap_cons, List.flatMap_nil, List.append_nil]
  obtain ⟨rest, e1, _⟩ := star_runs h s (i + n) caps (by omega)
  rw [Wsc.runsSeq_single, e1, h2]
  exact ⟨rest, rfl⟩

theorem scanIdent_none_of_head {t : Str} (h : ∀ c ∈ t.head?, tagStart c = false) : scanIdent t = none := by
  cases t with
  | nil => rfl
  | cons c cs =>
    have hc := h c (by simp)
    simp only [tagStart, Bool.or_eq_false_iff, beq_eq_false_iff_ne] at hc
    obtain ⟨⟨⟨_, h45⟩, h92⟩, hst⟩ := hc
    simp [scanIdent, Escape.headLen, Escape.startLen, hst, escLen, h45, h92]

/-! ### The optional namespace prefix, in front of any continuation -/

/-- `(?:(?:IDENT|\*)?\|)?` gives only its empty run when the text at `a` is an identifier that is not
    followed by `|` — or is followed by `|` after which the continuation fails (as in `[a|=b]`). -/
theorem nsOpt_then {env : CharEnv} (h : IdentFold env) (s : Str) (a : Nat) (caps : Caps) (rs : List Rx)
    (ha : a ≤ s.length) (h0 : s[a]? ≠ some 124) (h42 : s[a]? ≠ some 42)
    (hbar : ∀ m, scanIdent (s.drop a) = some m → s[a + m.1.length]? = some 124 →
      ∀ c', runsSeq env s rs (a + m.1.length + 1) c' = []) :
    runsSeq env s (rxNsOpt :: rs) a caps = runsSeq env s rs a caps := by
  unfold rxNsOpt
  rw [runsSeq_opt_cons]
  have : runsSeq env s (rxNsBody :: rs) a caps = [] := by
    unfold rxNsBody
    rw [runsSeq_group_cons, runs_seq, runsSeq_opt_cons,
      lit_fail h s 124 (by omega) [] a caps h0, List.append_nil]
    have hk : ∀ j c, (contStep (s.drop j)).isSome = true →
        runsSeq env s [.lit 124 true] j c = [] :=
      fun j c hj => lit_fail_at_unit h s 124 (by omega) (by decide) [] j c hj
    rw [name_then h s a caps [.lit 124 true] ha hk, if_neg h42, List.append_nil]
    cases hs : scanIdent (s.drop a) with
    | none => rfl
    | some m =>
      simp only
      by_cases hb : s[a + m.1.length]? = some 124
      · rw [lit_ok env s 124 [] _ caps hb, runsSeq_nil]
        simp only [List.flatMap_cons, List.flatMap_nil, List.append_nil]
        exact hbar m hs hb _
      · rw [lit_fail h s 124 (by omega) [] _ caps hb]; rfl
  rw [this, List.nil_append]

/-! ### Shape of the token -/

def cmpSet : Rx := .set false [.ch 33, .ch 126, .ch 94, .ch 124, .ch 42, .ch 36] true
def rxCmp : Rx := .group 3 (.seq [.rep 0 (some 1) true cmpSet, .lit 61 true])
def rxValue : Rx := .alt [StringTok.rxQuoted 34, StringTok.rxQuoted 39, rxIdent]
def flagSet : Rx := .set false [.ch 105, .ch 115] true
def rxFlagOpt : Rx := .rep 0 (some 1) true (.seq [gapRx true, .group 5 flagSet])
def rxAttrBody : Rx := .seq [gapRx true, rxCmp, gapRx true, .group 4 rxValue, rxFlagOpt]

theorem tok_attribute_shape : Gen.tok_attribute =
    .seq [.lit 91 true, gapRx true, rxNsOpt, .group 2 rxIdent, .rep 0 (some 1) true rxAttrBody,
      gapRx true, .lit 93 true] := rfl

/-- `!` `~` `^` `|` `*` `$`. -/
def isCmp (x : Nat) : Bool := x == 33 || x == 126 || x == 94 || x == 124 || x == 42 || x == 36

theorem isChar_cmp {env : CharEnv} (h : IdentFold env) (s : Str) : IsChar env s cmpSet isCmp := by
  apply isChar_congr (isChar_set env s _ _ _)
  intro x
  have h1 := Ident.fold_const_eq h 33 (by omega) x
  have h2 := Ident.fold_const_eq h 126 (by omega) x
  have h3 := Ident.fold_const_eq h 94 (by omega) x
  have h4 := Ident.fold_const_eq h 124 (by omega) x
  have h5 := Ident.fold_const_eq h 42 (by omega) x
  have h6 := Ident.fold_const_eq h 36 (by omega) x
  simp [setHas, itemHas, isCmp, h1, h2, h3, h4, h5, h6, Bool.or_assoc]

/-- The flag characters of the covered grammar: `i` `I` `s` `S`. -/
def isFlag (x : Nat) : Bool := x == 105 || x == 73 || x == 115 || x == 83

theorem flagSet_ok (x : Nat) (hx : isFlag x = true) :
    setHas pyFoldEnv false [.ch 105, .ch 115] true x = true := by
  simp only [isFlag, Bool.or_eq_true, beq_iff_eq] at hx
  rcases hx with ((h | h) | h) | h <;> subst h <;> decide

theorem flagSet_fail (x : Nat) (hx : x < 65 ∨ (91 ≤ x ∧ x ≤ 96) ∨ (123 ≤ x ∧ x ≤ 127)) :
    setHas pyFoldEnv false [.ch 105, .ch 115] true x = false := by
  have hx' : pyFoldEnv.fold x = x := by
    rcases Ident.identFold_py.id_or_letter x with h1 | h1 <;> omega
  have e1 : pyFoldEnv.fold 105 = 105 := by decide
  have e2 : pyFoldEnv.fold 115 = 115 := by decide
  simp only [setHas, List.any, itemHas, if_true, hx', e1, e2, Bool.or_false, bne_iff_ne, ne_eq,
    Bool.not_eq_true]
  have : (105 == x) = false := by simp; omega
  have : (115 == x) = false := by simp; omega
  simp [*]

theorem gap_head' {g : Str} (hg : isGap g) : ∀ y ∈ g.head?, isCssWs y = true ∨ y = 47 := by
  cases g with
  | nil => intro y hy; simp at hy
  | cons c cs =>
    intro y hy
    simp only [List.head?_cons, Option.mem_def, Option.some.injEq] at hy
    subst hy
    by_cases hw : isCssWs c = true
    · exact Or.inl hw
    · by_cases h47 : c = 47
      · exact Or.inr h47
      · exfalso
        have : noGapStart (c :: cs) = true := by simp [noGapStart, hw, h47]
        have := SpellingLemmas.skipWSC_of_noGapStart _ this
        unfold isGap at hg
        rw [hg] at this; cases this

/-! ### Continuations that fail where a unit of `WSC` starts -/

section Fail
variable (s : Str)

theorem unit_small {j x : Nat} (h : (unitEnd s j).isSome = true) (hx : s[j]? = some x) : x < 65 := by
  obtain ⟨y, hy, h'⟩ := unit_start_char h
  rw [hx] at hy; cases hy
  rcases h' with h' | h'
  · simp only [isCssWs, Bool.or_eq_true, beq_iff_eq] at h'; omega
  · omega

theorem fail_lit93 (rs : List Rx) (j : Nat) (c : Caps) (h : (unitEnd s j).isSome = true) :
    runsSeq pyFoldEnv s (.lit 93 true :: rs) j c = [] := by
  apply lit_fail Ident.identFold_py s 93 (by omega)
  intro e
  have := unit_small s h e; omega

theorem fail_flag (rs : List Rx) (j : Nat) (c : Caps) (h : (unitEnd s j).isSome = true) :
    runsSeq pyFoldEnv s (.group 5 flagSet :: rs) j c = [] := by
  apply runsSeq_group_nil
  unfold flagSet
  rw [isChar_set pyFoldEnv s _ _ _ j c]
  unfold charBody
  cases hx : s[j]? with
  | none => rfl
  | some x => simp [flagSet_fail x (Or.inl (unit_small s h hx))]

theorem cmp_runs (j : Nat) (c : Caps) :
    runs pyFoldEnv s (.seq [.rep 0 (some 1) true cmpSet, .lit 61 true]) j c =
      match s[j]? with
      | some x =>
        if isCmp x then (if s[j + 1]? = some 61 then [(j + 2, c)] else [])
        else if x = 61 then [(j + 1, c)] else []
      | none => [] := by
  rw [runs_seq, runsSeq_opt_cons, runsSeq_char (isChar_cmp Ident.identFold_py s)]
  cases hx : s[j]? with
  | none =>
    rw [lit_fail Ident.identFold_py s 61 (by omega) [] j c (by rw [hx]; simp)]; rfl
  | some x =>
    by_cases hc : isCmp x = true
    · have hne : x ≠ 61 := by intro e; subst e; simp [isCmp] at hc
      rw [lit_fail Ident.identFold_py s 61 (by omega) [] j c (by rw [hx]; simpa using hne)]
      simp only [hc, if_true, List.append_nil]
      by_cases h61 : s[j + 1]? = some 61
      · rw [lit_ok pyFoldEnv s 61 [] (j + 1) c h61, if_pos h61, runsSeq_nil]
      · rw [lit_fail Ident.identFold_py s 61 (by omega) [] (j + 1) c h61, if_neg h61]
    · have hc' : isCmp x = false := by simpa using hc
      simp only [hc', Bool.false_eq_true, if_false, List.nil_append]
      by_cases h61 : x = 61
      · subst h61
        rw [lit_ok pyFoldEnv s 61 [] j c hx, runsSeq_nil]; simp
      · rw [lit_fail Ident.identFold_py s 61 (by omega) [] j c (by rw [hx]; simpa using h61)]
        simp [h61]

theorem fail_cmp (rs : List Rx) (j : Nat) (c : Caps) (h : (unitEnd s j).isSome = true) :
    runsSeq pyFoldEnv s (rxCmp :: rs) j c = [] := by
  unfold rxCmp
  apply runsSeq_group_nil
  rw [cmp_runs]
  cases hx : s[j]? with
  | none => rfl
  | some x =>
    obtain ⟨y, hy, h'⟩ := unit_start_char h
    rw [hx] at hy; cases hy
    have h1 : isCmp x = false := by
      rcases h' with h' | h'
      · simp only [isCssWs, Bool.or_eq_true, beq_iff_eq] at h'
        rcases h' with (((e | e) | e) | e) | e <;> subst e <;> rfl
      · subst h'; rfl
    have h2 : x ≠ 61 := by have := unit_small s h hx; rcases h' with h' | h'
                           · simp only [isCssWs, Bool.or_eq_true, beq_iff_eq] at h'; omega
                           · omega
    simp [h1, h2]

theorem quoted_fail (q : Nat) (hq : q = 34 ∨ q = 39) (j : Nat) (c : Caps) (hj : s[j]? ≠ some q) :
    runs pyFoldEnv s (StringTok.rxQuoted q) j c = [] := by
  unfold StringTok.rxQuoted
  rw [runs_seq]
  exact lit_fail Ident.identFold_py s q (by omega) _ j c hj

theorem value_runs_nil (j : Nat) (c : Caps) (hq : s[j]? ≠ some 34 ∧ s[j]? ≠ some 39)
    (hs : scanIdent (s.drop j) = none) : runs pyFoldEnv s rxValue j c = [] := by
  unfold rxValue
  rw [runs_alt, runsAlt_cons, runsAlt_cons, runsAlt_cons, runsAlt_nil,
    quoted_fail s 34 (Or.inl rfl) j c hq.1, quoted_fail s 39 (Or.inr rfl) j c hq.2,
    ident_runs_nil Ident.identFold_py s j c hs]
  rfl

theorem scanIdent_none_at_unit {j : Nat} (h : (unitEnd s j).isSome = true) :
    scanIdent (s.drop j) = none := by
  obtain ⟨x, hx, h'⟩ := unit_start_char h
  rw [Wsc.drop_cons_of hx]
  apply scanIdent_none_of_head
  intro c hc
  simp only [List.head?_cons, Option.mem_def, Option.some.injEq] at hc
  subst hc
  rcases h' with h' | h'
  · simp only [isCssWs, Bool.or_eq_true, beq_iff_eq] at h'
    rcases h' with (((e | e) | e) | e) | e <;> subst e <;> rfl
  · subst h'; rfl

theorem fail_value (rs : List Rx) (j : Nat) (c : Caps) (h : (unitEnd s j).isSome = true) :
    runsSeq pyFoldEnv s (.group 4 rxValue :: rs) j c = [] := by
  apply runsSeq_group_nil
  apply value_runs_nil s j c ?_ (scanIdent_none_at_unit s h)
  constructor <;> (intro e; have := unit_small s h e; obtain ⟨y, hy, h'⟩ := unit_start_char h
                   rw [e] at hy; cases hy
                   rcases h' with h' | h' <;> simp [isCssWs] at h')

theorem fail_name (rs : List Rx) (j : Nat) (c : Caps) (h : (unitEnd s j).isSome = true)
    (hj : j ≤ s.length) :
    runsSeq pyFoldEnv s (rxNsOpt :: .group 2 rxIdent :: rs) j c = [] := by
  have hs := scanIdent_none_at_unit s h
  rw [nsOpt_then Ident.identFold_py s j c _ hj
    (by intro e; have := unit_small s h e; omega)
    (by intro e; have := unit_small s h e
        obtain ⟨y, hy, h'⟩ := unit_start_char h
        rw [e] at hy; cases hy
        rcases h' with h' | h' <;> simp [isCssWs] at h')
    (by intro m hm; rw [hs] at hm; cases hm)]
  exact runsSeq_group_nil _ _ _ _ _ _ _ (ident_runs_nil Ident.identFold_py s j c hs)

/-! ### After the value: optional flag, gap, `]` -/

theorem noGapStart_93 (R : Str) : noGapStart (93 :: R) = true := by simp [noGapStart, isCssWs]

theorem close_runs {v : Nat} {g4 R : Str} (c : Caps) (hd : s.drop v = g4 ++ 93 :: R) (hg4 : isGap g4)
    (hv : v ≤ s.length) :
    runsSeq pyFoldEnv s [gapRx true, .lit 93 true] v c = [(v + g4.length + 1, c)] := by
  rw [gap_then_drop Wsc.caseFree_pyFold s v g4 (93 :: R) c _ hd hg4 (noGapStart_93 R) hv
    (fun j c' hj => fail_lit93 s [] j c' hj),
    lit_ok pyFoldEnv s 93 [] _ c (getElem?_of_drop_cons (drop_add_of_drop_append hd)), runsSeq_nil]

theorem tail_noflag {v : Nat} {g4 R : Str} (c : Caps) (hd : s.drop v = g4 ++ 93 :: R) (hg4 : isGap g4)
    (hv : v ≤ s.length) :
    runsSeq pyFoldEnv s [rxFlagOpt, gapRx true, .lit 93 true] v c = [(v + g4.length + 1, c)] := by
  unfold rxFlagOpt
  rw [runsSeq_opt_cons, runsSeq_seq_cons, List.cons_append, List.cons_append, List.nil_append,
    gap_then_drop Wsc.caseFree_pyFold s v g4 (93 :: R) c _ hd hg4 (noGapStart_93 R) hv
      (fun j c' hj => fail_flag s _ j c' hj), close_runs s c hd hg4 hv]
  have h93 := getElem?_of_drop_cons (drop_add_of_drop_append hd)
  have : runsSeq pyFoldEnv s [.group 5 flagSet, gapRx true, .lit 93 true] (v + g4.length) c = [] := by
    apply runsSeq_group_nil
    unfold flagSet
    rw [isChar_set pyFoldEnv s _ _ _ _ c]
    unfold charBody
    rw [h93]
    simp [flagSet_fail 93 (by omega)]
  rw [this, List.nil_append]

theorem tail_flag {v f : Nat} {g3 g4 R : Str} (c : Caps) (hd : s.drop v = g3 ++ f :: (g4 ++ 93 :: R))
    (hg3 : isGap g3) (hg4 : isGap g4) (hf : isFlag f = true) (hv : v ≤ s.length) :
    runsSeq pyFoldEnv s [rxFlagOpt, gapRx true, .lit 93 true] v c =
      [(v + g3.length + 1 + g4.length + 1,
        (5, v + g3.length, v + g3.length + 1) :: c.filter (fun e => e.1 != 5))] := by
  have hfng : noGapStart (f :: (g4 ++ 93 :: R)) = true := by
    simp only [isFlag, Bool.or_eq_true, beq_iff_eq] at hf
    rcases hf with ((h | h) | h) | h <;> subst h <;> simp [noGapStart, isCssWs]
  have hdf := drop_add_of_drop_append hd
  have hf0 := getElem?_of_drop_cons hdf
  have hdf1 : s.drop (v + g3.length + 1) = g4 ++ 93 :: R := Ident.drop_succ_of_drop_cons hdf
  have hlt := lt_of_drop_cons hdf
  unfold rxFlagOpt
  rw [runsSeq_opt_cons, runsSeq_seq_cons, List.cons_append, List.cons_append, List.nil_append,
    gap_then_drop Wsc.caseFree_pyFold s v g3 _ c _ hd hg3 hfng hv
      (fun j c' hj => fail_flag s _ j c' hj)]
  have h2 : runsSeq pyFoldEnv s [gapRx true, .lit 93 true] v c = [] := by
    rw [gap_then_drop Wsc.caseFree_pyFold s v g3 _ c _ hd hg3 hfng hv
      (fun j c' hj => fail_lit93 s [] j c' hj)]
    apply lit_fail Ident.identFold_py s 93 (by omega)
    rw [hf0]; intro e; cases e; simp [isFlag] at hf
  rw [h2, List.append_nil, runsSeq_group_cons]
  have h3 : runs pyFoldEnv s flagSet (v + g3.length) c = [(v + g3.length + 1, c)] := by
    unfold flagSet
    rw [isChar_set pyFoldEnv s _ _ _ _ c]
    unfold charBody
    rw [hf0]
    simp [flagSet_ok f hf]
  rw [h3]
  simp only [List.flatMap_cons, List.flatMap_nil, List.append_nil]
  rw [close_runs s _ hdf1 hg4 (by omega)]

/-! ### The value -/

theorem quoted_head {v q : Nat} {ps : List StrPiece} {r : Str} (c : Caps) (hq : q = 34 ∨ q = 39)
    (hd : s.drop v = q :: (renderStrWith ps ++ q :: r)) (hv : validStr q ps [] = true) :
    (runs pyFoldEnv s (StringTok.rxQuoted q) v c).head? =
      some (v + (renderStrWith ps).length + 2, c) := by
  have hq0 := getElem?_of_drop_cons hd
  have hd1 : s.drop (v + 1) = renderStrWith ps ++ q :: r := Ident.drop_succ_of_drop_cons hd
  unfold StringTok.rxQuoted
  rw [runs_seq, lit_ok pyFoldEnv s q _ v c hq0, runsSeq_cons, runs,
    StringTok.iter_body_close StringTok.foldOK_py s q hq _ 0 (v + 1) c (by omega)]
  have hq92 : q ≠ 92 := by omega
  have hv' : validStr q ps (q :: r) = true :=
    SpellingLemmas.validStr_of_nil q ps (q :: r) hv (by
      intro n hn; simp at hn; subst hn
      rcases hq with h | h <;> subst h <;> decide)
  have := SpellingLemmas.scanStrBody_pieces q ps r hq92 hv'
  rw [hd1, StringTok.scanEnd, this]
  simp only [Option.map_some, Option.some.injEq, Prod.mk.injEq, and_true]
  omega

theorem value_head_quoted {v q : Nat} {ps : List StrPiece} {r : Str} (c : Caps) (hq : q = 34 ∨ q = 39)
    (hd : s.drop v = q :: (renderStrWith ps ++ q :: r)) (hv : validStr q ps [] = true) :
    (runs pyFoldEnv s rxValue v c).head? = some (v + (renderStrWith ps).length + 2, c) := by
  have hq0 := getElem?_of_drop_cons hd
  unfold rxValue
  rw [runs_alt, runsAlt_cons, runsAlt_cons]
  rcases hq with rfl | rfl
  · exact Ident.head?_append_of_some (quoted_head s c (Or.inl rfl) hd hv)
  · rw [quoted_fail s 34 (Or.inl rfl) v c (by rw [hq0]; simp), List.nil_append]
    exact Ident.head?_append_of_some (quoted_head s c (Or.inr rfl) hd hv)

theorem value_head_ident {v : Nat} {vf : List (Nat × EscForm)} {r : Str} (c : Caps)
    (hd : s.drop v = renderIdentWith vf ++ r)
    (hv : validForms vf r = true) (hh : headOk vf = true) (hr : ¬ continuesIdent r) :
    (runs pyFoldEnv s rxValue v c).head? = some (v + (renderIdentWith vf).length, c) := by
  obtain ⟨x, xs, hxs, hx⟩ := headOk_first vf hh
  have hd' : s.drop v = x :: (xs ++ r) := by rw [hd, hxs]; rfl
  have hx0 := getElem?_of_drop_cons hd'
  have hvl : v ≤ s.length := Nat.le_of_lt (lt_of_drop_cons hd')
  have hne : x ≠ 34 ∧ x ≠ 39 := by
    rcases hx with h | h | h
    · omega
    · omega
    · simp only [identStartChar, Bool.or_eq_true, Bool.and_eq_true, decide_eq_true_eq, beq_iff_eq] at h
      omega
  unfold rxValue
  rw [runs_alt, runsAlt_cons, runsAlt_cons, runsAlt_cons, runsAlt_nil, List.append_nil,
    quoted_fail s 34 (Or.inl rfl) v c (by rw [hx0]; simpa using hne.1),
    quoted_fail s 39 (Or.inr rfl) v c (by rw [hx0]; simpa using hne.2), List.nil_append, List.nil_append]
  have hscan := C09.scan_any_spelling_ctx vf r hv hh hr
  rw [← hd] at hscan
  obtain ⟨rest, hrest⟩ := ident_runs_head Ident.identFold_py s v c hvl _ hscan
  rw [hrest]; rfl

/-! ### After the attribute name -/

/-- The continuation after the attribute name fails where a further unit of the name's `*` loop starts. -/
theorem fail_after_name (j : Nat) (c : Caps) (h : (contStep (s.drop j)).isSome = true) :
    runsSeq pyFoldEnv s [.rep 0 (some 1) true rxAttrBody, gapRx true, .lit 93 true] j c = [] := by
  obtain ⟨x, cs, hd, hx⟩ := contStep_head h
  have hx0 := getElem?_of_drop_cons hd
  have hjl : j ≤ s.length := Nat.le_of_lt (lt_of_drop_cons hd)
  have hxprop : isCmp x = false ∧ x ≠ 61 ∧ x ≠ 93 ∧ isCssWs x = false ∧ x ≠ 47 := by
    rcases hx with hx | hx
    · rw [EscapeLemmas.identContChar_iff] at hx
      refine ⟨?_, by omega, by omega, ?_, by omega⟩
      · simp [isCmp]; omega
      · simp [isCssWs]; omega
    · subst hx; decide
  have hng : noGapStart (x :: cs) = true := by simp [noGapStart, hxprop.2.2.2.1, hxprop.2.2.2.2]
  have hg : ∀ (rs : List Rx) (hk : ∀ j c, (unitEnd s j).isSome = true → runsSeq pyFoldEnv s rs j c = []),
      runsSeq pyFoldEnv s (gapRx true :: rs) j c = runsSeq pyFoldEnv s rs j c := by
    intro rs hk
    have := gap_then_drop Wsc.caseFree_pyFold s j [] (x :: cs) c rs (by simpa using hd) C09.gap_nil hng hjl hk
    simpa using this
  rw [runsSeq_opt_cons]
  have h1 : runsSeq pyFoldEnv s [gapRx true, .lit 93 true] j c = [] := by
    rw [hg _ (fun j c' hj => fail_lit93 s [] j c' hj)]
    exact lit_fail Ident.identFold_py s 93 (by omega) [] j c (by rw [hx0]; simpa using hxprop.2.2.1)
  have h2 : runsSeq pyFoldEnv s [rxAttrBody, gapRx true, .lit 93 true] j c = [] := by
    unfold rxAttrBody
    rw [runsSeq_seq_cons]
    show runsSeq pyFoldEnv s (gapRx true :: rxCmp :: _) j c = []
    rw [hg _ (fun j c' hj => fail_cmp s _ j c' hj)]
    unfold rxCmp
    apply runsSeq_group_nil
    rw [cmp_runs, hx0]
    simp [hxprop.1, hxprop.2.1]
  rw [h1, h2]; rfl

/-- `[ g0 name g4 ]`. -/
theorem attr_matchAt_noop {i : Nat} {g0 g4 R : Str} {nf : List (Nat × EscForm)}
    (hd : s.drop i = 91 :: (g0 ++ (renderIdentWith nf ++ (g4 ++ 93 :: R))))
    (hg0 : isGap g0) (hg4 : isGap g4)
    (hv : validForms nf (g4 ++ 93 :: R) = true) (hh : headOk nf = true) :
    matchAt pyFoldEnv Gen.tok_attribute s i =
      some (i + 1 + g0.length + (renderIdentWith nf).length + g4.length + 1,
        [(2, i + 1 + g0.length, i + 1 + g0.length + (renderIdentWith nf).length)]) := by
  have h91 := getElem?_of_drop_cons hd
  have hil := lt_of_drop_cons hd
  have hd1 : s.drop (i + 1) = g0 ++ (renderIdentWith nf ++ (g4 ++ 93 :: R)) :=
    Ident.drop_succ_of_drop_cons hd
  have hda := drop_add_of_drop_append hd1
  have hde := drop_add_of_drop_append hda
  obtain ⟨x, xs, hxs, hx⟩ := headOk_first nf hh
  have hda' : s.drop (i + 1 + g0.length) = x :: (xs ++ (g4 ++ 93 :: R)) := by rw [hda, hxs]; rfl
  have hxa := getElem?_of_drop_cons hda'
  have hal := lt_of_drop_cons hda'
  have hxprop : x ≠ 124 ∧ x ≠ 42 ∧ isCssWs x = false ∧ x ≠ 47 := by
    rcases hx with h | h | h
    · subst h; decide
    · subst h; decide
    · simp only [identStartChar, Bool.or_eq_true, Bool.and_eq_true, decide_eq_true_eq, beq_iff_eq] at h
      refine ⟨by omega, by omega, by simp [isCssWs]; omega, by omega⟩
  have hnng : noGapStart (renderIdentWith nf ++ (g4 ++ 93 :: R)) = true := by
    rw [hxs]; simp [noGapStart, hxprop.2.2.1, hxprop.2.2.2]
  have htail_safe : ¬ continuesIdent (g4 ++ 93 :: R) := by
    cases g4 with
    | nil => simp [continuesIdent, identContChar]
    | cons y ys =>
      rcases gap_head' hg4 y (by simp) with h | h
      · simp only [isCssWs, Bool.or_eq_true, beq_iff_eq] at h
        rcases h with (((e | e) | e) | e) | e <;> subst e <;> simp [continuesIdent, identContChar]
      · subst h; simp [continuesIdent, identContChar]
  have hscan := C09.scan_any_spelling_ctx nf _ hv hh htail_safe
  rw [← hda] at hscan
  have hel : i + 1 + g0.length + (renderIdentWith nf).length ≤ s.length := by
    have := congrArg List.length hda
    rw [List.length_drop, List.length_append] at this
    omega
  have hne124 : s[i + 1 + g0.length + (renderIdentWith nf).length]? ≠ some 124 := by
    rw [← List.head?_drop, hde]
    cases g4 with
    | nil => simp
    | cons y ys =>
      simp only [List.cons_append, List.head?_cons, ne_eq, Option.some.injEq]
      rcases gap_head' hg4 y (by simp) with h | h
      · intro e; subst e; simp [isCssWs] at h
      · omega
  -- the pieces of the match, one after the other
  have e1 : runs pyFoldEnv s (.seq [.lit 91 true, gapRx true, rxNsOpt, .group 2 rxIdent,
        .rep 0 (some 1) true rxAttrBody, gapRx true, .lit 93 true]) i [] =
      runsSeq pyFoldEnv s [gapRx true, rxNsOpt, .group 2 rxIdent,
        .rep 0 (some 1) true rxAttrBody, gapRx true, .lit 93 true] (i + 1) [] := by
    rw [runs_seq, lit_ok pyFoldEnv s 91 _ i [] h91]
  have e2 : runsSeq pyFoldEnv s [gapRx true, rxNsOpt, .group 2 rxIdent,
        .rep 0 (some 1) true rxAttrBody, gapRx true, .lit 93 true] (i + 1) [] =
      runsSeq pyFoldEnv s [rxNsOpt, .group 2 rxIdent,
        .rep 0 (some 1) true rxAttrBody, gapRx true, .lit 93 true] (i + 1 + g0.length) [] :=
    gap_then_drop Wsc.caseFree_pyFold s (i + 1) g0 _ [] _ hd1 hg0 hnng (by omega)
      (fun j c hj => fail_name s _ j c hj (by
        cases hu : unitEnd s j with
        | none => rw [hu] at hj; cases hj
        | some q => have := Wsc.unitEnd_bounds hu; omega))
  have e3 : runsSeq pyFoldEnv s [rxNsOpt, .group 2 rxIdent,
        .rep 0 (some 1) true rxAttrBody, gapRx true, .lit 93 true] (i + 1 + g0.length) [] =
      runsSeq pyFoldEnv s [.group 2 rxIdent,
        .rep 0 (some 1) true rxAttrBody, gapRx true, .lit 93 true] (i + 1 + g0.length) [] :=
    nsOpt_then Ident.identFold_py s _ [] _ (by omega)
      (by rw [hxa]; simpa using hxprop.1) (by rw [hxa]; simpa using hxprop.2.1)
      (by
        intro m hm hbar
        rw [hscan] at hm; cases hm
        exact absurd hbar hne124)
  have e4 : runsSeq pyFoldEnv s [.group 2 rxIdent,
        .rep 0 (some 1) true rxAttrBody, gapRx true, .lit 93 true] (i + 1 + g0.length) [] =
      runsSeq pyFoldEnv s [.rep 0 (some 1) true rxAttrBody, gapRx true, .lit 93 true]
        (i + 1 + g0.length + (renderIdentWith nf).length)
        [(2, i + 1 + g0.length, i + 1 + g0.length + (renderIdentWith nf).length)] := by
    rw [runsSeq_group_cons,
      ident_flatMap Ident.identFold_py s (i + 1 + g0.length) []
        (fun x => runsSeq pyFoldEnv s [.rep 0 (some 1) true rxAttrBody, gapRx true, .lit 93 true] x.1
          ((2, i + 1 + g0.length, x.1) :: x.2.filter (fun e => e.1 != 2)))
        (by omega) (fun j c hj => fail_after_name s j _ hj),
      hscan]
    rfl
  have h1 : runsSeq pyFoldEnv s [rxAttrBody, gapRx true, .lit 93 true]
      (i + 1 + g0.length + (renderIdentWith nf).length)
      [(2, i + 1 + g0.length, i + 1 + g0.length + (renderIdentWith nf).length)] = [] := by
    unfold rxAttrBody
    rw [runsSeq_seq_cons]
    show runsSeq pyFoldEnv s (gapRx true :: rxCmp :: _) _ _ = []
    rw [gap_then_drop Wsc.caseFree_pyFold s _ g4 _ _ _ hde hg4 (noGapStart_93 R) hel
      (fun j c hj => fail_cmp s _ j c hj)]
    unfold rxCmp
    apply runsSeq_group_nil
    rw [cmp_runs, getElem?_of_drop_cons (drop_add_of_drop_append hde)]
    simp [isCmp]
  rw [tok_attribute_shape]
  unfold matchAt
  rw [e1, e2, e3, e4, runsSeq_opt_cons, h1, List.nil_append, close_runs s _ hde hg4 hel]
  rfl

/-- `[ g0 name g1 op g2 VALUE TAIL`: generic in the value and in what follows it (flag, gap, `]`), which
    are described by the first run of `VALUE` at its position and the runs of the rest after it. -/
theorem attr_matchAt_op {i : Nat} {g0 g1 g2 op T : Str} {nf : List (Nat × EscForm)}
    (hd : s.drop i = 91 :: (g0 ++ (renderIdentWith nf ++ (g1 ++ (op ++ (g2 ++ T))))))
    (hg0 : isGap g0) (hg1 : isGap g1) (hg2 : isGap g2)
    (hop : op = [61] ∨ ∃ x, isCmp x = true ∧ op = [x, 61])
    (hv : validForms nf (g1 ++ (op ++ (g2 ++ T))) = true) (hh : headOk nf = true)
    (hT : noGapStart T = true) (v1 E : Nat) (C : Caps)
    (hval : (runs pyFoldEnv s rxValue
        (i + 1 + g0.length + (renderIdentWith nf).length + g1.length + op.length + g2.length)
        [(3, i + 1 + g0.length + (renderIdentWith nf).length + g1.length,
            i + 1 + g0.length + (renderIdentWith nf).length + g1.length + op.length),
         (2, i + 1 + g0.length, i + 1 + g0.length + (renderIdentWith nf).length)]).head? =
      some (v1,
        [(3, i + 1 + g0.length + (renderIdentWith nf).length + g1.length,
            i + 1 + g0.length + (renderIdentWith nf).length + g1.length + op.length),
         (2, i + 1 + g0.length, i + 1 + g0.length + (renderIdentWith nf).length)]))
    (htail : runsSeq pyFoldEnv s [rxFlagOpt, gapRx true, .lit 93 true] v1
        [(4, i + 1 + g0.length + (renderIdentWith nf).length + g1.length + op.length + g2.length, v1),
         (3, i + 1 + g0.length + (renderIdentWith nf).length + g1.length,
            i + 1 + g0.length + (renderIdentWith nf).length + g1.length + op.length),
         (2, i + 1 + g0.length, i + 1 + g0.length + (renderIdentWith nf).length)] = [(E, C)]) :
    matchAt pyFoldEnv Gen.tok_attribute s i = some (E, C) := by
  have h91 := getElem?_of_drop_cons hd
  have hil := lt_of_drop_cons hd
  have hd1 : s.drop (i + 1) = g0 ++ (renderIdentWith nf ++ (g1 ++ (op ++ (g2 ++ T)))) :=
    Ident.drop_succ_of_drop_cons hd
  have hda := drop_add_of_drop_append hd1
  have hde := drop_add_of_drop_append hda
  have hdb := drop_add_of_drop_append hde
  have hdb' := drop_add_of_drop_append hdb
  have hdv := drop_add_of_drop_append hdb'
  obtain ⟨x, xs, hxs, hx⟩ := headOk_first nf hh
  have hda' : s.drop (i + 1 + g0.length) = x :: (xs ++ (g1 ++ (op ++ (g2 ++ T)))) := by
    rw [hda, hxs]; rfl
  have hxa := getElem?_of_drop_cons hda'
  have hal := lt_of_drop_cons hda'
  have hxprop : x ≠ 124 ∧ x ≠ 42 ∧ isCssWs x = false ∧ x ≠ 47 := by
    rcases hx with h | h | h
    · subst h; decide
    · subst h; decide
    · simp only [identStartChar, Bool.or_eq_true, Bool.and_eq_true, decide_eq_true_eq, beq_iff_eq] at h
      refine ⟨by omega, by omega, by simp [isCssWs]; omega, by omega⟩
  have hnng : noGapStart (renderIdentWith nf ++ (g1 ++ (op ++ (g2 ++ T)))) = true := by
    rw [hxs]; simp [noGapStart, hxprop.2.2.1, hxprop.2.2.2]
  -- the operator
  obtain ⟨o, os, hos, ho⟩ : ∃ o os, op = o :: os ∧ (o = 61 ∨ isCmp o = true) := by
    rcases hop with h | ⟨y, hy, h⟩
    · exact ⟨61, [], h, Or.inl rfl⟩
    · exact ⟨y, [61], h, Or.inr hy⟩
  have hosafe : identContChar o = false ∧ o ≠ 92 ∧ isCssWs o = false ∧ o ≠ 47 := by
    rcases ho with h | h
    · subst h; decide
    · simp only [isCmp, Bool.or_eq_true, beq_iff_eq] at h
      rcases h with ((((h | h) | h) | h) | h) | h <;> subst h <;> decide
  have hopng : noGapStart (op ++ (g2 ++ T)) = true := by
    rw [hos]; simp [noGapStart, hosafe.2.2.1, hosafe.2.2.2]
  have htail_safe : ¬ continuesIdent (g1 ++ (op ++ (g2 ++ T))) := by
    cases g1 with
    | nil => rw [hos]; simp [continuesIdent, hosafe.1, hosafe.2.1]
    | cons y ys =>
      rcases gap_head' hg1 y (by simp) with h | h
      · simp only [isCssWs, Bool.or_eq_true, beq_iff_eq] at h
        rcases h with (((e | e) | e) | e) | e <;> subst e <;> simp [continuesIdent, identContChar]
      · subst h; simp [continuesIdent, identContChar]
  have hscan := C09.scan_any_spelling_ctx nf _ hv hh htail_safe
  rw [← hda] at hscan
  have hlen := congrArg List.length hda
  simp only [List.length_drop, List.length_append] at hlen
  -- `name|=`: the namespace prefix matches `name|` but then the name does not
  have hbar : s[i + 1 + g0.length + (renderIdentWith nf).length]? = some 124 →
      ∀ c', runsSeq pyFoldEnv s [.group 2 rxIdent, .rep 0 (some 1) true rxAttrBody, gapRx true,
        .lit 93 true] (i + 1 + g0.length + (renderIdentWith nf).length + 1) c' = [] := by
    intro h124 c'
    apply runsSeq_group_nil
    apply ident_runs_nil Ident.identFold_py
    cases g1 with
    | cons y ys =>
      exfalso
      rw [getElem?_of_drop_cons (by rw [hde]; rfl)] at h124
      cases h124
      rcases gap_head' hg1 124 (by simp) with h | h
      · simp [isCssWs] at h
      · omega
    | nil =>
      simp only [List.nil_append, List.length_nil, Nat.add_zero] at hde hdb
      rcases hop with h | ⟨y, hy, h⟩
      · subst h
        rw [getElem?_of_drop_cons (by rw [hde]; rfl)] at h124; cases h124
      · subst h
        have hd61 : s.drop (i + 1 + g0.length + (renderIdentWith nf).length + 1) = 61 :: (g2 ++ T) :=
          Ident.drop_succ_of_drop_cons (by rw [hde]; rfl)
        rw [hd61]
        exact scanIdent_none_of_head (by simp [tagStart, identStartChar])
  have e1 : runs pyFoldEnv s (.seq [.lit 91 true, gapRx true, rxNsOpt, .group 2 rxIdent,
        .rep 0 (some 1) true rxAttrBody, gapRx true, .lit 93 true]) i [] =
      runsSeq pyFoldEnv s [gapRx true, rxNsOpt, .group 2 rxIdent,
        .rep 0 (some 1) true rxAttrBody, gapRx true, .lit 93 true] (i + 1) [] := by
    rw [runs_seq, lit_ok pyFoldEnv s 91 _ i [] h91]
  have e2 : runsSeq pyFoldEnv s [gapRx true, rxNsOpt, .group 2 rxIdent,
        .rep 0 (some 1) true rxAttrBody, gapRx true, .lit 93 true] (i + 1) [] =
      runsSeq pyFoldEnv s [rxNsOpt, .group 2 rxIdent,
        .rep 0 (some 1) true rxAttrBody, gapRx true, .lit 93 true] (i + 1 + g0.length) [] :=
    gap_then_drop Wsc.caseFree_pyFold s (i + 1) g0 _ [] _ hd1 hg0 hnng (by omega)
      (fun j c hj => fail_name s _ j c hj (by
        cases hu : unitEnd s j with
        | none => rw [hu] at hj; cases hj
        | some q => have := Wsc.unitEnd_bounds hu; omega))
  have e3 : runsSeq pyFoldEnv s [rxNsOpt, .group 2 rxIdent,
        .rep 0 (some 1) true rxAttrBody, gapRx true, .lit 93 true] (i + 1 + g0.length) [] =
      runsSeq pyFoldEnv s [.group 2 rxIdent,
        .rep 0 (some 1) true rxAttrBody, gapRx true, .lit 93 true] (i + 1 + g0.length) [] :=
    nsOpt_then Ident.identFold_py s _ [] _ (by omega)
      (by rw [hxa]; simpa using hxprop.1) (by rw [hxa]; simpa using hxprop.2.1)
      (by
        intro m hm hb
        rw [hscan] at hm; cases hm
        exact hbar hb)
  have e4 : runsSeq pyFoldEnv s [.group 2 rxIdent,
        .rep 0 (some 1) true rxAttrBody, gapRx true, .lit 93 true] (i + 1 + g0.length) [] =
      runsSeq pyFoldEnv s [.rep 0 (some 1) true rxAttrBody, gapRx true, .lit 93 true]
        (i + 1 + g0.length + (renderIdentWith nf).length)
        [(2, i + 1 + g0.length, i + 1 + g0.length + (renderIdentWith nf).length)] := by
    rw [runsSeq_group_cons,
      ident_flatMap Ident.identFold_py s (i + 1 + g0.length) []
        (fun x => runsSeq pyFoldEnv s [.rep 0 (some 1) true rxAttrBody, gapRx true, .lit 93 true] x.1
          ((2, i + 1 + g0.length, x.1) :: x.2.filter (fun e => e.1 != 2)))
        (by omega) (fun j c hj => fail_after_name s j _ hj),
      hscan]
    rfl
  -- inside the optional part
  have e6 : runsSeq pyFoldEnv s [gapRx true, rxCmp, gapRx true, .group 4 rxValue, rxFlagOpt,
        gapRx true, .lit 93 true] (i + 1 + g0.length + (renderIdentWith nf).length)
        [(2, i + 1 + g0.length, i + 1 + g0.length + (renderIdentWith nf).length)] =
      runsSeq pyFoldEnv s [rxCmp, gapRx true, .group 4 rxValue, rxFlagOpt, gapRx true, .lit 93 true]
        (i + 1 + g0.length + (renderIdentWith nf).length + g1.length)
        [(2, i + 1 + g0.length, i + 1 + g0.length + (renderIdentWith nf).length)] :=
    gap_then_drop Wsc.caseFree_pyFold s _ g1 _ _ _ hde hg1 hopng (by omega)
      (fun j c hj => fail_cmp s _ j c hj)
  have hcmp : runs pyFoldEnv s (.seq [.rep 0 (some 1) true cmpSet, .lit 61 true])
      (i + 1 + g0.length + (renderIdentWith nf).length + g1.length)
      [(2, i + 1 + g0.length, i + 1 + g0.length + (renderIdentWith nf).length)] =
      [(i + 1 + g0.length + (renderIdentWith nf).length + g1.length + op.length,
        [(2, i + 1 + g0.length, i + 1 + g0.length + (renderIdentWith nf).length)])] := by
    rw [cmp_runs]
    rcases hop with h | ⟨y, hy, h⟩
    · subst h
      rw [getElem?_of_drop_cons (by rw [hdb]; rfl)]
      simp [isCmp]
    · subst h
      have h0 := getElem?_of_drop_cons (s := s) (by rw [hdb]; rfl)
      have h1 : s.drop (i + 1 + g0.length + (renderIdentWith nf).length + g1.length + 1) = 61 :: (g2 ++ T) :=
        Ident.drop_succ_of_drop_cons (by rw [hdb]; rfl)
      rw [h0, getElem?_of_drop_cons h1]
      simp [hy]
  have e7 : runsSeq pyFoldEnv s [rxCmp, gapRx true, .group 4 rxValue, rxFlagOpt, gapRx true, .lit 93 true]
        (i + 1 + g0.length + (renderIdentWith nf).length + g1.length)
        [(2, i + 1 + g0.length, i + 1 + g0.length + (renderIdentWith nf).length)] =
      runsSeq pyFoldEnv s [gapRx true, .group 4 rxValue, rxFlagOpt, gapRx true, .lit 93 true]
        (i + 1 + g0.length + (renderIdentWith nf).length + g1.length + op.length)
        [(3, i + 1 + g0.length + (renderIdentWith nf).length + g1.length,
            i + 1 + g0.length + (renderIdentWith nf).length + g1.length + op.length),
         (2, i + 1 + g0.length, i + 1 + g0.length + (renderIdentWith nf).length)] := by
    unfold rxCmp
    rw [runsSeq_group_cons, hcmp]
    simp only [List.flatMap_cons, List.flatMap_nil, List.append_nil]
    rfl
  have e8 : runsSeq pyFoldEnv s [gapRx true, .group 4 rxValue, rxFlagOpt, gapRx true, .lit 93 true]
        (i + 1 + g0.length + (renderIdentWith nf).length + g1.length + op.length)
        [(3, i + 1 + g0.length + (renderIdentWith nf).length + g1.length,
            i + 1 + g0.length + (renderIdentWith nf).length + g1.length + op.length),
         (2, i + 1 + g0.length, i + 1 + g0.length + (renderIdentWith nf).length)] =
      runsSeq pyFoldEnv s [.group 4 rxValue, rxFlagOpt, gapRx true, .lit 93 true]
        (i + 1 + g0.length + (renderIdentWith nf).length + g1.length + op.length + g2.length)
        [(3, i + 1 + g0.length + (renderIdentWith nf).length + g1.length,
            i + 1 + g0.length + (renderIdentWith nf).length + g1.length + op.length),
         (2, i + 1 + g0.length, i + 1 + g0.length + (renderIdentWith nf).length)] :=
    gap_then_drop Wsc.caseFree_pyFold s _ g2 _ _ _ hdb' hg2 hT
      (by have := congrArg List.length hdb'
          simp only [List.length_drop, List.length_append] at this
          rcases Nat.lt_or_ge s.length
            (i + 1 + g0.length + (renderIdentWith nf).length + g1.length + op.length) with h | h
          · exfalso
            have h' := congrArg List.length hdb
            simp only [List.length_drop, List.length_append] at h'
            have : op.length ≥ 1 := by rw [hos]; simp
            omega
          · exact h)
      (fun j c hj => fail_value s _ j c hj)
  have e9 : (runsSeq pyFoldEnv s [.group 4 rxValue, rxFlagOpt, gapRx true, .lit 93 true]
        (i + 1 + g0.length + (renderIdentWith nf).length + g1.length + op.length + g2.length)
        [(3, i + 1 + g0.length + (renderIdentWith nf).length + g1.length,
            i + 1 + g0.length + (renderIdentWith nf).length + g1.length + op.length),
         (2, i + 1 + g0.length, i + 1 + g0.length + (renderIdentWith nf).length)]).head? = some (E, C) := by
    rw [runsSeq_group_cons]
    cases hr : runs pyFoldEnv s rxValue
        (i + 1 + g0.length + (renderIdentWith nf).length + g1.length + op.length + g2.length)
        [(3, i + 1 + g0.length + (renderIdentWith nf).length + g1.length,
            i + 1 + g0.length + (renderIdentWith nf).length + g1.length + op.length),
         (2, i + 1 + g0.length, i + 1 + g0.length + (renderIdentWith nf).length)] with
    | nil => rw [hr] at hval; cases hval
    | cons y ys =>
      rw [hr] at hval
      simp only [List.head?_cons, Option.some.injEq] at hval
      subst hval
      apply head?_flatMap_cons
      simp only [List.filter_cons, List.filter_nil]
      have : runsSeq pyFoldEnv s [rxFlagOpt, gapRx true, .lit 93 true] v1
          ((4, i + 1 + g0.length + (renderIdentWith nf).length + g1.length + op.length + g2.length, v1) ::
            [(3, i + 1 + g0.length + (renderIdentWith nf).length + g1.length,
              i + 1 + g0.length + (renderIdentWith nf).length + g1.length + op.length),
             (2, i + 1 + g0.length, i + 1 + g0.length + (renderIdentWith nf).length)]) = [(E, C)] := htail
      simpa using congrArg List.head? this
  rw [tok_attribute_shape]
  unfold matchAt
  rw [e1, e2, e3, e4, runsSeq_opt_cons]
  apply Ident.head?_append_of_some
  unfold rxAttrBody
  rw [runsSeq_seq_cons]
  show (runsSeq pyFoldEnv s [gapRx true, rxCmp, gapRx true, .group 4 rxValue, rxFlagOpt,
        gapRx true, .lit 93 true] _ _).head? = _
  rw [e6, e7, e8, e9]

end Fail

end Compile
end Refine
end SoupVerif

#print axioms SoupVerif.Refine.Compile.nsOpt_then
#print axioms SoupVerif.Refine.Compile.attr_matchAt_noop
#print axioms SoupVerif.Refine.Compile.attr_matchAt_op
