/-
  What `selector_iter` and the parser loop do at `:nth-child(…)`, `:nth-last-child(…)`,
  `:nth-of-type(…)`, `:nth-last-of-type(…)`.
-/
import SoupVerif.Refine.CompileNth
namespace SoupVerif
namespace Refine
namespace Compile
open Rx RxBasic SoupVerif.Parser ParserProgress Escape Spelling

variable (B : Builtins) (s : Str)

/-- At `:`: `pseudo_close` fails on its first character; the `special` slot's name pattern matches, the
    name is one of the special pseudo-classes, and its own pattern matches. -/
theorem matchToken_special {i j j' : Nat} {caps caps' : Caps} (h58 : s[i]? = some 58)
    (hsp : matchAt pyFoldEnv Gen.tok_special_name s i = some (j', caps'))
    (nm : Str) (sub : TokenRx)
    (hfind : Gen.lexicon.special.find? (fun e => e.1 ==
      lower (Parser.cssUnescape pyFoldEnv Gen.lexicon
        ((Parser.group s Gen.lexicon.specialName caps' "name").getD []))) = some (nm, sub))
    (hm : matchAt pyFoldEnv sub.rx s i = some (j, caps)) :
    matchToken (penv B s) i Gen.lexicon.tokens =
      some { name := sub.name, rx := sub, start := i, stop := j, caps := caps } := by
  have hk : keyOf s[i]? = 58 := by rw [h58]; rfl
  rw [matchToken_skip B s i 1 _ (by rw [hk]; exact skip_colon)]
  show matchToken (penv B s) i ((default, true) :: _) = _
  have hsp' : matchAt (penv B s).env (penv B s).L.specialName.rx (penv B s).pattern i = some (j', caps') := hsp
  have hm' : matchAt (penv B s).env sub.rx (penv B s).pattern i = some (j, caps) := hm
  have hfind' : (penv B s).L.special.find? (fun e => e.1 ==
      lower (Parser.cssUnescape (penv B s).env (penv B s).L
        ((Parser.group (penv B s).pattern (penv B s).L.specialName caps' "name").getD []))) =
        some (nm, sub) := hfind
  rw [matchToken]
  simp only [if_true, hsp', hfind', hm']

def nthChildRx : TokenRx := ⟨"pseudo_nth_child", Gen.tok_pseudo_nth_child, Gen.tok_pseudo_nth_child_groups⟩
def nthTypeRx : TokenRx := ⟨"pseudo_nth_type", Gen.tok_pseudo_nth_type, Gen.tok_pseudo_nth_type_groups⟩

/-- Names of the pseudo-classes with an An+B argument. -/
def nthChildName (n : Str) : Prop := n = ":nth-child".toStr ∨ n = ":nth-last-child".toStr
def nthTypeName (n : Str) : Prop := n = ":nth-of-type".toStr ∨ n = ":nth-last-of-type".toStr

theorem find_nthChild (n : Str) (h : nthChildName n) :
    Gen.lexicon.special.find? (fun e => e.1 == n) = some (n, nthChildRx) := by
  rcases h with h | h <;> subst h <;> rfl

theorem find_nthType (n : Str) (h : nthTypeName n) :
    Gen.lexicon.special.find? (fun e => e.1 == n) = some (n, nthTypeRx) := by
  rcases h with h | h <;> subst h <;> rfl

/-- `selector_iter` at `:name(` gap … where `name` is one of the `nth` names and its token matches. -/
theorem nextToken_nth {i j : Nat} {forms : List (Nat × EscForm)} {g₁ R : Str} {caps : Caps}
    (hd : s.drop i = 58 :: (renderIdentWith forms ++ (40 :: (g₁ ++ R))))
    (hv : validForms forms (40 :: (g₁ ++ R)) = true) (hh : headOk forms = true)
    (hcp : ∀ p ∈ forms, rangeOk p.1 p.2 = true)
    (hg : isGap g₁) (hR : noGapStart R = true) (sub : TokenRx)
    (hfind : Gen.lexicon.special.find? (fun e => e.1 == 58 :: lower (valueOf forms)) =
      some (58 :: lower (valueOf forms), sub))
    (hm : matchAt pyFoldEnv sub.rx s i = some (j, caps)) :
    nextToken (penv B s) i =
      .ok (some { name := sub.name, rx := sub, start := i, stop := j, caps := caps }) := by
  obtain ⟨h1, _⟩ := colon_open_heads s hd hv hh hg hR
  have hsl : slice s i (i + 1 + (renderIdentWith forms).length) = 58 :: renderIdentWith forms := by
    have := slice_of_drop_append (s := s) (p := i) (a := 58 :: renderIdentWith forms)
      (r := 40 :: (g₁ ++ R)) (by rw [hd]; rfl)
    rw [← this]; congr 1; simp only [List.length_cons]; omega
  rw [nextToken_noGap B s hd (by simp [noGapStart, isCssWs]),
    matchToken_special B s (getElem?_of_drop_cons hd) h1 _ sub
      (by
        have : Parser.group s Gen.lexicon.specialName
            [(2, i + 1 + (renderIdentWith forms).length, i + 1 + (renderIdentWith forms).length + 1 + g₁.length),
             (1, i, i + 1 + (renderIdentWith forms).length)] "name" = some (58 :: renderIdentWith forms) := by
          simp [Parser.group, Gen.lexicon, Gen.tok_special_name_groups, capSpan, hsl]
        rw [this]
        simp only [Option.getD_some]
        rw [unescape_colon_forms forms (SpellingLemmas.validForms_nil_of forms _ hv) hcp]
        exact hfind) hm]

/-! ### The parser at an `nth` pseudo-class -/

/-- What `parse_pseudo_nth` adds to the builder, from the name, the canonical An+B text and the compiled
    `of S` list (if any). -/
def nthBuild (B : Builtins) (name canon : Str) (ofSel : Option SelList) (sel : SelB) : SelB :=
  let anb := parseAnB ⟨pyFoldEnv, Gen.lexicon, B, []⟩ canon
  let e := SelList.mk [] false false
  if name == ":nth-of-type".toStr then sel.addNth [nthOf anb.1 anb.2.1 anb.2.2 true false e]
  else if name == ":nth-last-of-type".toStr then sel.addNth [nthOf anb.1 anb.2.1 anb.2.2 true true e]
  else if name == ":nth-child".toStr then
    sel.addNth [nthOf anb.1 anb.2.1 anb.2.2 false false (ofSel.getD B.nthOfSDefault)]
  else if name == ":nth-last-child".toStr then
    sel.addNth [nthOf anb.1 anb.2.1 anb.2.2 false true (ofSel.getD B.nthOfSDefault)]
  else sel

variable (fuel flags : Nat) (st : LS)

theorem slice_colon_name {i : Nat} {forms : List (Nat × EscForm)} {r : Str}
    (hd : s.drop i = 58 :: (renderIdentWith forms ++ r)) :
    slice s i (i + 1 + (renderIdentWith forms).length) = 58 :: renderIdentWith forms := by
  have := slice_of_drop_append (s := s) (p := i) (a := 58 :: renderIdentWith forms) (r := r)
    (by rw [hd]; rfl)
  rw [← this]; congr 1; simp only [List.length_cons]; omega

/-- `:nth-of-type(` gap An+B gap `)` and `:nth-last-of-type(…)`. -/
theorem step_nth_type {forms : List (Nat × EscForm)} {g₁ g₂ r : Str} (a : SAnB) (hok : a.ok)
    (hd : s.drop st.pos = 58 :: (renderIdentWith forms ++ (40 :: (g₁ ++ (a.render ++ (g₂ ++ 41 :: r))))))
    (hv : validForms forms (40 :: (g₁ ++ (a.render ++ (g₂ ++ 41 :: r)))) = true) (hh : headOk forms = true)
    (hcp : ∀ p ∈ forms, rangeOk p.1 p.2 = true) (hg₁ : isGap g₁) (hg₂ : isGap g₂)
    (hname : nthTypeName (58 :: lower (valueOf forms))) :
    ∃ p idx, s.drop p = r ∧
      parseLoop pyFoldEnv Gen.lexicon B s (fuel + 1) flags st =
        parseLoop pyFoldEnv Gen.lexicon B s fuel flags
          { st with pos := p, index := idx,
                    sel := nthBuild B (58 :: lower (valueOf forms)) a.canon none st.sel,
                    hasSelector := true } := by
  obtain ⟨x, xs, hx, hxw, hx47⟩ := a.head hok
  have hm := (nth_matchAt_close s a hok hd hv hh hg₁ hg₂).1
  have hnt := nextToken_nth B s (R := a.render ++ (g₂ ++ 41 :: r)) hd hv hh hcp hg₁
    (by rw [hx]; simp [noGapStart, hxw, hx47]) nthTypeRx (find_nthType _ hname) hm
  have hd1 : s.drop (st.pos + 1) = renderIdentWith forms ++ (40 :: (g₁ ++ (a.render ++ (g₂ ++ 41 :: r)))) :=
    Ident.drop_succ_of_drop_cons hd
  have hde := drop_add_of_drop_append hd1
  have hde1 : s.drop (st.pos + 1 + (renderIdentWith forms).length + 1) = g₁ ++ (a.render ++ (g₂ ++ 41 :: r)) :=
    Ident.drop_succ_of_drop_cons hde
  have hda := drop_add_of_drop_append hde1
  have hdg := drop_add_of_drop_append hda
  have hstop := Ident.drop_succ_of_drop_cons (drop_add_of_drop_append hdg)
  have hsl2 := slice_colon_name s hd
  have hsl4 := slice_of_drop_append hda
  refine ⟨_, st.pos + 1 + (renderIdentWith forms).length + 1 + g₁.length + a.render.length + g₂.length + 1,
    hstop, ?_⟩
  rw [C09.parseLoop_nth_type _ _ _ _ _ _ _ _ hnt rfl
    (by intro g hg; simp [Token.group, Parser.group, nthTypeRx, Gen.tok_pseudo_nth_type_groups] at hg)]
  have hg2 : Token.group (penv B s) (Token.mk nthTypeRx.name nthTypeRx st.pos
      (st.pos + 1 + (renderIdentWith forms).length + 1 + g₁.length + a.render.length + g₂.length + 1)
      (nthCaps st.pos (renderIdentWith forms).length g₁.length a.render.length)) "name" =
      some (58 :: renderIdentWith forms) := by
    simp [Token.group, Parser.group, nthTypeRx, Gen.tok_pseudo_nth_type_groups, capSpan, nthCaps, hsl2]
  have hg4 : Token.group (penv B s) (Token.mk nthTypeRx.name nthTypeRx st.pos
      (st.pos + 1 + (renderIdentWith forms).length + 1 + g₁.length + a.render.length + g₂.length + 1)
      (nthCaps st.pos (renderIdentWith forms).length g₁.length a.render.length)) "nth_type" =
      some a.render := by
    simp [Token.group, Parser.group, nthTypeRx, Gen.tok_pseudo_nth_type_groups, capSpan, nthCaps, hsl4]
  simp only [penv] at hg2 hg4
  simp only [hg2, hg4, Option.getD_some]
  rw [unescape_colon_forms forms (SpellingLemmas.validForms_nil_of forms _ hv) hcp]
  have hanb := parseAnB_spelled B s B [] a hok
  simp only [penv] at hanb
  have hlow : lower (58 :: valueOf forms) = 58 :: lower (valueOf forms) := rfl
  rw [hanb, hlow]
  rcases hname with h | h <;> rw [h] <;> rfl

/-- `nthChildSel` of C09 on a token whose `name` and `nth_child` groups are known. -/
theorem nthChildSel_eq (t : Token) (sel : SelB) (nthSel : SelList) (forms : List (Nat × EscForm))
    (a : SAnB) (hok : a.ok) (hvalid : Valid forms) (hcp : ∀ p ∈ forms, rangeOk p.1 p.2 = true)
    (hg2 : t.group (penv B s) "name" = some (58 :: renderIdentWith forms))
    (hg4 : t.group (penv B s) "nth_child" = some a.render)
    (hname : nthChildName (58 :: lower (valueOf forms))) :
    C09.nthChildSel (penv B s) t sel nthSel =
      nthBuild B (58 :: lower (valueOf forms)) a.canon (some nthSel) sel := by
  unfold C09.nthChildSel
  simp only [hg2, hg4, Option.getD_some]
  have hu := unescape_colon_forms forms hvalid hcp
  have hu' : Parser.cssUnescape (penv B s).env (penv B s).L (58 :: renderIdentWith forms) =
      58 :: valueOf forms := hu
  rw [hu']
  have hanb := parseAnB_spelled B s B [] a hok
  rw [hanb]
  have hlow : lower (58 :: valueOf forms) = 58 :: lower (valueOf forms) := rfl
  rw [hlow]
  rcases hname with h | h <;> rw [h] <;> rfl

/-- `:nth-child(` gap An+B gap `)` and `:nth-last-child(…)`, without `of S`. -/
theorem step_nth_child {forms : List (Nat × EscForm)} {g₁ g₂ r : Str} (a : SAnB) (hok : a.ok)
    (hd : s.drop st.pos = 58 :: (renderIdentWith forms ++ (40 :: (g₁ ++ (a.render ++ (g₂ ++ 41 :: r))))))
    (hv : validForms forms (40 :: (g₁ ++ (a.render ++ (g₂ ++ 41 :: r)))) = true) (hh : headOk forms = true)
    (hcp : ∀ p ∈ forms, rangeOk p.1 p.2 = true) (hg₁ : isGap g₁) (hg₂ : isGap g₂)
    (hname : nthChildName (58 :: lower (valueOf forms))) :
    ∃ p idx, s.drop p = r ∧
      parseLoop pyFoldEnv Gen.lexicon B s (fuel + 1) flags st =
        parseLoop pyFoldEnv Gen.lexicon B s fuel flags
          { st with pos := p, index := idx,
                    sel := nthBuild B (58 :: lower (valueOf forms)) a.canon none st.sel,
                    hasSelector := true } := by
  obtain ⟨x, xs, hx, hxw, hx47⟩ := a.head hok
  have hm := (nth_matchAt_close s a hok hd hv hh hg₁ hg₂).2
  have hnt := nextToken_nth B s (R := a.render ++ (g₂ ++ 41 :: r)) hd hv hh hcp hg₁
    (by rw [hx]; simp [noGapStart, hxw, hx47]) nthChildRx (find_nthChild _ hname) hm
  have hd1 : s.drop (st.pos + 1) = renderIdentWith forms ++ (40 :: (g₁ ++ (a.render ++ (g₂ ++ 41 :: r)))) :=
    Ident.drop_succ_of_drop_cons hd
  have hde := drop_add_of_drop_append hd1
  have hde1 : s.drop (st.pos + 1 + (renderIdentWith forms).length + 1) = g₁ ++ (a.render ++ (g₂ ++ 41 :: r)) :=
    Ident.drop_succ_of_drop_cons hde
  have hda := drop_add_of_drop_append hde1
  have hdg := drop_add_of_drop_append hda
  have hstop := Ident.drop_succ_of_drop_cons (drop_add_of_drop_append hdg)
  have hsl2 := slice_colon_name s hd
  have hsl4 := slice_of_drop_append hda
  have hsl1 : slice s st.pos (st.pos + 1 + (renderIdentWith forms).length + 1 + g₁.length + a.render.length) =
      (58 :: (renderIdentWith forms ++ (40 :: (g₁ ++ a.render)))) := by
    have := slice_of_drop_append (s := s) (p := st.pos)
      (a := 58 :: (renderIdentWith forms ++ (40 :: (g₁ ++ a.render)))) (r := g₂ ++ 41 :: r)
      (by rw [hd]; simp)
    rw [← this]; congr 1
    simp only [List.length_cons, List.length_append]; omega
  have hg1 : Token.group (penv B s) (Token.mk nthChildRx.name nthChildRx st.pos
      (st.pos + 1 + (renderIdentWith forms).length + 1 + g₁.length + a.render.length + g₂.length + 1)
      (nthCaps st.pos (renderIdentWith forms).length g₁.length a.render.length)) "pseudo_nth_child" =
      some (58 :: (renderIdentWith forms ++ (40 :: (g₁ ++ a.render)))) := by
    simp [Token.group, Parser.group, nthChildRx, Gen.tok_pseudo_nth_child_groups, capSpan, nthCaps, hsl1]
  have hg2 : Token.group (penv B s) (Token.mk nthChildRx.name nthChildRx st.pos
      (st.pos + 1 + (renderIdentWith forms).length + 1 + g₁.length + a.render.length + g₂.length + 1)
      (nthCaps st.pos (renderIdentWith forms).length g₁.length a.render.length)) "name" =
      some (58 :: renderIdentWith forms) := by
    simp [Token.group, Parser.group, nthChildRx, Gen.tok_pseudo_nth_child_groups, capSpan, nthCaps, hsl2]
  have hg4 : Token.group (penv B s) (Token.mk nthChildRx.name nthChildRx st.pos
      (st.pos + 1 + (renderIdentWith forms).length + 1 + g₁.length + a.render.length + g₂.length + 1)
      (nthCaps st.pos (renderIdentWith forms).length g₁.length a.render.length)) "nth_child" =
      some a.render := by
    simp [Token.group, Parser.group, nthChildRx, Gen.tok_pseudo_nth_child_groups, capSpan, nthCaps, hsl4]
  have hg5 : Token.group (penv B s) (Token.mk nthChildRx.name nthChildRx st.pos
      (st.pos + 1 + (renderIdentWith forms).length + 1 + g₁.length + a.render.length + g₂.length + 1)
      (nthCaps st.pos (renderIdentWith forms).length g₁.length a.render.length)) "of" = none := by
    simp [Token.group, Parser.group, nthChildRx, Gen.tok_pseudo_nth_child_groups, capSpan, nthCaps]
  refine ⟨_, st.pos + 1 + (renderIdentWith forms).length + 1 + g₁.length + a.render.length + g₂.length + 1,
    hstop, ?_⟩
  rw [C09.parseLoop_nth_child _ _ _ _ _ _ _ _ hnt rfl
    ⟨_, by simp only [penv] at hg1; exact hg1, by simp⟩
    (by intro g hg; simp only [penv] at hg5; rw [hg5] at hg; cases hg)]
  have := nthChildSel_eq B s _ st.sel B.nthOfSDefault forms a hok
    (SpellingLemmas.validForms_nil_of forms _ hv) hcp hg2 hg4 hname
  simp only [penv] at this
  rw [this]
  have e : nthBuild B (58 :: lower (valueOf forms)) a.canon (some B.nthOfSDefault) st.sel =
      nthBuild B (58 :: lower (valueOf forms)) a.canon none st.sel := rfl
  rw [e]

/-- `:nth-child(` gap An+B gap-with-ws `of` gap-with-ws `S` … — given the result of the nested
    `parse_selectors` call on `S` (which starts where the token ends). -/
theorem step_nth_child_of {forms : List (Nat × EscForm)} {g₁ dg1 dg2 ofw R : Str} (a : SAnB) (hok : a.ok)
    (hd : s.drop st.pos =
      58 :: (renderIdentWith forms ++ (40 :: (g₁ ++ (a.render ++ (dg1 ++ (ofw ++ (dg2 ++ R))))))))
    (hv : validForms forms (40 :: (g₁ ++ (a.render ++ (dg1 ++ (ofw ++ (dg2 ++ R)))))) = true)
    (hh : headOk forms = true) (hcp : ∀ p ∈ forms, rangeOk p.1 p.2 = true)
    (hg₁ : isGap g₁) (hdg1 : DescGap dg1) (hdg2 : DescGap dg2)
    (hof : lower ofw = "of".toStr) (hR : noGapStart R = true)
    (hname : nthChildName (58 :: lower (valueOf forms)))
    (nthSel : SelList) (pos' : Nat)
    (hsub : parseSelectors pyFoldEnv Gen.lexicon B s fuel
      (st.pos + 1 + (renderIdentWith forms).length + 1 + g₁.length + a.render.length + dg1.length + 2 +
        dg2.length)
      (st.pos + 1 + (renderIdentWith forms).length + 1 + g₁.length + a.render.length + dg1.length + 2 +
        dg2.length) 65 st.custom = .ok (nthSel, pos', st.custom)) :
    parseLoop pyFoldEnv Gen.lexicon B s (fuel + 1) flags st =
      parseLoop pyFoldEnv Gen.lexicon B s fuel flags
        { st with pos := pos',
                  index := st.pos + 1 + (renderIdentWith forms).length + 1 + g₁.length + a.render.length +
                    dg1.length + 2 + dg2.length,
                  sel := nthBuild B (58 :: lower (valueOf forms)) a.canon (some nthSel) st.sel,
                  hasSelector := true } := by
  obtain ⟨x, xs, hx, hxw, hx47⟩ := a.head hok
  have hm := nth_matchAt_of s a hok hd hv hh hg₁ hdg1 hdg2 hof hR
  have hnt := nextToken_nth B s (R := a.render ++ (dg1 ++ (ofw ++ (dg2 ++ R)))) hd hv hh hcp hg₁
    (by rw [hx]; simp [noGapStart, hxw, hx47]) nthChildRx (find_nthChild _ hname) hm
  have hd1 : s.drop (st.pos + 1) =
      renderIdentWith forms ++ (40 :: (g₁ ++ (a.render ++ (dg1 ++ (ofw ++ (dg2 ++ R)))))) :=
    Ident.drop_succ_of_drop_cons hd
  have hde := drop_add_of_drop_append hd1
  have hde1 : s.drop (st.pos + 1 + (renderIdentWith forms).length + 1) =
      g₁ ++ (a.render ++ (dg1 ++ (ofw ++ (dg2 ++ R)))) := Ident.drop_succ_of_drop_cons hde
  have hda := drop_add_of_drop_append hde1
  have hdg := drop_add_of_drop_append hda
  have hsl2 := slice_colon_name s hd
  have hsl4 := slice_of_drop_append hda
  have hsl1 : slice s st.pos (st.pos + 1 + (renderIdentWith forms).length + 1 + g₁.length + a.render.length) =
      (58 :: (renderIdentWith forms ++ (40 :: (g₁ ++ a.render)))) := by
    have := slice_of_drop_append (s := s) (p := st.pos)
      (a := 58 :: (renderIdentWith forms ++ (40 :: (g₁ ++ a.render)))) (r := dg1 ++ (ofw ++ (dg2 ++ R)))
      (by rw [hd]; simp)
    rw [← this]; congr 1
    simp only [List.length_cons, List.length_append]; omega
  have hoflen : ofw.length = 2 := by
    have := congrArg List.length hof
    rw [SpellingLemmas.lower_length] at this
    exact this
  have hsl5 : slice s (st.pos + 1 + (renderIdentWith forms).length + 1 + g₁.length + a.render.length)
      (st.pos + 1 + (renderIdentWith forms).length + 1 + g₁.length + a.render.length + dg1.length + 2 +
        dg2.length) = dg1 ++ (ofw ++ dg2) := by
    have := slice_of_drop_append (s := s) (a := dg1 ++ (ofw ++ dg2)) (r := R)
      (by rw [hdg]; simp)
    rw [← this]; congr 1
    simp only [List.length_append]; omega
  have hg1 : Token.group (penv B s) (Token.mk nthChildRx.name nthChildRx st.pos
      (st.pos + 1 + (renderIdentWith forms).length + 1 + g₁.length + a.render.length + dg1.length + 2 +
        dg2.length)
      ((5, st.pos + 1 + (renderIdentWith forms).length + 1 + g₁.length + a.render.length,
          st.pos + 1 + (renderIdentWith forms).length + 1 + g₁.length + a.render.length + dg1.length + 2 +
            dg2.length) ::
        nthCaps st.pos (renderIdentWith forms).length g₁.length a.render.length)) "pseudo_nth_child" =
      some (58 :: (renderIdentWith forms ++ (40 :: (g₁ ++ a.render)))) := by
    simp [Token.group, Parser.group, nthChildRx, Gen.tok_pseudo_nth_child_groups, capSpan, nthCaps, hsl1]
  have hg2 : Token.group (penv B s) (Token.mk nthChildRx.name nthChildRx st.pos
      (st.pos + 1 + (renderIdentWith forms).length + 1 + g₁.length + a.render.length + dg1.length + 2 +
        dg2.length)
      ((5, st.pos + 1 + (renderIdentWith forms).length + 1 + g₁.length + a.render.length,
          st.pos + 1 + (renderIdentWith forms).length + 1 + g₁.length + a.render.length + dg1.length + 2 +
            dg2.length) ::
        nthCaps st.pos (renderIdentWith forms).length g₁.length a.render.length)) "name" =
      some (58 :: renderIdentWith forms) := by
    simp [Token.group, Parser.group, nthChildRx, Gen.tok_pseudo_nth_child_groups, capSpan, nthCaps, hsl2]
  have hg4 : Token.group (penv B s) (Token.mk nthChildRx.name nthChildRx st.pos
      (st.pos + 1 + (renderIdentWith forms).length + 1 + g₁.length + a.render.length + dg1.length + 2 +
        dg2.length)
      ((5, st.pos + 1 + (renderIdentWith forms).length + 1 + g₁.length + a.render.length,
          st.pos + 1 + (renderIdentWith forms).length + 1 + g₁.length + a.render.length + dg1.length + 2 +
            dg2.length) ::
        nthCaps st.pos (renderIdentWith forms).length g₁.length a.render.length)) "nth_child" =
      some a.render := by
    simp [Token.group, Parser.group, nthChildRx, Gen.tok_pseudo_nth_child_groups, capSpan, nthCaps, hsl4]
  have hg5 : Token.group (penv B s) (Token.mk nthChildRx.name nthChildRx st.pos
      (st.pos + 1 + (renderIdentWith forms).length + 1 + g₁.length + a.render.length + dg1.length + 2 +
        dg2.length)
      ((5, st.pos + 1 + (renderIdentWith forms).length + 1 + g₁.length + a.render.length,
          st.pos + 1 + (renderIdentWith forms).length + 1 + g₁.length + a.render.length + dg1.length + 2 +
            dg2.length) ::
        nthCaps st.pos (renderIdentWith forms).length g₁.length a.render.length)) "of" =
      some (dg1 ++ (ofw ++ dg2)) := by
    simp [Token.group, Parser.group, nthChildRx, Gen.tok_pseudo_nth_child_groups, capSpan, hsl5]
  have hne5 : dg1 ++ (ofw ++ dg2) ≠ [] := by
    have := hdg1.ne_nil
    cases dg1 with | nil => exact absurd rfl this | cons _ _ => simp
  rw [C09.parseLoop_nth_child_of _ _ _ _ _ _ _ _ hnt rfl
    ⟨_, by simp only [penv] at hg1; exact hg1, by simp⟩
    ⟨_, by simp only [penv] at hg5; exact hg5, hne5⟩ nthSel pos' st.custom hsub]
  have := nthChildSel_eq B s _ st.sel nthSel forms a hok
    (SpellingLemmas.validForms_nil_of forms _ hv) hcp hg2 hg4 hname
  simp only [penv] at this
  rw [this]

end Compile
end Refine
end SoupVerif

#print axioms SoupVerif.Refine.Compile.nextToken_nth
#print axioms SoupVerif.Refine.Compile.step_nth_type
#print axioms SoupVerif.Refine.Compile.step_nth_child
#print axioms SoupVerif.Refine.Compile.step_nth_child_of
