/-
  What `selector_iter` and the parser loop do at an attribute selector.
-/
import SoupVerif.Refine.CompileAttr
import SoupVerif.Refine.CompileStep
namespace SoupVerif
namespace Refine
namespace Compile
open Rx RxBasic SoupVerif.Parser ParserProgress Escape Spelling

theorem skip_bracket : (Gen.lexicon.tokens.take 10).all (fun t => !slotFirst 91 t) = true := by
  decide +kernel

def attrTok (i j : Nat) (caps : Caps) : Token :=
  { name := "attribute", rx := ⟨"attribute", Gen.tok_attribute, Gen.tok_attribute_groups⟩,
    start := i, stop := j, caps := caps }

variable (B : Builtins) (s : Str)

theorem nextToken_attr {i j : Nat} {cs : Str} {caps : Caps} (hd : s.drop i = 91 :: cs)
    (hm : matchAt pyFoldEnv Gen.tok_attribute s i = some (j, caps)) :
    nextToken (penv B s) i = .ok (some (attrTok i j caps)) := by
  rw [nextToken_noGap B s hd (by simp [noGapStart, isCssWs])]
  have hk : keyOf s[i]? = 91 := by rw [getElem?_of_drop_cons hd]; rfl
  rw [matchToken_hit B s i 10 ⟨"attribute", Gen.tok_attribute, Gen.tok_attribute_groups⟩ _ _ _ rfl
    (by rw [hk]; exact skip_bracket) hm]
  rfl

/-! ### `parse_attribute_selector` from the texts of the groups -/

/-- `parse_attribute_selector` once name, operator, value and case flag are known (no namespace). -/
def attrBuild (sel : SelB) (attr op value : Str) (case_ : Option Str) : SelB :=
  let (ic, isType) : Bool × Bool :=
    match case_ with
    | some c => (c == "i".toStr, false)
    | none => if lower attr == "type".toStr then (true, true) else (false, false)
  let hasWs := (Rx.search pyFoldEnv Gen.lexicon.reWs value).isSome
  let pattern : Option Rx := if op.isEmpty then none else some (attrPattern op value ic hasWs)
  let pattern2 : Option Rx :=
    if isType then pattern.map (fun _ => attrPattern op value false hasWs) else none
  let selAttr : AttrSel := { attrName := attr, pfx := [], pattern := pattern, xmlTypePattern := pattern2 }
  if op.head? == some 33 then sel.addSub (.mk [(SelB.empty.addAttr selAttr).freeze] true false)
  else sel.addAttr selAttr

/-- The `value` binding: quotes stripped and string-unescaped, or identifier-unescaped. -/
def rawValue (raw : Str) : Str :=
  match raw.head? with
  | some q => if q == 34 || q == 39 then Parser.cssUnescape pyFoldEnv Gen.lexicon (slice raw 1 (raw.length - 1)) true
              else Parser.cssUnescape pyFoldEnv Gen.lexicon raw
  | none => Parser.cssUnescape pyFoldEnv Gen.lexicon raw

theorem parseAttribute_of_groups (t : Token) (sel : SelB) (name : Str) (op val cs : Option Str)
    (h1 : t.group (penv B s) "attr_ns" = none) (h2 : t.group (penv B s) "attr_name" = some name)
    (h3 : t.group (penv B s) "cmp" = op) (h4 : t.group (penv B s) "value" = val)
    (h5 : t.group (penv B s) "case" = cs) :
    parseAttribute (penv B s) t sel =
      attrBuild sel (Parser.cssUnescape pyFoldEnv Gen.lexicon name) (op.getD [])
        (if (op.getD []).isEmpty then [] else rawValue (val.getD []))
        (match cs with | some c => if c.isEmpty then none else some (lower c) | none => none) := by
  unfold parseAttribute attrBuild rawValue
  simp only [h1, h2, h3, h4, h5]
  cases cs with
  | none => rfl
  | some c => by_cases hc : c.isEmpty = true <;> simp only [hc] <;> rfl

/-! ### Steps -/

variable (fuel flags : Nat) (st : LS)

theorem tail_safe_93 {g4 : Str} (hg4 : isGap g4) (R : Str) : ¬ continuesIdent (g4 ++ 93 :: R) := by
  cases g4 with
  | nil => simp [continuesIdent, identContChar]
  | cons y ys =>
    rcases gap_head' hg4 y (by simp) with h | h
    · simp only [isCssWs, Bool.or_eq_true, beq_iff_eq] at h
      rcases h with (((e | e) | e) | e) | e <;> subst e <;> simp [continuesIdent, identContChar]
    · subst h; simp [continuesIdent, identContChar]

/-- `[ g0 name g4 ]`. -/
theorem step_attr_noop {g0 g4 r : Str} {nf : List (Nat × EscForm)}
    (hd : s.drop st.pos = 91 :: (g0 ++ (renderIdentWith nf ++ (g4 ++ 93 :: r))))
    (hg0 : isGap g0) (hg4 : isGap g4)
    (hv : validForms nf (g4 ++ 93 :: r) = true) (hh : headOk nf = true)
    (hcp : ∀ p ∈ nf, rangeOk p.1 p.2 = true) :
    ∃ p idx, s.drop p = r ∧
      parseLoop pyFoldEnv Gen.lexicon B s (fuel + 1) flags st =
        parseLoop pyFoldEnv Gen.lexicon B s fuel flags
          { st with pos := p, index := idx, sel := attrBuild st.sel (valueOf nf) [] [] none,
                    hasSelector := true } := by
  have hm := attr_matchAt_noop s hd hg0 hg4 hv hh
  have hnt := nextToken_attr B s hd hm
  have hd1 : s.drop (st.pos + 1) = g0 ++ (renderIdentWith nf ++ (g4 ++ 93 :: r)) :=
    Ident.drop_succ_of_drop_cons hd
  have hda := drop_add_of_drop_append hd1
  have hde := drop_add_of_drop_append hda
  have hdc := drop_add_of_drop_append hde
  have hstop : s.drop (st.pos + 1 + g0.length + (renderIdentWith nf).length + g4.length + 1) = r :=
    Ident.drop_succ_of_drop_cons hdc
  refine ⟨_, st.pos + 1 + g0.length + (renderIdentWith nf).length + g4.length + 1, hstop, ?_⟩
  rw [C09.parseLoop_attribute _ _ _ _ _ _ _ _ hnt rfl]
  have hsl := slice_of_drop_append hda
  rw [parseAttribute_of_groups B s _ st.sel (renderIdentWith nf) none none none
    (by simp [Token.group, Parser.group, attrTok, Gen.tok_attribute_groups, capSpan])
    (by simp [Token.group, Parser.group, attrTok, Gen.tok_attribute_groups, capSpan, hsl])
    (by simp [Token.group, Parser.group, attrTok, Gen.tok_attribute_groups, capSpan])
    (by simp [Token.group, Parser.group, attrTok, Gen.tok_attribute_groups, capSpan])
    (by simp [Token.group, Parser.group, attrTok, Gen.tok_attribute_groups, capSpan])]
  rw [unescape_forms nf (SpellingLemmas.validForms_nil_of nf _ hv) hcp]
  rfl

theorem op_isEmpty {op : Str} (hop : op = [61] ∨ ∃ x, isCmp x = true ∧ op = [x, 61]) :
    op.isEmpty = false := by
  rcases hop with h | ⟨x, _, h⟩ <;> subst h <;> rfl

/-- `[ g0 name g1 op g2 VALUE g4 ]`, generic in the value `V` (its text), described by the first run
    of `VALUE` on it and by its decoding. -/
theorem step_attr_op_noflag {g0 g1 g2 g4 op V r : Str} {nf : List (Nat × EscForm)} (v : Str)
    (hd : s.drop st.pos =
      91 :: (g0 ++ (renderIdentWith nf ++ (g1 ++ (op ++ (g2 ++ (V ++ (g4 ++ 93 :: r))))))))
    (hg0 : isGap g0) (hg1 : isGap g1) (hg2 : isGap g2) (hg4 : isGap g4)
    (hop : op = [61] ∨ ∃ x, isCmp x = true ∧ op = [x, 61])
    (hv : validForms nf (g1 ++ (op ++ (g2 ++ (V ++ (g4 ++ 93 :: r))))) = true) (hh : headOk nf = true)
    (hcp : ∀ p ∈ nf, rangeOk p.1 p.2 = true)
    (hVng : noGapStart (V ++ (g4 ++ 93 :: r)) = true)
    (hval : ∀ v0 c, s.drop v0 = V ++ (g4 ++ 93 :: r) →
      (runs pyFoldEnv s rxValue v0 c).head? = some (v0 + V.length, c))
    (hdec : rawValue V = v) :
    ∃ p idx, s.drop p = r ∧
      parseLoop pyFoldEnv Gen.lexicon B s (fuel + 1) flags st =
        parseLoop pyFoldEnv Gen.lexicon B s fuel flags
          { st with pos := p, index := idx, sel := attrBuild st.sel (valueOf nf) op v none,
                    hasSelector := true } := by
  have hd1 : s.drop (st.pos + 1) = g0 ++ (renderIdentWith nf ++ (g1 ++ (op ++ (g2 ++ (V ++ (g4 ++ 93 :: r)))))) :=
    Ident.drop_succ_of_drop_cons hd
  have hda := drop_add_of_drop_append hd1
  have hde := drop_add_of_drop_append hda
  have hdb := drop_add_of_drop_append hde
  have hdb' := drop_add_of_drop_append hdb
  have hdv := drop_add_of_drop_append hdb'
  have hdv1 := drop_add_of_drop_append hdv
  have hdc := drop_add_of_drop_append hdv1
  have hstop := Ident.drop_succ_of_drop_cons hdc
  have hv1l : st.pos + 1 + g0.length + (renderIdentWith nf).length + g1.length + op.length + g2.length +
      V.length ≤ s.length := by
    have := lt_of_drop_cons hdc; omega
  have hm := attr_matchAt_op s hd hg0 hg1 hg2 hop hv hh hVng _ _ _ (hval _ _ hdv)
    (tail_noflag s _ hdv1 hg4 hv1l)
  have hnt := nextToken_attr B s hd hm
  refine ⟨_, st.pos + 1 + g0.length + (renderIdentWith nf).length + g1.length + op.length + g2.length +
      V.length + g4.length + 1, hstop, ?_⟩
  rw [C09.parseLoop_attribute _ _ _ _ _ _ _ _ hnt rfl]
  have hsl2 := slice_of_drop_append hda
  have hsl3 := slice_of_drop_append hdb
  have hsl4 := slice_of_drop_append hdv
  rw [parseAttribute_of_groups B s _ st.sel (renderIdentWith nf) (some op) (some V) none
    (by simp [Token.group, Parser.group, attrTok, Gen.tok_attribute_groups, capSpan])
    (by simp [Token.group, Parser.group, attrTok, Gen.tok_attribute_groups, capSpan, hsl2])
    (by simp [Token.group, Parser.group, attrTok, Gen.tok_attribute_groups, capSpan, hsl3])
    (by simp [Token.group, Parser.group, attrTok, Gen.tok_attribute_groups, capSpan, hsl4])
    (by simp [Token.group, Parser.group, attrTok, Gen.tok_attribute_groups, capSpan])]
  rw [unescape_forms nf (SpellingLemmas.validForms_nil_of nf _ hv) hcp]
  simp only [Option.getD_some, op_isEmpty hop, Bool.false_eq_true, if_false, hdec]
  rfl

/-- `[ g0 name g1 op g2 VALUE g3 flag g4 ]`. -/
theorem step_attr_op_flag {g0 g1 g2 g3 g4 op V r : Str} {f : Nat} {nf : List (Nat × EscForm)} (v : Str)
    (hd : s.drop st.pos =
      91 :: (g0 ++ (renderIdentWith nf ++ (g1 ++ (op ++ (g2 ++ (V ++ (g3 ++ f :: (g4 ++ 93 :: r)))))))))
    (hg0 : isGap g0) (hg1 : isGap g1) (hg2 : isGap g2) (hg3 : isGap g3) (hg4 : isGap g4)
    (hf : isFlag f = true)
    (hop : op = [61] ∨ ∃ x, isCmp x = true ∧ op = [x, 61])
    (hv : validForms nf (g1 ++ (op ++ (g2 ++ (V ++ (g3 ++ f :: (g4 ++ 93 :: r)))))) = true)
    (hh : headOk nf = true) (hcp : ∀ p ∈ nf, rangeOk p.1 p.2 = true)
    (hVng : noGapStart (V ++ (g3 ++ f :: (g4 ++ 93 :: r))) = true)
    (hval : ∀ v0 c, s.drop v0 = V ++ (g3 ++ f :: (g4 ++ 93 :: r)) →
      (runs pyFoldEnv s rxValue v0 c).head? = some (v0 + V.length, c))
    (hdec : rawValue V = v) :
    ∃ p idx, s.drop p = r ∧
      parseLoop pyFoldEnv Gen.lexicon B s (fuel + 1) flags st =
        parseLoop pyFoldEnv Gen.lexicon B s fuel flags
          { st with pos := p, index := idx,
                    sel := attrBuild st.sel (valueOf nf) op v (some [lowerCp f]),
                    hasSelector := true } := by
  have hd1 : s.drop (st.pos + 1) =
      g0 ++ (renderIdentWith nf ++ (g1 ++ (op ++ (g2 ++ (V ++ (g3 ++ f :: (g4 ++ 93 :: r))))))) :=
    Ident.drop_succ_of_drop_cons hd
  have hda := drop_add_of_drop_append hd1
  have hde := drop_add_of_drop_append hda
  have hdb := drop_add_of_drop_append hde
  have hdb' := drop_add_of_drop_append hdb
  have hdv := drop_add_of_drop_append hdb'
  have hdv1 := drop_add_of_drop_append hdv
  have hdf := drop_add_of_drop_append hdv1
  have hdf1 := Ident.drop_succ_of_drop_cons hdf
  have hdc := drop_add_of_drop_append hdf1
  have hstop := Ident.drop_succ_of_drop_cons hdc
  have hv1l : st.pos + 1 + g0.length + (renderIdentWith nf).length + g1.length + op.length + g2.length +
      V.length ≤ s.length := by
    have := lt_of_drop_cons hdf; omega
  have hm := attr_matchAt_op s hd hg0 hg1 hg2 hop hv hh hVng _ _ _ (hval _ _ hdv)
    (tail_flag s _ hdv1 hg3 hg4 hf hv1l)
  have hnt := nextToken_attr B s hd hm
  refine ⟨_, st.pos + 1 + g0.length + (renderIdentWith nf).length + g1.length + op.length + g2.length +
      V.length + g3.length + 1 + g4.length + 1, hstop, ?_⟩
  rw [C09.parseLoop_attribute _ _ _ _ _ _ _ _ hnt rfl]
  have hsl2 := slice_of_drop_append hda
  have hsl3 := slice_of_drop_append hdb
  have hsl4 := slice_of_drop_append hdv
  have hsl5 : slice s (st.pos + 1 + g0.length + (renderIdentWith nf).length + g1.length + op.length +
      g2.length + V.length + g3.length) (st.pos + 1 + g0.length + (renderIdentWith nf).length + g1.length +
      op.length + g2.length + V.length + g3.length + 1) = [f] :=
    slice_of_drop_append (a := [f]) hdf
  rw [parseAttribute_of_groups B s _ st.sel (renderIdentWith nf) (some op) (some V) (some [f])
    (by simp [Token.group, Parser.group, attrTok, Gen.tok_attribute_groups, capSpan])
    (by simp [Token.group, Parser.group, attrTok, Gen.tok_attribute_groups, capSpan, hsl2])
    (by simp [Token.group, Parser.group, attrTok, Gen.tok_attribute_groups, capSpan, hsl3])
    (by simp [Token.group, Parser.group, attrTok, Gen.tok_attribute_groups, capSpan, hsl4])
    (by simp [Token.group, Parser.group, attrTok, Gen.tok_attribute_groups, capSpan, hsl5])]
  rw [unescape_forms nf (SpellingLemmas.validForms_nil_of nf _ hv) hcp]
  simp only [Option.getD_some, op_isEmpty hop, Bool.false_eq_true, if_false, hdec, List.isEmpty_cons]
  rfl

/-! ### Decoding the value -/

theorem rawValue_ident (vf : List (Nat × EscForm)) (hv : Valid vf) (hh : headOk vf = true)
    (hcp : ∀ p ∈ vf, rangeOk p.1 p.2 = true) : rawValue (renderIdentWith vf) = valueOf vf := by
  obtain ⟨x, xs, hxs, hx⟩ := headOk_first vf hh
  have hne : (x == 34 || x == 39) = false := by
    rcases hx with h | h | h
    · subst h; rfl
    · subst h; rfl
    · simp only [identStartChar, Bool.or_eq_true, Bool.and_eq_true, decide_eq_true_eq, beq_iff_eq] at h
      simp only [Bool.or_eq_false_iff, beq_eq_false_iff_ne]; omega
  unfold rawValue
  rw [hxs]
  simp only [List.head?_cons, hne, Bool.false_eq_true, if_false]
  rw [← hxs]
  exact unescape_forms vf hv hcp

theorem rawValue_quoted (q : Nat) (ps : List StrPiece) (hq : q = 34 ∨ q = 39)
    (hv : validStr q ps [] = true) (hr : ∀ p ∈ ps, pieceRangeOk p = true) :
    rawValue (q :: (renderStrWith ps ++ [q])) = strValue ps := by
  have hqq : (q == 34 || q == 39) = true := by rcases hq with h | h <;> subst h <;> rfl
  unfold rawValue
  simp only [List.head?_cons, hqq, if_true]
  rw [C09.slice_quoted]
  exact C09Rx.string_any_spelling_rx q ps hv hr

end Compile
end Refine
end SoupVerif

#print axioms SoupVerif.Refine.Compile.step_attr_noop
#print axioms SoupVerif.Refine.Compile.step_attr_op_noflag
#print axioms SoupVerif.Refine.Compile.step_attr_op_flag
#print axioms SoupVerif.Refine.Compile.rawValue_ident
#print axioms SoupVerif.Refine.Compile.rawValue_quoted
