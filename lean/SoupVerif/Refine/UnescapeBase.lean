/-
  Engine-level lemmas for the refinement proof of `css_unescape` (`Refine/Unescape.lean`):
  character classes of `RE_CSS_ESC` / `RE_CSS_STR_ESC` under a case-folding environment, the
  building blocks `NEWLINE`, `WS`, `COMMENTS`, and the four capture-group alternatives.
-/
import SoupVerif.Lemmas.RxBasic
import SoupVerif.Model.Escape
namespace SoupVerif
namespace Refine
open Rx RxBasic Escape

/-! ### Environments -/

/-- What the proofs need of the case folding: it is ASCII lower-casing, except possibly on
    non-ASCII code points, which may fold to something from `g` (103) upwards.  (So no non-ASCII
    code point is identified with `\`, a hex digit, a whitespace character, `/` or `*`.) -/
def GoodEnv (env : CharEnv) : Prop :=
  ∀ x, env.fold x = lowerCp x ∨ (128 ≤ x ∧ 103 ≤ env.fold x)

theorem goodEnv_ascii : GoodEnv asciiEnv := fun _ => Or.inl rfl

theorem lookup_mem {sp : Specials} {x a : Nat} : sp.lookup x = some a → (x, a) ∈ sp := by
  induction sp with
  | nil => intro h; cases h
  | cons p t ih =>
    obtain ⟨k, v⟩ := p
    intro h
    by_cases hk : x = k
    · subst hk
      simp [List.lookup] at h
      subst h; exact List.mem_cons_self ..
    · have : (x == k) = false := by simpa using hk
      simp [List.lookup, this] at h
      exact List.mem_cons_of_mem _ (ih h)

theorem goodEnv_foldEnv (sp : Specials) (h : ∀ p ∈ sp, 128 ≤ p.1 ∧ 103 ≤ p.2) :
    GoodEnv (foldEnv sp) := by
  intro x
  show (match sp.lookup x with | some a => a | none => lowerCp x) = lowerCp x ∨
    (128 ≤ x ∧ 103 ≤ (match sp.lookup x with | some a => a | none => lowerCp x))
  cases hl : sp.lookup x with
  | none => exact Or.inl rfl
  | some a => exact Or.inr (h (x, a) (lookup_mem hl))

theorem goodEnv_py : GoodEnv pyFoldEnv := by
  rw [pyFoldEnv_eq]
  exact goodEnv_foldEnv _ (by decide)

/-! ### Characters -/

theorem fold_eq_iff {env : CharEnv} (h : GoodEnv env) (x c : Nat)
    (hc : c < 65 ∨ (90 < c ∧ c < 97)) : (env.fold x == env.fold c) = (x == c) := by
  have hx := h x
  have hc' := h c
  rw [Bool.eq_iff_iff]
  simp only [beq_iff_eq]
  unfold lowerCp at hx hc'
  split at hx <;> split at hc' <;> omega

def isNL (c : Nat) : Bool := c == 10 || c == 13 || c == 12

theorem isChar_litC {env : CharEnv} (h : GoodEnv env) (s : Str) (c : Nat)
    (hc : c < 65 ∨ (90 < c ∧ c < 97)) : IsChar env s (.lit c true) (fun x => x == c) :=
  isChar_congr (isChar_lit env s c true) (fun x => by simp [fold_eq_iff h x c hc])

theorem itemHas_ch {env : CharEnv} (h : GoodEnv env) (x c : Nat)
    (hc : c < 65 ∨ (90 < c ∧ c < 97)) : itemHas env true x (.ch c) = (x == c) := by
  simp only [itemHas, if_true]
  rw [Bool.beq_comm, fold_eq_iff h x c hc]

theorem setHas_hex {env : CharEnv} (h : GoodEnv env) (x : Nat) :
    setHas env false [.range 97 102, .range 48 57] true x = isHex x := by
  have hx := h x
  unfold lowerCp at hx
  rw [Bool.eq_iff_iff]
  simp only [setHas, List.any, itemHas, isHex, Bool.or_false, Bool.true_and, bne_iff_ne, ne_eq,
    Bool.not_eq_false, Bool.or_eq_true, Bool.and_eq_true, decide_eq_true_eq]
  split at hx <;> omega

theorem setHas_notNL {env : CharEnv} (h : GoodEnv env) (x : Nat) :
    setHas env true [.ch 13, .ch 10, .ch 12] true x = !isNL x := by
  simp only [setHas, List.any, itemHas_ch h x 13 (by omega), itemHas_ch h x 10 (by omega),
    itemHas_ch h x 12 (by omega), isNL]
  cases (x == 13) <;> cases (x == 10) <;> cases (x == 12) <;> rfl

theorem setHas_nl {env : CharEnv} (h : GoodEnv env) (x : Nat) :
    setHas env false [.ch 10, .ch 12, .ch 13] true x = isNL x := by
  simp only [setHas, List.any, itemHas_ch h x 13 (by omega), itemHas_ch h x 10 (by omega),
    itemHas_ch h x 12 (by omega), isNL]
  cases (x == 13) <;> cases (x == 10) <;> cases (x == 12) <;> rfl

theorem setHas_sptab {env : CharEnv} (h : GoodEnv env) (x : Nat) :
    setHas env false [.ch 32, .ch 9] true x = (x == 32 || x == 9) := by
  simp only [setHas, List.any, itemHas_ch h x 32 (by omega), itemHas_ch h x 9 (by omega)]
  cases (x == 32) <;> cases (x == 9) <;> rfl

/-! ### The pieces of the two regular expressions -/

def rxL92 : Rx := .lit 92 true
def rxHex : Rx := .set false [.range 97 102, .range 48 57] true
def rxCRLF : Rx := .seq [.lit 13 true, .lit 10 true]
/-- `NEWLINE = (?:\r\n|(?!\r\n)[\n\f\r])` -/
def rxNL : Rx :=
  .alt [rxCRLF, .seq [.look true true rxCRLF, .set false [.ch 10, .ch 12, .ch 13] true]]
/-- `WS = (?:[ \t]|NEWLINE)` -/
def rxWS : Rx := .alt [.set false [.ch 32, .ch 9] true, rxNL]
/-- `COMMENTS` -/
def rxComment : Rx :=
  .seq [.lit 47 true, .lit 42 true, .rep 0 none true (.notLit 42 true), .rep 1 none true (.lit 42 true),
    .rep 0 none true (.seq [.set true [.ch 47, .ch 42] true, .rep 0 none true (.notLit 42 true),
      .rep 1 none true (.lit 42 true)]), .lit 47 true]
/-- group 1: `(\\[a-f0-9]{1,6}W?)` -/
def rxG1 (w : Rx) : Rx :=
  .group 1 (.seq [rxL92, .rep 1 (some 6) true rxHex, .rep 0 (some 1) true w])
/-- group 2: `(\\[^\r\n\f])` -/
def rxG2 : Rx := .group 2 (.seq [rxL92, .set true [.ch 13, .ch 10, .ch 12] true])
/-- group 3: `(\\\Z)` -/
def rxG3 : Rx := .group 3 (.seq [rxL92, .eos])
/-- group 4: `(\\NEWLINE)` -/
def rxG4 : Rx := .group 4 (.seq [rxL92, rxNL])

/-! ### General engine lemmas -/

theorem runs_look_ahead (env : CharEnv) (s : Str) (neg : Bool) (r : Rx) (i : Nat) (caps : Caps) :
    runs env s (.look true neg r) i caps =
      if (!(runs env s r i caps).isEmpty) != neg then [(i, caps)] else [] := by
  rw [runs]

theorem runsSeq_single (env : CharEnv) (s : Str) (r : Rx) (i : Nat) (caps : Caps) :
    runsSeq env s [r] i caps = runs env s r i caps := by
  rw [runsSeq_cons]
  have : (fun x : Nat × Caps => runsSeq env s [] x.1 x.2) = fun x => [x] := by
    funext x; rw [runsSeq_nil]
  rw [this]; simp

theorem flatMap_singleton_fun {α} (f : α → List α) (h : ∀ x, f x = [x]) :
    ∀ l : List α, l.flatMap f = l
  | [] => rfl
  | x :: l => by rw [List.flatMap_cons, h x, flatMap_singleton_fun f h l]; rfl

/-- A greedy `(...)?`: the body's results first, then the empty iteration. -/
theorem iter_opt (body : Nat → Caps → List (Nat × Caps)) (f pos : Nat) (caps : Caps) :
    iter body 0 (some 1) true (f + 2) 0 pos caps = body pos caps ++ [(pos, caps)] := by
  have h1 : ∀ p' c', iter body 0 (some 1) true (f + 1) 1 p' c' = [(p', c')] := by
    intro p' c'; rw [iter]; simp
  rw [iter]
  simp only [Nat.lt_add_one, if_true, h1, Nat.zero_le, ge_iff_le]
  congr 1
  apply flatMap_singleton_fun
  rintro ⟨p', c'⟩
  simp

theorem runs_opt (env : CharEnv) (s : Str) (r : Rx) (i : Nat) (caps : Caps) :
    runs env s (.rep 0 (some 1) true r) i caps = runs env s r i caps ++ [(i, caps)] := by
  rw [runs]
  exact iter_opt _ _ i caps

theorem charBody_some {s : Str} {P : Nat → Bool} {p x : Nat} (h : s[p]? = some x) (c : Caps) :
    charBody s P p c = if P x then [(p + 1, c)] else [] := by
  unfold charBody; rw [h]

theorem charBody_none {s : Str} {P : Nat → Bool} {p : Nat} (h : s[p]? = none) (c : Caps) :
    charBody s P p c = [] := by
  unfold charBody; rw [h]

/-! ### `NEWLINE` and `WS` -/

/-- Length of the `NEWLINE` unit at position `j`. -/
def nlAt (s : Str) (j : Nat) : Nat :=
  match s[j]? with
  | some c => if c == 13 && s[j + 1]? == some 10 then 2 else if isNL c then 1 else 0
  | none => 0

/-- Length of the `WS` unit at position `j`. -/
def wsAt (s : Str) (j : Nat) : Nat :=
  match s[j]? with
  | some c => if c == 13 && s[j + 1]? == some 10 then 2 else if isCssWs c then 1 else 0
  | none => 0

theorem runs_CRLF {env : CharEnv} (h : GoodEnv env) (s : Str) (j : Nat) (caps : Caps) :
    runs env s rxCRLF j caps =
      if s[j]? = some 13 ∧ s[j + 1]? = some 10 then [(j + 2, caps)] else [] := by
  unfold rxCRLF
  rw [runs_seq, runsSeq_char (isChar_litC h s 13 (by omega)), ]
  cases h1 : s[j]? with
  | none => simp
  | some x =>
    by_cases hx : x = 13
    · subst hx
      simp only [beq_self_eq_true, if_true, true_and]
      rw [runsSeq_single, isChar_litC h s 10 (by omega)]
      cases h2 : s[j + 1]? with
      | none => simp [charBody_none h2]
      | some y =>
        rw [charBody_some h2]
        by_cases hy : y = 10
        · subst hy; simp
        · simp [hy]
    · simp [hx]

theorem runs_NL {env : CharEnv} (h : GoodEnv env) (s : Str) (j : Nat) (caps : Caps) :
    runs env s rxNL j caps = if nlAt s j = 0 then [] else [(j + nlAt s j, caps)] := by
  unfold rxNL
  rw [runs_alt, runsAlt_cons, runsAlt_cons, runsAlt_nil, runs_seq, runsSeq_cons,
    runs_look_ahead, runs_CRLF h]
  unfold nlAt
  cases h1 : s[j]? with
  | none =>
    simp [runsSeq_single, (isChar_set env s false [.ch 10, .ch 12, .ch 13] true) j caps,
      charBody_none h1]
  | some x =>
    by_cases hx : x = 13 ∧ s[j + 1]? = some 10
    · obtain ⟨hx, h2⟩ := hx
      subst hx
      simp [h2]
    · have hx' : ¬ (some x = some 13 ∧ s[j + 1]? = some 10) := by
        intro hh; exact hx ⟨by simpa using hh.1, hh.2⟩
      have hb : (x == 13 && s[j + 1]? == some 10) = false := by
        rw [Bool.eq_false_iff]; intro hh; apply hx
        simpa using hh
      simp only [hx', if_false, List.nil_append, List.isEmpty_nil, Bool.not_true, hb,
        Bool.false_eq_true]
      simp only [show (false != true) = true from rfl, if_true, List.flatMap_cons, List.flatMap_nil,
        List.append_nil]
      rw [runsSeq_single, (isChar_set env s false [.ch 10, .ch 12, .ch 13] true) j caps,
        charBody_some h1, setHas_nl h]
      cases isNL x <;> simp

theorem runs_WS {env : CharEnv} (h : GoodEnv env) (s : Str) (j : Nat) (caps : Caps) :
    runs env s rxWS j caps = if wsAt s j = 0 then [] else [(j + wsAt s j, caps)] := by
  unfold rxWS
  rw [runs_alt, runsAlt_cons, runsAlt_cons, runsAlt_nil, runs_NL h,
    (isChar_set env s false [.ch 32, .ch 9] true) j caps]
  unfold wsAt nlAt
  cases h1 : s[j]? with
  | none => simp [charBody_none h1]
  | some x =>
    rw [charBody_some h1, setHas_sptab h]
    by_cases hb : (x == 13 && s[j + 1]? == some 10) = true
    · have hx : x = 13 := by
        rw [Bool.and_eq_true] at hb; simpa using hb.1
      subst hx
      have h2 : s[j + 1]? = some 10 := by simpa using hb
      simp [h2]
    · have hb' : (x == 13 && s[j + 1]? == some 10) = false := by simpa using hb
      simp only [hb', Bool.false_eq_true, if_false]
      by_cases h32 : x = 32
      · subst h32; simp [isNL, isCssWs]
      · by_cases h9 : x = 9
        · subst h9; simp [isNL, isCssWs]
        · have e : isCssWs x = isNL x := by
            have e1 : (x == 32) = false := by simpa using h32
            have e2 : (x == 9) = false := by simpa using h9
            unfold isCssWs isNL
            rw [e1, e2]
            cases (x == 13) <;> cases (x == 10) <;> cases (x == 12) <;> rfl
          simp [h32, h9, e]

/-! ### `COMMENTS`: a match needs `/*` and a later `*/` -/

/-- An invariant of the end position that every iteration of the body preserves holds of every
    result of the repetition. -/
theorem iter_inv (body : Nat → Caps → List (Nat × Caps)) (mn : Nat) (mx : Option Nat) (g : Bool)
    (Q : Nat → Prop) (hb : ∀ p c q, Q p → q ∈ body p c → Q q.1) :
    ∀ (fuel count pos : Nat) (caps : Caps) (q : Nat × Caps), Q pos →
      q ∈ iter body mn mx g fuel count pos caps → Q q.1
  | 0, _, _, _, _, _, hq => by rw [iter] at hq; cases hq
  | fuel + 1, count, pos, caps, q, hQ, hq => by
    rw [iter_succ] at hq
    have hmore : ∀ q, q ∈ (if canMore mx count = true then
          (body pos caps).flatMap fun x =>
            if (decide (x.1 > pos) || decide (count + 1 < mn)) = true then
              iter body mn mx g fuel (count + 1) x.1 x.2
            else if count + 1 ≥ mn then [(x.1, x.2)] else []
         else []) → Q q.1 := by
      intro q hq
      split at hq
      · rw [List.mem_flatMap] at hq
        obtain ⟨x, hx, hq⟩ := hq
        have hQx := hb pos caps x hQ hx
        split at hq
        · exact iter_inv body mn mx g Q hb fuel (count + 1) x.1 x.2 q hQx hq
        · split at hq
          · simp at hq; subst hq; exact hQx
          · cases hq
      · cases hq
    have hstop : ∀ q, q ∈ (if count ≥ mn then [(pos, caps)] else []) → Q q.1 := by
      intro q hq; split at hq
      · simp at hq; subst hq; exact hQ
      · cases hq
    cases g
    · simp only [Bool.false_eq_true, if_false, List.mem_append] at hq
      rcases hq with hq | hq
      · exact hstop q hq
      · exact hmore q hq
    · simp only [if_true, List.mem_append] at hq
      rcases hq with hq | hq
      · exact hmore q hq
      · exact hstop q hq

theorem mem_runsSeq_cons (env : CharEnv) (s : Str) (r : Rx) (rs : List Rx) (i : Nat) (caps : Caps)
    (q : Nat × Caps) :
    q ∈ runsSeq env s (r :: rs) i caps ↔ ∃ p ∈ runs env s r i caps, q ∈ runsSeq env s rs p.1 p.2 := by
  rw [runsSeq, List.mem_flatMap]

theorem hasCommentClose_of : ∀ (l : Str) (m : Nat), l[m]? = some 42 → l[m + 1]? = some 47 →
    hasCommentClose l = true
  | [], _, h, _ => by simp at h
  | c :: cs, 0, h1, h2 => by
    have hc : c = 42 := by simpa using h1
    have h2' : cs.head? = some 47 := by rw [List.head?_eq_getElem?]; simpa using h2
    simp [hasCommentClose, hc, h2']
  | c :: cs, m + 1, h1, h2 => by
    have := hasCommentClose_of cs m (by simpa using h1) (by simpa using h2)
    simp [hasCommentClose, this]

theorem mem_notStar {env : CharEnv} (s : Str) (i : Nat) (c : Caps) (p : Nat × Caps)
    (hp : p ∈ runs env s (.rep 0 none true (.notLit 42 true)) i c) : i ≤ p.1 := by
  rw [runs_rep_char (isChar_notLit env s 42 true), mem_down] at hp
  omega

theorem mem_stars {env : CharEnv} (h : GoodEnv env) (s : Str) (i : Nat) (c : Caps) (p : Nat × Caps)
    (hp : p ∈ runs env s (.rep 1 none true (.lit 42 true)) i c) :
    i + 1 ≤ p.1 ∧ s[p.1 - 1]? = some 42 := by
  rw [runs_rep_char (isChar_litC h s 42 (by omega)), mem_down] at hp
  obtain ⟨_, h1, h2⟩ := hp
  simp only [room] at h2
  refine ⟨h1, ?_⟩
  obtain ⟨x, hx, hP⟩ := span_inside s (fun x => x == 42) (p.1 - 1 - i) i (by omega)
  have hx42 : x = 42 := by simpa using hP
  rw [show i + (p.1 - 1 - i) = p.1 - 1 by omega, hx42] at hx
  exact hx

/-- Every match of `COMMENTS` at `j` starts with `/*` and contains a later `*/`. -/
theorem commentAt_of_mem {env : CharEnv} (h : GoodEnv env) (s : Str) (j : Nat) (caps : Caps)
    (q : Nat × Caps) (hq : q ∈ runs env s rxComment j caps) : commentAt (s.drop j) = true := by
  unfold rxComment at hq
  rw [runs_seq, runsSeq_char (isChar_litC h s 47 (by omega))] at hq
  cases h0 : s[j]? with
  | none => rw [h0] at hq; cases hq
  | some a =>
    rw [h0] at hq
    simp only at hq
    split at hq
    case isFalse => cases hq
    rename_i ha
    have ha : a = 47 := by simpa using ha
    subst ha
    rw [runsSeq_char (isChar_litC h s 42 (by omega))] at hq
    cases h1 : s[j + 1]? with
    | none => rw [h1] at hq; cases hq
    | some b =>
      rw [h1] at hq
      simp only at hq
      split at hq
      case isFalse => cases hq
      rename_i hb
      have hb : b = 42 := by simpa using hb
      subst hb
      rw [mem_runsSeq_cons] at hq
      obtain ⟨p3, hp3, hq⟩ := hq
      have h3 := mem_notStar s _ _ p3 hp3
      rw [mem_runsSeq_cons] at hq
      obtain ⟨p4, hp4, hq⟩ := hq
      obtain ⟨h4, h4'⟩ := mem_stars h s _ _ p4 hp4
      rw [mem_runsSeq_cons] at hq
      obtain ⟨p5, hp5, hq⟩ := hq
      have h5 : j + 3 ≤ p5.1 ∧ s[p5.1 - 1]? = some 42 := by
        rw [runs] at hp5
        refine iter_inv _ _ _ _ (fun e => j + 3 ≤ e ∧ s[e - 1]? = some 42) ?_ _ _ _ _ _
          ⟨by omega, h4'⟩ hp5
        intro p c q hQ hq
        rw [runs_seq, runsSeq_char (isChar_set env s true [.ch 47, .ch 42] true)] at hq
        cases hs : s[p]? with
        | none => rw [hs] at hq; cases hq
        | some y =>
          rw [hs] at hq
          simp only at hq
          split at hq
          case isFalse => cases hq
          rw [mem_runsSeq_cons] at hq
          obtain ⟨p6, hp6, hq⟩ := hq
          have h6 := mem_notStar s _ _ p6 hp6
          rw [runsSeq_single] at hq
          obtain ⟨h7, h7'⟩ := mem_stars h s _ _ q hq
          exact ⟨by omega, h7'⟩
      rw [runsSeq_char (isChar_litC h s 47 (by omega))] at hq
      cases h8 : s[p5.1]? with
      | none => rw [h8] at hq; cases hq
      | some z =>
        rw [h8] at hq
        simp only at hq
        split at hq
        case isFalse => cases hq
        rename_i hz
        have hz : z = 47 := by simpa using hz
        subst hz
        have hj : j < s.length := by
          rcases Nat.lt_or_ge j s.length with h' | h'
          · exact h'
          · rw [List.getElem?_eq_none h'] at h0; cases h0
        have hj1 : j + 1 < s.length := by
          rcases Nat.lt_or_ge (j + 1) s.length with h' | h'
          · exact h'
          · rw [List.getElem?_eq_none h'] at h1; cases h1
        have e0 : s[j] = 47 := by
          rw [List.getElem?_eq_getElem hj] at h0; exact Option.some.inj h0
        have e1 : s[j + 1] = 42 := by
          rw [List.getElem?_eq_getElem hj1] at h1; exact Option.some.inj h1
        rw [List.drop_eq_getElem_cons hj, List.drop_eq_getElem_cons hj1, e0, e1]
        have hc := hasCommentClose_of (s.drop (j + 1 + 1)) (p5.1 - 1 - (j + 2))
          (by rw [List.getElem?_drop, ← h5.2]; congr 1; omega)
          (by rw [List.getElem?_drop, ← h8]; congr 1; omega)
        simp [commentAt, hc]

/-- Where there is no complete comment, `COMMENTS` does not match. -/
theorem runs_comment_nil {env : CharEnv} (h : GoodEnv env) (s : Str) (j : Nat) (caps : Caps)
    (hc : commentAt (s.drop j) = false) : runs env s rxComment j caps = [] := by
  rw [List.eq_nil_iff_forall_not_mem]
  intro q hq
  rw [commentAt_of_mem h s j caps q hq] at hc
  cases hc

/-! ### The hex run -/

theorem hexRun_eq : ∀ (n : Nat) (l : Str), hexRun n l = min (l.takeWhile isHex).length n
  | 0, l => by simp [hexRun]
  | n + 1, [] => by simp [hexRun]
  | n + 1, c :: cs => by
    rw [hexRun, List.takeWhile_cons]
    cases hc : isHex c
    · simp
    · simp [hexRun_eq n cs]

theorem room_hex (s : Str) (j : Nat) : room s isHex (some 6) 0 j = hexRun 6 (s.drop j) := by
  simp only [room, spanLen, hexRun_eq]

theorem isChar_hex {env : CharEnv} (h : GoodEnv env) (s : Str) : IsChar env s rxHex isHex :=
  isChar_congr (isChar_set env s false [.range 97 102, .range 48 57] true) (setHas_hex h)

theorem isChar_L92 {env : CharEnv} (h : GoodEnv env) (s : Str) : IsChar env s rxL92 (fun x => x == 92) :=
  isChar_litC h s 92 (by omega)

theorem head?_append_some {α} {l1 l2 : List α} {a : α} (h : l1.head? = some a) :
    (l1 ++ l2).head? = some a := by
  cases l1 with
  | nil => cases h
  | cons x t => simpa using h

theorem lt_of_getElem?_some {s : Str} {i x : Nat} (h : s[i]? = some x) : i < s.length := by
  rcases Nat.lt_or_ge i s.length with h' | h'
  · exact h'
  · rw [List.getElem?_eq_none h'] at h; cases h

theorem drop_of_getElem? {s : Str} {i x : Nat} (h : s[i]? = some x) :
    s.drop i = x :: s.drop (i + 1) := by
  have hlt := lt_of_getElem?_some h
  rw [List.drop_eq_getElem_cons hlt]
  rw [List.getElem?_eq_getElem hlt] at h
  rw [Option.some.inj h]

/-! ### The four groups at a position -/

/-- No alternative matches where there is no backslash. -/
theorem runs_group_L92_nil {env : CharEnv} (h : GoodEnv env) (s : Str) (n : Nat) (rs : List Rx)
    (i : Nat) (caps : Caps) (h0 : s[i]? ≠ some 92) :
    runs env s (.group n (.seq (rxL92 :: rs))) i caps = [] := by
  rw [runs_group, runs_seq, runsSeq_char (isChar_L92 h s)]
  cases hx : s[i]? with
  | none => rfl
  | some x =>
    have : x ≠ 92 := by intro e; rw [hx, e] at h0; exact h0 rfl
    simp [this]

/-- Group 1 (`\\` hex{1,6} `w`?) where a hex digit follows the backslash: the digit run is maximal
    (up to 6), then the first result of `w?`. -/
theorem head_G1 {env : CharEnv} (h : GoodEnv env) (s : Str) (w : Rx) (i d e : Nat)
    (h0 : s[i]? = some 92) (h1 : s[i + 1]? = some d) (hd : isHex d = true)
    (hw : (runs env s w (i + 1 + hexRun 6 (s.drop (i + 1))) [] ++
            [(i + 1 + hexRun 6 (s.drop (i + 1)), [])]).head? = some (e, [])) :
    (runs env s (rxG1 w) i []).head? = some (e, [(1, i, e)]) := by
  have hk : 1 ≤ hexRun 6 (s.drop (i + 1)) := by
    rw [drop_of_getElem? h1, hexRun, hd]; simp
  unfold rxG1
  rw [runs_group, runs_seq, runsSeq_char (isChar_L92 h s), h0]
  simp only [beq_self_eq_true, if_true]
  rw [runsSeq_cons, runs_rep_char (isChar_hex h s), room_hex]
  generalize hexRun 6 (s.drop (i + 1)) = k at hw hk
  rw [show i + 1 + k = (i + k) + 1 by omega, down_cons [] (by omega), List.flatMap_cons]
  simp only
  rw [runsSeq_single, runs_opt, List.head?_map]
  rw [show i + 1 + k = (i + k) + 1 by omega] at hw
  rw [head?_append_some hw]
  rfl

/-- Group 1 fails where no hex digit follows the backslash. -/
theorem runs_G1_nil {env : CharEnv} (h : GoodEnv env) (s : Str) (w : Rx) (i : Nat) (caps : Caps)
    (h1 : ∀ d, s[i + 1]? = some d → isHex d = false) : runs env s (rxG1 w) i caps = [] := by
  have hroom : room s isHex (some 6) 0 (i + 1) = 0 := by
    simp only [room]
    cases hx : s[i + 1]? with
    | none => rw [spanLen_of_none hx]; rfl
    | some d => rw [spanLen_of_not hx (h1 d hx)]; rfl
  have hrest : runsSeq env s [.rep 1 (some 6) true rxHex, .rep 0 (some 1) true w] (i + 1) caps = [] := by
    rw [runsSeq_cons, runs_rep_char (isChar_hex h s), hroom, down_empty caps (by omega)]
    rfl
  unfold rxG1
  rw [runs_group, runs_seq, runsSeq_char (isChar_L92 h s)]
  cases hx : s[i]? with
  | none => rfl
  | some x =>
    simp only
    split
    · rw [hrest]; rfl
    · rfl

theorem runs_G2 {env : CharEnv} (h : GoodEnv env) (s : Str) (i : Nat) (h0 : s[i]? = some 92) :
    runs env s rxG2 i [] =
      match s[i + 1]? with
      | some d => if isNL d then [] else [(i + 2, [(2, i, i + 2)])]
      | none => [] := by
  unfold rxG2
  rw [runs_group, runs_seq, runsSeq_char (isChar_L92 h s), h0]
  simp only [beq_self_eq_true, if_true]
  rw [runsSeq_single, (isChar_set env s true [.ch 13, .ch 10, .ch 12] true) (i + 1) []]
  cases hx : s[i + 1]? with
  | none => rw [charBody_none hx]; rfl
  | some d =>
    rw [charBody_some hx, setHas_notNL h]
    cases hn : isNL d <;> simp [hn]

theorem runs_G3 {env : CharEnv} (h : GoodEnv env) (s : Str) (i : Nat) (h0 : s[i]? = some 92) :
    runs env s rxG3 i [] = if i + 1 = s.length then [(i + 1, [(3, i, i + 1)])] else [] := by
  unfold rxG3
  rw [runs_group, runs_seq, runsSeq_char (isChar_L92 h s), h0]
  simp only [beq_self_eq_true, if_true]
  rw [runsSeq_single, runs_eos]
  split <;> rfl

theorem runs_G4 {env : CharEnv} (h : GoodEnv env) (s : Str) (i : Nat) (h0 : s[i]? = some 92) :
    runs env s rxG4 i [] =
      if nlAt s (i + 1) = 0 then []
      else [(i + 1 + nlAt s (i + 1), [(4, i, i + 1 + nlAt s (i + 1))])] := by
  unfold rxG4
  rw [runs_group, runs_seq, runsSeq_char (isChar_L92 h s), h0]
  simp only [beq_self_eq_true, if_true]
  rw [runsSeq_single, runs_NL h]
  split <;> rfl

end Refine
end SoupVerif
