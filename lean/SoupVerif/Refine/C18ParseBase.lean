/-
  Helpers for `Properties/C18Parse.lean`: `:in-range` / `:out-of-range` from the selector TEXT and the
  attribute STRINGS.

  Spec-level vocabulary (nothing here mentions a regular expression, `parseValue` or the IR):

    * `RangeType`            the seven `type` keywords of a range input, `RangeType.name`;
    * `RVal`                 what a valid string of such a type denotes: a calendar day, a month, an ISO week,
                             a time of day, a local date-time, a decimal number `(-1)^neg · mant · 10^exp`;
    * `ValidStr ty s x`      "`s` is a valid HTML string of type `ty` and denotes `x`" — `Spec.validDateStr`,
                             `Spec.validMonthStr`, `Spec.validWeekStr`, `Spec.validTimeStr`,
                             `Spec.validDateTimeStr`, `Spec.numShape` (`Spec/Calendar.lean`);
    * `RVal.lt`              the chronological / numeric order: day numbers, months since year 0, the day number
                             of the Monday of the week, minutes since midnight, absolute minutes, decimal value;
    * `Reads ty a r`         the reading `r : Option RVal` of an attribute `a : Option Str`: `some x` when the
                             attribute is present and a valid string denoting `x`, `none` when it is absent or
                             invalid (`reads_exists`, `reads_unique`: every attribute has exactly one reading);
    * `WeekGuard ty a`       the guard of `C18.week_valid_partial`, on the string: for `type=week`, the string does
                             not ask for week 53 of a year whose 31 December lies in ISO week 1 of the next year.

  Bridges to the model (used by `Properties/C18Parse.lean`, not visible in its statements):

    * `parse_of_valid`       `ValidStr ty s x → parseValue ty.name s = some (toP x)`  (no guard needed);
    * `valid_of_parse`       the converse, under `WeekGuard`;
    * `ltP_iff_lt`           `ltP (toP x) (toP x') ↔ RVal.lt x x'` on valid values of one type
                             (`C18.order_*_mono`, `C18.ltP_num_spec`);
    * `parseValueE_of_reads` `Reads ty a r → WeekGuard ty a → parseValueE ty.name (a.map .str) = .ok (r.map toP)`;
    * `outOfRange_transfer`  `Spec.OutOfRange` with the model's order on the parsed values =
                             `Spec.OutOfRange RVal.lt` on the readings.
-/
import SoupVerif.Properties.C18Range
import SoupVerif.Properties.C11
namespace SoupVerif
namespace Refine.C18Parse
open Inputs

/-! ## Vocabulary -/

/-- The `type` keywords of `<input>` for which `:in-range` / `:out-of-range` are defined. -/
inductive RangeType where
  | date | month | week | time | datetimeLocal | number | range
  deriving DecidableEq, Repr

/-- The keyword (lower case). -/
def RangeType.name : RangeType → String
  | .date => "date"
  | .month => "month"
  | .week => "week"
  | .time => "time"
  | .datetimeLocal => "datetime-local"
  | .number => "number"
  | .range => "range"

/-- What a valid value string denotes. -/
inductive RVal where
  /-- the calendar day `y-m-d` -/
  | date (y m d : Nat)
  /-- the month `y-m` -/
  | month (y m : Nat)
  /-- ISO week `w` of ISO year `y` -/
  | week (y w : Nat)
  /-- the time of day `h:mi` -/
  | time (h mi : Nat)
  /-- the local date-time `y-m-d h:mi` -/
  | datetime (y m d h mi : Nat)
  /-- the decimal number `(-1)^neg · mant · 10^exp` -/
  | num (neg : Bool) (mant : Nat) (exp : Int)
  deriving Repr

/-- "`s` is a valid HTML string of type `ty`, denoting `x`" (the grammars and calendar of `Spec/Calendar.lean`). -/
def ValidStr : RangeType → Str → RVal → Prop
  | .date, s, .date y m d => Spec.validDateStr s y m d
  | .month, s, .month y m => Spec.validMonthStr s y m
  | .week, s, .week y w => Spec.validWeekStr s y w
  | .time, s, .time h mi => Spec.validTimeStr s h mi
  | .datetimeLocal, s, .datetime y m d h mi => Spec.validDateTimeStr s y m d h mi
  | .number, s, .num neg mant exp => Spec.numShape s neg mant exp
  | .range, s, .num neg mant exp => Spec.numShape s neg mant exp
  | _, _, _ => False

/-- The integer `(-1)^neg · mant · 10^(exp - k)` (for `k ≤ exp`): the decimal scaled by `10^(-k)`. -/
def decScaled (neg : Bool) (mant : Nat) (exp k : Int) : Int :=
  (if neg then -1 else 1) * ((mant : Int) * 10 ^ (exp - k).toNat)

/-- Chronological / numeric order of the denoted values.
    Days: by day number (days since 0001-01-01).  Months: by `12·y + m`.  Weeks: by the day number of their
    Monday.  Times: by minutes since midnight.  Local date-times: by minutes since 0001-01-01 00:00.
    Numbers: by value (both decimals scaled to the smaller of the two exponents). -/
def RVal.lt : RVal → RVal → Prop
  | .date y1 m1 d1, .date y2 m2 d2 => Spec.dayNumber y1 m1 d1 < Spec.dayNumber y2 m2 d2
  | .month y1 m1, .month y2 m2 => y1 * 12 + m1 < y2 * 12 + m2
  | .week y1 w1, .week y2 w2 =>
    Spec.week1Monday y1 + 7 * (w1 - 1) < Spec.week1Monday y2 + 7 * (w2 - 1)
  | .time h1 i1, .time h2 i2 => h1 * 60 + i1 < h2 * 60 + i2
  | .datetime y1 m1 d1 h1 i1, .datetime y2 m2 d2 h2 i2 =>
    Spec.dayNumber y1 m1 d1 * 1440 + h1 * 60 + i1 < Spec.dayNumber y2 m2 d2 * 1440 + h2 * 60 + i2
  | .num n1 m1 e1, .num n2 m2 e2 =>
    decScaled n1 m1 e1 (min e1 e2) < decScaled n2 m2 e2 (min e1 e2)
  | _, _ => False

/-- The reading of an attribute (`none` = the element does not carry it): `some x` when it is a valid string
    denoting `x`, `none` when it is absent or not a valid string. -/
def Reads (ty : RangeType) (a : Option Str) (r : Option RVal) : Prop :=
  match r with
  | some x => ∃ s, a = some s ∧ ValidStr ty s x
  | none => ∀ s, a = some s → ∀ x, ¬ ValidStr ty s x

/-- The guard of `C18.week_valid_partial`, stated on the attribute string: for `type=week`, whatever
    `YYYY…-Www` shape the string has, it is not the case that 31 December of `y` lies in ISO week 1 of `y+1`
    and `w = 53`.  (For the other six types the guard is empty.) -/
def WeekGuard (ty : RangeType) (a : Option Str) : Prop :=
  ty = .week → ∀ s, a = some s → ∀ y w, Spec.weekShape s y w → ¬ (Spec.dec31InNextWeek1 y ∧ w = 53)

theorem weekGuard_of_ne (ty : RangeType) (a : Option Str) (h : ty ≠ .week) : WeekGuard ty a :=
  fun h' => absurd h' h

theorem weekGuard_none (ty : RangeType) : WeekGuard ty none := fun _ s h => by cases h

/-! ## To the model -/

/-- The model's value for a denoted value. -/
def toP : RVal → PVal
  | .date y m d => .ints [y, m, d]
  | .month y m => .ints [y, m]
  | .week y w => .ints [y, w]
  | .time h mi => .ints [h, mi]
  | .datetime y m d h mi => .ints [y, m, d, h, mi]
  | .num neg mant exp => .num neg mant exp

theorem name_time_iff (ty : RangeType) : ty.name.toStr = "time".toStr ↔ ty = .time := by
  cases ty <;> decide

/-- A valid string is accepted by `parse_value`, with the value it denotes (weeks included: the code never
    rejects a genuine ISO week). -/
theorem parse_of_valid (ty : RangeType) (s : Str) (x : RVal) (h : ValidStr ty s x) :
    parseValue ty.name.toStr s = some (toP x) := by
  cases ty <;> cases x <;> simp only [ValidStr] at h
  · exact (C18.parse_date_spec s _).2 ⟨_, _, _, h, rfl⟩
  · exact (C18.parse_month_spec s _).2 ⟨_, _, h, rfl⟩
  · exact C18.parse_week_never_rejects_valid s _ _ h
  · exact (C18.parse_time_spec s _).2 ⟨_, _, h, rfl⟩
  · exact (C18.parse_datetime_spec s _).2 ⟨_, _, _, _, _, h, rfl⟩
  · exact ((C18.parse_number_spec s _).1).2 ⟨_, _, _, h, rfl⟩
  · exact ((C18.parse_number_spec s _).2).2 ⟨_, _, _, h, rfl⟩

/-- Conversely — for weeks under the guard of `week_valid_partial`. -/
theorem valid_of_parse (ty : RangeType) (s : Str) (v : PVal) (hg : WeekGuard ty (some s))
    (h : parseValue ty.name.toStr s = some v) : ∃ x, ValidStr ty s x ∧ v = toP x := by
  cases ty
  · obtain ⟨y, m, d, hv, rfl⟩ := (C18.parse_date_spec s v).1 h
    exact ⟨.date y m d, hv, rfl⟩
  · obtain ⟨y, m, hv, rfl⟩ := (C18.parse_month_spec s v).1 h
    exact ⟨.month y m, hv, rfl⟩
  · have hg' : ∀ y, Inputs.shapeWeek s = some (y, 53) → ¬ Spec.dec31InNextWeek1 y := by
      intro y hy hx
      exact hg rfl s rfl y 53 ((Inputs.shapeWeek_iff s y 53).1 hy) ⟨hx, rfl⟩
    obtain ⟨y, w, hv, rfl⟩ := (C18.parse_week_valid_partial s v hg').1 h
    exact ⟨.week y w, hv, rfl⟩
  · obtain ⟨hh, mi, hv, rfl⟩ := (C18.parse_time_spec s v).1 h
    exact ⟨.time hh mi, hv, rfl⟩
  · obtain ⟨y, m, d, hh, mi, hv, rfl⟩ := (C18.parse_datetime_spec s v).1 h
    exact ⟨.datetime y m d hh mi, hv, rfl⟩
  · obtain ⟨n, m, e, hv, rfl⟩ := ((C18.parse_number_spec s v).1).1 h
    exact ⟨.num n m e, hv, rfl⟩
  · obtain ⟨n, m, e, hv, rfl⟩ := ((C18.parse_number_spec s v).2).1 h
    exact ⟨.num n m e, hv, rfl⟩

/-- A string has at most one reading. -/
theorem validStr_unique (ty : RangeType) (s : Str) (x x' : RVal) (h : ValidStr ty s x)
    (h' : ValidStr ty s x') : x = x' := by
  have e := (parse_of_valid ty s x h).symm.trans (parse_of_valid ty s x' h')
  cases ty <;> cases x <;> simp only [ValidStr] at h <;> cases x' <;> simp only [ValidStr] at h' <;>
    (simp only [toP, Option.some.injEq, PVal.ints.injEq, PVal.num.injEq, List.cons.injEq, and_true] at e) <;>
    (first | (obtain ⟨rfl, rfl, rfl, rfl, rfl⟩ := e; rfl) | (obtain ⟨rfl, rfl, rfl⟩ := e; rfl)
           | (obtain ⟨rfl, rfl⟩ := e; rfl))

/-- Every attribute has a reading … -/
theorem reads_exists (ty : RangeType) (a : Option Str) : ∃ r, Reads ty a r := by
  by_cases h : ∃ s x, a = some s ∧ ValidStr ty s x
  · obtain ⟨s, x, hs, hx⟩ := h
    exact ⟨some x, s, hs, hx⟩
  · exact ⟨none, fun s hs x hx => h ⟨s, x, hs, hx⟩⟩

/-- … and only one. -/
theorem reads_unique (ty : RangeType) (a : Option Str) (r r' : Option RVal) (h : Reads ty a r)
    (h' : Reads ty a r') : r = r' := by
  cases r with
  | none =>
    cases r' with
    | none => rfl
    | some x' => obtain ⟨s, hs, hx⟩ := h'; exact absurd hx (h s hs x')
  | some x =>
    obtain ⟨s, hs, hx⟩ := h
    cases r' with
    | none => exact absurd hx (h' s hs x)
    | some x' =>
      obtain ⟨s', hs', hx'⟩ := h'
      rw [hs] at hs'; cases hs'
      rw [validStr_unique ty s x x' hx hx']

theorem reads_none_absent (ty : RangeType) : Reads ty none none := fun s h => by cases h

/-- What `match_range` gets from `Inputs.parse_value` for an attribute that is absent or holds a string. -/
theorem parseValueE_of_reads (ty : RangeType) (a : Option Str) (r : Option RVal) (h : Reads ty a r)
    (hg : WeekGuard ty a) :
    parseValueE ty.name.toStr (a.map NVal.str) = .ok (r.map toP) := by
  cases a with
  | none =>
    cases r with
    | none => rfl
    | some x => obtain ⟨s, hs, -⟩ := h; cases hs
  | some s =>
    show Except.ok (parseValue ty.name.toStr s) = _
    cases r with
    | some x =>
      obtain ⟨s', hs, hx⟩ := h
      cases hs
      rw [parse_of_valid ty s x hx]; rfl
    | none =>
      cases hp : parseValue ty.name.toStr s with
      | none => rfl
      | some v =>
        obtain ⟨x, hx, -⟩ := valid_of_parse ty s v hg hp
        exact absurd hx (h s rfl x)

/-! ## The order -/

theorem decScaled_eq_numVal (neg : Bool) (mant : Nat) (exp k : Int) :
    decScaled neg mant exp k = Inputs.numVal neg mant exp k := by
  unfold decScaled Inputs.numVal
  cases neg <;> simp

/-- The scale of the comparison does not matter: any common exponent `k` below both gives the same answer. -/
theorem num_lt_any_scale (n1 : Bool) (m1 : Nat) (e1 : Int) (n2 : Bool) (m2 : Nat) (e2 : Int) (k : Int)
    (hk1 : k ≤ e1) (hk2 : k ≤ e2) :
    RVal.lt (.num n1 m1 e1) (.num n2 m2 e2) ↔ decScaled n1 m1 e1 k < decScaled n2 m2 e2 k := by
  simp only [RVal.lt, decScaled_eq_numVal]
  rw [C18.ltP_num_spec n1 m1 e1 n2 m2 e2 k hk1 hk2,
    C18.ltP_num_spec n1 m1 e1 n2 m2 e2 (min e1 e2) (by omega) (by omega)]

/-- For integers written without exponent: the usual order on integers. -/
theorem num_lt_int (n1 : Bool) (m1 : Nat) (n2 : Bool) (m2 : Nat) :
    RVal.lt (.num n1 m1 0) (.num n2 m2 0) ↔
      (if n1 then -(m1 : Int) else m1) < (if n2 then -(m2 : Int) else m2) := by
  rw [num_lt_any_scale n1 m1 0 n2 m2 0 0 (by omega) (by omega)]
  unfold decScaled
  cases n1 <;> cases n2 <;> simp

/-- The model's comparison of the parsed values is the chronological / numeric order of the denoted values. -/
theorem ltP_iff_lt (ty : RangeType) (s s' : Str) (x x' : RVal) (h : ValidStr ty s x) (h' : ValidStr ty s' x') :
    Inputs.ltP (toP x) (toP x') = true ↔ RVal.lt x x' := by
  cases ty <;> cases x <;> simp only [ValidStr] at h <;> cases x' <;> simp only [ValidStr] at h'
  · exact C18.order_date_mono _ _ _ _ _ _ h.2 h'.2
  · obtain ⟨-, -, a1, b1⟩ := h
    obtain ⟨-, -, a2, b2⟩ := h'
    exact C18.order_month_mono _ _ _ _ a1 b1 a2 b2
  · obtain ⟨-, y1, a1, b1⟩ := h
    obtain ⟨-, y2, a2, b2⟩ := h'
    exact C18.order_week_mono _ _ _ _ y1 y2 a1 b1 a2 b2
  · exact C18.order_time_mono _ _ _ _ h.2.2 h'.2.2
  · obtain ⟨-, v1, hh1, hi1⟩ := h
    obtain ⟨-, v2, hh2, hi2⟩ := h'
    exact C18.order_datetime_mono _ _ _ _ _ _ _ _ _ _ v1 v2 hh1 hi1 hh2 hi2
  · simp only [toP, RVal.lt, decScaled_eq_numVal]
    exact (C18.ltP_num_spec _ _ _ _ _ _ _ (by omega) (by omega)).symm
  · simp only [toP, RVal.lt, decScaled_eq_numVal]
    exact (C18.ltP_num_spec _ _ _ _ _ _ _ (by omega) (by omega)).symm

/-- `Spec.OutOfRange` only looks at the order among the values that are present. -/
theorem outOfRange_congr {α β : Type} (f : α → β) (lt : α → α → Prop) (lt' : β → β → Prop) (P : α → Prop)
    (hlt : ∀ a b, P a → P b → (lt' (f a) (f b) ↔ lt a b)) (w w' : Prop) (hw : w' ↔ w)
    (mn mx v : Option α) (hmn : ∀ a, mn = some a → P a) (hmx : ∀ a, mx = some a → P a)
    (hv : ∀ a, v = some a → P a) :
    Spec.OutOfRange lt' w' (mn.map f) (mx.map f) (v.map f) ↔ Spec.OutOfRange lt w mn mx v := by
  cases v with
  | none => simp [Spec.OutOfRange]
  | some x =>
    have px := hv x rfl
    cases mn with
    | none =>
      cases mx with
      | none => simp [Spec.OutOfRange]
      | some b => simp [Spec.OutOfRange, hlt b x (hmx b rfl) px]
    | some a =>
      have pa := hmn a rfl
      cases mx with
      | none => simp [Spec.OutOfRange, hlt x a px pa]
      | some b =>
        have pb := hmx b rfl
        simp only [Spec.OutOfRange, Option.map_some, hlt b a pb pa, hlt b x pb px, hlt x a px pa, hw]

/-- The model's out-of-range test on the parsed values = out of range for the chronological / numeric order on
    the readings. -/
theorem outOfRange_transfer (ty : RangeType) (aMn aMx aV : Option Str) (mn mx v : Option RVal)
    (rmn : Reads ty aMn mn) (rmx : Reads ty aMx mx) (rv : Reads ty aV v) :
    Spec.OutOfRange C18.ltV (ty.name.toStr = "time".toStr) (mn.map toP) (mx.map toP) (v.map toP) ↔
      Spec.OutOfRange RVal.lt (ty = .time) mn mx v := by
  apply outOfRange_congr toP RVal.lt C18.ltV (fun x => ∃ s, ValidStr ty s x)
  · rintro a b ⟨s, hs⟩ ⟨s', hs'⟩
    exact ltP_iff_lt ty s s' a b hs hs'
  · exact name_time_iff ty
  · rintro a rfl; obtain ⟨s, -, hs⟩ := rmn; exact ⟨s, hs⟩
  · rintro a rfl; obtain ⟨s, -, hs⟩ := rmx; exact ⟨s, hs⟩
  · rintro a rfl; obtain ⟨s, -, hs⟩ := rv; exact ⟨s, hs⟩

/-! ## Case folding of the `type` keyword -/

/-- The engine's case folding identifies what ASCII lower-casing identifies (true of `asciiEnv` and of
    `pyFoldEnv`, whose four extra identifications concern non-ASCII code points). -/
def FoldsAscii (env : CharEnv) : Prop := ∀ x y, lowerCp x = lowerCp y → env.fold x = env.fold y

theorem foldsAscii_ascii : FoldsAscii asciiEnv := fun _ _ h => h

theorem foldsAscii_py : FoldsAscii pyFoldEnv := by
  intro x y h
  show (match foldSpecials.lookup x with | some a => a | none => lowerCp x) =
    (match foldSpecials.lookup y with | some a => a | none => lowerCp y)
  by_cases hx : x = 304 ∨ x = 305 ∨ x = 383 ∨ x = 8490
  · have : y = x := by
      unfold lowerCp at h
      rcases hx with rfl | rfl | rfl | rfl <;> (simp at h; split at h <;> omega)
    rw [this]
  · by_cases hy : y = 304 ∨ y = 305 ∨ y = 383 ∨ y = 8490
    · have : x = y := by
        unfold lowerCp at h
        rcases hy with rfl | rfl | rfl | rfl <;> (simp at h; split at h <;> omega)
      rw [this]
    · have lx : foldSpecials.lookup x = none := by
        simp only [foldSpecials, List.lookup]
        have h1 : (x == 304) = false := by simp; omega
        have h2 : (x == 305) = false := by simp; omega
        have h3 : (x == 383) = false := by simp; omega
        have h4 : (x == 8490) = false := by simp; omega
        simp [h1, h2, h3, h4]
      have ly : foldSpecials.lookup y = none := by
        simp only [foldSpecials, List.lookup]
        have h1 : (y == 304) = false := by simp; omega
        have h2 : (y == 305) = false := by simp; omega
        have h3 : (y == 383) = false := by simp; omega
        have h4 : (y == 8490) = false := by simp; omega
        simp [h1, h2, h3, h4]
      rw [lx, ly]; exact h

/-- A string that lower-cases to the (lower-case) literal passes the case-insensitive literal test. -/
theorem litsEq_of_lower (env : CharEnv) (hfold : FoldsAscii env) :
    ∀ (v s : Str), lower s = lower v → C11.litsEq env true v s = true
  | [], [] => fun _ => rfl
  | [], _ :: _ => fun h => by simp [lower] at h
  | _ :: _, [] => fun h => by simp [lower] at h
  | c :: v, x :: t => fun h => by
    simp only [lower, List.map_cons, List.cons.injEq] at h
    simp only [C11.litsEq, C11.chEq, if_true, Bool.and_eq_true, beq_iff_eq]
    exact ⟨hfold x c h.1, litsEq_of_lower env hfold v t h.2⟩

end Refine.C18Parse
end SoupVerif
