/-
  Helpers for `Properties/C05Parse.lean`: a selector list read at the top level and the same list read inside
  `:is( … )` differ by the implied `*` only (`FLG_PSEUDO` suppresses it), and the implied `*` tests nothing but
  the default namespace.  So without a default namespace the two match the same elements.
-/
import SoupVerif.Refine.C05ParseBase
import SoupVerif.Lemmas.MatchAlgebra
namespace SoupVerif
namespace C05ParseImpl
open SoupVerif.Parser ParserProgress Refine.Compile Spelling
open C09Compile (SComb)
open C09Compile2
open C01Parse (implB implTag)
open C05ParseBase

/-! ## On the IR: the implied `*` on every compound of every complex selector -/

mutual
/-- The implied `*` on the compound and on every compound of its relation chain. -/
def implSel : Sel → Sel
  | .null => .null
  | .mk tag ids classes attrs nth subs relation rt contains lang flags =>
    .mk (implTag false tag) ids classes attrs nth subs (implList relation) rt contains lang flags
def implList : SelList → SelList
  | .mk sels n h => .mk (implSels sels) n h
def implSels : List Sel → List Sel
  | [] => []
  | s :: rest => implSel s :: implSels rest
end

theorem implSels_eq_map (S : List Sel) : implSels S = S.map implSel := by
  induction S with
  | nil => simp [implSels]
  | cons s rest ih => simp [implSels, ih]

theorem matchTagname_star (c : Ctx) (e : Elem) : matchTagname c e ⟨[42], none⟩ = true := by
  have hl : lower [42] = [42] := by decide
  unfold matchTagname
  cases c.isXml <;> simp [hl] <;> (right; decide)

/-- Without a default namespace the implied `*` tests nothing. -/
theorem matchTag_implTag (c : Ctx) (e : Elem) (h : c.nsGet [] = none) (tag : Option SelTag) :
    matchTag c e (implTag false tag) = matchTag c e tag := by
  cases tag with
  | some t => rfl
  | none =>
    show matchTag c e (some ⟨[42], none⟩) = true
    simp only [matchTag, matchNamespace, h, matchTagname_star, Bool.and_self]

theorem headRel_implList (L : SelList) : headRel (implList L) = headRel L := by
  obtain ⟨sels, n, h⟩ := L
  cases sels with
  | nil => simp [implList, implSels, headRel, SelList.sels]
  | cons s rest =>
    cases s <;> simp [implList, implSels, implSel, headRel, SelList.sels, Sel.relType]

theorem nonEmpty_implList (L : SelList) : (implList L).nonEmpty = L.nonEmpty := by
  obtain ⟨sels, n, h⟩ := L
  cases sels <;> simp [implList, implSels, SelList.nonEmpty, SelList.sels]

theorem htmlOnly_nsGet (c : Ctx) :
    Ctx.nsGet { c with namespaces := [("html".toStr, NS_XHTML)], iframeRestrict := true } [] = none := by
  simp [Ctx.nsGet]
  decide

mutual
theorem matchSel_impl : ∀ (s : Sel) (c : Ctx) (l : Loc) (e : Elem), c.nsGet [] = none →
    matchSel c l e (implSel s) = matchSel c l e s
  | .null, c, l, e, _ => by rw [implSel]
  | .mk tag ids classes attrs nth subs relation rt contains lang flags, c, l, e, h => by
    have h5 : ∀ t te, matchList c t te (implList relation) = matchList c t te relation :=
      fun t te => matchList_impl relation c t te h
    rw [implSel]
    unfold matchSel
    rw [matchTag_implTag c e h, nonEmpty_implList, headRel_implList]
    simp only [h5]
theorem matchList_impl : ∀ (L : SelList) (c : Ctx) (l : Loc) (e : Elem), c.nsGet [] = none →
    matchList c l e (implList L) = matchList c l e L
  | .mk sels n hh, c, l, e, h => by
    rw [implList]
    unfold matchList
    have e1 : (implSels sels).isEmpty = sels.isEmpty := by cases sels <;> simp [implSels]
    cases hh with
    | false =>
      simp only [Bool.false_eq_true, if_false, Bool.not_false, Bool.true_or, if_true]
      rw [matchAny_impl sels c l e h, e1]
    | true =>
      simp only [if_true]
      rw [matchAny_impl sels _ l e (htmlOnly_nsGet c), e1]
theorem matchAny_impl : ∀ (S : List Sel) (c : Ctx) (l : Loc) (e : Elem), c.nsGet [] = none →
    matchAny c l e (implSels S) = matchAny c l e S
  | [], c, l, e, _ => by rw [implSels]
  | s :: rest, c, l, e, h => by
    rw [implSels, matchAny_cons, matchAny_cons, matchSel_impl s c l e h, matchAny_impl rest c l e h]
end

/-! ## On the builders -/

mutual
/-- The implied `*` on a builder and on every builder of its `relations`. -/
def implDeep : SelB → SelB
  | .mk tag a b c d e rels g h i j k => .mk (implTag false tag) a b c d e (implDeeps rels) g h i j k
def implDeeps : List SelB → List SelB
  | [] => []
  | x :: rest => implDeep x :: implDeeps rest
end

theorem implDeeps_append : ∀ (xs ys : List SelB), implDeeps (xs ++ ys) = implDeeps xs ++ implDeeps ys
  | [], ys => by simp [implDeeps]
  | x :: xs, ys => by simp [implDeeps, implDeeps_append xs ys]

theorem implDeep_addRelations (b : SelB) (r : List SelB) :
    implDeep (b.addRelations r) = (implDeep b).addRelations (implDeeps r) := by
  cases b
  simp [SelB.addRelations, implDeep, implDeeps_append]

theorem implDeep_setRelType (b : SelB) (r : Rel) : implDeep (b.setRelType r) = (implDeep b).setRelType r := by
  cases b; simp [SelB.setRelType, implDeep]

mutual
theorem size_implDeep : ∀ (b : SelB), (implDeep b).size = b.size
  | .mk tag a b c d e rels g h i j k => by
    rw [implDeep, SelB.size, SelB.size, sizeList_implDeeps rels]
theorem sizeList_implDeeps : ∀ (xs : List SelB), SelB.sizeList (implDeeps xs) = SelB.sizeList xs
  | [] => by rw [implDeeps]
  | x :: xs => by rw [implDeeps, SelB.sizeList, SelB.sizeList, size_implDeep x, sizeList_implDeeps xs]
end

theorem freezeF_implDeep : ∀ (fuel : Nat) (b : SelB),
    SelB.freezeF fuel (implDeep b) = implSel (SelB.freezeF fuel b)
  | 0, b => by cases b; simp [SelB.freezeF, implSel]
  | fuel + 1, .mk tag a b c d e rels g h i j k => by
    rw [implDeep]
    cases k with
    | true => simp [SelB.freezeF, implSel]
    | false =>
      cases rels with
      | nil => simp [SelB.freezeF, implSel, implDeeps, implList, implSels]
      | cons first rest =>
        have := freezeF_implDeep fuel (first.addRelations rest)
        rw [implDeep_addRelations] at this
        simp [SelB.freezeF, implSel, implDeeps, implList, implSels, this]

theorem freeze_implDeep (b : SelB) : (implDeep b).freeze = implSel b.freeze := by
  rw [SelB.freeze, SelB.freeze, size_implDeep, freezeF_implDeep]

/-- A builder that has no relations yet: the deep `*` is the shallow one. -/
theorem implDeep_of_no_rel (b : SelB) (h : b.relations = []) : implDeep b = implB false b := by
  obtain ⟨tag, a, b', c, d, e, rels, g, h', i, j, k⟩ := b
  simp only [SelB.relations] at h
  subst h
  cases tag <;> rfl

/-! ## The loop at the top level and inside `:is()` -/

/-- The state of the loop at the top level (`fl = 0`), from the state inside a pseudo-class (`fl = 1`). -/
def implState (st : LS) : LS :=
  { st with selectors := implDeeps st.selectors, relations := implDeeps st.relations }

theorem relations_addSub (b : SelB) (x : SelList) : (b.addSub x).relations = b.relations := by cases b; rfl
theorem relations_addNth (b : SelB) (x : List NthSel) : (b.addNth x).relations = b.relations := by cases b; rfl
theorem relations_addAttr (b : SelB) (x : AttrSel) : (b.addAttr x).relations = b.relations := by cases b; rfl
theorem relations_addId (b : SelB) (x : Str) : (b.addId x).relations = b.relations := by cases b; rfl
theorem relations_addClass (b : SelB) (x : Str) : (b.addClass x).relations = b.relations := by cases b; rfl
theorem relations_addLang (b : SelB) (x : LangSel) : (b.addLang x).relations = b.relations := by cases b; rfl
theorem relations_addContains (b : SelB) (x : ContainsSel) : (b.addContains x).relations = b.relations := by
  cases b; rfl
theorem relations_orFlags (b : SelB) (x : Nat) : (b.orFlags x).relations = b.relations := by cases b; rfl
theorem relations_setNoMatch (b : SelB) : b.setNoMatch.relations = b.relations := by cases b; rfl
theorem relations_setTag (b : SelB) (t : SelTag) : (b.setTag t).relations = b.relations := by cases b; rfl

theorem relations_plainPseudo (B : Builtins) (n : Str) (b : SelB) :
    (plainPseudo B n b).relations = b.relations := by
  unfold plainPseudo applySimplePseudo
  simp only [apply_ite SelB.relations, relations_addSub, relations_addNth, relations_orFlags,
    relations_setNoMatch, ite_self]

theorem relations_apply (B : Builtins) (it : Item) (b : SelB) : (it.apply B b).relations = b.relations := by
  cases it with
  | id v => rw [Item.apply, relations_addId]
  | cls v => rw [Item.apply, relations_addClass]
  | attr ns a =>
    rw [Item.apply]
    unfold applyAttr attrBuildNs
    cases a.body with
    | none => simp only [apply_ite SelB.relations, relations_addSub, relations_addAttr, ite_self]
    | some x => simp only [apply_ite SelB.relations, relations_addSub, relations_addAttr, ite_self]
  | pseudo n => rw [Item.apply, relations_plainPseudo]
  | fn n l => rw [Item.apply, relations_addSub]
  | nth n c =>
    rw [Item.apply]
    unfold nthBuild
    simp only [apply_ite SelB.relations, relations_addNth, ite_self]
  | nthOf n c l =>
    rw [Item.apply]
    unfold nthBuild
    simp only [apply_ite SelB.relations, relations_addNth, ite_self]
  | dir ltr => rw [Item.apply, dirBuild, relations_addSub]
  | lang vs => rw [Item.apply, relations_addLang]
  | contains own vs => rw [Item.apply, relations_addContains]
  | amp => rw [Item.apply, relations_orFlags]
  | custom n l => rw [Item.apply, relations_addSub]

theorem relations_applyItems (B : Builtins) : ∀ (its : List Item) (b : SelB),
    (applyItems B its b).relations = b.relations
  | [], b => by simp [applyItems]
  | it :: its, b => by rw [applyItems, relations_applyItems B its, relations_apply]

/-- The builder of a compound has no relations (the loop adds them at the combinator). -/
theorem relations_buildOn (B : Builtins) (cp : Compound) : (cp.buildOn B SelB.empty).relations = [] := by
  obtain ⟨tag, items⟩ := cp
  simp only [Compound.buildOn]
  rw [relations_applyItems]
  cases tag <;> rfl

theorem implB_relations (ip : Bool) (b : SelB) : (implB ip b).relations = b.relations := by
  unfold implB
  split
  · rw [relations_setTag]
  · rfl

/-- One combinator after a non-empty slot whose builder has no relations. -/
theorem combStep_impl (c : Nat) (st : LS) (hs : st.hasSelector = true) (hr : st.sel.relations = []) :
    combStepG 0 c (implState st) = implState (combStepG 1 c st) := by
  have h0 : relOf 0 = false := by decide
  have h1 : relOf 1 = false := by decide
  have i0 : ipOf 0 = false := by decide
  have i1 : ipOf 1 = true := by decide
  have e1 : implB true st.sel = st.sel := by unfold implB; simp
  have e2 : implDeep ((implB true st.sel).addRelations st.relations) =
      (implB false st.sel).addRelations (implDeeps st.relations) := by
    rw [e1, implDeep_addRelations, implDeep_of_no_rel _ hr]
  have e3 : ∀ ip, (if (st.sel.tag.isNone && !ip) = true then st.sel.setTag ⟨[42], none⟩ else st.sel) =
      implB ip st.sel := fun ip => rfl
  unfold combStepG combStepF
  simp only [h0, h1, i0, i1, Bool.false_eq_true, if_false, implState, hs, if_true]
  unfold combStep
  simp only [e3]
  by_cases hc : (c == 44) = true
  · simp only [hc, if_true, implDeeps_append, implDeeps, e2]
  · simp only [hc, Bool.false_eq_true, if_false, implDeeps, implDeep_setRelType, e2]

/-- The loop at the top level is the loop inside a pseudo-class with the implied `*` on every finished
    compound (all slots non-empty). -/
theorem foldRest_impl (B : Builtins) : ∀ (rest : List (Nat × Compound)) (st : LS),
    st.hasSelector = true → st.sel.relations = [] → (∀ x ∈ rest, x.2.isEmpty = false) →
    foldRest B 0 rest (implState st) = implState (foldRest B 1 rest st) ∧
      (foldRest B 1 rest st).hasSelector = true ∧ (foldRest B 1 rest st).sel.relations = []
  | [], st, hs, hr, _ => by simp [foldRest, hs, hr]
  | x :: rest, st, hs, hr, hall => by
    rw [foldRest, foldRest, combStep_impl x.1 st hs hr]
    exact foldRest_impl B rest
      { combStepG 1 x.1 st with sel := x.2.buildOn B SelB.empty, hasSelector := !x.2.isEmpty }
      (by simp [hall x (by simp)]) (relations_buildOn B x.2) (fun y hy => hall y (by simp [hy]))

/-- All slots of the list are compounds. -/
def NonEmptyV : SelListV → Prop
  | .mk first rest => first.isEmpty = false ∧ ∀ x ∈ rest, x.2.isEmpty = false

theorem loopState_impl (B : Builtins) (V : SelListV) (h : NonEmptyV V) :
    V.loopState B 0 = implState (V.loopState B 1) ∧ (V.loopState B 1).hasSelector = true ∧
      (V.loopState B 1).sel.relations = [] := by
  obtain ⟨a, ra⟩ := V
  obtain ⟨h1, h2⟩ := h
  have hf : firstSt B 0 a = implState (firstSt B 1 a) := by
    have e0 : ((0 &&& FLG_RELATIVE) != 0) = false := by decide
    have e1 : ((1 &&& FLG_RELATIVE) != 0) = false := by decide
    have e2 : ((0 &&& FLG_HTML) != 0) = ((1 &&& FLG_HTML) != 0) := by decide
    simp only [firstSt, initLS, implState, e0, e1, e2, Bool.false_eq_true, if_false, implDeeps]
  rw [loopState_eq, loopState_eq, hf]
  exact foldRest_impl B ra (firstSt B 1 a) (by simp [firstSt, h1]) (relations_buildOn B a) h2

theorem map_freeze_implDeeps : ∀ (xs : List SelB), (implDeeps xs).map SelB.freeze = implSels (xs.map SelB.freeze)
  | [] => by simp [implDeeps, implSels]
  | x :: xs => by simp [implDeeps, implSels, freeze_implDeep, map_freeze_implDeeps xs]

theorem endSels_impl (st : LS) (hs : st.hasSelector = true) (hr : st.sel.relations = []) :
    endSels 0 (implState st) = implDeeps (endSels 1 st) := by
  have i0 : ipOf 0 = false := by decide
  have i1 : ipOf 1 = true := by decide
  have e1 : implB true st.sel = st.sel := by unfold implB; simp
  simp only [endSels, implState, hs, if_true, i0, i1, implDeeps_append, implDeeps, e1,
    implDeep_addRelations, implDeep_of_no_rel _ hr]

/-- **The alternatives of a list read at the top level are those of the same list read inside `:is()`, with
    the implied `*` on every compound.** -/
theorem endSels_loopState_impl (B : Builtins) (V : SelListV) (h : NonEmptyV V) :
    (endSels 0 (V.loopState B 0)).map SelB.freeze = implSels ((endSels 1 (V.loopState B 1)).map SelB.freeze) := by
  obtain ⟨h1, h2, h3⟩ := loopState_impl B V h
  rw [h1, endSels_impl _ h2 h3, map_freeze_implDeeps]

/-- At the top level every slot of an admissible list is a compound. -/
theorem nonEmptyV_of_ok (L : SSelList) (r : Str) (hok : L.ok 0 r) : NonEmptyV L.value := by
  obtain ⟨a, ra⟩ := L
  rw [SSelList.ok] at hok
  have hrest : ∀ (ra : List (SComb × SCompound)) (b : Bool), restOK 0 b ra r →
      ∀ x ∈ restValue ra, x.2.isEmpty = false := by
    intro ra
    induction ra with
    | nil => intro b _ x hx; simp [restValue] at hx
    | cons y ra ih =>
      intro b hb x hx
      rw [restOK] at hb
      simp only [restValue, List.mem_cons] at hx
      rcases hx with hx | hx
      · subst hx
        rw [SCompound.value_isEmpty]
        cases he : y.2.isEmpty with
        | false => rfl
        | true =>
          have := (hb.2.2.2.1 he).2
          revert this; decide
      · exact ih _ hb.2.2.2.2 x hx
  refine ⟨?_, hrest ra _ hok.2.2⟩
  rw [SCompound.value_isEmpty]
  cases he : a.isEmpty with
  | false => rfl
  | true =>
    have := hok.2.1 he
    revert this; decide

end C05ParseImpl
end SoupVerif
