/-
  Refinement: the fifteen hand-written token scanners of `Model/Pretty.lean` compute, for ALL
  strings `s` and ALL positions `i`, exactly `pattern.match(s, i).end(0)` of the engine model
  (`Rx.matchAt`) on the regular expressions regenerated from `/repo/soupsieve/pretty.py`
  (`Gen.pretty_RE_*`).

  All fifteen token kinds are hand-modelled (none runs the engine), so there are fifteen theorems
  `refine_<kind>`, their bundle `tokens_refine`, and `firstMatch_refine` (the `for k, v in
  TOKENS.items()` loop of the model is the same loop over the generated regexes).

  Environments.  The scanners take a `PrettyEnv` (`\s`, `\d`, `(?i)[a-z]`), the engine a `CharEnv`
  (folding, `\s`, `\d`).  Every theorem is stated for every pair with `Agree env penv`
  (`Refine/PrettyBase.lean`); the instances proved there:
    * `agree_ascii        : Agree asciiEnv Pretty.asciiEnv`
    * `agree_py           : Agree pyFoldEnvNd Pretty.pyEnv`   (Python folding, `\d` = `Nd`)
    * `agree_pyFold_ascii : Agree pyFoldEnv {Pretty.pyEnv with isDigit := ASCII digits}`
    * `agree_pyFold env h : Agree env ⟨env.isSpace, env.isDigit, Pretty.pyEnv.isAlphaI⟩`
                            for every `env` with `env.fold = pyFoldEnv.fold`.
  The regexes without a case-insensitive item (`EMPTY`, the six brackets, `INT`, the two strings,
  `SEP`, `DSEP`) need nothing of `Agree` but `space` / `digit`.

  The statements do not assume that the terminating character (`(`, `=`, `,`, `:`) lies outside the
  preceding class (`\d`, `\s` are parameters): `starThen` gives characters back like the engine.
-/
import SoupVerif.Refine.PrettyBase
import SoupVerif.Generated.Regexes

namespace SoupVerif
namespace PrettyRefine
open Rx RxBasic
open Pretty (PrettyEnv starThen plusThen runLen strBody identStart classBody wordBody scanClass
  scanParam scanEmpty scanLit scanStr scanSepLike scanInt scanKword TokKind Token tokens firstMatch)

/-! ### Shapes of the regenerated regexes -/

theorem class_shape : Gen.pretty_RE_CLASS =
    .seq [.set false [.range 97 122, .ch 95] true,
          .rep 1 none true (.set false [.ch 95, .range 97 122, .cat .digit, .ch 46] true),
          .lit 40 true] := rfl

theorem param_shape : Gen.pretty_RE_PARAM =
    .seq [.set false [.ch 95, .range 97 122] true,
          .rep 1 none true (.set false [.ch 95, .range 97 122, .cat .digit] true),
          .lit 61 true] := rfl

theorem kword_shape : Gen.pretty_RE_KWORD =
    .seq [.set false [.ch 95, .range 97 122] true,
          .rep 1 none true (.set false [.ch 95, .range 97 122, .cat .digit] true)] := rfl

theorem empty_shape : Gen.pretty_RE_EMPTY =
    .alt [.seq [.lit 40 false, .lit 41 false], .seq [.lit 91 false, .lit 93 false],
          .seq [.lit 123 false, .lit 125 false]] := rfl

theorem lstrt_shape : Gen.pretty_RE_LSTRT = .lit 91 false := rfl
theorem dstrt_shape : Gen.pretty_RE_DSTRT = .lit 123 false := rfl
theorem tstrt_shape : Gen.pretty_RE_TSTRT = .lit 40 false := rfl
theorem lend_shape : Gen.pretty_RE_LEND = .lit 93 false := rfl
theorem dend_shape : Gen.pretty_RE_DEND = .lit 125 false := rfl
theorem tend_shape : Gen.pretty_RE_TEND = .lit 41 false := rfl

theorem int_shape : Gen.pretty_RE_INT = .rep 1 none true (.set false [.cat .digit] false) := rfl

theorem sep_shape : Gen.pretty_RE_SEP =
    .seq [.rep 0 none true (.set false [.cat .space] false), .group 1 (.lit 44 false),
          .rep 0 none true (.set false [.cat .space] false)] := rfl

theorem dsep_shape : Gen.pretty_RE_DSEP =
    .seq [.rep 0 none true (.set false [.cat .space] false), .group 1 (.lit 58 false),
          .rep 0 none true (.set false [.cat .space] false)] := rfl

theorem sqstr_shape : Gen.pretty_RE_SQSTR =
    .seq [.lit 39 false, .rep 0 none true (strBodyRx 39), .lit 39 false] := rfl

theorem dqstr_shape : Gen.pretty_RE_DQSTR =
    .seq [.lit 34 false, .rep 0 none true (strBodyRx 34), .lit 34 false] := rfl

/-! ### Generic shapes -/

/-- A one-character literal (`ic = false`). -/
theorem matchAt_lit (env : CharEnv) (penv : PrettyEnv) (ch : Nat) (s : Str) (i : Nat) :
    matchAt env (.lit ch false) s i = (scanLit ch penv (s.drop i)).map (fun n => (i + n, [])) := by
  unfold matchAt
  rw [runs]
  cases hx : s[i]? with
  | none => rw [drop_of_none hx]; rfl
  | some x =>
    rw [(drop_of_some hx).1]
    simp only [scanLit, Bool.false_eq_true, if_false]
    by_cases h : x = ch
    · subst h; simp
    · simp [h]

/-- `A B+ t` with one-character tests `A`, `B` and a literal `t` that only matches itself. -/
theorem matchAt_ident_term (env : CharEnv) (s : Str) (a b : Rx) (A B : Nat → Bool) (t : Nat)
    (ic : Bool) (hA : IsChar env s a A) (hB : IsChar env s b B)
    (ht : ∀ x, (if ic then env.fold x == env.fold t else x == t) = (x == t)) (i : Nat) :
    matchAt env (.seq [a, .rep 1 none true b, .lit t ic]) s i =
      (match s.drop i with
       | [] => none
       | c :: rest => if A c then (plusThen B t rest).map (· + 1) else none).map
        (fun n => (i + n, [])) := by
  unfold matchAt
  rw [runs_seq, runsSeq_char hA]
  cases hx : s[i]? with
  | none => rw [drop_of_none hx]; rfl
  | some x =>
    obtain ⟨hd, hlt⟩ := drop_of_some hx
    rw [hd]
    cases hAx : A x with
    | false => simp [hAx]
    | true =>
      simp only [hAx, if_true]
      rw [runsSeq_cons, runs_rep_char hB]
      simp only [room]
      rw [head_plus_then s B t [] (fun x => runsSeq env s [.lit t ic] x.1 x.2)
        (fun q => (q, [])) ?_ (s.drop (i + 1)) (i + 1) rfl]
      · rw [Option.map_map]
        congr 1
        funext n
        simp only [Function.comp, Prod.mk.injEq, and_true]
        omega
      · intro j
        simp only [runsSeq_lit, ht]
        cases hy : s[j]? with
        | none => simp
        | some y =>
          by_cases hyt : y = t
          · subst hyt; simp
          · simp [hyt]

/-- `A B+` with one-character tests `A`, `B`. -/
theorem matchAt_ident (env : CharEnv) (s : Str) (a b : Rx) (A B : Nat → Bool)
    (hA : IsChar env s a A) (hB : IsChar env s b B) (i : Nat) :
    matchAt env (.seq [a, .rep 1 none true b]) s i =
      (match s.drop i with
       | [] => none
       | c :: rest =>
         if A c then (if 1 ≤ runLen B rest then some (runLen B rest + 1) else none) else none).map
        (fun n => (i + n, [])) := by
  unfold matchAt
  rw [runs_seq, runsSeq_char hA]
  cases hx : s[i]? with
  | none => rw [drop_of_none hx]; rfl
  | some x =>
    obtain ⟨hd, hlt⟩ := drop_of_some hx
    rw [hd]
    cases hAx : A x with
    | false => simp [hAx]
    | true =>
      simp only [hAx, if_true]
      rw [runsSeq_cons, runs_rep_char hB, flatMap_runsSeq_nil, runLen_drop]
      simp only [room]
      by_cases hn : 1 ≤ spanLen s B (i + 1)
      · rw [head_down [] (by omega), if_pos hn]
        simp only [Option.map_some, Option.some.injEq, Prod.mk.injEq, and_true]
        omega
      · rw [down_empty [] (by omega), if_neg hn]; rfl

/-- `\s*(t)\s*`: full result, captures included. -/
theorem matchAt_sepLike (env : CharEnv) (ch : Nat) (s : Str) (i : Nat) :
    matchAt env (.seq [.rep 0 none true (.set false [.cat .space] false), .group 1 (.lit ch false),
        .rep 0 none true (.set false [.cat .space] false)]) s i =
      (starThen env.isSpace ch (s.drop i)).map
        (fun n => (i + n + spanLen s env.isSpace (i + n), [(1, i + n - 1, i + n)])) := by
  have hS : IsChar env s (.set false [.cat .space] false) env.isSpace :=
    isChar_congr (isChar_set env s false [.cat .space] false) (set_space env)
  unfold matchAt
  rw [runs_seq, runsSeq_cons, runs_rep_char hS]
  simp only [room, Nat.add_zero]
  rw [head_star_then s env.isSpace ch []
    (fun x => runsSeq env s [.group 1 (.lit ch false),
      .rep 0 none true (.set false [.cat .space] false)] x.1 x.2)
    (fun q => (q + spanLen s env.isSpace q, [(1, q - 1, q)])) ?_ (s.drop i) i rfl]
  intro j
  simp only []
  rw [runsSeq_cons, runs_group, (isChar_lit env s ch false) j []]
  unfold charBody
  cases hy : s[j]? with
  | none => simp
  | some y =>
    by_cases hyt : y = ch
    · subst hyt
      simp only [Bool.false_eq_true, if_false, beq_self_eq_true, if_true, List.map_cons,
        List.map_nil, List.flatMap_singleton, List.filter_nil]
      rw [runsSeq_cons, runs_rep_char hS, flatMap_runsSeq_nil]
      simp only [room, Nat.add_zero]
      rw [head_down _ (by omega)]
      simp
    · simp [hyt]

/-- `q (?:\\.|[^q\\])* q`. -/
theorem matchAt_str (env : CharEnv) (penv : PrettyEnv) (q : Nat) (hq : q ≠ 92) (s : Str) (i : Nat) :
    matchAt env (.seq [.lit q false, .rep 0 none true (strBodyRx q), .lit q false]) s i =
      (scanStr q penv (s.drop i)).map (fun n => (i + n, [])) := by
  unfold matchAt
  rw [runs_seq, runsSeq_char (isChar_lit env s q false)]
  cases hx : s[i]? with
  | none => rw [drop_of_none hx]; rfl
  | some x =>
    obtain ⟨hd, hlt⟩ := drop_of_some hx
    rw [hd]
    simp only [scanStr, Bool.false_eq_true, if_false]
    by_cases hxq : x = q
    · subst hxq
      simp only [beq_self_eq_true, if_true]
      rw [runsSeq_cons, runs,
        iter_str s x hq (fun p c => runs env s (strBodyRx x) p c)
          (fun y => runsSeq env s [.lit x false] y.1 y.2)
          (fun p c => runs_strBodyRx env s x hq p c) ?_ [] _ 0 (i + 1) (by omega)]
      · cases strBody x (s.drop (i + 1)) with
        | none => rfl
        | some n =>
          simp only [List.head?_cons, Option.map_some, Option.some.injEq, Prod.mk.injEq, and_true]
          omega
      · intro j c
        simp only [runsSeq_lit, Bool.false_eq_true, if_false]
        cases hy : s[j]? with
        | none => simp
        | some y =>
          by_cases hyq : y = x
          · subst hyq; simp
          · simp [hyq]
    · simp [hxq]

/-! ### The fifteen refinements

Each in two forms: the full result of `matchAt` (end and captures) in terms of the scanner, and
the form `Token.scan … = (matchAt …).map (·.1)`. -/

section
variable {env : CharEnv} {penv : PrettyEnv}

theorem matchAt_class (h : Agree env penv) (s : Str) (i : Nat) :
    matchAt env Gen.pretty_RE_CLASS s i = (scanClass penv (s.drop i)).map (fun n => (i + n, [])) := by
  rw [class_shape,
    matchAt_ident_term env s _ _ (identStart penv) (classBody penv) 40 true
      (isChar_congr (isChar_set _ _ _ _ _) (set_identStart1 h))
      (isChar_congr (isChar_set _ _ _ _ _) (set_classBody h))
      (lit_ic h 40 (by simp) true)]
  cases s.drop i <;> rfl

theorem matchAt_param (h : Agree env penv) (s : Str) (i : Nat) :
    matchAt env Gen.pretty_RE_PARAM s i = (scanParam penv (s.drop i)).map (fun n => (i + n, [])) := by
  rw [param_shape,
    matchAt_ident_term env s _ _ (identStart penv) (wordBody penv) 61 true
      (isChar_congr (isChar_set _ _ _ _ _) (set_identStart2 h))
      (isChar_congr (isChar_set _ _ _ _ _) (set_wordBody h))
      (lit_ic h 61 (by simp) true)]
  cases s.drop i <;> rfl

theorem matchAt_kword (h : Agree env penv) (s : Str) (i : Nat) :
    matchAt env Gen.pretty_RE_KWORD s i = (scanKword penv (s.drop i)).map (fun n => (i + n, [])) := by
  rw [kword_shape,
    matchAt_ident env s _ _ (identStart penv) (wordBody penv)
      (isChar_congr (isChar_set _ _ _ _ _) (set_identStart2 h))
      (isChar_congr (isChar_set _ _ _ _ _) (set_wordBody h))]
  cases s.drop i <;> rfl

theorem matchAt_empty (env : CharEnv) (penv : PrettyEnv) (s : Str) (i : Nat) :
    matchAt env Gen.pretty_RE_EMPTY s i = (scanEmpty penv (s.drop i)).map (fun n => (i + n, [])) := by
  rw [empty_shape]
  unfold matchAt
  rw [runs_alt, runsAlt_cons, runsAlt_cons, runsAlt_cons, runsAlt_nil, runs_seq, runs_seq, runs_seq]
  simp only [runsSeq_char (isChar_lit env s _ false), runsSeq_nil, Bool.false_eq_true, if_false]
  cases hx : s[i]? with
  | none => rw [drop_of_none hx]; rfl
  | some x =>
    obtain ⟨hd, hlt⟩ := drop_of_some hx
    rw [hd]
    cases hy : s[i + 1]? with
    | none =>
      rw [drop_of_none hy]
      simp [scanEmpty]
    | some y =>
      rw [(drop_of_some hy).1]
      simp only [scanEmpty, beq_iff_eq]
      by_cases h1 : x = 40 ∧ y = 41
      · obtain ⟨rfl, rfl⟩ := h1; simp
      · by_cases h2 : x = 91 ∧ y = 93
        · obtain ⟨rfl, rfl⟩ := h2; simp
        · by_cases h3 : x = 123 ∧ y = 125
          · obtain ⟨rfl, rfl⟩ := h3; simp
          · have hne : ¬ (x = 40 ∧ y = 41 ∨ x = 91 ∧ y = 93 ∨ x = 123 ∧ y = 125) :=
              fun hh => hh.elim h1 (fun hh => hh.elim h2 h3)
            rw [if_neg hne]
            by_cases a1 : x = 40 <;> by_cases a2 : x = 91 <;> by_cases a3 : x = 123 <;>
              simp_all

theorem matchAt_int (h : Agree env penv) (s : Str) (i : Nat) :
    matchAt env Gen.pretty_RE_INT s i = (scanInt penv (s.drop i)).map (fun n => (i + n, [])) := by
  have hD : IsChar env s (.set false [.cat .digit] false) penv.isDigit :=
    isChar_congr (isChar_set env s false [.cat .digit] false)
      (fun c => by rw [set_digit, h.digit])
  rw [int_shape]
  unfold matchAt scanInt
  rw [runs_rep_char hD, runLen_drop]
  simp only [room]
  by_cases hn : 1 ≤ spanLen s penv.isDigit i
  · rw [head_down [] (by omega), if_pos hn]; rfl
  · rw [down_empty [] (by omega), if_neg hn]; rfl

/-- `RE_SEP` / `RE_DSEP` body, with the captures. -/
theorem matchAt_sepLike_scan (h : Agree env penv) (ch : Nat) (s : Str) (i : Nat) :
    (matchAt env (.seq [.rep 0 none true (.set false [.cat .space] false), .group 1 (.lit ch false),
        .rep 0 none true (.set false [.cat .space] false)]) s i).map (·.1) =
      (scanSepLike ch penv (s.drop i)).map (i + ·) := by
  have hsp : penv.isSpace = env.isSpace := funext h.space
  rw [matchAt_sepLike, scanSepLike, hsp]
  cases starThen env.isSpace ch (s.drop i) with
  | none => rfl
  | some n =>
    simp only [Option.map_some, List.drop_drop, runLen_drop]
    congr 1; omega

end

/-! ### Main theorems -/

section
variable {env : CharEnv} {penv : PrettyEnv}

/-- The regex of each key of `TOKENS`, regenerated from the source. -/
def tokenRx : TokKind → Rx
  | .cls => Gen.pretty_RE_CLASS
  | .param => Gen.pretty_RE_PARAM
  | .empty => Gen.pretty_RE_EMPTY
  | .lstrt => Gen.pretty_RE_LSTRT
  | .dstrt => Gen.pretty_RE_DSTRT
  | .tstrt => Gen.pretty_RE_TSTRT
  | .lend => Gen.pretty_RE_LEND
  | .dend => Gen.pretty_RE_DEND
  | .tend => Gen.pretty_RE_TEND
  | .sqstr => Gen.pretty_RE_SQSTR
  | .sep => Gen.pretty_RE_SEP
  | .dsep => Gen.pretty_RE_DSEP
  | .int => Gen.pretty_RE_INT
  | .kword => Gen.pretty_RE_KWORD
  | .dqstr => Gen.pretty_RE_DQSTR

theorem scan_of_matchAt {rx : Rx} {t : Token} {s : Str} {i : Nat}
    (h : matchAt env rx s i = (t.scanAt penv (s.drop i)).map (fun n => (i + n, ([] : Caps)))) :
    t.scan penv s i = (matchAt env rx s i).map (·.1) := by
  rw [h, Token.scan, Option.map_map]; rfl

theorem refine_class (h : Agree env penv) (s : Str) (i : Nat) :
    (⟨.cls, scanClass⟩ : Token).scan penv s i = (matchAt env Gen.pretty_RE_CLASS s i).map (·.1) :=
  scan_of_matchAt (matchAt_class h s i)

theorem refine_param (h : Agree env penv) (s : Str) (i : Nat) :
    (⟨.param, scanParam⟩ : Token).scan penv s i = (matchAt env Gen.pretty_RE_PARAM s i).map (·.1) :=
  scan_of_matchAt (matchAt_param h s i)

theorem refine_kword (h : Agree env penv) (s : Str) (i : Nat) :
    (⟨.kword, scanKword⟩ : Token).scan penv s i = (matchAt env Gen.pretty_RE_KWORD s i).map (·.1) :=
  scan_of_matchAt (matchAt_kword h s i)

theorem refine_int (h : Agree env penv) (s : Str) (i : Nat) :
    (⟨.int, scanInt⟩ : Token).scan penv s i = (matchAt env Gen.pretty_RE_INT s i).map (·.1) :=
  scan_of_matchAt (matchAt_int h s i)

theorem refine_empty (env : CharEnv) (penv : PrettyEnv) (s : Str) (i : Nat) :
    (⟨.empty, scanEmpty⟩ : Token).scan penv s i = (matchAt env Gen.pretty_RE_EMPTY s i).map (·.1) :=
  scan_of_matchAt (matchAt_empty env penv s i)

theorem refine_lstrt (env : CharEnv) (penv : PrettyEnv) (s : Str) (i : Nat) :
    (⟨.lstrt, scanLit 91⟩ : Token).scan penv s i = (matchAt env Gen.pretty_RE_LSTRT s i).map (·.1) :=
  scan_of_matchAt (by rw [lstrt_shape]; exact matchAt_lit env penv 91 s i)

theorem refine_dstrt (env : CharEnv) (penv : PrettyEnv) (s : Str) (i : Nat) :
    (⟨.dstrt, scanLit 123⟩ : Token).scan penv s i = (matchAt env Gen.pretty_RE_DSTRT s i).map (·.1) :=
  scan_of_matchAt (by rw [dstrt_shape]; exact matchAt_lit env penv 123 s i)

theorem refine_tstrt (env : CharEnv) (penv : PrettyEnv) (s : Str) (i : Nat) :
    (⟨.tstrt, scanLit 40⟩ : Token).scan penv s i = (matchAt env Gen.pretty_RE_TSTRT s i).map (·.1) :=
  scan_of_matchAt (by rw [tstrt_shape]; exact matchAt_lit env penv 40 s i)

theorem refine_lend (env : CharEnv) (penv : PrettyEnv) (s : Str) (i : Nat) :
    (⟨.lend, scanLit 93⟩ : Token).scan penv s i = (matchAt env Gen.pretty_RE_LEND s i).map (·.1) :=
  scan_of_matchAt (by rw [lend_shape]; exact matchAt_lit env penv 93 s i)

theorem refine_dend (env : CharEnv) (penv : PrettyEnv) (s : Str) (i : Nat) :
    (⟨.dend, scanLit 125⟩ : Token).scan penv s i = (matchAt env Gen.pretty_RE_DEND s i).map (·.1) :=
  scan_of_matchAt (by rw [dend_shape]; exact matchAt_lit env penv 125 s i)

theorem refine_tend (env : CharEnv) (penv : PrettyEnv) (s : Str) (i : Nat) :
    (⟨.tend, scanLit 41⟩ : Token).scan penv s i = (matchAt env Gen.pretty_RE_TEND s i).map (·.1) :=
  scan_of_matchAt (by rw [tend_shape]; exact matchAt_lit env penv 41 s i)

theorem refine_sqstr (env : CharEnv) (penv : PrettyEnv) (s : Str) (i : Nat) :
    (⟨.sqstr, scanStr 39⟩ : Token).scan penv s i = (matchAt env Gen.pretty_RE_SQSTR s i).map (·.1) :=
  scan_of_matchAt (by rw [sqstr_shape]; exact matchAt_str env penv 39 (by decide) s i)

theorem refine_dqstr (env : CharEnv) (penv : PrettyEnv) (s : Str) (i : Nat) :
    (⟨.dqstr, scanStr 34⟩ : Token).scan penv s i = (matchAt env Gen.pretty_RE_DQSTR s i).map (·.1) :=
  scan_of_matchAt (by rw [dqstr_shape]; exact matchAt_str env penv 34 (by decide) s i)

theorem refine_sep (h : Agree env penv) (s : Str) (i : Nat) :
    (⟨.sep, scanSepLike 44⟩ : Token).scan penv s i = (matchAt env Gen.pretty_RE_SEP s i).map (·.1) := by
  rw [sep_shape, matchAt_sepLike_scan h]; rfl

theorem refine_dsep (h : Agree env penv) (s : Str) (i : Nat) :
    (⟨.dsep, scanSepLike 58⟩ : Token).scan penv s i = (matchAt env Gen.pretty_RE_DSEP s i).map (·.1) := by
  rw [dsep_shape, matchAt_sepLike_scan h]; rfl

/-- `starThen` ends just after a character `term`. -/
theorem starThen_term (P : Nat → Bool) (term : Nat) :
    ∀ (r : Str) (n : Nat), starThen P term r = some n → 1 ≤ n ∧ r[n - 1]? = some term := by
  intro r
  induction r with
  | nil => intro n h; rw [starThen_nil] at h; cases h
  | cons c rest ih =>
    intro n h
    rw [starThen_cons] at h
    split at h
    · rename_i k hk
      cases h
      by_cases hP : P c = true
      · rw [if_pos hP] at hk
        obtain ⟨h1, h2⟩ := ih k hk
        refine ⟨by omega, ?_⟩
        rw [show k + 1 - 1 = (k - 1) + 1 by omega, List.getElem?_cons_succ]
        exact h2
      · rw [if_neg hP] at hk; cases hk
    · split at h
      · rename_i hct
        cases h
        exact ⟨Nat.le_refl 1, by simp [hct]⟩
      · cases h

/-- `m.group(1)` of `\s*(t)\s*` is one character long and that character is `t`. -/
theorem sepLike_group1 (env : CharEnv) (ch : Nat) (s : Str) (i e : Nat) (caps : Caps)
    (h : matchAt env (.seq [.rep 0 none true (.set false [.cat .space] false),
        .group 1 (.lit ch false), .rep 0 none true (.set false [.cat .space] false)]) s i =
      some (e, caps)) :
    ∃ j, capSpan caps 1 = some (j, j + 1) ∧ s[j]? = some ch ∧ i ≤ j ∧ j < e := by
  rw [matchAt_sepLike] at h
  cases hst : starThen env.isSpace ch (s.drop i) with
  | none => rw [hst] at h; cases h
  | some n =>
    rw [hst] at h
    obtain ⟨h1, h2⟩ := starThen_term _ _ _ _ hst
    simp only [Option.map_some, Option.some.injEq, Prod.mk.injEq] at h
    obtain ⟨he, hc⟩ := h
    subst hc
    refine ⟨i + n - 1, ?_, ?_, by omega, by omega⟩
    · rw [capSpan_cons_self]
      congr 2; omega
    · rw [List.getElem?_drop] at h2
      rw [← h2]; congr 1; omega

/-- `m.group(1)` of `RE_SEP` is one character long and that character is `,` (the model's
    simplification "`m.group(1)` is the constant `','`"). -/
theorem sep_group1 (env : CharEnv) (s : Str) (i e : Nat) (caps : Caps)
    (h : matchAt env Gen.pretty_RE_SEP s i = some (e, caps)) :
    ∃ j, capSpan caps 1 = some (j, j + 1) ∧ s[j]? = some 44 ∧ i ≤ j ∧ j < e :=
  sepLike_group1 env 44 s i e caps (by rw [← sep_shape]; exact h)

/-- `m.group(1)` of `RE_DSEP` is one character long and that character is `:`. -/
theorem dsep_group1 (env : CharEnv) (s : Str) (i e : Nat) (caps : Caps)
    (h : matchAt env Gen.pretty_RE_DSEP s i = some (e, caps)) :
    ∃ j, capSpan caps 1 = some (j, j + 1) ∧ s[j]? = some 58 ∧ i ≤ j ∧ j < e :=
  sepLike_group1 env 58 s i e caps (by rw [← dsep_shape]; exact h)

/-- ALL fifteen scanners of the model's `TOKENS` table against the regenerated regexes. -/
theorem tokens_refine (h : Agree env penv) :
    ∀ t ∈ tokens, ∀ (s : Str) (i : Nat),
      t.scan penv s i = (matchAt env (tokenRx t.kind) s i).map (·.1) := by
  intro t ht s i
  simp only [tokens, List.mem_cons, List.not_mem_nil, or_false] at ht
  rcases ht with rfl | rfl | rfl | rfl | rfl | rfl | rfl | rfl | rfl | rfl | rfl | rfl | rfl |
    rfl | rfl
  · exact refine_class h s i
  · exact refine_param h s i
  · exact refine_empty env penv s i
  · exact refine_lstrt env penv s i
  · exact refine_dstrt env penv s i
  · exact refine_tstrt env penv s i
  · exact refine_lend env penv s i
  · exact refine_dend env penv s i
  · exact refine_tend env penv s i
  · exact refine_sqstr env penv s i
  · exact refine_sep h s i
  · exact refine_dsep h s i
  · exact refine_int h s i
  · exact refine_kword h s i
  · exact refine_dqstr env penv s i

/-- `TOKENS` with the regenerated regexes, in dictionary order. -/
def tokenTable : List (TokKind × Rx) :=
  [(.cls, Gen.pretty_RE_CLASS), (.param, Gen.pretty_RE_PARAM), (.empty, Gen.pretty_RE_EMPTY),
   (.lstrt, Gen.pretty_RE_LSTRT), (.dstrt, Gen.pretty_RE_DSTRT), (.tstrt, Gen.pretty_RE_TSTRT),
   (.lend, Gen.pretty_RE_LEND), (.dend, Gen.pretty_RE_DEND), (.tend, Gen.pretty_RE_TEND),
   (.sqstr, Gen.pretty_RE_SQSTR), (.sep, Gen.pretty_RE_SEP), (.dsep, Gen.pretty_RE_DSEP),
   (.int, Gen.pretty_RE_INT), (.kword, Gen.pretty_RE_KWORD), (.dqstr, Gen.pretty_RE_DQSTR)]

theorem findSome?_congr' {α β : Type} (f g : α → Option β) :
    ∀ (l : List α), (∀ a ∈ l, f a = g a) → l.findSome? f = l.findSome? g
  | [], _ => rfl
  | a :: l, h => by
    rw [List.findSome?_cons, List.findSome?_cons, h a (by simp),
      findSome?_congr' f g l (fun b hb => h b (by simp [hb]))]

/-- The `for k, v in TOKENS.items(): m = v.match(sel, index)` loop of the model is that loop with
    the engine on the regenerated regexes. -/
theorem firstMatch_refine (h : Agree env penv) (s : Str) (i : Nat) :
    firstMatch penv s i =
      tokenTable.findSome? (fun kr => (matchAt env kr.2 s i).map (fun r => (kr.1, r.1))) := by
  have key : ∀ (t : Token), t ∈ tokens →
      (t.scan penv s i).map (fun j => (t.kind, j)) =
        (matchAt env (tokenRx t.kind) s i).map (fun r => (t.kind, r.1)) := by
    intro t ht
    rw [tokens_refine h t ht s i, Option.map_map]; rfl
  unfold firstMatch
  have e : tokenTable = tokens.map (fun t => (t.kind, tokenRx t.kind)) := rfl
  rw [e, List.findSome?_map]
  exact findSome?_congr' _ _ _ key

end

/-! ### Instances -/

/-- The driver's instance (`Pretty.pretty Pretty.pyEnv`): Python's IGNORECASE folding
    (U+0130, U+0131, U+017F, U+212A match `[a-z]`) and `\d` = Unicode `Nd`. -/
theorem firstMatch_refine_py (s : Str) (i : Nat) :
    firstMatch Pretty.pyEnv s i =
      tokenTable.findSome? (fun kr => (matchAt pyFoldEnvNd kr.2 s i).map (fun r => (kr.1, r.1))) :=
  firstMatch_refine agree_py s i

/-- The ASCII instance. -/
theorem firstMatch_refine_ascii (s : Str) (i : Nat) :
    firstMatch Pretty.asciiEnv s i =
      tokenTable.findSome? (fun kr => (matchAt asciiEnv kr.2 s i).map (fun r => (kr.1, r.1))) :=
  firstMatch_refine agree_ascii s i

/-- The engine driver's `pyFoldEnv` (ASCII `\d`). -/
theorem firstMatch_refine_pyFold (s : Str) (i : Nat) :
    firstMatch { Pretty.pyEnv with isDigit := fun c => 48 ≤ c && c ≤ 57 } s i =
      tokenTable.findSome? (fun kr => (matchAt pyFoldEnv kr.2 s i).map (fun r => (kr.1, r.1))) :=
  firstMatch_refine agree_pyFold_ascii s i

/-! ### Sanity: the four special code points

`Pretty.asciiEnv` is NOT Python on `ſab(` (U+017F): Python's `(?i)[a-z_]` matches `ſ`, the engine
under `pyFoldEnv` and the hand model under `Pretty.pyEnv` agree with it; the hand model under
`Pretty.asciiEnv` agrees with the engine under `asciiEnv` only.  `Agree pyFoldEnv Pretty.asciiEnv`
is false (its `alpha` field fails at 383). -/

example : scanClass Pretty.pyEnv [383, 97, 98, 40] = some 4 ∧
    (matchAt pyFoldEnv Gen.pretty_RE_CLASS [383, 97, 98, 40] 0).map (·.1) = some 4 ∧
    (matchAt pyFoldEnvNd Gen.pretty_RE_CLASS [383, 97, 98, 40] 0).map (·.1) = some 4 ∧
    scanClass Pretty.asciiEnv [383, 97, 98, 40] = none ∧
    (matchAt asciiEnv Gen.pretty_RE_CLASS [383, 97, 98, 40] 0).map (·.1) = none := by decide

theorem not_agree_pyFold_ascii : ¬ Agree pyFoldEnv Pretty.asciiEnv := by
  intro h
  have := h.alpha 383
  revert this
  decide

/-- Backtracking: with a `\s` that contains `,` the scanner and the engine still agree (no
    assumption that the terminator lies outside the class is used anywhere). -/
example :
    let env : CharEnv := { asciiEnv with isSpace := fun c => c == 32 || c == 44 }
    let penv : PrettyEnv := { Pretty.asciiEnv with isSpace := fun c => c == 32 || c == 44 }
    (matchAt env Gen.pretty_RE_SEP [32, 44, 44, 32, 97] 0).map (·.1) = some 4 ∧
    (scanSepLike 44 penv [32, 44, 44, 32, 97]) = some 4 := by decide

#print axioms tokens_refine
#print axioms firstMatch_refine
#print axioms firstMatch_refine_py
#print axioms firstMatch_refine_ascii
#print axioms firstMatch_refine_pyFold
#print axioms sep_group1
#print axioms dsep_group1
#print axioms agree_ascii
#print axioms agree_py
#print axioms agree_pyFold

end PrettyRefine
end SoupVerif
