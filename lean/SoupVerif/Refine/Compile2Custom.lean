/-
  Custom selectors `:--name`: the `pseudo_class_custom` token, what the parser loop does with it (look-up
  in the custom map; a source text is compiled — with the name removed from the map — and memoised), and
  the three facts about `Custom.get?` / `erase` / `set` that the invariant of the map needs.
-/
import SoupVerif.Refine.Compile2CombStep
namespace SoupVerif
namespace Refine
namespace Compile
open Rx RxBasic SoupVerif.Parser ParserProgress Escape Spelling
open Ident (rxHead rxStar contStep contLen single IdentFold)

/-! ### The custom map -/

theorem get?_erase_ne (c : Custom) (k k' : Str) (h : k' ≠ k) : (c.erase k).get? k' = c.get? k' := by
  unfold Custom.erase Custom.get?
  induction c with
  | nil => rfl
  | cons e rest ih =>
    simp only [List.filter_cons, List.find?_cons]
    by_cases he : e.1 = k
    · have h1 : (e.1 != k) = false := by simp [he]
      have h2 : (e.1 == k') = false := by rw [he]; simpa using (Ne.symm h)
      simp only [h1, h2, Bool.false_eq_true, if_false]
      exact ih
    · have h1 : (e.1 != k) = true := by simpa using he
      simp only [h1, if_true, List.find?_cons]
      by_cases hk : (e.1 == k') = true
      · simp only [hk]
      · have hk' : (e.1 == k') = false := by simpa using hk
        simp only [hk']
        exact ih

theorem find?_map_set (c : Custom) (k k' : Str) (v : CustomVal) :
    ((c.map (fun e => if e.1 == k then (k, v) else e)).find? (fun e => e.1 == k')).map (·.2) =
      if k' = k then (if c.any (fun e => e.1 == k) then some v else none)
      else (c.find? (fun e => e.1 == k')).map (·.2) := by
  induction c with
  | nil => simp
  | cons e rest ih =>
    simp only [List.map_cons, List.find?_cons, List.any_cons]
    by_cases he : e.1 = k
    · have he' : (e.1 == k) = true := by simpa using he
      simp only [he', if_true, Bool.true_or]
      by_cases hk : k' = k
      · subst hk
        simp
      · have h1 : (k == k') = false := by simpa using (Ne.symm hk)
        have h2 : (e.1 == k') = false := by rw [he]; exact h1
        simp only [h1, h2, if_neg hk]
        simpa [if_neg hk] using ih
    · have he' : (e.1 == k) = false := by simpa using he
      simp only [he', Bool.false_eq_true, if_false, Bool.false_or]
      by_cases hk : (e.1 == k') = true
      · have hkk : k' ≠ k := by
          intro e'; subst e'
          rw [he'] at hk; cases hk
        simp only [hk, if_neg hkk]
      · have hk' : (e.1 == k') = false := by simpa using hk
        simp only [hk']
        exact ih

theorem get?_set (c : Custom) (k k' : Str) (v : CustomVal) :
    (c.set k v).get? k' = if k' = k then some v else c.get? k' := by
  unfold Custom.set Custom.get?
  by_cases ha : c.any (fun e => e.1 == k) = true
  · rw [if_pos ha, find?_map_set, ha]
    simp
  · rw [if_neg ha]
    have hnone : c.find? (fun e => e.1 == k) = none := by
      rw [List.find?_eq_none]
      intro x hx hxk
      exact ha (List.any_eq_true.mpr ⟨x, hx, hxk⟩)
    rw [List.find?_append]
    by_cases hk : k' = k
    · subst hk
      simp [hnone]
    · have h1 : (k == k') = false := by simpa using (Ne.symm hk)
      rw [if_neg hk]
      cases hf : c.find? (fun e => e.1 == k') with
      | some x => simp
      | none => simp [h1]

theorem get?_set_eq (c : Custom) (k : Str) (v : CustomVal) : (c.set k v).get? k = some v := by
  rw [get?_set, if_pos rfl]

theorem get?_set_ne (c : Custom) (k k' : Str) (v : CustomVal) (h : k' ≠ k) :
    (c.set k v).get? k' = c.get? k' := by
  rw [get?_set, if_neg h]

/-! ### The token -/

variable (s : Str)

theorem custom_matchAt {i : Nat} {forms : List (Nat × EscForm)} {r : Str}
    (hd : s.drop i = 58 :: (renderIdentWith ((45, .lit) :: (45, .lit) :: forms) ++ r))
    (hv : validForms ((45, .lit) :: (45, .lit) :: forms) r = true)
    (hh : headOk ((45, .lit) :: (45, .lit) :: forms) = true) (hr : ¬ continuesIdent r) :
    matchAt pyFoldEnv Gen.tok_pseudo_class_custom s i =
      some (i + 1 + (renderIdentWith ((45, .lit) :: (45, .lit) :: forms)).length,
        [(1, i, i + 1 + (renderIdentWith ((45, .lit) :: (45, .lit) :: forms)).length)]) := by
  have h58 := getElem?_of_drop_cons hd
  have hd1 : s.drop (i + 1) = renderIdentWith ((45, .lit) :: (45, .lit) :: forms) ++ r :=
    Ident.drop_succ_of_drop_cons hd
  have hil := lt_of_drop_cons hd
  have hd1' : s.drop (i + 1) = 45 :: 45 :: (renderIdentWith forms ++ r) := by
    rw [hd1, SpellingLemmas.renderIdentWith_cons, SpellingLemmas.renderIdentWith_cons]
    rfl
  have h45a := getElem?_of_drop_cons hd1'
  have h45b := getElem?_of_drop_cons (Ident.drop_succ_of_drop_cons hd1')
  have hscan := C09.scan_any_spelling_ctx _ r hv hh hr
  rw [← hd1] at hscan
  obtain ⟨rest, hrest⟩ := ident_runs_head Ident.identFold_py s (i + 1) [] (by omega) _ hscan
  rw [tok_custom_shape]
  unfold matchAt
  rw [runs_group, runs_seq, lit_ok pyFoldEnv s 58 _ i [] h58, runsSeq_cons]
  have hlook : runs pyFoldEnv s (.look true false (.seq [.lit 45 true, .lit 45 true])) (i + 1) [] =
      [(i + 1, [])] := by
    rw [runs, runs_seq, lit_ok pyFoldEnv s 45 _ (i + 1) [] h45a, lit_ok pyFoldEnv s 45 _ (i + 1 + 1) [] h45b,
      runsSeq_nil]
    rfl
  rw [hlook]
  simp only [List.flatMap_cons, List.flatMap_nil, List.append_nil]
  have : runsSeq pyFoldEnv s [rxHead, rxStar] (i + 1) [] = runs pyFoldEnv s rxIdent (i + 1) [] := by
    unfold rxIdent; rw [runs_seq]
  rw [this, hrest]
  rfl

def customTok (i j : Nat) : Token :=
  { name := "pseudo_class_custom",
    rx := ⟨"pseudo_class_custom", Gen.tok_pseudo_class_custom, Gen.tok_pseudo_class_custom_groups⟩,
    start := i, stop := j, caps := [(1, i, j)] }

variable (B : Builtins)

theorem matchToken_custom {i j : Nat} {caps : Caps} (h58 : s[i]? = some 58)
    (hsp : matchAt pyFoldEnv Gen.tok_special_name s i = none)
    (hcu : matchAt pyFoldEnv Gen.tok_pseudo_class_custom s i = some (j, caps)) :
    matchToken (penv B s) i Gen.lexicon.tokens =
      some { name := "pseudo_class_custom",
             rx := ⟨"pseudo_class_custom", Gen.tok_pseudo_class_custom, Gen.tok_pseudo_class_custom_groups⟩,
             start := i, stop := j, caps := caps } := by
  have hk : keyOf s[i]? = 58 := by rw [h58]; rfl
  rw [matchToken_skip B s i 1 _ (by rw [hk]; exact skip_colon)]
  show matchToken (penv B s) i ((default, true) ::
    (⟨"pseudo_class_custom", Gen.tok_pseudo_class_custom, Gen.tok_pseudo_class_custom_groups⟩, false) :: _) = _
  have hsp' : matchAt (penv B s).env (penv B s).L.specialName.rx (penv B s).pattern i = none := hsp
  have hcu' : matchAt (penv B s).env Gen.tok_pseudo_class_custom (penv B s).pattern i = some (j, caps) := hcu
  simp only [matchToken, if_true, Bool.false_eq_true, if_false, hsp', hcu']

theorem nextToken_custom {i : Nat} {forms : List (Nat × EscForm)} {r : Str}
    (hd : s.drop i = 58 :: (renderIdentWith ((45, .lit) :: (45, .lit) :: forms) ++ r))
    (hv : validForms ((45, .lit) :: (45, .lit) :: forms) r = true)
    (hh : headOk ((45, .lit) :: (45, .lit) :: forms) = true) (hr : ¬ continuesIdent r)
    (h40 : r.head? ≠ some 40) :
    nextToken (penv B s) i =
      .ok (some (customTok i (i + 1 + (renderIdentWith ((45, .lit) :: (45, .lit) :: forms)).length))) := by
  rw [nextToken_noGap B s hd (by simp [noGapStart, isCssWs]),
    matchToken_custom s B (getElem?_of_drop_cons hd) (special_name_none s hd hv hh hr h40)
      (custom_matchAt s hd hv hh hr)]
  rfl

/-! ### The parser loop -/

section Loop
variable (env : CharEnv) (L : Lexicon) (pattern : Str) (fuel flags : Nat) (st : LS) (t : Token)

theorem parseLoop_custom_compiled (h : nextToken ⟨env, L, B, pattern⟩ st.pos = .ok (some t))
    (hk : t.name = "pseudo_class_custom") (l : SelList)
    (hget : st.custom.get? (lower (Parser.cssUnescape env L ((t.group ⟨env, L, B, pattern⟩ "name").getD []))) =
      some (.compiled l)) :
    parseLoop env L B pattern (fuel + 1) flags st =
      parseLoop env L B pattern fuel flags
        { st with pos := t.stop, sel := st.sel.addSub l, hasSelector := true, index := t.stop } := by
  rw [parseLoop]
  simp only [h, hk]
  have e1 : ("pseudo_class_custom" == "at_rule") = false := by decide
  have e2 : ("pseudo_class_custom" == "amp") = false := by decide
  have e3 : ("pseudo_class_custom" == "pseudo_class_custom") = true := by decide
  simp only [e1, e2, e3, Bool.false_eq_true, if_false, if_true, hget]

theorem parseLoop_custom_src (h : nextToken ⟨env, L, B, pattern⟩ st.pos = .ok (some t))
    (hk : t.name = "pseudo_class_custom") (key text : Str)
    (hkey : lower (Parser.cssUnescape env L ((t.group ⟨env, L, B, pattern⟩ "name").getD [])) = key)
    (hget : st.custom.get? key = some (.src text))
    (l : SelList) (p : Nat) (cu : Custom)
    (hsub : parseSelectors env L B (text.map (fun c => if c == 0 then 0xFFFD else c)) fuel
      (startIndex ⟨env, L, B, text.map (fun c => if c == 0 then 0xFFFD else c)⟩) 0 FLG_PSEUDO
      (st.custom.erase key) = .ok (l, p, cu)) :
    parseLoop env L B pattern (fuel + 1) flags st =
      parseLoop env L B pattern fuel flags
        { st with pos := t.stop, sel := st.sel.addSub l, hasSelector := true, index := t.stop,
                  custom := cu.set key (.compiled l) } := by
  rw [parseLoop]
  simp only [h, hk, hkey]
  have e1 : ("pseudo_class_custom" == "at_rule") = false := by decide
  have e2 : ("pseudo_class_custom" == "amp") = false := by decide
  have e3 : ("pseudo_class_custom" == "pseudo_class_custom") = true := by decide
  simp only [e1, e2, e3, Bool.false_eq_true, if_false, if_true, hget, hsub]

end Loop

theorem customTok_name {i : Nat} {forms : List (Nat × EscForm)} {r : Str}
    (hd : s.drop i = 58 :: (renderIdentWith forms ++ r))
    (hv : validForms forms r = true) (hcp : ∀ p ∈ forms, rangeOk p.1 p.2 = true) :
    lower (Parser.cssUnescape pyFoldEnv Gen.lexicon
      (((customTok i (i + 1 + (renderIdentWith forms).length)).group (penv B s) "name").getD [])) =
      58 :: lower (valueOf forms) := by
  have hsl := slice_colon_name s hd
  have hg : (customTok i (i + 1 + (renderIdentWith forms).length)).group (penv B s) "name" =
      some (58 :: renderIdentWith forms) := by
    simp [Token.group, Parser.group, customTok, Gen.tok_pseudo_class_custom_groups, capSpan, hsl]
  rw [hg]
  simp only [Option.getD_some]
  rw [unescape_colon_forms forms (SpellingLemmas.validForms_nil_of forms r hv) hcp]
  rfl

section NthOf
variable (fuel flags : Nat) (st : LS)
/-- `step_nth_child_of` with the custom map the nested list returns. -/
theorem step_nth_child_of2 {forms : List (Nat × EscForm)} {g₁ dg1 dg2 ofw R : Str} (a : SAnB) (hok : a.ok)
    (hd : s.drop st.pos =
      58 :: (renderIdentWith forms ++ (40 :: (g₁ ++ (a.render ++ (dg1 ++ (ofw ++ (dg2 ++ R))))))))
    (hv : validForms forms (40 :: (g₁ ++ (a.render ++ (dg1 ++ (ofw ++ (dg2 ++ R)))))) = true)
    (hh : headOk forms = true) (hcp : ∀ p ∈ forms, rangeOk p.1 p.2 = true)
    (hg₁ : isGap g₁) (hdg1 : DescGap dg1) (hdg2 : DescGap dg2)
    (hof : lower ofw = "of".toStr) (hR : noGapStart R = true)
    (hname : nthChildName (58 :: lower (valueOf forms)))
    (nthSel : SelList) (pos' : Nat) (cu' : Custom)
    (hsub : parseSelectors pyFoldEnv Gen.lexicon B s fuel
      (st.pos + 1 + (renderIdentWith forms).length + 1 + g₁.length + a.render.length + dg1.length + 2 +
        dg2.length)
      (st.pos + 1 + (renderIdentWith forms).length + 1 + g₁.length + a.render.length + dg1.length + 2 +
        dg2.length) 65 st.custom = .ok (nthSel, pos', cu')) :
    parseLoop pyFoldEnv Gen.lexicon B s (fuel + 1) flags st =
      parseLoop pyFoldEnv Gen.lexicon B s fuel flags
        { st with pos := pos',
                  index := st.pos + 1 + (renderIdentWith forms).length + 1 + g₁.length + a.render.length +
                    dg1.length + 2 + dg2.length,
                  sel := nthBuild B (58 :: lower (valueOf forms)) a.canon (some nthSel) st.sel,
                  hasSelector := true, custom := cu' } := by
  obtain ⟨x, xs, hx, hxw, hx47⟩ := a.head hok
  have hm := nth_matchAt_of s a hok hd hv hh hg₁ hdg1 hdg2 hof hR
  have hnt := nextToken_nth B s (R := a.render ++ (dg1 ++ (ofw ++ (dg2 ++ R)))) hd hv hh hcp hg₁
    (by rw [hx]; simp [noGapStart, hxw, hx47]) nthChildRx (find_nthChild _ hname) hm
  have hd1 : s.drop (st.pos + 1) =
      renderIdentWith forms ++ (40 :: (g₁ ++ (a.render ++ (dg1 ++ (ofw ++ (dg2 ++ R)))))) :=
    Ident.drop_succ_of_drop_cons hd
  have hde := drop_add_of_drop_append hd1
  have hde1 : s.drop (st.pos + 1 + (renderIdentWith forms).length + 1) =
      g₁ ++ (a.render ++ (dg1 ++ (ofw ++ (dg2 ++ R)))) := Ident.drop_succ_of_drop_cons hde
  have hda := drop_add_of_drop_append hde1
  have hdg := drop_add_of_drop_append hda
  have hsl2 := slice_colon_name s hd
  have hsl4 := slice_of_drop_append hda
  have hsl1 : slice s st.pos (st.pos + 1 + (renderIdentWith forms).length + 1 + g₁.length + a.render.length) =
      (58 :: (renderIdentWith forms ++ (40 :: (g₁ ++ a.render)))) := by
    have := slice_of_drop_append (s := s) (p := st.pos)
      (a := 58 :: (renderIdentWith forms ++ (40 :: (g₁ ++ a.render)))) (r := dg1 ++ (ofw ++ (dg2 ++ R)))
      (by rw [hd]; simp)
    rw [← this]; congr 1
    simp only [List.length_cons, List.length_append]; omega
  have hoflen : ofw.length = 2 := by
    have := congrArg List.length hof
    rw [SpellingLemmas.lower_length] at this
    exact this
  have hsl5 : slice s (st.pos + 1 + (renderIdentWith forms).length + 1 + g₁.length + a.render.length)
      (st.pos + 1 + (renderIdentWith forms).length + 1 + g₁.length + a.render.length + dg1.length + 2 +
        dg2.length) = dg1 ++ (ofw ++ dg2) := by
    have := slice_of_drop_append (s := s) (a := dg1 ++ (ofw ++ dg2)) (r := R)
      (by rw [hdg]; simp)
    rw [← this]; congr 1
    simp only [List.length_append]; omega
  have hg1 : Token.group (penv B s) (Token.mk nthChildRx.name nthChildRx st.pos
      (st.pos + 1 + (renderIdentWith forms).length + 1 + g₁.length + a.render.length + dg1.length + 2 +
        dg2.length)
      ((5, st.pos + 1 + (renderIdentWith forms).length + 1 + g₁.length + a.render.length,
          st.pos + 1 + (renderIdentWith forms).length + 1 + g₁.length + a.render.length + dg1.length + 2 +
            dg2.length) ::
        nthCaps st.pos (renderIdentWith forms).length g₁.length a.render.length)) "pseudo_nth_child" =
      some (58 :: (renderIdentWith forms ++ (40 :: (g₁ ++ a.render)))) := by
    simp [Token.group, Parser.group, nthChildRx, Gen.tok_pseudo_nth_child_groups, capSpan, nthCaps, hsl1]
  have hg2 : Token.group (penv B s) (Token.mk nthChildRx.name nthChildRx st.pos
      (st.pos + 1 + (renderIdentWith forms).length + 1 + g₁.length + a.render.length + dg1.length + 2 +
        dg2.length)
      ((5, st.pos + 1 + (renderIdentWith forms).length + 1 + g₁.length + a.render.length,
          st.pos + 1 + (renderIdentWith forms).length + 1 + g₁.length + a.render.length + dg1.length + 2 +
            dg2.length) ::
        nthCaps st.pos (renderIdentWith forms).length g₁.length a.render.length)) "name" =
      some (58 :: renderIdentWith forms) := by
    simp [Token.group, Parser.group, nthChildRx, Gen.tok_pseudo_nth_child_groups, capSpan, nthCaps, hsl2]
  have hg4 : Token.group (penv B s) (Token.mk nthChildRx.name nthChildRx st.pos
      (st.pos + 1 + (renderIdentWith forms).length + 1 + g₁.length + a.render.length + dg1.length + 2 +
        dg2.length)
      ((5, st.pos + 1 + (renderIdentWith forms).length + 1 + g₁.length + a.render.length,
          st.pos + 1 + (renderIdentWith forms).length + 1 + g₁.length + a.render.length + dg1.length + 2 +
            dg2.length) ::
        nthCaps st.pos (renderIdentWith forms).length g₁.length a.render.length)) "nth_child" =
      some a.render := by
    simp [Token.group, Parser.group, nthChildRx, Gen.tok_pseudo_nth_child_groups, capSpan, nthCaps, hsl4]
  have hg5 : Token.group (penv B s) (Token.mk nthChildRx.name nthChildRx st.pos
      (st.pos + 1 + (renderIdentWith forms).length + 1 + g₁.length + a.render.length + dg1.length + 2 +
        dg2.length)
      ((5, st.pos + 1 + (renderIdentWith forms).length + 1 + g₁.length + a.render.length,
          st.pos + 1 + (renderIdentWith forms).length + 1 + g₁.length + a.render.length + dg1.length + 2 +
            dg2.length) ::
        nthCaps st.pos (renderIdentWith forms).length g₁.length a.render.length)) "of" =
      some (dg1 ++ (ofw ++ dg2)) := by
    simp [Token.group, Parser.group, nthChildRx, Gen.tok_pseudo_nth_child_groups, capSpan, hsl5]
  have hne5 : dg1 ++ (ofw ++ dg2) ≠ [] := by
    have := hdg1.ne_nil
    cases dg1 with | nil => exact absurd rfl this | cons _ _ => simp
  rw [C09.parseLoop_nth_child_of _ _ _ _ _ _ _ _ hnt rfl
    ⟨_, by simp only [penv] at hg1; exact hg1, by simp⟩
    ⟨_, by simp only [penv] at hg5; exact hg5, hne5⟩ nthSel pos' cu' hsub]
  have := nthChildSel_eq B s _ st.sel nthSel forms a hok
    (SpellingLemmas.validForms_nil_of forms _ hv) hcp hg2 hg4 hname
  simp only [penv] at this
  rw [this]

end NthOf

end Compile
end Refine
end SoupVerif

#print axioms SoupVerif.Refine.Compile.step_nth_child_of2
#print axioms SoupVerif.Refine.Compile.get?_set
#print axioms SoupVerif.Refine.Compile.custom_matchAt
#print axioms SoupVerif.Refine.Compile.nextToken_custom
#print axioms SoupVerif.Refine.Compile.parseLoop_custom_src
