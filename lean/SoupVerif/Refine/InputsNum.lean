/-
  `css_match.RE_NUM` against `Inputs.shapeNum`: the regular expression matches exactly the strings
  on which the hand-written scanner succeeds, and group `value` is then the whole string.
-/
import SoupVerif.Refine.InputsBase
import SoupVerif.Generated.Regexes
set_option linter.unusedSimpArgs false
namespace SoupVerif
namespace RefineInputs
open Rx RxBasic Inputs

/-- `[0-9]+` -/
abbrev digits1 : Rx := .rep 1 none true dg
/-- `\.[0-9]+` -/
abbrev fracRx : Rx := .seq [.lit 46 false, digits1]
abbrev eRx : Rx := .set false [.ch 101, .ch 69] false
abbrev pmRx : Rx := .set false [.ch 45, .ch 43] false
/-- `[eE][-+]?[0-9]+` -/
abbrev expRx : Rx := .seq [eRx, .rep 0 (some 1) true pmRx, digits1]
/-- `(?:[0-9]{1,}(\.[0-9]+)?|\.[0-9]+)` -/
abbrev mantRx : Rx := .alt [.seq [digits1, .rep 0 (some 1) true (.group 2 fracRx)], fracRx]

theorem re_num_shape : Gen.cm_RE_NUM =
    .seq [.bos, .group 1 (.seq [.rep 0 (some 1) true (.lit 45 false), mantRx,
      .rep 0 (some 1) true expRx]), .eos] := rfl

/-! ### The scanner, as Boolean functions of the remaining input -/

def isE (c : Nat) : Bool := c == 101 || c == 69
def isPM (c : Nat) : Bool := c == 45 || c == 43

def stripPM : Str → Str
  | [] => []
  | x :: t => if isPM x = true then t else x :: t

def expOk : Str → Bool
  | [] => true
  | e :: r => isE e && allDigits (stripPM r)

def fracOk : Str → Bool
  | [] => true
  | x :: r => if x = 46 then !(r.takeWhile isDigit).isEmpty && expOk (r.dropWhile isDigit) else expOk (x :: r)

def mantOk (t : Str) : Bool :=
  (!(t.takeWhile isDigit).isEmpty || (t.dropWhile isDigit).head? == some 46) && fracOk (t.dropWhile isDigit)

def stripMinus : Str → Str
  | [] => []
  | x :: t => if x = 45 then t else x :: t

def numOk (s : Str) : Bool := mantOk (stripMinus s)

theorem isChar_e (env : CharEnv) (s : Str) : IsChar env s eRx isE := by
  apply isChar_congr (isChar_set env s _ _ _)
  intro c
  rw [Bool.eq_iff_iff]
  simp [setHas, itemHas, isE]
  omega

theorem isChar_pm (env : CharEnv) (s : Str) : IsChar env s pmRx isPM := by
  apply isChar_congr (isChar_set env s _ _ _)
  intro c
  rw [Bool.eq_iff_iff]
  simp [setHas, itemHas, isPM]
  omega

theorem isE_of_digit {x : Nat} (h : isDigit x = true) : isE x = false := by
  simp [isDigit, isE] at *; omega

theorem isPM_of_digit {x : Nat} (h : isDigit x = true) : isPM x = false := by
  simp [isDigit, isPM] at *; omega

theorem ne46_of_digit {x : Nat} (h : isDigit x = true) : x ≠ 46 := by
  simp [isDigit] at *; omega

/-! ### The engine, piece by piece -/

variable (env : CharEnv) (s : Str)

/-- `[0-9]+\Z` -/
theorem digits_eos (p : Nat) (c : Caps) (hp : p ≤ s.length) :
    runsSeq env s [digits1, .eos] p c = if allDigits (s.drop p) = true then [(s.length, c)] else [] := by
  rw [runsSeq_rep_char_cut (isChar_digit env s) 1 [.eos] p c (by
    intro j x hx _
    have : j < s.length := by
      rcases Nat.lt_or_ge j s.length with h | h
      · exact h
      · rw [List.getElem?_eq_none h] at hx; cases hx
    rw [runsSeq_eos, if_neg (by omega)]), runsSeq_eos, spanLen_drop]
  have hlen : (s.drop p).length = s.length - p := List.length_drop
  have key := takeWhile_length_eq_iff isDigit (s.drop p)
  generalize s.drop p = t at *
  unfold allDigits
  by_cases hall : t.all isDigit = true
  · have h1 := key.mpr hall
    rcases t with _ | ⟨x, t⟩
    · simp
    · simp only [List.length_cons] at hlen h1
      have hh : p + (t.length + 1) = s.length := by omega
      rw [h1]
      simp [hall, hh]
  · have h1 : ¬ (t.takeWhile isDigit).length = t.length := fun h => hall (key.mp h)
    have h2 : (t.takeWhile isDigit).length ≤ t.length := (List.takeWhile_sublist _).length_le
    have : ¬ p + (t.takeWhile isDigit).length = s.length := by omega
    simp [hall, this]

theorem allDigits_cons_of_not {x : Nat} (t : Str) (h : isDigit x = false) : allDigits (x :: t) = false := by
  simp [allDigits, h]

theorem isDigit_of_isPM {x : Nat} (h : isPM x = true) : isDigit x = false := by
  cases hd : isDigit x with
  | false => rfl
  | true => rw [isPM_of_digit hd] at h; cases h

/-- `(?:[eE][-+]?[0-9]+)?\Z` -/
theorem exp_tail (p : Nat) (c : Caps) (hp : p ≤ s.length) :
    runsSeq env s [.rep 0 (some 1) true expRx, .eos] p c =
      if expOk (s.drop p) = true then [(s.length, c)] else [] := by
  rw [runsSeq_opt, runsSeq_seq, runsSeq_eos]
  simp only [List.cons_append, List.nil_append]
  cases hd : s.drop p with
  | nil =>
    have : p = s.length := by
      rw [List.drop_eq_nil_iff] at hd; omega
    rw [runsSeq_char_nil (isChar_e env s) _ c hd]
    simp [expOk, this]
  | cons e r =>
    obtain ⟨h1, h2⟩ := drop_cons_facts hd
    rw [runsSeq_char_cons (isChar_e env s) _ c hd, if_neg (show ¬ p = s.length by omega), List.append_nil]
    by_cases he : isE e = true
    · simp only [he, if_true, expOk, Bool.true_and]
      rw [runsSeq_opt]
      cases hr : r with
      | nil =>
        rw [hr] at h2
        rw [runsSeq_char_nil (isChar_pm env s) _ c h2, digits_eos env s _ c h1, h2]
        simp [stripPM, allDigits]
      | cons x t =>
        rw [hr] at h2
        obtain ⟨h3, h4⟩ := drop_cons_facts h2
        rw [runsSeq_char_cons (isChar_pm env s) _ c h2, digits_eos env s _ c h1, h2]
        by_cases hx : isPM x = true
        · rw [if_pos hx, digits_eos env s _ c h3, h4, allDigits_cons_of_not t (isDigit_of_isPM hx)]
          simp [stripPM, hx]
        · simp [stripPM, hx]
    · simp [he, expOk]

theorem exp_tail_cut (j x : Nat) (c : Caps) (hx : s[j]? = some x) (hE : isE x = false) :
    runsSeq env s [.rep 0 (some 1) true expRx, .eos] j c = [] := by
  obtain ⟨t, hd⟩ := drop_of_getElem? hx
  obtain ⟨h1, -⟩ := drop_cons_facts hd
  rw [exp_tail env s j c (by omega), hd]
  simp [expOk, hE]

theorem isChar_lit' (ch : Nat) : IsChar env s (.lit ch false) (fun x => x == ch) :=
  isChar_congr (isChar_lit env s ch false) (fun _ => by simp)

theorem runsSeq_single (r : Rx) (i : Nat) (c : Caps) : runsSeq env s [r] i c = runs env s r i c := by
  rw [runsSeq_cons]
  exact flatMap_singleton_fun _ (fun x => by rw [runsSeq_nil]) _

theorem pos_le_of_span (p : Nat) (hp : p ≤ s.length) : p + spanLen s isDigit p ≤ s.length := by
  have := spanLen_le s isDigit p
  omega

/-- `(\.[0-9]+)?(?:[eE][-+]?[0-9]+)?\Z` -/
theorem frac_tail (p : Nat) (c : Caps) (hp : p ≤ s.length) :
    ∃ c', runsSeq env s [.rep 0 (some 1) true (.group 2 fracRx), .rep 0 (some 1) true expRx, .eos] p c =
      if fracOk (s.drop p) = true then [(s.length, c')] else [] := by
  rw [runsSeq_opt, runsSeq_group, runs_seq]
  cases hd : s.drop p with
  | nil =>
    rw [runsSeq_char_nil (isChar_lit' env s 46) _ c hd, exp_tail env s p c hp, hd]
    exact ⟨c, by simp [fracOk, expOk]⟩
  | cons x r =>
    obtain ⟨h1, h2⟩ := drop_cons_facts hd
    rw [runsSeq_char_cons (isChar_lit' env s 46) _ c hd]
    by_cases hx : x = 46
    · subst hx
      have hsec : runsSeq env s [.rep 0 (some 1) true expRx, .eos] p c = [] :=
        exp_tail_cut env s p 46 c (getElem?_of_drop hd) (by decide)
      rw [hsec, List.append_nil]
      simp only [beq_self_eq_true, if_true]
      rw [runsSeq_single, runs_rep_char (isChar_digit env s)]
      simp only [room]
      have hn : spanLen s isDigit (p + 1) = (r.takeWhile isDigit).length := by rw [spanLen_drop, h2]
      have hdrop : s.drop (p + 1 + spanLen s isDigit (p + 1)) = r.dropWhile isDigit := by
        rw [drop_span, h2]
      by_cases h1n : 1 ≤ spanLen s isDigit (p + 1)
      · have hcut := flatMap_down_cut c
          (fun x => runsSeq env s [.rep 0 (some 1) true expRx, .eos] x.1 (setCap 2 p x.1 x.2))
          (spanLen s isDigit (p + 1) - 1) (p + 1 + 1) (by
            intro j hj1 hj2
            obtain ⟨y, hy, hdy⟩ := span_inside s isDigit (j - (p + 1)) (p + 1) (by omega)
            rw [show p + 1 + (j - (p + 1)) = j by omega] at hy
            exact exp_tail_cut env s j y _ hy (isE_of_digit hdy))
        rw [show p + 1 + 1 + (spanLen s isDigit (p + 1) - 1) = p + 1 + spanLen s isDigit (p + 1) by omega] at hcut
        rw [hcut]
        simp only
        rw [exp_tail env s _ _ (pos_le_of_span s (p + 1) h1), hdrop]
        refine ⟨setCap 2 p (p + 1 + spanLen s isDigit (p + 1)) c, ?_⟩
        have : (r.takeWhile isDigit).isEmpty = false := by
          cases hr : r.takeWhile isDigit with
          | nil => rw [hr] at hn; simp at hn; omega
          | cons _ _ => rfl
        simp only [fracOk, if_true, this, Bool.not_false, Bool.true_and]
      · rw [down_empty c (by omega)]
        refine ⟨c, ?_⟩
        have : (r.takeWhile isDigit).isEmpty = true := by
          cases hr : r.takeWhile isDigit with
          | nil => rfl
          | cons _ _ => rw [hr] at hn; simp at hn; omega
        simp [fracOk, this]
    · have : (x == 46) = false := by simpa using hx
      rw [this, exp_tail env s p c hp, hd]
      refine ⟨c, ?_⟩
      simp [fracOk, hx]

theorem frac_tail_cut (j x : Nat) (c : Caps) (hx : s[j]? = some x) (hd : isDigit x = true) :
    runsSeq env s [.rep 0 (some 1) true (.group 2 fracRx), .rep 0 (some 1) true expRx, .eos] j c = [] := by
  obtain ⟨t, hdr⟩ := drop_of_getElem? hx
  obtain ⟨h1, -⟩ := drop_cons_facts hdr
  obtain ⟨c', h⟩ := frac_tail env s j c (by omega)
  rw [h, hdr]
  simp [fracOk, ne46_of_digit hd, expOk, isE_of_digit hd]

/-- `(?:[0-9]{1,}(\.[0-9]+)?|\.[0-9]+)(?:[eE][-+]?[0-9]+)?\Z` -/
theorem mant_tail (p : Nat) (c : Caps) (hp : p ≤ s.length) :
    ∃ c', runsSeq env s [mantRx, .rep 0 (some 1) true expRx, .eos] p c =
      if mantOk (s.drop p) = true then [(s.length, c')] else [] := by
  rw [runsSeq_alt2, runsSeq_seq, runsSeq_seq]
  simp only [List.cons_append, List.nil_append]
  rw [runsSeq_rep_char_cut (isChar_digit env s) 1 _ p c
    (fun j x hx hd => frac_tail_cut env s j x c hx hd)]
  have hn : spanLen s isDigit p = ((s.drop p).takeWhile isDigit).length := spanLen_drop s isDigit p
  have hdrop : s.drop (p + spanLen s isDigit p) = (s.drop p).dropWhile isDigit := drop_span s isDigit p
  by_cases h1 : 1 ≤ spanLen s isDigit p
  · rw [if_pos h1]
    obtain ⟨d, hd, hdd⟩ := span_inside s isDigit 0 p (by omega)
    obtain ⟨t, hdr⟩ := drop_of_getElem? hd
    rw [Nat.add_zero] at hdr
    have hB : runsSeq env s (.lit 46 false :: digits1 :: [.rep 0 (some 1) true expRx, .eos]) p c = [] := by
      rw [runsSeq_char_cons (isChar_lit' env s 46) _ c hdr]
      have : (d == 46) = false := by simpa using ne46_of_digit hdd
      simp [this]
    rw [hB, List.append_nil]
    obtain ⟨c', h⟩ := frac_tail env s (p + spanLen s isDigit p) c (pos_le_of_span s p hp)
    refine ⟨c', ?_⟩
    rw [h, hdrop]
    have : ((s.drop p).takeWhile isDigit).isEmpty = false := by
      cases hr : (s.drop p).takeWhile isDigit with
      | nil => rw [hr] at hn; simp at hn; omega
      | cons _ _ => rfl
    simp [mantOk, this]
  · rw [if_neg h1, List.nil_append]
    have htw : (s.drop p).takeWhile isDigit = [] := by
      cases hr : (s.drop p).takeWhile isDigit with
      | nil => rfl
      | cons _ _ => rw [hr] at hn; simp at hn; omega
    cases hdr : s.drop p with
    | nil =>
      rw [runsSeq_char_nil (isChar_lit' env s 46) _ c hdr]
      exact ⟨c, by simp [mantOk]⟩
    | cons x r =>
      obtain ⟨h2, h3⟩ := drop_cons_facts hdr
      have hxd : isDigit x = false := by
        rw [hdr, List.takeWhile_cons] at htw
        cases hx : isDigit x with
        | false => rfl
        | true => rw [hx] at htw; simp at htw
      rw [runsSeq_char_cons (isChar_lit' env s 46) _ c hdr]
      by_cases hx : x = 46
      · subst hx
        simp only [beq_self_eq_true, if_true]
        rw [runsSeq_rep_char_cut (isChar_digit env s) 1 _ (p + 1) c
          (fun j y hy hd => exp_tail_cut env s j y c hy (isE_of_digit hd))]
        have hn2 : spanLen s isDigit (p + 1) = (r.takeWhile isDigit).length := by rw [spanLen_drop, h3]
        have hdrop2 : s.drop (p + 1 + spanLen s isDigit (p + 1)) = r.dropWhile isDigit := by
          rw [drop_span, h3]
        refine ⟨c, ?_⟩
        by_cases h1n : 1 ≤ spanLen s isDigit (p + 1)
        · rw [if_pos h1n, exp_tail env s _ _ (pos_le_of_span s (p + 1) h2), hdrop2]
          have : (r.takeWhile isDigit).isEmpty = false := by
            cases hr : r.takeWhile isDigit with
            | nil => rw [hr] at hn2; simp at hn2; omega
            | cons _ _ => rfl
          simp [mantOk, fracOk, List.takeWhile_cons, List.dropWhile_cons, hxd, this]
        · rw [if_neg h1n]
          have : (r.takeWhile isDigit).isEmpty = true := by
            cases hr : r.takeWhile isDigit with
            | nil => rfl
            | cons _ _ => rw [hr] at hn2; simp at hn2; omega
          simp [mantOk, fracOk, List.takeWhile_cons, List.dropWhile_cons, hxd, this]
      · have : (x == 46) = false := by simpa using hx
        refine ⟨c, ?_⟩
        simp [this, mantOk, List.takeWhile_cons, List.dropWhile_cons, hxd, hx]

/-- `-?(?:[0-9]{1,}(\.[0-9]+)?|\.[0-9]+)(?:[eE][-+]?[0-9]+)?\Z` from the start. -/
theorem num_body :
    ∃ c', runsSeq env s [.rep 0 (some 1) true (.lit 45 false), mantRx, .rep 0 (some 1) true expRx, .eos] 0 [] =
      if numOk s = true then [(s.length, c')] else [] := by
  rw [runsSeq_opt]
  cases hs : s with
  | nil =>
    rw [← hs]
    have hd : s.drop 0 = [] := by rw [hs]; rfl
    rw [runsSeq_char_nil (isChar_lit' env s 45) _ [] hd, List.nil_append]
    obtain ⟨c', h⟩ := mant_tail env s 0 [] (Nat.zero_le _)
    refine ⟨c', ?_⟩
    rw [h, hd, hs]
    rfl
  | cons x r =>
    rw [← hs]
    have hd : s.drop 0 = x :: r := by rw [hs]; rfl
    obtain ⟨h1, h2⟩ := drop_cons_facts hd
    rw [runsSeq_char_cons (isChar_lit' env s 45) _ [] hd]
    obtain ⟨c0, h0⟩ := mant_tail env s 0 [] (Nat.zero_le _)
    obtain ⟨c1, h1'⟩ := mant_tail env s (0 + 1) [] h1
    rw [h0, h1', hd, h2]
    by_cases hx : x = 45
    · subst hx
      refine ⟨c1, ?_⟩
      have : mantOk (45 :: r) = false := by
        simp [mantOk, List.takeWhile_cons, List.dropWhile_cons, (by decide : isDigit 45 = false)]
      rw [this, hs]
      simp [numOk, stripMinus]
    · have : (x == 45) = false := by simpa using hx
      refine ⟨c0, ?_⟩
      rw [hs]
      simp [this, numOk, stripMinus, hx]

/-- The engine on `RE_NUM`: success exactly when `numOk`, and then at the end with group 1 the whole. -/
theorem num_engine :
    ∃ c', matchAt env Gen.cm_RE_NUM s 0 =
      if numOk s = true then some (s.length, setCap 1 0 s.length c') else none := by
  obtain ⟨c', h⟩ := num_body env s
  refine ⟨c', ?_⟩
  rw [re_num_shape, matchAt, runs_seq, runsSeq_bos, runsSeq_group, runs_seq]
  have happ := runsSeq_append env s
    [.rep 0 (some 1) true (.lit 45 false), mantRx, .rep 0 (some 1) true expRx] [.eos] 0 []
  simp only [List.cons_append, List.nil_append] at happ
  rw [happ] at h
  generalize runsSeq env s [.rep 0 (some 1) true (.lit 45 false), mantRx, .rep 0 (some 1) true expRx] 0 [] = L at *
  have key : ∀ L : List (Nat × Caps),
      (L.flatMap fun x => runsSeq env s [.eos] x.1 (setCap 1 0 x.1 x.2)) =
        (L.flatMap fun x => runsSeq env s [.eos] x.1 x.2).map fun x => (x.1, setCap 1 0 x.1 x.2) := by
    intro L
    induction L with
    | nil => rfl
    | cons a L ih =>
      rw [List.flatMap_cons, List.flatMap_cons, List.map_append, ih, runsSeq_eos, runsSeq_eos]
      by_cases ha : a.1 = s.length <;> simp [ha]
  rw [key, h]
  by_cases hn : numOk s = true <;> simp [hn]

/-! ### `shapeNum` succeeds exactly when `numOk` -/

/-- The exponent part of `shapeNum`. -/
def expPart (r : Str) : Option Int :=
  match r with
  | [] => some 0
  | e :: r' =>
    if e == 101 || e == 69 then
      let (eneg, r'') := match r' with
        | 45 :: t => (true, t)
        | 43 :: t => (false, t)
        | _ => (false, r')
      if allDigits r'' then some (if eneg then - (Int.ofNat (digitsVal r'')) else Int.ofNat (digitsVal r'')) else none
    else none

/-- The fraction part of `shapeNum`. -/
def fracPart (ip r : Str) : Option (Str × Str) :=
  match r with
  | 46 :: r' =>
    let fp := r'.takeWhile isDigit
    if fp.isEmpty then none else some (fp, r'.dropWhile isDigit)
  | _ => if ip.isEmpty then none else some ([], r)

/-- `shapeNum` after the sign. -/
def numCore (neg : Bool) (t : Str) : Option PVal :=
  match fracPart (t.takeWhile isDigit) (t.dropWhile isDigit) with
  | none => none
  | some (fp, r) =>
    match expPart r with
    | none => none
    | some e => some (.num neg (digitsVal (t.takeWhile isDigit ++ fp)) (e - Int.ofNat fp.length))

theorem shapeNum_eq (s : Str) : shapeNum s = numCore (s.head? == some 45) (stripMinus s) := by
  unfold shapeNum
  split
  rename_i neg t heq
  have ht : neg = (s.head? == some 45) ∧ t = stripMinus s := by
    split at heq
    · cases heq; simp [stripMinus]
    · rename_i hne
      cases heq
      rcases s with _ | ⟨x, r⟩
      · simp [stripMinus]
      · have : x ≠ 45 := fun h => hne r (by rw [h])
        simp [stripMinus, this]
  rw [← ht.1, ← ht.2]
  rfl

theorem expPart_isSome (r : Str) : (expPart r).isSome = expOk r := by
  rcases r with _ | ⟨e, r'⟩
  · rfl
  · unfold expPart expOk
    by_cases he : isE e = true
    · have he' : (e == 101 || e == 69) = true := he
      simp only [he', if_true, he, Bool.true_and]
      rcases r' with _ | ⟨x, t⟩
      · simp [stripPM, allDigits]
      · by_cases h45 : x = 45
        · subst h45
          by_cases hd : allDigits t = true <;> simp [stripPM, isPM, hd]
        · by_cases h43 : x = 43
          · subst h43
            by_cases hd : allDigits t = true <;> simp [stripPM, isPM, hd]
          · have hpm : isPM x = false := by simp [isPM, h45, h43]
            split
            · rename_i heq; cases heq; exact absurd rfl h45
            · rename_i heq; cases heq; exact absurd rfl h43
            · by_cases hd : allDigits (x :: t) = true <;> simp [stripPM, hpm, hd]
    · have he' : (e == 101 || e == 69) = false := by simpa [isE] using he
      simp [he', he]

theorem fracPart_nil (ip : Str) : fracPart ip [] = if ip.isEmpty = true then none else some ([], []) := rfl

theorem fracPart_46 (ip r' : Str) : fracPart ip (46 :: r') =
    if (r'.takeWhile isDigit).isEmpty = true then none
    else some (r'.takeWhile isDigit, r'.dropWhile isDigit) := rfl

theorem fracPart_ne (ip : Str) {x : Nat} (r' : Str) (hx : x ≠ 46) : fracPart ip (x :: r') =
    if ip.isEmpty = true then none else some ([], x :: r') := by
  unfold fracPart
  split
  · rename_i heq; cases heq; exact absurd rfl hx
  · rfl

theorem numCore_some (neg : Bool) (t fp r : Str)
    (h : fracPart (t.takeWhile isDigit) (t.dropWhile isDigit) = some (fp, r)) :
    (numCore neg t).isSome = expOk r := by
  unfold numCore
  rw [h, ← expPart_isSome]
  simp only
  cases expPart r <;> rfl

theorem numCore_none (neg : Bool) (t : Str)
    (h : fracPart (t.takeWhile isDigit) (t.dropWhile isDigit) = none) :
    (numCore neg t).isSome = false := by
  unfold numCore
  rw [h]
  rfl

theorem shapeNum_isSome (s : Str) : (shapeNum s).isSome = numOk s := by
  rw [shapeNum_eq]
  unfold numOk mantOk
  generalize stripMinus s = t
  generalize (s.head? == some 45) = neg
  cases hr : t.dropWhile isDigit with
  | nil =>
    by_cases hip : (t.takeWhile isDigit).isEmpty = true
    · rw [numCore_none neg t (by rw [hr, fracPart_nil, if_pos hip])]
      simp [hip]
    · rw [numCore_some neg t [] [] (by rw [hr, fracPart_nil, if_neg hip])]
      simp [hip, fracOk, expOk]
  | cons x r' =>
    by_cases hx : x = 46
    · subst hx
      by_cases hfp : (r'.takeWhile isDigit).isEmpty = true
      · rw [numCore_none neg t (by rw [hr, fracPart_46, if_pos hfp])]
        simp [hfp, fracOk]
      · rw [numCore_some neg t _ _ (by rw [hr, fracPart_46, if_neg hfp])]
        simp [hfp, fracOk]
    · by_cases hip : (t.takeWhile isDigit).isEmpty = true
      · rw [numCore_none neg t (by rw [hr, fracPart_ne _ _ hx, if_pos hip])]
        simp [hip, hx]
      · rw [numCore_some neg t _ _ (by rw [hr, fracPart_ne _ _ hx, if_neg hip])]
        simp [hip, hx, fracOk]

/-! ### Main statements for RE_NUM -/

/-- `RE_NUM.match(s)` succeeds exactly when `shapeNum s` does. -/
theorem num_refines (s : Str) :
    (matchAt env Gen.cm_RE_NUM s 0).isSome = (shapeNum s).isSome := by
  obtain ⟨c', h⟩ := num_engine env s
  rw [h, shapeNum_isSome]
  by_cases hn : numOk s = true <;> simp [hn]

/-- When `RE_NUM` matches, the match ends at the end and group `value` (group 1) is the whole string. -/
theorem num_span (s : Str) (e : Nat) (caps : Caps) (hm : matchAt env Gen.cm_RE_NUM s 0 = some (e, caps)) :
    e = s.length ∧ capSpan caps 1 = some (0, s.length) ∧ grp s caps 1 = s := by
  obtain ⟨c', h⟩ := num_engine env s
  rw [h] at hm
  by_cases hn : numOk s = true
  · rw [if_pos hn] at hm
    cases hm
    refine ⟨rfl, capSpan_setCap_self _ _ _ _, ?_⟩
    rw [grp_setCap_self]
    simp
  · rw [if_neg hn] at hm
    cases hm

end RefineInputs
end SoupVerif
