/-
  The tokens `pseudo_nth_child` / `pseudo_nth_type` (reached through the `special` slot of the token
  table): `:nth-child(` gap An+B ( gap `)` | gap-with-whitespace `of` gap-with-whitespace ), and
  `:nth-of-type(` gap An+B gap `)`.
-/
import SoupVerif.Refine.CompileAnB
import SoupVerif.Refine.CompilePseudo
import SoupVerif.Refine.CompileComb
namespace SoupVerif
namespace Refine
namespace Compile
open Rx RxBasic SoupVerif.Parser ParserProgress Escape Spelling
open Wsc (gapRx wsRx unitEnd wsEnd commentEnd gapEnd)
open Ident (rxHead rxStar contStep contLen single IdentFold)

/-! ### Shapes -/

def open3 : Rx := .group 3 (.seq [.lit 40 true, gapRx true])
def nthHeadRx (s : Str) : Rx := .group 1 (.seq [.group 2 rxColonIdent, open3, .group 4 (rxAnbU s)])
def commentsRx : Rx := .rep 0 none true (Wsc.commentRx true)
def ofRx : Rx :=
  .group 5 (.seq [commentsRx, wsRx true, gapRx true, .lit 111 true, .lit 102 true,
    commentsRx, wsRx true, gapRx true])

theorem tok_nth_type_shape (s : Str) :
    Gen.tok_pseudo_nth_type = .seq [nthHeadRx s, gapRx true, .lit 41 true] := rfl
theorem tok_nth_child_shape (s : Str) :
    Gen.tok_pseudo_nth_child = .seq [nthHeadRx s, .alt [.seq [gapRx true, .lit 41 true], ofRx]] := rfl

variable (s : Str)

/-! ### The An+B alternative fails where a unit of `WSC` starts -/

theorem anb_nil_at_unit {j : Nat} (c : Caps) (h : (unitEnd s j).isSome = true) :
    runs pyFoldEnv s (rxAnbU s) j c = [] := by
  obtain ⟨x, hx, hx'⟩ := unit_start_char h
  have hprop : isSign x = false ∧ isDigit x = false ∧ isN x = false ∧ lowerCp x ≠ 101 ∧ lowerCp x ≠ 111 := by
    rcases hx' with h' | h'
    · simp only [isCssWs, Bool.or_eq_true, beq_iff_eq] at h'
      rcases h' with (((e | e) | e) | e) | e <;> subst e <;> decide
    · subst h'; decide
  unfold rxAnbU
  rw [runs_alt, runsAlt_cons, runsAlt_cons, runsAlt_cons, runsAlt_nil, runs_seq,
    lin_nil_at_letter c (by intro y hy; rw [hx] at hy; cases hy; exact ⟨hprop.1, hprop.2.1, hprop.2.2.1⟩)]
  unfold evenRx oddRx
  rw [runs_seq, runs_seq]
  have h1 := kw_fail (s := s) 101 "ven".toStr j c [] (by decide)
    (by intro y hy; rw [hx] at hy; cases hy; exact hprop.2.2.2.1)
  have h2 := kw_fail (s := s) 111 "dd".toStr j c [] (by decide)
    (by intro y hy; rw [hx] at hy; cases hy; exact hprop.2.2.2.2)
  simp only [List.append_nil] at h1 h2
  have e1 : kwRx "even".toStr = kwRx (101 :: "ven".toStr) := rfl
  have e2 : kwRx "odd".toStr = kwRx (111 :: "dd".toStr) := rfl
  rw [e1, e2, h1, h2]
  rfl

theorem open3_fail_at_unit {j : Nat} (c : Caps) (rs : List Rx) (h : (contStep (s.drop j)).isSome = true) :
    runsSeq pyFoldEnv s (open3 :: rs) j c = [] := by
  unfold open3
  apply runsSeq_group_nil
  rw [runs_seq]
  apply lit_fail Ident.identFold_py s 40 (by omega)
  obtain ⟨x, cs, hd, hx⟩ := contStep_head h
  rw [getElem?_of_drop_cons hd]
  intro e; cases e
  rcases hx with hx | hx
  · simp [identContChar] at hx
  · omega

/-! ### `:name(` gap An+B -/

/-- The first run of the common head of the two `nth` tokens. -/
theorem nth_head {i : Nat} {forms : List (Nat × EscForm)} {g₁ R : Str} (a : SAnB) (hok : a.ok)
    (hd : s.drop i = 58 :: (renderIdentWith forms ++ (40 :: (g₁ ++ (a.render ++ R)))))
    (hv : validForms forms (40 :: (g₁ ++ (a.render ++ R))) = true) (hh : headOk forms = true)
    (hg : isGap g₁) (hang : noGapStart (a.render ++ R) = true)
    (hR1 : ∀ x ∈ R.head?, isDigit x = false ∧ isN x = false)
    (hR2 : ∀ x ∈ (skipWSC R).head?, isSign x = false) :
    (runs pyFoldEnv s (nthHeadRx s) i []).head? =
      some (i + 1 + (renderIdentWith forms).length + 1 + g₁.length + a.render.length,
        [(1, i, i + 1 + (renderIdentWith forms).length + 1 + g₁.length + a.render.length),
         (4, i + 1 + (renderIdentWith forms).length + 1 + g₁.length,
            i + 1 + (renderIdentWith forms).length + 1 + g₁.length + a.render.length),
         (3, i + 1 + (renderIdentWith forms).length, i + 1 + (renderIdentWith forms).length + 1 + g₁.length),
         (2, i, i + 1 + (renderIdentWith forms).length)]) := by
  have h58 := getElem?_of_drop_cons hd
  have hd1 : s.drop (i + 1) = renderIdentWith forms ++ (40 :: (g₁ ++ (a.render ++ R))) :=
    Ident.drop_succ_of_drop_cons hd
  have hde := drop_add_of_drop_append hd1
  have h40 := getElem?_of_drop_cons hde
  have hde1 : s.drop (i + 1 + (renderIdentWith forms).length + 1) = g₁ ++ (a.render ++ R) :=
    Ident.drop_succ_of_drop_cons hde
  have hda := drop_add_of_drop_append hde1
  have hil := lt_of_drop_cons hd
  have hel := lt_of_drop_cons hde
  have hscan := C09.scan_any_spelling_ctx forms _ hv hh (by simp [continuesIdent, identContChar])
  rw [← hd1] at hscan
  -- group 4 at the start of An+B
  have h4 : ∀ c, (runsSeq pyFoldEnv s [.group 4 (rxAnbU s)]
      (i + 1 + (renderIdentWith forms).length + 1 + g₁.length) c).head? =
      some (i + 1 + (renderIdentWith forms).length + 1 + g₁.length + a.render.length,
        (4, i + 1 + (renderIdentWith forms).length + 1 + g₁.length,
          i + 1 + (renderIdentWith forms).length + 1 + g₁.length + a.render.length) ::
            c.filter (fun e => e.1 != 4)) := by
    intro c
    rw [Wsc.runsSeq_single, runs_group, List.head?_map, anb_head a hok _ c R hda hR1 hR2]
    rfl
  -- group 3
  have h3 : (runsSeq pyFoldEnv s [open3, .group 4 (rxAnbU s)] (i + 1 + (renderIdentWith forms).length)
      [(2, i, i + 1 + (renderIdentWith forms).length)]).head? =
      some (i + 1 + (renderIdentWith forms).length + 1 + g₁.length + a.render.length,
        [(4, i + 1 + (renderIdentWith forms).length + 1 + g₁.length,
            i + 1 + (renderIdentWith forms).length + 1 + g₁.length + a.render.length),
         (3, i + 1 + (renderIdentWith forms).length, i + 1 + (renderIdentWith forms).length + 1 + g₁.length),
         (2, i, i + 1 + (renderIdentWith forms).length)]) := by
    unfold open3
    rw [runsSeq_group_cons, runs_seq, lit_ok pyFoldEnv s 40 _ _ _ h40, Wsc.runsSeq_single]
    obtain ⟨_, _, _, _, rest, hruns, hrest⟩ := Wsc.gap_runs (env := pyFoldEnv) true
      (fun _ => Wsc.caseFree_pyFold) s (i + 1 + (renderIdentWith forms).length + 1) (by omega)
      [(2, i, i + 1 + (renderIdentWith forms).length)]
    rw [hruns, gapEnd_of_drop hde1 hg hang (by omega)]
    apply head?_flatMap_cons
    rw [h4]
    rfl
  unfold nthHeadRx
  rw [runs_group, List.head?_map, runs_seq, runsSeq_group_cons, colonIdent_runs s [] h58,
    ident_flatMap Ident.identFold_py s (i + 1) []
      (fun x => runsSeq pyFoldEnv s [open3, .group 4 (rxAnbU s)] x.1
        ((2, i, x.1) :: x.2.filter (fun e => e.1 != 2)))
      (by omega) (fun j c hj => open3_fail_at_unit s _ _ hj), hscan]
  simp only [List.filter_nil]
  rw [h3]
  rfl

/-! ### `COMMENTS* WS WSC*` on a gap with a whitespace unit -/

theorem comment_start {j : Nat} (h : (commentEnd s j).isSome = true) : s[j]? = some 47 := by
  unfold commentEnd at h
  split at h
  · next hc => exact hc.1
  · cases h

theorem ws_nil_at_comment {j : Nat} (c : Caps) (rs : List Rx) (h : (commentEnd s j).isSome = true) :
    runsSeq pyFoldEnv s (wsRx true :: rs) j c = [] := by
  rw [runsSeq_cons, Wsc.ws_runs true (fun _ => Wsc.caseFree_pyFold)]
  have : wsEnd s j = none := by
    unfold wsEnd; rw [comment_start s h]; rfl
  rw [this]; rfl

/-- The greedy `COMMENTS*` in front of a continuation that fails at every comment start, on a gap with a
    whitespace unit: only the position of the first whitespace unit continues. -/
theorem comments_iter (body : Nat → Caps → List (Nat × Caps))
    (hb : ∀ p c, body p c = Wsc.one (commentEnd s p) c) (R : Str) {β : Type}
    (KK : Nat × Caps → List β) (hK : ∀ j c, (commentEnd s j).isSome = true → KK (j, c) = []) (c : Caps) :
    ∀ (g : Str), DescGap g → ∀ (fuel count p : Nat), s.length - p + 1 ≤ fuel → s.drop p = g ++ R →
      ∃ pw w g'', s.drop pw = w :: (g'' ++ R) ∧ isCssWs w = true ∧ isGap g'' ∧
        pw + 1 + g''.length = p + g.length ∧
        (iter body 0 none true fuel count p c).flatMap KK = KK (pw, c) := by
  intro g hg
  induction hg with
  | ws w g' hw hg' =>
    intro fuel count p hf hd
    cases fuel with
    | zero => omega
    | succ fuel =>
      refine ⟨p, w, g', by rw [hd]; rfl, hw, hg', by simp; omega, ?_⟩
      have hx := getElem?_of_drop_cons (s := s) (p := p) (by rw [hd]; rfl)
      have hce : commentEnd s p = none := by
        unfold commentEnd
        rw [hx]
        have : w ≠ 47 := by intro e; subst e; simp [isCssWs] at hw
        simp [this]
      rw [Wsc.iter_star_succ, hb, hce]
      simp [Wsc.one]
  | comment cs t hdc _ ih =>
    intro fuel count p hf hd
    cases fuel with
    | zero => omega
    | succ fuel =>
      have hd0 : s.drop p = 47 :: 42 :: (cs ++ R) := by rw [hd]; rfl
      have hx0 := getElem?_of_drop_cons hd0
      have hd1 := Ident.drop_succ_of_drop_cons hd0
      have hx1 := getElem?_of_drop_cons hd1
      have hd2 : s.drop (p + 2) = cs ++ R := Ident.drop_succ_of_drop_cons hd1
      have hdc' := Wsc.dropComment_drop s (p + 2)
      rw [hd2, SpellingLemmas.dropComment_append cs t R hdc] at hdc'
      cases hce : Wsc.cmtEnd s (p + 2) with
      | none => rw [hce] at hdc'; cases hdc'
      | some q =>
        rw [hce] at hdc'
        simp only [Option.map_some, Option.some.injEq] at hdc'
        have hu : commentEnd s p = some q := by
          simp only [commentEnd, hx0, hx1, and_self, if_true]; exact hce
        have hb' := Wsc.cmtEnd_bounds hce
        obtain ⟨pw, w, g'', h1, h2, h3, h4, h5⟩ := ih fuel (count + 1) q (by omega) hdc'.symm
        refine ⟨pw, w, g'', h1, h2, h3, ?_, ?_⟩
        · have e1 := congrArg List.length hd0
          have e2 := congrArg List.length hdc'
          simp only [List.length_drop, List.length_append, List.length_cons] at e1 e2 ⊢
          omega
        · rw [Wsc.iter_star_succ, hb, hu]
          simp only [Wsc.one, List.flatMap_cons, List.flatMap_nil, List.append_nil]
          rw [if_pos (by omega), List.flatMap_append, h5]
          simp only [List.flatMap_cons, List.flatMap_nil, List.append_nil]
          rw [hK p c (by rw [hu]; rfl), List.append_nil]

/-- `COMMENTS* WS WSC*` followed by `rs`, on `g ++ R` with `DescGap g`: the first run continues after `g`. -/
theorem descgap_then {p : Nat} {g R : Str} (c : Caps) (rs : List Rx) (b : Nat × Caps)
    (hd : s.drop p = g ++ R) (hg : DescGap g) (hR : noGapStart R = true)
    (hk : (runsSeq pyFoldEnv s rs (p + g.length) c).head? = some b) :
    (runsSeq pyFoldEnv s (commentsRx :: wsRx true :: gapRx true :: rs) p c).head? = some b := by
  have hpl : p ≤ s.length := by
    rcases Nat.lt_or_ge s.length p with h | h
    · exfalso
      rw [List.drop_eq_nil_of_le (by omega)] at hd
      have := hg.ne_nil
      cases g with | nil => exact this rfl | cons _ _ => cases hd
    · exact h
  unfold commentsRx
  rw [runsSeq_cons, runs]
  obtain ⟨pw, w, g'', h1, h2, h3, h4, h5⟩ := comments_iter s _
    (fun p c => Wsc.comment_runs true (fun _ => Wsc.caseFree_pyFold) s p c) R
    (fun x => runsSeq pyFoldEnv s (wsRx true :: gapRx true :: rs) x.1 x.2)
    (fun j c hj => ws_nil_at_comment s c _ hj) c g hg (s.length - p + 0 + 2) 0 p (by omega) hd
  rw [h5]
  -- at the whitespace unit
  have hx := getElem?_of_drop_cons h1
  have hlt := lt_of_drop_cons h1
  obtain ⟨p', hw⟩ : ∃ p', wsEnd s pw = some p' := by
    unfold wsEnd; rw [hx]; simp only [h2, if_true]
    split <;> exact ⟨_, rfl⟩
  have hu : unitEnd s pw = some p' := by unfold unitEnd; rw [hw]
  have hb := Wsc.unitEnd_bounds hu
  have hsk : skipWSC (s.drop p') = R := by
    rw [← Wsc.skip_unit hu, h1]
    exact C09.skipWSC_append (w :: g'') R (C09.gap_ws w g'' h2 h3) hR
  have hge : gapEnd s p' = p + g.length := by
    unfold gapEnd; rw [hsk]
    have := congrArg List.length h1
    rw [List.length_drop] at this
    simp only [List.length_cons, List.length_append] at this
    omega
  rw [runsSeq_cons, Wsc.ws_runs true (fun _ => Wsc.caseFree_pyFold), hw]
  simp only [Wsc.one, List.flatMap_cons, List.flatMap_nil, List.append_nil]
  obtain ⟨_, _, _, _, rest, hruns, _⟩ := Wsc.gap_runs (env := pyFoldEnv) true
    (fun _ => Wsc.caseFree_pyFold) s p' hb.2 c
  rw [runsSeq_cons, hruns, hge]
  exact head?_flatMap_cons _ _ _ _ hk

/-! ### After An+B -/

theorem fail_lit41 (rs : List Rx) (j : Nat) (c : Caps) (h : (unitEnd s j).isSome = true) :
    runsSeq pyFoldEnv s (.lit 41 true :: rs) j c = [] := by
  apply lit_fail Ident.identFold_py s 41 (by omega)
  intro e
  exact Wsc.unitEnd_some_not_paren h e

theorem close41_runs {v : Nat} {g R : Str} (c : Caps) (hd : s.drop v = g ++ 41 :: R) (hg : isGap g)
    (hv : v ≤ s.length) :
    runsSeq pyFoldEnv s [gapRx true, .lit 41 true] v c = [(v + g.length + 1, c)] := by
  rw [gap_then_drop Wsc.caseFree_pyFold s v g (41 :: R) c _ hd hg (by simp [noGapStart, isCssWs]) hv
    (fun j c' hj => fail_lit41 s [] j c' hj),
    lit_ok pyFoldEnv s 41 [] _ c (getElem?_of_drop_cons (drop_add_of_drop_append hd)), runsSeq_nil]

/-- First character of a spelled An+B. -/
theorem SAnB.head (a : SAnB) (hok : a.ok) :
    ∃ x xs, a.render = x :: xs ∧ isCssWs x = false ∧ x ≠ 47 := by
  cases a with
  | even m =>
    have hl : lower (mixCase m "even".toStr) = "even".toStr := SpellingLemmas.lower_mixCase m _ (by decide)
    cases hm : mixCase m "even".toStr with
    | nil => rw [hm] at hl; cases hl
    | cons y ys =>
      rw [hm] at hl
      have : lowerCp y = 101 := (List.cons.inj hl).1
      refine ⟨y, ys, by rw [SAnB.render, hm], ?_⟩
      simp only [lowerCp] at this
      constructor
      · simp [isCssWs]; split at this <;> omega
      · split at this <;> omega
  | odd m =>
    have hl : lower (mixCase m "odd".toStr) = "odd".toStr := SpellingLemmas.lower_mixCase m _ (by decide)
    cases hm : mixCase m "odd".toStr with
    | nil => rw [hm] at hl; cases hl
    | cons y ys =>
      rw [hm] at hl
      have : lowerCp y = 111 := (List.cons.inj hl).1
      refine ⟨y, ys, by rw [SAnB.render, hm], ?_⟩
      simp only [lowerCp] at this
      constructor
      · simp [isCssWs]; split at this <;> omega
      · split at this <;> omega
  | lin sg D n T =>
    obtain ⟨hsg, hD, hn, hne, _⟩ := hok
    cases sg with
    | some x =>
      refine ⟨x, _, rfl, ?_⟩
      have := hsg x rfl
      simp only [isSign, Bool.or_eq_true, beq_iff_eq] at this
      rcases this with h | h <;> subst h <;> decide
    | none =>
      cases D with
      | cons d ds =>
        refine ⟨d, _, rfl, ?_⟩
        have := hD d (by simp)
        simp only [isDigit, Bool.and_eq_true, decide_eq_true_eq] at this
        exact ⟨by simp [isCssWs]; omega, by omega⟩
      | nil =>
        cases n with
        | none => rcases hne with h | h; exact absurd rfl h; cases h
        | some y =>
          refine ⟨y, _, rfl, ?_⟩
          have := hn y rfl
          simp only [isN, Bool.or_eq_true, beq_iff_eq] at this
          rcases this with h | h <;> subst h <;> decide

section Tokens
variable {i : Nat} {forms : List (Nat × EscForm)} {g₁ g₂ R : Str} (a : SAnB)

/-- Captures of the head of the `nth` tokens. -/
def nthCaps (i nameLen g1Len anbLen : Nat) : Caps :=
  [(1, i, i + 1 + nameLen + 1 + g1Len + anbLen),
   (4, i + 1 + nameLen + 1 + g1Len, i + 1 + nameLen + 1 + g1Len + anbLen),
   (3, i + 1 + nameLen, i + 1 + nameLen + 1 + g1Len),
   (2, i, i + 1 + nameLen)]

theorem close_tail_facts (hg₂ : isGap g₂) :
    (∀ x ∈ (g₂ ++ 41 :: R).head?, isDigit x = false ∧ isN x = false) ∧
    (∀ x ∈ (skipWSC (g₂ ++ 41 :: R)).head?, isSign x = false) := by
  constructor
  · cases g₂ with
    | nil => intro x hx; simp at hx; subst hx; exact ⟨rfl, rfl⟩
    | cons y ys =>
      intro x hx
      simp only [List.cons_append, List.head?_cons, Option.mem_def, Option.some.injEq] at hx
      subst hx
      rcases gap_head' hg₂ y (by simp) with h | h
      · simp only [isCssWs, Bool.or_eq_true, beq_iff_eq] at h
        rcases h with (((e | e) | e) | e) | e <;> subst e <;> exact ⟨rfl, rfl⟩
      · subst h; exact ⟨rfl, rfl⟩
  · rw [C09.skipWSC_append g₂ _ hg₂ (by simp [noGapStart, isCssWs])]
    intro x hx; simp at hx; subst hx; rfl

/-- `:nth-of-type(` gap An+B gap `)` (and the same text for `:nth-child`). -/
theorem nth_matchAt_close (hok : a.ok)
    (hd : s.drop i = 58 :: (renderIdentWith forms ++ (40 :: (g₁ ++ (a.render ++ (g₂ ++ 41 :: R))))))
    (hv : validForms forms (40 :: (g₁ ++ (a.render ++ (g₂ ++ 41 :: R)))) = true) (hh : headOk forms = true)
    (hg₁ : isGap g₁) (hg₂ : isGap g₂) :
    matchAt pyFoldEnv Gen.tok_pseudo_nth_type s i =
      some (i + 1 + (renderIdentWith forms).length + 1 + g₁.length + a.render.length + g₂.length + 1,
        nthCaps i (renderIdentWith forms).length g₁.length a.render.length) ∧
    matchAt pyFoldEnv Gen.tok_pseudo_nth_child s i =
      some (i + 1 + (renderIdentWith forms).length + 1 + g₁.length + a.render.length + g₂.length + 1,
        nthCaps i (renderIdentWith forms).length g₁.length a.render.length) := by
  obtain ⟨x, xs, hx, hxw, hx47⟩ := a.head hok
  obtain ⟨hR1, hR2⟩ := close_tail_facts (R := R) hg₂
  have hhead := nth_head s a hok hd hv hh hg₁ (by rw [hx]; simp [noGapStart, hxw, hx47]) hR1 hR2
  have hd1 : s.drop (i + 1) = renderIdentWith forms ++ (40 :: (g₁ ++ (a.render ++ (g₂ ++ 41 :: R)))) :=
    Ident.drop_succ_of_drop_cons hd
  have hde := drop_add_of_drop_append hd1
  have hde1 : s.drop (i + 1 + (renderIdentWith forms).length + 1) = g₁ ++ (a.render ++ (g₂ ++ 41 :: R)) :=
    Ident.drop_succ_of_drop_cons hde
  have hda := drop_add_of_drop_append hde1
  have hdg := drop_add_of_drop_append hda
  have hal : i + 1 + (renderIdentWith forms).length + 1 + g₁.length + a.render.length ≤ s.length := by
    have := lt_of_drop_cons (drop_add_of_drop_append hdg); omega
  have hclose := close41_runs s (nthCaps i (renderIdentWith forms).length g₁.length a.render.length) hdg hg₂ hal
  cases hr : runs pyFoldEnv s (nthHeadRx s) i [] with
  | nil => rw [hr] at hhead; cases hhead
  | cons y ys =>
    rw [hr] at hhead
    simp only [List.head?_cons, Option.some.injEq] at hhead
    subst hhead
    constructor
    · rw [tok_nth_type_shape s]
      unfold matchAt
      rw [runs_seq, runsSeq_cons, hr]
      apply head?_flatMap_cons
      show (runsSeq pyFoldEnv s [gapRx true, .lit 41 true] _ (nthCaps i _ _ _)).head? = _
      rw [hclose]; rfl
    · rw [tok_nth_child_shape s]
      unfold matchAt
      rw [runs_seq, runsSeq_cons, hr]
      apply head?_flatMap_cons
      rw [Wsc.runsSeq_single, runs_alt, runsAlt_cons]
      apply Ident.head?_append_of_some
      rw [runs_seq]
      show (runsSeq pyFoldEnv s [gapRx true, .lit 41 true] _ (nthCaps i _ _ _)).head? = _
      rw [hclose]; rfl

/-- `:nth-child(` gap An+B gap-with-ws `of` gap-with-ws — the `of S` form: the token ends where `S` starts. -/
theorem nth_matchAt_of {dg1 dg2 ofw : Str} (hok : a.ok)
    (hd : s.drop i = 58 :: (renderIdentWith forms ++ (40 :: (g₁ ++ (a.render ++ (dg1 ++ (ofw ++ (dg2 ++ R))))))))
    (hv : validForms forms (40 :: (g₁ ++ (a.render ++ (dg1 ++ (ofw ++ (dg2 ++ R)))))) = true)
    (hh : headOk forms = true) (hg₁ : isGap g₁) (hdg1 : DescGap dg1) (hdg2 : DescGap dg2)
    (hof : lower ofw = "of".toStr) (hR : noGapStart R = true) :
    matchAt pyFoldEnv Gen.tok_pseudo_nth_child s i =
      some (i + 1 + (renderIdentWith forms).length + 1 + g₁.length + a.render.length + dg1.length + 2 +
          dg2.length,
        (5, i + 1 + (renderIdentWith forms).length + 1 + g₁.length + a.render.length,
          i + 1 + (renderIdentWith forms).length + 1 + g₁.length + a.render.length + dg1.length + 2 +
            dg2.length) ::
        nthCaps i (renderIdentWith forms).length g₁.length a.render.length) := by
  obtain ⟨x, xs, hx, hxw, hx47⟩ := a.head hok
  -- the word `of`
  obtain ⟨o, f, rfl, ho, hf⟩ : ∃ o f, ofw = [o, f] ∧ lowerCp o = 111 ∧ lowerCp f = 102 := by
    have hlen : ofw.length = 2 := by
      have := congrArg List.length hof
      rw [SpellingLemmas.lower_length] at this
      exact this
    cases ofw with
    | nil => simp at hlen
    | cons o t =>
      cases t with
      | nil => simp at hlen
      | cons f t' =>
        cases t' with
        | cons _ _ => simp at hlen
        | nil =>
          simp only [lower, List.map_cons, List.map_nil] at hof
          exact ⟨o, f, rfl, (List.cons.inj hof).1, (List.cons.inj (List.cons.inj hof).2).1⟩
  have hofng : noGapStart ([o, f] ++ (dg2 ++ R)) = true := by
    simp only [lowerCp] at ho
    have h1 : isCssWs o = false := by simp [isCssWs]; split at ho <;> omega
    have h2 : o ≠ 47 := by split at ho <;> omega
    simp [noGapStart, h1, h2]
  have hR1 : ∀ y ∈ (dg1 ++ ([o, f] ++ (dg2 ++ R))).head?, isDigit y = false ∧ isN y = false := by
    cases dg1 with
    | nil => exact absurd rfl hdg1.ne_nil
    | cons y ys =>
      intro z hz
      simp only [List.cons_append, List.head?_cons, Option.mem_def, Option.some.injEq] at hz
      subst hz
      rcases gap_head' hdg1.isGap y (by simp) with h | h
      · simp only [isCssWs, Bool.or_eq_true, beq_iff_eq] at h
        rcases h with (((e | e) | e) | e) | e <;> subst e <;> exact ⟨rfl, rfl⟩
      · subst h; exact ⟨rfl, rfl⟩
  have hR2 : ∀ y ∈ (skipWSC (dg1 ++ ([o, f] ++ (dg2 ++ R)))).head?, isSign y = false := by
    rw [C09.skipWSC_append dg1 _ hdg1.isGap hofng]
    intro y hy
    simp only [List.cons_append, List.head?_cons, Option.mem_def, Option.some.injEq] at hy
    subst hy
    simp only [lowerCp] at ho
    simp [isSign]; split at ho <;> omega
  have hhead := nth_head s a hok hd hv hh hg₁ (by rw [hx]; simp [noGapStart, hxw, hx47]) hR1 hR2
  have hd1 : s.drop (i + 1) =
      renderIdentWith forms ++ (40 :: (g₁ ++ (a.render ++ (dg1 ++ ([o, f] ++ (dg2 ++ R)))))) :=
    Ident.drop_succ_of_drop_cons hd
  have hde := drop_add_of_drop_append hd1
  have hde1 : s.drop (i + 1 + (renderIdentWith forms).length + 1) =
      g₁ ++ (a.render ++ (dg1 ++ ([o, f] ++ (dg2 ++ R)))) := Ident.drop_succ_of_drop_cons hde
  have hda := drop_add_of_drop_append hde1
  have hdg := drop_add_of_drop_append hda
  have hdo := drop_add_of_drop_append hdg
  have hdo2 := drop_add_of_drop_append hdo
  have ho0 := getElem?_of_drop_cons (s := s) (by rw [hdo]; rfl)
  have hal : i + 1 + (renderIdentWith forms).length + 1 + g₁.length + a.render.length ≤ s.length := by
    have := lt_of_drop_cons (s := s) (by rw [hdo]; rfl)
    omega
  -- first alternative: no `)` after the gap
  have hfirst : runsSeq pyFoldEnv s [gapRx true, .lit 41 true]
      (i + 1 + (renderIdentWith forms).length + 1 + g₁.length + a.render.length)
      (nthCaps i (renderIdentWith forms).length g₁.length a.render.length) = [] := by
    rw [gap_then_drop Wsc.caseFree_pyFold s _ dg1 _ _ _ hdg hdg1.isGap hofng hal
      (fun j c' hj => fail_lit41 s [] j c' hj)]
    apply lit_fail Ident.identFold_py s 41 (by omega)
    rw [ho0]; intro e; cases e; simp [lowerCp] at ho
  -- second alternative
  have hsecond : (runsSeq pyFoldEnv s [commentsRx, wsRx true, gapRx true, .lit 111 true, .lit 102 true,
      commentsRx, wsRx true, gapRx true]
      (i + 1 + (renderIdentWith forms).length + 1 + g₁.length + a.render.length)
      (nthCaps i (renderIdentWith forms).length g₁.length a.render.length)).head? =
      some (i + 1 + (renderIdentWith forms).length + 1 + g₁.length + a.render.length + dg1.length + 2 +
          dg2.length, nthCaps i (renderIdentWith forms).length g₁.length a.render.length) := by
    apply descgap_then s _ _ _ hdg hdg1 hofng
    have hkw := kw_runs (s := s) "of".toStr [o, f] _
      (nthCaps i (renderIdentWith forms).length g₁.length a.render.length) (dg2 ++ R)
      [commentsRx, wsRx true, gapRx true] (by decide) hdo (by simp [lower, ho, hf]; rfl)
    have e : kwRx "of".toStr ++ [commentsRx, wsRx true, gapRx true] =
        [.lit 111 true, .lit 102 true, commentsRx, wsRx true, gapRx true] := rfl
    rw [e] at hkw
    rw [hkw]
    apply descgap_then s _ _ _ hdo2 hdg2 hR
    rw [runsSeq_nil]
    rfl
  cases hr : runs pyFoldEnv s (nthHeadRx s) i [] with
  | nil => rw [hr] at hhead; cases hhead
  | cons y ys =>
    rw [hr] at hhead
    simp only [List.head?_cons, Option.some.injEq] at hhead
    subst hhead
    rw [tok_nth_child_shape s]
    unfold matchAt
    rw [runs_seq, runsSeq_cons, hr]
    apply head?_flatMap_cons
    rw [Wsc.runsSeq_single, runs_alt, runsAlt_cons, runsAlt_cons, runsAlt_nil, List.append_nil, runs_seq]
    show (runsSeq pyFoldEnv s [gapRx true, .lit 41 true] _ (nthCaps i _ _ _) ++ _).head? = _
    rw [hfirst, List.nil_append]
    unfold ofRx
    rw [runs_group, List.head?_map, runs_seq]
    show Option.map _ (runsSeq pyFoldEnv s _ _ (nthCaps i _ _ _)).head? = _
    rw [hsecond]
    rfl

end Tokens

end Compile
end Refine
end SoupVerif

#print axioms SoupVerif.Refine.Compile.nth_head
#print axioms SoupVerif.Refine.Compile.descgap_then
#print axioms SoupVerif.Refine.Compile.nth_matchAt_close
#print axioms SoupVerif.Refine.Compile.nth_matchAt_of
