/-
  Line and column of an offset that stands at the end of a prefix `a` of the pattern `a ++ b`, as
  functions of `a` ALONE: the line is the last line of `a`, the column one past the end of that line —
  unless `a` ends with `\r` and `b` begins with `\n` (then the offset points into a `\r\n` pair, which
  counts as a break only at its end; that case is `C20.ctx_crlf`).
  Also: offset 0 is line 1, column 1.
-/
import SoupVerif.Properties.C20
namespace SoupVerif
namespace Refine
namespace C20Parse
open Context Spec Spec.Ctx CtxLemmas

/-- The offset `|a|` in `a ++ b` does not point at the `\n` of a `\r\n` pair. -/
def CleanCut (a b : Str) : Prop := ¬ (a.getLast? = some 13 ∧ b.head? = some 10)

instance (a b : Str) : Decidable (CleanCut a b) := by unfold CleanCut; infer_instance

theorem cleanCut_of_head {a b : Str} (h : b.head? ≠ some 10) : CleanCut a b := fun hc => h hc.2

theorem cleanCut_tail {c : Nat} {r b : Str} (h : CleanCut (c :: r) b) : CleanCut r b := by
  intro ⟨h1, h2⟩
  apply h
  refine ⟨?_, h2⟩
  cases r with
  | nil => simp at h1
  | cons d r' => rw [List.getLast?_cons_cons]; exact h1

theorem be_prefix : ∀ (a : Str) (pos : Nat) (b : Str), CleanCut a b →
    (breakEndsFrom pos (a ++ b)).filter (· ≤ pos + a.length) = breakEndsFrom pos a := by
  intro a
  induction a using breakInduction with
  | nil =>
    intro pos b _
    rw [List.nil_append, be_nil]
    exact be_filter_nil b pos _ (by simp)
  | crlf r ih =>
    intro pos b h
    have h' : CleanCut r b := cleanCut_tail (cleanCut_tail h)
    have e : (13 :: 10 :: r) ++ b = 13 :: 10 :: (r ++ b) := rfl
    rw [e, be_crlf, be_crlf, List.filter_cons]
    have hle : pos + 2 ≤ pos + (13 :: 10 :: r).length := by simp
    have e2 : pos + (13 :: 10 :: r).length = pos + 2 + r.length := by simp; omega
    simp only [hle, decide_true, if_true]
    rw [e2, ih (pos + 2) b h']
  | cr r hr ih =>
    intro pos b h
    have h' : CleanCut r b := cleanCut_tail h
    have e : (13 :: r) ++ b = 13 :: (r ++ b) := rfl
    have hrb : (r ++ b).head? ≠ some 10 := by
      cases r with
      | nil =>
        intro hb
        exact h ⟨rfl, by simpa using hb⟩
      | cons d r' => simpa using hr
    rw [e, be_cr _ _ hrb, be_cr _ _ hr, List.filter_cons]
    have hle : pos + 1 ≤ pos + (13 :: r).length := by simp
    have e2 : pos + (13 :: r).length = pos + 1 + r.length := by simp; omega
    simp only [hle, decide_true, if_true]
    rw [e2, ih (pos + 1) b h']
  | lf r ih =>
    intro pos b h
    have h' : CleanCut r b := cleanCut_tail h
    have e : (10 :: r) ++ b = 10 :: (r ++ b) := rfl
    rw [e, be_lf, be_lf, List.filter_cons]
    have hle : pos + 1 ≤ pos + (10 :: r).length := by simp
    have e2 : pos + (10 :: r).length = pos + 1 + r.length := by simp; omega
    simp only [hle, decide_true, if_true]
    rw [e2, ih (pos + 1) b h']
  | other c r h1 h2 ih =>
    intro pos b h
    have h' : CleanCut r b := cleanCut_tail h
    have e : (c :: r) ++ b = c :: (r ++ b) := rfl
    have e2 : pos + (c :: r).length = pos + 1 + r.length := by simp; omega
    rw [e, be_other _ _ _ h1 h2, be_other _ _ _ h1 h2, e2, ih (pos + 1) b h']

/-- The break units of `a ++ b` that end at or before `|a|` are the break units of `a`. -/
theorem breakEnds_prefix (a b : Str) (h : CleanCut a b) :
    (breakEnds (a ++ b)).filter (· ≤ a.length) = breakEnds a := by
  have := be_prefix a 0 b h
  simpa [breakEnds] using this

theorem breakEnds_filter_self (a : Str) : (breakEnds a).filter (· ≤ a.length) = breakEnds a := by
  rw [List.filter_eq_self]
  intro x hx
  simpa using (splitLines_chain a).ends_le x hx

theorem breaksBefore_prefix (a b : Str) (h : CleanCut a b) :
    breaksBefore (a ++ b) a.length = breaksBefore a a.length := by
  unfold breaksBefore
  rw [breakEnds_prefix a b h, breakEnds_filter_self]

theorem lineStart_prefix (a b : Str) (h : CleanCut a b) :
    lineStart (a ++ b) a.length = lineStart a a.length := by
  unfold lineStart
  rw [breakEnds_prefix a b h, breakEnds_filter_self]

theorem breaksBefore_end (a : Str) : 1 + breaksBefore a a.length = numLines a := by
  unfold breaksBefore
  rw [breakEnds_filter_self, numLines_eq]; omega

/-- **Line and column at the end of a prefix.**  For the offset `|a|` of the pattern `a ++ b`
    (`CleanCut`: not inside a `\r\n` pair), `get_pattern_context` reports the LAST line of `a` and the
    column one past the end of that line. -/
theorem ctx_after_prefix (a b : Str) (h : CleanCut a b) :
    (getPatternContext (a ++ b) a.length).2 =
      (numLines a, a.length - lineStart a a.length + 1) := by
  have hi : a.length ≤ (a ++ b).length := by simp
  have h1 := C20.ctx_line (a ++ b) a.length hi
  have h2 := C20.ctx_col (a ++ b) a.length hi
  rw [breaksBefore_prefix a b h, breaksBefore_end] at h1
  rw [lineStart_prefix a b h] at h2
  exact Prod.ext h1 h2

/-- Offset 0: line 1, column 1. -/
theorem ctx_at_zero (p : Str) : (getPatternContext p 0).2 = (1, 1) := by
  have h1 := C20.ctx_line p 0 (Nat.zero_le _)
  have h2 := C20.ctx_col p 0 (Nat.zero_le _)
  have hf : (breakEnds p).filter (· ≤ 0) = [] := be_filter_nil p 0 0 (Nat.le_refl _)
  have hb : breaksBefore p 0 = 0 := by unfold breaksBefore; rw [hf]; rfl
  have hl : lineStart p 0 = 0 := by unfold lineStart; rw [hf]; rfl
  rw [hb] at h1
  rw [hl] at h2
  exact Prod.ext h1 h2

/-- The offset at the very end: the last line, one past its end (`C20.ctx_end_offset`). -/
theorem ctx_at_end (p : Str) :
    (getPatternContext p p.length).2 = (numLines p, p.length - lineStart p p.length + 1) := by
  rw [(C20.ctx_end_offset p).1]

/-- A pattern without `\n` and `\r` has no line break. -/
theorem breakEnds_nil_of_no_break : ∀ (p : Str) (pos : Nat), (∀ c ∈ p, c ≠ 10 ∧ c ≠ 13) →
    breakEndsFrom pos p = []
  | [], pos, _ => be_nil pos
  | c :: r, pos, h => by
    have hc := h c (by simp)
    rw [be_other c r pos hc.2 hc.1]
    exact breakEnds_nil_of_no_break r (pos + 1) (fun x hx => h x (List.mem_cons_of_mem _ hx))

/-- Single-line pattern: line 1, column `offset + 1`, and the context is the pattern, a newline,
    `offset` spaces and `^` (`C20.ctx_single`). -/
theorem ctx_single_line (p : Str) (i : Nat) (h : ∀ c ∈ p, c ≠ 10 ∧ c ≠ 13) :
    getPatternContext p i = (p ++ [10] ++ caretLine i, 1, i + 1) :=
  C20.ctx_single p i (breakEnds_nil_of_no_break p 0 h)

end C20Parse
end Refine
end SoupVerif

#print axioms SoupVerif.Refine.C20Parse.ctx_after_prefix
#print axioms SoupVerif.Refine.C20Parse.ctx_at_zero
#print axioms SoupVerif.Refine.C20Parse.ctx_at_end
#print axioms SoupVerif.Refine.C20Parse.ctx_single_line
