/-
  The An+B micro-syntax `[-+]?(?:[0-9]+n?|n)(?:(?<=n)WSC*[-+]WSC*[0-9]+)?|even|odd` as it occurs in the
  tokens `pseudo_nth_child` / `pseudo_nth_type` (without groups) and in `RE_NTH` (with groups 1–4).
  The two are handled at once: `Wrap` abstracts "the expression itself, or a capturing group around it".
-/
import SoupVerif.Refine.CompileAttr
namespace SoupVerif
namespace Refine
namespace Compile
open Rx RxBasic SoupVerif.Parser ParserProgress Escape Spelling
open Wsc (gapRx unitEnd wsEnd commentEnd gapEnd)

/-! ### Wrappers -/

/-- Either the expression itself or a capturing group around it, with its effect on the captures. -/
structure Wrap (s : Str) where
  w : Rx → Rx
  f : Nat → Nat × Caps → Caps
  spec : ∀ (r : Rx) (rs : List Rx) (i : Nat) (c : Caps),
    runsSeq pyFoldEnv s (w r :: rs) i c =
      (runs pyFoldEnv s r i c).flatMap fun x => runsSeq pyFoldEnv s rs x.1 (f i x)

def Wrap.none (s : Str) : Wrap s := ⟨fun r => r, fun _ x => x.2, fun r rs i c => runsSeq_cons _ _ r rs i c⟩
def Wrap.grp (s : Str) (k : Nat) : Wrap s :=
  ⟨.group k, fun i x => (k, i, x.1) :: x.2.filter (fun e => e.1 != k),
   fun r rs i c => runsSeq_group_cons _ _ k r rs i c⟩

variable {s : Str}

theorem Wrap.nil (W : Wrap s) (r : Rx) (rs : List Rx) (i : Nat) (c : Caps)
    (h : runs pyFoldEnv s r i c = []) : runsSeq pyFoldEnv s (W.w r :: rs) i c = [] := by
  rw [W.spec, h]; rfl

theorem Wrap.head (W : Wrap s) (r : Rx) (rs : List Rx) (i : Nat) (c : Caps) (x b : Nat × Caps)
    (h : (runs pyFoldEnv s r i c).head? = some x)
    (hk : (runsSeq pyFoldEnv s rs x.1 (W.f i x)).head? = some b) :
    (runsSeq pyFoldEnv s (W.w r :: rs) i c).head? = some b := by
  rw [W.spec]
  cases hr : runs pyFoldEnv s r i c with
  | nil => rw [hr] at h; cases h
  | cons y ys =>
    rw [hr] at h
    simp only [List.head?_cons, Option.some.injEq] at h
    subst h
    exact head?_flatMap_cons _ _ _ _ hk

theorem Wrap.single (W : Wrap s) (r : Rx) (rs : List Rx) (i : Nat) (c : Caps) (x : Nat × Caps)
    (h : runs pyFoldEnv s r i c = [x]) :
    runsSeq pyFoldEnv s (W.w r :: rs) i c = runsSeq pyFoldEnv s rs x.1 (W.f i x) := by
  rw [W.spec, h]; simp

/-! ### Character classes -/

def digitSet : Rx := .set false [.range 48 57] true
def signSet : Rx := .set false [.ch 45, .ch 43] true
def litN : Rx := .lit 110 true

def isDigit (x : Nat) : Bool := 48 ≤ x && x ≤ 57
def isSign (x : Nat) : Bool := x == 45 || x == 43
def isN (x : Nat) : Bool := x == 110 || x == 78

theorem isChar_digit (s : Str) : IsChar pyFoldEnv s digitSet isDigit := by
  apply isChar_congr (isChar_set pyFoldEnv s _ _ _)
  intro x
  have h := Ident.identFold_py.id_or_letter x
  simp only [setHas, List.any, itemHas, Bool.true_and, Bool.or_false, isDigit]
  rw [Bool.eq_iff_iff]
  simp only [bne_iff_ne, ne_eq, Bool.not_eq_false, Bool.or_eq_true, Bool.and_eq_true, decide_eq_true_eq]
  rcases h with h | h
  · rw [h]; omega
  · omega

theorem isChar_sign (s : Str) : IsChar pyFoldEnv s signSet isSign := by
  apply isChar_congr (isChar_set pyFoldEnv s _ _ _)
  intro x
  have h45 := Ident.fold_const_eq Ident.identFold_py 45 (by omega) x
  have h43 := Ident.fold_const_eq Ident.identFold_py 43 (by omega) x
  simp [setHas, itemHas, isSign, h45, h43]

theorem fold_110 : pyFoldEnv.fold 110 = 110 := by decide

theorem isChar_n (s : Str) : IsChar pyFoldEnv s litN isN := by
  apply isChar_congr (isChar_lit pyFoldEnv s 110 true)
  intro x
  simp only [if_true, isN, fold_110]
  rw [Wsc.pyFold_fold x]
  by_cases h1 : x = 304
  · subst h1; decide
  by_cases h2 : x = 305
  · subst h2; decide
  by_cases h3 : x = 383
  · subst h3; decide
  by_cases h4 : x = 8490
  · subst h4; decide
  simp only [h1, h2, h3, h4, if_false, lowerCp]
  rw [Bool.eq_iff_iff]
  simp only [beq_iff_eq, Bool.or_eq_true]
  split <;> omega

/-! ### Digits -/

def digitsRx : Rx := .rep 1 none true digitSet

theorem spanLen_of_drop {P : Nat → Bool} : ∀ (D : Str) (p : Nat) (R : Str), s.drop p = D ++ R →
    (∀ x ∈ D, P x = true) → (∀ x ∈ R.head?, P x = false) → spanLen s P p = D.length
  | [], p, R, hd, _, hR => by
    cases R with
    | nil =>
      have : s[p]? = none := Ident.getElem?_of_drop_nil (by simpa using hd)
      rw [spanLen_of_none this]; rfl
    | cons x xs =>
      have hx : s[p]? = some x := getElem?_of_drop_cons (by simpa using hd)
      rw [spanLen_of_not hx (hR x (by simp))]; rfl
  | d :: D, p, R, hd, hD, hR => by
    have hx : s[p]? = some d := getElem?_of_drop_cons (by rw [hd]; rfl)
    have hd1 : s.drop (p + 1) = D ++ R := Ident.drop_succ_of_drop_cons (by rw [hd]; rfl)
    rw [spanLen_of_ok hx (hD d (by simp)),
      spanLen_of_drop D (p + 1) R hd1 (fun x hx => hD x (by simp [hx])) hR]
    rfl

theorem digits_runs {p : Nat} {D R : Str} (c : Caps) (hd : s.drop p = D ++ R)
    (hD : ∀ x ∈ D, isDigit x = true) (hR : ∀ x ∈ R.head?, isDigit x = false) :
    runs pyFoldEnv s digitsRx p c = down c (p + 1) (p + D.length) := by
  unfold digitsRx
  rw [runs_rep_char (isChar_digit s)]
  simp only [room, spanLen_of_drop D p R hd hD hR]

theorem digits_head {p : Nat} {D R : Str} (c : Caps) (hd : s.drop p = D ++ R) (hne : D ≠ [])
    (hD : ∀ x ∈ D, isDigit x = true) (hR : ∀ x ∈ R.head?, isDigit x = false) :
    (runs pyFoldEnv s digitsRx p c).head? = some (p + D.length, c) := by
  rw [digits_runs c hd hD hR]
  apply head_down
  have : 1 ≤ D.length := by cases D with | nil => exact absurd rfl hne | cons _ _ => simp
  omega

theorem digits_nil {p : Nat} (c : Caps) (h : ∀ x, s[p]? = some x → isDigit x = false) :
    runs pyFoldEnv s digitsRx p c = [] := by
  unfold digitsRx
  rw [runs_rep_char (isChar_digit s)]
  simp only [room]
  have : spanLen s isDigit p = 0 := by
    cases hx : s[p]? with
    | none => exact spanLen_of_none hx
    | some x => exact spanLen_of_not hx (h x hx)
  rw [this]
  exact down_empty c (by omega)

/-! ### `(?:[0-9]+n?|n)` -/

def rxA : Rx := .alt [.seq [digitsRx, .rep 0 (some 1) true litN], litN]

theorem litN_ok {p x : Nat} (c : Caps) (hx : s[p]? = some x) (hn : isN x = true) :
    runs pyFoldEnv s litN p c = [(p + 1, c)] := by
  rw [isChar_n s p c]; unfold charBody; rw [hx]; simp [hn]

theorem litN_fail {p : Nat} (c : Caps) (h : ∀ x, s[p]? = some x → isN x = false) :
    runs pyFoldEnv s litN p c = [] := by
  rw [isChar_n s p c]; unfold charBody
  cases hx : s[p]? with
  | none => rfl
  | some x => simp [h x hx]

theorem rxA_head {p : Nat} {D1 N R : Str} (c : Caps) (hd : s.drop p = D1 ++ (N ++ R))
    (hD1 : ∀ x ∈ D1, isDigit x = true) (hN : N = [] ∨ ∃ x, isN x = true ∧ N = [x])
    (hne : D1 ≠ [] ∨ N ≠ [])
    (hR : ∀ x ∈ R.head?, isDigit x = false ∧ isN x = false) :
    (runs pyFoldEnv s rxA p c).head? = some (p + D1.length + N.length, c) := by
  have hNR : ∀ x ∈ (N ++ R).head?, isDigit x = false := by
    rcases hN with h | ⟨x, hx, h⟩
    · subst h; intro y hy; exact (hR y (by simpa using hy)).1
    · subst h; intro y hy
      simp only [List.cons_append, List.head?_cons, Option.mem_def, Option.some.injEq] at hy
      subst hy
      simp only [isN, Bool.or_eq_true, beq_iff_eq] at hx
      rcases hx with h | h <;> subst h <;> rfl
  have hdN := drop_add_of_drop_append hd
  unfold rxA
  rw [runs_alt, runsAlt_cons, runsAlt_cons, runsAlt_nil, List.append_nil]
  by_cases hD : D1 = []
  · subst hD
    have hN' : N ≠ [] := by rcases hne with h | h; exact absurd rfl h; exact h
    obtain ⟨x, hx, rfl⟩ : ∃ x, isN x = true ∧ N = [x] := by
      rcases hN with h | h
      · exact absurd h hN'
      · exact h
    simp only [List.nil_append, List.length_nil, Nat.add_zero] at hd hdN ⊢
    have hx0 := getElem?_of_drop_cons (s := s) (p := p) (by rw [hd]; rfl)
    rw [runs_seq, runsSeq_cons, digits_nil c (by
      intro y hy; rw [hx0] at hy; cases hy
      simp only [isN, Bool.or_eq_true, beq_iff_eq] at hx
      rcases hx with h | h <;> subst h <;> rfl), litN_ok c hx0 hx]
    rfl
  · apply Ident.head?_append_of_some
    rw [runs_seq, runsSeq_cons]
    have hh := digits_head c hd hD hD1 hNR
    cases hr : runs pyFoldEnv s digitsRx p c with
    | nil => rw [hr] at hh; cases hh
    | cons y ys =>
      rw [hr] at hh
      simp only [List.head?_cons, Option.some.injEq] at hh
      subst hh
      apply head?_flatMap_cons
      rw [runsSeq_opt_cons, runsSeq_nil, Wsc.runsSeq_single]
      rcases hN with h | ⟨x, hx, h⟩
      · subst h
        simp only [List.nil_append, List.length_nil, Nat.add_zero] at hdN ⊢
        rw [litN_fail c (by
          intro y hy
          have : R.head? = some y := by rw [← hdN, List.head?_drop]; exact hy
          exact (hR y (by simp [this])).2)]
        rfl
      · subst h
        have hx0 := getElem?_of_drop_cons (s := s) (p := p + D1.length) (by rw [hdN]; rfl)
        rw [litN_ok c hx0 hx]
        rfl

/-! ### `(?:(?<=n)WSC*[-+]WSC*[0-9]+)?` -/

def lookN : Rx := .look false false litN

theorem lookN_runs (p : Nat) (c : Caps) :
    runs pyFoldEnv s lookN p c =
      if (decide (1 ≤ p) && (match s[p - 1]? with | some x => isN x | none => false)) = true
      then [(p, c)] else [] := by
  unfold lookN
  rw [runs]
  have hw : Rx.width litN = some 1 := rfl
  simp only [hw]
  rw [isChar_n s (p - 1) c]
  unfold charBody
  by_cases hp : 1 ≤ p
  · cases hx : s[p - 1]? with
    | none => simp
    | some x =>
      by_cases hn : isN x = true
      · simp [hp, hn]
      · simp [hp, hn]
  · simp [hp]

theorem sign_runs_ok {p x : Nat} (c : Caps) (hx : s[p]? = some x) (hs : isSign x = true) :
    runs pyFoldEnv s signSet p c = [(p + 1, c)] := by
  rw [isChar_sign s p c]; unfold charBody; rw [hx]; simp [hs]

theorem sign_runs_nil {p : Nat} (c : Caps) (h : ∀ x, s[p]? = some x → isSign x = false) :
    runs pyFoldEnv s signSet p c = [] := by
  rw [isChar_sign s p c]; unfold charBody
  cases hx : s[p]? with
  | none => rfl
  | some x => simp [h x hx]

theorem sign_nil_at_unit {j : Nat} (c : Caps) (h : (unitEnd s j).isSome = true) :
    runs pyFoldEnv s signSet j c = [] := by
  apply sign_runs_nil
  intro x hx
  have := unit_small s h hx
  obtain ⟨y, hy, h'⟩ := unit_start_char h
  rw [hx] at hy; cases hy
  rcases h' with h' | h'
  · simp only [isCssWs, Bool.or_eq_true, beq_iff_eq] at h'
    rcases h' with (((e | e) | e) | e) | e <;> subst e <;> rfl
  · subst h'; rfl

theorem digits_nil_at_unit {j : Nat} (c : Caps) (h : (unitEnd s j).isSome = true) :
    runs pyFoldEnv s digitsRx j c = [] := by
  apply digits_nil
  intro x hx
  obtain ⟨y, hy, h'⟩ := unit_start_char h
  rw [hx] at hy; cases hy
  rcases h' with h' | h'
  · simp only [isCssWs, Bool.or_eq_true, beq_iff_eq] at h'
    rcases h' with (((e | e) | e) | e) | e <;> subst e <;> rfl
  · subst h'; rfl

def tailRx (W3 W4 : Wrap s) : Rx := .seq [lookN, gapRx true, W3.w signSet, gapRx true, W4.w digitsRx]

/-- The optional second part is there. -/
theorem tail_head (W3 W4 : Wrap s) {p n sg : Nat} {g g' D2 R : Str} (c : Caps)
    (hp : 1 ≤ p) (hn : s[p - 1]? = some n) (hnn : isN n = true)
    (hd : s.drop p = g ++ (sg :: (g' ++ (D2 ++ R)))) (hg : isGap g) (hsg : isSign sg = true)
    (hg' : isGap g') (hne : D2 ≠ []) (hD2 : ∀ x ∈ D2, isDigit x = true)
    (hR : ∀ x ∈ R.head?, isDigit x = false) :
    (runs pyFoldEnv s (tailRx W3 W4) p c).head? =
      some (p + g.length + 1 + g'.length + D2.length,
        W4.f (p + g.length + 1 + g'.length) (p + g.length + 1 + g'.length + D2.length,
          W3.f (p + g.length) (p + g.length + 1, c))) := by
  have hsng : noGapStart (sg :: (g' ++ (D2 ++ R))) = true := by
    simp only [isSign, Bool.or_eq_true, beq_iff_eq] at hsg
    rcases hsg with h | h <;> subst h <;> simp [noGapStart, isCssWs]
  obtain ⟨d, ds, hds⟩ : ∃ d ds, D2 = d :: ds := by
    cases D2 with | nil => exact absurd rfl hne | cons d ds => exact ⟨d, ds, rfl⟩
  have hdng : noGapStart (D2 ++ R) = true := by
    have hdd := hD2 d (by simp [hds])
    simp only [isDigit, Bool.and_eq_true, decide_eq_true_eq] at hdd
    have h1 : isCssWs d = false := by simp [isCssWs]; omega
    have h2 : d ≠ 47 := by omega
    rw [hds]; simp [noGapStart, h1, h2]
  have hpl : p ≤ s.length := by
    rcases Nat.lt_or_ge s.length p with h | h
    · rw [List.drop_eq_nil_of_le (by omega)] at hd
      cases g <;> cases hd
    · exact h
  have hds1 := drop_add_of_drop_append hd
  have hsg0 := getElem?_of_drop_cons hds1
  have hds2 : s.drop (p + g.length + 1) = g' ++ (D2 ++ R) := Ident.drop_succ_of_drop_cons hds1
  have hds3 := drop_add_of_drop_append hds2
  have hsl := lt_of_drop_cons hds1
  unfold tailRx
  rw [runs_seq, runsSeq_cons, lookN_runs, hn]
  have hok : (decide (1 ≤ p) && (match some n with | some x => isN x | none => false)) = true := by
    simp [hp, hnn]
  rw [if_pos hok]
  simp only [List.flatMap_cons, List.flatMap_nil, List.append_nil]
  rw [gap_then_drop Wsc.caseFree_pyFold s p g _ c _ hd hg hsng hpl
      (fun j c' hj => W3.nil _ _ j c' (sign_nil_at_unit c' hj)),
    W3.single _ _ _ c _ (sign_runs_ok c hsg0 hsg),
    gap_then_drop Wsc.caseFree_pyFold s _ g' _ _ _ hds2 hg' hdng (by omega)
      (fun j c' hj => W4.nil _ _ j c' (digits_nil_at_unit c' hj))]
  exact W4.head _ _ _ _ _ _ (digits_head _ hds3 hne hD2 hR) (by rw [runsSeq_nil]; rfl)

/-- The optional second part is not there. -/
theorem tail_nil (W3 W4 : Wrap s) {p : Nat} (c : Caps) (hpl : p ≤ s.length)
    (h : (∀ x, s[p - 1]? = some x → isN x = false) ∨ p = 0 ∨
      ∀ x ∈ (skipWSC (s.drop p)).head?, isSign x = false) :
    runs pyFoldEnv s (tailRx W3 W4) p c = [] := by
  unfold tailRx
  rw [runs_seq, runsSeq_cons, lookN_runs]
  by_cases hok : (decide (1 ≤ p) && (match s[p - 1]? with | some x => isN x | none => false)) = true
  · rw [if_pos hok]
    simp only [Bool.and_eq_true, decide_eq_true_eq] at hok
    rcases h with h | h | h
    · exfalso
      cases hx : s[p - 1]? with
      | none => rw [hx] at hok; simp at hok
      | some x => rw [hx] at hok; have := h x hx; simp [this] at hok
    · omega
    · simp only [List.flatMap_cons, List.flatMap_nil, List.append_nil]
      rw [Wsc.gap_then true (fun _ => Wsc.caseFree_pyFold) s p hpl c _
        (fun j c' hj => W3.nil _ _ j c' (sign_nil_at_unit c' hj))]
      apply W3.nil
      apply sign_runs_nil
      intro x hx
      apply h x
      rw [← Wsc.gapEnd_drop s p hpl, List.head?_drop, hx]; rfl
  · rw [if_neg hok]; rfl

/-! ### The whole `[-+]?(?:[0-9]+n?|n)(?:…)?` -/

def tailText : Option (Str × Nat × Str × Str) → Str
  | none => []
  | some (g, sg, g', D2) => g ++ (sg :: (g' ++ D2))

def tailOK (n : Option Nat) : Option (Str × Nat × Str × Str) → Prop
  | none => True
  | some (g, sg, g', D2) =>
    n.isSome = true ∧ isGap g ∧ isSign sg = true ∧ isGap g' ∧ D2 ≠ [] ∧ ∀ x ∈ D2, isDigit x = true

def linRx (W1 W2 W3 W4 : Wrap s) : List Rx :=
  [.rep 0 (some 1) true (W1.w signSet), W2.w rxA, .rep 0 (some 1) true (tailRx W3 W4)]

/-- Captures after `(?:[0-9]+n?|n)(?:…)?` started at `i1` with captures `c1`. -/
def linRestCaps (W2 W3 W4 : Wrap s) (i1 : Nat) (c1 : Caps) (D : Str) (n : Option Nat)
    (T : Option (Str × Nat × Str × Str)) : Caps :=
  match T with
  | none => W2.f i1 (i1 + D.length + n.toList.length, c1)
  | some (g, _, g', D2) =>
    W4.f (i1 + D.length + n.toList.length + g.length + 1 + g'.length)
      (i1 + D.length + n.toList.length + g.length + 1 + g'.length + D2.length,
        W3.f (i1 + D.length + n.toList.length + g.length)
          (i1 + D.length + n.toList.length + g.length + 1,
            W2.f i1 (i1 + D.length + n.toList.length, c1)))

/-- Captures after the match. -/
def linCaps (W1 W2 W3 W4 : Wrap s) (i : Nat) (c : Caps) (sg : Option Nat) (D : Str) (n : Option Nat)
    (T : Option (Str × Nat × Str × Str)) : Caps :=
  linRestCaps W2 W3 W4 (i + sg.toList.length) (match sg with | some _ => W1.f i (i + 1, c) | none => c) D n T

/-- After the optional sign. -/
theorem lin_rest_head (W2 W3 W4 : Wrap s) (i1 : Nat) (c1 : Caps) (D : Str) (n : Option Nat)
    (T : Option (Str × Nat × Str × Str)) (R : Str)
    (hd : s.drop i1 = D ++ (n.toList ++ (tailText T ++ R)))
    (hD : ∀ x ∈ D, isDigit x = true)
    (hn : ∀ x, n = some x → isN x = true) (hne : D ≠ [] ∨ n.isSome = true) (hT : tailOK n T)
    (hR1 : ∀ x ∈ R.head?, isDigit x = false ∧ isN x = false)
    (hR2 : T = none → ∀ x ∈ (skipWSC R).head?, isSign x = false) :
    (runsSeq pyFoldEnv s [W2.w rxA, .rep 0 (some 1) true (tailRx W3 W4)] i1 c1).head? =
      some (i1 + D.length + n.toList.length + (tailText T).length,
        linRestCaps W2 W3 W4 i1 c1 D n T) := by
  have hTR : ∀ x ∈ (tailText T ++ R).head?, isDigit x = false ∧ isN x = false := by
    cases T with
    | none => simpa [tailText] using hR1
    | some q =>
      obtain ⟨g, s2, g', D2⟩ := q
      obtain ⟨_, hg, hs2, _, _, _⟩ := hT
      intro x hx
      cases g with
      | nil =>
        simp only [tailText, List.nil_append, List.cons_append, List.head?_cons, Option.mem_def,
          Option.some.injEq] at hx
        subst hx
        simp only [isSign, Bool.or_eq_true, beq_iff_eq] at hs2
        rcases hs2 with h | h <;> subst h <;> exact ⟨rfl, rfl⟩
      | cons y ys =>
        simp only [tailText, List.cons_append, List.head?_cons, Option.mem_def, Option.some.injEq] at hx
        subst hx
        rcases gap_head' hg y (by simp) with h | h
        · simp only [isCssWs, Bool.or_eq_true, beq_iff_eq] at h
          rcases h with (((e | e) | e) | e) | e <;> subst e <;> exact ⟨rfl, rfl⟩
        · subst h; exact ⟨rfl, rfl⟩
  have hNopt : n.toList = [] ∨ ∃ x, isN x = true ∧ n.toList = [x] := by
    cases n with
    | none => exact Or.inl rfl
    | some x => exact Or.inr ⟨x, hn x rfl, rfl⟩
  have hne' : D ≠ [] ∨ n.toList ≠ [] := by
    rcases hne with h | h
    · exact Or.inl h
    · right; cases n with | none => cases h | some x => simp
  have hdn := drop_add_of_drop_append hd
  have hdt := drop_add_of_drop_append hdn
  have hil : i1 + D.length + n.toList.length ≤ s.length := by
    have := congrArg List.length hd
    simp only [List.length_drop, List.length_append] at this
    rcases Nat.lt_or_ge s.length i1 with h | h
    · exfalso
      rw [List.drop_eq_nil_of_le (by omega)] at hd
      have : D = [] ∧ n = none := by cases D <;> cases n <;> simp at hd ⊢
      rcases hne with h' | h'
      · exact h' this.1
      · rw [this.2] at h'; cases h'
    · omega
  apply W2.head rxA _ i1 c1 _ _ (rxA_head c1 hd hD hNopt hne' hTR)
  rw [runsSeq_opt_cons, runsSeq_nil, Wsc.runsSeq_single]
  cases T with
  | none =>
    rw [tail_nil W3 W4 _ hil (Or.inr (Or.inr (by
      simp only [tailText, List.nil_append] at hdt
      rw [hdt]; exact hR2 rfl)))]
    simp [tailText, linRestCaps]
  | some q =>
    obtain ⟨g, s2, g', D2⟩ := q
    obtain ⟨hns, hg, hs2, hg', hne2, hD2⟩ := hT
    obtain ⟨x, rfl⟩ : ∃ x, n = some x := by cases n with | none => cases hns | some x => exact ⟨x, rfl⟩
    have hx0 := getElem?_of_drop_cons (s := s) (p := i1 + D.length) (by rw [hdn]; rfl)
    simp only [tailText, List.append_assoc, List.cons_append] at hdt
    apply Ident.head?_append_of_some
    rw [tail_head W3 W4 _ (by simp) (by simpa using hx0) (hn x rfl) hdt hg hs2 hg' hne2 hD2
      (fun y hy => (hR1 y hy).1)]
    simp only [tailText, linRestCaps, List.length_append, List.length_cons, Option.toList_some,
      List.length_nil]
    refine congrArg some (Prod.ext ?_ rfl)
    simp only; omega

theorem lin_head (W1 W2 W3 W4 : Wrap s) (i : Nat) (c : Caps) (sg : Option Nat) (D : Str) (n : Option Nat)
    (T : Option (Str × Nat × Str × Str)) (R : Str)
    (hd : s.drop i = sg.toList ++ (D ++ (n.toList ++ (tailText T ++ R))))
    (hsg : ∀ x, sg = some x → isSign x = true) (hD : ∀ x ∈ D, isDigit x = true)
    (hn : ∀ x, n = some x → isN x = true) (hne : D ≠ [] ∨ n.isSome = true) (hT : tailOK n T)
    (hR1 : ∀ x ∈ R.head?, isDigit x = false ∧ isN x = false)
    (hR2 : T = none → ∀ x ∈ (skipWSC R).head?, isSign x = false) :
    (runsSeq pyFoldEnv s (linRx W1 W2 W3 W4) i c).head? =
      some (i + (sg.toList ++ (D ++ (n.toList ++ tailText T))).length, linCaps W1 W2 W3 W4 i c sg D n T) := by
  have hd1 := drop_add_of_drop_append hd
  unfold linRx
  rw [runsSeq_opt_cons]
  cases sg with
  | some x =>
    have hx0 := getElem?_of_drop_cons (s := s) (p := i) (by rw [hd]; rfl)
    rw [W1.single _ _ _ c _ (sign_runs_ok c hx0 (hsg x rfl))]
    apply Ident.head?_append_of_some
    rw [lin_rest_head W2 W3 W4 (i + 1) _ D n T R (by simpa using hd1) hD hn hne hT hR1 hR2]
    refine congrArg some (Prod.ext ?_ rfl)
    simp only [Option.toList_some, List.length_cons, List.length_nil, List.length_append,
      List.cons_append, List.nil_append]
    omega
  | none =>
    simp only [Option.toList_none, List.nil_append, List.length_nil, Nat.add_zero] at hd ⊢
    have hs0 : ∀ x, s[i]? = some x → isSign x = false := by
      intro x hx
      have hx' : (D ++ (n.toList ++ (tailText T ++ R))).head? = some x := by
        rw [← hd, List.head?_drop]; exact hx
      cases D with
      | cons d ds =>
        simp only [List.cons_append, List.head?_cons, Option.some.injEq] at hx'
        subst hx'
        have := hD d (by simp)
        simp only [isDigit, Bool.and_eq_true, decide_eq_true_eq] at this
        simp [isSign]; omega
      | nil =>
        cases n with
        | none => rcases hne with h | h; exact absurd rfl h; cases h
        | some y =>
          simp only [List.nil_append, Option.toList_some, List.cons_append, List.head?_cons,
            Option.some.injEq] at hx'
          subst hx'
          have := hn y rfl
          simp only [isN, Bool.or_eq_true, beq_iff_eq] at this
          rcases this with h | h <;> subst h <;> rfl
    rw [W1.nil _ _ _ c (sign_runs_nil c hs0), List.nil_append,
      lin_rest_head W2 W3 W4 i _ D n T R hd hD hn hne hT hR1 hR2]
    refine congrArg some (Prod.ext ?_ rfl)
    simp only [List.length_append]
    omega

/-! ### Keywords under IGNORECASE (letters other than `i`, `s`, `k`, which have non-ASCII variants) -/

/-- A lower-case ASCII letter that only its two ASCII case variants fold to. -/
def plainLetter (c : Nat) : Bool := 97 ≤ c && c ≤ 122 && c != 105 && c != 115 && c != 107

theorem fold_plainLetter (c x : Nat) (hc : plainLetter c = true) :
    (pyFoldEnv.fold x == pyFoldEnv.fold c) = (lowerCp x == c) := by
  simp only [plainLetter, Bool.and_eq_true, decide_eq_true_eq, bne_iff_ne, ne_eq] at hc
  rw [Wsc.pyFold_fold x, Wsc.pyFold_fold c]
  have hcc : (if c = 304 then 105 else if c = 305 then 105 else if c = 383 then 115
      else if c = 8490 then 107 else lowerCp c) = c := by
    simp only [lowerCp]
    rw [if_neg (by omega), if_neg (by omega), if_neg (by omega), if_neg (by omega), if_neg (by omega)]
  rw [hcc]
  by_cases h1 : x = 304
  · subst h1; simp [lowerCp]; omega
  by_cases h2 : x = 305
  · subst h2; simp [lowerCp]; omega
  by_cases h3 : x = 383
  · subst h3; simp [lowerCp]; omega
  by_cases h4 : x = 8490
  · subst h4; simp [lowerCp]; omega
  simp only [h1, h2, h3, h4, if_false]

/-- The expression the translator produces for a keyword under `re.I`. -/
def kwRx (kw : Str) : List Rx := kw.map fun c => Rx.lit c true

/-- A keyword of plain letters matches exactly the texts that lower-case to it. -/
theorem kw_runs : ∀ (kw w : Str) (p : Nat) (c : Caps) (R : Str) (rs : List Rx),
    (∀ x ∈ kw, plainLetter x = true) → s.drop p = w ++ R → lower w = kw →
    runsSeq pyFoldEnv s (kwRx kw ++ rs) p c = runsSeq pyFoldEnv s rs (p + w.length) c
  | [], w, p, c, R, rs, _, _, hl => by
    have : w = [] := by cases w with | nil => rfl | cons _ _ => simp [lower] at hl
    subst this; simp [kwRx]
  | k :: kw, w, p, c, R, rs, hk, hd, hl => by
    cases w with
    | nil => simp [lower] at hl
    | cons x w =>
      simp only [lower, List.map_cons, List.cons.injEq] at hl
      have hx0 := getElem?_of_drop_cons (s := s) (p := p) (by rw [hd]; rfl)
      have hd1 : s.drop (p + 1) = w ++ R := Ident.drop_succ_of_drop_cons (by rw [hd]; rfl)
      simp only [kwRx, List.map_cons, List.cons_append]
      rw [runsSeq_char (isChar_lit pyFoldEnv s k true), hx0]
      simp only [if_true, fold_plainLetter k x (hk k (by simp)), hl.1, beq_self_eq_true]
      have := kw_runs kw w (p + 1) c R rs (fun y hy => hk y (by simp [hy])) hd1 hl.2
      simp only [kwRx] at this
      rw [this]
      simp only [List.length_cons]
      congr 1; omega

theorem kw_fail (k : Nat) (kw : Str) (p : Nat) (c : Caps) (rs : List Rx) (hk : plainLetter k = true)
    (h : ∀ x, s[p]? = some x → lowerCp x ≠ k) :
    runsSeq pyFoldEnv s (kwRx (k :: kw) ++ rs) p c = [] := by
  simp only [kwRx, List.map_cons, List.cons_append]
  rw [runsSeq_char (isChar_lit pyFoldEnv s k true)]
  cases hx : s[p]? with
  | none => rfl
  | some x =>
    simp only [if_true, fold_plainLetter k x hk]
    have := h x hx
    simp [this]

/-! ### Spelled An+B -/

/-- An+B with its spelling: `even` / `odd` in any letter case, or `[-+]? digits n?` / `[-+]? n`, the
    latter optionally followed by `gap [-+] gap digits`. -/
inductive SAnB where
  | even (m : List Bool)
  | odd (m : List Bool)
  | lin (sg : Option Nat) (D : Str) (n : Option Nat) (T : Option (Str × Nat × Str × Str))

def SAnB.render : SAnB → Str
  | .even m => mixCase m "even".toStr
  | .odd m => mixCase m "odd".toStr
  | .lin sg D n T => sg.toList ++ (D ++ (n.toList ++ tailText T))

def SAnB.ok : SAnB → Prop
  | .even _ => True
  | .odd _ => True
  | .lin sg D n T =>
    (∀ x, sg = some x → isSign x = true) ∧ (∀ x ∈ D, isDigit x = true) ∧
    (∀ x, n = some x → isN x = true) ∧ (D ≠ [] ∨ n.isSome = true) ∧ tailOK n T

/-- The value: lower case, no gaps. -/
def SAnB.canon : SAnB → Str
  | .even _ => "even".toStr
  | .odd _ => "odd".toStr
  | .lin sg D n T =>
    sg.toList ++ (D ++ ((n.map fun _ => 110).toList ++
      tailText (T.map fun q => ([], q.2.1, [], q.2.2.2))))

def evenRx : Rx := .seq (kwRx "even".toStr)
def oddRx : Rx := .seq (kwRx "odd".toStr)

/-- The An+B alternative of the `nth` tokens (no groups inside). -/
def rxAnbU (s : Str) : Rx :=
  .alt [.seq (linRx (Wrap.none s) (Wrap.none s) (Wrap.none s) (Wrap.none s)), evenRx, oddRx]

theorem linCaps_none (i : Nat) (c : Caps) (sg : Option Nat) (D : Str) (n : Option Nat)
    (T : Option (Str × Nat × Str × Str)) :
    linCaps (Wrap.none s) (Wrap.none s) (Wrap.none s) (Wrap.none s) i c sg D n T = c := by
  cases sg <;> cases T <;> rfl

theorem lin_nil_at_letter {p : Nat} (c : Caps)
    (h : ∀ x, s[p]? = some x → isSign x = false ∧ isDigit x = false ∧ isN x = false) :
    runsSeq pyFoldEnv s (linRx (Wrap.none s) (Wrap.none s) (Wrap.none s) (Wrap.none s)) p c = [] := by
  unfold linRx
  rw [runsSeq_opt_cons, (Wrap.none s).nil _ _ _ c (sign_runs_nil c (fun x hx => (h x hx).1)),
    List.nil_append]
  apply (Wrap.none s).nil
  unfold rxA
  rw [runs_alt, runsAlt_cons, runsAlt_cons, runsAlt_nil, runs_seq, runsSeq_cons,
    digits_nil c (fun x hx => (h x hx).2.1), litN_fail c (fun x hx => (h x hx).2.2)]
  rfl

/-- The first run of the An+B alternative on a spelled An+B. -/
theorem anb_head (a : SAnB) (hok : a.ok) (p : Nat) (c : Caps) (R : Str)
    (hd : s.drop p = a.render ++ R)
    (hR1 : ∀ x ∈ R.head?, isDigit x = false ∧ isN x = false)
    (hR2 : ∀ x ∈ (skipWSC R).head?, isSign x = false) :
    (runs pyFoldEnv s (rxAnbU s) p c).head? = some (p + a.render.length, c) := by
  unfold rxAnbU
  rw [runs_alt, runsAlt_cons, runsAlt_cons, runsAlt_cons, runsAlt_nil, List.append_nil]
  cases a with
  | lin sg D n T =>
    obtain ⟨hsg, hD, hn, hne, hT⟩ := hok
    apply Ident.head?_append_of_some
    rw [runs_seq, lin_head _ _ _ _ p c sg D n T R
      (by simpa [SAnB.render, List.append_assoc] using hd) hsg hD hn hne hT hR1 (fun _ => hR2),
      linCaps_none]
    rfl
  | even m =>
    have hl : lower (mixCase m "even".toStr) = "even".toStr :=
      SpellingLemmas.lower_mixCase m _ (by decide)
    have hx : ∀ x, s[p]? = some x → lowerCp x = 101 := by
      intro x hx
      have : (mixCase m "even".toStr ++ R).head? = some x := by
        rw [← SAnB.render, ← hd, List.head?_drop]; exact hx
      cases hm : mixCase m "even".toStr with
      | nil => rw [hm] at hl; cases hl
      | cons y ys =>
        rw [hm] at this hl
        simp only [List.cons_append, List.head?_cons, Option.some.injEq] at this
        subst this
        simp only [lower, List.map_cons] at hl
        exact (List.cons.inj hl).1
    rw [runs_seq, lin_nil_at_letter c (by
      intro x hx'
      have := hx x hx'
      simp only [lowerCp] at this
      refine ⟨?_, ?_, ?_⟩
      · simp [isSign]; split at this <;> omega
      · simp [isDigit]; split at this <;> omega
      · simp [isN]; split at this <;> omega), List.nil_append]
    apply Ident.head?_append_of_some
    unfold evenRx
    rw [runs_seq]
    have := kw_runs "even".toStr _ p c R [] (by decide) hd hl
    simp only [List.append_nil] at this
    rw [this, runsSeq_nil]
    rfl
  | odd m =>
    have hl : lower (mixCase m "odd".toStr) = "odd".toStr :=
      SpellingLemmas.lower_mixCase m _ (by decide)
    have hx : ∀ x, s[p]? = some x → lowerCp x = 111 := by
      intro x hx
      have : (mixCase m "odd".toStr ++ R).head? = some x := by
        rw [← SAnB.render, ← hd, List.head?_drop]; exact hx
      cases hm : mixCase m "odd".toStr with
      | nil => rw [hm] at hl; cases hl
      | cons y ys =>
        rw [hm] at this hl
        simp only [List.cons_append, List.head?_cons, Option.some.injEq] at this
        subst this
        simp only [lower, List.map_cons] at hl
        exact (List.cons.inj hl).1
    rw [runs_seq, lin_nil_at_letter c (by
      intro x hx'
      have := hx x hx'
      simp only [lowerCp] at this
      refine ⟨?_, ?_, ?_⟩
      · simp [isSign]; split at this <;> omega
      · simp [isDigit]; split at this <;> omega
      · simp [isN]; split at this <;> omega), List.nil_append]
    unfold evenRx
    rw [runs_seq]
    have hfail := kw_fail 101 "ven".toStr p c [] (by decide) (by
      intro x hx'; rw [hx x hx']; decide)
    simp only [List.append_nil] at hfail
    have he : kwRx "even".toStr = kwRx (101 :: "ven".toStr) := rfl
    rw [he, hfail, List.nil_append]
    unfold oddRx
    rw [runs_seq]
    have := kw_runs "odd".toStr _ p c R [] (by decide) hd hl
    simp only [List.append_nil] at this
    rw [this, runsSeq_nil]
    rfl

end Compile
end Refine
end SoupVerif

#print axioms SoupVerif.Refine.Compile.lin_head
#print axioms SoupVerif.Refine.Compile.anb_head
