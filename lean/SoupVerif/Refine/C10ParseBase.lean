/-
  Helpers for `Properties/C10Parse.lean` (C10 from the selector TEXT).

    * `escForms s`        the spelling `css_parser.escape` (model: `Escape.escape`) uses for `s`, as a `Forms` of
                          `C09Compile`'s grammar: `identForms (nulToFFFD s)` (`Refine/C01ParseBase.lean` has
                          `identForms` for NUL-free values; `escape` writes NUL as U+FFFD, i.e. exactly as it
                          writes the value `nulToFFFD s`: `escape_nulToFFFD`);
    * `simpleOf`, `simplesOf`, `applyItems_simples`, `partsOk_compileParts`
                          the parser / matcher on a compound whose simple selectors are `#id`, `.class` and
                          attribute selectors (with or without prefix): generalises `C12Parse.applyItems_attrs` /
                          `partsOk_addAttrs` (attribute selectors only).
-/
import SoupVerif.Properties.C12Parse
import SoupVerif.Properties.C10
import SoupVerif.Refine.C01ParseBase
namespace SoupVerif
namespace C10Parse
open Escape Spelling SoupVerif.Parser Refine.Compile
open C09Compile (Forms identOK AttrV SAttr SAttrOp SValue opText STag)
open C09Compile2 (STagN SItem SCompound itemsOK renderItems itemsValue applyItems applyAttr Item)
open Css (AttrTest AttrOp CaseFlag Parts addSimple compileParts Simple satSimple)
open C01Parse (mkB implB implTag identForms)
open C12Parse (testOf)

/-! ## `escape` reads NUL as it reads U+FFFD -/

theorem escapeChar_fix (lead : Bool) (c : Nat) :
    escapeChar lead (if c == 0 then 0xFFFD else c) = escapeChar lead c := by
  by_cases h : c = 0
  · subst h; cases lead <;> decide
  · simp [h]

theorem escapeGo_nulToFFFD (sd : Bool) : ∀ (s : Str) (i : Nat),
    escapeGo sd i (nulToFFFD s) = escapeGo sd i s
  | [], _ => rfl
  | c :: cs, i => by
    have ih := escapeGo_nulToFFFD sd cs (i + 1)
    simp only [nulToFFFD, List.map_cons, escapeGo] at ih ⊢
    rw [escapeChar_fix, ih]

theorem startDash_nulToFFFD (s : Str) : startDash (nulToFFFD s) = startDash s := by
  cases s with
  | nil => rfl
  | cons c cs =>
    by_cases h : c = 0
    · subst h; simp [startDash, nulToFFFD]
    · simp [startDash, nulToFFFD, h]

/-- `escape` writes `s` exactly as it writes `s` with NUL replaced by U+FFFD. -/
theorem escape_nulToFFFD (s : Str) : escape (nulToFFFD s) = escape s := by
  have hl : (nulToFFFD s).length = s.length := by simp [nulToFFFD]
  unfold escape
  rw [startDash_nulToFFFD, hl, escapeGo_nulToFFFD]
  by_cases h : (s.length == 1 && startDash s) = true
  · rw [if_pos h, if_pos h]
    simp only [Bool.and_eq_true, beq_iff_eq] at h
    match s, h.1, h.2 with
    | [c], _, h2 =>
      simp only [startDash, List.head?_cons, Option.some.injEq, beq_iff_eq] at h2
      subst h2; rfl
  · rw [if_neg h, if_neg h]

theorem nulToFFFD_noNul (s : Str) : ∀ c ∈ nulToFFFD s, c ≠ 0 := by
  intro c hc
  simp only [nulToFFFD, List.mem_map] at hc
  obtain ⟨d, _, rfl⟩ := hc
  by_cases h : d = 0 <;> simp [h]

theorem nulToFFFD_ne_nil {s : Str} (hs : s ≠ []) : nulToFFFD s ≠ [] := by
  cases s with
  | nil => exact absurd rfl hs
  | cons c cs => simp [nulToFFFD]

theorem nulToFFFD_id {s : Str} (h : ∀ c ∈ s, c ≠ 0) : nulToFFFD s = s := by
  unfold nulToFFFD
  conv => rhs; rw [← List.map_id s]
  apply List.map_congr_left
  intro c hc
  simp [h c hc]

/-! ## The spelling `escape` uses -/

/-- **The forms `css_parser.escape` writes `s` in**: NUL as a literal U+FFFD, control characters, DEL and a
    leading digit (also after a leading `-`) as `\hex ` (lower-case digits, no padding, a space as terminator),
    `-`, `_`, ASCII letters and digits and everything from U+0080 literally, any other ASCII character as `\c`;
    the string `-` as `\-`. -/
def escForms (s : Str) : Forms := identForms (nulToFFFD s)

theorem escForms_render (s : Str) : renderIdentWith (escForms s) = escape s := by
  rw [escForms, C01Parse.identForms_render _ (nulToFFFD_noNul s), escape_nulToFFFD]

theorem escForms_value (s : Str) : valueOf (escForms s) = nulToFFFD s :=
  C01Parse.identForms_value _

/-- Admissible in front of ANY text: every hex escape `escape` writes carries its terminating space, so no
    continuation can be read into it. -/
theorem escForms_ok (s : Str) (hs : s ≠ []) (r : Str) : identOK (escForms s) r :=
  C01Parse.identForms_ok _ (nulToFFFD_ne_nil hs) (nulToFFFD_noNul s) r

theorem escForms_of_noNul {s : Str} (h : ∀ c ∈ s, c ≠ 0) : escForms s = identForms s := by
  rw [escForms, nulToFFFD_id h]

/-! ## Compounds of `#id`, `.class` and attribute selectors -/

/-- The simple selector of `Spec/Css.lean` an item spells, by VALUE (`none` for the other items). -/
def simpleOf : SItem → Option Simple
  | .id f => some (.id (valueOf f))
  | .cls f => some (.cls (valueOf f))
  | .attr a => some (.attr [] (valueOf a.name) (testOf a.value))
  | .attrNs ns a => some (.attr ns.value (valueOf a.name) (testOf a.value))
  | _ => none

def simplesOf (items : List SItem) : List Simple := items.filterMap simpleOf

theorem applyItems_simples (B : Builtins) (tag : Option SelTag) (r : Str) : ∀ (items : List SItem) (p : Parts),
    itemsOK items r → (∀ it ∈ items, (simpleOf it).isSome = true) →
    applyItems B (itemsValue items) (mkB p tag [] .none) = mkB (compileParts p (simplesOf items)) tag [] .none
  | [], p, _, _ => by simp [itemsValue, applyItems, simplesOf, compileParts]
  | it :: rest, p, hok, hall => by
    rw [itemsOK] at hok
    have ih := fun p => applyItems_simples B tag r rest p hok.2 (fun i hi => hall i (by simp [hi]))
    have hit := hall it (by simp)
    cases it with
    | id f =>
      rw [itemsValue, SItem.value, applyItems, Item.apply, C01Parse.addId_mkB, ih]
      simp [simplesOf, simpleOf, compileParts, addSimple]
    | cls f =>
      rw [itemsValue, SItem.value, applyItems, Item.apply, C01Parse.addClass_mkB, ih]
      simp [simplesOf, simpleOf, compileParts, addSimple]
    | attr a =>
      have hv := C12Parse.value_attrV a _ (by simpa [SItem.ok] using hok.1)
      rw [itemsValue, SItem.value, applyItems, Item.apply, hv, NsParse.applyAttr_mkB, ih]
      simp [simplesOf, simpleOf, compileParts]
    | attrNs ns a =>
      have hv := C12Parse.value_attrV a _ (by have := hok.1; rw [SItem.ok] at this; exact this.1)
      rw [itemsValue, SItem.value, applyItems, Item.apply, hv, NsParse.applyAttr_mkB, ih]
      simp [simplesOf, simpleOf, compileParts]
    | _ => simp [simpleOf] at hit

/-- What the matcher needs of a leaf: an id is not empty (the grammar cannot write an empty id), a
    case-INSENSITIVE attribute comparison has an ASCII-folding matcher environment. -/
def LeafOK (c : Ctx) : Simple → Prop
  | .id v => v ≠ []
  | .cls _ => True
  | .attr _ name test => ∀ t, test = some t → Css.caseInsensitive c name t.flag = true → c.env.fold = lowerCp
  | _ => False

theorem addSimple_leaf_flags (c : Ctx) (p : Parts) (s : Simple) (h : LeafOK c s) :
    (addSimple p s).flags = p.flags := by
  cases s with
  | id v => rfl
  | cls v => rfl
  | attr ns name test => exact NsParse.addSimple_attr_flags p ns name test
  | _ => exact absurd h (by simp [LeafOK])

theorem compileParts_leaf_flags (c : Ctx) : ∀ (ss : List Simple) (p : Parts), (∀ s ∈ ss, LeafOK c s) →
    (compileParts p ss).flags = p.flags
  | [], _, _ => rfl
  | s :: rest, p, h => by
    rw [compileParts, compileParts_leaf_flags c rest _ (fun x hx => h x (by simp [hx])),
      addSimple_leaf_flags c p s (h s (by simp))]

theorem partsOk_leaf (c : Ctx) (l : Loc) (e : Elem) (p : Parts) (s : Simple) (h : LeafOK c s) :
    SatCore.partsOk c l e (addSimple p s) = (SatCore.partsOk c l e p && satSimple c l e s) := by
  cases s with
  | id v =>
    simp only [addSimple, satSimple]
    rw [SatParts.partsOk_ids, SatLeaf.id_single c e v h]
  | cls v =>
    simp only [addSimple, satSimple]
    rw [SatParts.partsOk_classes, SatLeaf.class_single]
  | attr ns name test =>
    rw [NsParse.partsOk_attr c l e p ns name test h]
    simp only [satSimple]
  | _ => exact absurd h (by simp [LeafOK])

theorem partsOk_compileParts (c : Ctx) (l : Loc) (e : Elem) : ∀ (ss : List Simple) (p : Parts),
    (∀ s ∈ ss, LeafOK c s) →
    SatCore.partsOk c l e (compileParts p ss) = (SatCore.partsOk c l e p && ss.all (satSimple c l e))
  | [], p, _ => by simp [compileParts]
  | s :: rest, p, h => by
    rw [compileParts, partsOk_compileParts c l e rest _ (fun x hx => h x (by simp [hx])),
      partsOk_leaf c l e p s (h s (by simp)), List.all_cons, Bool.and_assoc]

/-- The ids the items spell are not empty. -/
theorem simplesOf_id_ne_nil (r : Str) : ∀ (items : List SItem), itemsOK items r →
    ∀ v, Simple.id v ∈ simplesOf items → v ≠ []
  | [], _, v, hv => by simp [simplesOf] at hv
  | it :: rest, hok, v, hv => by
    rw [itemsOK] at hok
    have ih := simplesOf_id_ne_nil r rest hok.2 v
    cases it with
    | id f =>
      simp only [simplesOf, List.filterMap_cons, simpleOf, List.mem_cons, Simple.id.injEq] at hv
      rcases hv with rfl | hv
      · exact C12Parse.forms_value_ne_nil (by simpa [SItem.ok] using hok.1)
      · exact ih hv
    | cls f =>
      simp only [simplesOf, List.filterMap_cons, simpleOf, List.mem_cons, reduceCtorEq, false_or] at hv
      exact ih hv
    | attr a =>
      simp only [simplesOf, List.filterMap_cons, simpleOf, List.mem_cons, reduceCtorEq, false_or] at hv
      exact ih hv
    | attrNs ns a =>
      simp only [simplesOf, List.filterMap_cons, simpleOf, List.mem_cons, reduceCtorEq, false_or] at hv
      exact ih hv
    | _ =>
      simp only [simplesOf, List.filterMap_cons, simpleOf] at hv
      exact ih hv

end C10Parse
end SoupVerif
