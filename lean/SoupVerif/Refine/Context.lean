/-
  Refinement: the hand scanner `Context.splitLines` (Model/Context.lean) computes exactly
  `RE_PATTERN_LINE_SPLIT.finditer(pattern)` as computed by the regex-engine model on the regular
  expression regenerated from the source (`Gen.util_RE_PATTERN_LINE_SPLIT`), for ALL strings.
-/
import SoupVerif.Model.Context
import SoupVerif.Generated.Regexes
import SoupVerif.Lemmas.RxBasic
namespace SoupVerif
namespace Refine
namespace Context
open Rx RxBasic SoupVerif.Context

/-! ### `finditer` -/

/-- The match CPython's scanner accepts at `pos`: the first run of the backtracking engine, or —
    when the previous match was empty and ended here (`state->must_advance`) — the first run that
    is not empty (the engine rejects an empty top-level success at the start position and
    backtracks). -/
def firstRun (env : CharEnv) (r : Rx) (s : Str) (pos : Nat) (mustAdvance : Bool) : Option (Nat × Caps) :=
  if mustAdvance then (runs env s r pos []).find? (fun x => x.1 != pos)
  else matchAt env r s pos

/-- CPython (≥ 3.7) `pattern.finditer(s)` as `(m.start(), m.end())`, faithful also for empty
    matches: the scanner searches from `pos`; no match at `pos`: try `pos + 1` (up to and including
    `len(s)`); a match `(pos, e)` is emitted and the next search starts at `e`, with
    `must_advance = (e == pos)`, which forbids an *empty* match at the first position tried
    (a non-empty match starting there is allowed: `re.finditer('|a', 'a')` gives `(0,0),(0,1),(1,1)`). -/
def finditerAux (env : CharEnv) (r : Rx) (s : Str) : Nat → Nat → Bool → List (Nat × Nat)
  | 0, _, _ => []
  | fuel + 1, pos, adv =>
    if pos > s.length then [] else
    match firstRun env r s pos adv with
    | none => finditerAux env r s fuel (pos + 1) false
    | some (e, _) => (pos, e) :: finditerAux env r s fuel e (e == pos)

/-- Every step either advances `pos` or turns `must_advance` on at the same `pos`: at most two
    steps per position `0 … len(s)`, and one to run off the end. -/
def finditer (env : CharEnv) (r : Rx) (s : Str) : List (Nat × Nat) :=
  finditerAux env r s (2 * s.length + 3) 0 false

/-- The simplified loop of the task description (an empty match at `pos` continues at `pos + 1`,
    so two matches never start at the same position), fuel `s.length + 2`.  It agrees with
    `finditer` on this regular expression (`finditerSimple_lineSplit`), not in general. -/
def finditerSimpleAux (env : CharEnv) (r : Rx) (s : Str) : Nat → Nat → List (Nat × Nat)
  | 0, _ => []
  | fuel + 1, pos =>
    if pos > s.length then [] else
    match matchAt env r s pos with
    | none => finditerSimpleAux env r s fuel (pos + 1)
    | some (e, _) => (pos, e) :: finditerSimpleAux env r s fuel (if e > pos then e else pos + 1)

def finditerSimple (env : CharEnv) (r : Rx) (s : Str) : List (Nat × Nat) :=
  finditerSimpleAux env r s (s.length + 2) 0

/-- The `for m in finditer` loop's view: every match together with the value of `last`
    (the end of the previous match, `last0` for the first). -/
def withLast : Nat → List (Nat × Nat) → List Match
  | _, [] => []
  | last, (a, b) :: ms => (last, a, b) :: withLast b ms

/-! ### The regular expression -/

/-- The explicit term `(?:\r\n|(?!\r\n)[\n\r])|$`. -/
def R : Rx :=
  .alt [.alt [.seq [.lit 13 false, .lit 10 false],
              .seq [.look true true (.seq [.lit 13 false, .lit 10 false]),
                    .set false [.ch 10, .ch 13] false]],
        .eol]

/-- Shape lemma: breaks when the regex in the Python source changes. -/
theorem lineSplit_shape : Gen.util_RE_PATTERN_LINE_SPLIT = R := rfl

theorem lt_of_getElem? {s : Str} {i x : Nat} (h : s[i]? = some x) : i < s.length := by
  rcases Nat.lt_or_ge i s.length with h' | h'
  · exact h'
  · rw [List.getElem?_eq_none h'] at h; cases h

/-- `\r\n`: one match of width 2. -/
theorem runs_crlf (env : CharEnv) (s : Str) (i : Nat) (h0 : s[i]? = some 13) (h1 : s[i+1]? = some 10) :
    runs env s R i [] = [(i + 2, [])] := by
  have hlt := lt_of_getElem? h1
  simp [R, runs, runsAlt, runsSeq, h0, h1, setHas, itemHas]
  omega

/-- a lone `\r`: one match of width 1. -/
theorem runs_cr (env : CharEnv) (s : Str) (i : Nat) (h0 : s[i]? = some 13) (h1 : s[i+1]? ≠ some 10) :
    runs env s R i [] = [(i + 1, [])] := by
  have hlt := lt_of_getElem? h0
  cases h : s[i+1]? with
  | none =>
    simp [R, runs, runsAlt, runsSeq, h0, h, setHas, itemHas]
    omega
  | some d =>
    have hd : d ≠ 10 := by intro e; rw [h, e] at h1; exact h1 rfl
    simp [R, runs, runsAlt, runsSeq, h0, h, hd, setHas, itemHas]
    omega

/-- `\n`: a match of width 1 first; the `$` before a final `\n` comes second. -/
theorem runs_lf (env : CharEnv) (s : Str) (i : Nat) (h0 : s[i]? = some 10) :
    runs env s R i [] = (i + 1, []) :: (if i + 1 = s.length then [(i, [])] else []) := by
  have hlt := lt_of_getElem? h0
  by_cases hl : i + 1 = s.length
  · simp [R, runs, runsAlt, runsSeq, h0, hl, setHas, itemHas]
  · simp [R, runs, runsAlt, runsSeq, h0, hl, setHas, itemHas]
    omega

/-- any other character: no match. -/
theorem runs_other (env : CharEnv) (s : Str) (i c : Nat) (h0 : s[i]? = some c) (h13 : c ≠ 13)
    (h10 : c ≠ 10) : runs env s R i [] = [] := by
  have hlt := lt_of_getElem? h0
  simp [R, runs, runsAlt, runsSeq, h0, h13, h10, setHas, itemHas]
  omega

/-- at the end: the empty match of `$`. -/
theorem runs_end (env : CharEnv) (s : Str) : runs env s R s.length [] = [(s.length, [])] := by
  simp [R, runs, runsAlt, runsSeq]

/-! ### Suffixes -/

theorem drop_cons_info {s : Str} {pos c : Nat} {rest : Str} (h : s.drop pos = c :: rest) :
    s[pos]? = some c ∧ s.drop (pos + 1) = rest ∧ pos < s.length := by
  have hlt : pos < s.length := by
    rcases Nat.lt_or_ge pos s.length with h' | h'
    · exact h'
    · rw [List.drop_eq_nil_of_le h'] at h; cases h
  rw [List.drop_eq_getElem_cons hlt] at h
  injection h with h1 h2
  exact ⟨by rw [List.getElem?_eq_getElem hlt, h1], h2, hlt⟩

theorem drop_nil_info {s : Str} {pos : Nat} (h : s.drop pos = []) : s.length ≤ pos := by
  simpa using h

/-! ### The scanner loop on `R` -/

theorem firstRun_false (env : CharEnv) (r : Rx) (s : Str) (pos : Nat) :
    firstRun env r s pos false = (runs env s r pos []).head? := rfl

theorem firstRun_true (env : CharEnv) (r : Rx) (s : Str) (pos : Nat) :
    firstRun env r s pos true = (runs env s r pos []).find? (fun x => x.1 != pos) := rfl

/-- A non-empty match at `pos < len(s)`. -/
theorem finditerAux_hit (env : CharEnv) (r : Rx) (s : Str) (fuel pos e : Nat) (c : Caps)
    (tl : List (Nat × Caps)) (hpos : pos ≤ s.length) (hr : runs env s r pos [] = (e, c) :: tl)
    (he : e ≠ pos) :
    finditerAux env r s (fuel + 1) pos false = (pos, e) :: finditerAux env r s fuel e false := by
  rw [finditerAux, if_neg (by omega), firstRun_false, hr]
  have : (e == pos) = false := by simpa using he
  simp [this]

/-- No match at `pos`. -/
theorem finditerAux_miss (env : CharEnv) (r : Rx) (s : Str) (fuel pos : Nat)
    (hpos : pos ≤ s.length) (hr : runs env s r pos [] = []) :
    finditerAux env r s (fuel + 1) pos false = finditerAux env r s fuel (pos + 1) false := by
  rw [finditerAux, if_neg (by omega), firstRun_false, hr]
  rfl

/-- At the end of the input: the empty match, then nothing. -/
theorem finditerAux_end (env : CharEnv) (s : Str) (fuel : Nat) :
    finditerAux env R s (fuel + 3) s.length false = [(s.length, s.length)] := by
  rw [finditerAux, if_neg (by omega), firstRun_false, runs_end]
  simp only [List.head?_cons, beq_self_eq_true]
  rw [finditerAux, if_neg (by omega), firstRun_true, runs_end]
  simp only [List.find?_cons, bne_self_eq_false, List.find?_nil]
  rw [finditerAux, if_pos (by omega)]

/-- The loop's view of the engine's `finditer` on the suffix at `pos` is the hand scanner. -/
theorem withLast_finditerAux (env : CharEnv) (s : Str) : ∀ (t : Str) (pos last fuel : Nat),
    s.drop pos = t → pos ≤ s.length → 2 * (s.length - pos) + 3 ≤ fuel →
    withLast last (finditerAux env R s fuel pos false) = splitLinesAux t pos last := by
  intro t pos last
  induction t, pos, last using splitLinesAux.induct with
  | case1 pos last =>
    intro fuel hd hle hf
    have := drop_nil_info hd
    have hp : pos = s.length := by omega
    subst hp
    obtain ⟨f, rfl⟩ : ∃ f, fuel = f + 3 := ⟨fuel - 3, by omega⟩
    rw [finditerAux_end, splitLinesAux]; rfl
  | case2 pos last rest' ih =>
    intro fuel hd hle hf
    obtain ⟨h0, hd1, hlt⟩ := drop_cons_info hd
    obtain ⟨h1, hd2, hlt1⟩ := drop_cons_info hd1
    obtain ⟨f, rfl⟩ : ∃ f, fuel = f + 1 := ⟨fuel - 1, by omega⟩
    rw [finditerAux_hit env R s f pos (pos + 2) [] [] hle (runs_crlf env s pos h0 h1) (by omega)]
    rw [splitLinesAux]
    simp only [if_true, withLast]
    rw [ih f hd2 (by omega) (by omega)]
  | case3 pos last d rest' hd10 ih =>
    intro fuel hd hle hf
    obtain ⟨h0, hd1, hlt⟩ := drop_cons_info hd
    obtain ⟨h1, hd2, hlt1⟩ := drop_cons_info hd1
    obtain ⟨f, rfl⟩ : ∃ f, fuel = f + 1 := ⟨fuel - 1, by omega⟩
    have h1' : s[pos + 1]? ≠ some 10 := by rw [h1]; intro e; exact hd10 (Option.some.inj e)
    rw [finditerAux_hit env R s f pos (pos + 1) [] [] hle (runs_cr env s pos h0 h1') (by omega)]
    rw [splitLinesAux]
    simp only [if_true, hd10, if_false, withLast]
    rw [ih f hd1 (by omega) (by omega)]
  | case4 pos last ih =>
    intro fuel hd hle hf
    obtain ⟨h0, hd1, hlt⟩ := drop_cons_info hd
    have hn : s[pos + 1]? = none := by
      have := drop_nil_info hd1
      exact List.getElem?_eq_none this
    obtain ⟨f, rfl⟩ : ∃ f, fuel = f + 1 := ⟨fuel - 1, by omega⟩
    have h1' : s[pos + 1]? ≠ some 10 := by rw [hn]; intro e; cases e
    rw [finditerAux_hit env R s f pos (pos + 1) [] [] hle (runs_cr env s pos h0 h1') (by omega)]
    rw [splitLinesAux]
    simp only [if_true, withLast]
    rw [ih f hd1 (by omega) (by omega)]
  | case5 rest pos last _ ih =>
    intro fuel hd hle hf
    obtain ⟨h0, hd1, hlt⟩ := drop_cons_info hd
    obtain ⟨f, rfl⟩ : ∃ f, fuel = f + 1 := ⟨fuel - 1, by omega⟩
    rw [finditerAux_hit env R s f pos (pos + 1) [] _ hle (runs_lf env s pos h0) (by omega)]
    rw [splitLinesAux.eq_def]
    simp only [withLast]
    rw [ih f hd1 (by omega) (by omega)]
    simp
  | case6 c rest pos last h13 h10 ih =>
    intro fuel hd hle hf
    obtain ⟨h0, hd1, hlt⟩ := drop_cons_info hd
    obtain ⟨f, rfl⟩ : ∃ f, fuel = f + 1 := ⟨fuel - 1, by omega⟩
    rw [finditerAux_miss env R s f pos hle (runs_other env s pos c h0 h13 h10)]
    rw [splitLinesAux.eq_def]
    simp only [h13, h10, if_false]
    exact ih f hd1 (by omega) (by omega)

/-! ### The simplified loop on `R` -/

theorem finditerSimpleAux_hit (env : CharEnv) (r : Rx) (s : Str) (fuel pos e : Nat) (c : Caps)
    (tl : List (Nat × Caps)) (hpos : pos ≤ s.length) (hr : runs env s r pos [] = (e, c) :: tl)
    (he : e > pos) :
    finditerSimpleAux env r s (fuel + 1) pos = (pos, e) :: finditerSimpleAux env r s fuel e := by
  rw [finditerSimpleAux, if_neg (by omega), matchAt, hr]
  simp [he]

theorem finditerSimpleAux_miss (env : CharEnv) (r : Rx) (s : Str) (fuel pos : Nat)
    (hpos : pos ≤ s.length) (hr : runs env s r pos [] = []) :
    finditerSimpleAux env r s (fuel + 1) pos = finditerSimpleAux env r s fuel (pos + 1) := by
  rw [finditerSimpleAux, if_neg (by omega), matchAt, hr]
  rfl

theorem finditerSimpleAux_end (env : CharEnv) (s : Str) (fuel : Nat) :
    finditerSimpleAux env R s (fuel + 2) s.length = [(s.length, s.length)] := by
  rw [finditerSimpleAux, if_neg (by omega), matchAt, runs_end]
  simp only [List.head?_cons, Nat.lt_irrefl, if_false, gt_iff_lt]
  rw [finditerSimpleAux, if_pos (by omega)]

theorem withLast_finditerSimpleAux (env : CharEnv) (s : Str) : ∀ (t : Str) (pos last fuel : Nat),
    s.drop pos = t → pos ≤ s.length → (s.length - pos) + 2 ≤ fuel →
    withLast last (finditerSimpleAux env R s fuel pos) = splitLinesAux t pos last := by
  intro t pos last
  induction t, pos, last using splitLinesAux.induct with
  | case1 pos last =>
    intro fuel hd hle hf
    have := drop_nil_info hd
    have hp : pos = s.length := by omega
    subst hp
    obtain ⟨f, rfl⟩ : ∃ f, fuel = f + 2 := ⟨fuel - 2, by omega⟩
    rw [finditerSimpleAux_end, splitLinesAux]; rfl
  | case2 pos last rest' ih =>
    intro fuel hd hle hf
    obtain ⟨h0, hd1, hlt⟩ := drop_cons_info hd
    obtain ⟨h1, hd2, hlt1⟩ := drop_cons_info hd1
    obtain ⟨f, rfl⟩ : ∃ f, fuel = f + 1 := ⟨fuel - 1, by omega⟩
    rw [finditerSimpleAux_hit env R s f pos (pos + 2) [] [] hle (runs_crlf env s pos h0 h1) (by omega)]
    rw [splitLinesAux]
    simp only [if_true, withLast]
    rw [ih f hd2 (by omega) (by omega)]
  | case3 pos last d rest' hd10 ih =>
    intro fuel hd hle hf
    obtain ⟨h0, hd1, hlt⟩ := drop_cons_info hd
    obtain ⟨h1, hd2, hlt1⟩ := drop_cons_info hd1
    obtain ⟨f, rfl⟩ : ∃ f, fuel = f + 1 := ⟨fuel - 1, by omega⟩
    have h1' : s[pos + 1]? ≠ some 10 := by rw [h1]; intro e; exact hd10 (Option.some.inj e)
    rw [finditerSimpleAux_hit env R s f pos (pos + 1) [] [] hle (runs_cr env s pos h0 h1') (by omega)]
    rw [splitLinesAux]
    simp only [if_true, hd10, if_false, withLast]
    rw [ih f hd1 (by omega) (by omega)]
  | case4 pos last ih =>
    intro fuel hd hle hf
    obtain ⟨h0, hd1, hlt⟩ := drop_cons_info hd
    have hn : s[pos + 1]? = none := by
      have := drop_nil_info hd1
      exact List.getElem?_eq_none this
    obtain ⟨f, rfl⟩ : ∃ f, fuel = f + 1 := ⟨fuel - 1, by omega⟩
    have h1' : s[pos + 1]? ≠ some 10 := by rw [hn]; intro e; cases e
    rw [finditerSimpleAux_hit env R s f pos (pos + 1) [] [] hle (runs_cr env s pos h0 h1') (by omega)]
    rw [splitLinesAux]
    simp only [if_true, withLast]
    rw [ih f hd1 (by omega) (by omega)]
  | case5 rest pos last _ ih =>
    intro fuel hd hle hf
    obtain ⟨h0, hd1, hlt⟩ := drop_cons_info hd
    obtain ⟨f, rfl⟩ : ∃ f, fuel = f + 1 := ⟨fuel - 1, by omega⟩
    rw [finditerSimpleAux_hit env R s f pos (pos + 1) [] _ hle (runs_lf env s pos h0) (by omega)]
    rw [splitLinesAux.eq_def]
    simp only [withLast]
    rw [ih f hd1 (by omega) (by omega)]
    simp
  | case6 c rest pos last h13 h10 ih =>
    intro fuel hd hle hf
    obtain ⟨h0, hd1, hlt⟩ := drop_cons_info hd
    obtain ⟨f, rfl⟩ : ∃ f, fuel = f + 1 := ⟨fuel - 1, by omega⟩
    rw [finditerSimpleAux_miss env R s f pos hle (runs_other env s pos c h0 h13 h10)]
    rw [splitLinesAux.eq_def]
    simp only [h13, h10, if_false]
    exact ih f hd1 (by omega) (by omega)

/-! ### `withLast` projections -/

theorem withLast_spans (last : Nat) (ms : List (Nat × Nat)) :
    (withLast last ms).map (fun m => (m.2.1, m.2.2)) = ms := by
  induction ms generalizing last with
  | nil => rfl
  | cons m ms ih => obtain ⟨a, b⟩ := m; simp [withLast, ih]

theorem withLast_lasts (last : Nat) (ms : List (Nat × Nat)) :
    (withLast last ms).map (fun m => m.1) = (last :: ms.map (fun m => m.2)).dropLast := by
  induction ms generalizing last with
  | nil => rfl
  | cons m ms ih => obtain ⟨a, b⟩ := m; simp [withLast, ih]

theorem withLast_ends (last : Nat) (ms : List (Nat × Nat)) :
    (withLast last ms).map (fun m => m.2.2) = ms.map (fun m => m.2) := by
  induction ms generalizing last with
  | nil => rfl
  | cons m ms ih => obtain ⟨a, b⟩ := m; simp [withLast, ih]

/-- For any list of loop views: being `withLast` of its own spans is the same as the `last`
    components being the previous ends. -/
theorem withLast_of_map (last : Nat) (l : List Match) :
    withLast last (l.map (fun m => (m.2.1, m.2.2))) = l ↔
      l.map (fun m => m.1) = (last :: l.map (fun m => m.2.2)).dropLast := by
  induction l generalizing last with
  | nil => simp [withLast]
  | cons m l ih =>
    obtain ⟨x, a, b⟩ := m
    cases l with
    | nil => simp [withLast]; exact eq_comm
    | cons m' l' =>
      have := ih b
      simp only [List.map_cons, withLast, List.cons.injEq, Prod.mk.injEq, and_true,
        List.dropLast_cons_cons] at this ⊢
      rw [this]
      constructor
      · rintro ⟨rfl, h⟩; exact ⟨rfl, h⟩
      · rintro ⟨rfl, h⟩; exact ⟨rfl, h⟩

/-! ### Main theorems -/

/-- **Main theorem (loop's view).**  `splitLines s` is exactly the sequence of
    `(last, m.start(0), m.end(0))` seen by `for m in RE_PATTERN_LINE_SPLIT.finditer(s)` with
    `last = 0` initially and `last = m.end(0)` after each iteration. -/
theorem splitLines_eq_withLast_finditer (env : CharEnv) (s : Str) :
    Context.splitLines s = withLast 0 (finditer env Gen.util_RE_PATTERN_LINE_SPLIT s) := by
  rw [lineSplit_shape, finditer, splitLines]
  exact (withLast_finditerAux env s s 0 0 _ rfl (by omega) (by omega)).symm

/-- **Main theorem (matches).** -/
theorem finditer_lineSplit (env : CharEnv) (s : Str) :
    finditer env Gen.util_RE_PATTERN_LINE_SPLIT s =
      (Context.splitLines s).map (fun m => (m.2.1, m.2.2)) := by
  rw [splitLines_eq_withLast_finditer env s, withLast_spans]

/-- **Main theorem (`last`).**  The `last` components of `splitLines s` are `0` followed by the
    ends of the matches, the final end dropped: `last` is the end of the previous match. -/
theorem splitLines_last (s : Str) :
    (Context.splitLines s).map (fun m => m.1) =
      (0 :: (Context.splitLines s).map (fun m => m.2.2)).dropLast := by
  rw [splitLines_eq_withLast_finditer asciiEnv s, withLast_lasts, withLast_ends]

/-- The task's simplified loop gives the same matches on this regular expression. -/
theorem splitLines_eq_withLast_finditerSimple (env : CharEnv) (s : Str) :
    Context.splitLines s = withLast 0 (finditerSimple env Gen.util_RE_PATTERN_LINE_SPLIT s) := by
  rw [lineSplit_shape, finditerSimple, splitLines]
  exact (withLast_finditerSimpleAux env s s 0 0 _ rfl (by omega) (by omega)).symm

theorem finditerSimple_lineSplit (env : CharEnv) (s : Str) :
    finditerSimple env Gen.util_RE_PATTERN_LINE_SPLIT s =
      (Context.splitLines s).map (fun m => (m.2.1, m.2.2)) := by
  rw [splitLines_eq_withLast_finditerSimple env s, withLast_spans]

theorem finditerSimple_eq_finditer (env : CharEnv) (s : Str) :
    finditerSimple env Gen.util_RE_PATTERN_LINE_SPLIT s =
      finditer env Gen.util_RE_PATTERN_LINE_SPLIT s := by
  rw [finditerSimple_lineSplit, finditer_lineSplit]

/-! ### Sanity checks of the `finditer` model against CPython 3.12
    (`[(m.start(), m.end()) for m in re.finditer(...)]`) -/

example : finditer asciiEnv Gen.util_RE_PATTERN_LINE_SPLIT "a\n".toStr = [(1, 2), (2, 2)] := by decide
example : finditer asciiEnv Gen.util_RE_PATTERN_LINE_SPLIT "a\r\n".toStr = [(1, 3), (3, 3)] := by decide
example : finditer asciiEnv Gen.util_RE_PATTERN_LINE_SPLIT "\n\n".toStr = [(0, 1), (1, 2), (2, 2)] := by decide
example : finditer asciiEnv Gen.util_RE_PATTERN_LINE_SPLIT "".toStr = [(0, 0)] := by decide
example : finditer asciiEnv Gen.util_RE_PATTERN_LINE_SPLIT "a\n\nb".toStr = [(1, 2), (2, 3), (4, 4)] := by decide
example : finditer asciiEnv Gen.util_RE_PATTERN_LINE_SPLIT "ab\r".toStr = [(2, 3), (3, 3)] := by decide
example : finditer asciiEnv Gen.util_RE_PATTERN_LINE_SPLIT "\r\r\n".toStr = [(0, 1), (1, 3), (3, 3)] := by decide
/-- `re.finditer('|a', 'aa')` = `(0,0),(0,1),(1,1),(1,2),(2,2)`: an empty and a non-empty match may
    start at the same position; the simplified loop misses the non-empty ones. -/
example : finditer asciiEnv (.alt [.seq [], .lit 97 false]) "aa".toStr =
    [(0, 0), (0, 1), (1, 1), (1, 2), (2, 2)] := by decide
example : finditerSimple asciiEnv (.alt [.seq [], .lit 97 false]) "aa".toStr =
    [(0, 0), (1, 1), (2, 2)] := by decide
/-- `re.finditer('$|\n', 'a\n')` = `(1,1),(1,2),(2,2)`. -/
example : finditer asciiEnv (.alt [.eol, .lit 10 false]) "a\n".toStr = [(1, 1), (1, 2), (2, 2)] := by
  decide

#print axioms splitLines_eq_withLast_finditer
#print axioms finditer_lineSplit
#print axioms splitLines_last
#print axioms finditerSimple_lineSplit
#print axioms finditerSimple_eq_finditer

end Context
end Refine
end SoupVerif
