/-
  C01 ↔ parser, the semantic half: the VALUES of a CSS-shaped selector AST (`Spec/Css.lean`) as the
  token-value trees of `Properties/C09Compile.lean` (`listV`), and the proof that the position-free
  fold `C09Compile.denote` over these values builds exactly the IR `CssCompile.compileList` writes down.

  No text occurs in this file: spelling (identifiers, strings, gaps) is the business of
  `Refine/C01ParseBase.lean` and `Properties/C01Parse.lean`.
-/
import SoupVerif.Properties.C09Compile
import SoupVerif.Spec.CssCompile
import SoupVerif.Refine.Wsc
namespace SoupVerif
namespace C01Parse
open Css SoupVerif.Parser Refine.Compile
open C09Compile (Item SelListV AttrV denote finishTop finishNested foldRest applyItems)

/-! ## The domain: which ASTs have a spelling in the grammar of `C09Compile` -/

/-- A value that can be written as an identifier: not empty, no NUL (the parser replaces NUL by U+FFFD
    before tokenizing). -/
def identOkB (v : Str) : Bool := !v.isEmpty && v.all (fun c => c != 0)

mutual
/-- Simple selectors of the intersection of the two grammars: no namespace prefix on attributes, no
    `:has`, no empty `:not()` / `:is()`; identifiers non-empty and NUL-free, attribute values NUL-free. -/
def spSimple : Simple → Bool
  | .id v => identOkB v
  | .cls v => identOkB v
  | .attr ns name test =>
    ns.isEmpty && identOkB name &&
      (match test with
       | none => true
       | some t => t.value.all (fun c => c != 0))
  | .neg L => !L.isEmpty && spList L
  | .is L => !L.isEmpty && spList L
  | .has _ => false
  | .root => true
  | .empty => true
  | .firstChild => true
  | .lastChild => true
  | .onlyChild => true
  | .firstOfType => true
  | .lastOfType => true
  | .onlyOfType => true
def spParts : List Simple → Bool
  | [] => true
  | s :: rest => spSimple s && spParts rest
/-- Compounds: the type selector without namespace prefix (`NsSpec.default`), not the empty compound. -/
def spCompound : Css.Compound → Bool
  | .mk tag parts =>
    (match tag with
     | none => !parts.isEmpty
     | some t => t.ns == NsSpec.default &&
        (match t.name with
         | none => true
         | some n => identOkB n)) && spParts parts
def spComplex : Complex → Bool
  | .one cp => spCompound cp
  | .comb L _ R => spComplex L && spCompound R
def spList : List Complex → Bool
  | [] => true
  | x :: rest => spComplex x && spList rest
end

/-- The selector lists of C01's grammar that the grammar of `C09Compile` can spell. -/
def Spellable (L : List Complex) : Prop := L ≠ [] ∧ spList L = true

instance (L : List Complex) : Decidable (Spellable L) := by unfold Spellable; infer_instance

/-! ## Token values of an AST -/

/-- The combinator character `parse_combinator` sees. -/
def combChar : Comb → Nat
  | .desc => 32 | .child => 62 | .sib => 126 | .adj => 43

/-- The lower-cased flag character. -/
def flagV : CaseFlag → Option Nat
  | .none => none | .i => some 105 | .s => some 115

mutual
def simpleV : Simple → Item
  | .id v => .id v
  | .cls v => .cls v
  | .attr _ name test => .attr ⟨name, test.map fun t => (t.op.text, t.value, flagV t.flag)⟩
  | .neg L => .fn ":not".toStr (listV L)
  | .is L => .fn ":is".toStr (listV L)
  | .has _ => .pseudo [58]                          -- outside the domain
  | .root => .pseudo ":root".toStr
  | .empty => .pseudo ":empty".toStr
  | .firstChild => .pseudo ":first-child".toStr
  | .lastChild => .pseudo ":last-child".toStr
  | .onlyChild => .pseudo ":only-child".toStr
  | .firstOfType => .pseudo ":first-of-type".toStr
  | .lastOfType => .pseudo ":last-of-type".toStr
  | .onlyOfType => .pseudo ":only-of-type".toStr
def partsV : List Simple → List Item
  | [] => []
  | s :: rest => simpleV s :: partsV rest
def compoundV : Css.Compound → C09Compile.Compound
  | .mk tag parts => .mk (tag.map fun t => t.name.getD [42]) (partsV parts)
/-- The leftmost compound of a complex selector … -/
def complexFirst : Complex → C09Compile.Compound
  | .one cp => compoundV cp
  | .comb L _ _ => complexFirst L
/-- … and the combinator–compound pairs after it, left to right. -/
def complexRest : Complex → List (Nat × C09Compile.Compound)
  | .one _ => []
  | .comb L k R => complexRest L ++ [(combChar k, compoundV R)]
/-- Further members of a list: each preceded by the comma. -/
def selsV : List Complex → List (Nat × C09Compile.Compound)
  | [] => []
  | x :: rest => (44, complexFirst x) :: (complexRest x ++ selsV rest)
/-- The values of a selector list (as the tokenizer sees it: the comma is a combinator). -/
def listV : List Complex → SelListV
  | [] => .mk (.mk none []) []                      -- outside the domain
  | x :: rest => .mk (complexFirst x) (complexRest x ++ selsV rest)
end

/-! ## Builders in normal form -/

/-- The builder `_Selector` whose filled fields are `p`, `tag`, `relations`, `rel_type`. -/
def mkB (p : Parts) (tag : Option SelTag) (rels : List SelB) (rt : Rel) : SelB :=
  .mk tag p.ids p.classes p.attrs p.nth p.subs rels rt [] [] p.flags false

/-- The implied universal selector, on the tag field. -/
def implTag (ip : Bool) (tag : Option SelTag) : Option SelTag :=
  if tag.isNone && !ip then some ⟨[42], none⟩ else tag

theorem mkB_empty : SelB.empty = mkB {} none [] .none := rfl

/-- `parse_combinator`'s / `parse_selectors`' implied `*`. -/
def implB (ip : Bool) (b : SelB) : SelB := if b.tag.isNone && !ip then b.setTag ⟨[42], none⟩ else b

theorem implB_mkB (ip : Bool) (p : Parts) (tag : Option SelTag) (rels : List SelB) (rt : Rel) :
    implB ip (mkB p tag rels rt) = mkB p (implTag ip tag) rels rt := by
  cases tag <;> cases ip <;> rfl

theorem addRelations_mkB (p : Parts) (tag : Option SelTag) (r : List SelB) (rt : Rel) :
    (mkB p tag [] rt).addRelations r = mkB p tag r rt := by
  simp [mkB, SelB.addRelations]

theorem setRelType_mkB (p : Parts) (tag : Option SelTag) (r : List SelB) (rt rt' : Rel) :
    (mkB p tag r rt).setRelType rt' = mkB p tag r rt' := rfl

theorem freezeF_mkB (fuel : Nat) (p : Parts) (tag : Option SelTag) (rels : List SelB) (rt : Rel) :
    SelB.freezeF (fuel + 1) (mkB p tag rels rt) =
      p.toSel tag
        (match rels with
         | [] => .mk [] false false
         | first :: rest => .mk [SelB.freezeF fuel (first.addRelations rest)] false false) rt := by
  cases rels <;> simp [mkB, SelB.freezeF, Parts.toSel]

theorem size_mkB (p : Parts) (tag : Option SelTag) (rels : List SelB) (rt : Rel) :
    (mkB p tag rels rt).size = 1 + SelB.sizeList rels := by
  simp [mkB, SelB.size]

theorem addAttr_mkB (p : Parts) (tag : Option SelTag) (r : List SelB) (rt : Rel) (a : AttrSel) :
    (mkB p tag r rt).addAttr a = mkB { p with attrs := p.attrs ++ [a] } tag r rt := rfl

theorem addSub_mkB (p : Parts) (tag : Option SelTag) (r : List SelB) (rt : Rel) (l : SelList) :
    (mkB p tag r rt).addSub l = mkB { p with subs := p.subs ++ [l] } tag r rt := rfl

theorem addId_mkB (p : Parts) (tag : Option SelTag) (r : List SelB) (rt : Rel) (v : Str) :
    (mkB p tag r rt).addId v = mkB { p with ids := p.ids ++ [v] } tag r rt := rfl

theorem addClass_mkB (p : Parts) (tag : Option SelTag) (r : List SelB) (rt : Rel) (v : Str) :
    (mkB p tag r rt).addClass v = mkB { p with classes := p.classes ++ [v] } tag r rt := rfl

theorem addNth_mkB (p : Parts) (tag : Option SelTag) (r : List SelB) (rt : Rel) (l : List NthSel) :
    (mkB p tag r rt).addNth l = mkB { p with nth := p.nth ++ l } tag r rt := rfl

theorem orFlags_mkB (p : Parts) (tag : Option SelTag) (r : List SelB) (rt : Rel) (f : Nat) :
    (mkB p tag r rt).orFlags f = mkB { p with flags := p.flags ||| f } tag r rt := rfl

theorem setTag_mkB (p : Parts) (tag : Option SelTag) (r : List SelB) (rt : Rel) (t : SelTag) :
    (mkB p tag r rt).setTag t = mkB p (some t) r rt := rfl

theorem addRelations_nil (b : SelB) : b.addRelations [] = b := by
  cases b; simp [SelB.addRelations]

/-! ## Single simple selectors -/

theorem type_str : "type".toStr = [116, 121, 112, 101] := by decide

theorem freeze_attrOnly (a : AttrSel) : (SelB.empty.addAttr a).freeze = attrOnlySel a := by
  simp [SelB.freeze, SelB.empty, SelB.addAttr, SelB.size, SelB.sizeList, SelB.freezeF, attrOnlySel, emptyList]

/-- `[name]`. -/
theorem attr_sem_none (p : Parts) (tag : Option SelTag) (name : Str) :
    attrBuild (mkB p tag [] .none) name [] [] none =
      mkB (addSimple p (.attr [] name none)) tag [] .none := by
  by_cases hty : lower name == "type".toStr <;>
    simp [attrBuild, addSimple, compileAttr, addAttr_mkB, hty]

/-- `[name op value flag]`. -/
theorem attr_sem_some (p : Parts) (tag : Option SelTag) (name : Str) (t : AttrTest) :
    attrBuild (mkB p tag [] .none) name t.op.text t.value ((flagV t.flag).map fun c => [c]) =
      mkB (addSimple p (.attr [] name (some t))) tag [] .none := by
  obtain ⟨op, v, fl⟩ := t
  have hws : (Rx.search pyFoldEnv Gen.lexicon.reWs v).isSome = v.any isCssWs :=
    Refine.Wsc.re_ws_search pyFoldEnv v
  have hi : (([115] : Str) == "i".toStr) = false := by decide
  have hi' : (([105] : Str) == "i".toStr) = true := by decide
  have f1 : (CaseFlag.s == CaseFlag.i) = false := by decide
  have f2 : (CaseFlag.s == CaseFlag.none) = false := by decide
  have f3 : (CaseFlag.i == CaseFlag.none) = false := by decide
  have f4 : (CaseFlag.none == CaseFlag.i) = false := by decide
  by_cases hty : (lower name == [116, 121, 112, 101]) = true <;> cases fl <;> cases op <;>
    simp [attrBuild, addSimple, compileAttr, addAttr_mkB, addSub_mkB, hty, hws, flagV, AttrOp.text,
      type_str, freeze_attrOnly, hi, hi', f1, f2, f3, f4]

/-- The structural pseudo-classes: `:root`, `:empty` are flag bits, the others `SelectorNth` records. -/
theorem pseudo_sem (B : Builtins) (p : Parts) (tag : Option SelTag) (s : Simple)
    (hs : s = .root ∨ s = .empty ∨ s = .firstChild ∨ s = .lastChild ∨ s = .onlyChild ∨
      s = .firstOfType ∨ s = .lastOfType ∨ s = .onlyOfType) :
    (simpleV s).apply B (mkB p tag [] .none) = mkB (addSimple p s) tag [] .none := by
  rcases hs with h | h | h | h | h | h | h | h <;> subst h <;>
    simp only [simpleV, Item.apply, plainPseudo, addSimple] <;>
    rw [if_pos (by decide)] <;>
    simp +decide [applySimplePseudo, orFlags_mkB, addNth_mkB, nthRec, Parser.nthOf, emptyList]

/-! ## Compounds, chains, loop states -/

/-- `tag` field of the builder of a compound. -/
def cTag : Css.Compound → Option SelTag
  | .mk tag _ => tag.map TypeSel.toSelTag

/-- The other filled fields. -/
def cParts : Css.Compound → Parts
  | .mk _ parts => compileParts {} parts

/-- The builder after the tokens of a compound. -/
def cpB (cp : Css.Compound) : SelB := mkB (cParts cp) (cTag cp) [] .none

/-- The builder of a complex selector as `parse_combinator` nests it (right to left): the rightmost
    compound on top, what stands to its left in `relations`, each with the combinator as `rel_type`. -/
def chainB (ip : Bool) : Complex → Rel → SelB
  | .one cp, rt => mkB (cParts cp) (implTag ip (cTag cp)) [] rt
  | .comb L k R, rt => mkB (cParts R) (implTag ip (cTag R)) [chainB ip L k.rel] rt

def lastSel : Complex → SelB
  | .one cp => cpB cp
  | .comb _ _ R => cpB R

def relsOf (ip : Bool) : Complex → List SelB
  | .one _ => []
  | .comb L k _ => [chainB ip L k.rel]

/-- Number of compounds. -/
def clen : Complex → Nat
  | .one _ => 1
  | .comb L _ _ => clen L + 1

/-- The loop state at the end of the complex selector `x`, the earlier members of the list being `S`. -/
def stOf (ip : Bool) (S : List SelB) (x : Complex) : LS :=
  { selectors := S, sel := lastSel x, relations := relsOf ip x, hasSelector := true }

/-- What `parse_selectors` freezes at the end. -/
def outOf (ip : Bool) (st : LS) : List SelB :=
  st.selectors ++ [(implB ip st.sel).addRelations st.relations]

theorem chain_eq (ip : Bool) (x : Complex) :
    (implB ip (lastSel x)).addRelations (relsOf ip x) = chainB ip x .none := by
  cases x <;> simp only [lastSel, relsOf, chainB, cpB, implB_mkB, addRelations_mkB]

theorem chain_setRelType (ip : Bool) (x : Complex) (rt rt' : Rel) :
    (chainB ip x rt).setRelType rt' = chainB ip x rt' := by
  cases x <;> rfl

theorem size_chainB (ip : Bool) : ∀ (x : Complex) (rt : Rel), (chainB ip x rt).size = clen x
  | .one cp, rt => by simp [chainB, size_mkB, SelB.sizeList, clen]
  | .comb L k R, rt => by
    simp only [chainB, size_mkB, SelB.sizeList, clen, size_chainB ip L k.rel]
    omega

theorem combRel_combChar (k : Comb) : combRel (combChar k) = k.rel := by
  cases k <;> rfl

theorem combChar_ne_comma (k : Comb) : (combChar k == 44) = false := by
  cases k <;> rfl

theorem compileCompound_eq (cp : Css.Compound) (rel : SelList) (rt : Rel) :
    compileCompound cp rel rt = (cParts cp).toSel (cTag cp) rel rt := by
  cases cp; simp [compileCompound, cParts, cTag]

theorem cTag_withImplied (cp : Css.Compound) : cTag cp.withImplied = implTag false (cTag cp) := by
  obtain ⟨tag, parts⟩ := cp
  cases tag <;> rfl

theorem cParts_withImplied (cp : Css.Compound) : cParts cp.withImplied = cParts cp := by
  obtain ⟨tag, parts⟩ := cp
  cases tag <;> rfl

theorem implTag_true (t : Option SelTag) : implTag true t = t := by
  simp [implTag]

/-- Inside a pseudo-class: the frozen chain is `compileRT`. -/
theorem freeze_chain_nested : ∀ (x : Complex) (n : Nat) (rt : Rel), clen x ≤ n →
    SelB.freezeF n (chainB true x rt) = compileRT x rt
  | .one cp, n, rt, h => by
    obtain ⟨m, rfl⟩ : ∃ m, n = m + 1 := ⟨n - 1, by simp [clen] at h; omega⟩
    rw [chainB, freezeF_mkB, compileRT, compileCompound_eq, implTag_true]
    rfl
  | .comb L k R, n, rt, h => by
    obtain ⟨m, rfl⟩ : ∃ m, n = m + 1 := ⟨n - 1, by simp [clen] at h; omega⟩
    rw [chainB, freezeF_mkB, compileRT, compileCompound_eq, implTag_true]
    simp only [addRelations_nil]
    rw [freeze_chain_nested L m k.rel (by simp [clen] at h; omega)]

/-- At top level: the frozen chain is `compileRT` of the selector with the implied `*`. -/
theorem freeze_chain_top : ∀ (x : Complex) (n : Nat) (rt : Rel), clen x ≤ n →
    SelB.freezeF n (chainB false x rt) = compileRT x.withImplied rt
  | .one cp, n, rt, h => by
    obtain ⟨m, rfl⟩ : ∃ m, n = m + 1 := ⟨n - 1, by simp [clen] at h; omega⟩
    rw [chainB, freezeF_mkB, Complex.withImplied, compileRT, compileCompound_eq, cTag_withImplied,
      cParts_withImplied]
    rfl
  | .comb L k R, n, rt, h => by
    obtain ⟨m, rfl⟩ : ∃ m, n = m + 1 := ⟨n - 1, by simp [clen] at h; omega⟩
    rw [chainB, freezeF_mkB, Complex.withImplied, compileRT, compileCompound_eq, cTag_withImplied,
      cParts_withImplied]
    simp only [addRelations_nil]
    rw [freeze_chain_top L m k.rel (by simp [clen] at h; omega)]

theorem compileSels_eq_map (L : List Complex) : compileSels L = L.map fun x => compileRT x .none := by
  induction L with
  | nil => simp [compileSels]
  | cons x xs ih => simp [compileSels, ih]

theorem freeze_chains_nested (L : List Complex) :
    (L.map fun y => chainB true y .none).map SelB.freeze = compileSels L := by
  rw [compileSels_eq_map, List.map_map]
  apply List.map_congr_left
  intro x _
  simp only [Function.comp, SelB.freeze, size_chainB]
  exact freeze_chain_nested x _ _ (by omega)

theorem freeze_chains_top (L : List Complex) :
    (L.map fun y => chainB false y .none).map SelB.freeze = L.map compileTop := by
  rw [List.map_map]
  apply List.map_congr_left
  intro x _
  simp only [Function.comp, SelB.freeze, size_chainB, compileTop, compileComplex]
  exact freeze_chain_top x _ _ (by omega)

/-! ## The loop over the values -/

theorem foldRest_append (B : Builtins) (ip : Bool) : ∀ (l₁ l₂ : List (Nat × C09Compile.Compound)) (st : LS),
    foldRest B ip (l₁ ++ l₂) st = foldRest B ip l₂ (foldRest B ip l₁ st)
  | [], l₂, st => by simp [foldRest]
  | x :: l₁, l₂, st => by
    rw [List.cons_append, foldRest, foldRest, foldRest_append B ip l₁ l₂]

theorem finishTop_eq (st : LS) :
    finishTop st = .mk ((outOf false st).map SelB.freeze) false st.isHtml := by
  simp [finishTop, outOf, implB]

theorem finishNested_eq (n : Bool) (st : LS) :
    finishNested n st = .mk ((outOf true st).map SelB.freeze) n st.isHtml := by
  simp [finishNested, outOf, implB]

theorem identOkB_ne_nil {v : Str} (h : identOkB v = true) : v ≠ [] := by
  intro e; subst e; simp [identOkB] at h

theorem combStep_implB (c : Nat) (ip : Bool) (st : LS) :
    combStep c ip st =
      if c == 44 then
        { st with selectors := st.selectors ++ [(implB ip st.sel).addRelations st.relations], relations := [],
                  sel := .empty, hasSelector := false }
      else
        { st with relations := [((implB ip st.sel).addRelations st.relations).setRelType (combRel c)],
                  sel := .empty, hasSelector := false } := rfl

/-- After a combinator other than the comma. -/
theorem foldRest_comb (B : Builtins) (ip : Bool) (k : Comb) (cv : C09Compile.Compound) (S : List SelB)
    (L : Complex) :
    foldRest B ip [(combChar k, cv)] (stOf ip S L) =
      { selectors := S, sel := cv.buildOn B SelB.empty, relations := [chainB ip L k.rel],
        hasSelector := true } := by
  rw [foldRest, foldRest, combStep_implB]
  simp only [combChar_ne_comma, Bool.false_eq_true, if_false, stOf, chain_eq, chain_setRelType,
    combRel_combChar]

/-- After a comma. -/
theorem foldRest_comma (B : Builtins) (ip : Bool) (cv : C09Compile.Compound) (S : List SelB) (x : Complex)
    (rest : List (Nat × C09Compile.Compound)) :
    foldRest B ip ((44, cv) :: rest) (stOf ip S x) =
      foldRest B ip rest
        { selectors := S ++ [chainB ip x .none], sel := cv.buildOn B SelB.empty, hasSelector := true } := by
  rw [foldRest, combStep_implB]
  simp only [beq_self_eq_true, if_true, stOf, chain_eq]

mutual
/-- One simple selector: what the parser adds to the builder is what `addSimple` adds to `Parts`. -/
theorem simple_sem (B : Builtins) : ∀ (s : Simple), spSimple s = true → ∀ (p : Parts) (tag : Option SelTag),
    (simpleV s).apply B (mkB p tag [] .none) = mkB (addSimple p s) tag [] .none
  | .id v, _, p, tag => by simp only [simpleV, Item.apply, addSimple, addId_mkB]
  | .cls v, _, p, tag => by simp only [simpleV, Item.apply, addSimple, addClass_mkB]
  | .attr ns name test, h, p, tag => by
    have hns : ns = [] := by
      simp only [spSimple, Bool.and_eq_true, List.isEmpty_iff] at h
      exact h.1.1
    subst hns
    cases test with
    | none => simpa only [simpleV, Item.apply, AttrV.apply, Option.map_none] using attr_sem_none p tag name
    | some t => simpa only [simpleV, Item.apply, AttrV.apply, Option.map_some] using attr_sem_some p tag name t
  | .neg L, h, p, tag => by
    simp only [spSimple, Bool.and_eq_true, Bool.not_eq_true', List.isEmpty_eq_false_iff] at h
    obtain ⟨h1, h2⟩ := loop_sem B L h.2 h.1 true
    simp only [simpleV, Item.apply, addSimple, finishNested_eq, h1, h2, freeze_chains_nested, addSub_mkB]
    rfl
  | .is L, h, p, tag => by
    simp only [spSimple, Bool.and_eq_true, Bool.not_eq_true', List.isEmpty_eq_false_iff] at h
    obtain ⟨h1, h2⟩ := loop_sem B L h.2 h.1 true
    simp only [simpleV, Item.apply, addSimple, finishNested_eq, h1, h2, freeze_chains_nested, addSub_mkB]
    cases L with
    | nil => exact absurd rfl h.1
    | cons x xs => rfl
  | .has _, h, _, _ => by simp [spSimple] at h
  | .root, _, p, tag => pseudo_sem B p tag _ (by simp)
  | .empty, _, p, tag => pseudo_sem B p tag _ (by simp)
  | .firstChild, _, p, tag => pseudo_sem B p tag _ (by simp)
  | .lastChild, _, p, tag => pseudo_sem B p tag _ (by simp)
  | .onlyChild, _, p, tag => pseudo_sem B p tag _ (by simp)
  | .firstOfType, _, p, tag => pseudo_sem B p tag _ (by simp)
  | .lastOfType, _, p, tag => pseudo_sem B p tag _ (by simp)
  | .onlyOfType, _, p, tag => pseudo_sem B p tag _ (by simp)
theorem parts_sem (B : Builtins) : ∀ (ps : List Simple), spParts ps = true → ∀ (p : Parts) (tag : Option SelTag),
    applyItems B (partsV ps) (mkB p tag [] .none) = mkB (compileParts p ps) tag [] .none
  | [], _, p, tag => by simp only [partsV, applyItems, compileParts]
  | s :: rest, h, p, tag => by
    simp only [spParts, Bool.and_eq_true] at h
    rw [partsV, applyItems, simple_sem B s h.1, parts_sem B rest h.2, compileParts]
/-- The builder after the tokens of a compound. -/
theorem compound_sem (B : Builtins) : ∀ (cp : Css.Compound), spCompound cp = true →
    (compoundV cp).buildOn B SelB.empty = cpB cp
  | .mk tag parts, h => by
    simp only [spCompound, Bool.and_eq_true] at h
    have hp := parts_sem B parts h.2
    cases tag with
    | none =>
      simp only [compoundV, Option.map_none, C09Compile.Compound.buildOn, mkB_empty, hp]
      rfl
    | some t =>
      obtain ⟨ns, nm⟩ := t
      have hns : ns = NsSpec.default := by
        have := h.1
        simp only [Bool.and_eq_true, beq_iff_eq] at this
        exact this.1
      subst hns
      simp only [compoundV, Option.map_some, C09Compile.Compound.buildOn, mkB_empty, setTag_mkB, hp]
      rfl
/-- The loop through the combinator–compound pairs of one complex selector. -/
theorem complex_sem (B : Builtins) : ∀ (x : Complex), spComplex x = true → ∀ (ip : Bool) (S : List SelB),
    foldRest B ip (complexRest x)
      { selectors := S, sel := (complexFirst x).buildOn B SelB.empty, hasSelector := true } = stOf ip S x
  | .one cp, h, ip, S => by
    simp only [spComplex] at h
    simp only [complexRest, complexFirst, foldRest, compound_sem B cp h, stOf, lastSel, relsOf]
  | .comb L k R, h, ip, S => by
    simp only [spComplex, Bool.and_eq_true] at h
    rw [complexRest, complexFirst, foldRest_append, complex_sem B L h.1, foldRest_comb, compound_sem B R h.2]
    rfl
/-- … and through the further members of the list. -/
theorem list_sem (B : Builtins) : ∀ (xs : List Complex), spList xs = true → ∀ (ip : Bool) (x : Complex)
    (S : List SelB),
    outOf ip (foldRest B ip (selsV xs) (stOf ip S x)) = S ++ (x :: xs).map (fun y => chainB ip y .none) ∧
      (foldRest B ip (selsV xs) (stOf ip S x)).isHtml = false
  | [], _, ip, x, S => by
    simp only [selsV, foldRest, outOf, stOf, chain_eq, List.map_cons, List.map_nil, and_self]
  | y :: ys, h, ip, x, S => by
    simp only [spList, Bool.and_eq_true] at h
    rw [selsV, foldRest_comma, foldRest_append, complex_sem B y h.1]
    obtain ⟨h1, h2⟩ := list_sem B ys h.2 ip y (S ++ [chainB ip x .none])
    refine ⟨?_, h2⟩
    rw [h1]
    simp
/-- The whole loop of `parse_selectors` on a non-empty list. -/
theorem loop_sem (B : Builtins) : ∀ (L : List Complex), spList L = true → L ≠ [] → ∀ (ip : Bool),
    outOf ip ((listV L).loopState B ip) = L.map (fun y => chainB ip y .none) ∧
      ((listV L).loopState B ip).isHtml = false
  | [], _, h, _ => absurd rfl h
  | x :: xs, h, _, ip => by
    simp only [spList, Bool.and_eq_true] at h
    rw [listV, SelListV.loopState, foldRest_append]
    have := complex_sem B x h.1 ip []
    rw [this]
    simpa using list_sem B xs h.2 ip x []
end

/-- **Step 2.**  The structure computed from the token values of `L` (the position-free fold that mirrors
    `parse_selectors`) is the IR `compileList` writes down: one `Sel` per complex selector, the implied
    universal `*` on every top-level compound without a type selector, nothing implied inside
    `:not()` / `:is()`, `is_html = False`. -/
theorem denote_listV (B : Builtins) (L : List Complex) (h : Spellable L) :
    denote B (listV L) = compileList L := by
  obtain ⟨h1, h2⟩ := loop_sem B L h.2 h.1 false
  rw [denote, finishTop_eq, h1, h2, freeze_chains_top, compileList]

#print axioms denote_listV

end C01Parse
end SoupVerif
