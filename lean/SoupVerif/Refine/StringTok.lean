/-
  Refinement proof for the quoted alternatives of `VALUE` (css_parser.py):

      VALUE     = (?:"(?:CSS_STRING_ESCAPES|[^\\"\r\n\f])*?"|'(?:CSS_STRING_ESCAPES|[^\\'\r\n\f])*?'|IDENTIFIER)
      RE_VALUES = (?:(?P<value>VALUE)|(?P<split>WSC*,WSC*))        flags re.I | re.X

  The hand scanner `Spelling.scanString` (with `scanStrBody`, `strEscLen`) computes, for EVERY input
  that starts with `"` or `'`, exactly what the engine model computes on the regenerated regular
  expression `Gen.cp_RE_VALUES` (theorems `value_quoted_matchAt`, `value_quoted_eq_scan`,
  `value_quoted_eq_scan_ascii`, `value_quoted_none` at the end of the file).

  Structure of the proof: `CSS_STRING_ESCAPES` is deterministic (`runs_strEsc`: at most one run, of
  length `strEscLen`), hence so is the body of the lazy star (`runs_body`); a lazy star over a
  deterministic, advancing body followed by the closing quote succeeds first at the first position
  reached by whole items at which the quote stands (`iter_body_close`, induction over the fuel);
  `IDENTIFIER` and `WSC*,` cannot start with a quote (`runs_ident_quote`, `runs_split_quote`).
  All literals and classes of the regex are case-insensitive (`ic = true`); the proof is uniform in
  every environment whose folding satisfies `FoldOK` (ASCII lower-casing, plus non-ASCII code points
  folding to a letter `g`..`z`), which covers `asciiEnv`, `pyFoldEnv` and `foldEnv sp` for such `sp`.
-/
import SoupVerif.Spec.Spelling
import SoupVerif.Generated.Regexes
import SoupVerif.Lemmas.RxBasic
namespace SoupVerif
namespace Refine
namespace StringTok
open Rx RxBasic Escape Spelling

/-! ### Environments -/

/-- What the proof needs of the case folding: it is ASCII lower-casing, except that some non-ASCII
    code points may fold to a lower-case ASCII letter from `g` to `z` (never to a hex digit, a quote,
    a backslash, white space, …). -/
def FoldOK (env : CharEnv) : Prop :=
  ∀ x, env.fold x = lowerCp x ∨ (128 ≤ x ∧ 103 ≤ env.fold x ∧ env.fold x ≤ 122)

theorem foldOK_ascii : FoldOK asciiEnv := fun _ => Or.inl rfl

theorem foldOK_py : FoldOK pyFoldEnv := by
  intro x
  show (match foldSpecials.lookup x with | some a => a | none => lowerCp x) = lowerCp x ∨ _
  by_cases h1 : x = 304
  · subst h1; right; decide
  by_cases h2 : x = 305
  · subst h2; right; decide
  by_cases h3 : x = 383
  · subst h3; right; decide
  by_cases h4 : x = 8490
  · subst h4; right; decide
  left
  have e1 : (x == 304) = false := by simpa using h1
  have e2 : (x == 305) = false := by simpa using h2
  have e3 : (x == 383) = false := by simpa using h3
  have e4 : (x == 8490) = false := by simpa using h4
  simp [foldSpecials, List.lookup, e1, e2, e3, e4]

theorem mem_of_lookup {sp : Specials} {x a : Nat} : sp.lookup x = some a → (x, a) ∈ sp := by
  induction sp with
  | nil => intro h; cases h
  | cons p sp ih =>
    obtain ⟨k, v⟩ := p
    rw [List.lookup_cons]
    by_cases hk : x = k
    · subst hk; simp only [beq_self_eq_true]; intro h; cases h; exact List.mem_cons_self
    · have : (x == k) = false := by simpa using hk
      rw [this]; intro h; exact List.mem_cons_of_mem _ (ih h)

theorem foldOK_foldEnv (sp : Specials)
    (h : ∀ p ∈ sp, 128 ≤ p.1 ∧ 103 ≤ p.2 ∧ p.2 ≤ 122) : FoldOK (foldEnv sp) := by
  intro x
  show (match sp.lookup x with | some a => a | none => lowerCp x) = lowerCp x ∨ _
  cases hl : sp.lookup x with
  | none => left; rfl
  | some a =>
    right
    have h' := h (x, a) (mem_of_lookup hl)
    show 128 ≤ x ∧ 103 ≤ (match sp.lookup x with | some a => a | none => lowerCp x) ∧
      (match sp.lookup x with | some a => a | none => lowerCp x) ≤ 122
    rw [hl]; exact h'

/-! ### Characters -/

theorem fold_self {env : CharEnv} (henv : FoldOK env) (c : Nat) (hc : c < 65 ∨ (90 < c ∧ c < 128)) :
    env.fold c = c := by
  rcases henv c with h | h
  · rw [h]; unfold lowerCp; split <;> omega
  · omega

theorem fold_beq {env : CharEnv} (henv : FoldOK env) (c : Nat) (hc : c < 65 ∨ (90 < c ∧ c < 97))
    (x : Nat) : (env.fold x == env.fold c) = (x == c) := by
  rw [fold_self henv c (by omega)]
  rw [Bool.eq_iff_iff, beq_iff_eq, beq_iff_eq]
  rcases henv x with h | h
  · rw [h]; unfold lowerCp; split <;> omega
  · omega

theorem isChar_litc {env : CharEnv} (henv : FoldOK env) (s : Str) (c : Nat)
    (hc : c < 65 ∨ (90 < c ∧ c < 97)) : IsChar env s (.lit c true) (fun x => x == c) :=
  isChar_congr (isChar_lit env s c true) (fun x => by simp only [if_true]; exact fold_beq henv c hc x)

theorem fold_hex {env : CharEnv} (henv : FoldOK env) (x : Nat) :
    ((97 ≤ x && x ≤ 102) || ((97 ≤ env.fold x && env.fold x ≤ 102))
      || ((48 ≤ x && x ≤ 57) || (48 ≤ env.fold x && env.fold x ≤ 57))) = isHex x := by
  unfold isHex
  rw [Bool.eq_iff_iff]
  simp only [Bool.or_eq_true, Bool.and_eq_true, decide_eq_true_eq]
  rcases henv x with h | h
  · rw [h]; unfold lowerCp; split <;> omega
  · omega

theorem setHas_hex {env : CharEnv} (henv : FoldOK env) (x : Nat) :
    setHas env false [.range 97 102, .range 48 57] true x = isHex x := by
  rw [← fold_hex henv x]
  simp [setHas, itemHas]

theorem fold_beq' {env : CharEnv} (henv : FoldOK env) (c : Nat) (hc : c < 65 ∨ (90 < c ∧ c < 97))
    (x : Nat) : (env.fold c == env.fold x) = (x == c) := by
  rw [← fold_beq henv c hc x, Bool.eq_iff_iff, beq_iff_eq, beq_iff_eq]; exact eq_comm

theorem setHas_ws {env : CharEnv} (henv : FoldOK env) (x : Nat) :
    setHas env false [.ch 32, .ch 9, .ch 13, .ch 10, .ch 12] true x = isCssWs x := by
  simp [setHas, itemHas, fold_beq' henv, isCssWs, Bool.or_assoc]

theorem setHas_sptab {env : CharEnv} (henv : FoldOK env) (x : Nat) :
    setHas env false [.ch 32, .ch 9] true x = (x == 32 || x == 9) := by
  simp [setHas, itemHas, fold_beq' henv]

theorem setHas_nl {env : CharEnv} (henv : FoldOK env) (x : Nat) :
    setHas env false [.ch 10, .ch 12, .ch 13] true x = (x == 10 || x == 12 || x == 13) := by
  simp [setHas, itemHas, fold_beq' henv, Bool.or_assoc]

theorem setHas_escOther {env : CharEnv} (henv : FoldOK env) (x : Nat) :
    setHas env true [.ch 13, .ch 10, .ch 12, .range 97 102, .range 48 57] true x =
      !(x == 13 || x == 10 || x == 12 || isHex x) := by
  rw [← fold_hex henv x]
  simp [setHas, itemHas, fold_beq' henv, Bool.or_assoc]

theorem setHas_plain {env : CharEnv} (henv : FoldOK env) (q : Nat) (hq : q = 34 ∨ q = 39) (x : Nat) :
    setHas env true [.ch 92, .ch q, .ch 13, .ch 10, .ch 12] true x =
      !(x == 92 || x == q || x == 13 || x == 10 || x == 12) := by
  have h92 := fold_beq' henv 92 (by omega) x
  have hqq := fold_beq' henv q (by omega) x
  simp [setHas, itemHas, fold_beq' henv, hqq, Bool.or_assoc]

/-! ### Positions and suffixes -/

theorem drop_none {s : Str} {i : Nat} (h : s[i]? = none) : s.drop i = [] :=
  List.drop_eq_nil_of_le (by simpa using h)

theorem drop_some {s : Str} {i c : Nat} (h : s[i]? = some c) : s.drop i = c :: s.drop (i + 1) := by
  have hlt : i < s.length := by
    rcases Nat.lt_or_ge i s.length with h' | h'
    · exact h'
    · rw [List.getElem?_eq_none h'] at h; cases h
  rw [List.drop_eq_getElem_cons hlt]
  rw [List.getElem?_eq_getElem hlt] at h
  rw [Option.some.inj h]

theorem head_drop (s : Str) (i : Nat) : (s.drop i).head? = s[i]? := by
  cases h : s[i]? with
  | none => rw [drop_none h]; rfl
  | some c => rw [drop_some h]; rfl

/-! ### The pieces of the regular expression, as explicit terms -/

def rxCRLF : Rx := .seq [.lit 13 true, .lit 10 true]
def rxNL : Rx :=
  .alt [rxCRLF, .seq [.look true true rxCRLF, .set false [.ch 10, .ch 12, .ch 13] true]]
def rxWS : Rx := .alt [.set false [.ch 32, .ch 9] true, rxNL]
def rxHex : Rx := .set false [.range 97 102, .range 48 57] true
def rxWsSet : Rx := .set false [.ch 32, .ch 9, .ch 13, .ch 10, .ch 12] true
def rxHexDigits : Rx :=
  .alt [.seq [.rep 1 (some 5) true rxHex, .look true true rxHex], .rep 6 (some 6) true rxHex]
def rxHexTail : Rx := .alt [rxWS, .look true true rxWsSet]
def rxHexPart : Rx := .seq [rxHexDigits, rxHexTail]
def rxStrEsc : Rx :=
  .seq [.lit 92 true, .alt [rxHexPart,
    .set true [.ch 13, .ch 10, .ch 12, .range 97 102, .range 48 57] true, rxNL]]
def rxPlain (q : Nat) : Rx := .set true [.ch 92, .ch q, .ch 13, .ch 10, .ch 12] true
def rxBody (q : Nat) : Rx := .alt [rxStrEsc, rxPlain q]
def rxQuoted (q : Nat) : Rx := .seq [.lit q true, .rep 0 none false (rxBody q), .lit q true]

/-- The shape of `RE_VALUES`; the parts that are irrelevant on an input starting with a quote (the
    tail of an identifier, of its escapes, of a comment, what follows `WSC*`) are left open. -/
theorem values_shape : ∃ (identEsc identTail : Rx) (commentTail splitTail : List Rx),
    Gen.cp_RE_VALUES =
      .alt [.group 1 (.alt [rxQuoted 34, rxQuoted 39,
              .seq [.alt [.seq [.rep 0 (some 1) true (.lit 45 true),
                              .alt [.set true [.range 0 47, .range 48 64, .range 91 94, .ch 96,
                                      .range 123 127] true,
                                    .seq [.lit 92 true, identEsc]]],
                         .seq [.lit 45 true, .lit 45 true]],
                    identTail]]),
            .group 2 (.seq (.rep 0 none true (.alt [rxWS, .seq (.lit 47 true :: commentTail)])
                        :: .lit 44 true :: splitTail))] :=
  ⟨_, _, _, _, rfl⟩

/-! ### The engine on the pieces -/

theorem runs_lookahead (env : CharEnv) (s : Str) (neg : Bool) (r : Rx) (i : Nat) (caps : Caps) :
    runs env s (.look true neg r) i caps =
      if (!(runs env s r i caps).isEmpty) != neg then [(i, caps)] else [] := by
  rw [runs]

section
variable {env : CharEnv} (henv : FoldOK env) (s : Str)
include henv

theorem runs_crlf (i : Nat) (caps : Caps) :
    runs env s rxCRLF i caps =
      if s[i]? = some 13 ∧ s[i + 1]? = some 10 then [(i + 2, caps)] else [] := by
  unfold rxCRLF
  rw [runs_seq, runsSeq_char (isChar_litc henv s 13 (by omega))]
  cases h0 : s[i]? with
  | none => simp
  | some x =>
    by_cases hx : x = 13
    · subst hx
      rw [runsSeq_char (isChar_litc henv s 10 (by omega))]
      cases h1 : s[i + 1]? with
      | none => simp
      | some y => by_cases hy : y = 10 <;> simp [hy, runsSeq_nil]
    · simp [hx]

/-- `NEWLINE`. -/
theorem runs_nl (i : Nat) (caps : Caps) :
    runs env s rxNL i caps =
      match s[i]? with
      | some x => if x == 10 || x == 12 || x == 13 then [(i + wsLen (s.drop i), caps)] else []
      | none => [] := by
  unfold rxNL
  rw [runs_alt, runsAlt_cons, runsAlt_cons, runsAlt_nil, runs_seq, runsSeq_cons, runs_lookahead,
    runs_crlf henv]
  cases h0 : s[i]? with
  | none => simp [runsSeq_char (isChar_set env s _ _ _), h0]
  | some x =>
    rw [drop_some h0]
    simp only [wsLen, head_drop]
    by_cases hc : x = 13 ∧ s[i + 1]? = some 10
    · obtain ⟨rfl, h1⟩ := hc
      simp [h1]
    · have hc' : ¬ (some x = some 13 ∧ s[i + 1]? = some 10) := by
        rintro ⟨h, h1⟩; exact hc ⟨Option.some.inj h, h1⟩
      have hc2 : (x == 13 && s[i + 1]? == some 10) = false := by
        rw [Bool.and_eq_false_iff]
        by_cases hx : x = 13
        · right; simpa using fun h => hc ⟨hx, h⟩
        · left; simpa using hx
      simp only [hc', if_false, List.nil_append, List.isEmpty_nil, Bool.not_true, hc2,
        Bool.false_eq_true]
      rw [if_pos (show (false != true) = true from rfl)]
      simp only [List.flatMap_cons, List.flatMap_nil, List.append_nil]
      rw [runsSeq_char (isChar_set env s _ _ _), h0]
      simp only [setHas_nl henv, runsSeq_nil]
      by_cases hx : (x == 10 || x == 12 || x == 13) = true
      · have : isCssWs x = true := by
          simp only [isCssWs]; simp only [Bool.or_eq_true, beq_iff_eq] at hx ⊢; omega
        simp [hx, this]
      · simp [hx]
end

theorem wsLen_cons_ws {x : Nat} (t : Str) (h : isCssWs x = true) : 1 ≤ wsLen (x :: t) := by
  simp only [wsLen, h, if_true]; split <;> omega

theorem wsLen_cons_not {x : Nat} (t : Str) (h : isCssWs x = false) : wsLen (x :: t) = 0 := by
  have : (x == 13) = false := by
    simp only [isCssWs, Bool.or_eq_false_iff] at h; exact h.1.1.2
  simp [wsLen, h, this]

theorem wsLen_cons_sptab {x : Nat} (t : Str) (h : (x == 32 || x == 9) = true) : wsLen (x :: t) = 1 := by
  have h13 : (x == 13) = false := by
    simp only [Bool.or_eq_true, beq_iff_eq] at h; simp only [beq_eq_false_iff_ne]; omega
  have hws : isCssWs x = true := by
    simp only [isCssWs]; simp only [Bool.or_eq_true, beq_iff_eq] at h ⊢; omega
  simp [wsLen, h13, hws]

section
variable {env : CharEnv} (henv : FoldOK env) (s : Str)
include henv

/-- `WS`. -/
theorem runs_ws (j : Nat) (caps : Caps) :
    runs env s rxWS j caps =
      if wsLen (s.drop j) = 0 then [] else [(j + wsLen (s.drop j), caps)] := by
  unfold rxWS
  rw [runs_alt, runsAlt_cons, runsAlt_cons, runsAlt_nil, runs_nl henv, isChar_set env s _ _ _ j caps]
  unfold charBody
  cases h0 : s[j]? with
  | none => simp [drop_none h0, wsLen]
  | some x =>
    simp only [setHas_sptab henv]
    by_cases h1 : (x == 32 || x == 9) = true
    · have h2 : (x == 10 || x == 12 || x == 13) = false := by
        simp only [Bool.or_eq_true, beq_iff_eq] at h1
        simp only [Bool.or_eq_false_iff, beq_eq_false_iff_ne]; omega
      rw [drop_some h0, wsLen_cons_sptab _ h1]
      simp [h1, h2]
    · by_cases h2 : (x == 10 || x == 12 || x == 13) = true
      · have hws : isCssWs x = true := by
          simp only [isCssWs]; simp only [Bool.or_eq_true, beq_iff_eq] at h2 ⊢; omega
        have := wsLen_cons_ws (s.drop (j + 1)) hws
        rw [← drop_some h0] at this
        simp only [h1, h2, if_true, Bool.false_eq_true, if_false, List.nil_append, List.append_nil]
        rw [if_neg (by omega)]
      · have hws : isCssWs x = false := by
          simp only [isCssWs]
          simp only [Bool.or_eq_true, beq_iff_eq, not_or] at h1 h2
          simp only [Bool.or_eq_false_iff, beq_eq_false_iff_ne]; omega
        rw [drop_some h0, wsLen_cons_not _ hws]
        simp [h1, h2]

/-- `(?:WS|(?![ \t\r\n\f]))`: the white-space unit if there is one, nothing otherwise. -/
theorem runs_hexTail (j : Nat) (caps : Caps) :
    runs env s rxHexTail j caps = [(j + wsLen (s.drop j), caps)] := by
  unfold rxHexTail rxWsSet
  rw [runs_alt, runsAlt_cons, runsAlt_cons, runsAlt_nil, runs_ws henv, runs_lookahead,
    isChar_set env s _ _ _ j caps]
  unfold charBody
  cases h0 : s[j]? with
  | none => simp [drop_none h0, wsLen]
  | some x =>
    simp only [setHas_ws henv]
    cases hws : isCssWs x with
    | true =>
      have := wsLen_cons_ws (s.drop (j + 1)) hws
      rw [← drop_some h0] at this
      rw [if_neg (by omega)]
      simp
    | false =>
      rw [drop_some h0, wsLen_cons_not _ hws]
      simp
end

section
variable {env : CharEnv} (henv : FoldOK env) (s : Str)
include henv

theorem isChar_hex : IsChar env s rxHex isHex :=
  isChar_congr (isChar_set env s _ _ _) (setHas_hex henv)

/-- `(?![a-f0-9])` as the last element of a sequence. -/
theorem runsSeq_notHex (j : Nat) (c : Caps) :
    runsSeq env s [.look true true rxHex] j c =
      match s[j]? with
      | some x => if isHex x then [] else [(j, c)]
      | none => [(j, c)] := by
  rw [runsSeq_cons, runs_lookahead, isChar_hex henv s j c]
  unfold charBody
  cases h0 : s[j]? with
  | none => simp [runsSeq_nil]
  | some x => cases hx : isHex x <;> simp [runsSeq_nil, hx]

/-- `(?:[a-f0-9]{1,5}(?![a-f0-9])|[a-f0-9]{6})`: the whole run of hex digits, at most six. -/
theorem runs_hexDigits (p : Nat) (caps : Caps) :
    runs env s rxHexDigits p caps =
      if 1 ≤ spanLen s isHex p then [(p + min (spanLen s isHex p) 6, caps)] else [] := by
  unfold rxHexDigits
  rw [runs_alt, runsAlt_cons, runsAlt_cons, runsAlt_nil, runs_seq, runsSeq_cons,
    runs_rep_char (isChar_hex henv s), runs_rep_char_exact (isChar_hex henv s)]
  simp only [room, Nat.sub_zero, List.append_nil]
  generalize hk : spanLen s isHex p = k
  have inside : ∀ j, p ≤ j → j < p + k → runsSeq env s [.look true true rxHex] j caps = [] := by
    intro j h1 h2
    obtain ⟨x, hx, hPx⟩ := span_inside s isHex (j - p) p (by omega)
    rw [show p + (j - p) = j by omega] at hx
    rw [runsSeq_notHex henv, hx]; simp [hPx]
  have atEnd : runsSeq env s [.look true true rxHex] (p + k) caps = [(p + k, caps)] := by
    rw [runsSeq_notHex henv]
    cases h0 : s[p + k]? with
    | none => rfl
    | some x => simp [span_end s isHex k p hk x h0]
  rcases Nat.lt_or_ge k 1 with h0 | h1
  · rw [down_empty caps (by omega), if_neg (by omega), if_neg (by omega)]; rfl
  · rw [if_pos h1]
    rcases Nat.lt_or_ge k 6 with h5 | h6
    · rw [if_neg (by omega), show min k 5 = k by omega, show min k 6 = k by omega]
      have := flatMap_down_cut caps (fun x => runsSeq env s [.look true true rxHex] x.1 x.2)
        (k - 1) (p + 1) (fun j h1 h2 => inside j (by omega) (by omega))
      rw [show p + 1 + (k - 1) = p + k by omega] at this
      rw [this, List.append_nil]; exact atEnd
    · rw [if_pos h6, show min k 5 = 5 by omega, show min k 6 = 6 by omega]
      rw [flatMap_down_nil caps _ (p + 1) (p + 5) (fun j h1 h2 => inside j (by omega) (by omega))]
      rfl
end

theorem hexRun_eq (k : Nat) (t : Str) : hexRun k t = min (t.takeWhile isHex).length k := by
  induction k generalizing t with
  | zero => simp [hexRun]
  | succ k ih =>
    cases t with
    | nil => simp [hexRun]
    | cons c cs =>
      rw [hexRun, List.takeWhile_cons]
      cases hc : isHex c with
      | true => simp only [if_true, ih cs, List.length_cons]; omega
      | false => simp

theorem hexRun_drop (s : Str) (p : Nat) : hexRun 6 (s.drop p) = min (spanLen s isHex p) 6 :=
  hexRun_eq 6 _

theorem runsSeq_single (env : CharEnv) (s : Str) (r : Rx) (i : Nat) (caps : Caps) :
    runsSeq env s [r] i caps = runs env s r i caps := by
  rw [runsSeq_cons]
  simp [runsSeq_nil]

theorem isHex_not_nl {d : Nat} (h : isHex d = true) : (d == 13 || d == 10 || d == 12) = false := by
  simp only [isHex, Bool.or_eq_true, Bool.and_eq_true, decide_eq_true_eq] at h
  simp only [Bool.or_eq_false_iff, beq_eq_false_iff_ne]; omega

section
variable {env : CharEnv} (henv : FoldOK env) (s : Str)
include henv

theorem runs_hexPart (p : Nat) (caps : Caps) :
    runs env s rxHexPart p caps =
      if 1 ≤ spanLen s isHex p then
        [(p + min (spanLen s isHex p) 6 + wsLen (s.drop (p + min (spanLen s isHex p) 6)), caps)]
      else [] := by
  unfold rxHexPart
  rw [runs_seq, runsSeq_cons, runs_hexDigits henv]
  by_cases h : 1 ≤ spanLen s isHex p
  · simp only [if_pos h, List.flatMap_cons, List.flatMap_nil, List.append_nil]
    rw [runsSeq_single, runs_hexTail henv]
  · simp only [if_neg h, List.flatMap_nil]

/-- `CSS_STRING_ESCAPES` is deterministic, and `strEscLen` is its length. -/
theorem runs_strEsc (i : Nat) (caps : Caps) :
    runs env s rxStrEsc i caps =
      match strEscLen (s.drop i) with
      | some n => [(i + n, caps)]
      | none => [] := by
  unfold rxStrEsc
  rw [runs_seq, runsSeq_char (isChar_litc henv s 92 (by omega))]
  cases h0 : s[i]? with
  | none => rw [drop_none h0]; rfl
  | some b =>
    rw [drop_some h0]
    by_cases hb : b = 92
    · subst hb
      simp only [beq_self_eq_true, if_true]
      rw [runsSeq_single, runs_alt, runsAlt_cons, runsAlt_cons, runsAlt_cons, runsAlt_nil,
        runs_hexPart henv, runs_nl henv, isChar_set env s _ _ _ (i + 1) caps]
      unfold charBody
      cases h1 : s[i + 1]? with
      | none =>
        rw [drop_none h1, spanLen_of_none h1]
        simp [strEscLen]
      | some d =>
        simp only [setHas_escOther henv]
        have hdrop := drop_some h1
        cases hd : isHex d with
        | true =>
          have hsp := spanLen_of_ok h1 hd
          have hnl := isHex_not_nl hd
          have hnl' : (d == 10 || d == 12 || d == 13) = false := by
            simp only [Bool.or_eq_false_iff] at hnl ⊢; exact ⟨⟨hnl.1.2, hnl.2⟩, hnl.1.1⟩
          have e : strEscLen (92 :: s.drop (i + 1)) =
              some (1 + hexRun 6 (s.drop (i + 1)) + wsLen ((s.drop (i + 1)).drop (hexRun 6 (s.drop (i + 1))))) := by
            rw [hdrop]; simp [strEscLen, hd]
          rw [e, hexRun_drop, List.drop_drop, if_pos (by omega)]
          simp only [hnl, hnl', Bool.or_true, Bool.not_true, Bool.false_eq_true, if_false,
            List.append_nil]
          congr 2 <;> omega
        | false =>
          have hsp := spanLen_of_not h1 hd
          rw [hsp, if_neg (by omega)]
          by_cases hnl0 : d = 10 ∨ d = 13 ∨ d = 12
          · have hnl : (d == 10 || d == 13 || d == 12) = true := by
              simp only [Bool.or_eq_true, beq_iff_eq]; omega
            have hnl1 : (d == 13 || d == 10 || d == 12) = true := by
              simp only [Bool.or_eq_true, beq_iff_eq]; omega
            have hnl2 : (d == 10 || d == 12 || d == 13) = true := by
              simp only [Bool.or_eq_true, beq_iff_eq]; omega
            have e : strEscLen (92 :: s.drop (i + 1)) = some (1 + wsLen (s.drop (i + 1))) := by
              rw [hdrop]
              simp only [strEscLen, bne_self_eq_false, Bool.false_eq_true, if_false, hd, hnl, if_true]
            rw [e]
            simp only [hnl1, hnl2, Bool.or_false, Bool.not_true, Bool.false_eq_true, if_false,
              if_true, List.nil_append, List.append_nil]
            congr 2; omega
          · have hnl : (d == 10 || d == 13 || d == 12) = false := by
              simp only [Bool.or_eq_false_iff, beq_eq_false_iff_ne]; omega
            have hnl1 : (d == 13 || d == 10 || d == 12) = false := by
              simp only [Bool.or_eq_false_iff, beq_eq_false_iff_ne]; omega
            have hnl2 : (d == 10 || d == 12 || d == 13) = false := by
              simp only [Bool.or_eq_false_iff, beq_eq_false_iff_ne]; omega
            have e : strEscLen (92 :: s.drop (i + 1)) = some 2 := by
              rw [hdrop]; simp [strEscLen, hd, hnl]
            rw [e]
            simp [hnl1, hnl2]
    · have : strEscLen (b :: s.drop (i + 1)) = none := by simp [strEscLen, hb]
      rw [this]; simp [hb]
end

/-! ### One iteration of the string body -/

/-- Length of one item of the body of a string quoted with `q`: an escape, or one plain character. -/
def stepLen (q : Nat) (t : Str) : Option Nat :=
  match t with
  | [] => none
  | c :: _ =>
    if c == 92 then strEscLen t
    else if c == q || c == 13 || c == 10 || c == 12 then none else some 1

theorem strEscLen_pos {t : Str} {n : Nat} (h : strEscLen t = some n) : 1 ≤ n := by
  unfold strEscLen at h
  split at h
  · cases h
  · split at h
    · cases h
    · split at h
      · cases h
      · split at h
        · simp only [Option.some.injEq] at h; omega
        · split at h
          · simp only [Option.some.injEq] at h; omega
          · simp only [Option.some.injEq] at h; omega

theorem stepLen_pos {q : Nat} {t : Str} {n : Nat} (h : stepLen q t = some n) : 1 ≤ n := by
  unfold stepLen at h
  split at h
  · cases h
  · split at h
    · exact strEscLen_pos h
    · split at h
      · cases h
      · simp only [Option.some.injEq] at h; omega

theorem strEscLen_not_bs {c : Nat} (cs : Str) (h : c ≠ 92) : strEscLen (c :: cs) = none := by
  simp [strEscLen, h]

section
variable {env : CharEnv} (henv : FoldOK env) (s : Str)
include henv

/-- The body of the lazy star is deterministic. -/
theorem runs_body (q : Nat) (hq : q = 34 ∨ q = 39) (i : Nat) (caps : Caps) :
    runs env s (rxBody q) i caps =
      match stepLen q (s.drop i) with
      | some n => [(i + n, caps)]
      | none => [] := by
  unfold rxBody rxPlain
  rw [runs_alt, runsAlt_cons, runsAlt_cons, runsAlt_nil, runs_strEsc henv,
    isChar_set env s _ _ _ i caps]
  unfold charBody
  cases h0 : s[i]? with
  | none => rw [drop_none h0]; rfl
  | some c =>
    rw [drop_some h0]
    simp only [setHas_plain henv q hq, stepLen]
    by_cases hc : c = 92
    · subst hc
      simp
    · have hc' : (c == 92) = false := by simpa using hc
      rw [strEscLen_not_bs _ hc]
      simp only [hc', Bool.false_or, List.nil_append, List.append_nil, Bool.false_eq_true, if_false]
      cases hp : (c == q || c == 13 || c == 10 || c == 12) <;> simp
end

/-! ### The hand scanner, as an end position -/

/-- Length of the body found by `scanStrBody`. -/
def scanEnd (q : Nat) (t : Str) : Option Nat := (scanStrBody q 0 t).map (·.1.length)

theorem map_len_cons (o : Option (Str × Str)) (c : Nat) :
    (o.map fun r => (c :: r.1, r.2)).map (·.1.length) = (o.map (·.1.length)).map (· + 1) := by
  cases o <;> rfl

theorem scan_skip (q : Nat) : ∀ (t : Str) (k : Nat),
    (scanStrBody q k t).map (·.1.length) = (scanEnd q (t.drop k)).map (fun e => k + e)
  | [], k => by simp [scanStrBody, scanEnd]
  | c :: cs, 0 => by
    rw [List.drop_zero]; unfold scanEnd
    cases scanStrBody q 0 (c :: cs) <;> simp
  | c :: cs, k + 1 => by
    rw [scanStrBody, map_len_cons, scan_skip q cs k, List.drop_succ_cons]
    cases scanEnd q (cs.drop k) with
    | none => rfl
    | some e => simp only [Option.map_some, Option.some.injEq]; omega

theorem scanEnd_nil (q : Nat) : scanEnd q [] = none := rfl

theorem scanEnd_cons (q c : Nat) (cs : Str) :
    scanEnd q (c :: cs) =
      if c == q then some 0
      else match stepLen q (c :: cs) with
        | some n => (scanEnd q ((c :: cs).drop n)).map (fun e => n + e)
        | none => none := by
  unfold stepLen
  have e : scanEnd q (c :: cs) = (scanStrBody q 0 (c :: cs)).map (·.1.length) := rfl
  rw [e, scanStrBody]
  by_cases hq : (c == q) = true
  · simp [hq]
  · simp only [hq, if_false, Bool.false_eq_true, Bool.false_or]
    by_cases hb : (c == 92) = true
    · simp only [hb, if_true]
      cases he : strEscLen (c :: cs) with
      | none => rfl
      | some n =>
        have hn := strEscLen_pos he
        have := scan_skip q cs (n - 1)
        dsimp only
        rw [show (c :: cs).drop n = cs.drop (n - 1) by
          rw [show n = (n - 1) + 1 by omega, List.drop_succ_cons]; simp]
        show ((scanStrBody q (n - 1) cs).map fun r => (c :: r.1, r.2)).map (·.1.length) = _
        rw [map_len_cons, this]
        cases scanEnd q (cs.drop (n - 1)) with
        | none => rfl
        | some e => simp only [Option.map_some, Option.some.injEq]; omega
    · simp only [hb, if_false, Bool.false_eq_true]
      by_cases hn : (c == 10 || c == 13 || c == 12) = true
      · have hn' : (c == 13 || c == 10 || c == 12) = true := by
          simp only [Bool.or_eq_true, beq_iff_eq] at hn ⊢; omega
        simp [hn, hn']
      · have hn' : (c == 13 || c == 10 || c == 12) = false := by
          simp only [Bool.or_eq_true, beq_iff_eq] at hn
          simp only [Bool.or_eq_false_iff, beq_eq_false_iff_ne]; omega
        simp only [hn, hn', if_false, Bool.false_eq_true, List.drop_succ_cons, List.drop_zero]
        show ((scanStrBody q 0 cs).map fun r => (c :: r.1, r.2)).map (·.1.length) = _
        rw [map_len_cons]
        show (scanEnd q cs).map (· + 1) = _
        cases scanEnd q cs with
        | none => rfl
        | some e => simp only [Option.map_some, Option.some.injEq]; omega

/-! ### The lazy star followed by the closing quote -/

/-- One unfolding of a lazy star. -/
theorem iter_lazy_star (body : Nat → Caps → List (Nat × Caps)) (fuel count pos : Nat) (caps : Caps) :
    iter body 0 none false (fuel + 1) count pos caps =
      (pos, caps) :: (body pos caps).flatMap fun x =>
        if x.1 > pos then iter body 0 none false fuel (count + 1) x.1 x.2 else [(x.1, x.2)] := by
  rw [iter_succ]
  simp [canMore]

section
variable {env : CharEnv} (henv : FoldOK env) (s : Str)
include henv

theorem runsSeq_close (q : Nat) (hq : q = 34 ∨ q = 39) (j : Nat) (caps : Caps) :
    runsSeq env s [.lit q true] j caps =
      match s[j]? with
      | some x => if x == q then [(j + 1, caps)] else []
      | none => [] := by
  rw [runsSeq_char (isChar_litc henv s q (by omega))]
  cases s[j]? with
  | none => rfl
  | some x => simp only [runsSeq_nil]

/-- The first success of `(?:…)*?q` from `pos` is at the first unescaped `q`, as found by the hand
    scanner; there is none if the hand scanner fails. -/
theorem iter_body_close (q : Nat) (hq : q = 34 ∨ q = 39) :
    ∀ (fuel count pos : Nat) (caps : Caps), s.length - pos + 1 ≤ fuel →
      (((iter (fun p c => runs env s (rxBody q) p c) 0 none false fuel count pos caps).flatMap
          (fun x => runsSeq env s [.lit q true] x.1 x.2)).head?) =
        (scanEnd q (s.drop pos)).map (fun e => (pos + e + 1, caps))
  | 0, _, _, _, hf => by omega
  | fuel + 1, count, pos, caps, hf => by
    rw [iter_lazy_star, List.flatMap_cons, runsSeq_close henv s q hq, runs_body henv s q hq]
    cases h0 : s[pos]? with
    | none => rw [drop_none h0]; rfl
    | some c =>
      rw [drop_some h0, scanEnd_cons, ← drop_some h0]
      by_cases hc : (c == q) = true
      · simp [hc]
      · simp only [hc, if_false, Bool.false_eq_true, List.nil_append]
        cases hst : stepLen q (s.drop pos) with
        | none => rfl
        | some n =>
          have hn := stepLen_pos hst
          have hlt : pos < s.length := by
            rcases Nat.lt_or_ge pos s.length with h' | h'
            · exact h'
            · rw [List.getElem?_eq_none h'] at h0; cases h0
          simp only [List.flatMap_cons, List.flatMap_nil, List.append_nil]
          rw [if_pos (by omega), iter_body_close q hq fuel (count + 1) (pos + n) caps (by omega),
            List.drop_drop]
          cases scanEnd q (s.drop (pos + n)) with
          | none => rfl
          | some e =>
    simp only [Option.map_some]
    exact congrArg some (Prod.ext (by dsimp only; omega) rfl)
end

/-! ### What the hand scanner returns -/

/-- The scanner splits its input: body, closing quote, rest. -/
theorem scanStrBody_split (q : Nat) : ∀ (t : Str) (k : Nat) (body rest : Str),
    scanStrBody q k t = some (body, rest) → t = body ++ q :: rest
  | [], k, body, rest, h => by simp [scanStrBody] at h
  | c :: cs, k + 1, body, rest, h => by
    rw [scanStrBody] at h
    cases hr : scanStrBody q k cs with
    | none => rw [hr] at h; cases h
    | some r =>
      rw [hr] at h
      simp only [Option.map_some, Option.some.injEq, Prod.mk.injEq] at h
      obtain ⟨rfl, rfl⟩ := h
      rw [scanStrBody_split q cs k r.1 r.2 hr]; rfl
  | c :: cs, 0, body, rest, h => by
    rw [scanStrBody] at h
    have key : ∀ k, (scanStrBody q k cs).map (fun r => (c :: r.1, r.2)) = some (body, rest) →
        c :: cs = body ++ q :: rest := by
      intro k h
      cases hr : scanStrBody q k cs with
      | none => rw [hr] at h; cases h
      | some r =>
        rw [hr] at h
        simp only [Option.map_some, Option.some.injEq, Prod.mk.injEq] at h
        obtain ⟨rfl, rfl⟩ := h
        rw [scanStrBody_split q cs k r.1 r.2 hr]; rfl
    split at h
    · rename_i hc
      simp only [Option.some.injEq, Prod.mk.injEq] at h
      obtain ⟨rfl, rfl⟩ := h
      rw [beq_iff_eq] at hc; rw [hc]; rfl
    · split at h
      · split at h
        · exact key _ h
        · cases h
      · split at h
        · cases h
        · exact key _ h

theorem scanString_split (s : Str) (q : Nat) (body rest : Str)
    (h : scanString s = some (q, body, rest)) : s = q :: (body ++ q :: rest) := by
  cases s with
  | nil => cases h
  | cons c cs =>
    rw [scanString] at h
    split at h
    · cases hr : scanStrBody c 0 cs with
      | none => rw [hr] at h; cases h
      | some r =>
        rw [hr] at h
        simp only [Option.map_some, Option.some.injEq, Prod.mk.injEq] at h
        obtain ⟨rfl, rfl, rfl⟩ := h
        rw [scanStrBody_split c cs 0 r.1 r.2 hr]
    · cases h

/-! ### The whole of `RE_VALUES` on an input that starts with a quote -/

section
variable {env : CharEnv} (henv : FoldOK env) (s : Str)
include henv

theorem runs_quoted_ne (q : Nat) (hq : q = 34 ∨ q = 39) (x : Nat) (h0 : s[0]? = some x) (hx : x ≠ q)
    (caps : Caps) : runs env s (rxQuoted q) 0 caps = [] := by
  unfold rxQuoted
  rw [runs_seq, runsSeq_char (isChar_litc henv s q (by omega)), h0]
  simp [hx]

theorem runs_quoted_eq (q : Nat) (hq : q = 34 ∨ q = 39) (h0 : s[0]? = some q) (caps : Caps) :
    (runs env s (rxQuoted q) 0 caps).head? =
      (scanEnd q (s.drop 1)).map (fun e => (e + 2, caps)) := by
  unfold rxQuoted
  rw [runs_seq, runsSeq_char (isChar_litc henv s q (by omega)), h0]
  simp only [beq_self_eq_true, if_true]
  rw [runsSeq_cons, runs, iter_body_close henv s q hq _ 0 (0 + 1) caps (by omega)]
  cases scanEnd q (s.drop (0 + 1)) with
  | none => rfl
  | some e =>
    simp only [Option.map_some]
    exact congrArg some (Prod.ext (by dsimp only; omega) rfl)
end

section
variable {env : CharEnv} (henv : FoldOK env) (s : Str)
include henv

/-- `IDENTIFIER` cannot start with a quote. -/
theorem runs_ident_quote (x : Nat) (h0 : s[0]? = some x) (hx : x = 34 ∨ x = 39)
    (identEsc identTail : Rx) (caps : Caps) :
    runs env s
      (.seq [.alt [.seq [.rep 0 (some 1) true (.lit 45 true),
                        .alt [.set true [.range 0 47, .range 48 64, .range 91 94, .ch 96,
                                .range 123 127] true,
                              .seq [.lit 92 true, identEsc]]],
                   .seq [.lit 45 true, .lit 45 true]],
             identTail]) 0 caps = [] := by
  have h45 := isChar_litc henv s 45 (by omega)
  have hsp : spanLen s (fun x => x == 45) 0 = 0 :=
    spanLen_of_not h0 (by rcases hx with rfl | rfl <;> rfl)
  have hset : setHas env true [.range 0 47, .range 48 64, .range 91 94, .ch 96, .range 123 127]
      true x = false := by
    rcases hx with rfl | rfl <;> simp [setHas, itemHas]
  have h1 : runs env s (.seq [.rep 0 (some 1) true (.lit 45 true),
                        .alt [.set true [.range 0 47, .range 48 64, .range 91 94, .ch 96,
                                .range 123 127] true,
                              .seq [.lit 92 true, identEsc]]]) 0 caps = [] := by
    rw [runs_seq, runsSeq_cons, runs_rep_char h45]
    simp only [room, hsp, Nat.add_zero, Nat.zero_min, down_single, List.flatMap_cons,
      List.flatMap_nil, List.append_nil]
    rw [runsSeq_single, runs_alt, runsAlt_cons, runsAlt_cons, runsAlt_nil,
      isChar_set env s _ _ _ 0 caps, runs_seq,
      runsSeq_char (isChar_litc henv s 92 (by omega))]
    unfold charBody
    rw [h0]
    rcases hx with rfl | rfl <;> simp [hset]
  have h2 : runs env s (.seq [.lit 45 true, .lit 45 true]) 0 caps = [] := by
    rw [runs_seq, runsSeq_char h45, h0]
    rcases hx with rfl | rfl <;> simp
  rw [runs_seq, runsSeq_cons, runs_alt, runsAlt_cons, runsAlt_cons, runsAlt_nil, h1, h2]
  rfl

/-- `WSC*,…` cannot start with a quote. -/
theorem runs_split_quote (x : Nat) (h0 : s[0]? = some x) (hx : x = 34 ∨ x = 39)
    (commentTail splitTail : List Rx) (caps : Caps) :
    runs env s
      (.seq (.rep 0 none true (.alt [rxWS, .seq (.lit 47 true :: commentTail)])
              :: .lit 44 true :: splitTail)) 0 caps = [] := by
  have hws : wsLen (s.drop 0) = 0 := by
    rw [drop_some h0]
    exact wsLen_cons_not _ (by rcases hx with rfl | rfl <;> rfl)
  have hbody : runs env s (.alt [rxWS, .seq (.lit 47 true :: commentTail)]) 0 caps = [] := by
    rw [runs_alt, runsAlt_cons, runsAlt_cons, runsAlt_nil, runs_ws henv, if_pos hws, runs_seq,
      runsSeq_char (isChar_litc henv s 47 (by omega)), h0]
    rcases hx with rfl | rfl <;> simp
  have hstar : runs env s (.rep 0 none true (.alt [rxWS, .seq (.lit 47 true :: commentTail)])) 0 caps
      = [(0, caps)] := by
    rw [runs, show s.length - 0 + 0 + 2 = (s.length + 1) + 1 by omega, iter_succ, hbody]
    simp [canMore]
  rw [runs_seq, runsSeq_cons, hstar]
  simp only [List.flatMap_cons, List.flatMap_nil, List.append_nil]
  rw [runsSeq_char (isChar_litc henv s 44 (by omega)), h0]
  rcases hx with rfl | rfl <;> simp

/-- Main theorem, with the captures: on an input that starts with `"` or `'`, `RE_VALUES.match`
    succeeds exactly when the hand scanner `scanString` does; the match (and group 1, `value`) ends
    after the closing quote found by the scanner, and no other group is set. -/
theorem value_quoted_matchAt (hq : s.head? = some 34 ∨ s.head? = some 39) :
    Rx.matchAt env Gen.cp_RE_VALUES s 0 =
      (scanString s).map (fun (_, body, _) => (body.length + 2, [(1, 0, body.length + 2)])) := by
  obtain ⟨identEsc, identTail, commentTail, splitTail, hshape⟩ := values_shape
  cases s with
  | nil => rcases hq with h | h <;> cases h
  | cons q cs =>
    have hq' : q = 34 ∨ q = 39 := by
      rcases hq with h | h
      · left; exact Option.some.inj h
      · right; exact Option.some.inj h
    have h0 : (q :: cs)[0]? = some q := rfl
    have hident := runs_ident_quote henv (q :: cs) q h0 hq' identEsc identTail []
    have hsplit := runs_split_quote henv (q :: cs) q h0 hq' commentTail splitTail []
    have hmain := runs_quoted_eq henv (q :: cs) q hq' h0 []
    have hscan : scanString (q :: cs) = (scanStrBody q 0 cs).map fun r => (q, r.1, r.2) := by
      rcases hq' with rfl | rfl <;> rfl
    have hrhs : (scanString (q :: cs)).map
          (fun (_, body, _) => (body.length + 2, ([(1, 0, body.length + 2)] : Caps))) =
        (scanEnd q cs).map (fun e => (e + 2, [(1, 0, e + 2)])) := by
      rw [hscan, scanEnd]; cases scanStrBody q 0 cs <;> rfl
    rw [hrhs, matchAt, hshape, runs_alt, runsAlt_cons, runsAlt_cons, runsAlt_nil, runs_group,
      runs_group, hsplit, runs_alt, runsAlt_cons, runsAlt_cons, runsAlt_cons, runsAlt_nil, hident]
    simp only [List.map_nil, List.append_nil]
    have hother : ∀ q', (q' = 34 ∨ q' = 39) → q' ≠ q → runs env (q :: cs) (rxQuoted q') 0 [] = [] :=
      fun q' h1 h2 => runs_quoted_ne henv (q :: cs) q' h1 q h0 (Ne.symm h2) []
    have hfin : ∀ L : List (Nat × Caps),
        L.head? = (scanEnd q ((q :: cs).drop 1)).map (fun e => (e + 2, ([] : Caps))) →
        (L.map fun x => (x.1, (1, 0, x.1) :: x.2.filter (fun e => e.1 != 1))).head? =
          (scanEnd q cs).map (fun e => (e + 2, [(1, 0, e + 2)])) := by
      intro L hL
      rw [List.head?_map, hL]
      show Option.map _ (Option.map _ (scanEnd q cs)) = _
      cases scanEnd q cs <;> rfl
    rcases hq' with rfl | rfl
    · rw [hother 39 (by omega) (by omega), List.append_nil]
      exact hfin _ hmain
    · rw [hother 34 (by omega) (by omega), List.nil_append]
      exact hfin _ hmain
end

/-- The requested statement, for any environment whose folding is `FoldOK`. -/
theorem value_quoted_eq_scan_env {env : CharEnv} (henv : FoldOK env) (s : Str)
    (hq : s.head? = some 34 ∨ s.head? = some 39) :
    (Rx.matchAt env Gen.cp_RE_VALUES s 0).map (·.1) =
      (scanString s).map (fun (_, body, _) => body.length + 2) := by
  rw [value_quoted_matchAt henv s hq]
  cases scanString s <;> rfl

/-- `RE_VALUES` (run under Python's IGNORECASE folding) on a quoted start is `scanString`. -/
theorem value_quoted_eq_scan (s : Str) (hq : s.head? = some 34 ∨ s.head? = some 39) :
    (Rx.matchAt pyFoldEnv Gen.cp_RE_VALUES s 0).map (·.1) =
      (scanString s).map (fun (_, body, _) => body.length + 2) :=
  value_quoted_eq_scan_env foldOK_py s hq

/-- The same under the ASCII environment. -/
theorem value_quoted_eq_scan_ascii (s : Str) (hq : s.head? = some 34 ∨ s.head? = some 39) :
    (Rx.matchAt asciiEnv Gen.cp_RE_VALUES s 0).map (·.1) =
      (scanString s).map (fun (_, body, _) => body.length + 2) :=
  value_quoted_eq_scan_env foldOK_ascii s hq

/-- When the hand scanner fails on a quoted start, no alternative of `RE_VALUES` matches. -/
theorem value_quoted_none {env : CharEnv} (henv : FoldOK env) (s : Str)
    (hq : s.head? = some 34 ∨ s.head? = some 39) (h : scanString s = none) :
    Rx.matchAt env Gen.cp_RE_VALUES s 0 = none := by
  rw [value_quoted_matchAt henv s hq, h]; rfl

#print axioms value_quoted_matchAt
#print axioms value_quoted_eq_scan
#print axioms value_quoted_eq_scan_ascii
#print axioms value_quoted_none

end StringTok
end Refine
end SoupVerif
