/-
  Namespace prefixes, part 1: the optional prefix `(?:(?:IDENTIFIER|\*)?\|)?` of the `tag` and `attribute`
  tokens when it IS present (`ns|`, `*|`, `|`), and the `tag` token `ns|name`, `ns|*`, `*|name`, … with
  what the parser loop does with it.
-/
import SoupVerif.Properties.C09Compile
namespace SoupVerif
namespace Refine
namespace Compile
open Rx RxBasic SoupVerif.Parser ParserProgress Escape Spelling
open Ident (rxHead rxStar contStep contLen single IdentFold)
open C09Compile (STag identOK)

/-- A namespace prefix that is present, with its spelling: `|`, `*|`, `ident|`. -/
inductive SNs where
  | empty
  | star
  | name (f : List (Nat × EscForm))

/-- The text of the prefix, without the bar. -/
def SNs.text : SNs → Str
  | .empty => []
  | .star => [42]
  | .name f => renderIdentWith f

/-- The value of the prefix: what `css_unescape` makes of the text without the bar. -/
def SNs.value : SNs → Str
  | .empty => []
  | .star => [42]
  | .name f => valueOf f

/-- Admissible in front of `|` + `rest`. -/
def SNs.ok (rest : Str) : SNs → Prop
  | .name f => identOK f (124 :: rest)
  | _ => True

theorem not_cont_bar (rest : Str) : ¬ continuesIdent (124 :: rest) := by
  simp [continuesIdent, identContChar]

theorem SNs.unescape (ns : SNs) (rest : Str) (hok : ns.ok rest) :
    Parser.cssUnescape pyFoldEnv Gen.lexicon ns.text = ns.value := by
  cases ns with
  | empty => decide
  | star => decide
  | name f =>
    obtain ⟨hv, _, hcp⟩ := hok
    exact unescape_forms f (SpellingLemmas.validForms_nil_of f _ hv) hcp

/-- First character of prefix + bar. -/
def nsStart (c : Nat) : Bool := c == 124 || tagStart c

theorem SNs.head (ns : SNs) (rest : Str) (hok : ns.ok rest) :
    ∃ c cs, ns.text ++ 124 :: rest = c :: cs ∧ nsStart c = true := by
  cases ns with
  | empty => exact ⟨124, rest, rfl, by decide⟩
  | star => exact ⟨42, 124 :: rest, rfl, by decide⟩
  | name f =>
    obtain ⟨_, hh, _⟩ := hok
    obtain ⟨c, cs, hcs, hc⟩ := headOk_first f hh
    refine ⟨c, cs ++ 124 :: rest, by simp [SNs.text, hcs], ?_⟩
    rcases hc with hc | hc | hc <;> simp [nsStart, tagStart, hc]

/-- `(?:IDENTIFIER|\*)?\|` on a prefix that is there: exactly one run, to the end of the bar. -/
theorem nsInner_runs {env : CharEnv} (h : IdentFold env) (s : Str) (a : Nat) (caps : Caps) (ns : SNs)
    (rest : Str) (hd : s.drop a = ns.text ++ 124 :: rest) (hok : ns.ok rest) :
    runs env s (.seq [.rep 0 (some 1) true rxName, .lit 124 true]) a caps =
      [(a + ns.text.length + 1, caps)] := by
  obtain ⟨c0, cs0, hc0, _⟩ := ns.head rest hok
  have hal : a < s.length := lt_of_drop_cons (hd.trans hc0)
  have hk : ∀ j c, (contStep (s.drop j)).isSome = true → runsSeq env s [.lit 124 true] j c = [] :=
    fun j c hj => lit_fail_at_unit h s 124 (by omega) (by decide) [] j c hj
  rw [runs_seq, runsSeq_opt_cons, name_then h s a caps [.lit 124 true] (by omega) hk]
  cases ns with
  | empty =>
    simp only [SNs.text, List.nil_append] at hd
    have h0 := getElem?_of_drop_cons hd
    have hs : scanIdent (s.drop a) = none := by
      rw [hd]; exact scanIdent_none_of_head (by simp [tagStart, identStartChar])
    rw [hs, if_neg (by rw [h0]; simp), lit_ok env s 124 [] a caps h0, runsSeq_nil]
    rfl
  | star =>
    simp only [SNs.text, List.cons_append, List.nil_append] at hd
    have h0 := getElem?_of_drop_cons hd
    have h1 := getElem?_of_drop_cons (Ident.drop_succ_of_drop_cons hd)
    have hs : scanIdent (s.drop a) = none := by rw [hd]; exact scanIdent_star _
    rw [hs, if_pos h0, lit_ok env s 124 [] (a + 1) caps h1, runsSeq_nil,
      lit_fail h s 124 (by omega) [] a caps (by rw [h0]; simp)]
    rfl
  | name f =>
    obtain ⟨hv, hh, _⟩ := hok
    simp only [SNs.text] at hd ⊢
    have hs : scanIdent (s.drop a) = some (renderIdentWith f, 124 :: rest) := by
      rw [hd]; exact C09.scan_any_spelling_ctx f _ hv hh (not_cont_bar rest)
    obtain ⟨c, cs, hcs, hc⟩ := headOk_first f hh
    have h0 : s[a]? = some c := getElem?_of_drop_cons (s := s) (p := a) (by rw [hd, hcs]; rfl)
    have hc' : c ≠ 42 ∧ c ≠ 124 := by
      rcases hc with hc | hc | hc
      · omega
      · omega
      · simp only [identStartChar, Bool.or_eq_true, Bool.and_eq_true, decide_eq_true_eq, beq_iff_eq] at hc
        omega
    have hbar : s[a + (renderIdentWith f).length]? = some 124 :=
      getElem?_of_drop_cons (drop_add_of_drop_append hd)
    rw [hs, if_neg (by rw [h0]; simpa using hc'.1)]
    simp only
    rw [lit_ok env s 124 [] _ caps hbar, runsSeq_nil,
      lit_fail h s 124 (by omega) [] a caps (by rw [h0]; simpa using hc'.2)]
    rfl

/-- The optional prefix, present: its body's run comes first. -/
theorem nsOpt_present {env : CharEnv} (h : IdentFold env) (s : Str) (a : Nat) (caps : Caps) (ns : SNs)
    (rest : Str) (rs : List Rx) (hd : s.drop a = ns.text ++ 124 :: rest) (hok : ns.ok rest) :
    runsSeq env s (rxNsOpt :: rs) a caps =
      runsSeq env s rs (a + ns.text.length + 1)
        ((1, a, a + ns.text.length + 1) :: caps.filter (fun e => e.1 != 1)) ++
      runsSeq env s rs a caps := by
  have hb : runsSeq env s (rxNsBody :: rs) a caps =
      runsSeq env s rs (a + ns.text.length + 1)
        ((1, a, a + ns.text.length + 1) :: caps.filter (fun e => e.1 != 1)) := by
    unfold rxNsBody
    rw [runsSeq_group_cons, nsInner_runs h s a caps ns rest hd hok]
    simp only [List.flatMap_cons, List.flatMap_nil, List.append_nil]
  unfold rxNsOpt
  rw [runsSeq_opt_cons, hb]

/-- The first run of `(?:IDENTIFIER|\*)`. -/
theorem name_runs_head {env : CharEnv} (h : IdentFold env) (s : Str) (j : Nat) (c : Caps)
    (hj : j ≤ s.length) :
    (runs env s rxName j c).head? =
      match scanIdent (s.drop j) with
      | some m => some (j + m.1.length, c)
      | none => if s[j]? = some 42 then some (j + 1, c) else none := by
  unfold rxName
  rw [runs_alt, runsAlt_cons, runsAlt_cons, runsAlt_nil, List.append_nil]
  cases hs : scanIdent (s.drop j) with
  | some m =>
    obtain ⟨rest, hrest⟩ := ident_runs_head h s j c hj m hs
    rw [hrest]; rfl
  | none =>
    rw [ident_runs_nil h s j c hs, List.nil_append, ← Wsc.runsSeq_single]
    by_cases h42 : s[j]? = some 42
    · rw [lit_ok env s 42 [] j c h42, if_pos h42, runsSeq_nil]; rfl
    · rw [lit_fail h s 42 (by omega) [] j c h42, if_neg h42]; rfl

/-- A type selector of the covered grammar (`*` or an identifier) is what `(?:IDENTIFIER|\*)` reads. -/
theorem stag_runs_head (s : Str) (j : Nat) (c : Caps) (t : STag) (r : Str)
    (hd : s.drop j = t.render ++ r) (ht : t.ok r) (hr : ¬ continuesIdent r) :
    (runs pyFoldEnv s rxName j c).head? = some (j + t.render.length, c) := by
  cases t with
  | star =>
    have hd' : s.drop j = 42 :: r := hd
    rw [name_runs_head Ident.identFold_py s j c (Nat.le_of_lt (lt_of_drop_cons hd')), hd',
      scanIdent_star]
    simp only
    rw [if_pos (getElem?_of_drop_cons hd')]
    rfl
  | name f =>
    obtain ⟨hv, hh, _⟩ := ht
    obtain ⟨x, xs, hxs, _⟩ := headOk_first f hh
    have hd' : s.drop j = x :: (xs ++ r) := by rw [hd]; simp [STag.render, hxs]
    rw [name_runs_head Ident.identFold_py s j c (Nat.le_of_lt (lt_of_drop_cons hd')), hd]
    simp only [STag.render]
    rw [C09.scan_any_spelling_ctx f r hv hh hr]

/-- The `tag` token with a namespace prefix. -/
theorem tag_ns_matchAt (s : Str) (i : Nat) (ns : SNs) (t : STag) (r : Str)
    (hd : s.drop i = ns.text ++ 124 :: (t.render ++ r)) (hns : ns.ok (t.render ++ r)) (ht : t.ok r)
    (hr : ¬ continuesIdent r) :
    matchAt pyFoldEnv Gen.tok_tag s i =
      some (i + ns.text.length + 1 + t.render.length,
        [(2, i + ns.text.length + 1, i + ns.text.length + 1 + t.render.length),
         (1, i, i + ns.text.length + 1)]) := by
  have hdn : s.drop (i + ns.text.length + 1) = t.render ++ r :=
    Ident.drop_succ_of_drop_cons (drop_add_of_drop_append hd)
  rw [tok_tag_shape]
  unfold matchAt
  rw [runs_seq, nsOpt_present Ident.identFold_py s i [] ns _ _ hd hns]
  apply Ident.head?_append_of_some
  rw [Wsc.runsSeq_single, runs_group, List.head?_map,
    stag_runs_head s _ _ t r hdn ht hr]
  rfl

theorem skip_tag_bar : (Gen.lexicon.tokens.take 9).all (fun t => !slotFirst 124 t) = true := by
  decide +kernel

theorem skip_ns' {s : Str} {i c : Nat} (hc : s[i]? = some c) (h : nsStart c = true) :
    (Gen.lexicon.tokens.take 9).all (fun t => !slotFirst (keyOf s[i]?) t) = true := by
  simp only [nsStart, Bool.or_eq_true, beq_iff_eq] at h
  rcases h with h | h
  · subst h; rw [hc]; exact skip_tag_bar
  · exact skip_tag' hc h

def tagNsTok (i a j : Nat) : Token :=
  { name := "tag", rx := ⟨"tag", Gen.tok_tag, Gen.tok_tag_groups⟩, start := i, stop := j,
    caps := [(2, a, j), (1, i, a)] }

variable (B : Builtins) (s : Str)

theorem nsStart_noGap {c : Nat} (cs : Str) (h : nsStart c = true) : noGapStart (c :: cs) = true := by
  have h1 : isCssWs c = false ∧ c ≠ 47 := by
    simp only [nsStart, tagStart, identStartChar, Bool.or_eq_true, Bool.and_eq_true, decide_eq_true_eq,
      beq_iff_eq] at h
    refine ⟨by simp [isCssWs]; omega, by omega⟩
  simp [noGapStart, h1.1, h1.2]

theorem nextToken_tag_ns {i : Nat} (ns : SNs) (t : STag) (r : Str)
    (hd : s.drop i = ns.text ++ 124 :: (t.render ++ r)) (hns : ns.ok (t.render ++ r)) (ht : t.ok r)
    (hr : ¬ continuesIdent r) :
    nextToken (penv B s) i =
      .ok (some (tagNsTok i (i + ns.text.length + 1) (i + ns.text.length + 1 + t.render.length))) := by
  obtain ⟨c, cs, hcs, hc⟩ := ns.head _ hns
  have hd' : s.drop i = c :: cs := hd.trans hcs
  have hci := getElem?_of_drop_cons hd'
  rw [nextToken_noGap B s hd' (nsStart_noGap cs hc)]
  rw [matchToken_hit B s i 9 ⟨"tag", Gen.tok_tag, Gen.tok_tag_groups⟩ _ _ _ rfl (skip_ns' hci hc)
    (tag_ns_matchAt s i ns t r hd hns ht hr)]
  rfl

theorem STag.unescape (t : STag) (r : Str) (ht : t.ok r) :
    Parser.cssUnescape pyFoldEnv Gen.lexicon t.render = t.value := by
  cases t with
  | star => decide
  | name f =>
    obtain ⟨hv, _, hcp⟩ := ht
    exact unescape_forms f (SpellingLemmas.validForms_nil_of f _ hv) hcp

variable (fuel flags : Nat) (st : LS)

/-- One loop iteration at a type selector with a namespace prefix. -/
theorem step_tag_ns (ns : SNs) (t : STag) {r : Str}
    (hd : s.drop st.pos = ns.text ++ 124 :: (t.render ++ r)) (hns : ns.ok (t.render ++ r)) (ht : t.ok r)
    (hr : ¬ continuesIdent r) (hs : st.hasSelector = false) :
    parseLoop pyFoldEnv Gen.lexicon B s (fuel + 1) flags st =
      parseLoop pyFoldEnv Gen.lexicon B s fuel flags
        { st with pos := st.pos + ns.text.length + 1 + t.render.length,
                  sel := st.sel.setTag ⟨t.value, some ns.value⟩, hasSelector := true,
                  index := st.pos + ns.text.length + 1 + t.render.length } := by
  have hnt := nextToken_tag_ns B s ns t r hd hns ht hr
  rw [parseLoop_tag _ _ _ _ _ _ _ _ hnt rfl hs]
  have hdn : s.drop (st.pos + ns.text.length + 1) = t.render ++ r :=
    Ident.drop_succ_of_drop_cons (drop_add_of_drop_append hd)
  have hsl1 : slice s st.pos (st.pos + ns.text.length + 1) = ns.text ++ [124] := by
    have := slice_of_drop_append (s := s) (p := st.pos) (a := ns.text ++ [124]) (r := t.render ++ r)
      (by rw [hd]; simp)
    rw [← this]; congr 1; simp; omega
  have hsl2 := slice_of_drop_append hdn
  have hg1 : (tagNsTok st.pos (st.pos + ns.text.length + 1)
      (st.pos + ns.text.length + 1 + t.render.length)).group (penv B s) "tag_ns" = some (ns.text ++ [124]) := by
    simp [Token.group, Parser.group, tagNsTok, Gen.tok_tag_groups, capSpan, hsl1]
  have hg2 : (tagNsTok st.pos (st.pos + ns.text.length + 1)
      (st.pos + ns.text.length + 1 + t.render.length)).group (penv B s) "tag_name" = some t.render := by
    simp [Token.group, Parser.group, tagNsTok, Gen.tok_tag_groups, capSpan, hsl2]
  simp only [penv] at hg1 hg2
  rw [hg1, hg2]
  simp only [Option.getD_some]
  have e1 : (ns.text ++ [124]).isEmpty = false := by simp
  have e2 : (ns.text ++ [124]).take ((ns.text ++ [124]).length - 1) = ns.text := by simp
  rw [e1, e2, ns.unescape _ hns, STag.unescape t r ht]
  rfl

end Compile
end Refine
end SoupVerif

#print axioms SoupVerif.Refine.Compile.nsInner_runs
#print axioms SoupVerif.Refine.Compile.tag_ns_matchAt
#print axioms SoupVerif.Refine.Compile.step_tag_ns
