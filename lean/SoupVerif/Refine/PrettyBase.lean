/-
  Refinement of the pretty-printer's token scanners (`Model/Pretty.lean`): general lemmas.

  * list/position bridging between the scanners (which work on the suffix `s.drop i` and return
    lengths) and the engine (which works on `s` and positions);
  * `head_star_then` / `head_plus_then`: the first run of `X* t …` / `X+ t …` for a one-character
    test `X` and a continuation that starts with the literal character `t` is what the
    backtracking scanners `starThen` / `plusThen` compute — with NO assumption that `t` lies
    outside the class `X` (the engine gives characters back, and so does `starThen`);
  * `iter_str`: the run list of `(?:\\.|[^q\\])*q` is what `strBody q` computes;
  * `Agree env penv`: what ties a `PrettyEnv` (the three character predicates of the hand model)
    to a `CharEnv` (folding and categories of the engine), with the instances for `asciiEnv` and
    for every environment that folds like `pyFoldEnv`.
-/
import SoupVerif.Model.Pretty
import SoupVerif.Lemmas.RxBasic

namespace SoupVerif
namespace PrettyRefine
open Rx RxBasic
open Pretty (PrettyEnv starThen plusThen runLen strBody identStart classBody wordBody)

/-! ### Suffixes and positions -/

theorem drop_cons {s : Str} {p c : Nat} {rest : Str} (h : s.drop p = c :: rest) :
    s[p]? = some c ∧ s.drop (p + 1) = rest := by
  constructor
  · have h0 := List.getElem?_drop (xs := s) (i := p) (j := 0)
    rw [h] at h0
    simpa using h0.symm
  · have h1 : s.drop (p + 1) = (s.drop p).drop 1 := by rw [List.drop_drop]
    rw [h1, h]; rfl

theorem drop_nil {s : Str} {p : Nat} (h : s.drop p = []) : s[p]? = none := by
  rw [List.drop_eq_nil_iff] at h
  exact List.getElem?_eq_none h

theorem drop_of_none {s : Str} {p : Nat} (h : s[p]? = none) : s.drop p = [] := by
  rw [List.drop_eq_nil_iff]; simpa using h

theorem drop_of_some {s : Str} {p x : Nat} (h : s[p]? = some x) :
    s.drop p = x :: s.drop (p + 1) ∧ p < s.length := by
  have hlt : p < s.length := by
    rcases Nat.lt_or_ge p s.length with h' | h'
    · exact h'
    · rw [List.getElem?_eq_none h'] at h; cases h
  have : s[p] = x := by rw [List.getElem?_eq_getElem hlt] at h; exact Option.some.inj h
  exact ⟨by rw [List.drop_eq_getElem_cons hlt, this], hlt⟩

theorem runLen_eq_takeWhile (P : Nat → Bool) : ∀ r : Str, runLen P r = (r.takeWhile P).length
  | [] => rfl
  | c :: rest => by
    rw [runLen, List.takeWhile_cons]
    cases hc : P c with
    | true => simp [runLen_eq_takeWhile P rest]
    | false => simp

/-- `runLen` on the suffix is the engine-side span. -/
theorem runLen_drop (s : Str) (P : Nat → Bool) (p : Nat) : runLen P (s.drop p) = spanLen s P p := by
  rw [runLen_eq_takeWhile]; rfl

theorem starThen_nil (P : Nat → Bool) (term : Nat) : starThen P term [] = none := rfl

theorem starThen_cons (P : Nat → Bool) (term c : Nat) (rest : Str) :
    starThen P term (c :: rest) =
      match (if P c then starThen P term rest else none) with
      | some k => some (k + 1)
      | none => if c = term then some 1 else none := by
  rw [starThen]; rfl

theorem strBody_nil (q : Nat) : strBody q [] = none := rfl

theorem strBody_quote (q : Nat) (rest : Str) : strBody q (q :: rest) = some 1 := by
  rw [strBody.eq_def]; simp

theorem strBody_esc_nil (q : Nat) (hq : q ≠ 92) : strBody q [92] = none := by
  rw [strBody.eq_def]; simp [hq.symm]

theorem strBody_esc (q : Nat) (hq : q ≠ 92) (d : Nat) (rest : Str) :
    strBody q (92 :: d :: rest) = if d = 10 then none else (strBody q rest).map (· + 2) := by
  rw [strBody.eq_def]; simp [hq.symm]

theorem strBody_other (q x : Nat) (h1 : x ≠ q) (h2 : x ≠ 92) (rest : Str) :
    strBody q (x :: rest) = (strBody q rest).map (· + 1) := by
  rw [strBody.eq_def]; simp [h1, h2]

/-! ### One literal as the whole continuation -/

theorem runsSeq_lit (env : CharEnv) (s : Str) (t : Nat) (ic : Bool) (j : Nat) (c : Caps) :
    runsSeq env s [.lit t ic] j c =
      match s[j]? with
      | some x => if (if ic then env.fold x == env.fold t else x == t) then [(j + 1, c)] else []
      | none => [] := by
  rw [runsSeq_char (isChar_lit env s t ic)]
  cases s[j]? with
  | none => rfl
  | some x => simp only [runsSeq_nil]

theorem flatMap_runsSeq_nil (env : CharEnv) (s : Str) (l : List (Nat × Caps)) :
    (l.flatMap fun x => runsSeq env s [] x.1 x.2) = l := by
  have : (fun x : Nat × Caps => runsSeq env s [] x.1 x.2) = fun x => [x] := by
    funext x; rw [runsSeq_nil]
  rw [this, List.flatMap_singleton']

/-! ### `X* t …` and `X+ t …` -/

/-- First run of `X* t…`: the engine tries the ends of `X*` from the longest down to the empty one
    and continues from the first at which the continuation `k` succeeds; `k` succeeds exactly at a
    character `term`.  This is `starThen`. -/
theorem head_star_then {β : Type} (s : Str) (P : Nat → Bool) (term : Nat) (caps : Caps)
    (k : Nat × Caps → List β) (h : Nat → β)
    (hk : ∀ j, (k (j, caps)).head? = if s[j]? = some term then some (h (j + 1)) else none) :
    ∀ (r : Str) (p : Nat), s.drop p = r →
      ((down caps p (p + spanLen s P p)).flatMap k).head? =
        (starThen P term r).map (fun n => h (p + n)) := by
  intro r
  induction r with
  | nil =>
    intro p hp
    have hn := drop_nil hp
    rw [spanLen_of_none hn, Nat.add_zero, down_single, List.flatMap_singleton, hk, hn,
      starThen_nil]
    simp
  | cons c rest ih =>
    intro p hp
    obtain ⟨hc, hrest⟩ := drop_cons hp
    rw [starThen_cons]
    cases hP : P c with
    | false =>
      rw [spanLen_of_not hc hP, Nat.add_zero, down_single, List.flatMap_singleton, hk, hc]
      by_cases hct : c = term
      · subst hct; simp
      · simp [hct]
    | true =>
      rw [spanLen_of_ok hc hP,
        show p + (spanLen s P (p + 1) + 1) = (p + 1) + spanLen s P (p + 1) by omega,
        down_snoc caps (by omega), List.flatMap_append, List.head?_append, ih (p + 1) hrest,
        List.flatMap_singleton, hk, hc]
      simp only [if_true]
      cases starThen P term rest with
      | some n =>
        simp only [Option.map_some, Option.some_or]
        congr 2; omega
      | none =>
        simp only [Option.map_none, Option.none_or]
        by_cases hct : c = term
        · subst hct; simp
        · simp [hct]

/-- First run of `X+ t…`. -/
theorem head_plus_then {β : Type} (s : Str) (P : Nat → Bool) (term : Nat) (caps : Caps)
    (k : Nat × Caps → List β) (h : Nat → β)
    (hk : ∀ j, (k (j, caps)).head? = if s[j]? = some term then some (h (j + 1)) else none)
    (r : Str) (p : Nat) (hp : s.drop p = r) :
    ((down caps (p + 1) (p + spanLen s P p)).flatMap k).head? =
      (plusThen P term r).map (fun n => h (p + n)) := by
  cases r with
  | nil =>
    rw [spanLen_of_none (drop_nil hp), down_empty caps (by omega)]
    simp [plusThen]
  | cons c rest =>
    obtain ⟨hc, hrest⟩ := drop_cons hp
    cases hP : P c with
    | false =>
      rw [spanLen_of_not hc hP, down_empty caps (by omega)]
      simp [plusThen, hP]
    | true =>
      rw [spanLen_of_ok hc hP,
        show p + (spanLen s P (p + 1) + 1) = (p + 1) + spanLen s P (p + 1) by omega,
        head_star_then s P term caps k h hk rest (p + 1) hrest]
      simp only [plusThen, hP, if_true, Option.map_map]
      congr 1
      funext n
      simp only [Function.comp]
      congr 1; omega

/-! ### String literals: `(?:\\.|[^q\\])*q` -/

/-- The repeated body of `RE_DQSTR` / `RE_SQSTR`. -/
def strBodyRx (q : Nat) : Rx :=
  .alt [.seq [.lit 92 false, .any false], .set true [.ch q, .ch 92] false]

/-- One step of the string body (what `runs_strBodyRx` computes). -/
def strStep (s : Str) (q : Nat) (p : Nat) (c : Caps) : List (Nat × Caps) :=
  match s[p]? with
  | none => []
  | some x =>
    if x = q then []
    else if x = 92 then
      (match s[p + 1]? with
       | some d => if d = 10 then [] else [(p + 2, c)]
       | none => [])
    else [(p + 1, c)]

/-- The body is deterministic: an escape pair, or one character other than the quote and the
    backslash. -/
theorem runs_strBodyRx (env : CharEnv) (s : Str) (q : Nat) (hq : q ≠ 92) (p : Nat) (c : Caps) :
    runs env s (strBodyRx q) p c = strStep s q p c := by
  unfold strStep
  unfold strBodyRx
  rw [runs_alt, runsAlt_cons, runsAlt_cons, runsAlt_nil, runs_seq,
    runsSeq_char (isChar_lit env s 92 false), runsSeq_char (isChar_any env s false), runsSeq_nil,
    (isChar_set env s true [.ch q, .ch 92] false) p c]
  unfold charBody
  cases hx : s[p]? with
  | none => rfl
  | some x =>
    by_cases h1 : x = q
    · subst h1
      simp [setHas, itemHas, hq]
    · by_cases h2 : x = 92
      · subst h2
        have hq' : ¬ q = 92 := hq
        cases hd : s[p + 1]? with
        | none => simp [setHas, itemHas, h1]
        | some d =>
          by_cases h3 : d = 10
          · subst h3; simp [setHas, itemHas, h1]
          · simp [setHas, itemHas, h1, h3]
      · have h1' : ¬ q = x := fun e => h1 e.symm
        have h2' : ¬ (92 = x) := fun e => h2 e.symm
        simp [setHas, itemHas, h1, h2, h1', h2']

/-- `(?:\\.|[^q\\])*q` from `pos`: at most one run, the one `strBody q` computes. -/
theorem iter_str (s : Str) (q : Nat) (hq : q ≠ 92)
    (body : Nat → Caps → List (Nat × Caps)) (K : Nat × Caps → List (Nat × Caps))
    (hbody : ∀ p c, body p c = strStep s q p c)
    (hK : ∀ j c, K (j, c) = if s[j]? = some q then [(j + 1, c)] else []) (caps : Caps) :
    ∀ (fuel count pos : Nat), s.length - pos + 1 ≤ fuel →
      (iter body 0 none true fuel count pos caps).flatMap K =
        match strBody q (s.drop pos) with
        | some n => [(pos + n, caps)]
        | none => []
  | 0, _, _, hf => by omega
  | fuel + 1, count, pos, hf => by
    rw [iter_succ]
    simp only [if_true, canMore, ge_iff_le, Nat.zero_le, List.flatMap_append,
      List.flatMap_singleton, hbody, hK]
    unfold strStep
    cases hx : s[pos]? with
    | none =>
      rw [drop_of_none hx, strBody_nil]
      simp
    | some x =>
      obtain ⟨hd, hlt⟩ := drop_of_some hx
      rw [hd]
      by_cases h1 : x = q
      · subst h1
        rw [strBody_quote]
        simp
      · have hk0 : ¬ (some x = some q) := by simpa using h1
        by_cases h2 : x = 92
        · subst h2
          cases hx1 : s[pos + 1]? with
          | none =>
            rw [drop_of_none hx1, strBody_esc_nil q hq]
            simp [h1]
          | some d =>
            obtain ⟨hd1, hlt1⟩ := drop_of_some hx1
            rw [hd1, strBody_esc q hq]
            by_cases h3 : d = 10
            · subst h3
              simp [h1]
            · have ih := iter_str s q hq body K hbody hK caps fuel (count + 1) (pos + 2) (by omega)
              simp only [h1, h3, if_false, if_true, List.flatMap_singleton,
                show (pos + 2 > pos) = True by simp, decide_true, Bool.true_or, ih, hk0,
                List.append_nil]
              cases strBody q (List.drop (pos + 1 + 1) s) with
              | none => rfl
              | some n => simp only [Option.map_some]; congr 2; omega
        · have ih := iter_str s q hq body K hbody hK caps fuel (count + 1) (pos + 1) (by omega)
          rw [strBody_other q x h1 h2]
          simp only [h1, h2, if_false, if_true, List.flatMap_singleton,
            show (pos + 1 > pos) = True by simp, decide_true, Bool.true_or, ih, hk0,
            List.append_nil]
          cases strBody q (List.drop (pos + 1) s) with
          | none => rfl
          | some n => simp only [Option.map_some]; congr 2; omega

/-! ### Environments -/

/-- What ties the three character predicates of the hand model to an engine environment.
    `alpha` is the meaning of the class item `a-z` under IGNORECASE (`itemHas_az`);
    `lit` says that the four non-letters that occur case-insensitively in the token regexes
    (`(`, `.`, `=`, `_`) are matched by themselves only. -/
structure Agree (env : CharEnv) (penv : PrettyEnv) : Prop where
  space : ∀ c, penv.isSpace c = env.isSpace c
  digit : ∀ c, penv.isDigit c = env.isDigit c
  alpha : ∀ c, penv.isAlphaI c =
    ((97 ≤ c && c ≤ 122) || (97 ≤ env.fold c && env.fold c ≤ 122))
  lit : ∀ t, (t = 40 ∨ t = 46 ∨ t = 61 ∨ t = 95) → ∀ c, (env.fold c = env.fold t ↔ c = t)

theorem itemHas_az {env : CharEnv} {penv : PrettyEnv} (h : Agree env penv) (c : Nat) :
    itemHas env true c (.range 97 122) = penv.isAlphaI c := by
  rw [h.alpha]; simp [itemHas]

theorem itemHas_ch {env : CharEnv} {penv : PrettyEnv} (h : Agree env penv) (t : Nat)
    (ht : t = 40 ∨ t = 46 ∨ t = 61 ∨ t = 95) (c : Nat) :
    itemHas env true c (.ch t) = (c == t) := by
  simp only [itemHas, if_true]
  have := h.lit t ht c
  rw [Bool.eq_iff_iff]
  simp only [beq_iff_eq]
  rw [← this]; exact eq_comm

theorem lit_ic {env : CharEnv} {penv : PrettyEnv} (h : Agree env penv) (t : Nat)
    (ht : t = 40 ∨ t = 46 ∨ t = 61 ∨ t = 95) (ic : Bool) (c : Nat) :
    (if ic then env.fold c == env.fold t else c == t) = (c == t) := by
  cases ic with
  | false => rfl
  | true =>
    simp only [if_true]
    rw [Bool.eq_iff_iff]
    simp only [beq_iff_eq]
    exact h.lit t ht c

/-- `(?i)[a-z_]` -/
theorem set_identStart1 {env : CharEnv} {penv : PrettyEnv} (h : Agree env penv) (c : Nat) :
    setHas env false [.range 97 122, .ch 95] true c = identStart penv c := by
  simp only [setHas, List.any_cons, List.any_nil, itemHas_az h, itemHas_ch h 95 (by simp),
    identStart]
  cases penv.isAlphaI c <;> cases (c == 95) <;> rfl

/-- `(?i)[_a-z]` -/
theorem set_identStart2 {env : CharEnv} {penv : PrettyEnv} (h : Agree env penv) (c : Nat) :
    setHas env false [.ch 95, .range 97 122] true c = identStart penv c := by
  simp only [setHas, List.any_cons, List.any_nil, itemHas_az h, itemHas_ch h 95 (by simp),
    identStart]
  cases penv.isAlphaI c <;> cases (c == 95) <;> rfl

/-- `(?i)[_a-z\d\.]` -/
theorem set_classBody {env : CharEnv} {penv : PrettyEnv} (h : Agree env penv) (c : Nat) :
    setHas env false [.ch 95, .range 97 122, .cat .digit, .ch 46] true c = classBody penv c := by
  simp only [setHas, List.any_cons, List.any_nil, itemHas_az h, itemHas_ch h 95 (by simp),
    itemHas_ch h 46 (by simp), classBody, h.digit]
  simp only [itemHas, catHas]
  cases penv.isAlphaI c <;> cases (c == 95) <;> cases env.isDigit c <;> cases (c == 46) <;> rfl

/-- `(?i)[_a-z\d]` -/
theorem set_wordBody {env : CharEnv} {penv : PrettyEnv} (h : Agree env penv) (c : Nat) :
    setHas env false [.ch 95, .range 97 122, .cat .digit] true c = wordBody penv c := by
  simp only [setHas, List.any_cons, List.any_nil, itemHas_az h, itemHas_ch h 95 (by simp),
    wordBody, h.digit]
  simp only [itemHas, catHas]
  cases penv.isAlphaI c <;> cases (c == 95) <;> cases env.isDigit c <;> rfl

/-- `\s` -/
theorem set_space (env : CharEnv) (c : Nat) :
    setHas env false [.cat .space] false c = env.isSpace c := by
  simp [setHas, itemHas, catHas]

/-- `\d` -/
theorem set_digit (env : CharEnv) (c : Nat) :
    setHas env false [.cat .digit] false c = env.isDigit c := by
  simp [setHas, itemHas, catHas]

/-! #### The ASCII environment -/

theorem agree_ascii : Agree asciiEnv Pretty.asciiEnv where
  space := fun _ => rfl
  digit := fun _ => rfl
  alpha := by
    intro c
    show Pretty.isAsciiAlpha c = ((97 ≤ c && c ≤ 122) || (97 ≤ lowerCp c && lowerCp c ≤ 122))
    rw [Bool.eq_iff_iff]
    simp only [Pretty.isAsciiAlpha, Bool.or_eq_true, Bool.and_eq_true, decide_eq_true_eq]
    unfold lowerCp
    split <;> omega
  lit := by
    intro t ht c
    show lowerCp c = lowerCp t ↔ c = t
    unfold lowerCp
    rcases ht with rfl | rfl | rfl | rfl <;> (split <;> simp <;> omega)

/-! #### Python's IGNORECASE folding -/

theorem pyFold_cases (c : Nat) :
    (c = 304 ∧ pyFoldEnv.fold c = 105) ∨ (c = 305 ∧ pyFoldEnv.fold c = 105) ∨
    (c = 383 ∧ pyFoldEnv.fold c = 115) ∨ (c = 8490 ∧ pyFoldEnv.fold c = 107) ∨
    (c ≠ 304 ∧ c ≠ 305 ∧ c ≠ 383 ∧ c ≠ 8490 ∧ pyFoldEnv.fold c = lowerCp c) := by
  by_cases h1 : c = 304
  · subst h1; exact Or.inl ⟨rfl, rfl⟩
  by_cases h2 : c = 305
  · subst h2; exact Or.inr (Or.inl ⟨rfl, rfl⟩)
  by_cases h3 : c = 383
  · subst h3; exact Or.inr (Or.inr (Or.inl ⟨rfl, rfl⟩))
  by_cases h4 : c = 8490
  · subst h4; exact Or.inr (Or.inr (Or.inr (Or.inl ⟨rfl, rfl⟩)))
  refine Or.inr (Or.inr (Or.inr (Or.inr ⟨h1, h2, h3, h4, ?_⟩)))
  have e1 : (c == 304) = false := by simpa using h1
  have e2 : (c == 305) = false := by simpa using h2
  have e3 : (c == 383) = false := by simpa using h3
  have e4 : (c == 8490) = false := by simpa using h4
  simp only [pyFoldEnv, foldSpecials, List.lookup, e1, e2, e3, e4]

/-- Every engine environment that folds like `pyFoldEnv` (whatever its `\s`, `\d`) agrees with the
    hand environment that has the same `\s`, `\d` and Python's `(?i)[a-z]`
    (ASCII letters, U+0130, U+0131, U+017F, U+212A). -/
theorem agree_pyFold (env : CharEnv) (hfold : env.fold = pyFoldEnv.fold) :
    Agree env ⟨env.isSpace, env.isDigit, Pretty.pyEnv.isAlphaI⟩ where
  space := fun _ => rfl
  digit := fun _ => rfl
  alpha := by
    intro c
    rw [hfold]
    show (Pretty.isAsciiAlpha c || c == 304 || c == 305 || c == 383 || c == 8490) = _
    rw [Bool.eq_iff_iff]
    simp only [Pretty.isAsciiAlpha, Bool.or_eq_true, Bool.and_eq_true, decide_eq_true_eq,
      beq_iff_eq]
    rcases pyFold_cases c with ⟨h, hf⟩ | ⟨h, hf⟩ | ⟨h, hf⟩ | ⟨h, hf⟩ | ⟨h1, h2, h3, h4, hf⟩
    · rw [hf]; omega
    · rw [hf]; omega
    · rw [hf]; omega
    · rw [hf]; omega
    · rw [hf]; unfold lowerCp; split <;> omega
  lit := by
    intro t ht c
    rw [hfold]
    have ht' : pyFoldEnv.fold t = t := by
      rcases ht with rfl | rfl | rfl | rfl <;> rfl
    rw [ht']
    rcases pyFold_cases c with ⟨h, hf⟩ | ⟨h, hf⟩ | ⟨h, hf⟩ | ⟨h, hf⟩ | ⟨h1, h2, h3, h4, hf⟩
    · rw [hf]; omega
    · rw [hf]; omega
    · rw [hf]; omega
    · rw [hf]; omega
    · rw [hf]; unfold lowerCp; split <;> omega

/-- `pyFoldEnv` with CPython's `\d` (Unicode 15.0 `Nd`) instead of the ASCII digits. -/
def pyFoldEnvNd : CharEnv := { pyFoldEnv with isDigit := Pretty.pyEnv.isDigit }

/-- The hand model's CPython environment against the engine with Python's folding and `Nd`. -/
theorem agree_py : Agree pyFoldEnvNd Pretty.pyEnv := agree_pyFold pyFoldEnvNd rfl

/-- The driver's `pyFoldEnv` (ASCII `\d`) against the hand environment with ASCII `\d`. -/
theorem agree_pyFold_ascii :
    Agree pyFoldEnv { Pretty.pyEnv with isDigit := fun c => 48 ≤ c && c ≤ 57 } :=
  agree_pyFold pyFoldEnv rfl

end PrettyRefine
end SoupVerif
