/-
  Refinement proof: the hand scanner `Spelling.skipWSC` (Spec/Spelling.lean) computes exactly what
  the regex-engine model (`Model/Regex.lean`) computes on the `{WSC}*` of the source, as regenerated
  in `Generated/Regexes.lean`:

      Gen.cp_RE_WS          {WS}
      Gen.cp_RE_WS_BEGIN    ^{WSC}*
      Gen.cp_RE_WS_END      {WSC}*$
      Gen.tok_pseudo_close  {WSC}*\)          (compiled with re.I)

  for ALL subjects `s` and positions `i ≤ s.length`.

  Main theorems (end of the file):
    gap_runs / gap_matchAt   `WSC*` from `i`: first run = the maximal gap (`s.drop j = skipWSC (s.drop i)`),
                             the other runs end earlier, at positions where a further unit starts
    ws_begin_at, ws_begin, ws_begin_drop     RE_WS_BEGIN                       (any environment)
    ws_end_at, ws_end_isSome                 RE_WS_END.match(s, i)             (any environment)
    re_ws_at, re_ws_search                   RE_WS                             (any environment)
    pseudo_close_at, pseudo_close            the token `pseudo_close` (re.I)   (any `CaseFree` environment;
                                             `caseFree_ascii`, `caseFree_pyFold`)

  Route: the comment `/\*[^*]*\*+(?:[^/*][^*]*\*+)*/` has AT MOST ONE run, ending at the first `*/`
  (`comment_runs`, via `loop_runs`: induction over the input for the inner star whose body is not a
  one-character test); so has `WS` (`ws_runs`); a greedy star over such a body lists the unit boundaries
  from the last one down (`iter_det`); the last boundary is where `skipWSC` stops (`fin_skip`).
-/
import SoupVerif.Lemmas.RxBasic
import SoupVerif.Lemmas.Spelling
import SoupVerif.Generated.Regexes
namespace SoupVerif
namespace Refine
namespace Wsc
open Rx RxBasic Spelling SpellingLemmas

/-! ### Case folding does not touch the characters of `WSC` -/

theorem pyFold_fold (x : Nat) : pyFoldEnv.fold x =
    if x = 304 then 105 else if x = 305 then 105 else if x = 383 then 115 else if x = 8490 then 107
    else lowerCp x := by
  show (match foldSpecials.lookup x with | some a => a | none => lowerCp x) = _
  by_cases h1 : x = 304
  · subst h1; rfl
  by_cases h2 : x = 305
  · subst h2; rfl
  by_cases h3 : x = 383
  · subst h3; rfl
  by_cases h4 : x = 8490
  · subst h4; rfl
  have e1 : (x == 304) = false := by simpa using h1
  have e2 : (x == 305) = false := by simpa using h2
  have e3 : (x == 383) = false := by simpa using h3
  have e4 : (x == 8490) = false := by simpa using h4
  have : foldSpecials.lookup x = none := by
    simp only [foldSpecials, List.lookup, e1, e2, e3, e4]
  rw [this]; simp [h1, h2, h3, h4]

def CaseFree (env : CharEnv) : Prop := ∀ c x, c < 65 → (env.fold x = env.fold c ↔ x = c)

theorem caseFree_ascii : CaseFree asciiEnv := by
  intro c x hc
  show lowerCp x = lowerCp c ↔ x = c
  unfold lowerCp
  constructor
  · intro h; split at h <;> split at h <;> omega
  · intro h; subst h; rfl

theorem caseFree_pyFold : CaseFree pyFoldEnv := by
  intro c x hc
  rw [pyFold_fold, pyFold_fold]
  unfold lowerCp
  constructor
  · intro h
    repeat' split at h
    all_goals omega
  · intro h; subst h; rfl

theorem fold_beq {env : CharEnv} (h : CaseFree env) {c : Nat} (hc : c < 65) (x : Nat) :
    (env.fold x == env.fold c) = (x == c) := by
  have := h c x hc
  by_cases hx : x = c
  · subst hx; rw [beq_self_eq_true, beq_self_eq_true]
  · have h2 : ¬ env.fold x = env.fold c := fun e => hx (this.1 e)
    rw [beq_eq_false_iff_ne.mpr h2, beq_eq_false_iff_ne.mpr hx]

theorem fold_beq' {env : CharEnv} (h : CaseFree env) {c : Nat} (hc : c < 65) (x : Nat) :
    (env.fold c == env.fold x) = (x == c) := by
  rw [← fold_beq h hc x]; exact BEq.comm

theorem itemHas_ch {env : CharEnv} (ic : Bool) (h : ic = true → CaseFree env) {a : Nat} (ha : a < 65)
    (x : Nat) : itemHas env ic x (.ch a) = (x == a) := by
  cases ic
  · show (a == x) = (x == a); exact BEq.comm
  · show (env.fold a == env.fold x) = (x == a); exact fold_beq' (h rfl) ha x

/-! ### The terms (with the IGNORECASE flag `ic` as a parameter) and the shape lemmas -/

/-- `\r\n` -/
def crlfRx (ic : Bool) : Rx := .seq [.lit 13 ic, .lit 10 ic]
/-- `WS = (?:[ \t]|(?:\r\n|(?!\r\n)[\n\f\r]))` -/
def wsRx (ic : Bool) : Rx :=
  .alt [.set false [.ch 32, .ch 9] ic,
    .alt [crlfRx ic, .seq [.look true true (crlfRx ic), .set false [.ch 10, .ch 12, .ch 13] ic]]]
/-- `[^/*][^*]*\*+` -/
def loopBody (ic : Bool) : Rx :=
  .seq [.set true [.ch 47, .ch 42] ic, .rep 0 none true (.notLit 42 ic), .rep 1 none true (.lit 42 ic)]
/-- `COMMENTS = /\*[^*]*\*+(?:[^/*][^*]*\*+)*/` -/
def commentRx (ic : Bool) : Rx :=
  .seq [.lit 47 ic, .lit 42 ic, .rep 0 none true (.notLit 42 ic), .rep 1 none true (.lit 42 ic),
    .rep 0 none true (loopBody ic), .lit 47 ic]
/-- `WSC = (?:WS|COMMENTS)` -/
def wscRx (ic : Bool) : Rx := .alt [wsRx ic, commentRx ic]
/-- `WSC*` -/
def gapRx (ic : Bool) : Rx := .rep 0 none true (wscRx ic)

theorem re_ws_shape : Gen.cp_RE_WS = wsRx false := rfl
theorem re_ws_begin_shape : Gen.cp_RE_WS_BEGIN = .seq [.bos, gapRx false] := rfl
theorem re_ws_end_shape : Gen.cp_RE_WS_END = .seq [gapRx false, .eol] := rfl
theorem pseudo_close_shape : Gen.tok_pseudo_close = .seq [gapRx true, .lit 41 true] := rfl

-- the explicit term, once, so that the parametrised definitions above cannot drift
example : gapRx false = .rep 0 none true (.alt [
    .alt [.set false [.ch 32, .ch 9] false, .alt [.seq [.lit 13 false, .lit 10 false],
      .seq [.look true true (.seq [.lit 13 false, .lit 10 false]), .set false [.ch 10, .ch 12, .ch 13] false]]],
    .seq [.lit 47 false, .lit 42 false, .rep 0 none true (.notLit 42 false), .rep 1 none true (.lit 42 false),
      .rep 0 none true (.seq [.set true [.ch 47, .ch 42] false, .rep 0 none true (.notLit 42 false),
        .rep 1 none true (.lit 42 false)]), .lit 47 false]]) := rfl

/-! ### One-character tests -/

def isStar (x : Nat) : Bool := x == 42
def notStar (x : Nat) : Bool := !(x == 42)

section
variable {env : CharEnv} (ic : Bool) (hcf : ic = true → CaseFree env) (s : Str)
include hcf

theorem isChar_litc {c : Nat} (hc : c < 65) : IsChar env s (.lit c ic) (fun x => x == c) := by
  refine isChar_congr (isChar_lit env s c ic) ?_
  intro x; cases ic
  · rfl
  · exact fold_beq (hcf rfl) hc x

theorem isChar_star : IsChar env s (.lit 42 ic) isStar := isChar_litc ic hcf s (by omega)

theorem isChar_notStar : IsChar env s (.notLit 42 ic) notStar := by
  refine isChar_congr (isChar_notLit env s 42 ic) ?_
  intro x; cases ic
  · rfl
  · show (!(env.fold x == env.fold 42)) = _
    rw [fold_beq (hcf rfl) (by omega) x]; rfl

theorem isChar_blank : IsChar env s (.set false [.ch 32, .ch 9] ic) (fun x => x == 32 || x == 9) := by
  refine isChar_congr (isChar_set env s _ _ ic) ?_
  intro x
  simp only [setHas, List.any_cons, List.any_nil, itemHas_ch ic hcf (show 32 < 65 by omega),
    itemHas_ch ic hcf (show 9 < 65 by omega)]
  cases (x == 32) <;> cases (x == 9) <;> rfl

theorem isChar_nl : IsChar env s (.set false [.ch 10, .ch 12, .ch 13] ic)
    (fun x => x == 10 || x == 12 || x == 13) := by
  refine isChar_congr (isChar_set env s _ _ ic) ?_
  intro x
  simp only [setHas, List.any_cons, List.any_nil, itemHas_ch ic hcf (show 10 < 65 by omega),
    itemHas_ch ic hcf (show 12 < 65 by omega), itemHas_ch ic hcf (show 13 < 65 by omega)]
  cases (x == 10) <;> cases (x == 12) <;> cases (x == 13) <;> rfl

theorem isChar_notSlashStar : IsChar env s (.set true [.ch 47, .ch 42] ic)
    (fun x => !(x == 47) && !(x == 42)) := by
  refine isChar_congr (isChar_set env s _ _ ic) ?_
  intro x
  simp only [setHas, List.any_cons, List.any_nil, itemHas_ch ic hcf (show 47 < 65 by omega),
    itemHas_ch ic hcf (show 42 < 65 by omega)]
  cases (x == 47) <;> cases (x == 42) <;> rfl

end

/-! ### Where a comment ends: the first `*/` -/

/-- End of the first `*/` in the suffix `t` that starts at absolute position `p`. -/
def cmtEndL : Str → Nat → Option Nat
  | [], _ => none
  | a :: rest, p => if a == 42 && rest.head? == some 47 then some (p + 2) else cmtEndL rest (p + 1)

/-- End of the first `*/` that starts at or after position `p` of `s`. -/
def cmtEnd (s : Str) (p : Nat) : Option Nat := cmtEndL (s.drop p) p

theorem cmtEndL_bounds : ∀ (t : Str) (p e : Nat), cmtEndL t p = some e → p + 2 ≤ e ∧ e ≤ p + t.length
  | [], _, _, h => by simp [cmtEndL] at h
  | a :: rest, p, e, h => by
    rw [cmtEndL] at h
    split at h
    · next hc =>
      cases rest with
      | nil => simp at hc
      | cons b r => simp at h; subst h; simp
    · have := cmtEndL_bounds rest (p + 1) e h
      simp only [List.length_cons]; omega

theorem dropComment_eq : ∀ (t : Str) (p : Nat),
    dropComment t = (cmtEndL t p).map (fun e => t.drop (e - p))
  | [], _ => rfl
  | a :: rest, p => by
    rw [dropComment_cons, cmtEndL]
    split
    · simp only [Option.map_some, show p + 2 - p = 2 by omega]
      cases rest <;> rfl
    · rw [dropComment_eq rest (p + 1)]
      cases h : cmtEndL rest (p + 1) with
      | none => rfl
      | some e =>
        have := (cmtEndL_bounds rest (p + 1) e h).1
        simp only [Option.map_some]
        rw [show e - p = (e - (p + 1)) + 1 by omega, List.drop_succ_cons]

theorem cmtEnd_bounds {s : Str} {p e : Nat} (h : cmtEnd s p = some e) : p + 2 ≤ e ∧ e ≤ s.length := by
  have := cmtEndL_bounds _ _ _ h
  rw [List.length_drop] at this
  have hp : p < s.length := by
    rcases Nat.lt_or_ge p s.length with h' | h'
    · exact h'
    · unfold cmtEnd at h; rw [List.drop_eq_nil_of_le h'] at h; simp [cmtEndL] at h
  omega

theorem dropComment_drop (s : Str) (p : Nat) :
    dropComment (s.drop p) = (cmtEnd s p).map (fun e => s.drop e) := by
  rw [dropComment_eq (s.drop p) p]
  unfold cmtEnd
  cases h : cmtEndL (s.drop p) p with
  | none => rfl
  | some e =>
    have := (cmtEndL_bounds _ _ _ h).1
    simp only [Option.map_some, List.drop_drop]
    congr 2; omega

theorem getElem?_lt {s : Str} {p x : Nat} (h : s[p]? = some x) : p < s.length := by
  rcases Nat.lt_or_ge p s.length with h' | h'
  · exact h'
  · rw [List.getElem?_eq_none h'] at h; cases h

theorem drop_cons_of {s : Str} {p x : Nat} (h : s[p]? = some x) : s.drop p = x :: s.drop (p + 1) := by
  have hlt := getElem?_lt h
  rw [List.drop_eq_getElem_cons hlt]
  congr 1
  rw [List.getElem?_eq_getElem hlt] at h; exact Option.some.inj h

theorem cmtEnd_none {s : Str} {p : Nat} (h : s[p]? = none) : cmtEnd s p = none := by
  unfold cmtEnd
  rw [List.drop_eq_nil_of_le (by simpa using h)]; rfl

theorem cmtEnd_step {s : Str} {p x : Nat} (h : s[p]? = some x) :
    cmtEnd s p = if x == 42 && s[p + 1]? == some 47 then some (p + 2) else cmtEnd s (p + 1) := by
  unfold cmtEnd
  rw [drop_cons_of h, cmtEndL, List.head?_drop]

theorem cmtEnd_skip1 {s : Str} {p x : Nat} (h : s[p]? = some x) (hx : x ≠ 42) :
    cmtEnd s p = cmtEnd s (p + 1) := by
  rw [cmtEnd_step h]; simp [hx]

/-- Non-stars are skipped. -/
theorem cmtEnd_skip (s : Str) : ∀ (a p : Nat), (∀ n, n < a → ∃ x, s[p + n]? = some x ∧ x ≠ 42) →
    cmtEnd s p = cmtEnd s (p + a)
  | 0, _, _ => rfl
  | a + 1, p, h => by
    obtain ⟨x, hx, hne⟩ := h 0 (by omega)
    rw [Nat.add_zero] at hx
    rw [cmtEnd_skip1 hx hne, cmtEnd_skip s a (p + 1) (fun n hn => by
      obtain ⟨y, hy, hy'⟩ := h (n + 1) (by omega)
      exact ⟨y, by rw [← hy]; congr 1; omega, hy'⟩)]
    congr 1; omega

/-- After a run of stars (at a position that holds no star): `/` closes the comment, anything else
    continues the search. -/
def loopEnd (s : Str) (r : Nat) : Option Nat := if s[r]? = some 47 then some (r + 1) else cmtEnd s r

theorem cmtEnd_stars (s : Str) : ∀ (b q : Nat), (∀ n, n < b + 1 → s[q + n]? = some 42) →
    s[q + (b + 1)]? ≠ some 42 → cmtEnd s q = loopEnd s (q + (b + 1))
  | 0, q, h, _ => by
    have h0 : s[q]? = some 42 := h 0 (by omega)
    rw [cmtEnd_step h0]
    unfold loopEnd
    by_cases h47 : s[q + 1]? = some 47
    · simp [h47]
    · simp [h47]
  | b + 1, q, h, hend => by
    have h0 : s[q]? = some 42 := h 0 (by omega)
    have h1 := h 1 (by omega)
    rw [cmtEnd_step h0, h1]
    simp only [show (some 42 == some 47) = false by decide, Bool.and_false, Bool.false_eq_true, if_false]
    rw [cmtEnd_stars s b (q + 1) (fun n hn => by
      have := h (n + 1) (by omega); rw [← this]; congr 1; omega)
      (by rw [show q + 1 + (b + 1) = q + (b + 1 + 1) by omega]; exact hend)]
    congr 1; omega

/-! ### Engine helpers -/

/-- At most one run. -/
def one (o : Option Nat) (c : Caps) : List (Nat × Caps) :=
  match o with
  | some e => [(e, c)]
  | none => []

theorem runsSeq_single (env : CharEnv) (s : Str) (r : Rx) (i : Nat) (caps : Caps) :
    runsSeq env s [r] i caps = runs env s r i caps := by
  rw [runsSeq_cons]
  simp only [runsSeq_nil]
  induction runs env s r i caps with
  | nil => rfl
  | cons a l ih => rw [List.flatMap_cons, ih]; rfl

/-- One step of a greedy star. -/
theorem iter_star_succ (body : Nat → Caps → List (Nat × Caps)) (fuel count pos : Nat) (caps : Caps) :
    iter body 0 none true (fuel + 1) count pos caps =
      ((body pos caps).flatMap fun x =>
        if x.1 > pos then iter body 0 none true fuel (count + 1) x.1 x.2 else [x]) ++ [(pos, caps)] := by
  rw [iter_succ]
  simp [canMore]

theorem spanLen_pos {s : Str} {P : Nat → Bool} {p x : Nat} (h : s[p]? = some x) (hx : P x = true) :
    1 ≤ spanLen s P p := by rw [spanLen_of_ok h hx]; omega

theorem span_le_length {s : Str} {P : Nat → Bool} {p : Nat} (hp : p ≤ s.length) :
    p + spanLen s P p ≤ s.length := by
  have := spanLen_le s P p; omega

/-! ### The comment -/

section
variable {env : CharEnv} (ic : Bool) (hcf : ic = true → CaseFree env) (s : Str)
include hcf

/-- `\*+` alone. -/
theorem stars_runs (j : Nat) (caps : Caps) :
    runs env s (.rep 1 none true (.lit 42 ic)) j caps = down caps (j + 1) (j + spanLen s isStar j) := by
  rw [runs_rep_char (isChar_star ic hcf s)]; rfl

/-- `[^/*][^*]*\*+`: one character that is neither `/` nor `*`, the non-stars after it, then every
    non-empty part of the run of stars that follows (longest first). -/
theorem loopBody_runs (r : Nat) (caps : Caps) :
    runs env s (loopBody ic) r caps =
      match s[r]? with
      | some x =>
        if (!(x == 47) && !(x == 42)) = true then
          down caps (r + 1 + spanLen s notStar (r + 1) + 1)
            (r + 1 + spanLen s notStar (r + 1) + spanLen s isStar (r + 1 + spanLen s notStar (r + 1)))
        else []
      | none => [] := by
  unfold loopBody
  rw [runs_seq, runsSeq_char (isChar_notSlashStar ic hcf s)]
  cases hx : s[r]? with
  | none => rfl
  | some x =>
    simp only
    split
    · rw [runsSeq_rep_char_cut (isChar_notStar ic hcf s) 0 _ (r + 1) caps, if_pos (Nat.zero_le _),
        runsSeq_single, stars_runs _ hcf]
      intro j y hy hny
      rw [runsSeq_single, stars_runs _ hcf,
        spanLen_of_not hy (by simpa [isStar, notStar] using hny), down_empty caps (by omega)]
    · rfl

theorem loopBody_at_star {j : Nat} (h : s[j]? = some 42) (caps : Caps) :
    runs env s (loopBody ic) j caps = [] := by
  rw [loopBody_runs _ hcf, h]; rfl

/-- The continuation `/`. -/
theorem slash_runs (j : Nat) (c : Caps) :
    runsSeq env s [.lit 47 ic] j c =
      match s[j]? with
      | some x => if (x == 47) = true then [(j + 1, c)] else []
      | none => [] := by
  rw [runsSeq_char (isChar_litc ic hcf s (show 47 < 65 by omega))]
  simp only [runsSeq_nil]
  cases s[j]? <;> rfl

/-- The star of the loop, started on a `*`, does nothing. -/
theorem loop_at_star {j : Nat} (h : s[j]? = some 42) (f count : Nat) (caps : Caps) :
    iter (fun p c => runs env s (loopBody ic) p c) 0 none true (f + 1) count j caps = [(j, caps)] := by
  rw [iter_star_succ, loopBody_at_star ic hcf s h]; rfl

/-- `(?:[^/*][^*]*\*+)*/` started right after a run of stars: exactly one way, to the first `*/`. -/
theorem loop_runs : ∀ (fuel count r : Nat) (caps : Caps), s.length - r + 1 ≤ fuel → r ≤ s.length →
    s[r]? ≠ some 42 →
    (iter (fun p c => runs env s (loopBody ic) p c) 0 none true fuel count r caps).flatMap
        (fun x => runsSeq env s [.lit 47 ic] x.1 x.2) = one (loopEnd s r) caps := by
  intro fuel
  induction fuel with
  | zero => intro _ _ _ hf; omega
  | succ fuel ih =>
    intro count r caps hf hr hns
    rw [iter_star_succ, List.flatMap_append, List.flatMap_assoc]
    simp only [List.flatMap_cons, List.flatMap_nil, List.append_nil]
    unfold loopEnd
    cases hx : s[r]? with
    | none =>
      rw [loopBody_runs _ hcf, hx, slash_runs _ hcf, hx, cmtEnd_none hx]; rfl
    | some x =>
      by_cases h47 : x = 47
      · subst h47
        rw [loopBody_runs _ hcf, hx, slash_runs _ hcf, hx]; rfl
      · have h42 : x ≠ 42 := by intro e; subst e; exact hns hx
        have hlt := getElem?_lt hx
        have hcond : (!(x == 47) && !(x == 42)) = true := by simp [h47, h42]
        rw [loopBody_runs _ hcf, hx, slash_runs _ hcf, hx]
        simp only
        rw [if_pos hcond, if_neg (by simpa using h47), if_neg (by simpa using h47), List.append_nil]
        -- positions
        generalize hq : r + 1 + spanLen s notStar (r + 1) = q
        have hqle : q ≤ s.length := by
          rw [← hq]; exact span_le_length (by omega)
        have hskip : cmtEnd s r = cmtEnd s q := by
          rw [cmtEnd_skip1 hx h42, ← hq]
          apply cmtEnd_skip
          intro n hn
          obtain ⟨y, hy, hPy⟩ := span_inside s notStar n (r + 1) hn
          exact ⟨y, hy, by simpa [notStar] using hPy⟩
        rw [hskip]
        rcases Nat.eq_zero_or_pos (spanLen s isStar q) with hb | hb
        · -- no star: the end of the input
          rw [hb, down_empty caps (by omega)]
          have hnone : s[q]? = none := by
            cases hy : s[q]? with
            | none => rfl
            | some y =>
              exfalso
              have hny := span_end s notStar _ (r + 1) rfl y (by rw [hq]; exact hy)
              have : isStar y = true := by simpa [isStar, notStar] using hny
              have := spanLen_pos hy this
              omega
          rw [cmtEnd_none hnone]; rfl
        · obtain ⟨b, hb'⟩ : ∃ b, spanLen s isStar q = b + 1 := ⟨spanLen s isStar q - 1, by omega⟩
          have hrle : q + (b + 1) ≤ s.length := by rw [← hb']; exact span_le_length hqle
          have hstar : ∀ n, n < b + 1 → s[q + n]? = some 42 := by
            intro n hn
            obtain ⟨y, hy, hPy⟩ := span_inside s isStar n q (by omega)
            rw [hy]; congr 1; simpa [isStar] using hPy
          have hend : s[q + (b + 1)]? ≠ some 42 := by
            intro he
            have := span_end s isStar (b + 1) q hb' 42 he
            simp [isStar] at this
          rw [cmtEnd_stars s b q hstar hend, hb']
          obtain ⟨fuel', rfl⟩ : ∃ f, fuel = f + 1 := ⟨fuel - 1, by omega⟩
          rw [show q + (b + 1) = q + 1 + b by omega, flatMap_down_cut caps _ b (q + 1)]
          · simp only [show q + 1 + b > r by omega, if_true]
            exact ih (count + 1) (q + 1 + b) caps (by omega) (by omega)
              (by rw [show q + 1 + b = q + (b + 1) by omega]; exact hend)
          · intro j hj1 hj2
            have hj : s[j]? = some 42 := by
              have := hstar (j - q) (by omega)
              rwa [show q + (j - q) = j by omega] at this
            simp only [show j > r by omega, if_true]
            rw [loop_at_star ic hcf s hj]
            simp only [List.flatMap_cons, List.flatMap_nil, List.append_nil]
            rw [slash_runs _ hcf, hj]; rfl

/-- `\*+(?:[^/*][^*]*\*+)*/` from a position: the stars are taken greedily and never given back. -/
theorem comment_tail_runs (q : Nat) (caps : Caps) (hq : q ≤ s.length) (hstar : s[q]? = some 42) :
    runsSeq env s [.rep 1 none true (.lit 42 ic), .rep 0 none true (loopBody ic), .lit 47 ic] q caps =
      one (cmtEnd s q) caps := by
  rw [runsSeq_rep_char_cut (isChar_star ic hcf s) 1 _ q caps]
  · have hb := spanLen_pos (P := isStar) hstar rfl
    obtain ⟨b, hb'⟩ : ∃ b, spanLen s isStar q = b + 1 := ⟨spanLen s isStar q - 1, by omega⟩
    have hrle : q + (b + 1) ≤ s.length := by rw [← hb']; exact span_le_length hq
    have hst : ∀ n, n < b + 1 → s[q + n]? = some 42 := by
      intro n hn
      obtain ⟨y, hy, hPy⟩ := span_inside s isStar n q (by omega)
      rw [hy]; congr 1; simpa [isStar] using hPy
    have hend : s[q + (b + 1)]? ≠ some 42 := by
      intro he
      have := span_end s isStar (b + 1) q hb' 42 he
      simp [isStar] at this
    rw [if_pos hb, hb', cmtEnd_stars s b q hst hend, runsSeq_cons, runs]
    exact loop_runs ic hcf s _ 0 _ caps (by omega) hrle hend
  · intro j x hx hsx
    have hj : s[j]? = some 42 := by rw [hx]; congr 1; simpa [isStar] using hsx
    rw [runsSeq_cons, runs, show s.length - j + 0 + 2 = (s.length - j + 1) + 1 by omega,
      loop_at_star ic hcf s hj]
    simp only [List.flatMap_cons, List.flatMap_nil, List.append_nil]
    rw [slash_runs _ hcf, hj]; rfl

/-- `[^*]*\*+(?:[^/*][^*]*\*+)*/` (the comment after its `/*`): exactly one way, to the first `*/`. -/
theorem comment_body_runs (p : Nat) (caps : Caps) (hp : p ≤ s.length) :
    runsSeq env s [.rep 0 none true (.notLit 42 ic), .rep 1 none true (.lit 42 ic),
        .rep 0 none true (loopBody ic), .lit 47 ic] p caps = one (cmtEnd s p) caps := by
  rw [runsSeq_rep_char_cut (isChar_notStar ic hcf s) 0 _ p caps, if_pos (Nat.zero_le _)]
  · have hskip : cmtEnd s p = cmtEnd s (p + spanLen s notStar p) := by
      apply cmtEnd_skip
      intro n hn
      obtain ⟨y, hy, hPy⟩ := span_inside s notStar n p hn
      exact ⟨y, hy, by simpa [notStar] using hPy⟩
    rw [hskip]
    cases hy : s[p + spanLen s notStar p]? with
    | none =>
      rw [cmtEnd_none hy, runsSeq_cons, stars_runs _ hcf, spanLen_of_none hy, down_empty caps (by omega)]
      rfl
    | some y =>
      have hny := span_end s notStar _ p rfl y hy
      have hy42 : y = 42 := by simpa [notStar] using hny
      subst hy42
      exact comment_tail_runs ic hcf s _ caps (span_le_length hp) hy
  · intro j y hy hny
    rw [runsSeq_cons, stars_runs _ hcf,
      spanLen_of_not hy (by simpa [isStar, notStar] using hny), down_empty caps (by omega)]
    rfl

/-- Where the comment that starts at `i` ends. -/
def commentEnd (s : Str) (i : Nat) : Option Nat :=
  if s[i]? = some 47 ∧ s[i + 1]? = some 42 then cmtEnd s (i + 2) else none

/-- `COMMENTS`: at most one run, from `/*` to the first `*/` after it. -/
theorem comment_runs (i : Nat) (caps : Caps) :
    runs env s (commentRx ic) i caps = one (commentEnd s i) caps := by
  unfold commentRx commentEnd
  rw [runs_seq, runsSeq_char (isChar_litc ic hcf s (show 47 < 65 by omega))]
  cases h0 : s[i]? with
  | none => simp [one]
  | some x =>
    by_cases hx : x = 47
    · subst hx
      simp only [beq_self_eq_true, if_true, true_and]
      rw [runsSeq_char (isChar_litc ic hcf s (show 42 < 65 by omega))]
      cases h1 : s[i + 1]? with
      | none => simp [one]
      | some y =>
        by_cases hy : y = 42
        · subst hy
          simp only [beq_self_eq_true, if_true]
          exact comment_body_runs ic hcf s (i + 1 + 1) caps (by have := getElem?_lt h1; omega)
        · simp [hy, one]
    · simp [hx, one]

/-! ### Whitespace -/

theorem crlf_runs (i : Nat) (caps : Caps) :
    runs env s (crlfRx ic) i caps =
      if s[i]? = some 13 ∧ s[i + 1]? = some 10 then [(i + 2, caps)] else [] := by
  unfold crlfRx
  rw [runs_seq, runsSeq_char (isChar_litc ic hcf s (show 13 < 65 by omega))]
  cases h0 : s[i]? with
  | none => simp
  | some x =>
    by_cases hx : x = 13
    · subst hx
      simp only [beq_self_eq_true, if_true, true_and]
      rw [runsSeq_char (isChar_litc ic hcf s (show 10 < 65 by omega)), runsSeq_nil]
      cases h1 : s[i + 1]? with
      | none => simp
      | some y =>
        by_cases hy : y = 10
        · subst hy; simp
        · simp [hy]
    · simp [hx]

/-- Where the `WS` unit that starts at `i` ends: CRLF is one unit. -/
def wsEnd (s : Str) (i : Nat) : Option Nat :=
  match s[i]? with
  | some x =>
    if isCssWs x then (if x = 13 ∧ s[i + 1]? = some 10 then some (i + 2) else some (i + 1)) else none
  | none => none

/-- `WS`: at most one run. -/
theorem ws_runs (i : Nat) (caps : Caps) :
    runs env s (wsRx ic) i caps = one (wsEnd s i) caps := by
  unfold wsRx wsEnd
  rw [runs_alt, runsAlt_cons, runsAlt_cons, runsAlt_nil, runs_alt, runsAlt_cons, runsAlt_cons, runsAlt_nil,
    isChar_blank ic hcf s, runs_seq, runsSeq_cons, runs, crlf_runs _ hcf]
  have hnl : ∀ p c, runs env s (.set false [.ch 10, .ch 12, .ch 13] ic) p c =
      charBody s (fun x => x == 10 || x == 12 || x == 13) p c := isChar_nl ic hcf s
  simp only [runsSeq_single, hnl, charBody]
  cases h0 : s[i]? with
  | none => simp [one, h0]
  | some x =>
    by_cases h13 : x = 13
    · subst h13
      by_cases h1 : s[i + 1]? = some 10
      · simp [h1, one, isCssWs]
      · simp [h1, one, isCssWs, h0]
    · by_cases h32 : x = 32
      · subst h32; simp [one, isCssWs, h0]
      by_cases h9 : x = 9
      · subst h9; simp [one, isCssWs, h0]
      by_cases h10 : x = 10
      · subst h10; simp [one, isCssWs, h0]
      by_cases h12 : x = 12
      · subst h12; simp [one, isCssWs, h0]
      simp [one, isCssWs, h0, h13, h32, h9, h10, h12]

/-! ### `WSC` -/

/-- Where the `WSC` unit that starts at `i` ends. -/
def unitEnd (s : Str) (i : Nat) : Option Nat :=
  match wsEnd s i with
  | some e => some e
  | none => commentEnd s i

omit hcf in
theorem wsEnd_some_not_slash {s : Str} {i e : Nat} (h : wsEnd s i = some e) : s[i]? ≠ some 47 := by
  intro h47
  unfold wsEnd at h
  rw [h47] at h
  simp [isCssWs] at h

theorem wsc_runs (i : Nat) (caps : Caps) :
    runs env s (wscRx ic) i caps = one (unitEnd s i) caps := by
  unfold wscRx unitEnd
  rw [runs_alt, runsAlt_cons, runsAlt_cons, runsAlt_nil, ws_runs _ hcf, comment_runs _ hcf, List.append_nil]
  cases h : wsEnd s i with
  | none => rfl
  | some e =>
    have := wsEnd_some_not_slash h
    unfold commentEnd
    rw [if_neg (fun hc => this hc.1)]; rfl

end

/-! ### A greedy star over a body with at most one run -/

/-- Follow the units as far as they go. -/
def fin (u : Nat → Option Nat) : Nat → Nat → Nat
  | 0, pos => pos
  | f + 1, pos =>
    match u pos with
    | some q => fin u f q
    | none => pos

/-- The runs of a greedy star whose body has at most one run `u p` from each position `p`, and
    always advances: the last unit boundary first, then earlier boundaries (each the start of a
    unit), down to the start. -/
theorem iter_det (body : Nat → Caps → List (Nat × Caps)) (u : Nat → Option Nat) (n : Nat)
    (hb : ∀ p c, body p c = one (u p) c) (hu : ∀ p q, u p = some q → p < q ∧ q ≤ n) :
    ∀ (fuel count pos : Nat) (caps : Caps), n - pos + 1 ≤ fuel → pos ≤ n →
      u (fin u fuel pos) = none ∧ pos ≤ fin u fuel pos ∧ fin u fuel pos ≤ n ∧
      ∃ rest, iter body 0 none true fuel count pos caps = (fin u fuel pos, caps) :: rest ∧
        ∀ x ∈ rest, x.2 = caps ∧ x.1 < fin u fuel pos ∧ (u x.1).isSome = true := by
  intro fuel
  induction fuel with
  | zero => intro _ _ _ hf; omega
  | succ fuel ih =>
    intro count pos caps hf hp
    rw [iter_star_succ, hb]
    cases h : u pos with
    | none =>
      simp only [fin, h, one, List.flatMap_nil, List.nil_append]
      exact ⟨trivial, Nat.le_refl _, hp, [], rfl, by simp⟩
    | some q =>
      obtain ⟨h1, h2⟩ := hu pos q h
      obtain ⟨i1, i2, i3, rest, i4, i5⟩ := ih (count + 1) q caps (by omega) h2
      simp only [fin, h, one, List.flatMap_cons, List.flatMap_nil, List.append_nil, h1, if_true]
      refine ⟨i1, by omega, i3, rest ++ [(pos, caps)], by rw [i4]; rfl, ?_⟩
      intro x hx
      rcases List.mem_append.1 hx with hx | hx
      · exact i5 x hx
      · simp only [List.mem_singleton] at hx
        subst hx
        exact ⟨rfl, by show pos < _; omega, by show (u pos).isSome = true; rw [h]; rfl⟩

/-! ### `unitEnd` against `skipWSC` -/

theorem unitEnd_bounds {s : Str} {p q : Nat} (h : unitEnd s p = some q) : p < q ∧ q ≤ s.length := by
  unfold unitEnd at h
  cases hw : wsEnd s p with
  | some e =>
    rw [hw] at h
    simp only [Option.some.injEq] at h; subst h
    unfold wsEnd at hw
    cases h0 : s[p]? with
    | none => rw [h0] at hw; cases hw
    | some x =>
      rw [h0] at hw
      have hlt := getElem?_lt h0
      simp only at hw
      split at hw
      · split at hw
        · next hc =>
          have := getElem?_lt hc.2
          cases hw; omega
        · cases hw; omega
      · cases hw
  | none =>
    rw [hw] at h
    simp only [commentEnd] at h
    split at h
    · have := cmtEnd_bounds h; omega
    · cases h

/-- A unit is skipped by the hand scanner. -/
theorem skip_unit {s : Str} {p q : Nat} (h : unitEnd s p = some q) :
    skipWSC (s.drop p) = skipWSC (s.drop q) := by
  unfold unitEnd at h
  cases hw : wsEnd s p with
  | some e =>
    rw [hw] at h
    simp only [Option.some.injEq] at h; subst h
    unfold wsEnd at hw
    cases h0 : s[p]? with
    | none => rw [h0] at hw; cases hw
    | some x =>
      rw [h0] at hw
      simp only at hw
      split at hw
      · next hws =>
        rw [drop_cons_of h0, skipWSC_ws x _ hws]
        split at hw
        · next hc =>
          cases hw
          rw [drop_cons_of hc.2, skipWSC_ws 10 _ rfl]
        · cases hw; rfl
      · cases hw
  | none =>
    rw [hw] at h
    simp only [commentEnd] at h
    split at h
    · next hc =>
      have hb := cmtEnd_bounds h
      rw [drop_cons_of hc.1, drop_cons_of hc.2]
      apply skipWSC_comment
      rw [dropComment_drop, h]; rfl
    · cases h

/-- Where no unit starts the hand scanner stops. -/
theorem skip_none {s : Str} {p : Nat} (h : unitEnd s p = none) : skipWSC (s.drop p) = s.drop p := by
  unfold unitEnd at h
  cases hw : wsEnd s p with
  | some e => rw [hw] at h; cases h
  | none =>
    rw [hw] at h
    cases h0 : s[p]? with
    | none => rw [List.drop_eq_nil_of_le (by simpa using h0)]; rfl
    | some x =>
      have hnws : isCssWs x = false := by
        unfold wsEnd at hw
        rw [h0] at hw
        simp only at hw
        cases hx : isCssWs x with
        | false => rfl
        | true => rw [hx] at hw; simp only [if_true] at hw; split at hw <;> cases hw
      rw [drop_cons_of h0]
      by_cases hc : x = 47 ∧ s[p + 1]? = some 42
      · obtain ⟨rfl, h1⟩ := hc
        rw [drop_cons_of h1]
        apply skipWSC_open
        rw [dropComment_drop]
        simp only [commentEnd, h0, h1, and_self, if_true] at h
        rw [h]; rfl
      · apply skipWSC_other x _ hnws
        rw [List.head?_drop]
        cases hx : (x == 47) with
        | false => rfl
        | true =>
          have hx' : x = 47 := by simpa using hx
          have : s[p + 1]? ≠ some 42 := fun e => hc ⟨hx', e⟩
          simp [this]

/-- The end of the maximal gap. -/
def gapEnd (s : Str) (i : Nat) : Nat := s.length - (skipWSC (s.drop i)).length

theorem fin_skip (s : Str) : ∀ (fuel pos : Nat), s.length - pos + 1 ≤ fuel → pos ≤ s.length →
    unitEnd s (fin (unitEnd s) fuel pos) = none →
    skipWSC (s.drop pos) = s.drop (fin (unitEnd s) fuel pos) := by
  intro fuel
  induction fuel with
  | zero => intro _ hf; omega
  | succ fuel ih =>
    intro pos hf hp hn
    rw [fin] at hn ⊢
    cases h : unitEnd s pos with
    | none => exact skip_none h
    | some q =>
      simp only [h] at hn ⊢
      obtain ⟨h1, h2⟩ := unitEnd_bounds h
      rw [skip_unit h]
      exact ih q (by omega) h2 hn

/-! ### `WSC*` -/

/-- The runs of `WSC*` from `i`: first the end of the maximal gap (what `skipWSC` leaves starts
    there), then only positions before it at which a further unit starts. -/
theorem gap_runs {env : CharEnv} (ic : Bool) (hcf : ic = true → CaseFree env) (s : Str) (i : Nat)
    (hi : i ≤ s.length) (caps : Caps) :
    s.drop (gapEnd s i) = skipWSC (s.drop i) ∧ i ≤ gapEnd s i ∧ gapEnd s i ≤ s.length ∧
    unitEnd s (gapEnd s i) = none ∧
    ∃ rest, runs env s (gapRx ic) i caps = (gapEnd s i, caps) :: rest ∧
      ∀ x ∈ rest, x.2 = caps ∧ x.1 < gapEnd s i ∧ (unitEnd s x.1).isSome = true := by
  obtain ⟨h1, h2, h3, rest, h4, h5⟩ :=
    iter_det (fun p c => runs env s (wscRx ic) p c) (unitEnd s) s.length
      (fun p c => wsc_runs ic hcf s p c) (fun p q h => unitEnd_bounds h)
      (s.length - i + 0 + 2) 0 i caps (by omega) hi
  have hskip := fin_skip s (s.length - i + 0 + 2) i (by omega) hi h1
  have hg : gapEnd s i = fin (unitEnd s) (s.length - i + 0 + 2) i := by
    unfold gapEnd; rw [hskip, List.length_drop]; omega
  rw [hg]
  refine ⟨hskip.symm, h2, h3, h1, rest, ?_, h5⟩
  unfold gapRx; rw [runs]; exact h4

/-- `WSC*` matches exactly the maximal gap and sets no group. -/
theorem gap_matchAt {env : CharEnv} (ic : Bool) (hcf : ic = true → CaseFree env) (s : Str) (i : Nat)
    (hi : i ≤ s.length) : matchAt env (gapRx ic) s i = some (gapEnd s i, []) := by
  obtain ⟨_, _, _, _, rest, h, _⟩ := gap_runs ic hcf s i hi []
  unfold matchAt; rw [h]; rfl

theorem gapEnd_drop (s : Str) (i : Nat) (hi : i ≤ s.length) : s.drop (gapEnd s i) = skipWSC (s.drop i) :=
  (gap_runs (env := asciiEnv) false (fun h => by cases h) s i hi []).1

/-- `WSC*` followed by a continuation `k` that fails wherever a unit starts: the star gives nothing
    back. -/
theorem gap_then {env : CharEnv} (ic : Bool) (hcf : ic = true → CaseFree env) (s : Str) (i : Nat)
    (hi : i ≤ s.length) (caps : Caps) (rs : List Rx)
    (hk : ∀ j c, (unitEnd s j).isSome = true → runsSeq env s rs j c = []) :
    runsSeq env s (gapRx ic :: rs) i caps = runsSeq env s rs (gapEnd s i) caps := by
  obtain ⟨_, _, _, _, rest, h, h5⟩ := gap_runs ic hcf s i hi caps
  rw [runsSeq_cons, h, List.flatMap_cons]
  have : rest.flatMap (fun x => runsSeq env s rs x.1 x.2) = [] := by
    rw [List.flatMap_eq_nil_iff]
    intro x hx
    exact hk x.1 x.2 (h5 x hx).2.2
  rw [this, List.append_nil]

/-! ### Main theorems -/

/-- `RE_WS_BEGIN = ^{WSC}*` (no case-insensitive part: any environment). At 0 it matches the maximal
    gap at the head of `s`; elsewhere it does not match. -/
theorem ws_begin_at (env : CharEnv) (s : Str) (i : Nat) (hi : i ≤ s.length) :
    matchAt env Gen.cp_RE_WS_BEGIN s i = if i = 0 then some (gapEnd s 0, []) else none := by
  rw [re_ws_begin_shape]
  unfold matchAt
  rw [runs_seq, runsSeq_cons, runs_bos]
  by_cases h0 : i = 0
  · subst h0
    simp only [if_true, List.flatMap_cons, List.flatMap_nil, List.append_nil, runsSeq_single]
    exact gap_matchAt false (fun h => by cases h) s 0 hi
  · simp [h0]

theorem ws_begin (env : CharEnv) (s : Str) :
    (matchAt env Gen.cp_RE_WS_BEGIN s 0).map (·.1) = some (s.length - (skipWSC s).length) := by
  rw [ws_begin_at env s 0 (Nat.zero_le _)]
  simp [gapEnd]

/-- The model's `Parser.startIndex` reads `(RE_WS_BEGIN.match(pattern)).end()`: the text from there on is
    `skipWSC pattern`. -/
theorem ws_begin_drop (env : CharEnv) (s : Str) :
    ∃ j, matchAt env Gen.cp_RE_WS_BEGIN s 0 = some (j, []) ∧ s.drop j = skipWSC s := by
  refine ⟨gapEnd s 0, by rw [ws_begin_at env s 0 (Nat.zero_le _)]; rfl, ?_⟩
  have := gapEnd_drop s 0 (Nat.zero_le _)
  rwa [List.drop_zero] at this

theorem unitEnd_some_not_paren {s : Str} {j : Nat} (h : (unitEnd s j).isSome = true) : s[j]? ≠ some 41 := by
  intro h41
  unfold unitEnd wsEnd commentEnd at h
  rw [h41] at h
  simp [isCssWs] at h

/-- `pseudo_close = {WSC}*\)` (compiled with re.I): matches iff what `skipWSC` leaves begins with `)`;
    the match ends right after that `)`; no group is set. -/
theorem pseudo_close_at {env : CharEnv} (hcf : CaseFree env) (s : Str) (i : Nat) (hi : i ≤ s.length) :
    matchAt env Gen.tok_pseudo_close s i =
      if (skipWSC (s.drop i)).head? = some 41 then some (gapEnd s i + 1, []) else none := by
  rw [pseudo_close_shape]
  unfold matchAt
  rw [runs_seq, gap_then true (fun _ => hcf) s i hi [] [.lit 41 true]]
  · rw [runsSeq_char (isChar_litc true (fun _ => hcf) s (show 41 < 65 by omega)), runsSeq_nil,
      ← gapEnd_drop s i hi, List.head?_drop]
    cases h : s[gapEnd s i]? with
    | none => simp
    | some x =>
      by_cases hx : x = 41
      · subst hx; simp
      · simp [hx]
  · intro j c hj
    have := unitEnd_some_not_paren hj
    rw [runsSeq_char (isChar_litc true (fun _ => hcf) s (show 41 < 65 by omega))]
    cases h : s[j]? with
    | none => rfl
    | some x =>
      have hx : x ≠ 41 := by intro e; subst e; exact this h
      simp [hx]

theorem pseudo_close {env : CharEnv} (hcf : CaseFree env) (s : Str) (i : Nat) (hi : i ≤ s.length) :
    (matchAt env Gen.tok_pseudo_close s i).map (·.1) =
      (if (skipWSC (s.drop i)).head? = some 41 then
        some (s.length - (skipWSC (s.drop i)).length + 1) else none) := by
  rw [pseudo_close_at hcf s i hi]
  split <;> rfl

/-- `RE_WS_END = {WSC}*$` (any environment): matches at `i` iff the rest of `s` is a gap; the match
    then ends at the end of `s`.  (`$` also holds before a final `\n`, but that `\n` is itself a
    unit of the gap, so this adds nothing.) -/
theorem ws_end_at (env : CharEnv) (s : Str) (i : Nat) (hi : i ≤ s.length) :
    matchAt env Gen.cp_RE_WS_END s i = if skipWSC (s.drop i) = [] then some (s.length, []) else none := by
  rw [re_ws_end_shape]
  unfold matchAt
  obtain ⟨hd, h1, h2, h3, rest, h4, h5⟩ := gap_runs (env := env) false (fun h => by cases h) s i hi []
  rw [runs_seq, runsSeq_cons, h4, List.flatMap_cons]
  simp only [runsSeq_single]
  by_cases hg : skipWSC (s.drop i) = []
  · have he : gapEnd s i = s.length := by unfold gapEnd; rw [hg]; rfl
    rw [if_pos hg, he, runs]
    simp
  · rw [if_neg hg]
    have hlt : gapEnd s i < s.length := by
      rcases Nat.lt_or_ge (gapEnd s i) s.length with h | h
      · exact h
      · exfalso; apply hg; rw [← hd, List.drop_eq_nil_of_le h]
    -- `$` fails at every boundary: before the last one a unit starts at a position that is not the
    -- last character, and the last one is followed by something that is not a lone final `\n`
    have hfail : ∀ j c, j ≤ gapEnd s i → (j < gapEnd s i → (unitEnd s j).isSome = true) →
        runs env s .eol j c = [] := by
      intro j c hj hu
      rw [runs]
      have hne : ¬ (j = s.length) := by omega
      by_cases hl : j + 1 = s.length ∧ s[j]? = some 10
      · exfalso
        have hje : j = gapEnd s i := by omega
        have : unitEnd s j = some (j + 1) := by
          unfold unitEnd wsEnd; rw [hl.2]; simp [isCssWs]
        rw [hje, h3] at this; cases this
      · have : (j == s.length || (j + 1 == s.length && s[j]? == some 10)) = false := by
          rw [Bool.or_eq_false_iff]
          refine ⟨by simpa using hne, ?_⟩
          by_cases ha : j + 1 = s.length
          · have : s[j]? ≠ some 10 := fun e => hl ⟨ha, e⟩
            simp [this]
          · simp [ha]
        rw [this]; rfl
    rw [hfail _ _ (Nat.le_refl _) (fun h => absurd h (Nat.lt_irrefl _)), List.nil_append]
    have : rest.flatMap (fun x => runs env s .eol x.1 x.2) = [] := by
      rw [List.flatMap_eq_nil_iff]
      intro x hx
      obtain ⟨_, hx2, hx3⟩ := h5 x hx
      exact hfail x.1 x.2 (by omega) (fun _ => hx3)
    rw [this]; rfl

/-- What `Parser.nextToken` tests. -/
theorem ws_end_isSome (env : CharEnv) (s : Str) (i : Nat) (hi : i ≤ s.length) :
    (matchAt env Gen.cp_RE_WS_END s i).isSome = (skipWSC (s.drop i) == []) := by
  rw [ws_end_at env s i hi]
  by_cases hg : skipWSC (s.drop i) = []
  · rw [if_pos hg, hg]; rfl
  · rw [if_neg hg]; simp [hg]

/-- `RE_WS = {WS}` (any environment): one whitespace unit, CRLF counting as one. -/
theorem re_ws_at (env : CharEnv) (s : Str) (i : Nat) :
    matchAt env Gen.cp_RE_WS s i = (wsEnd s i).map (fun e => (e, [])) := by
  rw [re_ws_shape]
  unfold matchAt
  rw [ws_runs false (fun h => by cases h) s i []]
  cases wsEnd s i <;> rfl

theorem wsEnd_isSome (s : Str) (i : Nat) :
    (wsEnd s i).isSome = match s[i]? with | some x => isCssWs x | none => false := by
  unfold wsEnd
  cases s[i]? with
  | none => rfl
  | some x =>
    simp only
    cases isCssWs x
    · rfl
    · simp only [if_true]; split <;> rfl

theorem re_ws_searchFrom (env : CharEnv) (s : Str) : ∀ (fuel i : Nat), s.length - i + 1 ≤ fuel →
    (searchFrom env Gen.cp_RE_WS s fuel i).isSome = (s.drop i).any isCssWs := by
  intro fuel
  induction fuel with
  | zero => intro _ hf; omega
  | succ fuel ih =>
    intro i hf
    rw [searchFrom, re_ws_at]
    have hsome := wsEnd_isSome s i
    cases h0 : s[i]? with
    | none =>
      rw [h0] at hsome
      have hnone : wsEnd s i = none := by
        cases hw : wsEnd s i with
        | none => rfl
        | some e => rw [hw] at hsome; cases hsome
      have hge : s.length ≤ i := by simpa using h0
      rw [hnone, List.drop_eq_nil_of_le hge]
      simp only [Option.map_none, show ¬ i < s.length by omega, if_false]
      rfl
    | some x =>
      have hsome' : (wsEnd s i).isSome = isCssWs x := by rw [hsome, h0]
      have hlt := getElem?_lt h0
      rw [drop_cons_of h0, List.any_cons, ← hsome']
      cases hw : wsEnd s i with
      | some e => rfl
      | none =>
        simp only [Option.map_none, hlt, if_true]
        rw [ih (i + 1) (by omega)]; rfl

/-- `RE_WS.search(value) is not None` (what `Parser` tests on an attribute value): `value` contains a
    CSS whitespace character. -/
theorem re_ws_search (env : CharEnv) (s : Str) :
    (search env Gen.cp_RE_WS s).isSome = s.any isCssWs := by
  unfold search
  rw [re_ws_searchFrom env s _ 0 (by omega), List.drop_zero]

#print axioms caseFree_ascii
#print axioms caseFree_pyFold
#print axioms gap_runs
#print axioms gap_matchAt
#print axioms ws_begin_at
#print axioms ws_begin
#print axioms ws_begin_drop
#print axioms pseudo_close_at
#print axioms pseudo_close
#print axioms ws_end_at
#print axioms ws_end_isSome
#print axioms re_ws_at
#print axioms re_ws_search

end Wsc
end Refine
end SoupVerif
