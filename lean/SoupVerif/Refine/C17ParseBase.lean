/-
  Helpers for `Properties/C17Parse.lean`: the state pseudo-classes of C17 from the selector TEXT.

    * `StateKw`                the fourteen keywords of C17 that stand for a built-in selector list, with
                               their name (`StateKw.name`, lower case, no colon), the field of the table of
                               built-in lists the parser reads (`StateKw.pick`) and the regenerated list
                               (`StateKw.list`, `pick_builtinsRec : K.pick Gen.builtinsRec = K.list` by `rfl`);
    * `pseudoList f`           the syntax tree (grammar of `C09Compile`) of the one-item pattern `:f`;
    * `oneSub L`, `oneFlag v`  the IR of a top-level compound that holds nothing but the nested list `L`
                               (resp. the flag `v`) — and the `*` every top-level compound is given;
    * `plainPseudo_state`      `parse_pseudo_class` on a state keyword appends `K.pick B`;
    * `denote_state`, `denote_root`, `denote_empty`
                               `C09Compile.denote` of the values of `pseudoList f`;
    * `compile_state`, `compile_root`, `compile_empty`
                               the parser model on the text (through `C09Compile.compile_eq_denote`);
    * `dirPat`, `dirIR`, `denote_dir`, `compile_dir`
                               the same for `:dir(ltr)` / `:dir(rtl)`.
-/
import SoupVerif.Properties.C09Compile
namespace SoupVerif
namespace Refine.C17Parse
open SoupVerif.Parser Spelling Escape Refine.Compile
open C09Compile (Forms identOK SItem SCompound SSelList plainName denote)

/-- The keywords of C17 that `parse_pseudo_class` answers by appending a pre-compiled selector list. -/
inductive StateKw where
  | enabled | disabled | required | optional | readWrite | readOnly | inRange | outOfRange
  | link | anyLink | checked | dflt | indeterminate | placeholderShown
  deriving DecidableEq, Repr

namespace StateKw

/-- The keyword, lower case, without the colon. -/
def name : StateKw → Str
  | enabled => "enabled".toStr
  | disabled => "disabled".toStr
  | required => "required".toStr
  | optional => "optional".toStr
  | readWrite => "read-write".toStr
  | readOnly => "read-only".toStr
  | inRange => "in-range".toStr
  | outOfRange => "out-of-range".toStr
  | link => "link".toStr
  | anyLink => "any-link".toStr
  | checked => "checked".toStr
  | dflt => "default".toStr
  | indeterminate => "indeterminate".toStr
  | placeholderShown => "placeholder-shown".toStr

/-- The entry of the table of built-in lists that stands for the keyword. -/
def pick (B : Builtins) : StateKw → SelList
  | enabled => B.enabled
  | disabled => B.disabled
  | required => B.required
  | optional => B.optional
  | readWrite => B.readWrite
  | readOnly => B.readOnly
  | inRange => B.inRange
  | outOfRange => B.outOfRange
  | link => B.link
  | anyLink => B.link
  | checked => B.checked
  | dflt => B.dflt
  | indeterminate => B.indeterminate
  | placeholderShown => B.placeholderShown

/-- The list regenerated from `css_parser.py` (`Generated/Builtins.lean`). -/
def list : StateKw → SelList
  | enabled => Gen.CSS_ENABLED
  | disabled => Gen.CSS_DISABLED
  | required => Gen.CSS_REQUIRED
  | optional => Gen.CSS_OPTIONAL
  | readWrite => Gen.CSS_READ_WRITE
  | readOnly => Gen.CSS_READ_ONLY
  | inRange => Gen.CSS_IN_RANGE
  | outOfRange => Gen.CSS_OUT_OF_RANGE
  | link => Gen.CSS_LINK
  | anyLink => Gen.CSS_LINK
  | checked => Gen.CSS_CHECKED
  | dflt => Gen.CSS_DEFAULT
  | indeterminate => Gen.CSS_INDETERMINATE
  | placeholderShown => Gen.CSS_PLACEHOLDER_SHOWN

/-- In the table the driver runs the parser with, the entry is the regenerated list. -/
theorem pick_builtinsRec (K : StateKw) : K.pick Gen.builtinsRec = K.list := by cases K <;> rfl

/-- Every one of them is an HTML-only list. -/
theorem list_isHtml (K : StateKw) : K.list.isHtml = true := by cases K <;> rfl

/-- The keyword (with its colon) is in the table of pseudo-classes without arguments. -/
theorem name_plain (K : StateKw) : plainName (58 :: K.name) := by
  cases K <;> exact Or.inl (by decide)

theorem name_simple (K : StateKw) : inList Gen.lexicon.pseudoSimple (58 :: K.name) = true := by
  cases K <;> decide

end StateKw

/-! ## The pattern `:name` -/

/-- `:f` as a selector list of `C09Compile`'s grammar: one compound, no type selector, one item. -/
def pseudoList (f : Forms) : SSelList := .mk (.mk none [.pseudo f]) []

theorem pseudoList_render (f : Forms) : (pseudoList f).render = 58 :: renderIdentWith f := by
  simp [pseudoList, SSelList.render, SCompound.render, C09Compile.renderItems, SItem.render,
    C09Compile.renderRest]

theorem pseudoList_ok (f : Forms) (r : Str) (hf : identOK f r) (hn : plainName (58 :: lower (valueOf f))) :
    (pseudoList f).ok r := by
  simp only [pseudoList, SSelList.ok, SCompound.ok, C09Compile.itemsOK, C09Compile.restOK, SItem.ok,
    C09Compile.renderItems, C09Compile.renderRest, List.nil_append]
  exact ⟨⟨trivial, ⟨⟨hf, hn⟩, trivial⟩, Or.inr (by simp)⟩, trivial⟩

/-! ## The IR -/

/-- `ct.SelectorList()` -/
abbrev noRel : SelList := .mk [] false false

/-- The compiled form of a pattern whose only content is the nested list `L`: one compound `*` (the type
    selector every top-level compound is given) whose `selectors` hold `L`; no flags. -/
def oneSub (L : SelList) : SelList :=
  .mk [.mk (some ⟨[42], none⟩) [] [] [] [] [L] noRel .none [] [] 0] false false

/-- … whose only content is the flag `v`. -/
def oneFlag (v : Nat) : SelList :=
  .mk [.mk (some ⟨[42], none⟩) [] [] [] [] [] noRel .none [] [] v] false false

/-- `parse_pseudo_class` on a state keyword: the built-in list is appended to the `selectors` of the
    compound being built. -/
theorem plainPseudo_state (B : Builtins) (K : StateKw) (b : SelB) :
    plainPseudo B (58 :: K.name) b = b.addSub (K.pick B) := by
  cases K <;> rfl

theorem plainPseudo_root (B : Builtins) (b : SelB) :
    plainPseudo B ":root".toStr b = b.orFlags SEL_ROOT := rfl

theorem plainPseudo_empty (B : Builtins) (b : SelB) :
    plainPseudo B ":empty".toStr b = b.orFlags SEL_EMPTY := rfl

theorem denote_pseudo (B : Builtins) (f : Forms) :
    denote B (pseudoList f).value =
      C09Compile.finishTop { sel := plainPseudo B (58 :: lower (valueOf f)) SelB.empty, hasSelector := true } := by
  rfl

/-- `denote` of `:K`, `K` a state keyword in any spelling. -/
theorem denote_state (B : Builtins) (K : StateKw) (f : Forms) (hK : lower (valueOf f) = K.name) :
    denote B (pseudoList f).value = oneSub (K.pick B) := by
  rw [denote_pseudo, hK, plainPseudo_state]
  rfl

theorem denote_root (B : Builtins) (f : Forms) (hK : lower (valueOf f) = "root".toStr) :
    denote B (pseudoList f).value = oneFlag SEL_ROOT := by
  rw [denote_pseudo, hK]
  rfl

theorem denote_empty (B : Builtins) (f : Forms) (hK : lower (valueOf f) = "empty".toStr) :
    denote B (pseudoList f).value = oneFlag SEL_EMPTY := by
  rw [denote_pseudo, hK]
  rfl

/-! ## The parser on the text -/

/-- **The parser model on `:name`** (`name` in any admissible spelling of a keyword of the tables of
    pseudo-classes without arguments, between two gaps). -/
theorem compile_pseudo (B : Builtins) (f : Forms) (g₁ g₂ : Str) (hg₁ : isGap g₁) (hg₂ : isGap g₂)
    (hf : identOK f g₂) (hn : plainName (58 :: lower (valueOf f)))
    (h0 : ∀ x ∈ g₁ ++ 58 :: renderIdentWith f ++ g₂, x ≠ 0) :
    Parser.compile pyFoldEnv Gen.lexicon B (g₁ ++ 58 :: renderIdentWith f ++ g₂) [] 0 =
      .ok (denote B (pseudoList f).value) := by
  have := C09Compile.compile_eq_denote B g₁ g₂ (pseudoList f) hg₁ hg₂ (pseudoList_ok f g₂ hf hn)
    (by rw [pseudoList_render]; exact h0)
  rwa [pseudoList_render] at this

theorem compile_state (B : Builtins) (K : StateKw) (f : Forms) (g₁ g₂ : Str) (hg₁ : isGap g₁) (hg₂ : isGap g₂)
    (hf : identOK f g₂) (hK : lower (valueOf f) = K.name)
    (h0 : ∀ x ∈ g₁ ++ 58 :: renderIdentWith f ++ g₂, x ≠ 0) :
    Parser.compile pyFoldEnv Gen.lexicon B (g₁ ++ 58 :: renderIdentWith f ++ g₂) [] 0 =
      .ok (oneSub (K.pick B)) := by
  rw [compile_pseudo B f g₁ g₂ hg₁ hg₂ hf (by rw [hK]; exact K.name_plain) h0, denote_state B K f hK]

theorem compile_root (B : Builtins) (f : Forms) (g₁ g₂ : Str) (hg₁ : isGap g₁) (hg₂ : isGap g₂)
    (hf : identOK f g₂) (hK : lower (valueOf f) = "root".toStr)
    (h0 : ∀ x ∈ g₁ ++ 58 :: renderIdentWith f ++ g₂, x ≠ 0) :
    Parser.compile pyFoldEnv Gen.lexicon B (g₁ ++ 58 :: renderIdentWith f ++ g₂) [] 0 =
      .ok (oneFlag SEL_ROOT) := by
  rw [compile_pseudo B f g₁ g₂ hg₁ hg₂ hf (by rw [hK]; exact Or.inl (by decide)) h0, denote_root B f hK]

theorem compile_empty (B : Builtins) (f : Forms) (g₁ g₂ : Str) (hg₁ : isGap g₁) (hg₂ : isGap g₂)
    (hf : identOK f g₂) (hK : lower (valueOf f) = "empty".toStr)
    (h0 : ∀ x ∈ g₁ ++ 58 :: renderIdentWith f ++ g₂, x ≠ 0) :
    Parser.compile pyFoldEnv Gen.lexicon B (g₁ ++ 58 :: renderIdentWith f ++ g₂) [] 0 =
      .ok (oneFlag SEL_EMPTY) := by
  rw [compile_pseudo B f g₁ g₂ hg₁ hg₂ hf (by rw [hK]; exact Or.inl (by decide)) h0, denote_empty B f hK]

/-! ## The pattern `:dir(ltr)` / `:dir(rtl)` -/

/-- `:dir(` gap `ltr`|`rtl` gap `)` (the keyword in any letter case) as a selector list of the grammar. -/
def dirPat (f : Forms) (g₁ : Str) (ltr : Bool) (m : List Bool) (g₂ : Str) : SSelList :=
  .mk (.mk none [.dir f g₁ ltr m g₂]) []

theorem dirPat_render (f : Forms) (g₁ : Str) (ltr : Bool) (m : List Bool) (g₂ : Str) :
    (dirPat f g₁ ltr m g₂).render =
      58 :: (renderIdentWith f ++ (40 :: (g₁ ++ (mixCase m (dirWord ltr) ++ (g₂ ++ [41]))))) := by
  simp [dirPat, SSelList.render, SCompound.render, C09Compile.renderItems, SItem.render,
    C09Compile.renderRest]

theorem dirPat_ok (f : Forms) (g₁ : Str) (ltr : Bool) (m : List Bool) (g₂ r : Str)
    (hf : identOK f (40 :: (g₁ ++ (mixCase m (dirWord ltr) ++ (g₂ ++ 41 :: r)))))
    (hn : lower (valueOf f) = "dir".toStr) (hg₁ : isGap g₁) (hg₂ : isGap g₂) :
    (dirPat f g₁ ltr m g₂).ok r := by
  simp only [dirPat, SSelList.ok, SCompound.ok, C09Compile.itemsOK, C09Compile.restOK, SItem.ok,
    C09Compile.renderItems, C09Compile.renderRest, List.nil_append]
  exact ⟨⟨trivial, ⟨⟨hf, by rw [hn]; rfl, hg₁, hg₂⟩, trivial⟩, Or.inr (by simp)⟩, trivial⟩

/-- The list `parse_pseudo_dir` appends: HTML-only, one compound holding the direction flag. -/
def dirIR (ltr : Bool) : SelList :=
  .mk [.mk none [] [] [] [] [] noRel .none [] [] (if ltr then SEL_DIR_LTR else SEL_DIR_RTL)] false true

theorem denote_dir (B : Builtins) (f : Forms) (g₁ : Str) (ltr : Bool) (m : List Bool) (g₂ : Str) :
    denote B (dirPat f g₁ ltr m g₂).value = oneSub (dirIR ltr) := by
  cases ltr <;> rfl

/-- **The parser model on `:dir(ltr)` / `:dir(rtl)`** in any spelling, between two gaps. -/
theorem compile_dir (B : Builtins) (f : Forms) (g₁ : Str) (ltr : Bool) (m : List Bool) (g₂ g₀ g₃ : Str)
    (hg₀ : isGap g₀) (hg₃ : isGap g₃)
    (hf : identOK f (40 :: (g₁ ++ (mixCase m (dirWord ltr) ++ (g₂ ++ 41 :: g₃)))))
    (hn : lower (valueOf f) = "dir".toStr) (hg₁ : isGap g₁) (hg₂ : isGap g₂)
    (h0 : ∀ x ∈ g₀ ++ 58 :: (renderIdentWith f ++ (40 :: (g₁ ++ (mixCase m (dirWord ltr) ++ (g₂ ++ [41]))))) ++ g₃,
      x ≠ 0) :
    Parser.compile pyFoldEnv Gen.lexicon B
      (g₀ ++ 58 :: (renderIdentWith f ++ (40 :: (g₁ ++ (mixCase m (dirWord ltr) ++ (g₂ ++ [41]))))) ++ g₃) [] 0 =
      .ok (oneSub (dirIR ltr)) := by
  have := C09Compile.compile_eq_denote B g₀ g₃ (dirPat f g₁ ltr m g₂) hg₀ hg₃
    (dirPat_ok f g₁ ltr m g₂ g₃ hf hn hg₁ hg₂) (by rw [dirPat_render]; exact h0)
  rwa [dirPat_render, denote_dir] at this

#print axioms compile_state
#print axioms compile_root
#print axioms compile_empty
#print axioms compile_dir

end Refine.C17Parse
end SoupVerif
