/-
  Namespace prefixes, part 3: what the parser loop does at `[ gap ns| name … ]`.
-/
import SoupVerif.Refine.Compile2Attr
namespace SoupVerif
namespace Refine
namespace Compile
open Rx RxBasic SoupVerif.Parser ParserProgress Escape Spelling

/-- `parse_attribute_selector` once prefix, name, operator, value and case flag are known. -/
def attrBuildNs (sel : SelB) (ns attr op value : Str) (case_ : Option Str) : SelB :=
  let (ic, isType) : Bool × Bool :=
    match case_ with
    | some c => (c == "i".toStr, false)
    | none => if lower attr == "type".toStr then (true, true) else (false, false)
  let hasWs := (Rx.search pyFoldEnv Gen.lexicon.reWs value).isSome
  let pattern : Option Rx := if op.isEmpty then none else some (attrPattern op value ic hasWs)
  let pattern2 : Option Rx :=
    if isType then pattern.map (fun _ => attrPattern op value false hasWs) else none
  let selAttr : AttrSel := { attrName := attr, pfx := ns, pattern := pattern, xmlTypePattern := pattern2 }
  if op.head? == some 33 then sel.addSub (.mk [(SelB.empty.addAttr selAttr).freeze] true false)
  else sel.addAttr selAttr

theorem attrBuild_eq (sel : SelB) (attr op value : Str) (case_ : Option Str) :
    attrBuild sel attr op value case_ = attrBuildNs sel [] attr op value case_ := rfl

variable (B : Builtins) (s : Str)

theorem parseAttribute_of_groups_ns (t : Token) (sel : SelB) (P name : Str) (op val cs : Option Str)
    (h1 : t.group (penv B s) "attr_ns" = some (P ++ [124])) (h2 : t.group (penv B s) "attr_name" = some name)
    (h3 : t.group (penv B s) "cmp" = op) (h4 : t.group (penv B s) "value" = val)
    (h5 : t.group (penv B s) "case" = cs) :
    parseAttribute (penv B s) t sel =
      attrBuildNs sel (Parser.cssUnescape pyFoldEnv Gen.lexicon P)
        (Parser.cssUnescape pyFoldEnv Gen.lexicon name) (op.getD [])
        (if (op.getD []).isEmpty then [] else rawValue (val.getD []))
        (match cs with | some c => if c.isEmpty then none else some (lower c) | none => none) := by
  have e1 : (P ++ [124]).isEmpty = false := by simp
  have e2 : (P ++ [124]).take ((P ++ [124]).length - 1) = P := by simp
  unfold parseAttribute attrBuildNs rawValue
  simp only [h1, h2, h3, h4, h5, e1, e2]
  cases cs with
  | none => rfl
  | some c => by_cases hc : c.isEmpty = true <;> simp only [hc] <;> rfl

variable (fuel flags : Nat) (st : LS)

/-- `[ g0 ns| name g4 ]`. -/
theorem step_attr_ns_noop {g0 g4 r : Str} {nf : List (Nat × EscForm)} (ns : SNs)
    (hd : s.drop st.pos = 91 :: (g0 ++ (ns.text ++ 124 :: (renderIdentWith nf ++ (g4 ++ 93 :: r)))))
    (hg0 : isGap g0) (hg4 : isGap g4) (hns : ns.ok (renderIdentWith nf ++ (g4 ++ 93 :: r)))
    (hv : validForms nf (g4 ++ 93 :: r) = true) (hh : headOk nf = true)
    (hcp : ∀ p ∈ nf, rangeOk p.1 p.2 = true) :
    ∃ p idx, s.drop p = r ∧
      parseLoop pyFoldEnv Gen.lexicon B s (fuel + 1) flags st =
        parseLoop pyFoldEnv Gen.lexicon B s fuel flags
          { st with pos := p, index := idx, sel := attrBuildNs st.sel ns.value (valueOf nf) [] [] none,
                    hasSelector := true } := by
  have hd1 : s.drop (st.pos + 1) = g0 ++ (ns.text ++ 124 :: (renderIdentWith nf ++ (g4 ++ 93 :: r))) :=
    Ident.drop_succ_of_drop_cons hd
  have hdn := drop_add_of_drop_append hd1
  have hda : s.drop (st.pos + 1 + g0.length + ns.text.length + 1) = renderIdentWith nf ++ (g4 ++ 93 :: r) :=
    Ident.drop_succ_of_drop_cons (drop_add_of_drop_append hdn)
  have hde := drop_add_of_drop_append hda
  have hdc := drop_add_of_drop_append hde
  have hstop := Ident.drop_succ_of_drop_cons hdc
  have hm := attr_ns_open s ns _ hd hg0 hns
    (by rw [attr_name_noop s _ rfl hda hg4 hv hh]; rfl)
  have hnt := nextToken_attr B s hd hm
  refine ⟨_, st.pos + 1 + g0.length + ns.text.length + 1 + (renderIdentWith nf).length + g4.length + 1,
    hstop, ?_⟩
  rw [C09.parseLoop_attribute _ _ _ _ _ _ _ _ hnt rfl]
  have hsl1 : slice s (st.pos + 1 + g0.length) (st.pos + 1 + g0.length + ns.text.length + 1) =
      ns.text ++ [124] := by
    have := slice_of_drop_append (s := s) (p := st.pos + 1 + g0.length) (a := ns.text ++ [124])
      (r := renderIdentWith nf ++ (g4 ++ 93 :: r)) (by rw [hdn]; simp)
    rw [← this]; congr 1; simp; omega
  have hsl2 := slice_of_drop_append hda
  rw [parseAttribute_of_groups_ns B s _ st.sel ns.text (renderIdentWith nf) none none none
    (by simp [Token.group, Parser.group, attrTok, Gen.tok_attribute_groups, capSpan, hsl1])
    (by simp [Token.group, Parser.group, attrTok, Gen.tok_attribute_groups, capSpan, hsl2])
    (by simp [Token.group, Parser.group, attrTok, Gen.tok_attribute_groups, capSpan])
    (by simp [Token.group, Parser.group, attrTok, Gen.tok_attribute_groups, capSpan])
    (by simp [Token.group, Parser.group, attrTok, Gen.tok_attribute_groups, capSpan])]
  rw [unescape_forms nf (SpellingLemmas.validForms_nil_of nf _ hv) hcp, ns.unescape _ hns]
  rfl

theorem caps1_filter (x y k : Nat) (hk : 2 ≤ k) :
    ([(1, x, y)] : Caps).filter (fun e => e.1 != k) = [(1, x, y)] := by
  have : ((1 : Nat) != k) = true := by simp; omega
  simp [List.filter_cons, this]

/-- `[ g0 ns| name g1 op g2 VALUE g4 ]`, generic in the value as `step_attr_op_noflag`. -/
theorem step_attr_ns_op_noflag {g0 g1 g2 g4 op V r : Str} {nf : List (Nat × EscForm)} (ns : SNs) (v : Str)
    (hd : s.drop st.pos =
      91 :: (g0 ++ (ns.text ++ 124 ::
        (renderIdentWith nf ++ (g1 ++ (op ++ (g2 ++ (V ++ (g4 ++ 93 :: r)))))))))
    (hg0 : isGap g0) (hg1 : isGap g1) (hg2 : isGap g2) (hg4 : isGap g4)
    (hns : ns.ok (renderIdentWith nf ++ (g1 ++ (op ++ (g2 ++ (V ++ (g4 ++ 93 :: r)))))))
    (hop : op = [61] ∨ ∃ x, isCmp x = true ∧ op = [x, 61])
    (hv : validForms nf (g1 ++ (op ++ (g2 ++ (V ++ (g4 ++ 93 :: r))))) = true) (hh : headOk nf = true)
    (hcp : ∀ p ∈ nf, rangeOk p.1 p.2 = true)
    (hVng : noGapStart (V ++ (g4 ++ 93 :: r)) = true)
    (hval : ∀ v0 c, s.drop v0 = V ++ (g4 ++ 93 :: r) →
      (runs pyFoldEnv s rxValue v0 c).head? = some (v0 + V.length, c))
    (hdec : rawValue V = v) :
    ∃ p idx, s.drop p = r ∧
      parseLoop pyFoldEnv Gen.lexicon B s (fuel + 1) flags st =
        parseLoop pyFoldEnv Gen.lexicon B s fuel flags
          { st with pos := p, index := idx, sel := attrBuildNs st.sel ns.value (valueOf nf) op v none,
                    hasSelector := true } := by
  have hd1 := Ident.drop_succ_of_drop_cons hd
  have hdn := drop_add_of_drop_append hd1
  have hda : s.drop (st.pos + 1 + g0.length + ns.text.length + 1) =
      renderIdentWith nf ++ (g1 ++ (op ++ (g2 ++ (V ++ (g4 ++ 93 :: r))))) :=
    Ident.drop_succ_of_drop_cons (drop_add_of_drop_append hdn)
  have hde := drop_add_of_drop_append hda
  have hdb := drop_add_of_drop_append hde
  have hdb' := drop_add_of_drop_append hdb
  have hdv := drop_add_of_drop_append hdb'
  have hdv1 := drop_add_of_drop_append hdv
  have hdc := drop_add_of_drop_append hdv1
  have hstop := Ident.drop_succ_of_drop_cons hdc
  have hv1l : st.pos + 1 + g0.length + ns.text.length + 1 + (renderIdentWith nf).length + g1.length +
      op.length + g2.length + V.length ≤ s.length := by
    have := lt_of_drop_cons hdc; omega
  have hm := attr_ns_open s ns _ hd hg0 hns
    (attr_name_op s _ (fun k hk => caps1_filter _ _ k hk) hda hg1 hg2 hop hv hh hVng _ _ _ (hval _ _ hdv)
      (tail_noflag s _ hdv1 hg4 hv1l))
  have hnt := nextToken_attr B s hd hm
  refine ⟨_, st.pos + 1 + g0.length + ns.text.length + 1 + (renderIdentWith nf).length + g1.length +
      op.length + g2.length + V.length + g4.length + 1, hstop, ?_⟩
  rw [C09.parseLoop_attribute _ _ _ _ _ _ _ _ hnt rfl]
  have hsl1 : slice s (st.pos + 1 + g0.length) (st.pos + 1 + g0.length + ns.text.length + 1) =
      ns.text ++ [124] := by
    have := slice_of_drop_append (s := s) (p := st.pos + 1 + g0.length) (a := ns.text ++ [124])
      (r := renderIdentWith nf ++ (g1 ++ (op ++ (g2 ++ (V ++ (g4 ++ 93 :: r)))))) (by rw [hdn]; simp)
    rw [← this]; congr 1; simp; omega
  have hsl2 := slice_of_drop_append hda
  have hsl3 := slice_of_drop_append hdb
  have hsl4 := slice_of_drop_append hdv
  rw [parseAttribute_of_groups_ns B s _ st.sel ns.text (renderIdentWith nf) (some op) (some V) none
    (by simp [Token.group, Parser.group, attrTok, Gen.tok_attribute_groups, capSpan, hsl1])
    (by simp [Token.group, Parser.group, attrTok, Gen.tok_attribute_groups, capSpan, hsl2])
    (by simp [Token.group, Parser.group, attrTok, Gen.tok_attribute_groups, capSpan, hsl3])
    (by simp [Token.group, Parser.group, attrTok, Gen.tok_attribute_groups, capSpan, hsl4])
    (by simp [Token.group, Parser.group, attrTok, Gen.tok_attribute_groups, capSpan])]
  rw [unescape_forms nf (SpellingLemmas.validForms_nil_of nf _ hv) hcp, ns.unescape _ hns]
  simp only [Option.getD_some, op_isEmpty hop, Bool.false_eq_true, if_false, hdec]
  rfl

/-- `[ g0 ns| name g1 op g2 VALUE g3 flag g4 ]`. -/
theorem step_attr_ns_op_flag {g0 g1 g2 g3 g4 op V r : Str} {f : Nat} {nf : List (Nat × EscForm)} (ns : SNs)
    (v : Str)
    (hd : s.drop st.pos =
      91 :: (g0 ++ (ns.text ++ 124 ::
        (renderIdentWith nf ++ (g1 ++ (op ++ (g2 ++ (V ++ (g3 ++ f :: (g4 ++ 93 :: r))))))))))
    (hg0 : isGap g0) (hg1 : isGap g1) (hg2 : isGap g2) (hg3 : isGap g3) (hg4 : isGap g4)
    (hf : isFlag f = true)
    (hns : ns.ok (renderIdentWith nf ++ (g1 ++ (op ++ (g2 ++ (V ++ (g3 ++ f :: (g4 ++ 93 :: r))))))))
    (hop : op = [61] ∨ ∃ x, isCmp x = true ∧ op = [x, 61])
    (hv : validForms nf (g1 ++ (op ++ (g2 ++ (V ++ (g3 ++ f :: (g4 ++ 93 :: r)))))) = true)
    (hh : headOk nf = true) (hcp : ∀ p ∈ nf, rangeOk p.1 p.2 = true)
    (hVng : noGapStart (V ++ (g3 ++ f :: (g4 ++ 93 :: r))) = true)
    (hval : ∀ v0 c, s.drop v0 = V ++ (g3 ++ f :: (g4 ++ 93 :: r)) →
      (runs pyFoldEnv s rxValue v0 c).head? = some (v0 + V.length, c))
    (hdec : rawValue V = v) :
    ∃ p idx, s.drop p = r ∧
      parseLoop pyFoldEnv Gen.lexicon B s (fuel + 1) flags st =
        parseLoop pyFoldEnv Gen.lexicon B s fuel flags
          { st with pos := p, index := idx,
                    sel := attrBuildNs st.sel ns.value (valueOf nf) op v (some [lowerCp f]),
                    hasSelector := true } := by
  have hd1 := Ident.drop_succ_of_drop_cons hd
  have hdn := drop_add_of_drop_append hd1
  have hda : s.drop (st.pos + 1 + g0.length + ns.text.length + 1) =
      renderIdentWith nf ++ (g1 ++ (op ++ (g2 ++ (V ++ (g3 ++ f :: (g4 ++ 93 :: r)))))) :=
    Ident.drop_succ_of_drop_cons (drop_add_of_drop_append hdn)
  have hde := drop_add_of_drop_append hda
  have hdb := drop_add_of_drop_append hde
  have hdb' := drop_add_of_drop_append hdb
  have hdv := drop_add_of_drop_append hdb'
  have hdv1 := drop_add_of_drop_append hdv
  have hdf := drop_add_of_drop_append hdv1
  have hdf1 := Ident.drop_succ_of_drop_cons hdf
  have hdc := drop_add_of_drop_append hdf1
  have hstop := Ident.drop_succ_of_drop_cons hdc
  have hv1l : st.pos + 1 + g0.length + ns.text.length + 1 + (renderIdentWith nf).length + g1.length +
      op.length + g2.length + V.length ≤ s.length := by
    have := lt_of_drop_cons hdf; omega
  have hm := attr_ns_open s ns _ hd hg0 hns
    (attr_name_op s _ (fun k hk => caps1_filter _ _ k hk) hda hg1 hg2 hop hv hh hVng _ _ _ (hval _ _ hdv)
      (tail_flag s _ hdv1 hg3 hg4 hf hv1l))
  have hnt := nextToken_attr B s hd hm
  refine ⟨_, st.pos + 1 + g0.length + ns.text.length + 1 + (renderIdentWith nf).length + g1.length +
      op.length + g2.length + V.length + g3.length + 1 + g4.length + 1, hstop, ?_⟩
  rw [C09.parseLoop_attribute _ _ _ _ _ _ _ _ hnt rfl]
  have hsl1 : slice s (st.pos + 1 + g0.length) (st.pos + 1 + g0.length + ns.text.length + 1) =
      ns.text ++ [124] := by
    have := slice_of_drop_append (s := s) (p := st.pos + 1 + g0.length) (a := ns.text ++ [124])
      (r := renderIdentWith nf ++ (g1 ++ (op ++ (g2 ++ (V ++ (g3 ++ f :: (g4 ++ 93 :: r)))))))
      (by rw [hdn]; simp)
    rw [← this]; congr 1; simp; omega
  have hsl2 := slice_of_drop_append hda
  have hsl3 := slice_of_drop_append hdb
  have hsl4 := slice_of_drop_append hdv
  have hsl5 : slice s (st.pos + 1 + g0.length + ns.text.length + 1 + (renderIdentWith nf).length +
      g1.length + op.length + g2.length + V.length + g3.length)
      (st.pos + 1 + g0.length + ns.text.length + 1 + (renderIdentWith nf).length + g1.length +
      op.length + g2.length + V.length + g3.length + 1) = [f] :=
    slice_of_drop_append (a := [f]) hdf
  rw [parseAttribute_of_groups_ns B s _ st.sel ns.text (renderIdentWith nf) (some op) (some V) (some [f])
    (by simp [Token.group, Parser.group, attrTok, Gen.tok_attribute_groups, capSpan, hsl1])
    (by simp [Token.group, Parser.group, attrTok, Gen.tok_attribute_groups, capSpan, hsl2])
    (by simp [Token.group, Parser.group, attrTok, Gen.tok_attribute_groups, capSpan, hsl3])
    (by simp [Token.group, Parser.group, attrTok, Gen.tok_attribute_groups, capSpan, hsl4])
    (by simp [Token.group, Parser.group, attrTok, Gen.tok_attribute_groups, capSpan, hsl5])]
  rw [unescape_forms nf (SpellingLemmas.validForms_nil_of nf _ hv) hcp, ns.unescape _ hns]
  simp only [Option.getD_some, op_isEmpty hop, Bool.false_eq_true, if_false, hdec, List.isEmpty_cons]
  rfl

end Compile
end Refine
end SoupVerif

#print axioms SoupVerif.Refine.Compile.step_attr_ns_noop
#print axioms SoupVerif.Refine.Compile.step_attr_ns_op_noflag
#print axioms SoupVerif.Refine.Compile.step_attr_ns_op_flag
