/-
  The token `pseudo_dir` (`:dir(` gap `ltr` | `rtl` gap `)`, reached through the `special` slot) and what
  the parser does with it.
-/
import SoupVerif.Refine.CompileNthStep
namespace SoupVerif
namespace Refine
namespace Compile
open Rx RxBasic SoupVerif.Parser ParserProgress Escape Spelling
open Wsc (gapRx)

def dirAlt : Rx := .alt [.seq (kwRx "ltr".toStr), .seq (kwRx "rtl".toStr)]

theorem tok_dir_shape :
    Gen.tok_pseudo_dir = .seq [.group 1 rxColonIdent, rxOpen, .group 3 dirAlt, gapRx true, .lit 41 true] := rfl

def dirRx : TokenRx := ⟨"pseudo_dir", Gen.tok_pseudo_dir, Gen.tok_pseudo_dir_groups⟩

theorem find_dir : Gen.lexicon.special.find? (fun e => e.1 == ":dir".toStr) = some (":dir".toStr, dirRx) := rfl

variable (s : Str)

/-- The keyword of `:dir()`: `ltr` or `rtl` in any letter case. -/
def dirWord (ltr : Bool) : Str := if ltr then "ltr".toStr else "rtl".toStr

theorem dirAlt_runs {p : Nat} {w R : Str} (ltr : Bool) (c : Caps) (hd : s.drop p = w ++ R)
    (hw : lower w = dirWord ltr) :
    runs pyFoldEnv s dirAlt p c = [(p + w.length, c)] := by
  have hx : ∀ x, s[p]? = some x → lowerCp x = (dirWord ltr).head?.getD 0 := by
    intro x hx
    cases w with
    | nil => cases ltr <;> simp [lower, dirWord] at hw <;> cases hw
    | cons y ys =>
      rw [getElem?_of_drop_cons (s := s) (p := p) (by rw [hd]; rfl)] at hx
      cases hx
      simp only [lower, List.map_cons] at hw
      rw [← hw]; rfl
  unfold dirAlt
  rw [runs_alt, runsAlt_cons, runsAlt_cons, runsAlt_nil, List.append_nil, runs_seq, runs_seq]
  cases ltr with
  | true =>
    have h1 := kw_runs (s := s) "ltr".toStr w p c R [] (by decide) hd hw
    have h2 := kw_fail (s := s) 114 "tl".toStr p c [] (by decide)
      (by intro x hx'; rw [hx x hx']; decide)
    simp only [List.append_nil] at h1 h2
    have e2 : kwRx "rtl".toStr = kwRx (114 :: "tl".toStr) := rfl
    rw [h1, e2, h2, runsSeq_nil]; rfl
  | false =>
    have h1 := kw_runs (s := s) "rtl".toStr w p c R [] (by decide) hd hw
    have h2 := kw_fail (s := s) 108 "tr".toStr p c [] (by decide)
      (by intro x hx'; rw [hx x hx']; decide)
    simp only [List.append_nil] at h1 h2
    have e2 : kwRx "ltr".toStr = kwRx (108 :: "tr".toStr) := rfl
    rw [h1, e2, h2, runsSeq_nil]; rfl

theorem dir_matchAt {i : Nat} {forms : List (Nat × EscForm)} {g₁ g₂ w R : Str} (ltr : Bool)
    (hd : s.drop i = 58 :: (renderIdentWith forms ++ (40 :: (g₁ ++ (w ++ (g₂ ++ 41 :: R))))))
    (hv : validForms forms (40 :: (g₁ ++ (w ++ (g₂ ++ 41 :: R)))) = true) (hh : headOk forms = true)
    (hg₁ : isGap g₁) (hg₂ : isGap g₂) (hw : lower w = dirWord ltr) :
    matchAt pyFoldEnv Gen.tok_pseudo_dir s i =
      some (i + 1 + (renderIdentWith forms).length + 1 + g₁.length + w.length + g₂.length + 1,
        [(3, i + 1 + (renderIdentWith forms).length + 1 + g₁.length,
            i + 1 + (renderIdentWith forms).length + 1 + g₁.length + w.length),
         (2, i + 1 + (renderIdentWith forms).length, i + 1 + (renderIdentWith forms).length + 1 + g₁.length),
         (1, i, i + 1 + (renderIdentWith forms).length)]) := by
  have h58 := getElem?_of_drop_cons hd
  have hd1 : s.drop (i + 1) = renderIdentWith forms ++ (40 :: (g₁ ++ (w ++ (g₂ ++ 41 :: R)))) :=
    Ident.drop_succ_of_drop_cons hd
  have hde := drop_add_of_drop_append hd1
  have hde1 : s.drop (i + 1 + (renderIdentWith forms).length + 1) = g₁ ++ (w ++ (g₂ ++ 41 :: R)) :=
    Ident.drop_succ_of_drop_cons hde
  have hdw := drop_add_of_drop_append hde1
  have hdg := drop_add_of_drop_append hdw
  have hil := lt_of_drop_cons hd
  have hscan := C09.scan_any_spelling_ctx forms _ hv hh (by simp [continuesIdent, identContChar])
  rw [← hd1] at hscan
  have hwlen : w.length = 3 := by
    have := congrArg List.length hw
    rw [SpellingLemmas.lower_length] at this
    cases ltr <;> exact this
  have hwng : noGapStart (w ++ (g₂ ++ 41 :: R)) = true := by
    cases w with
    | nil => simp at hwlen
    | cons y ys =>
      simp only [lower, List.map_cons] at hw
      have hy : lowerCp y = 108 ∨ lowerCp y = 114 := by
        cases ltr
        · right; exact (List.cons.inj hw).1
        · left; exact (List.cons.inj hw).1
      simp only [lowerCp] at hy
      have h1 : isCssWs y = false := by simp [isCssWs]; split at hy <;> omega
      have h2 : y ≠ 47 := by split at hy <;> omega
      simp [noGapStart, h1, h2]
  have hvl : i + 1 + (renderIdentWith forms).length + 1 + g₁.length + w.length ≤ s.length := by
    have := lt_of_drop_cons (drop_add_of_drop_append hdg); omega
  rw [tok_dir_shape]
  unfold matchAt
  rw [runs_seq, runsSeq_group_cons, colonIdent_runs s [] h58,
    ident_flatMap Ident.identFold_py s (i + 1) []
      (fun x => runsSeq pyFoldEnv s [rxOpen, .group 3 dirAlt, gapRx true, .lit 41 true] x.1
        ((1, i, x.1) :: x.2.filter (fun e => e.1 != 1)))
      (by omega) (fun j c hj => open_fail_at_unit s _ _ hj), hscan]
  simp only [List.filter_nil]
  apply open_head s _ hde hg₁ hwng
  rw [runsSeq_group_cons, dirAlt_runs s ltr _ hdw hw]
  simp only [List.flatMap_cons, List.flatMap_nil, List.append_nil]
  rw [close41_runs s _ hdg hg₂ hvl]
  rfl

/-! ### The parser -/

variable (B : Builtins) (fuel flags : Nat) (st : LS)

/-- What `:dir()` adds to the builder. -/
def dirBuild (ltr : Bool) (sel : SelB) : SelB :=
  sel.addSub (.mk [(SelB.empty.setFlags (if ltr then SEL_DIR_LTR else SEL_DIR_RTL)).freeze] false true)

theorem step_dir {forms : List (Nat × EscForm)} {g₁ g₂ w r : Str} (ltr : Bool)
    (hd : s.drop st.pos = 58 :: (renderIdentWith forms ++ (40 :: (g₁ ++ (w ++ (g₂ ++ 41 :: r))))))
    (hv : validForms forms (40 :: (g₁ ++ (w ++ (g₂ ++ 41 :: r)))) = true) (hh : headOk forms = true)
    (hcp : ∀ p ∈ forms, rangeOk p.1 p.2 = true) (hg₁ : isGap g₁) (hg₂ : isGap g₂)
    (hw : lower w = dirWord ltr) (hname : 58 :: lower (valueOf forms) = ":dir".toStr) :
    ∃ p idx, s.drop p = r ∧
      parseLoop pyFoldEnv Gen.lexicon B s (fuel + 1) flags st =
        parseLoop pyFoldEnv Gen.lexicon B s fuel flags
          { st with pos := p, index := idx, sel := dirBuild ltr st.sel, hasSelector := true } := by
  have hm := dir_matchAt s ltr hd hv hh hg₁ hg₂ hw
  have hwlen : w.length = 3 := by
    have := congrArg List.length hw
    rw [SpellingLemmas.lower_length] at this
    cases ltr <;> exact this
  have hwng : noGapStart (w ++ (g₂ ++ 41 :: r)) = true := by
    cases w with
    | nil => simp at hwlen
    | cons y ys =>
      simp only [lower, List.map_cons] at hw
      have hy : lowerCp y = 108 ∨ lowerCp y = 114 := by
        cases ltr
        · right; exact (List.cons.inj hw).1
        · left; exact (List.cons.inj hw).1
      simp only [lowerCp] at hy
      have h1 : isCssWs y = false := by simp [isCssWs]; split at hy <;> omega
      have h2 : y ≠ 47 := by split at hy <;> omega
      simp [noGapStart, h1, h2]
  have hnt := nextToken_nth B s (R := w ++ (g₂ ++ 41 :: r)) hd hv hh hcp hg₁ hwng dirRx
    (by rw [hname]; exact find_dir) hm
  have hd1 : s.drop (st.pos + 1) = renderIdentWith forms ++ (40 :: (g₁ ++ (w ++ (g₂ ++ 41 :: r)))) :=
    Ident.drop_succ_of_drop_cons hd
  have hde := drop_add_of_drop_append hd1
  have hde1 : s.drop (st.pos + 1 + (renderIdentWith forms).length + 1) = g₁ ++ (w ++ (g₂ ++ 41 :: r)) :=
    Ident.drop_succ_of_drop_cons hde
  have hdw := drop_add_of_drop_append hde1
  have hdg := drop_add_of_drop_append hdw
  have hstop := Ident.drop_succ_of_drop_cons (drop_add_of_drop_append hdg)
  have hsl3 := slice_of_drop_append hdw
  refine ⟨_, st.pos + 1 + (renderIdentWith forms).length + 1 + g₁.length + w.length + g₂.length + 1,
    hstop, ?_⟩
  rw [C09.parseLoop_dir _ _ _ _ _ _ _ _ hnt rfl]
  have hg3 : Token.group (penv B s) (Token.mk dirRx.name dirRx st.pos
      (st.pos + 1 + (renderIdentWith forms).length + 1 + g₁.length + w.length + g₂.length + 1)
      [(3, st.pos + 1 + (renderIdentWith forms).length + 1 + g₁.length,
          st.pos + 1 + (renderIdentWith forms).length + 1 + g₁.length + w.length),
       (2, st.pos + 1 + (renderIdentWith forms).length,
          st.pos + 1 + (renderIdentWith forms).length + 1 + g₁.length),
       (1, st.pos, st.pos + 1 + (renderIdentWith forms).length)]) "dir" = some w := by
    simp [Token.group, Parser.group, dirRx, Gen.tok_pseudo_dir_groups, capSpan, hsl3]
  simp only [penv] at hg3
  simp only [hg3, Option.getD_some, C09.dirValue, hw]
  cases ltr <;> rfl

end Compile
end Refine
end SoupVerif

#print axioms SoupVerif.Refine.Compile.dir_matchAt
#print axioms SoupVerif.Refine.Compile.step_dir
