/-
  Combinators in every mode of `parse_selectors`: `parse_combinator` with and without a preceding compound
  (the empty slots of the forgiving lists of `:is()` / `:where()`), `parse_has_combinator` (the relative
  lists of `:has()`, leading combinators), the closing parenthesis after an empty slot, and `&`.
-/
import SoupVerif.Refine.Compile2ValuesStep
namespace SoupVerif
namespace Refine
namespace Compile
open Rx RxBasic SoupVerif.Parser ParserProgress Escape Spelling
open Wsc (wsEnd gapEnd)

/-- The three flags of `parse_selectors` that the loop looks at. -/
def relOf (fl : Nat) : Bool := (fl &&& FLG_RELATIVE) != 0
def fgOf (fl : Nat) : Bool := (fl &&& FLG_FORGIVE) != 0
def ipOf (fl : Nat) : Bool := (fl &&& FLG_PSEUDO) != 0

/-- `parse_combinator` (its branches that do not raise): after a compound as `combStep`; without one (a
    forgiving list, at a comma) the empty slot becomes a selector that matches nothing. -/
def combStepF (c : Nat) (ip : Bool) (st : LS) : LS :=
  if st.hasSelector then combStep c ip st
  else { st with selectors := st.selectors ++ [st.sel.setNoMatch], relations := [], sel := .empty,
                 hasSelector := false }

/-- `parse_has_combinator` (its branches that do not raise). -/
def combStepR (c : Nat) (st : LS) : LS :=
  if c == 44 then
    { st with selectors := (modifyLast st.selectors (·.addRelations [st.sel.setRelType st.relType])) ++
                [SelB.empty],
              relType := .hasDesc, sel := .empty, hasSelector := false }
  else if st.hasSelector then
    { st with selectors := modifyLast st.selectors (·.addRelations [st.sel.setRelType st.relType]),
              relType := combHasRel c, sel := .empty, hasSelector := false }
  else { st with relType := combHasRel c, sel := .empty, hasSelector := false }

/-- The combinator step of the loop for the flags `fl`. -/
def combStepG (fl c : Nat) (st : LS) : LS :=
  if relOf fl then combStepR c st else combStepF c (ipOf fl) st

/-- When the combinator `c` does not raise in the state `st`. -/
def CombValid (fl c : Nat) (st : LS) : Prop :=
  if relOf fl = true then
    (c = 44 → st.hasSelector = true) ∧ (c ≠ 44 → st.hasSelector = true ∨ st.relType = .hasDesc)
  else st.hasSelector = true ∨ (fgOf fl = true ∧ c = 44)

theorem parseCombinator_eqF (P : PEnv) (t : Token) (st : LS) (ip ifg : Bool) (idx : Nat)
    (h : st.hasSelector = true ∨ (ifg = true ∧ combinatorOf P t = 44)) :
    parseCombinator P t st ip ifg idx = .ok (combStepF (combinatorOf P t) ip st) := by
  by_cases hs : st.hasSelector = true
  · rw [parseCombinator_eq P t st ip ifg idx hs]
    simp [combStepF, hs]
  · have hs' : st.hasSelector = false := by simpa using hs
    rcases h with h | ⟨hf, hc⟩
    · exact absurd h hs
    · unfold parseCombinator combStepF
      simp [hs', hf, hc]

theorem parseHasCombinator_eq (P : PEnv) (t : Token) (st : LS) (idx : Nat)
    (h44 : combinatorOf P t = 44 → st.hasSelector = true)
    (hne : combinatorOf P t ≠ 44 → st.hasSelector = true ∨ st.relType = .hasDesc) :
    parseHasCombinator P t st idx = .ok (combStepR (combinatorOf P t) st) := by
  unfold parseHasCombinator combStepR
  by_cases hc : combinatorOf P t = 44
  · simp [hc, h44 hc]
  · have hc' : (combinatorOf P t == 44) = false := by simpa using hc
    simp only [hc', Bool.false_eq_true, if_false]
    by_cases hs : st.hasSelector = true
    · simp [hs]
    · have hs' : st.hasSelector = false := by simpa using hs
      rcases hne hc with h | h
      · exact absurd h hs
      · simp [hs', h]

section Loop
variable (env : CharEnv) (L : Lexicon) (B : Builtins) (pattern : Str) (fuel flags : Nat) (st : LS) (t : Token)

theorem parseLoop_combineG (h : nextToken ⟨env, L, B, pattern⟩ st.pos = .ok (some t))
    (hk : t.name = "combine")
    (hv : CombValid flags (combinatorOf ⟨env, L, B, pattern⟩ t) st) :
    parseLoop env L B pattern (fuel + 1) flags st =
      parseLoop env L B pattern fuel flags
        { combStepG flags (combinatorOf ⟨env, L, B, pattern⟩ t) { st with pos := t.stop } with
            index := t.stop } := by
  rw [parseLoop]
  simp only [h, hk]
  unfold CombValid at hv
  by_cases hrel : relOf flags = true
  · rw [if_pos hrel] at hv
    have hrel' : ((flags &&& FLG_RELATIVE) != 0) = true := hrel
    have := parseHasCombinator_eq ⟨env, L, B, pattern⟩ t { st with pos := t.stop } st.index hv.1 hv.2
    simp [hrel', this, combStepG, hrel]
  · rw [if_neg hrel] at hv
    have hrel' : ((flags &&& FLG_RELATIVE) != 0) = false := by simpa [relOf] using hrel
    have := parseCombinator_eqF ⟨env, L, B, pattern⟩ t { st with pos := t.stop }
      ((flags &&& FLG_PSEUDO) != 0) ((flags &&& FLG_FORGIVE) != 0) st.index hv
    have hrel'' : relOf flags = false := by simpa using hrel
    simp [hrel', this, combStepG, hrel'', ipOf]

/-- `)` closes the nested list; after an empty slot (forgiving lists) the builder is marked "no match". -/
theorem parseLoop_closeG (h : nextToken ⟨env, L, B, pattern⟩ st.pos = .ok (some t))
    (hk : t.name = "pseudo_close") (hs : st.hasSelector = true ∨ fgOf flags = true)
    (hopen : ((flags &&& FLG_OPEN) != 0) = true) :
    parseLoop env L B pattern (fuel + 1) flags st =
      .ok { (if st.hasSelector then st else { st with sel := st.sel.setNoMatch }) with
              pos := t.stop, closed := true } := by
  rw [parseLoop]
  simp only [h, hk]
  by_cases hh : st.hasSelector = true
  · simp [hh, hopen]
  · have hh' : st.hasSelector = false := by simpa using hh
    have hf : ((flags &&& FLG_FORGIVE) != 0) = true := by
      rcases hs with hs | hs
      · exact absurd hs hh
      · exact hs
    simp [hh', hopen, hf]

theorem parseLoop_amp (h : nextToken ⟨env, L, B, pattern⟩ st.pos = .ok (some t)) (hk : t.name = "amp") :
    parseLoop env L B pattern (fuel + 1) flags st =
      parseLoop env L B pattern fuel flags
        { st with pos := t.stop, sel := st.sel.orFlags SEL_SCOPE, hasSelector := true, index := t.stop } := by
  rw [parseLoop]
  simp only [h, hk]
  simp

end Loop

variable (B : Builtins) (s : Str)

/-! ### The tokens -/

theorem nextToken_sym {i c : Nat} {g₁ g₂ R : Str} (hd : s.drop i = g₁ ++ c :: (g₂ ++ R))
    (hg₁ : isGap g₁) (hg₂ : isGap g₂) (hcomb : isComb c = true) (hR : noGapStart R = true) :
    ∃ e stop, nextToken (penv B s) i = .ok (some (combTok i stop [(1, e, e + 1)])) ∧
      slice s e (e + 1) = [c] ∧ s.drop stop = R := by
  obtain ⟨e, stop, hm, hsl, hstop, _⟩ :=
    combine_matchAt_comb Wsc.caseFree_pyFold Ident.identFold_py s i c g₁ g₂ R hd hg₁ hg₂ hcomb hR
  have hcng : noGapStart (c :: (g₂ ++ R)) = true := by
    simp only [isComb, Bool.or_eq_true, beq_iff_eq] at hcomb
    rcases hcomb with ((h | h) | h) | h <;> subst h <;> simp [noGapStart, isCssWs]
  have hsk : skipWSC (s.drop i) = c :: (g₂ ++ R) := by
    rw [hd, C09.skipWSC_append g₁ _ hg₁ hcng]
  obtain ⟨x, hx, hcs⟩ : ∃ x, s[i]? = some x ∧ combStart x = true := by
    cases g₁ with
    | nil =>
      exact ⟨c, getElem?_of_drop_cons (by rw [hd]; rfl), by simp [combStart, hcomb]⟩
    | cons y ys =>
      refine ⟨y, getElem?_of_drop_cons (by rw [hd]; rfl), ?_⟩
      rcases gap_head hg₁ y (by simp) with h | h
      · simp [combStart, h]
      · simp [combStart, h]
  have hnt := nextToken_combine B s hx hcs (by rw [hsk]; simp)
    (by rw [hsk]; simp only [List.head?_cons]; intro h; cases h; simp [isComb] at hcomb) hm
  exact ⟨e, stop, hnt, hsl, hstop⟩

theorem nextToken_desc {i : Nat} {g R : Str} (hd : s.drop i = g ++ R) (hg : DescGap g)
    (hR : noGapStart R = true) (hRne : R ≠ []) (hRc : ∀ c ∈ R.head?, isComb c = false)
    (hR41 : R.head? ≠ some 41) :
    ∃ p p', nextToken (penv B s) i = .ok (some (combTok i (i + g.length) [(1, p, p')])) ∧
      wsEnd s p = some p' := by
  obtain ⟨p, p', hm, hw⟩ :=
    combine_matchAt_desc Wsc.caseFree_pyFold Ident.identFold_py s i g R hd hg hR hRc
  have hsk : skipWSC (s.drop i) = R := by rw [hd, C09.skipWSC_append g R hg.isGap hR]
  obtain ⟨x, hx, hcs⟩ : ∃ x, s[i]? = some x ∧ combStart x = true := by
    cases g with
    | nil => exact absurd rfl hg.ne_nil
    | cons y ys =>
      refine ⟨y, getElem?_of_drop_cons (by rw [hd]; rfl), ?_⟩
      rcases gap_head hg.isGap y (by simp) with h | h
      · simp [combStart, h]
      · simp [combStart, h]
  exact ⟨p, p', nextToken_combine B s hx hcs (by rw [hsk]; exact hRne) (by rw [hsk]; exact hR41) hm, hw⟩

/-! ### Steps -/

theorem combStepG_frame (fl c : Nat) (st : LS) (p idx : Nat) :
    { combStepG fl c { st with pos := p } with index := idx } =
      { combStepG fl c st with pos := p, index := idx } := by
  unfold combStepG combStepR combStepF
  by_cases hr : relOf fl = true <;> by_cases h : (c == 44) = true <;>
    by_cases hs : st.hasSelector = true <;> simp [combStep, hr, h, hs]

variable (fuel flags : Nat) (st : LS)

/-- `g₁ c g₂` with `c` one of `,` `+` `>` `~`, in any mode. -/
theorem step_symG {c : Nat} {g₁ g₂ R : Str} (hd : s.drop st.pos = g₁ ++ c :: (g₂ ++ R))
    (hg₁ : isGap g₁) (hg₂ : isGap g₂) (hcomb : isComb c = true) (hR : noGapStart R = true)
    (hv : CombValid flags c st) :
    ∃ p idx, s.drop p = R ∧
      parseLoop pyFoldEnv Gen.lexicon B s (fuel + 1) flags st =
        parseLoop pyFoldEnv Gen.lexicon B s fuel flags
          { combStepG flags c st with pos := p, index := idx } := by
  obtain ⟨e, stop, hnt, hsl, hstop⟩ := nextToken_sym B s hd hg₁ hg₂ hcomb hR
  have hc := combinatorOf_char B s (i := st.pos) (j := stop) hsl hcomb
  refine ⟨stop, stop, hstop, ?_⟩
  rw [parseLoop_combineG _ _ B _ _ _ _ _ hnt rfl (by simp only [penv] at hc; rw [hc]; exact hv)]
  simp only [penv] at hc
  rw [hc]
  exact congrArg _ (combStepG_frame _ _ _ _ _)

/-- The descendant combinator (a gap with a whitespace unit), in any mode. -/
theorem step_descG {g R : Str} (hd : s.drop st.pos = g ++ R) (hg : DescGap g)
    (hR : noGapStart R = true) (hRne : R ≠ []) (hRc : ∀ c ∈ R.head?, isComb c = false)
    (hR41 : R.head? ≠ some 41) (hv : CombValid flags 32 st) :
    ∃ p idx, s.drop p = R ∧
      parseLoop pyFoldEnv Gen.lexicon B s (fuel + 1) flags st =
        parseLoop pyFoldEnv Gen.lexicon B s fuel flags
          { combStepG flags 32 st with pos := p, index := idx } := by
  obtain ⟨p, p', hnt, hw⟩ := nextToken_desc B s hd hg hR hRne hRc hR41
  have hc := combinatorOf_ws B s (i := st.pos) (j := st.pos + g.length) hw
  refine ⟨st.pos + g.length, st.pos + g.length, drop_add_of_drop_append hd, ?_⟩
  rw [parseLoop_combineG _ _ B _ _ _ _ _ hnt rfl (by simp only [penv] at hc; rw [hc]; exact hv)]
  simp only [penv] at hc
  rw [hc]
  exact congrArg _ (combStepG_frame _ _ _ _ _)

/-- The state after `)`. -/
def closeSt (st : LS) : LS :=
  { (if st.hasSelector then st else { st with sel := st.sel.setNoMatch }) with closed := true }

theorem step_closeG {g₂ r : Str} (hd : s.drop st.pos = g₂ ++ 41 :: r) (hg : isGap g₂)
    (hs : st.hasSelector = true ∨ fgOf flags = true) (hopen : ((flags &&& FLG_OPEN) != 0) = true) :
    ∃ p, s.drop p = r ∧
      parseLoop pyFoldEnv Gen.lexicon B s (fuel + 1) flags st = .ok { closeSt st with pos := p } := by
  refine ⟨st.pos + g₂.length + 1, ?_, ?_⟩
  · exact Ident.drop_succ_of_drop_cons (drop_add_of_drop_append hd)
  · rw [parseLoop_closeG _ _ B _ _ _ _ _ (nextToken_close s B hd hg) rfl hs hopen]
    unfold closeSt
    by_cases hh : st.hasSelector = true <;> simp [hh, closeTok]

/-! ### `&` -/

theorem skip_amp : (Gen.lexicon.tokens.take 5).all (fun t => !slotFirst 38 t) = true := by
  decide +kernel

def ampTok (i : Nat) : Token :=
  { name := "amp", rx := ⟨"amp", Gen.tok_amp, Gen.tok_amp_groups⟩, start := i, stop := i + 1, caps := [] }

theorem tok_amp_shape : Gen.tok_amp = .lit 38 true := rfl

theorem nextToken_amp {i : Nat} {r : Str} (hd : s.drop i = 38 :: r) :
    nextToken (penv B s) i = .ok (some (ampTok i)) := by
  have hci := getElem?_of_drop_cons hd
  rw [nextToken_noGap B s hd (by simp [noGapStart, isCssWs])]
  have hk : keyOf s[i]? = 38 := by rw [hci]; rfl
  have hm : matchAt pyFoldEnv Gen.tok_amp s i = some (i + 1, []) := by
    rw [tok_amp_shape]
    unfold matchAt
    rw [← Wsc.runsSeq_single, lit_ok pyFoldEnv s 38 [] i [] hci, runsSeq_nil]
    rfl
  rw [matchToken_hit B s i 5 ⟨"amp", Gen.tok_amp, Gen.tok_amp_groups⟩ _ _ _ rfl
    (by rw [hk]; exact skip_amp) hm]
  rfl

theorem step_amp {r : Str} (hd : s.drop st.pos = 38 :: r) :
    ∃ p idx, s.drop p = r ∧
      parseLoop pyFoldEnv Gen.lexicon B s (fuel + 1) flags st =
        parseLoop pyFoldEnv Gen.lexicon B s fuel flags
          { st with pos := p, index := idx, sel := st.sel.orFlags SEL_SCOPE, hasSelector := true } := by
  refine ⟨st.pos + 1, st.pos + 1, Ident.drop_succ_of_drop_cons hd, ?_⟩
  rw [parseLoop_amp _ _ B _ _ _ _ _ (nextToken_amp B s hd) rfl]
  rfl

end Compile
end Refine
end SoupVerif

#print axioms SoupVerif.Refine.Compile.step_symG
#print axioms SoupVerif.Refine.Compile.step_descG
#print axioms SoupVerif.Refine.Compile.step_closeG
#print axioms SoupVerif.Refine.Compile.step_amp
