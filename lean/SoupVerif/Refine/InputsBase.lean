/-
  General engine lemmas for the refinement proofs of `css_match.Inputs` (`Refine/Inputs.lean`):
  suffix view of positions (`s.drop i`), grouped repetitions of a one-character test, the optional
  `( … )?`, and the list facts tying `splitAt1` to `takeWhile` / `dropWhile`.
-/
import SoupVerif.Lemmas.RxBasic
import SoupVerif.Model.Inputs
set_option linter.unusedSimpArgs false
namespace SoupVerif
namespace RefineInputs
open Rx RxBasic Inputs

/-! ### Suffix view -/

theorem getElem?_eq_head_drop (s : Str) (i : Nat) : s[i]? = (s.drop i).head? := by
  rw [List.head?_drop]

theorem drop_add_of {s t : Str} {n : Nat} (h : s.drop n = t) (k : Nat) : s.drop (n + k) = t.drop k := by
  rw [← h, List.drop_drop]

theorem spanLen_drop (s : Str) (P : Nat → Bool) (i : Nat) :
    spanLen s P i = ((s.drop i).takeWhile P).length := rfl

theorem drop_span (s : Str) (P : Nat → Bool) (i : Nat) :
    s.drop (i + spanLen s P i) = (s.drop i).dropWhile P := by
  rw [← List.drop_drop, spanLen_drop]
  generalize s.drop i = t
  induction t with
  | nil => rfl
  | cons x t ih =>
    by_cases hx : P x = true
    · simp [List.takeWhile_cons, List.dropWhile_cons, hx, ih]
    · simp [List.takeWhile_cons, List.dropWhile_cons, hx]

theorem take_span (s : Str) (P : Nat → Bool) (i : Nat) :
    (s.drop i).take (spanLen s P i) = (s.drop i).takeWhile P := by
  rw [spanLen_drop]
  generalize s.drop i = t
  induction t with
  | nil => rfl
  | cons x t ih =>
    by_cases hx : P x = true
    · simp [List.takeWhile_cons, hx, ih]
    · simp [List.takeWhile_cons, hx]

/-! ### The optional `( … )?` -/

theorem flatMap_singleton_fun {α} (f : α → List α) (h : ∀ x, f x = [x]) :
    ∀ l : List α, l.flatMap f = l
  | [] => rfl
  | x :: l => by rw [List.flatMap_cons, h x, flatMap_singleton_fun f h l]; rfl

theorem iter_opt (body : Nat → Caps → List (Nat × Caps)) (f pos : Nat) (caps : Caps) :
    iter body 0 (some 1) true (f + 2) 0 pos caps = body pos caps ++ [(pos, caps)] := by
  have h1 : ∀ p' c', iter body 0 (some 1) true (f + 1) 1 p' c' = [(p', c')] := by
    intro p' c'; rw [iter]; simp
  rw [iter]
  simp only [Nat.lt_add_one, if_true, h1, Nat.zero_le, ge_iff_le]
  congr 1
  apply flatMap_singleton_fun
  rintro ⟨p', c'⟩
  simp

/-- A greedy `(...)?`: the body's results first, then the empty iteration. -/
theorem runs_opt (env : CharEnv) (s : Str) (r : Rx) (i : Nat) (caps : Caps) :
    runs env s (.rep 0 (some 1) true r) i caps = runs env s r i caps ++ [(i, caps)] := by
  rw [runs]
  exact iter_opt _ _ i caps

/-! ### Captures -/

/-- The captures after group `idx` matched `[a, b)`. -/
def setCap (idx a b : Nat) (caps : Caps) : Caps := (idx, a, b) :: caps.filter (fun e => e.1 != idx)

theorem capSpan_setCap_self (idx a b : Nat) (c : Caps) : capSpan (setCap idx a b c) idx = some (a, b) :=
  capSpan_cons_self idx a b _

theorem capSpan_setCap_ne {idx idx' a b : Nat} (c : Caps) (h : idx' ≠ idx) :
    capSpan (setCap idx' a b c) idx = capSpan c idx := by
  unfold setCap
  rw [capSpan_cons_ne _ h, capSpan_filter_ne _ h]

/-- `m.group(idx)`: the slice of `s` at the span of group `idx` (empty when the group is unset). -/
def grp (s : Str) (caps : Caps) (idx : Nat) : Str :=
  match capSpan caps idx with
  | some (a, b) => (s.drop a).take (b - a)
  | none => []

/-! ### Grouped repetitions of a one-character test inside a sequence -/

theorem runs_group' (env : CharEnv) (s : Str) (idx : Nat) (r : Rx) (i : Nat) (caps : Caps) :
    runs env s (.group idx r) i caps = (runs env s r i caps).map fun x => (x.1, setCap idx i x.1 x.2) :=
  runs_group env s idx r i caps

/-- `(?P<idx>P{n})` followed by a continuation. -/
theorem runsSeq_group_exact {env : CharEnv} {s : Str} {r : Rx} {P : Nat → Bool} (h : IsChar env s r P)
    (idx n : Nat) (g : Bool) (rs : List Rx) (i : Nat) (caps : Caps) :
    runsSeq env s (.group idx (.rep n (some n) g r) :: rs) i caps =
      if n ≤ spanLen s P i then runsSeq env s rs (i + n) (setCap idx i (i + n) caps) else [] := by
  rw [runsSeq_cons, runs_group', runs_rep_char_exact h]
  by_cases hn : n ≤ spanLen s P i
  · simp [hn]
  · simp [hn]

/-- `(?P<idx>P{mn,})` followed by a continuation that fails wherever a `P` character stands. -/
theorem runsSeq_group_rep_cut {env : CharEnv} {s : Str} {r : Rx} {P : Nat → Bool} (h : IsChar env s r P)
    (idx mn : Nat) (rs : List Rx) (i : Nat) (caps : Caps)
    (hcut : ∀ j x c, s[j]? = some x → P x = true → runsSeq env s rs j c = []) :
    runsSeq env s (.group idx (.rep mn none true r) :: rs) i caps =
      if mn ≤ spanLen s P i then
        runsSeq env s rs (i + spanLen s P i) (setCap idx i (i + spanLen s P i) caps)
      else [] := by
  rw [runsSeq_cons, runs_group', runs_rep_char h, List.flatMap_map]
  simp only [room]
  by_cases hmn : mn ≤ spanLen s P i
  · rw [if_pos hmn]
    have := flatMap_down_cut caps (fun x => runsSeq env s rs x.1 (setCap idx i x.1 x.2))
      (spanLen s P i - mn) (i + mn) (by
      intro j h1 h2
      obtain ⟨x, hx, hPx⟩ := span_inside s P (j - i) i (by omega)
      rw [show i + (j - i) = j by omega] at hx
      exact hcut j x _ hx hPx)
    rw [show i + mn + (spanLen s P i - mn) = i + spanLen s P i by omega] at this
    exact this
  · rw [if_neg hmn, down_empty caps (by omega)]; rfl

/-- A literal in a sequence, suffix view. -/
theorem runsSeq_lit (env : CharEnv) (s : Str) (ch : Nat) (rs : List Rx) (i : Nat) (caps : Caps) :
    runsSeq env s (.lit ch false :: rs) i caps =
      match s.drop i with
      | x :: _ => if x = ch then runsSeq env s rs (i + 1) caps else []
      | [] => [] := by
  rw [runsSeq_char (isChar_lit env s ch false), getElem?_eq_head_drop]
  cases s.drop i with
  | nil => rfl
  | cons x t => simp

theorem runsSeq_eos (env : CharEnv) (s : Str) (i : Nat) (caps : Caps) :
    runsSeq env s [.eos] i caps = if i = s.length then [(i, caps)] else [] := by
  rw [runsSeq_cons, runs_eos]
  by_cases h : i = s.length <;> simp [h, runsSeq_nil]

theorem runsSeq_bos (env : CharEnv) (s : Str) (rs : List Rx) (caps : Caps) :
    runsSeq env s (.bos :: rs) 0 caps = runsSeq env s rs 0 caps := by
  rw [runsSeq_cons, runs_bos]; simp

/-! ### Digits -/

/-- `[0-9]` as it is generated. -/
abbrev dg : Rx := .set false [.range 48 57] false

theorem isChar_digit (env : CharEnv) (s : Str) :
    IsChar env s (.set false [.range 48 57] false) isDigit := by
  apply isChar_congr (isChar_set env s _ _ _)
  intro c
  simp [setHas, itemHas, isDigit]

/-- `2 ≤` the digit span, on an explicit suffix. -/
def two (t : Str) : Bool :=
  match t with
  | a :: b :: _ => isDigit a && isDigit b
  | _ => false

theorem two_le_span (s : Str) (i : Nat) : (2 ≤ spanLen s isDigit i) = (two (s.drop i) = true) := by
  rw [spanLen_drop]
  generalize s.drop i = t
  rcases t with _ | ⟨a, _ | ⟨b, t⟩⟩
  · simp [two]
  · by_cases ha : isDigit a = true <;> simp [two, List.takeWhile_cons, ha]
  · by_cases ha : isDigit a = true <;> by_cases hb : isDigit b = true <;>
      simp [two, List.takeWhile_cons, ha, hb]


/-- `(?P<idx>[0-9]{2})` followed by a continuation, suffix view. -/
theorem runsSeq_g2 (env : CharEnv) (s : Str) (idx : Nat) (g : Bool) (rs : List Rx) (i : Nat) (caps : Caps) :
    runsSeq env s (.group idx (.rep 2 (some 2) g (.set false [.range 48 57] false)) :: rs) i caps =
      if two (s.drop i) = true then runsSeq env s rs (i + 2) (setCap idx i (i + 2) caps) else [] := by
  rw [runsSeq_group_exact (isChar_digit env s)]
  simp only [two_le_span]

/-! ### `splitAt1` against `takeWhile` / `dropWhile` -/

/-- Read the leading digits `y`, require the separator `c` next, and continue with `f y rest`. -/
def afterDigits {α : Type} (c : Nat) (f : Str → Str → Option α) (s : Str) : Option α :=
  match s.dropWhile isDigit with
  | x :: r => if x = c then f (s.takeWhile isDigit) r else none
  | [] => none

theorem afterDigits_nil {α : Type} (c : Nat) (f : Str → Str → Option α) : afterDigits c f [] = none := rfl

theorem afterDigits_cons {α : Type} (c : Nat) (f : Str → Str → Option α) (x : Nat) (s : Str) :
    afterDigits c f (x :: s) =
      if isDigit x = true then afterDigits c (fun y r => f (x :: y) r) s
      else if x = c then f [] s else none := by
  unfold afterDigits
  by_cases hx : isDigit x = true
  · simp [List.dropWhile_cons, List.takeWhile_cons, hx]
  · simp [List.dropWhile_cons, List.takeWhile_cons, hx]

theorem afterDigits_none {α : Type} (c : Nat) (s : Str) :
    afterDigits (α := α) c (fun _ _ => none) s = none := by
  unfold afterDigits
  split
  · split <;> rfl
  · rfl

/-- Splitting at a separator that is not a digit, when the part before it must be all digits. -/
theorem splitAt1_digits {α : Type} (c : Nat) (hc : isDigit c = false) (f : Str → Str → Option α) :
    ∀ s : Str, ((splitAt1 c s).bind fun p => if p.1.all isDigit = true then f p.1 p.2 else none) =
      afterDigits c f s
  | [] => rfl
  | x :: s => by
    rw [splitAt1, afterDigits_cons]
    by_cases hx : x = c
    · subst hx
      simp [hc]
    · have hx' : (x == c) = false := by simpa using hx
      rw [hx']
      simp only [Bool.false_eq_true, if_false]
      by_cases hd : isDigit x = true
      · have ih := splitAt1_digits c hc (fun y r => f (x :: y) r) s
        simp only [hd, if_true]
        rw [← ih]
        cases splitAt1 c s with
        | none => rfl
        | some p => simp [hd]
      · simp only [hd]
        simp only [Bool.false_eq_true, if_false, hx]
        cases splitAt1 c s with
        | none => rfl
        | some p => simp [hd]

/-! ### Linear patterns of literals and two-digit groups, up to the end of the input -/

/-- A piece of a linear pattern: a literal character or a capturing group of exactly two digits. -/
inductive Piece where
  | lit (c : Nat)
  | two (idx : Nat)
  deriving DecidableEq, Repr

/-- The regular expression of a piece, as `sre` compiles it. -/
def Piece.rx : Piece → Rx
  | .lit c => .lit c false
  | .two k => .group k (.rep 2 (some 2) true (.set false [.range 48 57] false))

/-- The group numbers of a pattern. -/
def keys : List Piece → List Nat
  | [] => []
  | .lit _ :: ps => keys ps
  | .two k :: ps => k :: keys ps

/-- Scanner for a linear pattern that must consume the whole of `t`: the texts of the groups. -/
def scan : List Piece → Str → Option (List (Nat × Str))
  | [], t => if t = [] then some [] else none
  | .lit c :: ps, t =>
    match t with
    | x :: t' => if x = c then scan ps t' else none
    | [] => none
  | .two k :: ps, t =>
    match t with
    | a :: b :: t' => if (isDigit a && isDigit b) = true then (scan ps t').map ((k, [a, b]) :: ·) else none
    | _ => none

/-- The text of group `k` in a scan result. -/
def get (g : List (Nat × Str)) (k : Nat) : Str := (g.lookup k).getD []

/-- The captures after the engine has run a pattern from position `i`. -/
def capsOf : List Piece → Nat → Caps → Caps
  | [], _, caps => caps
  | .lit _ :: ps, i, caps => capsOf ps (i + 1) caps
  | .two k :: ps, i, caps => capsOf ps (i + 2) (setCap k i (i + 2) caps)

theorem drop_cons_facts {s t : Str} {i x : Nat} (h : s.drop i = x :: t) :
    i + 1 ≤ s.length ∧ s.drop (i + 1) = t := by
  constructor
  · have := congrArg List.length h
    simp only [List.length_drop, List.length_cons] at this
    omega
  · rw [drop_add_of h 1]; rfl

/-- The engine on a linear pattern followed by `\Z`. -/
theorem runs_pieces (env : CharEnv) (s : Str) : ∀ (ps : List Piece) (i : Nat) (caps : Caps), i ≤ s.length →
    runsSeq env s (ps.map Piece.rx ++ [.eos]) i caps =
      if (scan ps (s.drop i)).isSome = true then [(s.length, capsOf ps i caps)] else []
  | [], i, caps, hi => by
    simp only [List.map_nil, List.nil_append, runsSeq_eos, scan, capsOf]
    by_cases h : i = s.length
    · subst h; simp
    · have : s.drop i ≠ [] := by
        intro h'; rw [List.drop_eq_nil_iff] at h'; omega
      simp [h, this]
  | .lit c :: ps, i, caps, hi => by
    simp only [List.map_cons, List.cons_append, Piece.rx, runsSeq_lit, scan, capsOf]
    cases hd : s.drop i with
    | nil => simp
    | cons x t =>
      obtain ⟨h1, h2⟩ := drop_cons_facts hd
      by_cases hx : x = c
      · simp only [hx, if_true]
        rw [runs_pieces env s ps (i + 1) caps h1, h2]
      · simp [hx]
  | .two k :: ps, i, caps, hi => by
    simp only [List.map_cons, List.cons_append, Piece.rx, runsSeq_g2, scan, capsOf]
    rcases hd : s.drop i with _ | ⟨a, _ | ⟨b, t⟩⟩
    · simp [two]
    · simp [two]
    · obtain ⟨h1, h2⟩ := drop_cons_facts hd
      obtain ⟨h3, h4⟩ := drop_cons_facts h2
      by_cases hab : (isDigit a && isDigit b) = true
      · simp only [two, hab, if_true]
        rw [runs_pieces env s ps (i + 2) _ h3, h4]
        simp
      · simp [two, hab]

theorem scan_keys : ∀ (ps : List Piece) (t : Str) (g : List (Nat × Str)),
    scan ps t = some g → g.map Prod.fst = keys ps
  | [], t, g, h => by
    simp only [scan] at h
    split at h
    · cases h; rfl
    · cases h
  | .lit c :: ps, t, g, h => by
    simp only [scan] at h
    split at h
    · split at h
      · exact scan_keys ps _ g h
      · cases h
    · cases h
  | .two k :: ps, t, g, h => by
    simp only [scan] at h
    split at h
    · split at h
      · rw [Option.map_eq_some_iff] at h
        obtain ⟨g', hg', rfl⟩ := h
        simp [keys, scan_keys ps _ g' hg']
      · cases h
    · cases h

theorem lookup_none_of_keys {g : List (Nat × Str)} {k : Nat} (h : k ∉ g.map Prod.fst) :
    g.lookup k = none := by
  induction g with
  | nil => rfl
  | cons e g ih =>
    obtain ⟨k', u⟩ := e
    simp only [List.map_cons, List.mem_cons, not_or] at h
    have : (k == k') = false := by simpa using h.1
    simp only [List.lookup_cons, this]
    exact ih h.2

theorem grp_setCap_self (s : Str) (idx a b : Nat) (c : Caps) :
    grp s (setCap idx a b c) idx = (s.drop a).take (b - a) := by
  unfold grp; rw [capSpan_setCap_self]

theorem grp_setCap_ne (s : Str) {idx idx' : Nat} (a b : Nat) (c : Caps) (h : idx' ≠ idx) :
    grp s (setCap idx' a b c) idx = grp s c idx := by
  unfold grp; rw [capSpan_setCap_ne _ h]

/-- The groups after the engine has run a linear pattern: the scanned texts. -/
theorem grp_capsOf (s : Str) : ∀ (ps : List Piece) (i : Nat) (caps : Caps) (g : List (Nat × Str)),
    scan ps (s.drop i) = some g → (keys ps).Nodup → ∀ k,
      grp s (capsOf ps i caps) k = (g.lookup k).getD (grp s caps k)
  | [], i, caps, g, h, _, k => by
    simp only [scan] at h
    split at h
    · cases h; rfl
    · cases h
  | .lit c :: ps, i, caps, g, h, hn, k => by
    simp only [scan] at h
    split at h
    · rename_i x t' hd
      obtain ⟨-, h2⟩ := drop_cons_facts hd
      split at h
      · rw [← h2] at h
        exact grp_capsOf s ps (i + 1) caps g h hn k
      · cases h
    · cases h
  | .two idx :: ps, i, caps, g, h, hn, k => by
    simp only [scan] at h
    split at h
    · rename_i a b t' hd
      obtain ⟨-, h2⟩ := drop_cons_facts hd
      obtain ⟨-, h4⟩ := drop_cons_facts h2
      split at h
      · rw [Option.map_eq_some_iff] at h
        obtain ⟨g', hg', rfl⟩ := h
        rw [← h4] at hg'
        simp only [keys, List.nodup_cons] at hn
        have ih := grp_capsOf s ps (i + 2) (setCap idx i (i + 2) caps) g' hg' hn.2 k
        simp only [capsOf]
        rw [ih]
        by_cases hk : k = idx
        · subst hk
          have hnone : g'.lookup k = none :=
            lookup_none_of_keys (by rw [scan_keys ps _ g' hg']; exact hn.1)
          rw [hnone, grp_setCap_self, hd]
          simp
        · have : (k == idx) = false := by simpa using hk
          rw [List.lookup_cons, this, grp_setCap_ne s _ _ _ (Ne.symm hk)]
      · cases h
    · cases h

/-- A single two-digit group. -/
theorem scan_two_single (k : Nat) (u : Str) :
    scan [.two k] u = if is2 u = true then some [(k, u)] else none := by
  rcases u with _ | ⟨a, _ | ⟨b, _ | ⟨c, t⟩⟩⟩
  · simp [scan, is2]
  · simp [scan, is2]
  · by_cases ha : isDigit a = true <;> by_cases hb : isDigit b = true <;> simp [scan, is2, ha, hb]
  · simp [scan, is2]

/-- Splitting at the first occurrence of a non-digit literal that does not occur earlier in the pattern. -/
theorem scan_split (c : Nat) (hc : isDigit c = false) (ps2 : List Piece) :
    ∀ (ps1 : List Piece), (∀ p ∈ ps1, p ≠ .lit c) → ∀ t : Str,
      scan (ps1 ++ .lit c :: ps2) t =
        (splitAt1 c t).bind fun p => (scan ps1 p.1).bind fun g1 => (scan ps2 p.2).map (g1 ++ ·)
  | [], _, t => by
    rcases t with _ | ⟨x, t⟩
    · simp [scan, splitAt1]
    · by_cases hx : x = c
      · subst hx
        simp [scan, splitAt1]
      · have hx' : (x == c) = false := by simpa using hx
        simp only [List.nil_append, scan, splitAt1, hx, hx', if_false]
        cases splitAt1 c t <;> simp [scan]
  | .lit d :: ps1, hno, t => by
    have hd : d ≠ c := by
      intro h; exact hno (.lit d) (by simp) (by rw [h])
    have ih := scan_split c hc ps2 ps1 (fun p hp => hno p (by simp [hp]))
    rcases t with _ | ⟨x, t⟩
    · simp [scan, splitAt1]
    · by_cases hx : x = c
      · subst hx
        simp [scan, splitAt1, Ne.symm hd]
      · have hx' : (x == c) = false := by simpa using hx
        simp only [List.cons_append, scan, splitAt1, hx', if_false]
        rw [ih t]
        cases splitAt1 c t with
        | none => simp
        | some q => by_cases hxd : x = d <;> simp [scan, hxd]
  | .two k :: ps1, hno, t => by
    have ih := scan_split c hc ps2 ps1 (fun p hp => hno p (by simp [hp]))
    rcases t with _ | ⟨a, _ | ⟨b, t⟩⟩
    · simp [scan, splitAt1]
    · by_cases ha : a = c <;> simp [scan, splitAt1, ha]
    · by_cases ha : a = c
      · subst ha
        simp [scan, splitAt1, hc]
      · have ha' : (a == c) = false := by simpa using ha
        by_cases hb : b = c
        · subst hb
          simp [scan, splitAt1, ha', hc]
        · have hb' : (b == c) = false := by simpa using hb
          simp only [List.cons_append, scan, splitAt1, ha', hb', if_false]
          rw [ih t]
          cases splitAt1 c t with
          | none => simp
          | some q =>
            by_cases ha2 : isDigit a = true <;> by_cases hb2 : isDigit b = true <;>
              cases h1 : scan ps1 q.1 <;> cases h2 : scan ps2 q.2 <;> simp [scan, ha2, hb2, h1, h2]

/-- Splitting at a non-digit separator commutes with reading the leading digits up to another separator. -/
theorem splitAt1_afterDigits {α β : Type} (c c' : Nat) (hc : isDigit c = false) (hcc : c ≠ c')
    (G : Str → α → Option β) :
    ∀ (s : Str) (F : Str → Str → Option α),
      ((splitAt1 c s).bind fun p => (afterDigits c' F p.1).bind (G p.2)) =
        afterDigits c' (fun y r => (splitAt1 c r).bind fun q => (F y q.1).bind (G q.2)) s
  | [], F => by simp [splitAt1, afterDigits_nil]
  | x :: s, F => by
    rw [afterDigits_cons, splitAt1]
    by_cases hx : x = c
    · subst hx
      simp [afterDigits_nil, hc, hcc]
    · have hx' : (x == c) = false := by simpa using hx
      simp only [hx', Bool.false_eq_true, if_false]
      by_cases hd : isDigit x = true
      · simp only [hd, if_true]
        rw [← splitAt1_afterDigits c c' hc hcc G s (fun y r => F (x :: y) r)]
        cases splitAt1 c s with
        | none => rfl
        | some p => simp [afterDigits_cons, hd]
      · simp only [hd, if_false]
        by_cases hx2 : x = c'
        · subst hx2
          simp only [if_true]
          cases splitAt1 c s with
          | none => rfl
          | some p => simp [afterDigits_cons, hd]
        · simp only [hx2, if_false]
          cases splitAt1 c s with
          | none => rfl
          | some p => simp [afterDigits_cons, hd, hx2]

/-! ### Flattening sequences -/

theorem runsSeq_append (env : CharEnv) (s : Str) : ∀ (A K : List Rx) (i : Nat) (c : Caps),
    runsSeq env s (A ++ K) i c = (runsSeq env s A i c).flatMap fun x => runsSeq env s K x.1 x.2
  | [], K, i, c => by simp [runsSeq_nil]
  | r :: A, K, i, c => by
    rw [List.cons_append, runsSeq_cons, runsSeq_cons, List.flatMap_assoc]
    congr 1
    funext x
    exact runsSeq_append env s A K x.1 x.2

theorem runsSeq_seq (env : CharEnv) (s : Str) (A K : List Rx) (i : Nat) (c : Caps) :
    runsSeq env s (.seq A :: K) i c = runsSeq env s (A ++ K) i c := by
  rw [runsSeq_cons, runs_seq, runsSeq_append]

theorem runsSeq_alt2 (env : CharEnv) (s : Str) (A B : Rx) (K : List Rx) (i : Nat) (c : Caps) :
    runsSeq env s (.alt [A, B] :: K) i c = runsSeq env s (A :: K) i c ++ runsSeq env s (B :: K) i c := by
  rw [runsSeq_cons, runs_alt, runsAlt_cons, runsAlt_cons, runsAlt_nil, List.append_nil,
    List.flatMap_append, runsSeq_cons, runsSeq_cons]

theorem runsSeq_opt (env : CharEnv) (s : Str) (r : Rx) (K : List Rx) (i : Nat) (c : Caps) :
    runsSeq env s (.rep 0 (some 1) true r :: K) i c = runsSeq env s (r :: K) i c ++ runsSeq env s K i c := by
  rw [runsSeq_cons, runs_opt, List.flatMap_append, runsSeq_cons]
  simp

theorem runsSeq_group (env : CharEnv) (s : Str) (k : Nat) (r : Rx) (K : List Rx) (i : Nat) (c : Caps) :
    runsSeq env s (.group k r :: K) i c =
      (runs env s r i c).flatMap fun x => runsSeq env s K x.1 (setCap k i x.1 x.2) := by
  rw [runsSeq_cons, runs_group', List.flatMap_map]

theorem runsSeq_char_cons {env : CharEnv} {s : Str} {r : Rx} {P : Nat → Bool} (h : IsChar env s r P)
    (rs : List Rx) {i x : Nat} {t : Str} (c : Caps) (hd : s.drop i = x :: t) :
    runsSeq env s (r :: rs) i c = if P x = true then runsSeq env s rs (i + 1) c else [] := by
  rw [runsSeq_char h, getElem?_eq_head_drop, hd]
  rfl

theorem runsSeq_char_nil {env : CharEnv} {s : Str} {r : Rx} {P : Nat → Bool} (h : IsChar env s r P)
    (rs : List Rx) {i : Nat} (c : Caps) (hd : s.drop i = []) :
    runsSeq env s (r :: rs) i c = [] := by
  rw [runsSeq_char h, getElem?_eq_head_drop, hd]
  rfl

theorem getElem?_of_drop {s t : Str} {i x : Nat} (hd : s.drop i = x :: t) : s[i]? = some x := by
  rw [getElem?_eq_head_drop, hd]; rfl

theorem drop_of_getElem? {s : Str} {i x : Nat} (h : s[i]? = some x) : ∃ t, s.drop i = x :: t := by
  rw [getElem?_eq_head_drop] at h
  cases hd : s.drop i with
  | nil => rw [hd] at h; cases h
  | cons y t => rw [hd] at h; cases h; exact ⟨t, rfl⟩

theorem takeWhile_length_eq_iff (P : Nat → Bool) : ∀ t : Str,
    (t.takeWhile P).length = t.length ↔ t.all P = true
  | [] => by simp
  | x :: t => by
    by_cases hx : P x = true
    · simp [List.takeWhile_cons, hx, takeWhile_length_eq_iff P t]
    · simp [List.takeWhile_cons, hx]

end RefineInputs
end SoupVerif
