/-
  Value lists `VALUE (WSC* , WSC* VALUE)*` of `:lang(…)`, `:contains(…)`, `:-soup-contains(…)`,
  `:-soup-contains-own(…)`: the spelled syntax, the tokens `pseudo_lang` / `pseudo_contains` (one regular
  expression, reached through the `special` slot) on it, and `RE_VALUES.finditer` (`Parser.parseValues`,
  which runs the engine on the regenerated `Gen.cp_RE_VALUES`) on the text of the `values` group.
-/
import SoupVerif.Refine.Compile2AttrStep
namespace SoupVerif
namespace Refine
namespace Compile
open Rx RxBasic SoupVerif.Parser ParserProgress Escape Spelling
open Wsc (gapRx unitEnd wsEnd commentEnd gapEnd)
open Ident (rxHead rxStar contStep contLen single IdentFold)
open C09Compile (SValue identOK)

/-! ### Spelled value lists -/

/-- `value (gap , gap value)*` -/
structure SValues where
  first : SValue
  rest : List (Str × Str × SValue)

def renderVRest : List (Str × Str × SValue) → Str
  | [] => []
  | x :: rest => x.1 ++ 44 :: (x.2.1 ++ (x.2.2.render ++ renderVRest rest))

def SValues.render (V : SValues) : Str := V.first.render ++ renderVRest V.rest

def vrestValues : List (Str × Str × SValue) → List Str
  | [] => []
  | x :: rest => x.2.2.value :: vrestValues rest

/-- The values: the unescaped texts. -/
def SValues.values (V : SValues) : List Str := V.first.value :: vrestValues V.rest

def vrestOK : List (Str × Str × SValue) → Str → Prop
  | [], _ => True
  | x :: rest, r => isGap x.1 ∧ isGap x.2.1 ∧ x.2.2.ok (renderVRest rest ++ r) ∧ vrestOK rest r

/-- Admissible in front of the text `r`. -/
def SValues.ok (V : SValues) (r : Str) : Prop := V.first.ok (renderVRest V.rest ++ r) ∧ vrestOK V.rest r

/-! ### Admissibility depends on the first character of the context only -/

theorem validForms_head (f : List (Nat × EscForm)) (r r' : Str) (h : r.head? = r'.head?) :
    validForms f r = validForms f r' := by
  induction f with
  | nil => rfl
  | cons p rest ih =>
    obtain ⟨c, fm⟩ := p
    rw [SpellingLemmas.validForms_cons, SpellingLemmas.validForms_cons, ih]
    congr 2
    cases hr : renderIdentWith rest with
    | nil => simpa using h
    | cons y ys => simp

theorem continuesIdent_head (r r' : Str) (h : r.head? = r'.head?) : continuesIdent r = continuesIdent r' := by
  cases r <;> cases r' <;> simp [continuesIdent] at h ⊢
  subst h; rfl

theorem svalue_ok_head (v : SValue) (r r' : Str) (h : r.head? = r'.head?) (hok : v.ok r) : v.ok r' := by
  cases v with
  | ident f =>
    obtain ⟨⟨hv, hh, hcp⟩, hr⟩ := hok
    exact ⟨⟨by rw [← validForms_head f r r' h]; exact hv, hh, hcp⟩, by rw [← continuesIdent_head r r' h]; exact hr⟩
  | str q ps => exact hok

theorem svalue_ok_nil (v : SValue) (r : Str) (hok : v.ok r) : v.ok [] := by
  cases v with
  | ident f =>
    obtain ⟨⟨hv, hh, hcp⟩, _⟩ := hok
    exact ⟨⟨SpellingLemmas.validForms_nil_of f r hv, hh, hcp⟩, by simp [continuesIdent]⟩
  | str q ps => exact hok

theorem renderVRest_head (rest : List (Str × Str × SValue)) (hne : rest ≠ []) (r : Str) :
    (renderVRest rest ++ r).head? = (renderVRest rest ++ []).head? := by
  cases rest with
  | nil => exact absurd rfl hne
  | cons x rest =>
    cases hx : x.1 with
    | nil => simp [renderVRest, hx]
    | cons y ys => simp [renderVRest, hx]

theorem svalue_ok_ctx (v : SValue) (rest : List (Str × Str × SValue)) (r : Str)
    (hok : v.ok (renderVRest rest ++ r)) : v.ok (renderVRest rest ++ []) := by
  by_cases hne : rest = []
  · subst hne; exact svalue_ok_nil v _ hok
  · exact svalue_ok_head v _ _ (renderVRest_head rest hne r) hok

theorem vrestOK_nil : ∀ (rest : List (Str × Str × SValue)) (r : Str), vrestOK rest r → vrestOK rest []
  | [], _, _ => trivial
  | x :: rest, r, h => ⟨h.1, h.2.1, svalue_ok_ctx x.2.2 rest r h.2.2.1, vrestOK_nil rest r h.2.2.2⟩

theorem SValues.ok_nil (V : SValues) (r : Str) (h : V.ok r) : V.ok [] :=
  ⟨svalue_ok_ctx V.first V.rest r h.1, vrestOK_nil V.rest r h.2⟩

/-! ### The token -/

def vSep : Rx := .seq [gapRx true, .lit 44 true, gapRx true]
def vBody : Rx := .seq [gapRx true, .lit 44 true, gapRx true, rxValue]
def rxValues : Rx := .group 3 (.seq [rxValue, .rep 0 none true vBody])

theorem tok_lang_shape :
    Gen.tok_pseudo_lang = .seq [.group 1 rxColonIdent, rxOpen, rxValues, gapRx true, .lit 41 true] := rfl
theorem tok_contains_shape :
    Gen.tok_pseudo_contains = .seq [.group 1 rxColonIdent, rxOpen, rxValues, gapRx true, .lit 41 true] := rfl
theorem re_values_shape : Gen.cp_RE_VALUES = .alt [.group 1 rxValue, .group 2 vSep] := rfl

section
variable (s : Str)

theorem unit_start_ne {j x : Nat} (h : (unitEnd s j).isSome = true) (hx : isCssWs x = false ∧ x ≠ 47) :
    s[j]? ≠ some x := by
  obtain ⟨y, hy, h'⟩ := unit_start_char h
  rw [hy]
  intro e; cases e
  rcases h' with h' | h'
  · rw [hx.1] at h'; cases h'
  · exact hx.2 h'

theorem fail_lit44 (rs : List Rx) (j : Nat) (c : Caps) (h : (unitEnd s j).isSome = true) :
    runsSeq pyFoldEnv s (.lit 44 true :: rs) j c = [] :=
  lit_fail Ident.identFold_py s 44 (by omega) rs j c (unit_start_ne s h (by decide))

theorem fail_value_bare (j : Nat) (c : Caps) (h : (unitEnd s j).isSome = true) :
    runsSeq pyFoldEnv s [rxValue] j c = [] := by
  rw [Wsc.runsSeq_single]
  exact value_runs_nil s j c ⟨unit_start_ne s h (by decide), unit_start_ne s h (by decide)⟩
    (scanIdent_none_at_unit s h)

theorem svalue_head (v : SValue) (t : Str) (hok : v.ok t) :
    ∃ x xs, v.render = x :: xs ∧ isCssWs x = false ∧ x ≠ 47 ∧ x ≠ 44 ∧ x ≠ 41 := by
  cases v with
  | ident f =>
    obtain ⟨x, xs, hxs, hx⟩ := headOk_first f hok.1.2.1
    refine ⟨x, xs, hxs, ?_⟩
    rcases hx with h | h | h
    · subst h; decide
    · subst h; decide
    · simp only [identStartChar, Bool.or_eq_true, Bool.and_eq_true, decide_eq_true_eq, beq_iff_eq] at h
      refine ⟨by simp [isCssWs]; omega, by omega, by omega, by omega⟩
  | str q ps =>
    refine ⟨q, renderStrWith ps ++ [q], rfl, ?_⟩
    rcases hok.1 with h | h <;> subst h <;> decide

/-- One more `, value`: the first run of the loop body. -/
theorem vbody_head {p : Nat} {gl gr T : Str} {v : SValue} (c : Caps)
    (hd : s.drop p = gl ++ 44 :: (gr ++ (v.render ++ T))) (hgl : isGap gl) (hgr : isGap gr) (hv : v.ok T) :
    (runs pyFoldEnv s vBody p c).head? = some (p + gl.length + 1 + gr.length + v.render.length, c) := by
  have hpl : p ≤ s.length := le_of_drop_append (a := gl ++ [44]) (r := gr ++ (v.render ++ T))
    (by rw [hd]; simp) (Or.inl (by simp))
  have hdc := drop_add_of_drop_append hd
  have h44 := getElem?_of_drop_cons hdc
  have hdr : s.drop (p + gl.length + 1) = gr ++ (v.render ++ T) := Ident.drop_succ_of_drop_cons hdc
  have hdv := drop_add_of_drop_append hdr
  have hcl := lt_of_drop_cons hdc
  unfold vBody
  rw [runs_seq,
    gap_then_drop Wsc.caseFree_pyFold s p gl _ c _ hd hgl (by simp [noGapStart, isCssWs]) hpl
      (fun j c' hj => fail_lit44 s _ j c' hj),
    lit_ok pyFoldEnv s 44 _ _ c h44,
    gap_then_drop Wsc.caseFree_pyFold s _ gr _ c _ hdr hgr (v.render_noGap _ _ hv) (by omega)
      (fun j c' hj => fail_value_bare s j c' hj),
    Wsc.runsSeq_single]
  exact (SValue.facts s v T hv).1 _ c hdv

/-- At the end of the list (gap, `)`) the loop body fails. -/
theorem vbody_nil {p : Nat} {g R : Str} (c : Caps) (hd : s.drop p = g ++ 41 :: R) (hg : isGap g) :
    runs pyFoldEnv s vBody p c = [] := by
  have hpl : p ≤ s.length := le_of_drop_append (a := g ++ [41]) (r := R) (by rw [hd]; simp) (Or.inl (by simp))
  unfold vBody
  rw [runs_seq,
    gap_then_drop Wsc.caseFree_pyFold s p g _ c _ hd hg (by simp [noGapStart, isCssWs]) hpl
      (fun j c' hj => fail_lit44 s _ j c' hj)]
  exact lit_fail Ident.identFold_py s 44 (by omega) _ _ c
    (by rw [getElem?_of_drop_cons (drop_add_of_drop_append hd)]; simp)

theorem vrest_length_pos (x : Str × Str × SValue) (rest : List (Str × Str × SValue)) :
    1 ≤ (renderVRest (x :: rest)).length := by
  simp [renderVRest]; omega

/-- The greedy loop `(?:WSC*,WSC*VALUE)*` on the spelled rest of the list: its first run takes it all. -/
theorem viter_head : ∀ (rest : List (Str × Str × SValue)) (fuel count p : Nat) (c : Caps) (g R : Str),
    s.length - p + 2 ≤ fuel → s.drop p = renderVRest rest ++ (g ++ 41 :: R) → vrestOK rest (g ++ 41 :: R) →
    isGap g →
    (iter (fun p c => runs pyFoldEnv s vBody p c) 0 none true fuel count p c).head? =
      some (p + (renderVRest rest).length, c)
  | [], fuel, count, p, c, g, R, hf, hd, _, hg => by
    obtain ⟨k, rfl⟩ : ∃ k, fuel = k + 1 := ⟨fuel - 1, by omega⟩
    rw [iter_succ]
    simp only [if_true, RxBasic.canMore, Nat.zero_le, ge_iff_le]
    rw [vbody_nil s c (by simpa [renderVRest] using hd) hg]
    simp [renderVRest]
  | x :: rest, fuel, count, p, c, g, R, hf, hd, hok, hg => by
    obtain ⟨k, rfl⟩ : ∃ k, fuel = k + 1 := ⟨fuel - 1, by omega⟩
    obtain ⟨hgl, hgr, hv, hrest⟩ := hok
    simp only [renderVRest, List.append_assoc, List.cons_append] at hd
    have hb := vbody_head s c hd hgl hgr hv
    have hpl : p < s.length := by
      have := lt_of_drop_cons (drop_add_of_drop_append hd); omega
    have hd' : s.drop (p + x.1.length + 1 + x.2.1.length + x.2.2.render.length) =
        renderVRest rest ++ (g ++ 41 :: R) :=
      drop_add_of_drop_append (drop_add_of_drop_append
        (Ident.drop_succ_of_drop_cons (drop_add_of_drop_append hd)))
    have ih := viter_head rest k (count + 1) (p + x.1.length + 1 + x.2.1.length + x.2.2.render.length)
      c g R (by omega) hd' hrest hg
    rw [iter_succ]
    simp only [if_true, RxBasic.canMore, Nat.zero_le, ge_iff_le]
    apply Ident.head?_append_of_some
    cases hr : runs pyFoldEnv s vBody p c with
    | nil => rw [hr] at hb; cases hb
    | cons y ys =>
      rw [hr] at hb
      simp only [List.head?_cons, Option.some.injEq] at hb
      subst hb
      apply head?_flatMap_cons
      have : (decide (p + x.1.length + 1 + x.2.1.length + x.2.2.render.length > p) ||
          decide (count + 1 < 0)) = true := by simp; omega
      simp only [this, if_true]
      rw [ih]
      simp [renderVRest]; omega

/-- The `values` group on a spelled value list followed by gap and `)`. -/
theorem values_head {p : Nat} (V : SValues) {g R : Str} (c : Caps) (rs : List Rx) (b : Nat × Caps)
    (hd : s.drop p = V.render ++ (g ++ 41 :: R)) (hok : V.ok (g ++ 41 :: R)) (hg : isGap g)
    (hk : (runsSeq pyFoldEnv s rs (p + V.render.length)
      ((3, p, p + V.render.length) :: c.filter (fun e => e.1 != 3))).head? = some b) :
    (runsSeq pyFoldEnv s (rxValues :: rs) p c).head? = some b := by
  obtain ⟨hfirst, hrest⟩ := hok
  simp only [SValues.render, List.append_assoc] at hd
  have hdr := drop_add_of_drop_append hd
  obtain ⟨x, xs, hx, _⟩ := svalue_head V.first _ hfirst
  have hpl : p < s.length := lt_of_drop_cons (s := s) (p := p) (by rw [hd, hx]; rfl)
  have h1 := (SValue.facts s V.first _ hfirst).1 p c hd
  unfold rxValues
  rw [runsSeq_group_cons, runs_seq, runsSeq_cons]
  cases hr : runs pyFoldEnv s rxValue p c with
  | nil => rw [hr] at h1; cases h1
  | cons y ys =>
    rw [hr] at h1
    simp only [List.head?_cons, Option.some.injEq] at h1
    subst h1
    rw [List.flatMap_cons, List.flatMap_append]
    apply Ident.head?_append_of_some
    rw [Wsc.runsSeq_single, runs]
    have h2 := viter_head s V.rest (s.length - (p + V.first.render.length) + 0 + 2) 0
      (p + V.first.render.length) c g R (by omega) hdr hrest hg
    cases hi : iter (fun p c => runs pyFoldEnv s vBody p c) 0 none true
        (s.length - (p + V.first.render.length) + 0 + 2) 0 (p + V.first.render.length) c with
    | nil => rw [hi] at h2; cases h2
    | cons z zs =>
      rw [hi] at h2
      simp only [List.head?_cons, Option.some.injEq] at h2
      subst h2
      apply head?_flatMap_cons
      have e : p + V.first.render.length + (renderVRest V.rest).length = p + V.render.length := by
        simp [SValues.render]; omega
      simp only [e]
      exact hk

/-- The token `pseudo_lang` / `pseudo_contains` (same expression) on `:name( gap values gap )`. -/
theorem values_matchAt {i : Nat} {forms : List (Nat × EscForm)} {g₁ g₂ R : Str} (V : SValues)
    (hd : s.drop i = 58 :: (renderIdentWith forms ++ (40 :: (g₁ ++ (V.render ++ (g₂ ++ 41 :: R))))))
    (hv : validForms forms (40 :: (g₁ ++ (V.render ++ (g₂ ++ 41 :: R)))) = true) (hh : headOk forms = true)
    (hg₁ : isGap g₁) (hg₂ : isGap g₂) (hV : V.ok (g₂ ++ 41 :: R)) :
    matchAt pyFoldEnv Gen.tok_pseudo_lang s i =
      some (i + 1 + (renderIdentWith forms).length + 1 + g₁.length + V.render.length + g₂.length + 1,
        [(3, i + 1 + (renderIdentWith forms).length + 1 + g₁.length,
            i + 1 + (renderIdentWith forms).length + 1 + g₁.length + V.render.length),
         (2, i + 1 + (renderIdentWith forms).length, i + 1 + (renderIdentWith forms).length + 1 + g₁.length),
         (1, i, i + 1 + (renderIdentWith forms).length)]) := by
  have h58 := getElem?_of_drop_cons hd
  have hd1 : s.drop (i + 1) = renderIdentWith forms ++ (40 :: (g₁ ++ (V.render ++ (g₂ ++ 41 :: R)))) :=
    Ident.drop_succ_of_drop_cons hd
  have hde := drop_add_of_drop_append hd1
  have hde1 : s.drop (i + 1 + (renderIdentWith forms).length + 1) = g₁ ++ (V.render ++ (g₂ ++ 41 :: R)) :=
    Ident.drop_succ_of_drop_cons hde
  have hdw := drop_add_of_drop_append hde1
  have hdg := drop_add_of_drop_append hdw
  have hil := lt_of_drop_cons hd
  have hscan := C09.scan_any_spelling_ctx forms _ hv hh (by simp [continuesIdent, identContChar])
  rw [← hd1] at hscan
  have hVng : noGapStart (V.render ++ (g₂ ++ 41 :: R)) = true := by
    simp only [SValues.render, List.append_assoc]
    exact V.first.render_noGap _ _ hV.1
  have hvl : i + 1 + (renderIdentWith forms).length + 1 + g₁.length + V.render.length ≤ s.length := by
    have := lt_of_drop_cons (drop_add_of_drop_append hdg); omega
  rw [tok_lang_shape]
  unfold matchAt
  rw [runs_seq, runsSeq_group_cons, colonIdent_runs s [] h58,
    ident_flatMap Ident.identFold_py s (i + 1) []
      (fun x => runsSeq pyFoldEnv s [rxOpen, rxValues, gapRx true, .lit 41 true] x.1
        ((1, i, x.1) :: x.2.filter (fun e => e.1 != 1)))
      (by omega) (fun j c hj => open_fail_at_unit s _ _ hj), hscan]
  simp only [List.filter_nil]
  apply open_head s _ hde hg₁ hVng
  apply values_head s V _ _ _ hdw hV hg₂
  rw [close41_runs s _ hdg hg₂ hvl]
  rfl

end

end Compile
end Refine
end SoupVerif

#print axioms SoupVerif.Refine.Compile.viter_head
#print axioms SoupVerif.Refine.Compile.values_matchAt
