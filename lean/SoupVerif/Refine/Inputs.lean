/-
  Refinement of the hand-written scanners of `Model/Inputs.lean` (`shapeTime`, `shapeMonth`, `shapeWeek`,
  `shapeDate`, `shapeDateTime`, `shapeNum`) against the regular expressions regenerated from
  `soupsieve/css_match.py` (`Gen.cm_RE_TIME`, `Gen.cm_RE_MONTH`, `Gen.cm_RE_WEEK`, `Gen.cm_RE_DATE`,
  `Gen.cm_RE_DATETIME`, `Gen.cm_RE_NUM`), for every input string and every character environment
  (no case-insensitive item occurs in these expressions).

  Main theorems: `time_refines`, `month_refines`, `week_refines`, `date_refines`, `datetime_refines`
  (engine result with `int(m.group(k), 10)` of the groups = the scanner's result), `num_refines` and
  `num_span` (in `Refine/InputsNum.lean`), and `parseValueRx_eq`: `parse_value` run through the engine
  (groups looked up by name in the generated group tables) equals `Inputs.parseValue`.

  Each proof starts from a shape lemma proved by `rfl` against the explicit term, so an edit of the
  regular expression in the source breaks it.  General lemmas are in `Refine/InputsBase.lean`.
-/
import SoupVerif.Refine.InputsBase
import SoupVerif.Refine.InputsNum
import SoupVerif.Generated.Regexes
set_option linter.unusedSimpArgs false
namespace SoupVerif
namespace RefineInputs
open Rx RxBasic Inputs


/-! ### RE_TIME -/

theorem re_time_shape : Gen.cm_RE_TIME =
    .seq [.bos, .group 1 (.rep 2 (some 2) true dg), .lit 58 false,
          .group 2 (.rep 2 (some 2) true dg), .eos] := rfl

theorem shapeTime_nf (s : Str) : shapeTime s =
    afterDigits 58 (fun y r => if y.length = 2 ∧ is2 r = true then
          some (digitsVal y, digitsVal r) else none) s := by
  rw [← splitAt1_digits 58 (by decide)]
  unfold shapeTime
  cases splitAt1 58 s with
  | none => rfl
  | some p =>
    obtain ⟨h, m⟩ := p
    show (if (is2 h && is2 m) = true then some (digitsVal h, digitsVal m) else none) = _
    simp only [Option.bind_some]
    cases h3 : is2 m <;> cases h1 : h.all isDigit <;> by_cases h2 : h.length = 2 <;> simp [is2, h1, h2]

theorem time_refines (env : CharEnv) (s : Str) :
    (matchAt env Gen.cm_RE_TIME s 0).map (fun p => (digitsVal (grp s p.2 1), digitsVal (grp s p.2 2))) =
      shapeTime s := by
  rw [re_time_shape, matchAt, runs_seq, runsSeq_bos, runsSeq_g2, shapeTime_nf]
  rcases s with _ | ⟨a, _ | ⟨b, _ | ⟨c, _ | ⟨d, _ | ⟨e, _ | ⟨f, t⟩⟩⟩⟩⟩⟩
  · simp [two, afterDigits_nil]
  · by_cases ha : isDigit a = true <;> simp [two, ha, afterDigits_cons, afterDigits_nil]
  all_goals
    by_cases ha : isDigit a = true <;> by_cases hb : isDigit b = true <;>
      simp [two, ha, hb, afterDigits_cons, afterDigits_nil, runsSeq_lit, runsSeq_g2, runsSeq_eos, is2]
  · by_cases hc : c = 58
    · subst hc
      by_cases hd : isDigit d = true <;> by_cases he : isDigit e = true <;>
        simp [hd, he, grp, capSpan_setCap_self, capSpan_setCap_ne, (by decide : isDigit 58 = false)]
    · by_cases hc' : isDigit c = true <;> simp [hc, hc']
  · intros; rw [afterDigits_none]

/-! ### The year prefix `^(?P<year>[0-9]{4,})-` -/

theorem cut_lit (env : CharEnv) (s : Str) (ch : Nat) (hch : isDigit ch = false) (rs : List Rx)
    (j x : Nat) (c : Caps) (hx : s[j]? = some x) (hd : isDigit x = true) :
    runsSeq env s (.lit ch false :: rs) j c = [] := by
  rw [runsSeq_char (isChar_lit env s ch false), hx]
  have : x ≠ ch := by rintro rfl; rw [hch] at hd; cases hd
  simp [this]

/-- Facts tying positions after the leading digits to `takeWhile` / `dropWhile`. -/
theorem digits_facts (s : Str) :
    spanLen s isDigit 0 = (s.takeWhile isDigit).length ∧
    s.drop (s.takeWhile isDigit).length = s.dropWhile isDigit ∧
    s.take (s.takeWhile isDigit).length = s.takeWhile isDigit ∧
    s.length = (s.takeWhile isDigit).length + (s.dropWhile isDigit).length := by
  have h1 : spanLen s isDigit 0 = (s.takeWhile isDigit).length := rfl
  have h2 := drop_span s isDigit 0
  have h3 := take_span s isDigit 0
  rw [h1] at h2 h3
  simp only [Nat.zero_add, List.drop_zero] at h2 h3
  refine ⟨h1, h2, h3, ?_⟩
  conv => lhs; rw [← List.takeWhile_append_dropWhile (p := isDigit) (l := s)]
  rw [List.length_append]

theorem year_prefix (env : CharEnv) (s : Str) (rs : List Rx) :
    runsSeq env s (.bos :: .group 1 (.rep 4 none true dg) :: .lit 45 false :: rs) 0 [] =
      if 4 ≤ (s.takeWhile isDigit).length ∧ (s.dropWhile isDigit).head? = some 45 then
        runsSeq env s rs ((s.takeWhile isDigit).length + 1) (setCap 1 0 (s.takeWhile isDigit).length [])
      else [] := by
  obtain ⟨h1, h2, -, -⟩ := digits_facts s
  rw [runsSeq_bos, runsSeq_group_rep_cut (isChar_digit env s) 1 4 _ 0 []
    (fun j x c hx hd => cut_lit env s 45 (by decide) rs j x c hx hd), h1, runsSeq_lit]
  simp only [Nat.zero_add, h2]
  by_cases h4 : 4 ≤ (s.takeWhile isDigit).length
  · cases s.dropWhile isDigit with
    | nil => simp
    | cons x t => by_cases hx : x = 45 <;> simp [h4, hx]
  · simp [h4]

/-! ### RE_MONTH -/

theorem re_month_shape : Gen.cm_RE_MONTH =
    .seq [.bos, .group 1 (.rep 4 none true dg), .lit 45 false,
          .group 2 (.rep 2 (some 2) true dg), .eos] := rfl

theorem shapeMonth_nf (s : Str) : shapeMonth s =
    afterDigits 45 (fun y r => if 4 ≤ y.length ∧ is2 r = true then
          some (digitsVal y, digitsVal r) else none) s := by
  rw [← splitAt1_digits 45 (by decide)]
  unfold shapeMonth
  cases splitAt1 45 s with
  | none => rfl
  | some p =>
    obtain ⟨h, m⟩ := p
    show (if (isYear h && is2 m) = true then some (digitsVal h, digitsVal m) else none) = _
    simp only [Option.bind_some]
    cases h3 : is2 m <;> cases h1 : h.all isDigit <;> by_cases h2 : 4 ≤ h.length <;> simp [isYear, h1, h2]

theorem month_refines (env : CharEnv) (s : Str) :
    (matchAt env Gen.cm_RE_MONTH s 0).map (fun p => (digitsVal (grp s p.2 1), digitsVal (grp s p.2 2))) =
      shapeMonth s := by
  rw [re_month_shape, matchAt, runs_seq, year_prefix, shapeMonth_nf]
  unfold afterDigits
  obtain ⟨-, hd, hy, hl⟩ := digits_facts s
  generalize s.takeWhile isDigit = y at *
  generalize s.dropWhile isDigit = t1 at *
  by_cases h4 : 4 ≤ y.length
  · rcases t1 with _ | ⟨x, _ | ⟨a, _ | ⟨b, _ | ⟨c, t⟩⟩⟩⟩
    · simp
    all_goals
      by_cases hx : x = 45 <;> simp [h4, hx, runsSeq_g2, runsSeq_eos, drop_add_of hd, two, is2]
    · simp only [List.length_cons, List.length_nil] at hl
      have hl' : s.length = y.length + 3 := by omega
      by_cases ha : isDigit a = true <;> by_cases hb : isDigit b = true <;>
        simp [ha, hb, hl', Nat.add_assoc, grp, capSpan_setCap_self, capSpan_setCap_ne, hy, drop_add_of hd]
    · simp only [List.length_cons] at hl
      intros; omega
  · rcases t1 with _ | ⟨x, t⟩ <;> simp [h4]

/-! ### RE_WEEK -/

theorem re_week_shape : Gen.cm_RE_WEEK =
    .seq [.bos, .group 1 (.rep 4 none true dg), .lit 45 false, .lit 87 false,
          .group 2 (.rep 2 (some 2) true dg), .eos] := rfl

/-- The part of `shapeWeek` after the year and the hyphen. -/
def weekTail (y r : Str) : Option (Nat × Nat) :=
  match r with
  | 87 :: w => if 4 ≤ y.length ∧ is2 w = true then some (digitsVal y, digitsVal w) else none
  | _ => none

theorem shapeWeek_nf (s : Str) : shapeWeek s = afterDigits 45 weekTail s := by
  rw [← splitAt1_digits 45 (by decide)]
  unfold shapeWeek
  cases splitAt1 45 s with
  | none => rfl
  | some p =>
    obtain ⟨h, m⟩ := p
    simp only [Option.bind_some]
    show (match m with
      | 87 :: w => if (isYear h && is2 w) = true then some (digitsVal h, digitsVal w) else none
      | _ => none) = _
    rcases m with _ | ⟨w0, w⟩
    · simp [weekTail]
    · by_cases hw : w0 = 87
      · subst hw
        cases h3 : is2 w <;> cases h1 : h.all isDigit <;> by_cases h2 : 4 ≤ h.length <;>
          simp [weekTail, isYear, h1, h2, h3]
      · simp [weekTail, hw]

theorem week_refines (env : CharEnv) (s : Str) :
    (matchAt env Gen.cm_RE_WEEK s 0).map (fun p => (digitsVal (grp s p.2 1), digitsVal (grp s p.2 2))) =
      shapeWeek s := by
  rw [re_week_shape, matchAt, runs_seq, year_prefix, shapeWeek_nf]
  unfold afterDigits
  obtain ⟨-, hd, hy, hl⟩ := digits_facts s
  generalize s.takeWhile isDigit = y at *
  generalize s.dropWhile isDigit = t1 at *
  by_cases h4 : 4 ≤ y.length
  · rcases t1 with _ | ⟨x, _ | ⟨w, _ | ⟨a, _ | ⟨b, _ | ⟨c, t⟩⟩⟩⟩⟩
    · simp
    all_goals
      by_cases hx : x = 45 <;>
        simp [h4, hx, Nat.add_assoc, runsSeq_g2, runsSeq_lit, runsSeq_eos, drop_add_of hd, two, is2, weekTail]
    all_goals by_cases hw : w = 87 <;> simp [hw]
    · simp only [List.length_cons, List.length_nil] at hl
      have hl' : s.length = y.length + 4 := by omega
      by_cases ha : isDigit a = true <;> by_cases hb : isDigit b = true <;>
        simp [ha, hb, hl', Nat.add_assoc, grp, capSpan_setCap_self, capSpan_setCap_ne, hy, drop_add_of hd]
    · simp only [List.length_cons] at hl
      intros; omega
  · rcases t1 with _ | ⟨x, t⟩ <;> simp [h4, weekTail]
    intro; split <;> rfl

/-! ### Year prefix followed by a linear pattern -/

theorem afterDigits_map {α β : Type} (c : Nat) (f : Str → Str → Option α) (h : α → β) (s : Str) :
    (afterDigits c f s).map h = afterDigits c (fun y r => (f y r).map h) s := by
  unfold afterDigits
  split
  · split <;> rfl
  · rfl

/-- `^(?P<year>[0-9]{4,})-` followed by a linear pattern and `\Z`: the texts of all groups. -/
theorem year_pieces (env : CharEnv) (s : Str) (ps : List Piece) (hn : (keys ps).Nodup)
    (h1 : 1 ∉ keys ps) :
    (runsSeq env s (.bos :: .group 1 (.rep 4 none true dg) :: .lit 45 false ::
        (ps.map Piece.rx ++ [.eos])) 0 []).head?.map (fun p k => grp s p.2 k) =
      afterDigits 45 (fun y r => if 4 ≤ y.length then
        (scan ps r).map (fun g k => if k = 1 then y else get g k) else none) s := by
  rw [year_prefix]
  unfold afterDigits
  obtain ⟨-, hd, hy, hl⟩ := digits_facts s
  generalize s.takeWhile isDigit = y at *
  generalize s.dropWhile isDigit = t1 at *
  rcases t1 with _ | ⟨x, r⟩
  · simp
  · obtain ⟨hi, hr⟩ := drop_cons_facts hd
    by_cases hx : x = 45
    · by_cases h4 : 4 ≤ y.length
      · simp only [List.head?_cons, hx, h4, and_self, if_true]
        rw [runs_pieces env s ps _ _ hi, hr]
        cases hsc : scan ps r with
        | none => simp
        | some g =>
          simp only [Option.isSome_some, if_true, List.head?_cons, Option.map_some, Option.some.injEq]
          funext k
          rw [grp_capsOf s ps _ _ g (by rw [hr]; exact hsc) hn k]
          by_cases hk : k = 1
          · subst hk
            rw [lookup_none_of_keys (by rw [scan_keys ps _ g hsc]; exact h1), grp_setCap_self]
            simp [hy]
          · rw [grp_setCap_ne s _ _ _ (Ne.symm hk)]
            simp [hk, get, grp, capSpan]
      · simp [h4]
    · simp [hx]

/-! ### RE_DATE -/

def datePieces : List Piece := [.two 2, .lit 45, .two 3]

theorem re_date_shape : Gen.cm_RE_DATE =
    .seq (.bos :: .group 1 (.rep 4 none true dg) :: .lit 45 false ::
      (datePieces.map Piece.rx ++ [.eos])) := rfl

theorem scan_datePieces (r : Str) : scan datePieces r =
    (splitAt1 45 r).bind fun p => if is2 p.1 = true ∧ is2 p.2 = true then some [(2, p.1), (3, p.2)] else none := by
  have := scan_split 45 (by decide) [.two 3] [.two 2] (by simp) r
  rw [show datePieces = [.two 2] ++ .lit 45 :: [.two 3] from rfl, this]
  cases splitAt1 45 r with
  | none => rfl
  | some p =>
    simp only [Option.bind_some, scan_two_single]
    cases is2 p.1 <;> cases is2 p.2 <;> simp

theorem shapeDate_nf (s : Str) : shapeDate s =
    afterDigits 45 (fun y r => if 4 ≤ y.length then
      (scan datePieces r).map (fun g => (digitsVal y, digitsVal (get g 2), digitsVal (get g 3))) else none) s := by
  rw [← splitAt1_digits 45 (by decide)]
  unfold shapeDate
  cases splitAt1 45 s with
  | none => rfl
  | some p =>
    obtain ⟨y, r⟩ := p
    show ((splitAt1 45 r).bind fun q => if (isYear y && is2 q.1 && is2 q.2) = true then
      some (digitsVal y, digitsVal q.1, digitsVal q.2) else none) = _
    simp only [Option.bind_some, scan_datePieces]
    cases splitAt1 45 r with
    | none => simp
    | some q =>
      obtain ⟨m, d⟩ := q
      show (if (isYear y && is2 m && is2 d) = true then some (digitsVal y, digitsVal m, digitsVal d) else none) = _
      cases h3 : is2 m <;> cases h5 : is2 d <;> cases h1 : y.all isDigit <;> by_cases h2 : 4 ≤ y.length <;>
        simp [isYear, h1, h2, h3, h5, get, List.lookup_cons]

theorem date_refines (env : CharEnv) (s : Str) :
    (matchAt env Gen.cm_RE_DATE s 0).map (fun p =>
        (digitsVal (grp s p.2 1), digitsVal (grp s p.2 2), digitsVal (grp s p.2 3))) =
      shapeDate s := by
  have h := year_pieces env s datePieces (by decide) (by decide)
  have h' := congrArg (Option.map fun φ : Nat → Str => (digitsVal (φ 1), digitsVal (φ 2), digitsVal (φ 3))) h
  rw [Option.map_map, afterDigits_map] at h'
  rw [re_date_shape, matchAt, runs_seq, shapeDate_nf]
  refine h'.trans ?_
  congr 1
  funext y r
  by_cases h4 : 4 ≤ y.length <;> simp [h4, Option.map_map, Function.comp_def]

/-! ### RE_DATETIME -/

def timePieces45 : List Piece := [.two 4, .lit 58, .two 5]

def dtPieces : List Piece := [.two 2, .lit 45, .two 3, .lit 84, .two 4, .lit 58, .two 5]

theorem re_datetime_shape : Gen.cm_RE_DATETIME =
    .seq (.bos :: .group 1 (.rep 4 none true dg) :: .lit 45 false ::
      (dtPieces.map Piece.rx ++ [.eos])) := rfl

theorem scan_timePieces45 (r : Str) : scan timePieces45 r =
    (splitAt1 58 r).bind fun p => if is2 p.1 = true ∧ is2 p.2 = true then some [(4, p.1), (5, p.2)] else none := by
  have := scan_split 58 (by decide) [.two 5] [.two 4] (by simp) r
  rw [show timePieces45 = [.two 4] ++ .lit 58 :: [.two 5] from rfl, this]
  cases splitAt1 58 r with
  | none => rfl
  | some p =>
    simp only [Option.bind_some, scan_two_single]
    cases is2 p.1 <;> cases is2 p.2 <;> simp

theorem scan_dtPieces (r : Str) : scan dtPieces r =
    (splitAt1 84 r).bind fun q => (scan datePieces q.1).bind fun g1 =>
      (scan timePieces45 q.2).map (g1 ++ ·) :=
  scan_split 84 (by decide) timePieces45 datePieces (by decide) r

theorem shapeTime_eq (t : Str) : shapeTime t =
    (splitAt1 58 t).bind fun p => if is2 p.1 = true ∧ is2 p.2 = true then
      some (digitsVal p.1, digitsVal p.2) else none := by
  unfold shapeTime
  cases splitAt1 58 t with
  | none => rfl
  | some p =>
    obtain ⟨h, m⟩ := p
    show (if (is2 h && is2 m) = true then some (digitsVal h, digitsVal m) else none) = _
    cases h1 : is2 h <;> cases h2 : is2 m <;> simp [h1, h2]

theorem shapeDateTime_nf (s : Str) : shapeDateTime s =
    afterDigits 45 (fun y r => if 4 ≤ y.length then
      (scan dtPieces r).map (fun g => (digitsVal y, digitsVal (get g 2), digitsVal (get g 3),
        digitsVal (get g 4), digitsVal (get g 5))) else none) s := by
  unfold shapeDateTime
  show ((splitAt1 84 s).bind fun p => (shapeDate p.1).bind ((fun t (ymd : Nat × Nat × Nat) =>
    (shapeTime t).bind fun hm => some (ymd.1, ymd.2.1, ymd.2.2, hm.1, hm.2)) p.2)) = _
  simp only [shapeDate_nf]
  refine (splitAt1_afterDigits 84 45 (by decide) (by decide) (fun t (ymd : Nat × Nat × Nat) =>
    (shapeTime t).bind fun hm => some (ymd.1, ymd.2.1, ymd.2.2, hm.1, hm.2)) s _).trans ?_
  congr 1
  funext y r
  rw [scan_dtPieces]
  cases splitAt1 84 r with
  | none => by_cases h4 : 4 ≤ y.length <;> simp [h4]
  | some q =>
    obtain ⟨d, t⟩ := q
    simp only [Option.bind_some, shapeTime_eq, scan_datePieces, scan_timePieces45]
    by_cases h4 : 4 ≤ y.length
    · simp only [h4, if_true]
      cases splitAt1 45 d with
      | none => simp
      | some p1 =>
        cases splitAt1 58 t with
        | none =>
          cases e1 : is2 p1.1 <;> cases e2 : is2 p1.2 <;> simp [e1, e2]
        | some p2 =>
          cases e1 : is2 p1.1 <;> cases e2 : is2 p1.2 <;> cases e3 : is2 p2.1 <;> cases e4 : is2 p2.2 <;>
            simp [get, List.lookup_cons, e1, e2, e3, e4]
    · simp [h4]

theorem datetime_refines (env : CharEnv) (s : Str) :
    (matchAt env Gen.cm_RE_DATETIME s 0).map (fun p =>
        (digitsVal (grp s p.2 1), digitsVal (grp s p.2 2), digitsVal (grp s p.2 3),
          digitsVal (grp s p.2 4), digitsVal (grp s p.2 5))) =
      shapeDateTime s := by
  have h := year_pieces env s dtPieces (by decide) (by decide)
  have h' := congrArg (Option.map fun φ : Nat → Str =>
    (digitsVal (φ 1), digitsVal (φ 2), digitsVal (φ 3), digitsVal (φ 4), digitsVal (φ 5))) h
  rw [Option.map_map, afterDigits_map] at h'
  rw [re_datetime_shape, matchAt, runs_seq, shapeDateTime_nf]
  refine h'.trans ?_
  congr 1
  funext y r
  by_cases h4 : 4 ≤ y.length <;> simp [h4, Option.map_map, Function.comp_def]

/-! ### `parse_value` through the engine -/

/-- `m.group(name)` through the generated group table of the regular expression. -/
def named (s : Str) (caps : Caps) (groups : List (String × Nat)) (name : String) : Str :=
  grp s caps ((groups.lookup name).getD 0)

/-- `int(m.group(name), 10)`. -/
def namedInt (s : Str) (caps : Caps) (groups : List (String × Nat)) (name : String) : Nat :=
  digitsVal (named s caps groups name)

/-- `Inputs.parse_value(itype, value)` with the shape step done by the regular-expression engine on the
    regular expressions regenerated from the source (groups looked up by name in the generated group
    tables); `shapeNum` is used only as `float(...)` of the matched text. -/
def parseValueRx (env : CharEnv) (itype value : Str) : Option PVal :=
  if itype == "date".toStr then
    match matchAt env Gen.cm_RE_DATE value 0 with
    | some (_, caps) =>
      let year := namedInt value caps Gen.cm_RE_DATE_groups "year"
      let month := namedInt value caps Gen.cm_RE_DATE_groups "month"
      let day := namedInt value caps Gen.cm_RE_DATE_groups "day"
      if validateYear year && validateMonth month && validateDay year month day then
        some (.ints [year, month, day]) else none
    | none => none
  else if itype == "month".toStr then
    match matchAt env Gen.cm_RE_MONTH value 0 with
    | some (_, caps) =>
      let year := namedInt value caps Gen.cm_RE_MONTH_groups "year"
      let month := namedInt value caps Gen.cm_RE_MONTH_groups "month"
      if validateYear year && validateMonth month then some (.ints [year, month]) else none
    | none => none
  else if itype == "week".toStr then
    match matchAt env Gen.cm_RE_WEEK value 0 with
    | some (_, caps) =>
      let year := namedInt value caps Gen.cm_RE_WEEK_groups "year"
      let week := namedInt value caps Gen.cm_RE_WEEK_groups "week"
      if validateYear year && validateWeek year week then some (.ints [year, week]) else none
    | none => none
  else if itype == "time".toStr then
    match matchAt env Gen.cm_RE_TIME value 0 with
    | some (_, caps) =>
      let hour := namedInt value caps Gen.cm_RE_TIME_groups "hour"
      let minutes := namedInt value caps Gen.cm_RE_TIME_groups "minutes"
      if validateHour hour && validateMinutes minutes then some (.ints [hour, minutes]) else none
    | none => none
  else if itype == "datetime-local".toStr then
    match matchAt env Gen.cm_RE_DATETIME value 0 with
    | some (_, caps) =>
      let year := namedInt value caps Gen.cm_RE_DATETIME_groups "year"
      let month := namedInt value caps Gen.cm_RE_DATETIME_groups "month"
      let day := namedInt value caps Gen.cm_RE_DATETIME_groups "day"
      let hour := namedInt value caps Gen.cm_RE_DATETIME_groups "hour"
      let minutes := namedInt value caps Gen.cm_RE_DATETIME_groups "minutes"
      if validateYear year && validateMonth month && validateDay year month day &&
          validateHour hour && validateMinutes minutes then
        some (.ints [year, month, day, hour, minutes]) else none
    | none => none
  else if itype == "number".toStr || itype == "range".toStr then
    match matchAt env Gen.cm_RE_NUM value 0 with
    | some (_, caps) => shapeNum (named value caps Gen.cm_RE_NUM_groups "value")
    | none => none
  else none

theorem date_groups : Gen.cm_RE_DATE_groups = [("year", 1), ("month", 2), ("day", 3)] := rfl
theorem month_groups : Gen.cm_RE_MONTH_groups = [("year", 1), ("month", 2)] := rfl
theorem week_groups : Gen.cm_RE_WEEK_groups = [("year", 1), ("week", 2)] := rfl
theorem time_groups : Gen.cm_RE_TIME_groups = [("hour", 1), ("minutes", 2)] := rfl
theorem datetime_groups : Gen.cm_RE_DATETIME_groups =
    [("year", 1), ("month", 2), ("day", 3), ("hour", 4), ("minutes", 5)] := rfl
theorem num_groups : Gen.cm_RE_NUM_groups = [("value", 1)] := rfl

theorem parseValueRx_eq (env : CharEnv) (itype value : Str) :
    parseValueRx env itype value = parseValue itype value := by
  unfold parseValueRx parseValue
  split
  · rw [← date_refines env value]
    cases matchAt env Gen.cm_RE_DATE value 0 with
    | none => rfl
    | some p => simp [namedInt, named, date_groups, List.lookup_cons]
  · split
    · rw [← month_refines env value]
      cases matchAt env Gen.cm_RE_MONTH value 0 with
      | none => rfl
      | some p => simp [namedInt, named, month_groups, List.lookup_cons]
    · split
      · rw [← week_refines env value]
        cases matchAt env Gen.cm_RE_WEEK value 0 with
        | none => rfl
        | some p => simp [namedInt, named, week_groups, List.lookup_cons]
      · split
        · rw [← time_refines env value]
          cases matchAt env Gen.cm_RE_TIME value 0 with
          | none => rfl
          | some p => simp [namedInt, named, time_groups, List.lookup_cons]
        · split
          · rw [← datetime_refines env value]
            cases matchAt env Gen.cm_RE_DATETIME value 0 with
            | none => rfl
            | some p => simp [namedInt, named, datetime_groups, List.lookup_cons]
          · split
            · have h1 := num_refines env value
              cases hm : matchAt env Gen.cm_RE_NUM value 0 with
              | none =>
                rw [hm] at h1
                cases hs : shapeNum value with
                | none => rfl
                | some v => rw [hs] at h1; cases h1
              | some p =>
                obtain ⟨e, caps⟩ := p
                obtain ⟨-, -, hg⟩ := num_span env value e caps hm
                simp [named, num_groups, List.lookup_cons, hg]
            · rfl

#print axioms time_refines
#print axioms month_refines
#print axioms week_refines
#print axioms date_refines
#print axioms datetime_refines
#print axioms num_refines
#print axioms num_span
#print axioms parseValueRx_eq

end RefineInputs
end SoupVerif
