/-
  Namespace prefixes, part 2: the `attribute` token on `[ gap ns| name … ]`.  The part of the token after
  the optional prefix is treated for arbitrary captures collected so far (`attr_name_noop`,
  `attr_name_op`: generalisations of the second halves of `attr_matchAt_noop` / `attr_matchAt_op`), then
  the prefix is put in front (`attr_ns_matchAt_noop`, `attr_ns_matchAt_op`).
-/
import SoupVerif.Refine.Compile2Tag
namespace SoupVerif
namespace Refine
namespace Compile
open Rx RxBasic SoupVerif.Parser ParserProgress Escape Spelling
open Wsc (gapRx unitEnd wsEnd commentEnd gapEnd)
open Ident (rxHead rxStar contStep contLen single IdentFold)

section
variable (s : Str)

/-- The part of the token after the name. -/
abbrev attrRest : List Rx := [.rep 0 (some 1) true rxAttrBody, gapRx true, .lit 93 true]

theorem gap_tail_safe {g : Str} (hg : isGap g) (x : Nat) (R : Str)
    (hx : identContChar x = false ∧ x ≠ 92) : ¬ continuesIdent (g ++ x :: R) := by
  cases g with
  | nil => simp [continuesIdent, hx.1, hx.2]
  | cons y ys =>
    rcases gap_head' hg y (by simp) with h | h
    · simp only [isCssWs, Bool.or_eq_true, beq_iff_eq] at h
      rcases h with (((e | e) | e) | e) | e <;> subst e <;> simp [continuesIdent, identContChar]
    · subst h; simp [continuesIdent, identContChar]

/-- `name g4 ]` from the name on, any captures so far. -/
theorem attr_name_noop {a : Nat} {g4 R : Str} {nf : List (Nat × EscForm)} (c0 : Caps)
    (hc0 : c0.filter (fun e => e.1 != 2) = c0)
    (hda : s.drop a = renderIdentWith nf ++ (g4 ++ 93 :: R)) (hg4 : isGap g4)
    (hv : validForms nf (g4 ++ 93 :: R) = true) (hh : headOk nf = true) :
    runsSeq pyFoldEnv s (.group 2 rxIdent :: attrRest) a c0 =
      [(a + (renderIdentWith nf).length + g4.length + 1, (2, a, a + (renderIdentWith nf).length) :: c0)] := by
  have hde := drop_add_of_drop_append hda
  obtain ⟨x, xs, hxs, hx⟩ := headOk_first nf hh
  have hda' : s.drop a = x :: (xs ++ (g4 ++ 93 :: R)) := by rw [hda, hxs]; rfl
  have hal := lt_of_drop_cons hda'
  have hscan := C09.scan_any_spelling_ctx nf _ hv hh (gap_tail_safe hg4 93 R (by decide))
  rw [← hda] at hscan
  have hel : a + (renderIdentWith nf).length ≤ s.length := by
    have := congrArg List.length hda
    rw [List.length_drop, List.length_append] at this
    omega
  have e4 : runsSeq pyFoldEnv s (.group 2 rxIdent :: attrRest) a c0 =
      runsSeq pyFoldEnv s attrRest (a + (renderIdentWith nf).length)
        ((2, a, a + (renderIdentWith nf).length) :: c0) := by
    rw [runsSeq_group_cons,
      ident_flatMap Ident.identFold_py s a c0
        (fun x => runsSeq pyFoldEnv s attrRest x.1 ((2, a, x.1) :: x.2.filter (fun e => e.1 != 2)))
        (by omega) (fun j c hj => fail_after_name s j _ hj),
      hscan]
    simp only [hc0]
  have h1 : runsSeq pyFoldEnv s [rxAttrBody, gapRx true, .lit 93 true]
      (a + (renderIdentWith nf).length) ((2, a, a + (renderIdentWith nf).length) :: c0) = [] := by
    unfold rxAttrBody
    rw [runsSeq_seq_cons]
    show runsSeq pyFoldEnv s (gapRx true :: rxCmp :: _) _ _ = []
    rw [gap_then_drop Wsc.caseFree_pyFold s _ g4 _ _ _ hde hg4 (noGapStart_93 R) hel
      (fun j c hj => fail_cmp s _ j c hj)]
    unfold rxCmp
    apply runsSeq_group_nil
    rw [cmp_runs, getElem?_of_drop_cons (drop_add_of_drop_append hde)]
    simp [isCmp]
  rw [e4]
  show runsSeq pyFoldEnv s [.rep 0 (some 1) true rxAttrBody, gapRx true, .lit 93 true] _ _ = _
  rw [runsSeq_opt_cons, h1, List.nil_append, close_runs s _ hde hg4 hel]

/-- `name g1 op g2 VALUE TAIL` from the name on, any captures so far; generic in the value and in what
    follows it, as `attr_matchAt_op`. -/
theorem attr_name_op {a : Nat} {g1 g2 op T : Str} {nf : List (Nat × EscForm)} (c0 : Caps)
    (hc0 : ∀ k, 2 ≤ k → c0.filter (fun e => e.1 != k) = c0)
    (hda : s.drop a = renderIdentWith nf ++ (g1 ++ (op ++ (g2 ++ T))))
    (hg1 : isGap g1) (hg2 : isGap g2)
    (hop : op = [61] ∨ ∃ x, isCmp x = true ∧ op = [x, 61])
    (hv : validForms nf (g1 ++ (op ++ (g2 ++ T))) = true) (hh : headOk nf = true)
    (hT : noGapStart T = true) (v1 E : Nat) (C : Caps)
    (hval : (runs pyFoldEnv s rxValue
        (a + (renderIdentWith nf).length + g1.length + op.length + g2.length)
        ((3, a + (renderIdentWith nf).length + g1.length,
            a + (renderIdentWith nf).length + g1.length + op.length) ::
         (2, a, a + (renderIdentWith nf).length) :: c0)).head? =
      some (v1,
        ((3, a + (renderIdentWith nf).length + g1.length,
            a + (renderIdentWith nf).length + g1.length + op.length) ::
         (2, a, a + (renderIdentWith nf).length) :: c0)))
    (htail : runsSeq pyFoldEnv s [rxFlagOpt, gapRx true, .lit 93 true] v1
        ((4, a + (renderIdentWith nf).length + g1.length + op.length + g2.length, v1) ::
         (3, a + (renderIdentWith nf).length + g1.length,
            a + (renderIdentWith nf).length + g1.length + op.length) ::
         (2, a, a + (renderIdentWith nf).length) :: c0) = [(E, C)]) :
    (runsSeq pyFoldEnv s (.group 2 rxIdent :: attrRest) a c0).head? = some (E, C) := by
  have hde := drop_add_of_drop_append hda
  have hdb := drop_add_of_drop_append hde
  have hdb' := drop_add_of_drop_append hdb
  have hdv := drop_add_of_drop_append hdb'
  obtain ⟨x, xs, hxs, hx⟩ := headOk_first nf hh
  have hda' : s.drop a = x :: (xs ++ (g1 ++ (op ++ (g2 ++ T)))) := by rw [hda, hxs]; rfl
  have hal := lt_of_drop_cons hda'
  obtain ⟨o, os, hos, ho⟩ : ∃ o os, op = o :: os ∧ (o = 61 ∨ isCmp o = true) := by
    rcases hop with h | ⟨y, hy, h⟩
    · exact ⟨61, [], h, Or.inl rfl⟩
    · exact ⟨y, [61], h, Or.inr hy⟩
  have hosafe : identContChar o = false ∧ o ≠ 92 ∧ isCssWs o = false ∧ o ≠ 47 := by
    rcases ho with h | h
    · subst h; decide
    · simp only [isCmp, Bool.or_eq_true, beq_iff_eq] at h
      rcases h with ((((h | h) | h) | h) | h) | h <;> subst h <;> decide
  have hopng : noGapStart (op ++ (g2 ++ T)) = true := by
    rw [hos]; simp [noGapStart, hosafe.2.2.1, hosafe.2.2.2]
  have htail_safe : ¬ continuesIdent (g1 ++ (op ++ (g2 ++ T))) := by
    rw [hos]; exact gap_tail_safe hg1 o _ ⟨hosafe.1, hosafe.2.1⟩
  have hscan := C09.scan_any_spelling_ctx nf _ hv hh htail_safe
  rw [← hda] at hscan
  have hlen := congrArg List.length hda
  simp only [List.length_drop, List.length_append] at hlen
  have e4 : runsSeq pyFoldEnv s (.group 2 rxIdent :: attrRest) a c0 =
      runsSeq pyFoldEnv s attrRest (a + (renderIdentWith nf).length)
        ((2, a, a + (renderIdentWith nf).length) :: c0) := by
    rw [runsSeq_group_cons,
      ident_flatMap Ident.identFold_py s a c0
        (fun x => runsSeq pyFoldEnv s attrRest x.1 ((2, a, x.1) :: x.2.filter (fun e => e.1 != 2)))
        (by omega) (fun j c hj => fail_after_name s j _ hj),
      hscan]
    simp only [hc0 2 (by omega)]
  have e6 : runsSeq pyFoldEnv s [gapRx true, rxCmp, gapRx true, .group 4 rxValue, rxFlagOpt,
        gapRx true, .lit 93 true] (a + (renderIdentWith nf).length)
        ((2, a, a + (renderIdentWith nf).length) :: c0) =
      runsSeq pyFoldEnv s [rxCmp, gapRx true, .group 4 rxValue, rxFlagOpt, gapRx true, .lit 93 true]
        (a + (renderIdentWith nf).length + g1.length)
        ((2, a, a + (renderIdentWith nf).length) :: c0) :=
    gap_then_drop Wsc.caseFree_pyFold s _ g1 _ _ _ hde hg1 hopng (by omega)
      (fun j c hj => fail_cmp s _ j c hj)
  have hcmp : runs pyFoldEnv s (.seq [.rep 0 (some 1) true cmpSet, .lit 61 true])
      (a + (renderIdentWith nf).length + g1.length)
      ((2, a, a + (renderIdentWith nf).length) :: c0) =
      [(a + (renderIdentWith nf).length + g1.length + op.length,
        ((2, a, a + (renderIdentWith nf).length) :: c0))] := by
    rw [cmp_runs]
    rcases hop with h | ⟨y, hy, h⟩
    · subst h
      rw [getElem?_of_drop_cons (by rw [hdb]; rfl)]
      simp [isCmp]
    · subst h
      have h0 := getElem?_of_drop_cons (s := s) (by rw [hdb]; rfl)
      have h1 : s.drop (a + (renderIdentWith nf).length + g1.length + 1) = 61 :: (g2 ++ T) :=
        Ident.drop_succ_of_drop_cons (by rw [hdb]; rfl)
      rw [h0, getElem?_of_drop_cons h1]
      simp [hy]
  have e7 : runsSeq pyFoldEnv s [rxCmp, gapRx true, .group 4 rxValue, rxFlagOpt, gapRx true, .lit 93 true]
        (a + (renderIdentWith nf).length + g1.length)
        ((2, a, a + (renderIdentWith nf).length) :: c0) =
      runsSeq pyFoldEnv s [gapRx true, .group 4 rxValue, rxFlagOpt, gapRx true, .lit 93 true]
        (a + (renderIdentWith nf).length + g1.length + op.length)
        ((3, a + (renderIdentWith nf).length + g1.length,
            a + (renderIdentWith nf).length + g1.length + op.length) ::
         (2, a, a + (renderIdentWith nf).length) :: c0) := by
    unfold rxCmp
    rw [runsSeq_group_cons, hcmp]
    simp only [List.flatMap_cons, List.flatMap_nil, List.append_nil]
    have : ((2, a, a + (renderIdentWith nf).length) :: c0).filter (fun e => e.1 != 3) =
        (2, a, a + (renderIdentWith nf).length) :: c0 := by
      rw [List.filter_cons_of_pos (by rfl), hc0 3 (by omega)]
    rw [this]
  have e8 : runsSeq pyFoldEnv s [gapRx true, .group 4 rxValue, rxFlagOpt, gapRx true, .lit 93 true]
        (a + (renderIdentWith nf).length + g1.length + op.length)
        ((3, a + (renderIdentWith nf).length + g1.length,
            a + (renderIdentWith nf).length + g1.length + op.length) ::
         (2, a, a + (renderIdentWith nf).length) :: c0) =
      runsSeq pyFoldEnv s [.group 4 rxValue, rxFlagOpt, gapRx true, .lit 93 true]
        (a + (renderIdentWith nf).length + g1.length + op.length + g2.length)
        ((3, a + (renderIdentWith nf).length + g1.length,
            a + (renderIdentWith nf).length + g1.length + op.length) ::
         (2, a, a + (renderIdentWith nf).length) :: c0) :=
    gap_then_drop Wsc.caseFree_pyFold s _ g2 _ _ _ hdb' hg2 hT
      (by have := congrArg List.length hdb'
          simp only [List.length_drop, List.length_append] at this
          rcases Nat.lt_or_ge s.length
            (a + (renderIdentWith nf).length + g1.length + op.length) with h | h
          · exfalso
            have h' := congrArg List.length hdb
            simp only [List.length_drop, List.length_append] at h'
            have : op.length ≥ 1 := by rw [hos]; simp
            omega
          · exact h)
      (fun j c hj => fail_value s _ j c hj)
  have e9 : (runsSeq pyFoldEnv s [.group 4 rxValue, rxFlagOpt, gapRx true, .lit 93 true]
        (a + (renderIdentWith nf).length + g1.length + op.length + g2.length)
        ((3, a + (renderIdentWith nf).length + g1.length,
            a + (renderIdentWith nf).length + g1.length + op.length) ::
         (2, a, a + (renderIdentWith nf).length) :: c0)).head? = some (E, C) := by
    rw [runsSeq_group_cons]
    cases hr : runs pyFoldEnv s rxValue
        (a + (renderIdentWith nf).length + g1.length + op.length + g2.length)
        ((3, a + (renderIdentWith nf).length + g1.length,
            a + (renderIdentWith nf).length + g1.length + op.length) ::
         (2, a, a + (renderIdentWith nf).length) :: c0) with
    | nil => rw [hr] at hval; cases hval
    | cons y ys =>
      rw [hr] at hval
      simp only [List.head?_cons, Option.some.injEq] at hval
      subst hval
      apply head?_flatMap_cons
      have hf : ((3, a + (renderIdentWith nf).length + g1.length,
            a + (renderIdentWith nf).length + g1.length + op.length) ::
          (2, a, a + (renderIdentWith nf).length) :: c0).filter (fun e => e.1 != 4) =
          (3, a + (renderIdentWith nf).length + g1.length,
            a + (renderIdentWith nf).length + g1.length + op.length) ::
          (2, a, a + (renderIdentWith nf).length) :: c0 := by
        rw [List.filter_cons_of_pos (by rfl), List.filter_cons_of_pos (by rfl), hc0 4 (by omega)]
      simp only [hf]
      rw [htail]; rfl
  rw [e4]
  show (runsSeq pyFoldEnv s [.rep 0 (some 1) true rxAttrBody, gapRx true, .lit 93 true] _ _).head? = _
  rw [runsSeq_opt_cons]
  apply Ident.head?_append_of_some
  unfold rxAttrBody
  rw [runsSeq_seq_cons]
  show (runsSeq pyFoldEnv s [gapRx true, rxCmp, gapRx true, .group 4 rxValue, rxFlagOpt,
        gapRx true, .lit 93 true] _ _).head? = _
  rw [e6, e7, e8, e9]

/-- `[ g0 ns| …`: up to the attribute name, with the capture of the prefix. -/
theorem attr_ns_open {i : Nat} {g0 N : Str} (ns : SNs) (b : Nat × Caps)
    (hd : s.drop i = 91 :: (g0 ++ (ns.text ++ 124 :: N))) (hg0 : isGap g0) (hns : ns.ok N)
    (hk : (runsSeq pyFoldEnv s (.group 2 rxIdent :: attrRest) (i + 1 + g0.length + ns.text.length + 1)
      [(1, i + 1 + g0.length, i + 1 + g0.length + ns.text.length + 1)]).head? = some b) :
    matchAt pyFoldEnv Gen.tok_attribute s i = some b := by
  have h91 := getElem?_of_drop_cons hd
  have hil := lt_of_drop_cons hd
  have hd1 : s.drop (i + 1) = g0 ++ (ns.text ++ 124 :: N) := Ident.drop_succ_of_drop_cons hd
  have hda := drop_add_of_drop_append hd1
  obtain ⟨c, cs, hcs, hc⟩ := ns.head N hns
  have hnng : noGapStart (ns.text ++ 124 :: N) = true := by rw [hcs]; exact nsStart_noGap cs hc
  rw [tok_attribute_shape]
  unfold matchAt
  rw [runs_seq, lit_ok pyFoldEnv s 91 _ i [] h91,
    gap_then_drop Wsc.caseFree_pyFold s (i + 1) g0 _ [] _ hd1 hg0 hnng (by omega)
      (fun j c hj => fail_name s _ j c hj (by
        cases hu : unitEnd s j with
        | none => rw [hu] at hj; cases hj
        | some q => have := Wsc.unitEnd_bounds hu; omega)),
    nsOpt_present Ident.identFold_py s _ [] ns N _ hda hns]
  exact Ident.head?_append_of_some hk

end

end Compile
end Refine
end SoupVerif

#print axioms SoupVerif.Refine.Compile.attr_name_noop
#print axioms SoupVerif.Refine.Compile.attr_name_op
#print axioms SoupVerif.Refine.Compile.attr_ns_open
